package main

// C15: how cty/json/marshal.go gets bytes into its output buffer, re-read from the source.
//
// The Lean model of the encoder works on token trees; that the BYTES are valid JSON rests on
// two things outside it: encoding/json (its lexer reads the real output on every run, and its
// json.Marshal escapes the strings) and the fact recorded here — every string-like thing the
// encoder writes (string values, map keys, object attribute names) goes through the same
// json.Marshal call, everything else it writes is a literal of JSON punctuation, a number
// text, or the output of another encoder.
//
// `marshal` and `marshalDynamic` are walked in source order and every EVENT is recorded:
//
//	write   b.Write(x) | b.WriteString(x) | b.WriteRune(x) | b.WriteByte(x): method, source of x,
//	        and for an identifier x the right-hand side of the assignment that defines it in the
//	        same function (e.g. `json.Marshal(val.AsString())`)
//	call    marshal(v, t, path, b) | marshalDynamic(v, path, b): source of v and of t
//
// each with the innermost enclosing `case` clause.  Fails closed: any other use of the buffer
// `b` (passing it to another function, wrapping it in an encoder, …) is a broken tie.
// Also: the constant maxImpliedTypeDepth of type_implied.go.

import (
	"fmt"
	"go/ast"
	"path/filepath"
	"strings"
)

type jsonEvent struct {
	Fn, Branch, Kind, Method, Arg, Src string
}

func oneLine(n ast.Node) string { return strings.Join(strings.Fields(src(n)), " ") }

func jsonEmitEvents(files []*ast.File, fname string) []jsonEvent {
	fd := findFunc(files, fname)
	if fd == nil || fd.Body == nil {
		die("cty/json: function %s not found", fname)
	}
	// the buffer parameter must be `b *bytes.Buffer`
	hasB := false
	for _, f := range fd.Type.Params.List {
		for _, n := range f.Names {
			if n.Name == "b" && oneLine(f.Type) == "*bytes.Buffer" {
				hasB = true
			}
		}
	}
	if !hasB {
		die("cty/json %s: no parameter `b *bytes.Buffer`", fname)
	}
	// definitions of identifiers: name -> right-hand sides assigned in this function
	defs := map[string][]string{}
	ast.Inspect(fd.Body, func(n ast.Node) bool {
		if as, ok := n.(*ast.AssignStmt); ok && len(as.Rhs) == 1 {
			if id, ok := as.Lhs[0].(*ast.Ident); ok {
				defs[id.Name] = append(defs[id.Name], oneLine(as.Rhs[0]))
			}
		}
		return true
	})
	var evs []jsonEvent
	accounted := map[*ast.Ident]bool{}
	var stack []ast.Node
	branch := func() string {
		for i := len(stack) - 1; i >= 0; i-- {
			if cc, ok := stack[i].(*ast.CaseClause); ok {
				if cc.List == nil {
					return "default"
				}
				parts := make([]string, len(cc.List))
				for j, e := range cc.List {
					parts[j] = oneLine(e)
				}
				return strings.Join(parts, ", ")
			}
		}
		return ""
	}
	ast.Inspect(fd.Body, func(n ast.Node) bool {
		if n == nil {
			stack = stack[:len(stack)-1]
			return true
		}
		stack = append(stack, n)
		switch x := n.(type) {
		case *ast.FuncLit:
			die("cty/json %s: function literal at %s (not in the recognised fragment)", fname, fset.Position(x.Pos()))
		case *ast.CallExpr:
			if sel, ok := x.Fun.(*ast.SelectorExpr); ok {
				if id, ok := sel.X.(*ast.Ident); ok && id.Name == "b" {
					switch sel.Sel.Name {
					case "Write", "WriteString", "WriteRune", "WriteByte":
					default:
						die("cty/json %s: unrecognised method b.%s at %s", fname, sel.Sel.Name, fset.Position(x.Pos()))
					}
					if len(x.Args) != 1 {
						die("cty/json %s: b.%s with %d arguments at %s", fname, sel.Sel.Name, len(x.Args), fset.Position(x.Pos()))
					}
					accounted[id] = true
					ev := jsonEvent{Fn: fname, Branch: branch(), Kind: "write", Method: sel.Sel.Name, Arg: oneLine(x.Args[0])}
					if a, ok := x.Args[0].(*ast.Ident); ok {
						ds := defs[a.Name]
						if len(ds) != 1 {
							die("cty/json %s: %d definitions of %s written at %s", fname, len(ds), a.Name, fset.Position(x.Pos()))
						}
						ev.Src = ds[0]
					}
					evs = append(evs, ev)
				}
			}
			if id, ok := x.Fun.(*ast.Ident); ok && (id.Name == "marshal" || id.Name == "marshalDynamic") {
				want := 4
				if id.Name == "marshalDynamic" {
					want = 3
				}
				last, ok := x.Args[len(x.Args)-1].(*ast.Ident)
				if len(x.Args) != want || !ok || last.Name != "b" {
					die("cty/json %s: unrecognised call of %s at %s", fname, id.Name, fset.Position(x.Pos()))
				}
				accounted[last] = true
				ev := jsonEvent{Fn: fname, Branch: branch(), Kind: "call", Method: id.Name, Arg: oneLine(x.Args[0])}
				if id.Name == "marshal" {
					ev.Src = oneLine(x.Args[1])
				}
				evs = append(evs, ev)
			}
		}
		return true
	})
	// every mention of the buffer is one of the above
	ast.Inspect(fd.Body, func(n ast.Node) bool {
		if id, ok := n.(*ast.Ident); ok && id.Name == "b" && !accounted[id] {
			die("cty/json %s: the output buffer is used in an unrecognised way at %s", fname, fset.Position(id.Pos()))
		}
		return true
	})
	return evs
}

func writeJsonEmit(repo, leanDir, hdr string) int {
	files := parseDir(filepath.Join(repo, "cty/json"))
	evs := append(jsonEmitEvents(files, "marshal"), jsonEmitEvents(files, "marshalDynamic")...)
	var lb strings.Builder
	lb.WriteString(hdr + "namespace CtyModel.Generated\n\n")
	lb.WriteString("/-- one event of cty/json's encoder, in source order: a write into the output buffer (`kind = \"write\"`:\n`method` of bytes.Buffer, `arg` its argument, `src` the expression an identifier argument was assigned from) or a\nrecursive call (`kind = \"call\"`: `method` the callee, `arg` the value expression, `src` the type expression);\n`branch` is the innermost enclosing `case` -/\n")
	lb.WriteString("structure JsonEmitEvent where\n  fn : String\n  branch : String\n  kind : String\n  method : String\n  arg : String\n  src : String\n  deriving Repr, DecidableEq\n\n")
	lb.WriteString("/-- cty/json/marshal.go: everything `marshal` and `marshalDynamic` do with their output buffer -/\ndef jsonEmitEvents : List JsonEmitEvent := [\n")
	for i, e := range evs {
		sep := ","
		if i == len(evs)-1 {
			sep = ""
		}
		fmt.Fprintf(&lb, "  { fn := %s, branch := %s, kind := %s, method := %s, arg := %s, src := %s }%s\n",
			leanStr(e.Fn), leanStr(e.Branch), leanStr(e.Kind), leanStr(e.Method), leanStr(e.Arg), leanStr(e.Src), sep)
	}
	lb.WriteString("]\n\n")
	fmt.Fprintf(&lb, "/-- cty/json/type_implied.go: arrays and objects nested deeper than this make ImpliedType fail (`depth >= N`) -/\ndef jsonMaxImpliedTypeDepth : Nat := %d\n", intConst(files, "maxImpliedTypeDepth"))
	// the limit is used in exactly one comparison, `depth >= maxImpliedTypeDepth`
	nuse := 0
	for _, f := range files {
		ast.Inspect(f, func(n ast.Node) bool {
			if be, ok := n.(*ast.BinaryExpr); ok && strings.Contains(oneLine(be), "maxImpliedTypeDepth") {
				if oneLine(be) != "depth >= maxImpliedTypeDepth" {
					die("cty/json: unrecognised use of maxImpliedTypeDepth: %s", oneLine(be))
				}
				nuse++
			}
			return true
		})
	}
	if nuse != 1 {
		die("cty/json: %d comparisons with maxImpliedTypeDepth (expected 1)", nuse)
	}
	lb.WriteString("\nend CtyModel.Generated\n")
	writeIfChanged(filepath.Join(leanDir, "JsonEmit.lean"), lb.String())
	return len(evs)
}
