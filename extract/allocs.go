package main

// d17: what bounds the memory the two wire decoders (cty/msgpack, cty/json)
// allocate up front.  Two kinds of fact are re-read from the source:
//
//  1. two more limits for Generated/Limits.lean (limitsExtra):
//     json's maxImpliedTypeDepth together with the guard that applies it, and
//     the clamp of msgpack's allocHint together with its body;
//  2. Generated/DecoderAllocs.lean (writeDecoderAllocs): one row for EVERY
//     `make(` call in the non-test files of cty/msgpack and cty/json, with the
//     provenance of its length and capacity arguments.
//
// Recognised size expressions (anything else is a broken tie, exit 1):
//
//	(omitted)                         none
//	<int literal>                     const n
//	allocHint(e)                      clamped     (only in a package whose allocHint has the verified body)
//	len(x)                            lenOfData   (allow-list lenOfDataSites, and x must be defined once, by the listed call)
//	x, x defined once by `… := r.DecodeXxx()`
//	                                  rawHeader   (an integer the input announces, not backed by content)
//	    except extLen in msgpack's unmarshalUnknownValue under one of its two
//	    verified guards (extGuard)    clamped
//
// Identifiers are followed through go/parser's per-file object resolution
// (ast.Ident.Obj), so a local that shadows `make`, `len` or `allocHint` is
// noticed and refused.

import (
	"fmt"
	"go/ast"
	"go/token"
	"path/filepath"
	"strconv"
	"strings"
)

// ---------------------------------------------------------------- helpers

// (isIdent is in translate_fn.go)

func intLit(e ast.Expr) (int, bool) {
	bl, ok := e.(*ast.BasicLit)
	if !ok || bl.Kind != token.INT {
		return 0, false
	}
	v, err := strconv.ParseInt(bl.Value, 0, 64)
	if err != nil || v < 0 {
		return 0, false
	}
	return int(v), true
}

func posOf(n ast.Node) string {
	p := fset.Position(n.Pos())
	return fmt.Sprintf("%s:%d", p.Filename, p.Line)
}

func baseFile(n ast.Node) string { return filepath.Base(fset.Position(n.Pos()).Filename) }

// findFuncIn is findFunc restricted to one file name; more than one match is an error.
func findFuncIn(files []*ast.File, file, name string) *ast.FuncDecl {
	var out *ast.FuncDecl
	for _, f := range files {
		for _, d := range f.Decls {
			if fd, ok := d.(*ast.FuncDecl); ok && fd.Name.Name == name && fd.Recv == nil {
				if out != nil {
					die("func %s: declared more than once", name)
				}
				if baseFile(fd) != file {
					die("func %s: expected in %s, found in %s", name, file, baseFile(fd))
				}
				out = fd
			}
		}
	}
	if out == nil {
		die("func %s not found (expected in %s)", name, file)
	}
	return out
}

// paramNames lists the parameter names of fd in order.
func paramNames(fd *ast.FuncDecl) []string {
	var ns []string
	for _, fl := range fd.Type.Params.List {
		for _, n := range fl.Names {
			ns = append(ns, n.Name)
		}
	}
	return ns
}

func hasParam(fd *ast.FuncDecl, name, typ string) bool {
	for _, fl := range fd.Type.Params.List {
		for _, n := range fl.Names {
			if n.Name == name && src(fl.Type) == typ {
				return true
			}
		}
	}
	return false
}

// returnsError: `return X, <something that is not nil>` as the LAST statement of a block.
func endsInErrorReturn(b *ast.BlockStmt) bool {
	if len(b.List) == 0 {
		return false
	}
	r, ok := b.List[len(b.List)-1].(*ast.ReturnStmt)
	if !ok || len(r.Results) != 2 || isIdent(r.Results[1], "nil") {
		return false
	}
	_, isCall := r.Results[1].(*ast.CallExpr) // fmt.Errorf(…), path.NewErrorf(…), errors.New(…)
	return isCall
}

// ---------------------------------------------------------------- limits

// jsonImpliedTypeDepth reads `const maxImpliedTypeDepth = N` of cty/json/type_implied.go
// and checks that the limit is applied: impliedTypeForTok refuses with an error when
// `depth >= maxImpliedTypeDepth` BEFORE it descends, the two descents pass depth+1, and
// every call of impliedTypeForTok passes its own depth on (or 0 at the entry point).
func jsonImpliedTypeDepth(js []*ast.File) int {
	const cname, file = "maxImpliedTypeDepth", "type_implied.go"
	val, n := 0, 0
	for _, f := range js {
		for _, d := range f.Decls {
			gd, ok := d.(*ast.GenDecl)
			if !ok || (gd.Tok != token.CONST && gd.Tok != token.VAR) {
				continue
			}
			for _, sp := range gd.Specs {
				vs := sp.(*ast.ValueSpec)
				for i, id := range vs.Names {
					if id.Name != cname {
						continue
					}
					if gd.Tok != token.CONST || baseFile(id) != file || i >= len(vs.Values) {
						die("%s: %s is not a constant of cty/json/%s with a value", posOf(id), cname, file)
					}
					v, ok := intLit(vs.Values[i])
					if !ok {
						die("%s: %s = %s is not an integer literal", posOf(id), cname, src(vs.Values[i]))
					}
					val, n = v, n+1
				}
			}
		}
	}
	if n != 1 {
		die("cty/json: constant %s: found %d package-level definitions", cname, n)
	}

	fd := findFuncIn(js, file, "impliedTypeForTok")
	if !hasParam(fd, "depth", "int") {
		die("%s: impliedTypeForTok has no parameter `depth int`", posOf(fd))
	}
	// no assignment to depth and no local that shadows it or the constant
	ast.Inspect(fd.Body, func(nd ast.Node) bool {
		switch x := nd.(type) {
		case *ast.AssignStmt:
			for _, l := range x.Lhs {
				if isIdent(l, "depth") || isIdent(l, cname) {
					die("%s: impliedTypeForTok assigns to %s", posOf(x), src(l))
				}
			}
		case *ast.IncDecStmt:
			if isIdent(x.X, "depth") {
				die("%s: impliedTypeForTok modifies depth", posOf(x))
			}
		case *ast.ValueSpec:
			for _, id := range x.Names {
				if id.Name == "depth" || id.Name == cname {
					die("%s: impliedTypeForTok redeclares %s", posOf(x), id.Name)
				}
			}
		}
		return true
	})

	// the guard: a statement `if depth >= maxImpliedTypeDepth { …; return X, err }` of some case clause
	var guardClause *ast.CaseClause
	guardIdx := -1
	ast.Inspect(fd.Body, func(nd ast.Node) bool {
		cc, ok := nd.(*ast.CaseClause)
		if !ok {
			return true
		}
		for i, st := range cc.Body {
			is, ok := st.(*ast.IfStmt)
			if !ok || is.Init != nil || is.Else != nil {
				continue
			}
			b, ok := is.Cond.(*ast.BinaryExpr)
			if !ok || b.Op != token.GEQ || !isIdent(b.X, "depth") || !isIdent(b.Y, cname) {
				continue
			}
			if !endsInErrorReturn(is.Body) {
				die("%s: the body of `if %s` does not end in `return …, <error>`", posOf(is), src(is.Cond))
			}
			if guardClause != nil {
				die("%s: second `if depth >= %s` in impliedTypeForTok", posOf(is), cname)
			}
			guardClause, guardIdx = cc, i
		}
		return true
	})
	if guardClause == nil {
		die("%s: impliedTypeForTok has no `if depth >= %s { return …, <error> }`", posOf(fd), cname)
	}

	// the descents: all inside the statements that FOLLOW the guard in its case clause, all with depth+1
	seen := map[string]int{}
	checkDescent := func(c *ast.CallExpr, name string) {
		if len(c.Args) != 2 {
			die("%s: %s: expected (dec, depth+1)", posOf(c), src(c))
		}
		b, ok := c.Args[1].(*ast.BinaryExpr)
		one, isLit := 0, false
		if ok {
			one, isLit = intLit(b.Y)
		}
		if !ok || b.Op != token.ADD || !isIdent(b.X, "depth") || !isLit || one != 1 {
			die("%s: %s does not pass depth+1", posOf(c), src(c))
		}
		seen[name]++
	}
	isDescent := func(nd ast.Node) (*ast.CallExpr, string) {
		c, ok := nd.(*ast.CallExpr)
		if !ok {
			return nil, ""
		}
		id, ok := c.Fun.(*ast.Ident)
		if !ok || (id.Name != "impliedObjectType" && id.Name != "impliedTupleType") {
			return nil, ""
		}
		return c, id.Name
	}
	total := 0
	ast.Inspect(fd.Body, func(nd ast.Node) bool {
		if c, _ := isDescent(nd); c != nil {
			total++
		}
		return true
	})
	for _, st := range guardClause.Body[guardIdx+1:] {
		ast.Inspect(st, func(nd ast.Node) bool {
			if c, name := isDescent(nd); c != nil {
				checkDescent(c, name)
			}
			return true
		})
	}
	if seen["impliedObjectType"] == 0 || seen["impliedTupleType"] == 0 {
		die("%s: impliedTypeForTok: no impliedObjectType(dec, depth+1) / impliedTupleType(dec, depth+1) after the depth guard", posOf(fd))
	}
	if seen["impliedObjectType"]+seen["impliedTupleType"] != total {
		die("%s: impliedTypeForTok descends (impliedObjectType/impliedTupleType) outside the statements guarded by `depth >= %s`", posOf(fd), cname)
	}

	// depth is threaded: impliedTypeForTok(tok, dec, depth) inside a function with a `depth int` parameter, or 0
	ncalls := 0
	for _, f := range js {
		for _, d := range f.Decls {
			caller, ok := d.(*ast.FuncDecl)
			if !ok || caller.Body == nil {
				continue
			}
			ast.Inspect(caller.Body, func(nd ast.Node) bool {
				c, ok := nd.(*ast.CallExpr)
				if !ok || !isIdent(c.Fun, "impliedTypeForTok") {
					return true
				}
				ncalls++
				if len(c.Args) != 3 {
					die("%s: %s: expected three arguments", posOf(c), src(c))
				}
				if v, ok := intLit(c.Args[2]); ok && v == 0 {
					return true
				}
				if isIdent(c.Args[2], "depth") && hasParam(caller, "depth", "int") {
					return true
				}
				die("%s: %s passes neither its own `depth` parameter nor 0", posOf(c), src(c))
				return true
			})
		}
	}
	if ncalls == 0 {
		die("cty/json: impliedTypeForTok is never called")
	}
	return val
}

// msgpackAllocHint reads the clamp of cty/msgpack's allocHint and checks that its body is
//
//	const max = N
//	if announced > max { return max }
//	return announced
func msgpackAllocHint(mp []*ast.File) int {
	fd := findFuncIn(mp, "unmarshal.go", "allocHint")
	bad := func(why string) {
		die("%s: allocHint: %s (expected `const max = N; if announced > max { return max }; return announced`)", posOf(fd), why)
	}
	ps := paramNames(fd)
	if len(ps) != 1 || !hasParam(fd, ps[0], "int") || fd.Type.Results == nil || len(fd.Type.Results.List) != 1 || src(fd.Type.Results.List[0].Type) != "int" || len(fd.Type.Results.List[0].Names) != 0 {
		bad("signature is not func(int) int")
	}
	arg := ps[0]
	if fd.Body == nil || len(fd.Body.List) != 3 {
		bad("body is not three statements")
	}
	ds, ok := fd.Body.List[0].(*ast.DeclStmt)
	if !ok {
		bad("first statement is not a const declaration")
	}
	gd, ok := ds.Decl.(*ast.GenDecl)
	if !ok || gd.Tok != token.CONST || len(gd.Specs) != 1 {
		bad("first statement is not a single const declaration")
	}
	vs := gd.Specs[0].(*ast.ValueSpec)
	if len(vs.Names) != 1 || len(vs.Values) != 1 {
		bad("first statement is not `const max = N`")
	}
	cname := vs.Names[0].Name
	n, ok := intLit(vs.Values[0])
	if !ok || cname == arg {
		bad("the constant is not an integer literal")
	}
	is, ok := fd.Body.List[1].(*ast.IfStmt)
	if !ok || is.Init != nil || is.Else != nil || len(is.Body.List) != 1 {
		bad("second statement is not a plain if with one statement")
	}
	c, ok := is.Cond.(*ast.BinaryExpr)
	if !ok || c.Op != token.GTR || !isIdent(c.X, arg) || !isIdent(c.Y, cname) {
		bad("condition is not `" + arg + " > " + cname + "`")
	}
	r1, ok := is.Body.List[0].(*ast.ReturnStmt)
	if !ok || len(r1.Results) != 1 || !isIdent(r1.Results[0], cname) {
		bad("the if does not `return " + cname + "`")
	}
	r2, ok := fd.Body.List[2].(*ast.ReturnStmt)
	if !ok || len(r2.Results) != 1 || !isIdent(r2.Results[0], arg) {
		bad("last statement is not `return " + arg + "`")
	}
	return n
}

// limitsExtra is appended to Generated/Limits.lean.
func limitsExtra(repo string, mp []*ast.File) string {
	js := parseDir(filepath.Join(repo, "cty/json"))
	var b strings.Builder
	fmt.Fprintf(&b, "/-- cty/json ImpliedType: arrays/objects nested this deep or deeper are refused (`const maxImpliedTypeDepth`;\nchecked: `if depth >= maxImpliedTypeDepth { return …, error }` precedes both descents, which pass `depth+1`) -/\ndef jsonImpliedTypeDepthLimit : Nat := %d\n", jsonImpliedTypeDepth(js))
	fmt.Fprintf(&b, "/-- cty/msgpack: most elements pre-allocated on the word of a length header (`const max` of `allocHint`;\nchecked body: `if announced > max { return max }; return announced`) -/\ndef msgpackAllocHintMax : Nat := %d\n", msgpackAllocHint(mp))
	return b.String()
}

// ---------------------------------------------------------------- make( sites

type allocSite struct {
	File, Func, Kind, Src string
	Line                  int
	Len, Cap              string // Lean terms of type AllocSize
}

// lenOfDataSites: the `len(x)` arguments accepted as "length of data that is already
// in memory", keyed by file, function and expression; x must be defined exactly once
// in that function, by a call of the listed method (checked through Ident.Obj).
var lenOfDataSites = map[[3]string]string{
	// marshal side: the attribute map of an in-memory cty.Type
	{"cty/msgpack/marshal.go", "marshal", "len(atys)"}: "AttributeTypes",
	{"cty/json/marshal.go", "marshal", "len(atys)"}:    "AttributeTypes",
}

// every assignment/definition in body whose left side is the object obj
func assignsTo(body *ast.BlockStmt, obj *ast.Object) (defs []*ast.AssignStmt, other int) {
	ast.Inspect(body, func(nd ast.Node) bool {
		switch x := nd.(type) {
		case *ast.AssignStmt:
			for _, l := range x.Lhs {
				if id, ok := l.(*ast.Ident); ok && id.Obj == obj {
					defs = append(defs, x)
				}
			}
		case *ast.IncDecStmt:
			if id, ok := x.X.(*ast.Ident); ok && id.Obj == obj {
				other++
			}
		case *ast.RangeStmt:
			for _, e := range []ast.Expr{x.Key, x.Value} {
				if id, ok := e.(*ast.Ident); ok && id.Obj == obj {
					other++
				}
			}
		case *ast.UnaryExpr:
			if id, ok := x.X.(*ast.Ident); ok && x.Op == token.AND && id.Obj == obj {
				other++ // &x: may be written through the pointer
			}
		}
		return true
	})
	return
}

// definingCall: the variable behind id is defined exactly once in fd, by
// `…, id, … := recv.Method(…)`, never modified afterwards; returns Method.
func definingCall(fd *ast.FuncDecl, id *ast.Ident) (method string, ok bool) {
	if id.Obj == nil || id.Obj.Kind != ast.Var {
		return "", false
	}
	defs, other := assignsTo(fd.Body, id.Obj)
	if len(defs) != 1 || other != 0 {
		return "", false
	}
	as := defs[0]
	if as.Tok != token.DEFINE || id.Obj.Decl != ast.Node(as) || len(as.Rhs) != 1 {
		return "", false
	}
	call, isCall := as.Rhs[0].(*ast.CallExpr)
	if !isCall {
		return "", false
	}
	sel, isSel := call.Fun.(*ast.SelectorExpr)
	if !isSel {
		return "", false
	}
	return sel.Sel.Name, true
}

// extGuard decides whether the make call at `stack` (innermost last; stack[0] is a
// statement of fd.Body.List) in msgpack's unmarshalUnknownValue is dominated by one of
// the two guards on extLen:
//
//	(a) it lies in the THEN branch of an enclosing `if extLen <= K` with K <= maxExt, or
//	(b) an earlier statement of the function body is `if extLen > maxExt { …; return …, <error> }`.
//
// maxExt is msgpackMaxExtLen as already extracted for Limits.lean.
func extGuard(fd *ast.FuncDecl, obj *ast.Object, stack []ast.Node, maxExt int) bool {
	isExt := func(e ast.Expr) bool { id, ok := e.(*ast.Ident); return ok && id.Obj == obj }
	// "an earlier statement runs first" needs a body without goto and labels
	ast.Inspect(fd.Body, func(nd ast.Node) bool {
		switch x := nd.(type) {
		case *ast.LabeledStmt:
			die("%s: label in %s: the guards on extLen cannot be ordered", posOf(x), fd.Name.Name)
		case *ast.BranchStmt:
			if x.Tok == token.GOTO {
				die("%s: goto in %s: the guards on extLen cannot be ordered", posOf(x), fd.Name.Name)
			}
		}
		return true
	})
	// (a)
	for i, nd := range stack {
		is, ok := nd.(*ast.IfStmt)
		if !ok || i+1 >= len(stack) || stack[i+1] != ast.Node(is.Body) {
			continue
		}
		if b, ok := is.Cond.(*ast.BinaryExpr); ok && b.Op == token.LEQ && isExt(b.X) {
			if k, ok := intLit(b.Y); ok && k <= maxExt {
				return true
			}
		}
	}
	// (b)
	for _, st := range fd.Body.List {
		if st == stack[0] {
			break
		}
		is, ok := st.(*ast.IfStmt)
		if !ok || is.Init != nil || is.Else != nil {
			continue
		}
		b, ok := is.Cond.(*ast.BinaryExpr)
		if !ok || b.Op != token.GTR || !isExt(b.X) {
			continue
		}
		k, ok := intLit(b.Y)
		if !ok || k == 0 {
			continue
		}
		if k != maxExt {
			die("%s: guard `%s` disagrees with msgpackMaxExtLen = %d", posOf(is), src(is.Cond), maxExt)
		}
		if !endsInErrorReturn(is.Body) {
			die("%s: the body of `if %s` does not end in `return …, <error>`", posOf(is), src(is.Cond))
		}
		return true
	}
	return false
}

type allocCtx struct {
	rel       string // "cty/msgpack/unknown.go"
	fd        *ast.FuncDecl
	hasHint   bool // this package's allocHint has the verified body
	maxExt    int
	stack     []ast.Node // from the statement of fd.Body.List down to the make call
	call      *ast.CallExpr
	fnDisplay string
}

func (c *allocCtx) unknown(e ast.Expr, why string) {
	p := fset.Position(c.call.Pos())
	die("%s:%d: unknown allocation shape: `%s` in %s (func %s): %s", c.rel, p.Line, src(e), src(c.call), c.fnDisplay, why)
}

// classify returns the Lean AllocSize term for one length/capacity argument.
func (c *allocCtx) classify(e ast.Expr) string {
	if e == nil {
		return ".none"
	}
	if p, ok := e.(*ast.ParenExpr); ok {
		return c.classify(p.X)
	}
	if n, ok := intLit(e); ok {
		return fmt.Sprintf(".const %d", n)
	}
	switch x := e.(type) {
	case *ast.CallExpr:
		fn, ok := x.Fun.(*ast.Ident)
		if !ok || len(x.Args) != 1 || x.Ellipsis.IsValid() {
			c.unknown(e, "not one of allocHint(e), len(x)")
		}
		switch fn.Name {
		case "allocHint":
			if !c.hasHint {
				c.unknown(e, "this package has no verified allocHint")
			}
			if fn.Obj != nil {
				if _, isFn := fn.Obj.Decl.(*ast.FuncDecl); !isFn {
					c.unknown(e, "allocHint is shadowed by a local")
				}
			}
			return ".clamped"
		case "len":
			if fn.Obj != nil {
				c.unknown(e, "len is shadowed")
			}
			want, listed := lenOfDataSites[[3]string{c.rel, c.fd.Name.Name, src(e)}]
			if !listed {
				c.unknown(e, "len(…) of something that is not on the allow-list lenOfDataSites of extract/allocs.go")
			}
			id, ok := x.Args[0].(*ast.Ident)
			if !ok {
				c.unknown(e, "len of a non-identifier")
			}
			if m, ok := definingCall(c.fd, id); !ok || m != want {
				c.unknown(e, fmt.Sprintf("%s is not defined exactly once by `%s := ….%s()`", id.Name, id.Name, want))
			}
			return ".lenOfData"
		}
		c.unknown(e, "call of "+fn.Name)
	case *ast.Ident:
		m, ok := definingCall(c.fd, x)
		if !ok {
			c.unknown(e, "identifier that is not defined exactly once by `… := r.Method(…)` in this function (or is modified later)")
		}
		if !strings.HasPrefix(m, "Decode") {
			c.unknown(e, "defined by ."+m+"(…), which is not a Decode… method")
		}
		// an integer announced by the input
		if c.rel == "cty/msgpack/unknown.go" && c.fd.Name.Name == "unmarshalUnknownValue" && x.Name == "extLen" && m == "DecodeExtHeader" {
			if extGuard(c.fd, x.Obj, c.stack, c.maxExt) {
				return ".clamped"
			}
		}
		return ".rawHeader"
	}
	c.unknown(e, "neither a literal, allocHint(e), len(x) nor a plain identifier")
	return ""
}

// collectAllocs walks one package directory (relative to repo, e.g. "cty/msgpack").
func collectAllocs(repo, pkg string, files []*ast.File, hasHint bool, maxExt int) []allocSite {
	var out []allocSite
	for _, f := range files {
		rel := pkg + "/" + baseFile(f)
		inFunc := map[*ast.CallExpr]bool{}
		site := func(fd *ast.FuncDecl, stack []ast.Node, call *ast.CallExpr) {
			id := call.Fun.(*ast.Ident)
			if id.Obj != nil {
				die("%s: make is shadowed", posOf(call))
			}
			c := &allocCtx{rel: rel, fd: fd, hasHint: hasHint, maxExt: maxExt, stack: stack, call: call, fnDisplay: fd.Name.Name}
			if len(call.Args) < 1 || len(call.Args) > 3 {
				c.unknown(call, "make with an unexpected number of arguments")
			}
			s := allocSite{File: rel, Func: fd.Name.Name, Line: fset.Position(call.Pos()).Line, Src: strings.Join(strings.Fields(src(call)), " ")}
			if fd.Recv != nil && len(fd.Recv.List) == 1 {
				s.Func = "(" + src(fd.Recv.List[0].Type) + ")." + s.Func
			}
			var a1, a2 ast.Expr
			if len(call.Args) > 1 {
				a1 = call.Args[1]
			}
			if len(call.Args) > 2 {
				a2 = call.Args[2]
			}
			switch t := call.Args[0].(type) {
			case *ast.ArrayType:
				if t.Len != nil {
					c.unknown(call.Args[0], "make of an array type")
				}
				if a1 == nil {
					c.unknown(call, "make of a slice without a length")
				}
				s.Kind, s.Len, s.Cap = "slice", c.classify(a1), c.classify(a2)
			case *ast.MapType:
				if a2 != nil {
					c.unknown(call, "make of a map with three arguments")
				}
				// the optional argument of a map is a size hint: the new map has length 0
				s.Kind, s.Len, s.Cap = "map", ".none", c.classify(a1)
			case *ast.ChanType:
				if a2 != nil {
					c.unknown(call, "make of a channel with three arguments")
				}
				s.Kind, s.Len, s.Cap = "chan", ".none", c.classify(a1)
			default:
				c.unknown(call.Args[0], "make of a named type (slice, map or channel literal types only)")
			}
			out = append(out, s)
		}
		for _, d := range f.Decls {
			fd, ok := d.(*ast.FuncDecl)
			if !ok || fd.Body == nil {
				continue
			}
			for _, top := range fd.Body.List {
				var stack []ast.Node
				ast.Inspect(top, func(nd ast.Node) bool {
					if nd == nil {
						stack = stack[:len(stack)-1]
						return true
					}
					stack = append(stack, nd)
					if call, ok := nd.(*ast.CallExpr); ok && isIdent(call.Fun, "make") {
						inFunc[call] = true
						site(fd, append([]ast.Node(nil), stack...), call)
					}
					return true
				})
			}
		}
		// a make outside every function body (package-level initialiser) is not a recognised place
		ast.Inspect(f, func(nd ast.Node) bool {
			if call, ok := nd.(*ast.CallExpr); ok && isIdent(call.Fun, "make") && !inFunc[call] {
				die("%s: unknown allocation shape: `%s` outside a function body", posOf(call), src(call))
			}
			return true
		})
	}
	return out
}

// writeDecoderAllocs emits Generated/DecoderAllocs.lean; returns the number of sites.
func writeDecoderAllocs(repo, leanDir, hdr string, mp []*ast.File, maxExt int) int {
	msgpackAllocHint(mp) // the body that makes `allocHint(e)` a clamp (dies otherwise)
	sites := collectAllocs(repo, "cty/msgpack", mp, true, maxExt)
	sites = append(sites, collectAllocs(repo, "cty/json", parseDir(filepath.Join(repo, "cty/json")), false, maxExt)...)
	if len(sites) == 0 {
		die("no make( call found in cty/msgpack and cty/json")
	}
	var b strings.Builder
	b.WriteString(hdr + "namespace CtyModel.Generated\n\n")
	b.WriteString(`/-- where one length/capacity argument of a ` + "`make`" + ` call comes from:
` + "`const n`" + ` an integer literal; ` + "`lenOfData`" + ` ` + "`len(x)`" + ` of a Go value that is already in memory;
` + "`clamped`" + ` ` + "`allocHint(e)`" + ` (at most msgpackAllocHintMax), or msgpack's ` + "`extLen`" + ` under a verified guard
(at most msgpackMaxExtLen); ` + "`rawHeader`" + ` an integer decoded from the input (` + "`x := dec.DecodeXxx()`" + `) used as it
stands; ` + "`none`" + ` argument omitted -/
inductive AllocSize where
  | const (n : Nat)
  | lenOfData
  | clamped
  | rawHeader
  | none
  deriving DecidableEq, Repr

/-- one ` + "`make(`" + ` call of the non-test source of cty/msgpack or cty/json.  For a map or a channel the optional
second argument (size hint, buffer size) is recorded as ` + "`cap`" + `, and ` + "`len`" + ` is ` + "`none`" + `. -/
structure AllocSite where
  file : String
  func : String
  line : Nat
  kind : String   -- "slice" | "map" | "chan"
  len : AllocSize
  cap : AllocSize
  src : String    -- the call as written (whitespace-normalised)
  deriving DecidableEq, Repr

/-- EVERY ` + "`make(`" + ` call in cty/msgpack/*.go and cty/json/*.go (without _test.go), in file order; the extractor
stops with an error on a length or capacity expression it cannot classify -/
def decoderAllocSites : List AllocSite := [
`)
	for i, s := range sites {
		sep := ","
		if i == len(sites)-1 {
			sep = ""
		}
		fmt.Fprintf(&b, "  { file := %s, func := %s, line := %d, kind := %s, len := %s, cap := %s,\n    src := %s }%s\n",
			leanStr(s.File), leanStr(s.Func), s.Line, leanStr(s.Kind), s.Len, s.Cap, leanStr(s.Src), sep)
	}
	b.WriteString("]\n\nend CtyModel.Generated\n")
	writeIfChanged(filepath.Join(leanDir, "DecoderAllocs.lean"), b.String())
	return len(sites)
}
