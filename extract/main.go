// ctyextract re-reads facts that the go-cty SOURCE states as data or as a fixed
// syntactic pattern and writes them as Lean definitions under
// lean/CtyModel/Generated/ (and one Go table for the harness).  It runs on every
// check, so the theorems that mention these tables are re-checked against what
// the code says now.  It fails closed: a shape it does not recognise is an
// error (a broken tie), never a silent skip.
//
//	go run . -repo /repo -lean ../lean/CtyModel/Generated -harness ../harness
//
// Only the standard library (go/ast, go/parser, go/printer) is used.
package main

import (
	"bytes"
	"flag"
	"fmt"
	"go/ast"
	"go/parser"
	"go/printer"
	"go/token"
	"os"
	"path/filepath"
	"sort"
	"strconv"
	"strings"
)

var fset = token.NewFileSet()

func die(f string, a ...interface{}) {
	fmt.Fprintf(os.Stderr, "ctyextract: "+f+"\n", a...)
	os.Exit(1)
}

func src(n ast.Node) string {
	var b bytes.Buffer
	printer.Fprint(&b, fset, n)
	return b.String()
}

func parseDir(dir string) []*ast.File {
	ents, err := os.ReadDir(dir)
	if err != nil {
		die("%v", err)
	}
	var fs []*ast.File
	for _, e := range ents {
		n := e.Name()
		if e.IsDir() || !strings.HasSuffix(n, ".go") || strings.HasSuffix(n, "_test.go") || strings.HasPrefix(n, "verif_") {
			continue
		}
		f, err := parser.ParseFile(fset, filepath.Join(dir, n), nil, parser.ParseComments)
		if err != nil {
			die("%v", err)
		}
		fs = append(fs, f)
	}
	if len(fs) == 0 {
		die("no Go files in %s", dir)
	}
	return fs
}

func leanStr(s string) string {
	var b strings.Builder
	b.WriteByte('"')
	for _, r := range s {
		switch {
		case r == '"':
			b.WriteString("\\\"")
		case r == '\\':
			b.WriteString("\\\\")
		case r == '\n':
			b.WriteString("\\n")
		case r == '\t':
			b.WriteString("\\t")
		case r < 0x20 || r == 0x7f:
			fmt.Fprintf(&b, "\\x%02x", r)
		default:
			b.WriteRune(r)
		}
	}
	b.WriteByte('"')
	return b.String()
}

func leanStrList(ss []string) string {
	q := make([]string, len(ss))
	for i, s := range ss {
		q[i] = leanStr(s)
	}
	return "[" + strings.Join(q, ", ") + "]"
}

// writeIfChanged keeps mtimes stable so `lake build` stays incremental.
func writeIfChanged(path, content string) {
	if old, err := os.ReadFile(path); err == nil && string(old) == content {
		return
	}
	if err := os.MkdirAll(filepath.Dir(path), 0o755); err != nil {
		die("%v", err)
	}
	if err := os.WriteFile(path, []byte(content), 0o644); err != nil {
		die("%v", err)
	}
}

// ---------------------------------------------------------------- stdlib

type stdFn struct {
	Var      string
	File     string
	TypeKind string   // "static" | "dynamic"
	TypeExpr string   // the argument of function.StaticReturnType, or ""
	Refine   string   // "none" | "refineNonNull" | "inline"
	Heads    []string // head of every `return X, nil` inside Impl
	NParams  int
	HasVar   bool
}

func kvs(cl *ast.CompositeLit) map[string]ast.Expr {
	m := map[string]ast.Expr{}
	for _, e := range cl.Elts {
		kv, ok := e.(*ast.KeyValueExpr)
		if !ok {
			die("%s: spec literal with positional fields", fset.Position(e.Pos()))
		}
		m[src(kv.Key)] = kv.Value
	}
	return m
}

// head classifies the expression returned together with a nil error.
func head(e ast.Expr) string {
	switch x := e.(type) {
	case *ast.CallExpr:
		switch f := x.Fun.(type) {
		case *ast.SelectorExpr:
			if id, ok := f.X.(*ast.Ident); ok && (id.Name == "cty" || id.Name == "function" || id.Name == "convert" || id.Name == "json" || id.Name == "stdlib") {
				return id.Name + "." + f.Sel.Name
			}
			return "method." + f.Sel.Name
		case *ast.Ident:
			return "call." + f.Name
		}
		return "call"
	case *ast.SelectorExpr:
		if id, ok := x.X.(*ast.Ident); ok && id.Name == "cty" {
			return "cty." + x.Sel.Name
		}
		return "field." + x.Sel.Name
	case *ast.Ident:
		return "ident." + x.Name
	case *ast.IndexExpr:
		return "index." + src(x.X)
	}
	return "other"
}

func implHeads(fn ast.Expr) []string {
	fl, ok := fn.(*ast.FuncLit)
	if !ok {
		return []string{"external." + src(fn)}
	}
	set := map[string]bool{}
	ast.Inspect(fl.Body, func(n ast.Node) bool {
		if inner, ok := n.(*ast.FuncLit); ok && inner != fl {
			return false // returns of nested closures are not Impl's
		}
		r, ok := n.(*ast.ReturnStmt)
		if !ok {
			return true
		}
		switch len(r.Results) {
		case 0:
			set["naked"] = true
		case 1:
			set["forward."+head(r.Results[0])] = true
		case 2:
			if id, ok := r.Results[1].(*ast.Ident); ok && id.Name == "nil" {
				set[head(r.Results[0])] = true
			} else {
				set["error"] = true
			}
		default:
			die("%s: return with %d results in Impl", fset.Position(r.Pos()), len(r.Results))
		}
		return true
	})
	var hs []string
	for h := range set {
		hs = append(hs, h)
	}
	sort.Strings(hs)
	return hs
}

func extractStdlib(repo string) []stdFn {
	var out []stdFn
	for _, f := range parseDir(filepath.Join(repo, "cty/function/stdlib")) {
		fname := filepath.Base(fset.Position(f.Pos()).Filename)
		for _, d := range f.Decls {
			gd, ok := d.(*ast.GenDecl)
			if !ok || gd.Tok != token.VAR {
				continue
			}
			for _, sp := range gd.Specs {
				vs := sp.(*ast.ValueSpec)
				for i, name := range vs.Names {
					if !strings.HasSuffix(name.Name, "Func") || !name.IsExported() || i >= len(vs.Values) {
						continue
					}
					call, ok := vs.Values[i].(*ast.CallExpr)
					if !ok || src(call.Fun) != "function.New" || len(call.Args) != 1 {
						die("%s: %s is not function.New(&function.Spec{…})", fset.Position(name.Pos()), name.Name)
					}
					un, ok := call.Args[0].(*ast.UnaryExpr)
					if !ok {
						die("%s: %s: argument is not &function.Spec{…}", fset.Position(name.Pos()), name.Name)
					}
					cl, ok := un.X.(*ast.CompositeLit)
					if !ok || src(cl.Type) != "function.Spec" {
						die("%s: %s: argument is not &function.Spec{…}", fset.Position(name.Pos()), name.Name)
					}
					m := kvs(cl)
					fn := stdFn{Var: name.Name, File: fname, Refine: "none"}
					for k := range m {
						switch k {
						case "Description", "Params", "VarParam", "Type", "Impl", "RefineResult":
						default:
							die("%s: %s: unknown Spec field %s", fset.Position(name.Pos()), name.Name, k)
						}
					}
					if p, ok := m["Params"]; ok {
						pl, ok := p.(*ast.CompositeLit)
						if !ok {
							die("%s: %s: Params is not a literal", fset.Position(name.Pos()), name.Name)
						}
						fn.NParams = len(pl.Elts)
					}
					_, fn.HasVar = m["VarParam"]
					t, ok := m["Type"]
					if !ok {
						die("%s: %s: no Type", fset.Position(name.Pos()), name.Name)
					}
					if c, ok := t.(*ast.CallExpr); ok && src(c.Fun) == "function.StaticReturnType" && len(c.Args) == 1 {
						fn.TypeKind, fn.TypeExpr = "static", src(c.Args[0])
					} else if _, ok := t.(*ast.FuncLit); ok {
						fn.TypeKind = "dynamic"
					} else if _, ok := t.(*ast.Ident); ok {
						fn.TypeKind = "dynamic"
					} else {
						die("%s: %s: unrecognised Type callback shape %s", fset.Position(t.Pos()), name.Name, src(t))
					}
					if r, ok := m["RefineResult"]; ok {
						switch x := r.(type) {
						case *ast.Ident:
							fn.Refine = x.Name
						case *ast.FuncLit:
							fn.Refine = "inline"
						default:
							die("%s: %s: unrecognised RefineResult shape", fset.Position(r.Pos()), name.Name)
						}
					}
					impl, ok := m["Impl"]
					if !ok {
						die("%s: %s: no Impl", fset.Position(name.Pos()), name.Name)
					}
					fn.Heads = implHeads(impl)
					out = append(out, fn)
				}
			}
		}
	}
	sort.Slice(out, func(i, j int) bool { return out[i].Var < out[j].Var })
	if len(out) < 40 {
		die("only %d stdlib functions recognised", len(out))
	}
	return out
}

// refineNonNull must still be `b.NotNull()` and nothing else.
func checkRefineNonNull(repo string) string {
	for _, f := range parseDir(filepath.Join(repo, "cty/function/stdlib")) {
		for _, d := range f.Decls {
			fd, ok := d.(*ast.FuncDecl)
			if !ok || fd.Name.Name != "refineNonNull" {
				continue
			}
			if len(fd.Body.List) != 1 {
				die("refineNonNull has %d statements", len(fd.Body.List))
			}
			r, ok := fd.Body.List[0].(*ast.ReturnStmt)
			if !ok || len(r.Results) != 1 {
				die("refineNonNull: unexpected body")
			}
			return src(r.Results[0])
		}
	}
	die("refineNonNull not found")
	return ""
}

// ---------------------------------------------------------------- value_ops prologues

type prologue struct {
	Method string
	Cond   string // condition of the first `if` mentioning marks, "" if none
	Form   string // "unmark-recurse-withmarks" | "none" | "other"
	Body   string
}

var opMethods = []string{"Equals", "NotEqual", "Add", "Subtract", "Negate", "Multiply", "Divide", "Modulo", "Absolute",
	"GetAttr", "Index", "HasIndex", "HasElement", "Length", "Not", "And", "Or", "LessThan", "GreaterThan",
	"LessThanOrEqualTo", "GreaterThanOrEqualTo", "RawEquals", "LengthInt", "ElementIterator", "CanIterateElements", "ForEachElement",
	"IsWhollyKnown", "AsString", "AsBigFloat", "AsValueSlice", "AsValueMap", "AsValueSet", "True", "False"}

func extractPrologues(repo string) []prologue {
	want := map[string]bool{}
	for _, m := range opMethods {
		want[m] = true
	}
	found := map[string]prologue{}
	for _, f := range parseDir(filepath.Join(repo, "cty")) {
		for _, d := range f.Decls {
			fd, ok := d.(*ast.FuncDecl)
			if !ok || fd.Recv == nil || len(fd.Recv.List) != 1 || src(fd.Recv.List[0].Type) != "Value" || !want[fd.Name.Name] {
				continue
			}
			p := prologue{Method: fd.Name.Name, Form: "none"}
			// the first top-level `if` whose condition mentions IsMarked / ContainsMarked
			for _, st := range fd.Body.List {
				is, ok := st.(*ast.IfStmt)
				if !ok {
					continue
				}
				c := src(is.Cond)
				if !strings.Contains(c, "IsMarked()") && !strings.Contains(c, "ContainsMarked()") {
					continue
				}
				p.Cond = strings.Join(strings.Fields(c), " ")
				body := src(is.Body)
				p.Body = strings.Join(strings.Fields(body), " ")
				switch {
				case strings.Contains(body, "Unmark") && strings.Contains(body, "WithMarks("):
					p.Form = "unmark-recurse-withmarks"
				case strings.Contains(body, "panic("):
					p.Form = "panic"
				default:
					p.Form = "other"
				}
				break
			}
			found[fd.Name.Name] = p
		}
	}
	var out []prologue
	for _, m := range opMethods {
		p, ok := found[m]
		if !ok {
			die("method Value.%s not found in package cty", m)
		}
		out = append(out, p)
	}
	return out
}

// ---------------------------------------------------------------- delimiters, conversions, limits

func findFunc(files []*ast.File, name string) *ast.FuncDecl {
	for _, f := range files {
		for _, d := range f.Decls {
			if fd, ok := d.(*ast.FuncDecl); ok && fd.Name.Name == name {
				return fd
			}
		}
	}
	return nil
}

func extractDelims(repo string) []rune {
	fd := findFunc(parseDir(filepath.Join(repo, "cty/ctystrings")), "sequenceMustEndGraphemeCluster")
	if fd == nil {
		die("sequenceMustEndGraphemeCluster not found")
	}
	var rs []rune
	nsw := 0
	ast.Inspect(fd.Body, func(n ast.Node) bool {
		sw, ok := n.(*ast.SwitchStmt)
		if !ok {
			return true
		}
		nsw++
		for _, c := range sw.Body.List {
			cc := c.(*ast.CaseClause)
			if cc.List == nil {
				if len(cc.Body) != 1 || src(cc.Body[0]) != "return false" {
					die("sequenceMustEndGraphemeCluster: default is not `return false`")
				}
				continue
			}
			if len(cc.Body) != 1 || src(cc.Body[0]) != "return true" {
				die("sequenceMustEndGraphemeCluster: case body is not `return true`")
			}
			for _, e := range cc.List {
				bl, ok := e.(*ast.BasicLit)
				if !ok || bl.Kind != token.CHAR {
					die("sequenceMustEndGraphemeCluster: non-literal case %s", src(e))
				}
				s, err := strconv.Unquote(bl.Value)
				if err != nil {
					die("%v", err)
				}
				rs = append(rs, []rune(s)[0])
			}
		}
		return false
	})
	if nsw != 1 || len(rs) == 0 {
		die("sequenceMustEndGraphemeCluster: expected exactly one switch with rune cases")
	}
	return rs
}

func extractPrimConv(repo string) (safe, unsafe [][2]string) {
	files := parseDir(filepath.Join(repo, "cty/convert"))
	get := func(name string) [][2]string {
		for _, f := range files {
			for _, d := range f.Decls {
				gd, ok := d.(*ast.GenDecl)
				if !ok || gd.Tok != token.VAR {
					continue
				}
				for _, sp := range gd.Specs {
					vs := sp.(*ast.ValueSpec)
					for i, n := range vs.Names {
						if n.Name != name {
							continue
						}
						cl, ok := vs.Values[i].(*ast.CompositeLit)
						if !ok {
							die("%s is not a map literal", name)
						}
						var out [][2]string
						for _, e := range cl.Elts {
							kv := e.(*ast.KeyValueExpr)
							inner, ok := kv.Value.(*ast.CompositeLit)
							if !ok {
								die("%s[%s] is not a map literal", name, src(kv.Key))
							}
							for _, e2 := range inner.Elts {
								kv2 := e2.(*ast.KeyValueExpr)
								out = append(out, [2]string{src(kv.Key), src(kv2.Key)})
							}
						}
						return out
					}
				}
			}
		}
		die("%s not found", name)
		return nil
	}
	return get("primitiveConversionsSafe"), get("primitiveConversionsUnsafe")
}

// intConst finds `const name = <int literal>` or `name := <int literal>` anywhere in dir.
func intConst(files []*ast.File, name string) int {
	val, n := 0, 0
	for _, f := range files {
		ast.Inspect(f, func(nd ast.Node) bool {
			switch x := nd.(type) {
			case *ast.ValueSpec:
				for i, id := range x.Names {
					if id.Name == name && i < len(x.Values) {
						if bl, ok := x.Values[i].(*ast.BasicLit); ok && bl.Kind == token.INT {
							v, _ := strconv.Atoi(bl.Value)
							val, n = v, n+1
						}
					}
				}
			case *ast.AssignStmt:
				for i, l := range x.Lhs {
					if id, ok := l.(*ast.Ident); ok && id.Name == name && i < len(x.Rhs) {
						if bl, ok := x.Rhs[i].(*ast.BasicLit); ok && bl.Kind == token.INT {
							v, _ := strconv.Atoi(bl.Value)
							val, n = v, n+1
						}
					}
				}
			}
			return true
		})
	}
	if n != 1 {
		die("constant %s: found %d definitions", name, n)
	}
	return val
}

// cmpConst finds the single comparison `name <op> <int literal>` in dir.
func cmpConst(files []*ast.File, name, op string) int {
	val, n := 0, 0
	for _, f := range files {
		ast.Inspect(f, func(nd ast.Node) bool {
			if b, ok := nd.(*ast.BinaryExpr); ok && b.Op.String() == op {
				if id, ok := b.X.(*ast.Ident); ok && id.Name == name {
					if bl, ok := b.Y.(*ast.BasicLit); ok && bl.Kind == token.INT {
						v, _ := strconv.Atoi(bl.Value)
						if v == 0 {
							return true // `x > 0` guards are not limits
						}
						if n > 0 && v != val {
							die("comparison %s %s <int>: occurrences disagree (%d, %d)", name, op, val, v)
						}
						val, n = v, n+1
					}
				}
			}
			return true
		})
	}
	if n == 0 {
		die("comparison %s %s <int>: not found", name, op)
	}
	return val
}

func tyName(s string) string {
	switch s {
	case "cty.Number":
		return ".number"
	case "cty.String":
		return ".string"
	case "cty.Bool":
		return ".bool"
	}
	die("unexpected primitive type %s in conversion table", s)
	return ""
}

// ---------------------------------------------------------------- main

func main() {
	repo := flag.String("repo", "/repo", "go-cty source tree")
	leanDir := flag.String("lean", "../lean/CtyModel/Generated", "output directory for Lean files")
	harness := flag.String("harness", "../harness", "harness directory (Go table)")
	flag.Parse()

	const hdr = "-- GENERATED by /verif/extract from the go-cty source on every check. Do not edit.\n"

	// stdlib
	fns := extractStdlib(*repo)
	rnn := checkRefineNonNull(*repo)
	var lb strings.Builder
	lb.WriteString(hdr + "namespace CtyModel.Generated\n\n")
	lb.WriteString("/-- what the source of one `function.New(&function.Spec{…})` in cty/function/stdlib says, syntactically -/\n")
	lb.WriteString("structure StdSyntax where\n  var : String\n  file : String\n  staticType : Option String   -- argument of function.StaticReturnType, `none` = a Type callback\n  refine : String              -- \"none\" | \"refineNonNull\" | \"inline\"\n  heads : List String          -- heads of the `return X, nil` statements of Impl\n  nparams : Nat\n  hasVarParam : Bool\n  deriving Repr, DecidableEq\n\n")
	fmt.Fprintf(&lb, "/-- body of stdlib's `refineNonNull` helper -/\ndef refineNonNullBody : String := %s\n\n", leanStr(rnn))
	srt := findFunc(parseDir(filepath.Join(*repo, "cty/function")), "StaticReturnType")
	if srt == nil {
		die("function.StaticReturnType not found")
	}
	fmt.Fprintf(&lb, "/-- body of `function.StaticReturnType(ty)` (whitespace-normalised) -/\ndef staticReturnTypeBody : String := %s\n\n", leanStr(strings.Join(strings.Fields(src(srt.Body)), " ")))
	lb.WriteString("def stdlibSyntax : List StdSyntax := [\n")
	for i, f := range fns {
		st := "none"
		if f.TypeKind == "static" {
			st = "some " + leanStr(f.TypeExpr)
		}
		sep := ","
		if i == len(fns)-1 {
			sep = ""
		}
		fmt.Fprintf(&lb, "  { var := %s, file := %s, staticType := %s, refine := %s, heads := %s, nparams := %d, hasVarParam := %v }%s\n",
			leanStr(f.Var), leanStr(f.File), st, leanStr(f.Refine), leanStrList(f.Heads), f.NParams, f.HasVar, sep)
	}
	lb.WriteString("]\n\nend CtyModel.Generated\n")
	writeIfChanged(filepath.Join(*leanDir, "StdlibSyntax.lean"), lb.String())

	var gb strings.Builder
	gb.WriteString("// Code generated by /verif/extract from /repo/cty/function/stdlib; DO NOT EDIT.\n\npackage main\n\nimport (\n\t\"github.com/zclconf/go-cty/cty/function\"\n\t\"github.com/zclconf/go-cty/cty/function/stdlib\"\n)\n\n// stdlibFuncs lists every exported *Func variable of the stdlib package.\nvar stdlibFuncs = []struct {\n\tVar string\n\tF   function.Function\n}{\n")
	for _, f := range fns {
		fmt.Fprintf(&gb, "\t{%q, stdlib.%s},\n", f.Var, f.Var)
	}
	gb.WriteString("}\n")
	writeIfChanged(filepath.Join(*harness, "zz_stdlib_gen.go"), gb.String())

	// prologues
	ps := extractPrologues(*repo)
	lb.Reset()
	lb.WriteString(hdr + "namespace CtyModel.Generated\n\n")
	lb.WriteString("/-- the marks prologue of one method of cty.Value as written in the source: the condition of its first\ntop-level `if` that tests IsMarked/ContainsMarked, and what that branch does -/\n")
	lb.WriteString("structure OpPrologue where\n  method : String\n  cond : String\n  form : String   -- \"unmark-recurse-withmarks\" | \"panic\" | \"none\" | \"other\"\n  body : String\n  deriving Repr, DecidableEq\n\n")
	lb.WriteString("def opPrologues : List OpPrologue := [\n")
	for i, p := range ps {
		sep := ","
		if i == len(ps)-1 {
			sep = ""
		}
		fmt.Fprintf(&lb, "  { method := %s, cond := %s, form := %s, body := %s }%s\n", leanStr(p.Method), leanStr(p.Cond), leanStr(p.Form), leanStr(p.Body), sep)
	}
	lb.WriteString("]\n\nend CtyModel.Generated\n")
	writeIfChanged(filepath.Join(*leanDir, "OpPrologue.lean"), lb.String())

	// delimiters
	rs := extractDelims(*repo)
	lb.Reset()
	lb.WriteString(hdr + "namespace CtyModel.Generated\n\n/-- code points for which ctystrings.sequenceMustEndGraphemeCluster answers true -/\ndef safeDelims : List Nat := [")
	for i, r := range rs {
		if i > 0 {
			lb.WriteString(", ")
		}
		fmt.Fprintf(&lb, "%d", r)
	}
	lb.WriteString("]\n\nend CtyModel.Generated\n")
	writeIfChanged(filepath.Join(*leanDir, "Delims.lean"), lb.String())

	// primitive conversions
	safe, unsafe := extractPrimConv(*repo)
	lb.Reset()
	lb.WriteString(hdr + "import CtyModel.Ty\nnamespace CtyModel.Generated\n\n")
	pr := func(name string, ps [][2]string) {
		fmt.Fprintf(&lb, "def %s : List (Ty × Ty) := [", name)
		for i, p := range ps {
			if i > 0 {
				lb.WriteString(", ")
			}
			fmt.Fprintf(&lb, "(%s, %s)", tyName(p[0]), tyName(p[1]))
		}
		lb.WriteString("]\n")
	}
	lb.WriteString("/-- (source, target) keys of convert.primitiveConversionsSafe -/\n")
	pr("primConvSafe", safe)
	lb.WriteString("/-- (source, target) keys of convert.primitiveConversionsUnsafe -/\n")
	pr("primConvUnsafe", unsafe)
	lb.WriteString("\nend CtyModel.Generated\n")
	writeIfChanged(filepath.Join(*leanDir, "PrimConv.lean"), lb.String())

	// limits
	mp := parseDir(filepath.Join(*repo, "cty/msgpack"))
	lb.Reset()
	lb.WriteString(hdr + "namespace CtyModel.Generated\n\n")
	fmt.Fprintf(&lb, "/-- cty/msgpack: longest string prefix carried by an unknown-value refinement -/\ndef msgpackMaxPrefixLength : Nat := %d\n", intConst(mp, "maxPrefixLength"))
	maxExt := cmpConst(mp, "extLen", ">")
	fmt.Fprintf(&lb, "/-- cty/msgpack: an unknown-value extension body longer than this is rejected (`extLen > N`) -/\ndef msgpackMaxExtLen : Nat := %d\n", maxExt)
	sl := parseDir(filepath.Join(*repo, "cty/function/stdlib"))
	fmt.Fprintf(&lb, "/-- stdlib setproduct: per-argument and total length thresholds of the unknown-length refinement -/\ndef setproductArgMaxLen : Nat := %d\ndef setproductMaxLength : Nat := %d\n", cmpConst(sl, "argMaxLen", ">"), cmpConst(sl, "maxLength", ">"))
	lb.WriteString(limitsExtra(*repo, mp)) // d17: jsonImpliedTypeDepthLimit, msgpackAllocHintMax (allocs.go)
	lb.WriteString("\nend CtyModel.Generated\n")
	writeIfChanged(filepath.Join(*leanDir, "Limits.lean"), lb.String())
	// d17: every make( call of the two wire decoders, with the provenance of its sizes (allocs.go)
	fmt.Printf("ctyextract: %d make( sites of cty/msgpack and cty/json classified (Generated/DecoderAllocs.lean)\n", writeDecoderAllocs(*repo, *leanDir, hdr, mp, maxExt))
	writeIntBounds(*repo, *leanDir, hdr) // C18: gocty integer bound tables (intbounds.go)
	fmt.Printf("ctyextract: %d buffer events of cty/json marshal/marshalDynamic\n", writeJsonEmit(*repo, *leanDir, hdr)) // C15 (jsonemit.go)

	// the pure recursive core of cty.Type, translated (translate.go)
	ndefs := translateTyFns(*repo, *leanDir, hdr)
	fmt.Printf("ctyextract: %d Lean definitions translated from cty.Type's Equals/TestConformance/HasDynamicTypes/WithoutOptionalAttributesDeep\n", ndefs)
	// the boolean, arithmetic and ordering methods of cty/value_ops.go, translated (translate_ops.go)
	fmt.Printf("ctyextract: %d Lean definitions translated from cty/value_ops.go (Not/And/Or, arithmetic, ordering) and helper.go\n", translateOpsFns(*repo, *leanDir, hdr))
	// the function-call protocol of cty/function/function.go, translated (translate_fn.go)
	nfn := translateFnCall(*repo, *leanDir, hdr)
	fmt.Printf("ctyextract: %d Lean definitions translated from function.Function's returnTypeForValues/ReturnTypeForValues/ReturnType/Call\n", nfn)
	fmt.Printf("ctyextract: %d Lean definitions translated from cty/unknown_refinement.go (Refine, RefinementBuilder, NewValue)\n", translateRefineFns(*repo, *leanDir, hdr))
	fmt.Printf("ctyextract: %d Lean definitions translated from cty/set (Set.Add/Remove/Has/Copy/Values/Length/EachValue, set algebra)\n", translateSetFns(*repo, *leanDir, hdr)) // C03 (translate_set.go)
	fmt.Printf("ctyextract: %d Lean definitions translated from cty/gocty/out.go (fromCtyNumber and its four decoders, fromCtyBool, fromCtyString, likelyRequiredTypesError)\n", translateGoctyFns(*repo, *leanDir, hdr)) // C18 (translate_gocty.go)
	fmt.Printf("ctyextract: %d Lean definitions translated from cty/msgpack/unknown.go (marshalUnknownValue, unmarshalUnknownValue)\n", translateMpUnknownFns(*repo, *leanDir, hdr)) // C16/C17 (translate_mpunknown.go)
	fmt.Printf("ctyextract: %d Lean definitions translated from cty/value_init.go, null.go, unknown.go (ListVal, TupleVal, MapVal, ObjectVal, SetVal and the other constructors)\n", translateConsFns(*repo, *leanDir, hdr)) // C06 (translate_cons.go)
	fmt.Printf("ctyextract: %d Lean definitions translated from cty/json/marshal.go (marshal, marshalDynamic)\n", translateJsonMarshalFns(*repo, *leanDir, hdr)) // C15 (translate_jsonmarshal.go)
	// the path machinery of cty/path.go and cty/path_set.go, translated (translate_path.go)
	fmt.Printf("ctyextract: %d Lean definitions translated from cty/path.go, cty/path_set.go, cty/walk.go (steps, Path.Apply/LastStep/Equals/HasPrefix, pathSetRules, PathSet, Walk)\n", translatePathFns(*repo, *leanDir, hdr))
	fmt.Printf("ctyextract: %d Lean definitions translated from cty/marks.go (the marks API: Mark/Unmark/WithMarks/…, the deep variants and their transformers)\n", translateMarksFns(*repo, *leanDir, hdr)) // C04 (translate_marks.go)
	fmt.Printf("ctyextract: %d stdlib functions, %d op prologues, %d delimiters, %d+%d primitive conversions\n", len(fns), len(ps), len(rs), len(safe), len(unsafe))
}
