// Go→Lean translation of the function-call protocol, cty/function/function.go:
// Function.returnTypeForValues, Function.ReturnTypeForValues, Function.ReturnType
// and Function.Call.  Output: lean/CtyModel/Generated/FnCall.lean; the tie to the
// hand-written model (lean/CtyModel/Function.lean) is Lemmas/FnCallTie.lean, so
// the C10 theorems are re-checked against what the source says on every run.
//
// Same discipline as translate.go (whose helpers are reused): a SYNTACTIC
// FRAGMENT is translated statement by statement, anything else is an error with
// the source position (= a broken tie), no function body is special-cased.
//
//	statements   x := e | x = e | x, y := <two-valued call> | xs[i] = e (xs made by make in the same scope)
//	             var x T | { … } | if [init;] c {…} [else …] | for i, x := range <slice> {…} (no nesting,
//	             no break/continue/labels) | return [e…] | panic(…) | copy(dst, src)
//	             defer func() { if r := recover(); r != nil { <assignments to named results> } }()
//	             defer func() { <statements over the named results> }()        (no recover)
//	expressions  identifiers, int literals, cty.DynamicPseudoType / NilType / NilVal / cty.Type{},
//	             f.spec.<field>, <parameter>.<field>, len, make, append, x[i], x[a:b], ! && || == != < <= > >= +,
//	             calls of the given API (tables below), of the Spec callbacks and of other methods of
//	             Function (translated on demand)
//
// Shape of the output (lean/CtyModel/FnGo.lean is the Lean side): a Go function
// with an `error` result is a `FnGo.M`; the nil-ness of every error value is known
// statically (a call is translated as a case split on it); code after a branching
// statement that several paths reach becomes a local continuation `k_n`; a
// `range` loop becomes a structurally recursive helper that ends in the
// continuation; `defer` wraps the continuation of the defer statement.
package main

import (
	"fmt"
	"go/ast"
	"go/token"
	"path/filepath"
	"sort"
	"strconv"
	"strings"
)

// ---------------------------------------------------------------- configuration (the mapping)

var fnRoots = []string{"Function.returnTypeForValues", "Function.ReturnTypeForValues", "Function.ReturnType", "Function.Call"}

const fnAliases = `/-- ` + "`f.ReturnTypeForValues(args)`" + ` -/
def returnTypeForValuesPub (spec : Fn.Spec) (tf : Fn.TypeFn) (args : List Value) (argsNil : Bool) : FnGo.M Ty :=
  Function_ReturnTypeForValues spec tf (fun _ _ => .unmodelled) args argsNil
/-- ` + "`f.ReturnType(argTypes)`" + ` -/
def returnType (spec : Fn.Spec) (tf : Fn.TypeFn) (argTypes : List Ty) : FnGo.M Ty :=
  Function_ReturnType spec tf (fun _ _ => .unmodelled) argTypes
/-- ` + "`f.Call(args)`" + ` -/
def call (spec : Fn.Spec) (tf : Fn.TypeFn) (impl : Fn.ImplFn) (args : List Value) (argsNil : Bool) : FnGo.M Value :=
  Function_Call spec tf impl args argsNil
`

type fshape int

const (
	fTy       fshape = iota // cty.Type                       : Ty
	fTyZero                 // cty.NilType, cty.Type{}         (outside the model: only as a result next to an error)
	fVal                    // cty.Value                      : Value
	fValZero                // cty.NilVal, `var v cty.Value`   (outside the model)
	fBool                   //                                : Bool
	fNat                    // int                            : Nat
	fVals                   // []cty.Value                    : List Value, e2 = "is nil" (""= not tracked)
	fValsOpt                // make([]cty.Value, n)           : List (Option Value)
	fTys                    // []cty.Type                     : List Ty
	fMarkSets               // []cty.ValueMarks               : List (List String)
	fMarks                  // cty.ValueMarks                 : List String
	fErrCount               // []error                        : Nat
	fErr                    // error: nil-ness static; konst 1 = non-nil (e : Fn.CallErr), 2 = nil
	fFunc                   // the receiver f
	fSpec                   // f.spec
	fParams                 // []Parameter                    : List Fn.Param
	fParam                  // Parameter                      : Fn.Param
	fParamPtr               // *Parameter                     : Option Fn.Param
	fRefinePtr              // func(*RefinementBuilder)…      : Option Fn.RefineFn
	fCbType                 // f.spec.Type
	fCbImpl                 // f.spec.Impl
	fPanicVal               // the value recover() returned   : String
	fErased                 // strings and error values that only feed error messages
	fNil                    // the identifier nil
	fPoison                 // must not be used
)

type fval struct {
	sh    fshape
	e, e2 string
	konst int
	isDyn bool
	why   string
}

func (v fval) eq(w fval) bool { return v == w }

func fLeanType(sh fshape) string {
	switch sh {
	case fTy:
		return "Ty"
	case fVal:
		return "Value"
	case fBool:
		return "Bool"
	case fNat, fErrCount:
		return "Nat"
	case fVals:
		return "List Value"
	case fValsOpt:
		return "List (Option Value)"
	case fTys:
		return "List Ty"
	case fMarkSets:
		return "List (List String)"
	case fMarks:
		return "List String"
	case fParams:
		return "List Fn.Param"
	case fParam:
		return "Fn.Param"
	case fParamPtr:
		return "Option Fn.Param"
	case fRefinePtr:
		return "Option Fn.RefineFn"
	case fPanicVal:
		return "String"
	}
	return ""
}

func fTypeShape(n ast.Node, s string) fshape {
	switch s {
	case "cty.Type":
		return fTy
	case "cty.Value":
		return fVal
	case "bool":
		return fBool
	case "int":
		return fNat
	case "error":
		return fErr
	case "[]cty.Value":
		return fVals
	case "[]cty.Type":
		return fTys
	case "[]cty.ValueMarks":
		return fMarkSets
	case "cty.ValueMarks":
		return fMarks
	}
	dieAt(n, "type %s", s)
	return 0
}

// fields of function.Spec and function.Parameter as the model reads them
var fSpecFields = map[string]fval{
	"Params":       {sh: fParams, e: "%s.params"},
	"VarParam":     {sh: fParamPtr, e: "%s.varParam"},
	"RefineResult": {sh: fRefinePtr, e: "%s.refine"},
	"Type":         {sh: fCbType, e: "tf"},
	"Impl":         {sh: fCbImpl, e: "impl"},
}

var fParamFields = map[string]fval{
	"Type":             {sh: fTy, e: "%s.ty"},
	"AllowNull":        {sh: fBool, e: "%s.allowNull"},
	"AllowUnknown":     {sh: fBool, e: "%s.allowUnknown"},
	"AllowDynamicType": {sh: fBool, e: "%s.allowDynamic"},
	"AllowMarked":      {sh: fBool, e: "%s.allowMarked"},
}

// GIVEN API: methods of cty.Value / cty.Type taken from the hand-written model (total, no callbacks)
type fMethod struct {
	recv fshape
	args []fshape
	rets []fshape
	lean []string // one Lean function per result, applied to receiver and arguments
	doc  string
}

var fMethods = map[string]fMethod{
	"ContainsMarked":  {fVal, nil, []fshape{fBool}, []string{"Value.containsMarked"}, "marks at any depth"},
	"IsNull":          {fVal, nil, []fshape{fBool}, []string{"Value.isNull"}, ""},
	"IsKnown":         {fVal, nil, []fshape{fBool}, []string{"Value.isKnown"}, ""},
	"Type":            {fVal, nil, []fshape{fTy}, []string{"Value.ty"}, ""},
	"UnmarkDeep":      {fVal, nil, []fshape{fVal, fMarks}, []string{"Value.unmarkDeep", "Value.marksDeep"}, "the value without any mark, and the marks"},
	"WithMarks":       {fVal, []fshape{fMarkSets}, []fshape{fVal}, []string{"Fn.withMarkSets"}, "called as WithMarks(sets...)"},
	"TestConformance": {fTy, []fshape{fTy}, []fshape{fErrCount}, []string{"FnGo.testConformance"}, "number of errors; nil iff 0"},
}

// GIVEN API: package-level functions
var fFuncs = map[string]fMethod{
	"cty.UnknownVal": {0, []fshape{fTy}, []fshape{fVal}, []string{"Value.unknown"}, ""},
}

// ---------------------------------------------------------------- translator state

type fgoParam struct {
	name string
	sh   fshape
}

type funit struct {
	key, name  string
	goParams   []fgoParam
	params     []leanVar
	rets       []fshape // the results before the final error
	retNames   []string // named results incl. the error ("" = unnamed)
	inProgress bool
}

func (u *funit) retType() string {
	var ts []string
	for _, r := range u.rets {
		ts = append(ts, atomType(fLeanType(r)))
	}
	return "FnGo.M " + atomType(strings.Join(ts, " × "))
}

type ftr struct {
	funcs map[string]*ast.FuncDecl
	units map[string]*funit
	out   []string
	lines map[string][2]int
}

type fenv map[string]fval

func (e fenv) with(k string, v fval) fenv {
	if k == "" || k == "_" {
		return e
	}
	n := make(fenv, len(e)+1)
	for a, b := range e {
		n[a] = b
	}
	n[k] = v
	return n
}

type fctx struct {
	t        *ftr
	u        *funit
	fd       *ast.FuncDecl
	ltype    map[string]string
	order    []string
	joins    []string // local continuations in scope, by Lean name
	nloops   int
	njoin    int
	inLoop   bool
	inDefer  bool
	noRunDef bool   // inside the code wrapped by a recover handler that leaves a named result unassigned
	errZero  []bool // result position i is a literal zero value at every return of a non-nil error
}

func (c *fctx) fresh(base, typ string) string {
	base = strings.TrimRight(base, "_")
	n := base + "_"
	for i := 2; c.ltype[n] != ""; i++ {
		n = fmt.Sprintf("%s_%d", base, i)
	}
	c.ltype[n] = typ
	c.order = append(c.order, n)
	return n
}

// binders: `op` for a Res-valued operation, `seq` for an M-valued callee without error result
type fbind struct{ pat, rhs, kind string }

func fwrap(bs []fbind, body string) string {
	for i := len(bs) - 1; i >= 0; i-- {
		body = "(FnGo." + bs[i].kind + " " + bs[i].rhs + " fun " + bs[i].pat + " =>\n" + body + ")"
	}
	return body
}

func fBool_(e string) fval { return fval{sh: fBool, e: e} }
func fConst(b bool) fval {
	if b {
		return fval{sh: fBool, e: "true", konst: 1}
	}
	return fval{sh: fBool, e: "false", konst: 2}
}

var errNil = fval{sh: fErr, konst: 2}

func errNonNil(e string) fval { return fval{sh: fErr, konst: 1, e: e} }

func fZero(n ast.Node, sh fshape) fval {
	switch sh {
	case fTy:
		return fval{sh: fTyZero}
	case fVal:
		return fval{sh: fValZero}
	case fBool:
		return fConst(false)
	case fErr:
		return errNil
	case fVals:
		return fval{sh: fVals, e: "([] : List Value)", e2: "true"}
	case fMarkSets:
		return fval{sh: fMarkSets, e: "([] : List (List String))"}
	case fNat:
		return fval{sh: fNat, e: "0"}
	}
	dieAt(n, "zero value of this type")
	return fval{}
}

// skipFuncLits walks n without entering function literals
func inspectNoLit(n ast.Node, f func(ast.Node) bool) {
	ast.Inspect(n, func(x ast.Node) bool {
		if _, ok := x.(*ast.FuncLit); ok {
			return false
		}
		return f(x)
	})
}

// ---------------------------------------------------------------- functions

func (t *ftr) ensure(key string, at ast.Node) *funit {
	if u := t.units[key]; u != nil {
		if u.inProgress {
			dieAt(at, "recursion through %s", key)
		}
		return u
	}
	fd := t.funcs[key]
	if fd == nil {
		dieAt(at, "call of %s, which is neither a method of Function nor part of the given API", key)
	}
	return t.translate(key, fd)
}

func isIdent(e ast.Expr, name string) bool {
	id, ok := e.(*ast.Ident)
	return ok && id.Name == name
}

func isLiteralZero(e ast.Expr) bool {
	s := src(e)
	return s == "cty.NilVal" || s == "cty.NilType" || s == "cty.Type{}" || s == "false"
}

func (t *ftr) translate(key string, fd *ast.FuncDecl) *funit {
	u := &funit{key: key, name: strings.ReplaceAll(key, ".", "_"), inProgress: true}
	t.units[key] = u
	c := &fctx{t: t, u: u, fd: fd, ltype: map[string]string{}}
	en := fenv{}
	if fd.Recv == nil || len(fd.Recv.List) != 1 || len(fd.Recv.List[0].Names) != 1 || src(fd.Recv.List[0].Type) != "Function" {
		dieAt(fd, "only methods with a named receiver of type Function are translated")
	}
	rn := fd.Recv.List[0].Names[0].Name
	sp := c.fresh(rn, "Fn.Spec")
	en = en.with(rn, fval{sh: fFunc, e: sp})
	u.params = append(u.params, leanVar{sp, "Fn.Spec"}, leanVar{"tf", "Fn.TypeFn"}, leanVar{"impl", "Fn.ImplFn"})
	for _, g := range []leanVar{{"tf", "Fn.TypeFn"}, {"impl", "Fn.ImplFn"}} {
		c.ltype[g.name] = g.typ
		c.order = append(c.order, g.name)
		c.joins = append(c.joins, g.name)
	}
	for _, f := range fd.Type.Params.List {
		sh := fTypeShape(f.Type, src(f.Type))
		for _, nm := range f.Names {
			u.goParams = append(u.goParams, fgoParam{nm.Name, sh})
			n := c.fresh(nm.Name, fLeanType(sh))
			u.params = append(u.params, leanVar{n, fLeanType(sh)})
			v := fval{sh: sh, e: n}
			switch sh {
			case fVals:
				fl := c.fresh(nm.Name+"_nil", "Bool")
				u.params = append(u.params, leanVar{fl, "Bool"})
				v.e2 = fl
			case fTys:
			default:
				dieAt(f, "parameter of type %s", src(f.Type))
			}
			en = en.with(nm.Name, v)
		}
	}
	if fd.Type.Results == nil {
		dieAt(fd, "function without results")
	}
	var shapes []fshape
	for _, f := range fd.Type.Results.List {
		sh := fTypeShape(f.Type, src(f.Type))
		if len(f.Names) == 0 {
			shapes, u.retNames = append(shapes, sh), append(u.retNames, "")
		}
		for _, nm := range f.Names {
			shapes, u.retNames = append(shapes, sh), append(u.retNames, nm.Name)
			en = en.with(nm.Name, fZero(f, sh))
		}
	}
	if n := len(shapes); n < 2 || shapes[n-1] != fErr {
		dieAt(fd, "the result list must be (T…, error)")
	}
	u.rets = shapes[:len(shapes)-1]
	for _, r := range u.rets {
		if fLeanType(r) == "" || r == fErr {
			dieAt(fd, "result list")
		}
	}
	// which results are literally zero whenever a non-nil error is returned
	c.errZero = make([]bool, len(u.rets))
	for i := range c.errZero {
		c.errZero[i] = true
	}
	inspectNoLit(fd.Body, func(n ast.Node) bool {
		if r, ok := n.(*ast.ReturnStmt); ok && len(r.Results) == len(shapes) && !isIdent(r.Results[len(shapes)-1], "nil") {
			for i := range u.rets {
				c.errZero[i] = c.errZero[i] && isLiteralZero(r.Results[i])
			}
		}
		return true
	})
	ast.Inspect(fd.Body, func(n ast.Node) bool { // recover handlers assign results too
		if a, ok := n.(*ast.AssignStmt); ok && len(a.Lhs) == 1 && len(a.Rhs) == 1 {
			for i, rn := range u.retNames[:len(u.rets)] {
				if rn != "" && isIdent(a.Lhs[0], rn) && !isLiteralZero(a.Rhs[0]) && c.insideRecoverHandler(a) {
					c.errZero[i] = false
				}
			}
		}
		return true
	})
	body := c.block(fd.Body.List, en, func(e fenv) string {
		dieAt(fd.Body, "control reaches the end of the function body")
		return ""
	})
	u.inProgress = false
	var ps []string
	for _, p := range u.params {
		ps = append(ps, fmt.Sprintf("(%s : %s)", p.name, p.typ))
	}
	p0, p1 := fset.Position(fd.Pos()), fset.Position(fd.End())
	t.lines[key] = [2]int{p0.Line, p1.Line}
	doc := fmt.Sprintf("/-- Go: `%s` (cty/function/%s:%d-%d) -/\n", strings.Join(strings.Fields(src(&ast.FuncDecl{Recv: fd.Recv, Name: fd.Name, Type: fd.Type})), " "),
		filepath.Base(p0.Filename), p0.Line, p1.Line)
	t.out = append(t.out, fmt.Sprintf("%sdef %s %s : %s :=\n%s\n", doc, u.name, strings.Join(ps, " "), u.retType(), indent(body)))
	return u
}

// recoverHandler recognises `func() { if r := recover(); r != nil { … } }` and returns r and the handler body
func recoverHandler(fl *ast.FuncLit) (string, *ast.BlockStmt) {
	if len(fl.Type.Params.List) != 0 || fl.Type.Results != nil || len(fl.Body.List) != 1 {
		return "", nil
	}
	is, ok := fl.Body.List[0].(*ast.IfStmt)
	if !ok || is.Else != nil || is.Init == nil {
		return "", nil
	}
	as, ok := is.Init.(*ast.AssignStmt)
	if !ok || as.Tok != token.DEFINE || len(as.Lhs) != 1 || len(as.Rhs) != 1 || src(as.Rhs[0]) != "recover()" {
		return "", nil
	}
	r := identName(as.Lhs[0])
	if r == "" || src(is.Cond) != r+" != nil" {
		return "", nil
	}
	return r, is.Body
}

func (c *fctx) insideRecoverHandler(n ast.Node) bool {
	found := false
	ast.Inspect(c.fd.Body, func(x ast.Node) bool {
		if fl, ok := x.(*ast.FuncLit); ok {
			if _, b := recoverHandler(fl); b != nil && b.Pos() <= n.Pos() && n.End() <= b.End() {
				found = true
			}
		}
		return true
	})
	return found
}

// ---------------------------------------------------------------- statements

type fkont func(fenv) string

func (c *fctx) block(list []ast.Stmt, en fenv, k fkont) string {
	return c.stmts(list, en, en, map[string]bool{}, k)
}

func (c *fctx) stmts(list []ast.Stmt, entry, cur fenv, decl map[string]bool, k fkont) string {
	if len(list) == 0 {
		out := fenv{}
		for name, v := range entry {
			if decl[name] {
				out[name] = v
			} else {
				out[name] = cur[name]
			}
		}
		return k(out)
	}
	next := func(e fenv, d map[string]bool) string { return c.stmts(list[1:], entry, e, d, k) }
	same := func(e fenv) string { return next(e, decl) }
	switch s := list[0].(type) {
	case *ast.ReturnStmt:
		return c.ret(s, cur)
	case *ast.BlockStmt:
		return c.block(s.List, cur, same)
	case *ast.IfStmt:
		return c.ifStmt(s, cur, same)
	case *ast.DeclStmt:
		gd := s.Decl.(*ast.GenDecl)
		if gd.Tok == token.VAR && len(gd.Specs) == 1 {
			vs := gd.Specs[0].(*ast.ValueSpec)
			if len(vs.Names) == 1 && len(vs.Values) == 0 && vs.Type != nil {
				n := vs.Names[0].Name
				return next(cur.with(n, fZero(s, fTypeShape(vs.Type, src(vs.Type)))), declWith(decl, n))
			}
		}
		dieAt(s, "declaration %s", src(s))
	case *ast.ExprStmt:
		call, ok := s.X.(*ast.CallExpr)
		if !ok {
			dieAt(s, "expression statement %s", src(s))
		}
		switch src(call.Fun) {
		case "panic":
			if len(call.Args) != 1 {
				dieAt(s, "panic call")
			}
			bs, w := c.panicArg(call.Args[0], cur)
			return fwrap(bs, "(FnGo.goPanic "+w+")")
		case "copy":
			if len(call.Args) != 2 {
				dieAt(s, "copy call")
			}
			dn := identName(call.Args[0])
			bs, src_ := c.expr(call.Args[1], cur)
			if d := cur[dn]; d.sh == fValsOpt && src_.sh == fVals {
				return fwrap(bs, same(cur.with(dn, fval{sh: fValsOpt, e: "(FnGo.copy " + d.e + " " + src_.e + ")"})))
			}
			dieAt(s, "copy(%s, %s)", src(call.Args[0]), src(call.Args[1]))
		}
		dieAt(s, "call %s used as a statement has no modelled effect", src(call))
	case *ast.AssignStmt:
		return c.assign(s, cur, decl, next)
	case *ast.RangeStmt:
		return c.rangeStmt(s, cur, same)
	case *ast.DeferStmt:
		return c.deferStmt(s, cur, func() string { return same(cur) })
	}
	dieAt(list[0], "statement %s", strings.TrimPrefix(fmt.Sprintf("%T", list[0]), "*ast."))
	return ""
}

// panicArg: the panic value as the model's why-string
func (c *fctx) panicArg(a ast.Expr, cur fenv) ([]fbind, string) {
	if bl, ok := a.(*ast.BasicLit); ok && bl.Kind == token.STRING {
		s, _ := strconv.Unquote(bl.Value)
		return nil, leanStr(s)
	}
	if call, ok := a.(*ast.CallExpr); ok && src(call.Fun) == "fmt.Errorf" && len(call.Args) > 0 {
		if bl, ok := call.Args[0].(*ast.BasicLit); ok && bl.Kind == token.STRING {
			bs, _ := c.expr(call, cur) // the arguments are evaluated
			s, _ := strconv.Unquote(bl.Value)
			return bs, "(FnGo.panicValue " + leanStr(s) + ")"
		}
	}
	dieAt(a, "panic value %s", src(a))
	return nil, ""
}

// fallsThrough: can control reach the end of the statement list
func fallsThrough(list []ast.Stmt) bool {
	for _, s := range list {
		switch x := s.(type) {
		case *ast.ReturnStmt:
			return false
		case *ast.ExprStmt:
			if call, ok := x.X.(*ast.CallExpr); ok && src(call.Fun) == "panic" {
				return false
			}
		case *ast.BlockStmt:
			if !fallsThrough(x.List) {
				return false
			}
		case *ast.IfStmt:
			if x.Else != nil && !fallsThrough(x.Body.List) && !fallsThrough([]ast.Stmt{x.Else}) {
				return false
			}
		}
	}
	return true
}

func (c *fctx) ifStmt(s *ast.IfStmt, cur fenv, k fkont) string {
	if s.Init != nil {
		return c.block([]ast.Stmt{s.Init, &ast.IfStmt{If: s.If, Cond: s.Cond, Body: s.Body, Else: s.Else}}, cur, k)
	}
	bs, v := c.expr(s.Cond, cur)
	if v.sh != fBool {
		dieAt(s.Cond, "condition %s", src(s.Cond))
	}
	thenF := func(k fkont) string { return c.block(s.Body.List, cur, k) }
	elseF := func(k fkont) string {
		switch e := s.Else.(type) {
		case nil:
			return k(cur)
		case *ast.BlockStmt:
			return c.block(e.List, cur, k)
		default:
			return c.block([]ast.Stmt{e}, cur, k)
		}
	}
	switch v.konst {
	case 1:
		return fwrap(bs, thenF(k))
	case 2:
		return fwrap(bs, elseF(k))
	}
	paths := 0
	if fallsThrough(s.Body.List) {
		paths++
	}
	if s.Else == nil || fallsThrough([]ast.Stmt{s.Else}) {
		paths++
	}
	prefix := ""
	if paths > 1 {
		var nodes []ast.Node
		nodes = append(nodes, s.Body)
		if s.Else != nil {
			nodes = append(nodes, s.Else)
		}
		j := c.newJoin(s, fAssignedOuter(nodes, cur), cur, k)
		prefix, k = j.prefix, j.use
	}
	return fwrap(bs, prefix+"(if "+v.e+" then\n"+indent(thenF(k))+"\nelse\n"+indent(elseF(k))+")")
}

// fAssignedOuter: variables of the enclosing scope assigned inside the nodes (function literals excluded)
func fAssignedOuter(nodes []ast.Node, cur fenv) []string {
	set := map[string]bool{}
	for _, n := range nodes {
		inspectNoLit(n, func(x ast.Node) bool {
			switch a := x.(type) {
			case *ast.AssignStmt:
				if a.Tok == token.ASSIGN {
					for _, l := range a.Lhs {
						if ix, ok := l.(*ast.IndexExpr); ok {
							l = ix.X
						}
						if id, ok := l.(*ast.Ident); ok {
							if _, ok := cur[id.Name]; ok {
								set[id.Name] = true
							}
						}
					}
				}
			}
			return true
		})
	}
	var out []string
	for n := range set {
		out = append(out, n)
	}
	sort.Strings(out)
	return out
}

// flagNeeded: is the nil-ness of slice variable name observed after position pos
func (c *fctx) flagNeeded(name string, pos token.Pos) bool {
	need := false
	inspectNoLit(c.fd.Body, func(x ast.Node) bool {
		if x == nil || x.End() < pos {
			return true
		}
		switch a := x.(type) {
		case *ast.BinaryExpr:
			if (a.Op == token.EQL || a.Op == token.NEQ) && a.Pos() > pos &&
				((isIdent(a.X, name) && isIdent(a.Y, "nil")) || (isIdent(a.Y, name) && isIdent(a.X, "nil"))) {
				need = true
			}
		case *ast.AssignStmt:
			if a.Pos() > pos {
				for _, r := range a.Rhs {
					if se, ok := r.(*ast.SliceExpr); ok {
						r = se.X
					}
					need = need || isIdent(r, name)
				}
			}
		case *ast.CallExpr:
			if sel, ok := a.Fun.(*ast.SelectorExpr); ok && a.Pos() > pos && c.t.funcs["Function."+sel.Sel.Name] != nil {
				for _, r := range a.Args {
					need = need || isIdent(r, name)
				}
			}
		}
		return true
	})
	return need
}

type fjoin struct {
	prefix string
	use    fkont
}

type fjoinParam struct {
	goName, lean, typ string
	flag              bool // the "is nil" component of a slice
}

// passable: the variables that change on the way to a join / around a loop become parameters
func (c *fctx) stateParams(at ast.Node, vars []string, cur fenv) ([]fjoinParam, fenv) {
	joined := cur
	var ps []fjoinParam
	for _, n := range vars {
		v := cur[n]
		switch v.sh {
		case fVal, fTy, fBool, fNat, fMarkSets, fMarks, fErrCount, fValsOpt, fVals:
			p := c.fresh(n, fLeanType(v.sh))
			ps = append(ps, fjoinParam{n, p, fLeanType(v.sh), false})
			nv := fval{sh: v.sh, e: p}
			if v.sh == fVals && c.flagNeeded(n, at.Pos()) {
				q := c.fresh(n+"_nil", "Bool")
				ps = append(ps, fjoinParam{n, q, "Bool", true})
				nv.e2 = q
			}
			joined = joined.with(n, nv)
		default:
			dieAt(at, "variable %s is assigned on a path through this statement but its current value has no model (it cannot be passed on)", n)
		}
	}
	return ps, joined
}

func (c *fctx) stateArgs(at ast.Node, ps []fjoinParam, e fenv) []string {
	var args []string
	for _, p := range ps {
		v := e[p.goName]
		x := v.e
		if p.flag {
			x = v.e2
		}
		if x == "" || (v.sh == fPoison || v.sh == fValZero || v.sh == fTyZero) {
			dieAt(at, "variable %s has no modelled value on a path that continues after this statement", p.goName)
		}
		args = append(args, x)
	}
	return args
}

func (c *fctx) kontType(ps []fjoinParam) string {
	var ts []string
	for _, p := range ps {
		ts = append(ts, atomType(p.typ))
	}
	if len(ts) == 0 {
		ts = []string{"Unit"}
	}
	return strings.Join(append(ts, c.u.retType()), " → ")
}

// newJoin translates the continuation once, as a local function of the variables the paths may have changed
func (c *fctx) newJoin(at ast.Node, vars []string, cur fenv, k fkont) fjoin {
	ps, joined := c.stateParams(at, vars, cur)
	restT := k(joined)
	if !strings.Contains(restT, "\n") && len(restT) <= 90 { // short: substituted instead of named
		return fjoin{"", func(e fenv) string {
			out := restT
			for i, a := range c.stateArgs(at, ps, e) {
				out = replaceToken(out, ps[i].lean, a)
			}
			return out
		}}
	}
	c.njoin++
	name := fmt.Sprintf("k_%d", c.njoin)
	c.ltype[name] = c.kontType(ps)
	c.order = append(c.order, name)
	c.joins = append(c.joins, name)
	var decls []string
	for _, p := range ps {
		decls = append(decls, fmt.Sprintf("(%s : %s)", p.lean, p.typ))
	}
	if len(decls) == 0 {
		decls = []string{"(_ : Unit)"}
	}
	prefix := "let " + name + " := fun " + strings.Join(decls, " ") + " =>\n" + indent(restT) + ";\n"
	return fjoin{prefix, func(e fenv) string {
		args := c.stateArgs(at, ps, e)
		if len(args) == 0 {
			args = []string{"()"}
		}
		return "(" + name + " " + strings.Join(args, " ") + ")"
	}}
}

// ---------------------------------------------------------------- return, assignment

func fProj(x string, i, n int) string {
	if n == 1 {
		return x
	}
	s := x
	for j := 0; j < i; j++ {
		s += ".2"
	}
	if i < n-1 {
		s += ".1"
	}
	return s
}

func fBase(sh fshape) fshape {
	switch sh {
	case fTyZero:
		return fTy
	case fValZero:
		return fVal
	}
	return sh
}

func (c *fctx) retResults(at ast.Node, vals []fval, err fval) string {
	switch err.konst {
	case 1:
		return "(FnGo.fail " + err.e + ")"
	case 2:
		var es []string
		for i, v := range vals {
			if v.sh != c.u.rets[i] || v.e == "" {
				dieAt(at, "result %d has no modelled value although the error is nil", i+1)
			}
			es = append(es, v.e)
		}
		if len(es) == 1 {
			return "(FnGo.ret " + es[0] + ")"
		}
		return "(FnGo.ret (" + strings.Join(es, ", ") + "))"
	}
	dieAt(at, "the nil-ness of the returned error is not known statically")
	return ""
}

func (c *fctx) ret(s *ast.ReturnStmt, cur fenv) string {
	if c.inDefer {
		dieAt(s, "return inside a deferred closure")
	}
	n := len(c.u.rets)
	if len(s.Results) == 1 {
		if call, ok := s.Results[0].(*ast.CallExpr); ok {
			r := c.call(call, cur)
			if r.m != "" && len(r.mrets) == n {
				for i := range r.mrets {
					if r.mrets[i] != c.u.rets[i] {
						dieAt(s, "returned call %s", src(call))
					}
				}
				return fwrap(r.bs, r.m)
			}
		}
	}
	if len(s.Results) != n+1 {
		dieAt(s, "return with %d values", len(s.Results))
	}
	// the error first: results next to a non-nil error are not modelled (but still evaluated)
	ebs, ev := c.expr(s.Results[n], cur)
	if ev.sh == fNil {
		ev = errNil
	}
	if ev.sh != fErr {
		dieAt(s.Results[n], "returned error %s", src(s.Results[n]))
	}
	var bs []fbind
	var vals []fval
	for _, r := range s.Results[:n] {
		if id, ok := r.(*ast.Ident); ok && ev.konst == 1 {
			if v, ok := cur[id.Name]; ok && (v.sh == fPoison || v.sh == fValZero || v.sh == fTyZero) {
				vals = append(vals, v)
				continue
			}
		}
		b, v := c.expr(r, cur)
		bs, vals = append(bs, b...), append(vals, v)
	}
	return fwrap(append(bs, ebs...), c.retResults(s, vals, ev))
}

func (c *fctx) assign(s *ast.AssignStmt, cur fenv, decl map[string]bool, next func(fenv, map[string]bool) string) string {
	define := s.Tok == token.DEFINE
	if s.Tok != token.DEFINE && s.Tok != token.ASSIGN {
		dieAt(s, "assignment operator %s", s.Tok)
	}
	if c.inDefer && define {
		// fine: locals of the closure
	}
	bindVar := func(e fenv, d map[string]bool, name string, v fval) (fenv, map[string]bool) {
		if name == "" {
			return e, d
		}
		if define && !d[name] {
			return e.with(name, v), declWith(d, name)
		}
		old, ok := e[name]
		if !ok {
			dieAt(s, "assignment to unknown variable %s", name)
		}
		if fBase(old.sh) != fBase(v.sh) && old.sh != fPoison && v.sh != fPoison {
			dieAt(s, "assignment changes how %s is modelled", name)
		}
		return e.with(name, v), d
	}
	if len(s.Rhs) != 1 {
		dieAt(s, "parallel assignment")
	}
	if len(s.Lhs) >= 2 {
		call, ok := s.Rhs[0].(*ast.CallExpr)
		if !ok {
			dieAt(s, "multi-valued assignment %s", src(s))
		}
		var names []string
		for _, l := range s.Lhs {
			names = append(names, identName(l))
		}
		r := c.call(call, cur)
		if r.m == "" { // a pure callee with several results
			if len(r.vals) != len(names) {
				dieAt(s, "assignment of %d values to %d variables", len(r.vals), len(names))
			}
			e, d := cur, decl
			for i, n := range names {
				e, d = bindVar(e, d, n, r.vals[i])
			}
			return fwrap(r.bs, next(e, d))
		}
		if len(names) != len(r.mrets)+1 {
			dieAt(s, "assignment of %d values to %d variables", len(r.mrets)+1, len(names))
		}
		var ts []string
		for _, sh := range r.mrets {
			ts = append(ts, atomType(fLeanType(sh)))
		}
		x, ev := c.fresh("x", strings.Join(ts, " × ")), c.fresh("e", "Fn.CallErr")
		eOk, dOk, eErr, dErr := cur, decl, cur, decl
		for i, sh := range r.mrets {
			eOk, dOk = bindVar(eOk, dOk, names[i], fval{sh: sh, e: fProj(x, i, len(r.mrets)), e2: map[bool]string{true: "false"}[sh == fVals]})
			eErr, dErr = bindVar(eErr, dErr, names[i], fval{sh: fPoison, why: "it accompanies a non-nil error"})
		}
		last := names[len(names)-1]
		eOk, dOk = bindVar(eOk, dOk, last, errNil)
		eErr, dErr = bindVar(eErr, dErr, last, errNonNil(ev))
		return fwrap(r.bs, "(FnGo.call "+r.m+"\n  (fun "+x+" =>\n"+indent(indent(next(eOk, dOk)))+")\n  (fun "+ev+" =>\n"+indent(indent(next(eErr, dErr)))+"))")
	}
	if len(s.Lhs) != 1 {
		dieAt(s, "assignment %s", src(s))
	}
	switch l := s.Lhs[0].(type) {
	case *ast.Ident:
		name := identName(l)
		if id, ok := s.Rhs[0].(*ast.Ident); ok {
			if v, ok := cur[id.Name]; ok && v.sh == fValsOpt { // the constructed slice is handed over (moved)
				if old, ok := cur[name]; define || !ok || old.sh != fVals {
					dieAt(s, "a slice under construction may only be moved into an existing []cty.Value variable")
				}
				n := c.fresh(name, "List Value")
				e := cur.with(name, fval{sh: fVals, e: n, e2: "false"}).with(id.Name, fval{sh: fPoison, why: "the slice was handed over to " + name})
				return fwrap([]fbind{{n, "(FnGo.done " + v.e + ")", "op"}}, next(e, decl))
			}
		}
		bs, v := c.expr(s.Rhs[0], cur)
		if v.sh == fNil {
			old, ok := cur[name]
			if define || !ok {
				dieAt(s, "nil assigned to a new variable")
			}
			v = fZero(s, old.sh)
		}
		switch v.sh {
		case fFunc, fSpec, fCbType, fCbImpl, fErased, fPoison, fNil:
			dieAt(s, "value %s cannot be stored in a variable", src(s.Rhs[0]))
		}
		e, d := bindVar(cur, decl, name, v)
		return fwrap(bs, next(e, d))
	case *ast.IndexExpr:
		name := identName(l.X)
		tgt, ok := cur[name]
		if define || !ok || tgt.sh != fValsOpt {
			dieAt(s, "element assignment to %s, which is not a slice made by make in this function and not yet handed over", src(l.X))
		}
		bs, i := c.expr(l.Index, cur)
		bs2, v := c.expr(s.Rhs[0], cur)
		if i.sh != fNat || v.sh != fVal {
			dieAt(s, "element assignment %s", src(s))
		}
		n := c.fresh(name, "List (Option Value)")
		bs = append(append(bs, bs2...), fbind{n, "(FnGo.setIdx " + tgt.e + " " + i.e + " " + v.e + ")", "op"})
		return fwrap(bs, next(cur.with(name, fval{sh: fValsOpt, e: n}), decl))
	}
	dieAt(s, "assignment to %s", src(s.Lhs[0]))
	return ""
}

// ---------------------------------------------------------------- range, defer

func (c *fctx) rangeStmt(s *ast.RangeStmt, cur fenv, after fkont) string {
	if c.inLoop || c.inDefer {
		dieAt(s, "nested loop")
	}
	if s.Tok != token.DEFINE {
		dieAt(s, "range without :=")
	}
	ast.Inspect(s.Body, func(n ast.Node) bool {
		switch b := n.(type) {
		case *ast.BranchStmt:
			dieAt(b, "%s in a loop", b.Tok)
		case *ast.DeferStmt, *ast.FuncLit, *ast.GoStmt:
			dieAt(n, "defer / function literal in a loop")
		}
		return true
	})
	xb, x := c.expr(s.X, cur)
	var elemSh fshape
	switch x.sh {
	case fVals:
		elemSh = fVal
	case fTys:
		elemSh = fTy
	case fParams:
		elemSh = fParam
	default:
		dieAt(s.X, "range over %s", src(s.X))
	}
	keyName, valName := identName(s.Key), identName(s.Value)
	state := fAssignedOuter([]ast.Node{s.Body}, cur)
	for _, n := range state {
		if isIdent(s.X, n) {
			dieAt(s, "loop assigns the collection it ranges over")
		}
	}
	ps, inner := c.stateParams(s, state, cur)
	// what follows the loop, as a local function of the loop's state
	c.njoin++
	kname := fmt.Sprintf("k_%d", c.njoin)
	c.ltype[kname] = c.kontType(ps)
	c.order = append(c.order, kname)
	restT := after(inner)
	c.joins = append(c.joins, kname)
	availJoins := append([]string{}, c.joins...)
	var decls, stPats, stTypes []string
	for _, p := range ps {
		decls, stPats, stTypes = append(decls, fmt.Sprintf("(%s : %s)", p.lean, p.typ)), append(stPats, p.lean), append(stTypes, atomType(p.typ))
	}
	kcall := func(args []string) string {
		if len(args) == 0 {
			args = []string{"()"}
		}
		return "(" + kname + " " + strings.Join(args, " ") + ")"
	}
	if len(decls) == 0 {
		decls = []string{"(_ : Unit)"}
	}
	c.nloops++
	name := fmt.Sprintf("%s_loop%d", c.u.name, c.nloops)
	hole := "«" + name + "»"
	body := inner
	idx := ""
	if keyName != "" {
		idx = c.fresh(keyName, "Nat")
		body = body.with(keyName, fval{sh: fNat, e: idx})
	}
	h := "_"
	if valName != "" {
		h = c.fresh(valName, fLeanType(elemSh))
		body = body.with(valName, fval{sh: elemSh, e: h})
	}
	tail := c.fresh("rest", "List "+fLeanType(elemSh))
	idxNext := ""
	if idx != "" {
		idxNext = "(" + idx + " + 1) "
	}
	c.inLoop = true
	stepT := c.block(s.Body.List, body, func(e fenv) string {
		return strings.Join(strings.Fields("("+hole+" "+strings.Join(c.stateArgs(s, ps, e), " ")+" "+idxNext+tail+")"), " ")
	})
	c.inLoop = false
	used := tokens(stepT)
	used[kname] = true
	avail := map[string]bool{}
	for _, v := range cur {
		for tk := range tokens(v.e + " " + v.e2) {
			avail[tk] = true
		}
	}
	for _, j := range availJoins {
		avail[j] = true
	}
	var capDecl, capNames []string
	for _, n := range c.order {
		if used[n] && avail[n] {
			capDecl = append(capDecl, fmt.Sprintf("(%s : %s)", n, c.ltype[n]))
			capNames = append(capNames, n)
		}
	}
	head := strings.Join(strings.Fields(name+" "+strings.Join(capNames, " ")), " ")
	stepT = strings.ReplaceAll(stepT, hole, head)
	sigT := append([]string{}, stTypes...)
	pat1, pat2 := append([]string{}, stPats...), append([]string{}, stPats...)
	init := c.stateArgs(s, ps, cur)
	if idx != "" {
		sigT, pat1, pat2, init = append(sigT, "Nat"), append(pat1, idx), append(pat2, "_"), append(init, "0")
	}
	sigT, pat1, pat2, init = append(sigT, "List "+fLeanType(elemSh)), append(pat1, h+" :: "+tail), append(pat2, "[]"), append(init, x.e)
	c.t.out = append(c.t.out, fmt.Sprintf("/-- the `for %s := range %s` loop of `%s`; `%s` is what follows it -/\ndef %s %s : %s\n  | %s =>\n%s\n  | %s =>\n    %s\n",
		rangeVars(s), src(s.X), c.u.key, kname,
		name, strings.Join(capDecl, " "), strings.Join(append(sigT, c.u.retType()), " → "),
		strings.Join(pat1, ", "), indent(indent(stepT)),
		strings.Join(pat2, ", "), kcall(stPats)))
	return fwrap(xb, "let "+kname+" := fun "+strings.Join(decls, " ")+" =>\n"+indent(restT)+";\n("+head+" "+strings.Join(init, " ")+")")
}

func (c *fctx) deferStmt(s *ast.DeferStmt, cur fenv, rest func() string) string {
	if c.inLoop || c.inDefer {
		dieAt(s, "defer inside a loop or a deferred closure")
	}
	fl, ok := s.Call.Fun.(*ast.FuncLit)
	if !ok || len(s.Call.Args) != 0 || len(fl.Type.Params.List) != 0 || fl.Type.Results != nil {
		dieAt(s, "defer of anything but a parameterless function literal")
	}
	n := len(c.u.rets)
	for _, rn := range c.u.retNames {
		if rn == "" {
			dieAt(s, "defer in a function without named results")
		}
	}
	errName := c.u.retNames[n]
	// the closure reads outer variables when it RUNS: they must not change after the defer statement
	later := map[string]bool{}
	inspectNoLit(c.fd.Body, func(x ast.Node) bool {
		if a, ok := x.(*ast.AssignStmt); ok && a.Pos() > s.Pos() {
			for _, l := range a.Lhs {
				if id, ok := l.(*ast.Ident); ok && (a.Tok == token.ASSIGN) {
					later[id.Name] = true
				}
			}
		}
		return true
	})
	isRes := map[string]bool{}
	for _, rn := range c.u.retNames {
		isRes[rn] = true
	}
	ast.Inspect(fl.Body, func(x ast.Node) bool {
		if id, ok := x.(*ast.Ident); ok && later[id.Name] && !isRes[id.Name] {
			if _, outer := cur[id.Name]; outer {
				dieAt(id, "the deferred closure reads %s, which is assigned after the defer statement", id.Name)
			}
		}
		return true
	})
	end := func(errPath bool) fkont {
		return func(e fenv) string {
			var vals []fval
			for i, rn := range c.u.retNames[:n] {
				v := e[rn]
				if errPath && c.errZero[i] && !(v.sh == fValZero || v.sh == fTyZero || (v.sh == fBool && v.konst == 2)) {
					dieAt(fl, "the deferred closure may leave a non-zero %s next to a non-nil error", rn)
				}
				vals = append(vals, v)
			}
			return c.retResults(fl, vals, e[errName])
		}
	}
	if r, hbody := recoverHandler(fl); hbody != nil {
		henv := cur
		unassigned := false
		for i, rn := range c.u.retNames {
			assigned := false
			for _, st := range hbody.List {
				as, ok := st.(*ast.AssignStmt)
				if !ok || as.Tok != token.ASSIGN || len(as.Lhs) != 1 {
					dieAt(st, "statement in a recover handler (only assignments to named results)")
				}
				assigned = assigned || isIdent(as.Lhs[0], rn)
			}
			if assigned {
				henv = henv.with(rn, fval{sh: fPoison, why: "its value at the time of the panic is not tracked"})
				continue
			}
			// not assigned by the handler: it keeps its value from the time of the panic, which must be the zero value
			inspectNoLit(c.fd.Body, func(x ast.Node) bool {
				if a, ok := x.(*ast.AssignStmt); ok {
					for _, l := range a.Lhs {
						if isIdent(l, rn) {
							dieAt(a, "named result %s is assigned here but not by the recover handler: its value after a recovered panic is not tracked", rn)
						}
					}
				}
				return true
			})
			unassigned = true
			sh := fErr
			if i < n {
				sh = c.u.rets[i]
			}
			henv = henv.with(rn, fZero(fl, sh))
		}
		w := c.fresh(r, "String")
		henv = henv.with(r, fval{sh: fPanicVal, e: w})
		c.inDefer = true
		hT := c.block(hbody.List, henv, end(true))
		c.inDefer = false
		saved := c.noRunDef
		c.noRunDef = c.noRunDef || unassigned
		restT := rest()
		c.noRunDef = saved
		return "(FnGo.deferRecover (fun " + w + " =>\n" + indent(indent(hT)) + ")\n" + indent(restT) + ")"
	}
	ast.Inspect(fl.Body, func(x ast.Node) bool {
		if id, ok := x.(*ast.Ident); ok && id.Name == "recover" {
			dieAt(id, "recover outside the pattern `if r := recover(); r != nil { … }`")
		}
		return true
	})
	if c.noRunDef {
		dieAt(s, "deferred closure inside code whose recover handler leaves a named result unassigned")
	}
	var ts []string
	for _, sh := range c.u.rets {
		ts = append(ts, atomType(fLeanType(sh)))
	}
	a, ev := c.fresh("a", strings.Join(ts, " × ")), c.fresh("e", "Fn.CallErr")
	okEnv, errEnv := cur, cur
	for i, rn := range c.u.retNames[:n] {
		okEnv = okEnv.with(rn, fval{sh: c.u.rets[i], e: fProj(a, i, n)})
		if c.errZero[i] {
			errEnv = errEnv.with(rn, fZero(fl, c.u.rets[i]))
		} else {
			errEnv = errEnv.with(rn, fval{sh: fPoison, why: "it accompanies a non-nil error"})
		}
	}
	okEnv, errEnv = okEnv.with(errName, errNil), errEnv.with(errName, errNonNil(ev))
	c.inDefer = true
	okT := c.block(fl.Body.List, okEnv, end(false))
	errT := c.block(fl.Body.List, errEnv, end(true))
	c.inDefer = false
	return "(FnGo.deferRun\n  (fun " + a + " =>\n" + indent(indent(okT)) + ")\n  (fun " + ev + " =>\n" + indent(indent(errT)) + ")\n" + indent(rest()) + ")"
}

// ---------------------------------------------------------------- expressions

func (c *fctx) expr(e ast.Expr, en fenv) ([]fbind, fval) {
	switch x := e.(type) {
	case *ast.ParenExpr:
		return c.expr(x.X, en)
	case *ast.Ident:
		switch x.Name {
		case "true":
			return nil, fConst(true)
		case "false":
			return nil, fConst(false)
		case "nil":
			return nil, fval{sh: fNil}
		case "_":
			dieAt(x, "blank identifier as a value")
		}
		if v, ok := en[x.Name]; ok {
			if v.sh == fPoison {
				dieAt(x, "use of %s: %s", x.Name, v.why)
			}
			return nil, v
		}
		dieAt(x, "identifier %s", x.Name)
	case *ast.BasicLit:
		switch x.Kind {
		case token.INT:
			if n, err := strconv.ParseUint(x.Value, 0, 63); err == nil {
				return nil, fval{sh: fNat, e: strconv.FormatUint(n, 10)}
			}
		case token.STRING:
			return nil, fval{sh: fErased}
		}
		dieAt(x, "literal %s", x.Value)
	case *ast.CompositeLit:
		if src(x) == "cty.Type{}" {
			return nil, fval{sh: fTyZero}
		}
		dieAt(x, "composite literal %s", src(x))
	case *ast.SelectorExpr:
		if isIdent(x.X, "cty") && !fHasKey(en, "cty") {
			switch x.Sel.Name {
			case "DynamicPseudoType":
				return nil, fval{sh: fTy, e: "Ty.dyn", isDyn: true}
			case "NilType":
				return nil, fval{sh: fTyZero}
			case "NilVal":
				return nil, fval{sh: fValZero}
			}
			dieAt(x, "cty.%s", x.Sel.Name)
		}
		bs, v := c.expr(x.X, en)
		field := func(tbl map[string]fval, recv string) ([]fbind, fval) {
			f, ok := tbl[x.Sel.Name]
			if !ok {
				dieAt(x, "field %s", x.Sel.Name)
			}
			if strings.Contains(f.e, "%s") {
				f.e = fmt.Sprintf(f.e, recv)
			}
			return bs, f
		}
		switch v.sh {
		case fFunc:
			if x.Sel.Name == "spec" { // GIVEN: a Function is built by New with a non-nil *Spec
				return bs, fval{sh: fSpec, e: v.e}
			}
		case fSpec:
			return field(fSpecFields, v.e)
		case fParam:
			return field(fParamFields, v.e)
		case fParamPtr:
			p := c.fresh("p", "Fn.Param")
			bs = append(bs, fbind{p, "(FnGo.deref " + v.e + ")", "op"})
			return field(fParamFields, p)
		}
		dieAt(x, "selector %s", src(x))
	case *ast.UnaryExpr:
		bs, v := c.expr(x.X, en)
		if x.Op == token.NOT && v.sh == fBool {
			switch v.konst {
			case 1:
				return bs, fConst(false)
			case 2:
				return bs, fConst(true)
			}
			return bs, fBool_("(!" + v.e + ")")
		}
		dieAt(x, "operator %s on %s", x.Op, src(x.X))
	case *ast.BinaryExpr:
		return c.binary(x, en)
	case *ast.IndexExpr:
		bs, v := c.expr(x.X, en)
		bs2, i := c.expr(x.Index, en)
		bs = append(bs, bs2...)
		if i.sh != fNat {
			dieAt(x, "index %s", src(x.Index))
		}
		var el fshape
		switch v.sh {
		case fVals:
			el = fVal
		case fTys:
			el = fTy
		case fParams:
			el = fParam
		case fErrCount:
			return append(bs, fbind{"_", "(FnGo.errIndex " + v.e + " " + i.e + ")", "op"}), fval{sh: fErased}
		default:
			dieAt(x, "index expression %s", src(x))
		}
		n := c.fresh("elem", fLeanType(el))
		return append(bs, fbind{n, "(FnGo.index " + v.e + " " + i.e + ")", "op"}), fval{sh: el, e: n}
	case *ast.SliceExpr:
		bs, v := c.expr(x.X, en)
		if v.sh != fVals || x.Slice3 {
			dieAt(x, "slice expression %s", src(x))
		}
		lo, hi := "0", "(List.length "+v.e+")"
		for i, b := range []ast.Expr{x.Low, x.High} {
			if b == nil {
				continue
			}
			bb, bv := c.expr(b, en)
			if bv.sh != fNat {
				dieAt(b, "slice bound %s", src(b))
			}
			bs = append(bs, bb...)
			if i == 0 {
				lo = bv.e
			} else {
				hi = bv.e
			}
		}
		n := c.fresh("sl", "List Value")
		// slicing a nil slice gives nil, slicing a non-nil slice a non-nil one
		return append(bs, fbind{n, "(FnGo.slice " + v.e + " " + lo + " " + hi + ")", "op"}), fval{sh: fVals, e: n, e2: v.e2}
	case *ast.CallExpr:
		r := c.call(x, en)
		if r.m != "" || len(r.vals) != 1 {
			dieAt(x, "call %s used as a single value", src(x))
		}
		return r.bs, r.vals[0]
	}
	dieAt(e, "expression %s (%s)", src(e), strings.TrimPrefix(fmt.Sprintf("%T", e), "*ast."))
	return nil, fval{}
}

func fHasKey(en fenv, k string) bool { _, ok := en[k]; return ok }

// resWrap: binders of kind `op` as a Res-level computation
func resWrap(at ast.Node, bs []fbind, body string) string {
	for i := len(bs) - 1; i >= 0; i-- {
		if bs[i].kind != "op" {
			dieAt(at, "callback invocation inside a short-circuit operand")
		}
		body = "(Res.bind " + bs[i].rhs + " fun " + bs[i].pat + " =>\n" + body + ")"
	}
	return body
}

func (c *fctx) binary(x *ast.BinaryExpr, en fenv) ([]fbind, fval) {
	lb, l := c.expr(x.X, en)
	if (x.Op == token.LAND && l.konst == 2) || (x.Op == token.LOR && l.konst == 1) {
		return lb, l
	}
	rb, r := c.expr(x.Y, en)
	cmp := func(eq bool, yes string) fval { // yes: Lean Bool for "equal"
		switch {
		case yes == "true":
			return fConst(eq)
		case yes == "false":
			return fConst(!eq)
		case eq:
			return fBool_(yes)
		}
		return fBool_("(!" + yes + ")")
	}
	switch x.Op {
	case token.LAND, token.LOR:
		if l.sh != fBool || r.sh != fBool {
			break
		}
		and := x.Op == token.LAND
		if l.konst != 0 {
			return append(lb, rb...), r
		}
		if len(rb) == 0 {
			if r.konst != 0 && (r.konst == 1) == and {
				return lb, l
			}
			op := " || "
			if and {
				op = " && "
			}
			return lb, fBool_("(" + l.e + op + r.e + ")")
		}
		n := c.fresh("c", "Bool")
		rhs := resWrap(x, rb, "(Res.ok "+r.e+")")
		if and {
			return append(lb, fbind{n, "(if " + l.e + " then\n" + indent(rhs) + "\nelse\n  (Res.ok false))", "op"}), fBool_(n)
		}
		return append(lb, fbind{n, "(if " + l.e + " then\n  (Res.ok true)\nelse\n" + indent(rhs) + ")", "op"}), fBool_(n)
	case token.EQL, token.NEQ:
		eq := x.Op == token.EQL
		bs := append(lb, rb...)
		if l.sh == fNil || l.isDyn || l.sh == fValZero || l.sh == fTyZero {
			l, r = r, l
		}
		switch {
		case l.sh == fVals && r.sh == fNil:
			if l.e2 == "" {
				dieAt(x, "the nil-ness of %s is not tracked here", src(x.X))
			}
			return bs, cmp(eq, l.e2)
		case l.sh == fErrCount && r.sh == fNil: // GIVEN: TestConformance returns nil iff it found no error
			return bs, cmp(eq, "("+l.e+" == 0)")
		case l.sh == fErr && r.sh == fNil && l.konst != 0:
			return bs, fConst((l.konst == 2) == eq)
		case (l.sh == fParamPtr || l.sh == fRefinePtr) && r.sh == fNil:
			return bs, cmp(eq, "(Option.isNone "+l.e+")")
		case l.sh == fTy && r.isDyn:
			return bs, cmp(eq, "(Ty.isDyn "+l.e+")")
		case (l.sh == fVal && r.sh == fValZero) || (l.sh == fTy && r.sh == fTyZero): // a modelled value is never the zero value
			return bs, fConst(!eq)
		case (l.sh == fValZero && r.sh == fValZero) || (l.sh == fTyZero && r.sh == fTyZero):
			return bs, fConst(eq)
		case l.sh == r.sh && (l.sh == fBool || l.sh == fNat):
			return bs, cmp(eq, "("+l.e+" == "+r.e+")")
		}
	case token.LSS, token.GTR, token.LEQ, token.GEQ:
		if l.sh == fNat && r.sh == fNat {
			return append(lb, rb...), fBool_("(decide (" + l.e + " " + x.Op.String() + " " + r.e + "))")
		}
	case token.ADD:
		if l.sh == fNat && r.sh == fNat {
			return append(lb, rb...), fval{sh: fNat, e: "(" + l.e + " + " + r.e + ")"}
		}
	}
	dieAt(x, "operator %s in %s", x.Op, src(x))
	return nil, fval{}
}

// fcallRes: a pure call has vals; a callee with an error result has m (a FnGo.M) and mrets
type fcallRes struct {
	bs    []fbind
	vals  []fval
	m     string
	mrets []fshape
}

func (c *fctx) args(call *ast.CallExpr, en fenv, want []fshape) ([]fbind, []string) {
	if len(call.Args) != len(want) {
		dieAt(call, "call %s: %d arguments", src(call), len(call.Args))
	}
	var bs []fbind
	var out []string
	for i, a := range call.Args {
		b, v := c.expr(a, en)
		bs = append(bs, b...)
		if v.sh == fValsOpt && want[i] == fVals {
			n := c.fresh("vals", "List Value")
			bs = append(bs, fbind{n, "(FnGo.done " + v.e + ")", "op"})
			v = fval{sh: fVals, e: n, e2: "false"}
		}
		if v.sh != want[i] || v.e == "" {
			dieAt(a, "argument %s", src(a))
		}
		out = append(out, v.e)
	}
	return bs, out
}

func (c *fctx) call(call *ast.CallExpr, en fenv) fcallRes {
	one := func(bs []fbind, v fval) fcallRes { return fcallRes{bs: bs, vals: []fval{v}} }
	fn := src(call.Fun)
	if call.Ellipsis.IsValid() && !strings.HasSuffix(fn, ".WithMarks") {
		dieAt(call, "variadic call")
	}
	erasedArgs := func(from int) []fbind { // arguments that only feed an error message: evaluated, not kept
		var bs []fbind
		for _, a := range call.Args[from:] {
			b, _ := c.expr(a, en)
			bs = append(bs, b...)
		}
		return bs
	}
	if id, ok := call.Fun.(*ast.Ident); ok && fHasKey(en, id.Name) {
		dieAt(call, "call of a local value")
	}
	switch fn {
	case "len":
		if len(call.Args) == 1 {
			bs, a := c.expr(call.Args[0], en)
			switch a.sh {
			case fVals, fValsOpt, fTys, fParams, fMarkSets, fMarks:
				return one(bs, fval{sh: fNat, e: "(List.length " + a.e + ")"})
			case fErrCount:
				return one(bs, fval{sh: fNat, e: a.e})
			}
		}
		dieAt(call, "call %s", src(call))
	case "make":
		if len(call.Args) == 2 && src(call.Args[0]) == "[]cty.Value" {
			bs, n := c.expr(call.Args[1], en)
			if n.sh == fNat {
				return one(bs, fval{sh: fValsOpt, e: "(FnGo.make (α := Value) " + n.e + ")"})
			}
		}
		dieAt(call, "call %s", src(call))
	case "append":
		if len(call.Args) == 2 {
			bs, a := c.expr(call.Args[0], en)
			bs2, b := c.expr(call.Args[1], en)
			if a.sh == fMarkSets && b.sh == fMarks {
				return one(append(bs, bs2...), fval{sh: fMarkSets, e: "(" + a.e + " ++ [" + b.e + "])"})
			}
		}
		dieAt(call, "call %s", src(call))
	case "fmt.Errorf":
		return one(erasedArgs(0), errNonNil("FnGo.plainError"))
	case "NewArgErrorf", "NewArgError":
		if len(call.Args) >= 2 {
			bs, i := c.expr(call.Args[0], en)
			if i.sh == fNat {
				return one(append(bs, erasedArgs(1)...), errNonNil("(FnGo.argError "+i.e+")"))
			}
		}
		dieAt(call, "call %s", src(call))
	case "errorForPanic":
		if len(call.Args) == 1 {
			if bs, r := c.expr(call.Args[0], en); r.sh == fPanicVal {
				return one(bs, errNonNil("(FnGo.errorForPanic "+r.e+")"))
			}
		}
		dieAt(call, "call %s", src(call))
	}
	if p, ok := fFuncs[fn]; ok {
		bs, as := c.args(call, en, p.args)
		return one(bs, fval{sh: p.rets[0], e: "(" + p.lean[0] + " " + strings.Join(as, " ") + ")"})
	}
	sel, ok := call.Fun.(*ast.SelectorExpr)
	if !ok {
		dieAt(call, "call of %s, which is neither a method of Function nor part of the given API", fn)
	}
	rb, r := c.expr(sel.X, en)
	if r.sh == fSpec { // a callback stored in the Spec
		rb, r = c.expr(sel, en)
	}
	switch r.sh {
	case fVal, fTy:
		if sel.Sel.Name == "RefineWith" && r.sh == fVal { // GIVEN: invokes the callback (one trace event), may panic
			bs, as := c.args(call, en, []fshape{fRefinePtr})
			n := c.fresh("refined", "Value")
			return one(append(append(rb, bs...), fbind{n, "(FnGo.refineWith " + as[0] + " " + r.e + ")", "seq"}), fval{sh: fVal, e: n})
		}
		m, ok := fMethods[sel.Sel.Name]
		if !ok || m.recv != r.sh {
			dieAt(call, "method %s is not part of the given API", sel.Sel.Name)
		}
		if (sel.Sel.Name == "WithMarks") != call.Ellipsis.IsValid() {
			dieAt(call, "call %s", src(call))
		}
		bs, as := c.args(call, en, m.args)
		res := fcallRes{bs: append(rb, bs...)}
		for i, l := range m.lean {
			res.vals = append(res.vals, fval{sh: m.rets[i], e: "(" + strings.Join(append([]string{l, r.e}, as...), " ") + ")"})
		}
		return res
	case fCbType:
		bs, as := c.args(call, en, []fshape{fVals})
		return fcallRes{bs: append(rb, bs...), m: "(FnGo.callType tf " + as[0] + ")", mrets: []fshape{fTy}}
	case fCbImpl:
		bs, as := c.args(call, en, []fshape{fVals, fTy})
		return fcallRes{bs: append(rb, bs...), m: "(FnGo.callImpl impl " + as[0] + " " + as[1] + ")", mrets: []fshape{fVal}}
	case fFunc:
		u := c.t.ensure("Function."+sel.Sel.Name, call)
		if len(call.Args) != len(u.goParams) {
			dieAt(call, "call %s", src(call))
		}
		as := []string{r.e, "tf", "impl"}
		bs := rb
		for i, a := range call.Args {
			b, v := c.expr(a, en)
			bs = append(bs, b...)
			if v.sh == fValsOpt && u.goParams[i].sh == fVals {
				n := c.fresh("vals", "List Value")
				bs = append(bs, fbind{n, "(FnGo.done " + v.e + ")", "op"})
				v = fval{sh: fVals, e: n, e2: "false"}
			}
			if v.sh != u.goParams[i].sh {
				dieAt(a, "argument %s", src(a))
			}
			as = append(as, v.e)
			if v.sh == fVals {
				if v.e2 == "" {
					dieAt(a, "the nil-ness of %s is not tracked here", src(a))
				}
				as = append(as, v.e2)
			}
		}
		return fcallRes{bs: bs, m: "(" + u.name + " " + strings.Join(as, " ") + ")", mrets: u.rets}
	}
	dieAt(call, "method call %s", src(call))
	return fcallRes{}
}

// ---------------------------------------------------------------- entry

func translateFnCall(repo, leanDir, hdr string) int {
	t := &ftr{funcs: map[string]*ast.FuncDecl{}, units: map[string]*funit{}, lines: map[string][2]int{}}
	for _, f := range parseDir(filepath.Join(repo, "cty/function")) {
		if filepath.Base(fset.Position(f.Pos()).Filename) != "function.go" {
			continue
		}
		for _, d := range f.Decls {
			fd, ok := d.(*ast.FuncDecl)
			if !ok || fd.Body == nil || fd.Recv == nil {
				continue
			}
			t.funcs[strings.TrimPrefix(src(fd.Recv.List[0].Type), "*")+"."+fd.Name.Name] = fd
		}
	}
	for _, r := range fnRoots {
		if t.funcs[r] == nil {
			die("translate: %s not found in cty/function/function.go", r)
		}
		t.ensure(r, t.funcs[r])
	}
	var b strings.Builder
	b.WriteString(hdr + "-- Translation of the function-call protocol, cty/function/function.go (extract/translate_fn.go); tied to the\n-- hand-written model (CtyModel/Function.lean) by CtyModel/Lemmas/FnCallTie.lean.\n--\n-- TRANSLATED, statement by statement:\n")
	var keys []string
	for k := range t.lines {
		keys = append(keys, k)
	}
	sort.Slice(keys, func(i, j int) bool { return t.lines[keys[i]][0] < t.lines[keys[j]][0] })
	for _, k := range keys {
		fmt.Fprintf(&b, "--   %s  (function.go:%d-%d)\n", k, t.lines[k][0], t.lines[k][1])
	}
	b.WriteString(fnGivenDoc())
	b.WriteString("import CtyModel.FnGo\nset_option linter.unusedVariables false\nnamespace CtyModel.Generated.FnCall\n\n")
	b.WriteString(strings.Join(t.out, "\n"))
	b.WriteString("\n" + fnAliases)
	// The wrappers are outside the translated fragment (Proxy returns a closure, Unpredictable copies a struct): their
	// bodies are handed over as whitespace-normalised source text and pinned by `C10.wrappers_source_pinned`.
	fdir := parseDir(filepath.Join(repo, "cty/function"))
	for _, w := range [][2]string{{"Proxy", "proxyBody"}, {"Unpredictable", "unpredictableBody"}, {"unpredictableImpl", "unpredictableImplBody"}} {
		fd := findFunc(fdir, w[0])
		if fd == nil || fd.Body == nil {
			die("translate: %s not found in cty/function", w[0])
		}
		fmt.Fprintf(&b, "\n/-- body of `%s` in cty/function (whitespace-normalised source text) -/\ndef %s : String := %s\n", w[0], w[1], leanStr(strings.Join(strings.Fields(src(fd.Body)), " ")))
	}
	b.WriteString("\nend CtyModel.Generated.FnCall\n")
	writeIfChanged(filepath.Join(leanDir, "FnCall.lean"), b.String())
	return len(t.out)
}

func fnGivenDoc() string {
	var b strings.Builder
	b.WriteString("--\n-- GIVEN (not translated; defined in CtyModel/FnGo.lean in terms of the hand-written model):\n")
	b.WriteString("--   f.spec (non-nil) is a Fn.Spec; Spec.Type / Spec.Impl are the parameters tf / impl (FnGo.callType / callImpl: answer,\n--   error or panic, one trace event per invocation); a result that accompanies a non-nil error is not modelled\n")
	var ms []string
	for n, m := range fMethods {
		ms = append(ms, fmt.Sprintf("--   %s ↦ %s", n, strings.Join(m.lean, ", ")))
	}
	for n, m := range fFuncs {
		ms = append(ms, fmt.Sprintf("--   %s ↦ %s", n, strings.Join(m.lean, ", ")))
	}
	sort.Strings(ms)
	b.WriteString(strings.Join(ms, "\n") + "\n")
	b.WriteString("--   Value.RefineWith ↦ FnGo.refineWith (invokes RefineResult: one trace event; may panic)\n")
	b.WriteString("--   fmt.Errorf ↦ FnGo.plainError; NewArgErrorf, NewArgError ↦ FnGo.argError; errorForPanic ↦ FnGo.errorForPanic;\n--   a panic value built by fmt.Errorf ↦ FnGo.panicValue; `errs != nil` for the []error of TestConformance ↦ count ≠ 0\n")
	b.WriteString("--   defer func(){ if r := recover(); r != nil {…} }() ↦ FnGo.deferRecover (the recover wrapper is given, its handler is translated);\n--   defer func(){…}() without recover ↦ FnGo.deferRun (translated; unmodelled on the panic path)\n--   slices: List + \"is nil\" flag where compared with nil; make/copy/x[i]=v on a List (Option _); no spare capacity\n")
	return b.String()
}
