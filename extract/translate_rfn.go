// Go→Lean translator for cty/unknown_refinement.go (property C05): Value.Refine, Value.RefineNotNull, the
// RefinementBuilder methods, NewValue, and the methods of the four refinement structs (copy, null, setNull,
// rawEqual, assertConsistent*Bounds; GoString is skipped).  It writes lean/CtyModel/Generated/RefineFns.lean;
// Lemmas/RefineFnsTie.lean proves the generated definitions equal to the hand-written model (CtyModel/Refine.lean),
// so the C05 theorems are re-checked against what the source says on every run.
//
// Like translate.go this is a SYNTACTIC FRAGMENT, not Go semantics; anything else is an error with the source
// position (exit 1 = broken tie):
//
//	statements   x := e | x = e | p.f = e (through a struct pointer, also the alias `w, ok := b.wip.(*K)`) | xs[i] = e
//	             v, ok := X.(*K) | a, b := v.Unmark() | var x T | { … }
//	             if [init;] c {…} [else …] | switch [tag] { case …: … [default: …] }   (no fallthrough/break)
//	             for i := range xs {…}     (index only, no nesting, no break/continue/labels)
//	             return [e] | panic(…) | p.m(…)   (a method that updates its receiver, or only checks it)
//	             defer func() { ret = … }()  as the FIRST statement of a function with one named result
//	expressions  identifiers, field selection, *p, &x, &K{…}, []Value{…}, Value{ty: …, v: &unknownType{refinement: …}},
//	             !, &&, ||, ==, != (also against nil, NilVal, DynamicVal, NegativeInfinity, PositiveInfinity, the
//	             primitive types, the tristate constants), <, >, <=, >= on int, len, make([]Value, n), s[:n], int64(x),
//	             calls of other functions/methods of the file (translated on demand), method calls through the
//	             interface unknownValRefinement (a match over its four implementations; nil panics),
//	             calls of the GIVEN API (tables below; defined in lean/CtyModel/RefineGo.lean)
//
// Pointers: a pointer to a refinement struct or to a RefinementBuilder is read as the struct's current value; a
// method with a pointer receiver that assigns to it becomes a function returning the new receiver state; every
// builder method must return its receiver (checked).  No other aliasing is in the fragment.
package main

import (
	"fmt"
	"go/ast"
	"go/token"
	"path/filepath"
	"sort"
	"strconv"
	"strings"
)

// ---------------------------------------------------------------- configuration (the reading of Go data)

var rfRoots = []string{
	"Value.Refine", "Value.RefineNotNull",
	"RefinementBuilder.NotNull", "RefinementBuilder.Null",
	"RefinementBuilder.NumberRangeLowerBound", "RefinementBuilder.NumberRangeUpperBound", "RefinementBuilder.NumberRangeInclusive",
	"RefinementBuilder.CollectionLengthLowerBound", "RefinementBuilder.CollectionLengthUpperBound", "RefinementBuilder.CollectionLength",
	"RefinementBuilder.StringPrefixFull", "RefinementBuilder.StringPrefix", "RefinementBuilder.NewValue",
	"refinementNullable.rawEqual", "refinementString.rawEqual", "refinementNumber.rawEqual", "refinementCollection.rawEqual",
}

type rfShape int

const (
	rfBool rfShape = iota
	rfInt
	rfStr
	rfBytes
	rfTri
	rfTy
	rfGoVal
	rfMarks
	rfRfn    // a value of the interface unknownValRefinement
	rfStruct // a struct value or a pointer to one, flattened into its fields
	rfSlice  // []Value
	rfAlias  // the pointer obtained by a type assertion: another name for a field of another variable
	rfUnitSh
	rfPoison
	rfNil
)

func rfLeanType(sh rfShape) string {
	switch sh {
	case rfBool:
		return "Bool"
	case rfInt:
		return "Int"
	case rfStr:
		return "String"
	case rfBytes:
		return "List UInt8"
	case rfTri:
		return "Tri"
	case rfTy:
		return "Ty"
	case rfGoVal:
		return "RefineGo.GoVal"
	case rfMarks:
		return "List String"
	case rfRfn:
		return "Rfn"
	case rfSlice:
		return "List RefineGo.GoVal"
	case rfUnitSh:
		return "Unit"
	}
	panic("rfLeanType")
}

type rfVal struct {
	sh     rfShape
	e      string
	konst  int // rfBool: 1 = known true, 2 = known false
	kind   *rfKind
	fields map[string]rfVal
	ro     bool // a struct obtained by asserting a plain variable: reading only
	root   string
	path   []string
	why    string
}

// rfKind: a Go struct type of the fragment and its reading as a Lean constructor
type rfKind struct {
	goType string
	iface  bool   // implements unknownValRefinement
	ctor   string // Lean constructor
	state  string // Lean type of the packed struct
	whole  bool   // passed to functions as one Lean value (else flattened into its leaf fields)
	vars   []leanVar
	fields []rfFieldSpec
}

type rfFieldSpec struct {
	name   string
	goType string
	sh     rfShape
	kind   string                     // rfStruct: kind of the embedded struct
	read   func(vars []string) string // the field as an expression over the constructor's variables
	sub    []int                      // rfStruct: which of the variables are the embedded struct's
}

func rfVarAt(i int) func([]string) string { return func(v []string) string { return v[i] } }

var rfKinds = map[string]*rfKind{}

func init() {
	emb := rfFieldSpec{name: "refinementNullable", goType: "refinementNullable", sh: rfStruct, kind: "refinementNullable", sub: []int{0}}
	for _, k := range []*rfKind{
		{goType: "refinementNullable", iface: true, ctor: "Rfn.nullable", state: "Rfn", vars: []leanVar{{"n", "Tri"}},
			fields: []rfFieldSpec{{name: "isNull", goType: "tristateBool", sh: rfTri, read: rfVarAt(0)}}},
		{goType: "refinementString", iface: true, ctor: "Rfn.str", state: "Rfn", vars: []leanVar{{"n", "Tri"}, {"pfx", "String"}},
			fields: []rfFieldSpec{emb, {name: "prefix", goType: "string", sh: rfStr, read: rfVarAt(1)}}},
		{goType: "refinementNumber", iface: true, ctor: "Rfn.num", state: "Rfn", vars: []leanVar{{"n", "Tri"}, {"lo", "Option Bound"}, {"hi", "Option Bound"}},
			fields: []rfFieldSpec{emb,
				{name: "min", goType: "Value", sh: rfGoVal, read: func(v []string) string { return "(RefineGo.boundVal " + v[1] + ")" }},
				{name: "max", goType: "Value", sh: rfGoVal, read: func(v []string) string { return "(RefineGo.boundVal " + v[2] + ")" }},
				{name: "minInc", goType: "bool", sh: rfBool, read: func(v []string) string { return "(RefineGo.boundInc " + v[1] + ")" }},
				{name: "maxInc", goType: "bool", sh: rfBool, read: func(v []string) string { return "(RefineGo.boundInc " + v[2] + ")" }}}},
		{goType: "refinementCollection", iface: true, ctor: "Rfn.coll", state: "Rfn", vars: []leanVar{{"n", "Tri"}, {"lo", "Int"}, {"hi", "Int"}},
			fields: []rfFieldSpec{emb, {name: "minLen", goType: "int", sh: rfInt, read: rfVarAt(1)}, {name: "maxLen", goType: "int", sh: rfInt, read: rfVarAt(2)}}},
		{goType: "RefinementBuilder", ctor: "Refine.Builder.mk", state: "Refine.Builder", whole: true,
			vars: []leanVar{{"orig", "Value"}, {"marks", "List String"}, {"wip", "Rfn"}},
			fields: []rfFieldSpec{
				{name: "orig", goType: "Value", sh: rfGoVal, read: func(v []string) string { return "(RefineGo.GoVal.v " + v[0] + ")" }},
				{name: "marks", goType: "ValueMarks", sh: rfMarks, read: rfVarAt(1)},
				{name: "wip", goType: "unknownValRefinement", sh: rfRfn, read: rfVarAt(2)}}},
		{goType: "unknownType", fields: []rfFieldSpec{{name: "refinement", goType: "unknownValRefinement", sh: rfRfn, read: rfVarAt(0)}}},
	} {
		rfKinds[k.goType] = k
	}
}

// the implementations of unknownValRefinement, in the order of the generated matches
var rfIfaceKinds = []string{"refinementNullable", "refinementString", "refinementNumber", "refinementCollection"}

// named values of package cty
var rfNamedVals = map[string]rfVal{
	"DynamicVal":        {sh: rfGoVal, e: "(RefineGo.GoVal.v Value.dynVal)"},
	"NilVal":            {sh: rfGoVal, e: "RefineGo.GoVal.nilVal"},
	"NegativeInfinity":  {sh: rfGoVal, e: "RefineGo.GoVal.negInf"},
	"PositiveInfinity":  {sh: rfGoVal, e: "RefineGo.GoVal.posInf"},
	"DynamicPseudoType": {sh: rfTy, e: "Ty.dyn"},
	"String":            {sh: rfTy, e: "Ty.string"},
	"Number":            {sh: rfTy, e: "Ty.number"},
	"Bool":              {sh: rfTy, e: "Ty.bool"},
	"tristateTrue":      {sh: rfTri, e: "Tri.t"},
	"tristateFalse":     {sh: rfTri, e: "Tri.f"},
	"tristateUnknown":   {sh: rfTri, e: "Tri.u"},
}

// `x == <named value>`: Go compares structs (pointers inside) — a predicate of the given API, not an equality of the model
var rfNamedEq = map[string]string{
	"DynamicVal": "RefineGo.isDynamicVal", "NilVal": "RefineGo.isNilVal", "NegativeInfinity": "RefineGo.isNegInf", "PositiveInfinity": "RefineGo.isPosInf",
	"DynamicPseudoType": "Ty.isDyn", "String": "RefineGo.isString", "Number": "RefineGo.isNumber", "Bool": "RefineGo.isBool",
}

// the GIVEN API (lean/CtyModel/RefineGo.lean, TyGo.lean)
type rfPrim struct {
	lean string
	args []rfShape
	ret  []rfShape // two entries: a pair
	res  bool      // returns Res
}

var rfValueMethods = map[string]rfPrim{
	"IsKnown":              {"RefineGo.isKnown", nil, []rfShape{rfBool}, false},
	"IsNull":               {"RefineGo.isNull", nil, []rfShape{rfBool}, false},
	"Type":                 {"RefineGo.typeOf", nil, []rfShape{rfTy}, true},
	"Unmark":               {"RefineGo.unmark", nil, []rfShape{rfGoVal, rfMarks}, true},
	"WithMarks":            {"RefineGo.withMarks", []rfShape{rfMarks}, []rfShape{rfGoVal}, true},
	"GreaterThan":          {"RefineGo.greaterThan", []rfShape{rfGoVal}, []rfShape{rfGoVal}, true},
	"GreaterThanOrEqualTo": {"RefineGo.greaterThanOrEqualTo", []rfShape{rfGoVal}, []rfShape{rfGoVal}, true},
	"LessThan":             {"RefineGo.lessThan", []rfShape{rfGoVal}, []rfShape{rfGoVal}, true},
	"LessThanOrEqualTo":    {"RefineGo.lessThanOrEqualTo", []rfShape{rfGoVal}, []rfShape{rfGoVal}, true},
	"Equals":               {"RefineGo.equals", []rfShape{rfGoVal}, []rfShape{rfGoVal}, true},
	"True":                 {"RefineGo.isTrue", nil, []rfShape{rfBool}, true},
	"False":                {"RefineGo.isFalse", nil, []rfShape{rfBool}, true},
	"Length":               {"RefineGo.length", nil, []rfShape{rfGoVal}, true},
	"AsString":             {"RefineGo.asString", nil, []rfShape{rfStr}, true},
	"RawEquals":            {"RefineGo.rawEquals", []rfShape{rfGoVal}, []rfShape{rfBool}, true},
}

var rfTypeMethods = map[string]rfPrim{
	"IsCollectionType": {"TyGo.isCollectionType", nil, []rfShape{rfBool}, false},
	"ElementType":      {"TyGo.elementType", nil, []rfShape{rfTy}, true},
	"IsListType":       {"RefineGo.isListType", nil, []rfShape{rfBool}, false},
	"IsSetType":        {"RefineGo.isSetType", nil, []rfShape{rfBool}, false},
	"IsMapType":        {"RefineGo.isMapType", nil, []rfShape{rfBool}, false},
	"IsObjectType":     {"RefineGo.isObjectType", nil, []rfShape{rfBool}, false},
	"IsTupleType":      {"RefineGo.isTupleType", nil, []rfShape{rfBool}, false},
	"IsCapsuleType":    {"RefineGo.isCapsuleType", nil, []rfShape{rfBool}, false},
}

var rfFuncPrims = map[string]rfPrim{
	"NumberIntVal":               {"RefineGo.numberIntVal", []rfShape{rfInt}, []rfShape{rfGoVal}, false},
	"NullVal":                    {"RefineGo.nullVal", []rfShape{rfTy}, []rfShape{rfGoVal}, false},
	"UnknownVal":                 {"RefineGo.unknownVal", []rfShape{rfTy}, []rfShape{rfGoVal}, false},
	"ListValEmpty":               {"RefineGo.listValEmpty", []rfShape{rfTy}, []rfShape{rfGoVal}, false},
	"SetValEmpty":                {"RefineGo.setValEmpty", []rfShape{rfTy}, []rfShape{rfGoVal}, false},
	"MapValEmpty":                {"RefineGo.mapValEmpty", []rfShape{rfTy}, []rfShape{rfGoVal}, false},
	"ListVal":                    {"RefineGo.listVal", []rfShape{rfSlice}, []rfShape{rfGoVal}, true},
	"SetVal":                     {"RefineGo.setVal", []rfShape{rfSlice}, []rfShape{rfGoVal}, true},
	"NormalizeString":            {"RefineGo.Strings.normalizeString", []rfShape{rfStr}, []rfShape{rfStr}, false},
	"strings.HasPrefix":          {"RefineGo.hasPrefix", []rfShape{rfStr, rfStr}, []rfShape{rfBool}, false},
	"ctystrings.SafeKnownPrefix": {"RefineGo.Strings.safeKnownPrefix", []rfShape{rfStr}, []rfShape{rfStr}, false},
}

func rfTypeShape(n ast.Node, s string) (rfShape, *rfKind) {
	switch s {
	case "Value":
		return rfGoVal, nil
	case "bool":
		return rfBool, nil
	case "int":
		return rfInt, nil
	case "string":
		return rfStr, nil
	case "tristateBool":
		return rfTri, nil
	case "Type":
		return rfTy, nil
	case "ValueMarks":
		return rfMarks, nil
	case "unknownValRefinement":
		return rfRfn, nil
	case "[]Value":
		return rfSlice, nil
	}
	if k := rfKinds[strings.TrimPrefix(s, "*")]; k != nil && k.ctor != "" {
		return rfStruct, k
	}
	dieAt(n, "type %s", s)
	return 0, nil
}

// ---------------------------------------------------------------- struct values

// rfUnpack: the struct of kind k whose constructor variables are the given Lean expressions
func rfUnpack(k *rfKind, vars []string) rfVal {
	v := rfVal{sh: rfStruct, kind: k, fields: map[string]rfVal{}}
	for _, f := range k.fields {
		if f.sh == rfStruct {
			var sub []string
			for _, i := range f.sub {
				sub = append(sub, vars[i])
			}
			v.fields[f.name] = rfUnpack(rfKinds[f.kind], sub)
		} else {
			v.fields[f.name] = rfVal{sh: f.sh, e: f.read(vars)}
		}
	}
	return v
}

// rfUnpackWhole: a builder held in the Lean variable x
func rfUnpackWhole(k *rfKind, x string) rfVal {
	var vars []string
	for _, lv := range k.vars {
		vars = append(vars, x+"."+lv.name)
	}
	return rfUnpack(k, vars)
}

type rfLeaf struct {
	path []string
	sh   rfShape
}

func (k *rfKind) leaves() []rfLeaf {
	var out []rfLeaf
	for _, f := range k.fields {
		if f.sh == rfStruct {
			for _, l := range rfKinds[f.kind].leaves() {
				out = append(out, rfLeaf{append([]string{f.name}, l.path...), l.sh})
			}
		} else {
			out = append(out, rfLeaf{[]string{f.name}, f.sh})
		}
	}
	return out
}

func rfGet(v rfVal, path []string) rfVal {
	for _, p := range path {
		v = v.fields[p]
	}
	return v
}

func rfSet(v rfVal, path []string, nv rfVal) rfVal {
	if len(path) == 0 {
		return nv
	}
	c := v
	c.fields = map[string]rfVal{}
	for k, f := range v.fields {
		c.fields[k] = f
	}
	c.fields[path[0]] = rfSet(v.fields[path[0]], path[1:], nv)
	return c
}

func rfZero(n ast.Node, sh rfShape, k *rfKind) rfVal {
	switch sh {
	case rfBool:
		return rfVal{sh: rfBool, e: "false", konst: 2}
	case rfInt:
		return rfVal{sh: rfInt, e: "0"}
	case rfStr:
		return rfVal{sh: rfStr, e: "\"\""}
	case rfTri:
		return rfNamedVals["tristateUnknown"]
	case rfGoVal:
		return rfNamedVals["NilVal"]
	case rfRfn:
		return rfVal{sh: rfRfn, e: "Rfn.unref"}
	case rfMarks:
		return rfVal{sh: rfMarks, e: "([] : List String)"}
	case rfStruct:
		v := rfVal{sh: rfStruct, kind: k, fields: map[string]rfVal{}}
		for _, f := range k.fields {
			v.fields[f.name] = rfZero(n, f.sh, rfKinds[f.kind])
		}
		return v
	}
	dieAt(n, "zero value of this type")
	return rfVal{}
}

func rfStripCall(e, fn string) (string, bool) {
	p := "(" + fn + " "
	if strings.HasPrefix(e, p) && strings.HasSuffix(e, ")") {
		in := e[len(p) : len(e)-1]
		if identRe.FindString(in) == in || (strings.Count(in, "(") == 0 && !strings.Contains(in, " ")) {
			return in, true
		}
	}
	return "", false
}

// pack: the struct as one Lean value of its kind's state type
func (c *rfCtx) pack(n ast.Node, v rfVal) ([]bind, string) {
	k := v.kind
	var bs []bind
	switch k.goType {
	case "refinementNullable":
		return nil, "(Rfn.nullable " + v.fields["isNull"].e + ")"
	case "refinementString":
		return nil, "(Rfn.str " + v.fields["refinementNullable"].fields["isNull"].e + " " + v.fields["prefix"].e + ")"
	case "refinementCollection":
		return nil, "(Rfn.coll " + v.fields["refinementNullable"].fields["isNull"].e + " " + v.fields["minLen"].e + " " + v.fields["maxLen"].e + ")"
	case "refinementNumber":
		bound := func(val, inc string) string {
			a, ok1 := rfStripCall(v.fields[val].e, "RefineGo.boundVal")
			b, ok2 := rfStripCall(v.fields[inc].e, "RefineGo.boundInc")
			if ok1 && ok2 && a == b { // both fields as they were read
				return a
			}
			x := c.fresh(val+"B", "Option Bound")
			bs = append(bs, bind{x, "(RefineGo.mkBound " + v.fields[val].e + " " + v.fields[inc].e + ")"})
			return x
		}
		lo := bound("min", "minInc")
		hi := bound("max", "maxInc")
		return bs, "(Rfn.num " + v.fields["refinementNullable"].fields["isNull"].e + " " + lo + " " + hi + ")"
	case "RefinementBuilder":
		orig := v.fields["orig"].e
		if x, ok := rfStripCall(orig, "RefineGo.GoVal.v"); ok {
			orig = x
		} else {
			x := c.fresh("orig", "Value")
			bs = append(bs, bind{x, "(RefineGo.toValue " + orig + ")"})
			orig = x
		}
		wb, wip := c.toRfn(n, v.fields["wip"])
		bs = append(bs, wb...)
		marks := v.fields["marks"].e
		if strings.HasSuffix(orig, ".orig") && strings.HasSuffix(marks, ".marks") && strings.HasSuffix(wip, ".wip") {
			if x := strings.TrimSuffix(orig, ".orig"); x == strings.TrimSuffix(marks, ".marks") && x == strings.TrimSuffix(wip, ".wip") {
				return bs, x // the builder as it was
			}
		}
		return bs, "(Refine.Builder.mk " + orig + " " + marks + " " + wip + ")"
	}
	dieAt(n, "a %s cannot be passed on as a value", k.goType)
	return nil, ""
}

// toRfn: a value stored in a variable of the interface type
func (c *rfCtx) toRfn(n ast.Node, v rfVal) ([]bind, string) {
	switch {
	case v.sh == rfRfn:
		return nil, v.e
	case v.sh == rfNil:
		return nil, "Rfn.unref"
	case v.sh == rfStruct && v.kind.iface:
		return c.pack(n, v)
	}
	dieAt(n, "value used as an unknownValRefinement")
	return nil, ""
}

// leafArgs: the struct as the arguments of a function whose receiver is of kind k
func (c *rfCtx) recvArgs(n ast.Node, v rfVal) ([]bind, []string) {
	if v.kind.whole {
		bs, e := c.pack(n, v)
		return bs, []string{e}
	}
	var out []string
	for _, l := range v.kind.leaves() {
		out = append(out, rfGet(v, l.path).e)
	}
	return nil, out
}

// ---------------------------------------------------------------- translator state

type rfParam struct {
	name string
	sh   rfShape
	kind *rfKind
}

type rfUnit struct {
	key, name   string
	recvKind    *rfKind // receiver is a pointer to a struct of the fragment
	recvGoVal   bool    // receiver is a Value
	recvName    string
	params      []leanVar
	goParams    []rfParam
	ret         rfShape
	retKind     *rfKind
	proc        bool // no result
	mutating    bool // proc that assigns to its receiver: returns the new receiver state
	builderProc bool // method of *RefinementBuilder returning *RefinementBuilder (its receiver)
	inProgress  bool
	lines       string
}

func (u *rfUnit) resultType() string {
	switch {
	case u.builderProc:
		return "Refine.Builder"
	case u.proc && u.mutating:
		return u.recvKind.state
	case u.proc:
		return "Unit"
	case u.ret == rfStruct:
		return u.retKind.state
	}
	return rfLeanType(u.ret)
}

type rfTr struct {
	funcs   map[string]*ast.FuncDecl
	file    map[string]string
	units   map[string]*rfUnit
	order   []*rfUnit
	out     []string
	mutMemo map[string]int
}

type rfEnv map[string]rfVal

func (e rfEnv) with(k string, v rfVal) rfEnv {
	if k == "" || k == "_" {
		return e
	}
	n := make(rfEnv, len(e)+1)
	for a, b := range e {
		n[a] = b
	}
	n[k] = v
	return n
}

type rfCtx struct {
	t        *rfTr
	u        *rfUnit
	ltype    map[string]string
	order    []string
	nloops   int
	inLoop   bool
	retName  string     // named result
	deferred []ast.Stmt // body of the deferred closure
	inDefer  bool
	retCtx   bool // translating the operand of a return statement
}

func (c *rfCtx) fresh(base, typ string) string {
	base = strings.TrimRight(base, "_")
	n := base + "_"
	for i := 2; c.ltype[n] != ""; i++ {
		n = fmt.Sprintf("%s_%d", base, i)
	}
	c.ltype[n] = typ
	c.order = append(c.order, n)
	return n
}

func rfBool_(e string) rfVal { return rfVal{sh: rfBool, e: e} }
func rfConst(b bool) rfVal {
	if b {
		return rfVal{sh: rfBool, e: "true", konst: 1}
	}
	return rfVal{sh: rfBool, e: "false", konst: 2}
}

// ---------------------------------------------------------------- functions

func rfRootIdent(e ast.Expr) string {
	for {
		switch x := e.(type) {
		case *ast.Ident:
			return x.Name
		case *ast.SelectorExpr:
			e = x.X
		case *ast.IndexExpr:
			e = x.X
		case *ast.StarExpr:
			e = x.X
		case *ast.ParenExpr:
			e = x.X
		default:
			return ""
		}
	}
}

// mutates: does a method assign to (a field of) its receiver, directly or through a method it calls on it?
func (t *rfTr) mutates(key string) bool {
	switch t.mutMemo[key] {
	case 1:
		return true
	case 2, 3:
		return false
	}
	fd := t.funcs[key]
	if fd == nil || fd.Recv == nil || len(fd.Recv.List[0].Names) != 1 {
		t.mutMemo[key] = 2
		return false
	}
	t.mutMemo[key] = 3 // in progress
	r := fd.Recv.List[0].Names[0].Name
	found := false
	ast.Inspect(fd.Body, func(n ast.Node) bool {
		switch x := n.(type) {
		case *ast.AssignStmt:
			if x.Tok != token.DEFINE {
				for _, l := range x.Lhs {
					if _, plain := l.(*ast.Ident); !plain && rfRootIdent(l) == r {
						found = true
					}
				}
			}
		case *ast.IncDecStmt:
			if rfRootIdent(x.X) == r {
				found = true
			}
		case *ast.ExprStmt:
			if call, ok := x.X.(*ast.CallExpr); ok {
				if sel, ok := call.Fun.(*ast.SelectorExpr); ok && rfRootIdent(sel.X) == r {
					for k := range t.funcs {
						if strings.HasSuffix(k, "."+sel.Sel.Name) && k != key && t.mutates(k) {
							found = true
						}
					}
				}
			}
		}
		return true
	})
	t.mutMemo[key] = 2
	if found {
		t.mutMemo[key] = 1
	}
	return found
}

func (t *rfTr) ensure(key string, at ast.Node) *rfUnit {
	if u := t.units[key]; u != nil {
		if u.inProgress {
			dieAt(at, "recursion through %s (no recursive function is in this fragment)", key)
		}
		return u
	}
	fd := t.funcs[key]
	if fd == nil {
		dieAt(at, "call of %s, which is neither a function of cty/unknown_refinement.go nor part of the given API", key)
	}
	return t.translate(key, fd)
}

func (t *rfTr) translate(key string, fd *ast.FuncDecl) *rfUnit {
	u := &rfUnit{key: key, name: strings.ReplaceAll(key, ".", "_"), inProgress: true}
	t.units[key] = u
	c := &rfCtx{t: t, u: u, ltype: map[string]string{}}
	en := rfEnv{}
	decl := map[string]bool{}
	if fd.Recv != nil {
		r := fd.Recv.List[0]
		if len(r.Names) != 1 {
			dieAt(r, "receiver without a name")
		}
		u.recvName = r.Names[0].Name
		ts := src(r.Type)
		switch {
		case ts == "Value":
			u.recvGoVal = true
			n := c.fresh(u.recvName, rfLeanType(rfGoVal))
			u.params = append(u.params, leanVar{n, rfLeanType(rfGoVal)})
			en = en.with(u.recvName, rfVal{sh: rfGoVal, e: n})
		case strings.HasPrefix(ts, "*") && rfKinds[ts[1:]] != nil && rfKinds[ts[1:]].ctor != "":
			k := rfKinds[ts[1:]]
			u.recvKind = k
			if k.whole {
				n := c.fresh(u.recvName, k.state)
				u.params = append(u.params, leanVar{n, k.state})
				en = en.with(u.recvName, rfUnpackWhole(k, n))
			} else {
				v := rfZero(r, rfStruct, k)
				for _, l := range k.leaves() {
					n := c.fresh(u.recvName+"_"+l.path[len(l.path)-1], rfLeanType(l.sh))
					u.params = append(u.params, leanVar{n, rfLeanType(l.sh)})
					v = rfSet(v, l.path, rfVal{sh: l.sh, e: n})
				}
				en = en.with(u.recvName, v)
			}
		default:
			dieAt(r, "receiver type %s", ts)
		}
		decl[u.recvName] = true
	}
	for _, f := range fd.Type.Params.List {
		if _, ok := f.Type.(*ast.Ellipsis); ok {
			dieAt(f, "variadic parameter")
		}
		sh, k := rfTypeShape(f.Type, src(f.Type))
		if sh == rfStruct || sh == rfSlice {
			dieAt(f, "parameter of type %s", src(f.Type))
		}
		for _, nm := range f.Names {
			n := c.fresh(nm.Name, rfLeanType(sh))
			u.goParams = append(u.goParams, rfParam{nm.Name, sh, k})
			u.params = append(u.params, leanVar{n, rfLeanType(sh)})
			en = en.with(nm.Name, rfVal{sh: sh, e: n})
			decl[nm.Name] = true
		}
	}
	body := fd.Body.List
	switch {
	case fd.Type.Results == nil || len(fd.Type.Results.List) == 0:
		if u.recvKind == nil {
			dieAt(fd, "function without a result and without a pointer receiver")
		}
		u.proc = true
		u.mutating = t.mutates(key)
	case len(fd.Type.Results.List) == 1 && len(fd.Type.Results.List[0].Names) <= 1:
		res := fd.Type.Results.List[0]
		u.ret, u.retKind = rfTypeShape(res.Type, src(res.Type))
		if u.ret == rfStruct && (!u.retKind.whole || !strings.HasPrefix(src(res.Type), "*")) {
			dieAt(res, "result type %s", src(res.Type))
		}
		u.builderProc = u.ret == rfStruct && u.recvKind == u.retKind
		if u.recvKind != nil && !u.builderProc && t.mutates(key) {
			dieAt(fd, "a method with a result that assigns to its receiver")
		}
		if len(res.Names) == 1 { // named result: only together with the deferred assignment to it
			c.retName = res.Names[0].Name
			ds, ok := body[0].(*ast.DeferStmt)
			if !ok {
				dieAt(res, "named result without a leading defer statement")
			}
			fl, ok := ds.Call.Fun.(*ast.FuncLit)
			if !ok || len(ds.Call.Args) != 0 || len(fl.Type.Params.List) != 0 || fl.Type.Results != nil {
				dieAt(ds, "defer of anything but a parameterless closure")
			}
			ast.Inspect(fl.Body, func(n ast.Node) bool {
				switch x := n.(type) {
				case *ast.Ident:
					if x.Name == "recover" {
						dieAt(x, "recover")
					}
				case *ast.ReturnStmt, *ast.FuncLit, *ast.DeferStmt, *ast.GoStmt:
					dieAt(n, "%T in a deferred closure", n)
				}
				return true
			})
			c.deferred = fl.Body.List
			body = body[1:]
			en = en.with(c.retName, rfZero(res, u.ret, nil))
			decl[c.retName] = true
		}
	default:
		dieAt(fd, "result list")
	}
	text := c.stmts(body, nil, en, decl, func(e rfEnv) string {
		if !u.proc {
			dieAt(fd.Body, "control reaches the end of a function with a result")
		}
		return c.finishProc(fd.Body, e)
	})
	u.inProgress = false
	pos, end := fset.Position(fd.Pos()), fset.Position(fd.End())
	t.file[key] = fmt.Sprintf("cty/%s:%d-%d", filepath.Base(pos.Filename), pos.Line, end.Line)
	doc := fmt.Sprintf("/-- Go: `%s` (%s) -/\n", strings.Join(strings.Fields(src(&ast.FuncDecl{Recv: fd.Recv, Name: fd.Name, Type: fd.Type})), " "), t.file[key])
	var ps []string
	for _, p := range u.params {
		ps = append(ps, fmt.Sprintf("(%s : %s)", p.name, p.typ))
	}
	t.out = append(t.out, fmt.Sprintf("%sdef %s %s : Res %s :=\n%s\n", doc, u.name, strings.Join(ps, " "), atomType(u.resultType()), indent(text)))
	t.order = append(t.order, u)
	return u
}

// finishProc: a method without a result returns (to its caller: the new state of its receiver, if it assigns to it)
func (c *rfCtx) finishProc(n ast.Node, e rfEnv) string {
	if !c.u.mutating {
		return "(Res.ok ())"
	}
	bs, s := c.pack(n, e[c.u.recvName])
	return wrap(bs, "(Res.ok "+s+")")
}

// ---------------------------------------------------------------- statements

func (c *rfCtx) block(list []ast.Stmt, en rfEnv, k func(rfEnv) string) string {
	return c.stmts(list, en, en, map[string]bool{}, k)
}

func rfNoBranch(n ast.Node, where string) {
	ast.Inspect(n, func(m ast.Node) bool {
		switch b := m.(type) {
		case *ast.BranchStmt:
			dieAt(b, "%s in a %s", b.Tok, where)
		case *ast.LabeledStmt:
			dieAt(b, "label")
		}
		return true
	})
}

func (c *rfCtx) stmts(list []ast.Stmt, entry, cur rfEnv, decl map[string]bool, k func(rfEnv) string) string {
	if len(list) == 0 {
		if entry == nil { // the function's own block: nothing to restore
			return k(cur)
		}
		out := rfEnv{}
		for name, v := range entry {
			if decl[name] {
				out[name] = v
			} else {
				out[name] = cur[name]
			}
		}
		return k(out)
	}
	next := func(e rfEnv, d map[string]bool) string { return c.stmts(list[1:], entry, e, d, k) }
	switch s := list[0].(type) {
	case *ast.ReturnStmt:
		return c.retStmt(s, cur)
	case *ast.BlockStmt:
		return c.block(s.List, cur, func(e rfEnv) string { return next(e, decl) })
	case *ast.IfStmt:
		if s.Init != nil {
			return c.block([]ast.Stmt{s.Init, &ast.IfStmt{If: s.If, Cond: s.Cond, Body: s.Body, Else: s.Else}}, cur, func(e rfEnv) string { return next(e, decl) })
		}
		bs, v := c.expr(s.Cond, cur)
		if v.sh != rfBool {
			dieAt(s.Cond, "condition %s", src(s.Cond))
		}
		thenT := func() string { return c.block(s.Body.List, cur, func(e rfEnv) string { return next(e, decl) }) }
		elseT := func() string {
			switch e := s.Else.(type) {
			case nil:
				return next(cur, decl)
			case *ast.BlockStmt:
				return c.block(e.List, cur, func(e rfEnv) string { return next(e, decl) })
			default:
				return c.block([]ast.Stmt{e}, cur, func(e rfEnv) string { return next(e, decl) })
			}
		}
		switch v.konst {
		case 1:
			return wrap(bs, thenT())
		case 2:
			return wrap(bs, elseT())
		}
		return wrap(bs, "(if "+v.e+" then\n"+indent(thenT())+"\nelse\n"+indent(elseT())+")")
	case *ast.SwitchStmt:
		if s.Init != nil {
			dieAt(s, "switch with an init statement")
		}
		rfNoBranch(s.Body, "switch")
		// rewritten as the if-chain it abbreviates (the tag is evaluated once; cases are tried in order, default last)
		var pre []ast.Stmt
		var tag ast.Expr
		if s.Tag != nil {
			id := &ast.Ident{NamePos: s.Tag.Pos(), Name: "switch·tag"}
			pre = []ast.Stmt{&ast.AssignStmt{Lhs: []ast.Expr{id}, TokPos: s.Tag.Pos(), Tok: token.DEFINE, Rhs: []ast.Expr{s.Tag}}}
			tag = id
		}
		var chain, last *ast.IfStmt
		var deflt *ast.BlockStmt
		for _, cs := range s.Body.List {
			cc := cs.(*ast.CaseClause)
			body := &ast.BlockStmt{Lbrace: cc.Pos(), List: cc.Body}
			if cc.List == nil {
				deflt = body
				continue
			}
			var cond ast.Expr
			for _, e := range cc.List {
				t := e
				if tag != nil {
					t = &ast.BinaryExpr{X: tag, OpPos: e.Pos(), Op: token.EQL, Y: e}
				}
				if cond == nil {
					cond = t
				} else {
					cond = &ast.BinaryExpr{X: cond, OpPos: e.Pos(), Op: token.LOR, Y: t}
				}
			}
			is := &ast.IfStmt{If: cc.Pos(), Cond: cond, Body: body}
			if chain == nil {
				chain = is
			} else {
				last.Else = is
			}
			last = is
		}
		if chain == nil {
			dieAt(s, "switch without cases")
		}
		if deflt != nil {
			last.Else = deflt
		}
		return c.stmts(append([]ast.Stmt{&ast.BlockStmt{Lbrace: s.Pos(), List: append(pre, chain)}}, list[1:]...), entry, cur, decl, k)
	case *ast.DeclStmt:
		gd := s.Decl.(*ast.GenDecl)
		if gd.Tok == token.VAR && len(gd.Specs) == 1 {
			vs := gd.Specs[0].(*ast.ValueSpec)
			if len(vs.Names) == 1 && len(vs.Values) == 0 && vs.Type != nil {
				sh, kd := rfTypeShape(vs.Type, src(vs.Type))
				if sh != rfStruct && sh != rfSlice {
					return next(cur.with(vs.Names[0].Name, rfZero(s, sh, kd)), declWith(decl, vs.Names[0].Name))
				}
			}
		}
		dieAt(s, "declaration %s", src(s))
	case *ast.ExprStmt:
		call, ok := s.X.(*ast.CallExpr)
		if !ok {
			dieAt(s, "expression statement %s", src(s))
		}
		if id, ok := call.Fun.(*ast.Ident); ok && id.Name == "panic" && !hasRfKey(cur, "panic") {
			return "(Res.panic " + leanStr(rfPanicMsg(call)) + ")"
		}
		bs, e := c.callStmt(call, cur)
		return wrap(bs, next(e, decl))
	case *ast.AssignStmt:
		return c.assign(s, cur, decl, next)
	case *ast.RangeStmt:
		return c.rangeStmt(s, cur, func(e rfEnv) string { return next(e, decl) })
	}
	dieAt(list[0], "statement %s", strings.TrimPrefix(fmt.Sprintf("%T", list[0]), "*ast."))
	return ""
}

func hasRfKey(en rfEnv, k string) bool { _, ok := en[k]; return ok }

// the text of a panic: a string literal, or the format string of fmt.Sprintf (its operands are not evaluated)
func rfPanicMsg(call *ast.CallExpr) string {
	if len(call.Args) == 1 {
		a := call.Args[0]
		if in, ok := a.(*ast.CallExpr); ok && src(in.Fun) == "fmt.Sprintf" && len(in.Args) > 0 {
			a = in.Args[0]
		}
		if bl, ok := a.(*ast.BasicLit); ok && bl.Kind == token.STRING {
			if m, err := strconv.Unquote(bl.Value); err == nil {
				return m
			}
		}
	}
	return "panic"
}

func (c *rfCtx) retStmt(s *ast.ReturnStmt, cur rfEnv) string {
	u := c.u
	if c.retName != "" && !c.inDefer { // `return e` = `ret = e`, the deferred closure, `return ret`
		var pre []ast.Stmt
		if len(s.Results) == 1 {
			pre = append(pre, &ast.AssignStmt{Lhs: []ast.Expr{&ast.Ident{NamePos: s.Pos(), Name: c.retName}}, TokPos: s.Pos(), Tok: token.ASSIGN, Rhs: s.Results})
		} else if len(s.Results) != 0 {
			dieAt(s, "return with %d values", len(s.Results))
		}
		c.inDefer = true
		out := c.block(append(append(pre, c.deferred...), &ast.ReturnStmt{Return: s.Pos(), Results: []ast.Expr{&ast.Ident{NamePos: s.Pos(), Name: c.retName}}}), cur, nil)
		c.inDefer = false
		return out
	}
	if len(s.Results) == 0 {
		if !u.proc {
			dieAt(s, "return without a value")
		}
		return c.finishProc(s, cur)
	}
	if len(s.Results) != 1 || u.proc {
		dieAt(s, "return with %d values", len(s.Results))
	}
	if u.builderProc { // must return the receiver: `b`, or a chain of builder methods called on it
		if rfRootRecv(s.Results[0]) != u.recvName || cur[u.recvName].sh != rfStruct {
			dieAt(s, "a builder method must return its receiver, not %s", src(s.Results[0]))
		}
	}
	c.retCtx = true
	bs, v := c.expr(s.Results[0], cur)
	c.retCtx = false
	e := v.e
	switch {
	case u.ret == rfStruct && v.sh == rfStruct && v.kind == u.retKind:
		var pb []bind
		pb, e = c.pack(s, v)
		bs = append(bs, pb...)
	case u.ret == rfRfn && (v.sh == rfStruct || v.sh == rfNil):
		var pb []bind
		pb, e = c.toRfn(s, v)
		bs = append(bs, pb...)
	case v.sh == u.ret && v.sh != rfStruct:
	default:
		dieAt(s, "returned value %s", src(s.Results[0]))
	}
	if n := len(bs); n > 0 && bs[n-1].pat == e {
		return wrap(bs[:n-1], bs[n-1].rhs) // tail call
	}
	return wrap(bs, "(Res.ok "+e+")")
}

// rfRootRecv: the variable at the root of `b`, `b.M(…)`, `b.M(…).N(…)`
func rfRootRecv(e ast.Expr) string {
	for {
		switch x := e.(type) {
		case *ast.Ident:
			return x.Name
		case *ast.CallExpr:
			sel, ok := x.Fun.(*ast.SelectorExpr)
			if !ok {
				return ""
			}
			e = sel.X
		case *ast.ParenExpr:
			e = x.X
		default:
			return ""
		}
	}
}

// lvalue: the variable and field path an expression designates (aliases resolved)
func (c *rfCtx) lvalue(e ast.Expr, cur rfEnv) (root string, path []string, ok bool) {
	switch x := e.(type) {
	case *ast.ParenExpr:
		return c.lvalue(x.X, cur)
	case *ast.Ident:
		v, has := cur[x.Name]
		if !has {
			return "", nil, false
		}
		if v.sh == rfAlias {
			return v.root, append([]string{}, v.path...), true
		}
		return x.Name, nil, true
	case *ast.SelectorExpr:
		r, p, ok := c.lvalue(x.X, cur)
		if !ok {
			return "", nil, false
		}
		at := rfGet(cur[r], p)
		if at.sh != rfStruct {
			return "", nil, false
		}
		if _, has := at.fields[x.Sel.Name]; has {
			return r, append(p, x.Sel.Name), true
		}
		for _, f := range at.kind.fields { // promoted field of an embedded struct
			if f.sh == rfStruct {
				if _, has := at.fields[f.name].fields[x.Sel.Name]; has {
					return r, append(p, f.name, x.Sel.Name), true
				}
			}
		}
	}
	return "", nil, false
}

// store: assignment to a variable or to a field reached through a pointer
func (c *rfCtx) store(n ast.Node, cur rfEnv, root string, path []string, v rfVal) ([]bind, rfEnv) {
	old := rfGet(cur[root], path)
	var bs []bind
	if old.sh == rfRfn || (old.sh == rfStruct && old.kind.iface && len(path) > 0 && v.sh != rfStruct) {
		// a variable of the interface type
		if v.sh == rfStruct || v.sh == rfNil {
			var e string
			bs, e = c.toRfn(n, v)
			v = rfVal{sh: rfRfn, e: e}
		}
	}
	if old.sh != v.sh || (old.sh == rfStruct && old.kind != v.kind) {
		if !(old.sh == rfStruct && v.sh == rfRfn) {
			dieAt(n, "assignment changes how the target is modelled")
		}
	}
	if len(path) > 0 {
		if cur[root].ro {
			dieAt(n, "assignment through a pointer obtained by asserting a plain variable")
		}
		if root == c.u.recvName && !c.u.builderProc && !(c.u.proc && c.u.mutating) {
			dieAt(n, "assignment to the receiver in a method that was classified as not assigning to it")
		}
	}
	if c.inLoop && len(path) > 0 {
		dieAt(n, "assignment to a field inside a loop")
	}
	return bs, cur.with(root, rfSet(cur[root], path, v))
}

func (c *rfCtx) assign(s *ast.AssignStmt, cur rfEnv, decl map[string]bool, next func(rfEnv, map[string]bool) string) string {
	define := s.Tok == token.DEFINE
	if s.Tok != token.DEFINE && s.Tok != token.ASSIGN {
		dieAt(s, "assignment operator %s", s.Tok)
	}
	bindVar := func(e rfEnv, d map[string]bool, name string, v rfVal) (rfEnv, map[string]bool) {
		if name == "" {
			return e, d
		}
		if define && !d[name] {
			return e.with(name, v), declWith(d, name)
		}
		old, ok := e[name]
		if !ok {
			dieAt(s, "assignment to unknown variable %s", name)
		}
		if old.sh == rfAlias || v.sh == rfAlias || old.sh == rfStruct || v.sh == rfStruct {
			dieAt(s, "assignment to the pointer variable %s", name)
		}
		if old.sh != v.sh && old.sh != rfPoison {
			dieAt(s, "assignment changes how %s is modelled", name)
		}
		return e.with(name, v), d
	}
	if len(s.Lhs) == 2 && len(s.Rhs) == 1 && define {
		vName, okName := identName(s.Lhs[0]), identName(s.Lhs[1])
		switch r := s.Rhs[0].(type) {
		case *ast.TypeAssertExpr:
			return c.typeAssert(s, r, vName, okName, cur, decl, bindVar, next)
		case *ast.CallExpr:
			bs, vs := c.call(r, cur, 2)
			e, d := bindVar(cur, decl, vName, vs[0])
			e, d = bindVar(e, d, okName, vs[1])
			return wrap(bs, next(e, d))
		}
		dieAt(s, "two-valued assignment %s", src(s))
	}
	if len(s.Lhs) != 1 || len(s.Rhs) != 1 {
		dieAt(s, "parallel assignment")
	}
	switch l := s.Lhs[0].(type) {
	case *ast.Ident:
		name := identName(l)
		bs, v := c.expr(s.Rhs[0], cur)
		switch v.sh {
		case rfNil, rfPoison, rfUnitSh, rfAlias:
			dieAt(s, "value %s cannot be stored in a variable", src(s.Rhs[0]))
		}
		if define && !decl[name] {
			if v.sh == rfStruct && (v.kind.whole || v.ro) { // a second pointer to a builder / to an asserted struct
				dieAt(s, "value %s cannot be stored in a variable", src(s.Rhs[0]))
			}
			e, d := bindVar(cur, decl, name, v)
			return wrap(bs, next(e, d))
		}
		if name == "" {
			return wrap(bs, next(cur, decl))
		}
		if !hasRfKey(cur, name) {
			dieAt(s, "assignment to unknown variable %s", name)
		}
		if cur[name].sh == rfAlias || (cur[name].sh == rfStruct && cur[name].kind.whole) {
			dieAt(s, "assignment to the pointer variable %s", name)
		}
		bs2, e := c.store(s, cur, name, nil, v)
		return wrap(append(bs, bs2...), next(e, decl))
	case *ast.SelectorExpr:
		root, path, ok := c.lvalue(l, cur)
		if define || !ok || len(path) == 0 {
			dieAt(s, "assignment to %s", src(l))
		}
		bs, v := c.expr(s.Rhs[0], cur)
		bs2, e := c.store(s, cur, root, path, v)
		return wrap(append(bs, bs2...), next(e, decl))
	case *ast.IndexExpr: // xs[i] = v
		name := identName(l.X)
		tgt, ok := cur[name]
		if define || !ok || tgt.sh != rfSlice {
			dieAt(s, "assignment to %s", src(l))
		}
		bs, i := c.expr(l.Index, cur)
		bs2, v := c.expr(s.Rhs[0], cur)
		if i.sh != rfInt || v.sh != rfGoVal {
			dieAt(s, "slice element assignment %s", src(s))
		}
		n := c.fresh(name, rfLeanType(rfSlice))
		bs = append(append(bs, bs2...), bind{n, "(RefineGo.sliceSet " + tgt.e + " " + i.e + " " + v.e + ")"})
		return wrap(bs, next(cur.with(name, rfVal{sh: rfSlice, e: n}), decl))
	}
	dieAt(s, "assignment to %s", src(s.Lhs[0]))
	return ""
}

// v, ok := X.(*K)
func (c *rfCtx) typeAssert(s *ast.AssignStmt, r *ast.TypeAssertExpr, vName, okName string, cur rfEnv, decl map[string]bool,
	bindVar func(rfEnv, map[string]bool, string, rfVal) (rfEnv, map[string]bool), next func(rfEnv, map[string]bool) string) string {
	if r.Type == nil {
		dieAt(r, "type switch")
	}
	ts := src(r.Type)
	if !strings.HasPrefix(ts, "*") || rfKinds[ts[1:]] == nil {
		dieAt(r, "type assertion to %s", ts)
	}
	k := rfKinds[ts[1:]]
	fail := func() string {
		e, d := bindVar(cur, decl, vName, rfVal{sh: rfPoison, why: "nil pointer after a failed type assertion"})
		e, d = bindVar(e, d, okName, rfConst(false))
		return next(e, d)
	}
	if k.goType == "unknownType" { // the payload of a Value
		sel, ok := r.X.(*ast.SelectorExpr)
		if !ok || sel.Sel.Name != "v" {
			dieAt(r, "type assertion %s", src(r))
		}
		bs, x := c.expr(sel.X, cur)
		if x.sh != rfGoVal {
			dieAt(r, "type assertion %s", src(r))
		}
		n := c.fresh(vName+"_refinement", "Rfn")
		sv := rfVal{sh: rfStruct, kind: k, ro: true, fields: map[string]rfVal{"refinement": {sh: rfRfn, e: n}}}
		e, d := bindVar(cur, decl, vName, sv)
		e, d = bindVar(e, d, okName, rfConst(true))
		return wrap(bs, "(match RefineGo.unknownRefinement "+x.e+" with\n| some "+n+" =>\n"+indent(next(e, d))+"\n| none =>\n"+indent(fail())+")")
	}
	if !k.iface {
		dieAt(r, "type assertion to %s", ts)
	}
	root, path, isPath := c.lvalue(r.X, cur)
	if !isPath {
		dieAt(r, "type assertion on %s", src(r.X))
	}
	x := rfGet(cur[root], path)
	succeed := func(en rfEnv, sv rfVal) string {
		var e rfEnv
		var d map[string]bool
		if len(path) == 0 { // a plain variable: its pointee is read, never written
			sv.ro = true
			e, d = bindVar(en, decl, vName, sv)
		} else {
			en = en.with(root, rfSet(en[root], path, sv))
			e, d = bindVar(en, decl, vName, rfVal{sh: rfAlias, root: root, path: path, kind: k})
			if vName == root {
				dieAt(s, "the asserted pointer shadows the variable it points into")
			}
		}
		e, d = bindVar(e, d, okName, rfConst(true))
		return next(e, d)
	}
	switch {
	case x.sh == rfStruct && x.kind == k:
		return succeed(cur, x)
	case x.sh == rfStruct && x.kind.iface:
		return fail()
	case x.sh != rfRfn:
		dieAt(r, "type assertion on %s", src(r.X))
	}
	var vars []string
	pat := k.ctor
	for _, lv := range k.vars {
		base := vName
		if base == "" {
			base = "x"
		}
		n := c.fresh(base+"_"+lv.name, lv.typ)
		vars = append(vars, n)
		pat += " " + n
	}
	return "(match " + x.e + " with\n| " + pat + " =>\n" + indent(succeed(cur, rfUnpack(k, vars))) + "\n| _ =>\n" + indent(fail()) + ")"
}

// for i := range xs { … }  — a structurally recursive helper over a snapshot of xs; its base case is the code after the loop
func (c *rfCtx) rangeStmt(s *ast.RangeStmt, cur rfEnv, after func(rfEnv) string) string {
	if c.inLoop {
		dieAt(s, "nested loop")
	}
	if s.Tok != token.DEFINE || s.Value != nil || s.Key == nil {
		dieAt(s, "range loop other than `for i := range xs`")
	}
	rfNoBranch(s.Body, "loop")
	ast.Inspect(s.Body, func(n ast.Node) bool {
		switch x := n.(type) {
		case *ast.ReturnStmt:
			dieAt(x, "return inside a loop")
		case *ast.ExprStmt: // a method that updates its receiver would change state the helper does not thread
			if call, ok := x.X.(*ast.CallExpr); ok {
				if id, ok := call.Fun.(*ast.Ident); !ok || id.Name != "panic" {
					dieAt(x, "call statement inside a loop")
				}
			}
		}
		return true
	})
	xb, x := c.expr(s.X, cur)
	if x.sh != rfSlice {
		dieAt(s.X, "range over %s", src(s.X))
	}
	keyName := identName(s.Key)
	c.nloops++
	name := fmt.Sprintf("%s_loop%d", c.u.name, c.nloops)
	hole := "«" + name + "»"
	// the loop's state: variables of the enclosing scope that the body assigns
	set := map[string]bool{}
	ast.Inspect(s.Body, func(n ast.Node) bool {
		if a, ok := n.(*ast.AssignStmt); ok && a.Tok == token.ASSIGN {
			for _, l := range a.Lhs {
				if r := rfRootIdent(l); r != "" && hasRfKey(cur, r) {
					set[r] = true
				}
			}
		}
		return true
	})
	var state []string
	for n := range set {
		state = append(state, n)
	}
	sort.Strings(state)
	inner := cur
	var stTypes, stPats, stInit []string
	for _, n := range state {
		v := cur[n]
		switch v.sh {
		case rfSlice, rfInt, rfBool, rfGoVal, rfStr, rfTri:
			p := c.fresh(n, rfLeanType(v.sh))
			stTypes, stPats, stInit = append(stTypes, atomType(rfLeanType(v.sh))), append(stPats, p), append(stInit, v.e)
			inner = inner.with(n, rfVal{sh: v.sh, e: p})
		default:
			dieAt(s, "loop assigns %s", n)
		}
	}
	stateOf := func(e rfEnv) string {
		var out []string
		for _, n := range state {
			out = append(out, e[n].e)
		}
		return strings.Join(out, " ")
	}
	body := inner
	idx := c.fresh("i", "Int")
	if keyName != "" {
		body = body.with(keyName, rfVal{sh: rfInt, e: idx})
	}
	rest := c.fresh("rest", rfLeanType(rfSlice))
	c.inLoop = true
	stepT := c.block(s.Body.List, body, func(e rfEnv) string {
		return strings.Join(strings.Fields("("+hole+" "+stateOf(e)+" ("+idx+" + 1) "+rest+")"), " ")
	})
	c.inLoop = false
	restT := after(inner)
	used := tokens(stepT + "\n" + restT)
	avail := map[string]bool{}
	var walk func(v rfVal)
	walk = func(v rfVal) {
		for tk := range tokens(v.e) {
			avail[tk] = true
		}
		for _, f := range v.fields {
			walk(f)
		}
	}
	for _, v := range cur {
		walk(v)
	}
	var capDecl, capNames []string
	for _, n := range c.order {
		if used[n] && avail[n] {
			capDecl = append(capDecl, fmt.Sprintf("(%s : %s)", n, c.ltype[n]))
			capNames = append(capNames, n)
		}
	}
	head := strings.Join(strings.Fields(name+" "+strings.Join(capNames, " ")), " ")
	stepT = strings.ReplaceAll(stepT, hole, head)
	stPat := ""
	if len(stPats) > 0 {
		stPat = strings.Join(stPats, ", ") + ", "
	}
	sig := strings.Join(append(append(stTypes, "Int", atomType(rfLeanType(rfSlice))), "Res "+atomType(c.u.resultType())), " → ")
	c.t.out = append(c.t.out, fmt.Sprintf("/-- the `for %s := range %s` loop of `%s`, and what follows it -/\ndef %s%s : %s\n  | %s%s, _ :: %s =>\n%s\n  | %s%s, [] =>\n%s\n",
		src(s.Key), src(s.X), c.u.key, name, strings.TrimSuffix(" "+strings.Join(capDecl, " "), " "), sig,
		stPat, idx, rest, indent(indent(stepT)), stPat, "_", indent(indent(restT))))
	return wrap(xb, "("+strings.Join(strings.Fields(head+" "+strings.Join(stInit, " ")+" 0 "+x.e), " ")+")")
}

// a call used as a statement: a method that assigns to its receiver (the variable gets the new state) or only checks it
func (c *rfCtx) callStmt(call *ast.CallExpr, cur rfEnv) ([]bind, rfEnv) {
	sel, ok := call.Fun.(*ast.SelectorExpr)
	if !ok {
		dieAt(call, "call %s used as a statement", src(call))
	}
	root, path, isPath := c.lvalue(sel.X, cur)
	if !isPath {
		dieAt(call, "call %s used as a statement", src(call))
	}
	recv := rfGet(cur[root], path)
	switch recv.sh {
	case rfStruct:
		if recv.kind.whole { // a builder method: it returns its receiver, which is dropped here
			u := c.t.ensure(recv.kind.goType+"."+sel.Sel.Name, call)
			if !u.builderProc || len(path) != 0 {
				dieAt(call, "call %s used as a statement", src(call))
			}
			bs, args := c.args(call, u.goParams, cur)
			pb, st := c.pack(call, recv)
			n := c.fresh(root, recv.kind.state)
			bs = append(append(pb, bs...), bind{n, "(" + u.name + " " + strings.Join(append([]string{st}, args...), " ") + ")"})
			return bs, cur.with(root, rfUnpackWhole(recv.kind, n))
		}
		bs, nv := c.structProc(call, recv, sel.Sel.Name, call, cur)
		if nv == nil {
			return bs, cur
		}
		bs2, e := c.store(call, cur, root, path, *nv)
		return append(bs, bs2...), e
	case rfRfn: // through the interface: one arm per implementation
		var arms []string
		mut := false
		for _, kn := range rfIfaceKinds {
			k := rfKinds[kn]
			var vars []string
			pat := k.ctor
			for _, lv := range k.vars {
				n := c.fresh("r_"+lv.name, lv.typ)
				vars, pat = append(vars, n), pat+" "+n
			}
			sv := rfUnpack(k, vars)
			bs, nv := c.structProc(call, sv, sel.Sel.Name, call, cur)
			body := "(Res.ok " + recv.e + ")"
			if nv != nil {
				mut = true
				pb, e := c.pack(call, *nv)
				body = wrap(pb, "(Res.ok "+e+")")
			}
			arms = append(arms, "| "+pat+" =>\n"+indent(wrap(bs, body)))
		}
		arms = append(arms, "| Rfn.unref =>\n  (Res.panic \"invalid memory address or nil pointer dereference\")")
		n := c.fresh(path2name(root, path), "Rfn")
		bs := []bind{{n, "(match " + recv.e + " with\n" + strings.Join(arms, "\n") + ")"}}
		if !mut {
			bs[0].pat = "_"
			return bs, cur
		}
		bs2, e := c.store(call, cur, root, path, rfVal{sh: rfRfn, e: n})
		return append(bs, bs2...), e
	}
	dieAt(call, "call %s used as a statement", src(call))
	return nil, nil
}

func path2name(root string, path []string) string {
	if len(path) == 0 {
		return root
	}
	return path[len(path)-1]
}

// resolve: the method m of a struct of kind k, possibly promoted from an embedded struct
func (c *rfCtx) resolve(at ast.Node, k *rfKind, m string) (key string, embed []string) {
	if c.t.funcs[k.goType+"."+m] != nil {
		return k.goType + "." + m, nil
	}
	for _, f := range k.fields {
		if f.sh == rfStruct && c.t.funcs[f.kind+"."+m] != nil {
			return f.kind + "." + m, []string{f.name}
		}
	}
	dieAt(at, "method %s of %s", m, k.goType)
	return "", nil
}

// structProc: p.m(args) for a method without a result; returns the new value of the struct if m assigns to it
func (c *rfCtx) structProc(at ast.Node, recv rfVal, m string, call *ast.CallExpr, cur rfEnv) ([]bind, *rfVal) {
	key, embed := c.resolve(at, recv.kind, m)
	u := c.t.ensure(key, at)
	if !u.proc {
		dieAt(at, "the result of %s is dropped", key)
	}
	target := rfGet(recv, embed)
	bs, args := c.args(call, u.goParams, cur)
	_, ra := c.recvArgs(at, target)
	text := "(" + strings.Join(append(append([]string{u.name}, ra...), args...), " ") + ")"
	if !u.mutating {
		return append(bs, bind{"_", text}), nil
	}
	// the callee returns the packed receiver; read it back
	k := target.kind
	var vars []string
	pat := k.ctor
	for _, lv := range k.vars {
		n := c.fresh(path2name("r", embed)+"_"+lv.name, lv.typ)
		vars, pat = append(vars, n), pat+" "+n
	}
	tuple := vars[0]
	if len(vars) > 1 {
		tuple = "(" + strings.Join(vars, ", ") + ")"
	}
	bs = append(bs, bind{tuple, "(Res.bind " + text + " fun s_ =>\n  (match s_ with\n  | " + pat + " => Res.ok " + tuple + "\n  | _ => Res.unmodelled))"})
	nv := rfSet(recv, embed, rfUnpack(k, vars))
	return bs, &nv
}

// args: the operands of a call of a translated function
func (c *rfCtx) args(call *ast.CallExpr, ps []rfParam, cur rfEnv) ([]bind, []string) {
	if call.Ellipsis.IsValid() || len(call.Args) != len(ps) {
		dieAt(call, "call %s", src(call))
	}
	var bs []bind
	var out []string
	for i, a := range call.Args {
		b, v := c.expr(a, cur)
		bs = append(bs, b...)
		e := v.e
		if ps[i].sh == rfRfn && (v.sh == rfStruct || v.sh == rfNil) {
			var pb []bind
			pb, e = c.toRfn(a, v)
			bs = append(bs, pb...)
		} else if v.sh != ps[i].sh || v.sh == rfStruct {
			dieAt(a, "argument %s", src(a))
		}
		out = append(out, e)
	}
	return bs, out
}

// ---------------------------------------------------------------- expressions

func (c *rfCtx) expr(e ast.Expr, en rfEnv) ([]bind, rfVal) {
	switch x := e.(type) {
	case *ast.ParenExpr:
		return c.expr(x.X, en)
	case *ast.Ident:
		switch x.Name {
		case "true":
			return nil, rfConst(true)
		case "false":
			return nil, rfConst(false)
		case "nil":
			return nil, rfVal{sh: rfNil}
		case "_":
			dieAt(x, "blank identifier as a value")
		}
		if v, ok := en[x.Name]; ok {
			switch v.sh {
			case rfPoison:
				dieAt(x, "use of %s: %s", x.Name, v.why)
			case rfAlias:
				s := rfGet(en[v.root], v.path)
				if s.sh != rfStruct || s.kind != v.kind {
					dieAt(x, "use of %s after the field it points into was reassigned", x.Name)
				}
				s.ro = true
				return nil, s
			}
			return nil, v
		}
		if v, ok := rfNamedVals[x.Name]; ok {
			return nil, v
		}
		dieAt(x, "identifier %s", x.Name)
	case *ast.BasicLit:
		switch x.Kind {
		case token.INT:
			if n, err := strconv.ParseInt(x.Value, 0, 64); err == nil && n >= 0 {
				return nil, rfVal{sh: rfInt, e: strconv.FormatInt(n, 10)}
			}
		case token.STRING:
			if s, err := strconv.Unquote(x.Value); err == nil {
				return nil, rfVal{sh: rfStr, e: leanStr(s)}
			}
		}
		dieAt(x, "literal %s", x.Value)
	case *ast.SelectorExpr:
		if id, ok := x.X.(*ast.Ident); ok && !hasRfKey(en, id.Name) && id.Name == "math" && x.Sel.Name == "MaxInt" {
			return nil, rfVal{sh: rfInt, e: "Refine.maxInt"}
		}
		bs, v := c.expr(x.X, en)
		switch v.sh {
		case rfStruct:
			if f, ok := v.fields[x.Sel.Name]; ok {
				f.ro = f.ro || v.ro
				return bs, f
			}
			for _, fs := range v.kind.fields {
				if fs.sh == rfStruct {
					if f, ok := v.fields[fs.name].fields[x.Sel.Name]; ok {
						return bs, f
					}
				}
			}
		case rfGoVal:
			if x.Sel.Name == "ty" {
				n := c.fresh("ty", "Ty")
				return append(bs, bind{n, "(RefineGo.typeOf " + v.e + ")"}), rfVal{sh: rfTy, e: n}
			}
		}
		dieAt(x, "selector %s", src(x))
	case *ast.StarExpr: // *p: the struct p points to (a copy, when stored)
		bs, v := c.expr(x.X, en)
		if v.sh == rfStruct && !v.kind.whole {
			v.ro = false
			return bs, v
		}
		dieAt(x, "dereference %s", src(x))
	case *ast.UnaryExpr:
		if x.Op == token.AND {
			if cl, ok := x.X.(*ast.CompositeLit); ok {
				return c.composite(cl, en, true)
			}
			bs, v := c.expr(x.X, en)
			if v.sh == rfStruct && !v.kind.whole {
				return bs, v
			}
			dieAt(x, "address of %s", src(x.X))
		}
		bs, v := c.expr(x.X, en)
		if x.Op == token.NOT && v.sh == rfBool {
			switch v.konst {
			case 1:
				return bs, rfConst(false)
			case 2:
				return bs, rfConst(true)
			}
			return bs, rfBool_("(!" + v.e + ")")
		}
		dieAt(x, "operator %s on %s", x.Op, src(x.X))
	case *ast.BinaryExpr:
		return c.binary(x, en)
	case *ast.CompositeLit:
		return c.composite(x, en, false)
	case *ast.SliceExpr: // s[:n]
		if x.Low != nil || x.High == nil || x.Slice3 {
			dieAt(x, "slice expression %s", src(x))
		}
		bs, s := c.expr(x.X, en)
		bs2, n := c.expr(x.High, en)
		if s.sh != rfStr || n.sh != rfInt {
			dieAt(x, "slice expression %s", src(x))
		}
		r := c.fresh("bytes", rfLeanType(rfBytes))
		return append(append(bs, bs2...), bind{r, "(RefineGo.strTake " + s.e + " " + n.e + ")"}), rfVal{sh: rfBytes, e: r}
	case *ast.CallExpr:
		bs, vs := c.call(x, en, 1)
		return bs, vs[0]
	}
	dieAt(e, "expression %s (%s)", src(e), strings.TrimPrefix(fmt.Sprintf("%T", e), "*ast."))
	return nil, rfVal{}
}

// composite literals: &K{…}, []Value{…}, Value{ty: …, v: &unknownType{refinement: …}}
func (c *rfCtx) composite(cl *ast.CompositeLit, en rfEnv, addr bool) ([]bind, rfVal) {
	ts := src(cl.Type)
	var bs []bind
	switch {
	case ts == "[]Value" && !addr:
		var es []string
		for _, el := range cl.Elts {
			b, v := c.expr(el, en)
			if v.sh != rfGoVal {
				dieAt(el, "element %s", src(el))
			}
			bs, es = append(bs, b...), append(es, v.e)
		}
		return bs, rfVal{sh: rfSlice, e: "[" + strings.Join(es, ", ") + "]"}
	case ts == "Value" && !addr:
		var ty, rf string
		for _, el := range cl.Elts {
			kv, ok := el.(*ast.KeyValueExpr)
			if !ok {
				dieAt(el, "Value literal %s", src(cl))
			}
			switch src(kv.Key) {
			case "ty":
				b, v := c.expr(kv.Value, en)
				if v.sh != rfTy {
					dieAt(kv.Value, "Value literal %s", src(cl))
				}
				bs, ty = append(bs, b...), v.e
			case "v":
				u, ok := kv.Value.(*ast.UnaryExpr)
				var in *ast.CompositeLit
				if ok && u.Op == token.AND {
					in, ok = u.X.(*ast.CompositeLit)
				}
				if !ok || src(in.Type) != "unknownType" || len(in.Elts) != 1 {
					dieAt(kv.Value, "Value literal %s", src(cl))
				}
				ikv, ok := in.Elts[0].(*ast.KeyValueExpr)
				if !ok || src(ikv.Key) != "refinement" {
					dieAt(kv.Value, "Value literal %s", src(cl))
				}
				b, v := c.expr(ikv.Value, en)
				b2, r := c.toRfn(ikv.Value, v)
				bs, rf = append(append(bs, b...), b2...), r
			default:
				dieAt(el, "Value literal %s", src(cl))
			}
		}
		if ty == "" || rf == "" {
			dieAt(cl, "Value literal %s", src(cl))
		}
		return bs, rfVal{sh: rfGoVal, e: "(RefineGo.unknownWith " + ty + " " + rf + ")"}
	}
	k := rfKinds[ts]
	if k == nil || k.ctor == "" || !addr {
		dieAt(cl, "composite literal %s", src(cl))
	}
	v := rfZero(cl, rfStruct, k)
	for i, el := range cl.Elts {
		var f rfFieldSpec
		val := el
		if kv, ok := el.(*ast.KeyValueExpr); ok {
			found := false
			for _, fs := range k.fields {
				if fs.name == src(kv.Key) {
					f, found = fs, true
				}
			}
			if !found {
				dieAt(kv, "field %s of %s", src(kv.Key), ts)
			}
			val = kv.Value
		} else {
			if len(cl.Elts) != len(k.fields) {
				dieAt(cl, "composite literal %s", src(cl))
			}
			f = k.fields[i]
		}
		b, fv := c.expr(val, en)
		bs = append(bs, b...)
		if f.sh == rfRfn && (fv.sh == rfStruct || fv.sh == rfNil) {
			b2, e := c.toRfn(val, fv)
			bs, fv = append(bs, b2...), rfVal{sh: rfRfn, e: e}
		}
		if fv.sh != f.sh || fv.sh == rfStruct {
			dieAt(val, "value %s of field %s", src(val), f.name)
		}
		fv.konst = 0
		v.fields[f.name] = fv
	}
	return bs, v
}

func rfNamed(e ast.Expr, en rfEnv) string {
	if id, ok := e.(*ast.Ident); ok && !hasRfKey(en, id.Name) {
		if _, ok := rfNamedEq[id.Name]; ok {
			return id.Name
		}
	}
	return ""
}

func (c *rfCtx) binary(x *ast.BinaryExpr, en rfEnv) ([]bind, rfVal) {
	if x.Op == token.EQL || x.Op == token.NEQ {
		l, r := x.X, x.Y
		if rfNamed(l, en) != "" {
			l, r = r, l
		}
		if nm := rfNamed(r, en); nm != "" { // comparison with a named value of package cty
			bs, v := c.expr(l, en)
			if v.sh != rfNamedVals[nm].sh {
				dieAt(x, "comparison %s", src(x))
			}
			t := "(" + rfNamedEq[nm] + " " + v.e + ")"
			if x.Op == token.NEQ {
				t = "(!" + rfNamedEq[nm] + " " + v.e + ")"
			}
			return bs, rfBool_(t)
		}
	}
	lb, l := c.expr(x.X, en)
	if (x.Op == token.LAND && l.konst == 2) || (x.Op == token.LOR && l.konst == 1) {
		return lb, l // Go does not evaluate the right operand
	}
	rb, r := c.expr(x.Y, en)
	neg := func(b bool, t string) rfVal {
		if b {
			return rfBool_("(!" + t + ")")
		}
		return rfBool_(t)
	}
	switch x.Op {
	case token.LAND, token.LOR:
		if l.sh != rfBool || r.sh != rfBool {
			break
		}
		and := x.Op == token.LAND
		if l.konst != 0 {
			return append(lb, rb...), r
		}
		if len(rb) == 0 {
			if r.konst != 0 && (r.konst == 1) == and {
				return lb, l
			}
			op := " || "
			if and {
				op = " && "
			}
			return lb, rfBool_("(" + l.e + op + r.e + ")")
		}
		// the right operand can panic: it is evaluated only if the left one does not decide
		n := c.fresh("c", "Bool")
		rhs := wrap(rb, "(Res.ok "+r.e+")")
		if and {
			return append(lb, bind{n, "(if " + l.e + " then\n" + indent(rhs) + "\nelse\n  (Res.ok false))"}), rfBool_(n)
		}
		return append(lb, bind{n, "(if " + l.e + " then\n  (Res.ok true)\nelse\n" + indent(rhs) + ")"}), rfBool_(n)
	case token.EQL, token.NEQ:
		bs := append(lb, rb...)
		ne := x.Op == token.NEQ
		if l.sh == rfNil {
			l, r = r, l
		}
		switch {
		case r.sh == rfNil && l.sh == rfRfn:
			return bs, neg(ne, "(RefineGo.isNil "+l.e+")")
		case r.sh == rfNil && l.sh == rfStruct && l.kind.iface: // a non-nil pointer in the interface
			return bs, rfConst(ne)
		case l.sh == r.sh && l.sh == rfBool:
			return bs, neg(ne, "("+l.e+" == "+r.e+")")
		case l.sh == r.sh && (l.sh == rfInt || l.sh == rfStr || l.sh == rfBytes || l.sh == rfTri):
			return bs, neg(ne, "(decide ("+l.e+" = "+r.e+"))")
		}
	case token.LSS, token.GTR, token.LEQ, token.GEQ:
		if l.sh == rfInt && r.sh == rfInt {
			return append(lb, rb...), rfBool_("(decide (" + l.e + " " + map[token.Token]string{token.LSS: "<", token.GTR: ">", token.LEQ: "≤", token.GEQ: "≥"}[x.Op] + " " + r.e + "))")
		}
	}
	dieAt(x, "operator %s in %s", x.Op, src(x))
	return nil, rfVal{}
}

// prim: a call of the given API
func (c *rfCtx) prim(call *ast.CallExpr, p rfPrim, recv []string, bs []bind, en rfEnv, want int) ([]bind, []rfVal) {
	if call.Ellipsis.IsValid() || len(call.Args) != len(p.args) || len(p.ret) != want {
		dieAt(call, "call %s", src(call))
	}
	args := recv
	for i, a := range call.Args {
		b, v := c.expr(a, en)
		if v.sh != p.args[i] {
			dieAt(a, "argument %s", src(a))
		}
		bs, args = append(bs, b...), append(args, v.e)
	}
	text := "(" + strings.Join(append([]string{p.lean}, args...), " ") + ")"
	if !p.res {
		return bs, []rfVal{{sh: p.ret[0], e: text}}
	}
	if want == 2 {
		n := c.fresh("p", rfLeanType(p.ret[0])+" × "+rfLeanType(p.ret[1]))
		return append(bs, bind{n, text}), []rfVal{{sh: p.ret[0], e: n + ".1"}, {sh: p.ret[1], e: n + ".2"}}
	}
	n := c.fresh("x", rfLeanType(p.ret[0]))
	return append(bs, bind{n, text}), []rfVal{{sh: p.ret[0], e: n}}
}

// unitCall: a call of a translated function with a result
func (c *rfCtx) unitCall(call *ast.CallExpr, u *rfUnit, recv []string, bs []bind, en rfEnv, want int) ([]bind, []rfVal) {
	if u.proc || want != 1 {
		dieAt(call, "call %s used as a value", src(call))
	}
	ab, args := c.args(call, u.goParams, en)
	text := "(" + strings.Join(append(append([]string{u.name}, recv...), args...), " ") + ")"
	n := c.fresh("x", u.resultType())
	bs = append(append(bs, ab...), bind{n, text})
	if u.ret == rfStruct {
		return bs, []rfVal{rfUnpackWhole(u.retKind, n)}
	}
	return bs, []rfVal{{sh: u.ret, e: n}}
}

func (c *rfCtx) call(call *ast.CallExpr, en rfEnv, want int) ([]bind, []rfVal) {
	switch f := call.Fun.(type) {
	case *ast.Ident:
		if hasRfKey(en, f.Name) {
			dieAt(call, "call of a local value")
		}
		switch f.Name {
		case "len":
			if len(call.Args) == 1 && want == 1 {
				bs, a := c.expr(call.Args[0], en)
				switch a.sh {
				case rfStr:
					return bs, []rfVal{{sh: rfInt, e: "(RefineGo.strLen " + a.e + ")"}}
				case rfSlice:
					return bs, []rfVal{{sh: rfInt, e: "(Int.ofNat (List.length " + a.e + "))"}}
				}
			}
			dieAt(call, "call %s", src(call))
		case "make":
			if len(call.Args) == 2 && src(call.Args[0]) == "[]Value" && want == 1 {
				bs, n := c.expr(call.Args[1], en)
				if n.sh == rfInt {
					x := c.fresh("slice", rfLeanType(rfSlice))
					return append(bs, bind{x, "(RefineGo.makeSlice " + n.e + ")"}), []rfVal{{sh: rfSlice, e: x}}
				}
			}
			dieAt(call, "call %s", src(call))
		case "int64", "int": // int and int64 are the same integers on the platforms of the harness
			if len(call.Args) == 1 && want == 1 {
				if bs, a := c.expr(call.Args[0], en); a.sh == rfInt {
					return bs, []rfVal{a}
				}
			}
			dieAt(call, "conversion %s", src(call))
		}
		if p, ok := rfFuncPrims[f.Name]; ok {
			return c.prim(call, p, nil, nil, en, want)
		}
		u := c.t.ensure(f.Name, call)
		if u.recvKind != nil || u.recvGoVal {
			dieAt(call, "call %s", src(call))
		}
		return c.unitCall(call, u, nil, nil, en, want)
	case *ast.SelectorExpr:
		if id, ok := f.X.(*ast.Ident); ok && !hasRfKey(en, id.Name) {
			if _, named := rfNamedVals[id.Name]; !named { // a package
				if p, ok := rfFuncPrims[id.Name+"."+f.Sel.Name]; ok {
					return c.prim(call, p, nil, nil, en, want)
				}
				dieAt(call, "call of %s.%s, which is not part of the given API", id.Name, f.Sel.Name)
			}
		}
		rb, r := c.expr(f.X, en)
		switch r.sh {
		case rfGoVal:
			if p, ok := rfValueMethods[f.Sel.Name]; ok {
				return c.prim(call, p, []string{r.e}, rb, en, want)
			}
			u := c.t.ensure("Value."+f.Sel.Name, call)
			if !u.recvGoVal {
				dieAt(call, "call %s", src(call))
			}
			return c.unitCall(call, u, []string{r.e}, rb, en, want)
		case rfTy:
			if p, ok := rfTypeMethods[f.Sel.Name]; ok {
				return c.prim(call, p, []string{r.e}, rb, en, want)
			}
			dieAt(call, "call of Type.%s, which is not part of the given API", f.Sel.Name)
		case rfStruct:
			key, embed := c.resolve(call, r.kind, f.Sel.Name)
			u := c.t.ensure(key, call)
			if u.builderProc {
				// the callee updates the builder and returns it: as a value only where the variable is not used again
				if _, isVar := f.X.(*ast.Ident); isVar && !c.retCtx {
					dieAt(call, "the builder returned by %s is used as a value", src(call))
				}
			}
			pb, ra := c.recvArgs(call, rfGet(r, embed))
			return c.unitCall(call, u, ra, append(rb, pb...), en, want)
		case rfRfn: // through the interface: one arm per implementation
			if want != 1 {
				dieAt(call, "call %s", src(call))
			}
			var arms []string
			var ret *rfUnit
			var ab []bind
			var args []string
			for _, kn := range rfIfaceKinds {
				k := rfKinds[kn]
				key, embed := c.resolve(call, k, f.Sel.Name)
				u := c.t.ensure(key, call)
				if u.proc || u.ret == rfStruct || (ret != nil && ret.ret != u.ret) {
					dieAt(call, "interface method %s", f.Sel.Name)
				}
				if ret == nil {
					ab, args = c.args(call, u.goParams, en)
				}
				ret = u
				var vars []string
				pat := k.ctor
				for _, lv := range k.vars {
					n := c.fresh("r_"+lv.name, lv.typ)
					vars, pat = append(vars, n), pat+" "+n
				}
				_, ra := c.recvArgs(call, rfGet(rfUnpack(k, vars), embed))
				arms = append(arms, "| "+pat+" => ("+strings.Join(append(append([]string{u.name}, ra...), args...), " ")+")")
			}
			arms = append(arms, "| Rfn.unref => (Res.panic \"invalid memory address or nil pointer dereference\")")
			n := c.fresh("x", rfLeanType(ret.ret))
			return append(append(rb, ab...), bind{n, "(match " + r.e + " with\n" + strings.Join(arms, "\n") + ")"}), []rfVal{{sh: ret.ret, e: n}}
		}
		dieAt(call, "method call %s", src(call))
	}
	dieAt(call, "call %s", src(call))
	return nil, nil
}

// ---------------------------------------------------------------- entry

// the declarations the reading relies on must be what the tables above say
func rfCheckDecls(files []*ast.File) {
	seen := map[string]bool{}
	consts := map[string]string{}
	for _, f := range files {
		for _, d := range f.Decls {
			gd, ok := d.(*ast.GenDecl)
			if !ok {
				continue
			}
			for _, sp := range gd.Specs {
				switch x := sp.(type) {
				case *ast.TypeSpec:
					k := rfKinds[x.Name.Name]
					st, isStruct := x.Type.(*ast.StructType)
					if k == nil || !isStruct {
						if x.Name.Name == "unknownValRefinement" {
							it, ok := x.Type.(*ast.InterfaceType)
							if !ok {
								dieAt(x, "unknownValRefinement is not an interface")
							}
							var ms []string
							for _, m := range it.Methods.List {
								for _, n := range m.Names {
									ms = append(ms, n.Name)
								}
							}
							sort.Strings(ms)
							if strings.Join(ms, ",") != "GoString,copy,null,rawEqual,setNull,unknownValRefinementSigil" {
								dieAt(x, "the method set of unknownValRefinement changed: %v", ms)
							}
							seen[x.Name.Name] = true
						}
						continue
					}
					var got []string
					for _, fl := range st.Fields.List {
						if len(fl.Names) == 0 {
							got = append(got, src(fl.Type)+" "+src(fl.Type))
						}
						for _, n := range fl.Names {
							got = append(got, n.Name+" "+src(fl.Type))
						}
					}
					var want []string
					for _, fs := range k.fields {
						want = append(want, fs.name+" "+fs.goType)
					}
					if strings.Join(got, "; ") != strings.Join(want, "; ") {
						dieAt(x, "struct %s is declared as {%s}, the translation reads it as {%s}", x.Name.Name, strings.Join(got, "; "), strings.Join(want, "; "))
					}
					seen[x.Name.Name] = true
				case *ast.ValueSpec:
					if gd.Tok == token.CONST && len(x.Names) == 1 && len(x.Values) == 1 && strings.HasPrefix(x.Names[0].Name, "tristate") {
						consts[x.Names[0].Name] = src(x.Values[0])
					}
				}
			}
		}
	}
	for name := range rfKinds {
		if !seen[name] {
			die("translate: struct %s not found in package cty", name)
		}
	}
	if !seen["unknownValRefinement"] {
		die("translate: interface unknownValRefinement not found in package cty")
	}
	if consts["tristateUnknown"] != "0" || consts["tristateTrue"] == "" || consts["tristateFalse"] == "" || consts["tristateTrue"] == "0" ||
		consts["tristateFalse"] == "0" || consts["tristateTrue"] == consts["tristateFalse"] || len(consts) != 3 {
		die("translate: the tristateBool constants changed: %v", consts)
	}
	// every implementation of the interface must be one of the four the generated matches enumerate
	for _, f := range files {
		for _, d := range f.Decls {
			if fd, ok := d.(*ast.FuncDecl); ok && fd.Recv != nil && fd.Name.Name == "unknownValRefinementSigil" {
				if k := rfKinds[strings.TrimPrefix(src(fd.Recv.List[0].Type), "*")]; k == nil || !k.iface {
					dieAt(fd, "a fifth implementation of unknownValRefinement")
				}
			}
		}
	}
}

// names under which the tie theorems address the entry points
const rfAliases = `/-- one call of the hand-written model's call vocabulary (` + "`Refine.RefineCall`" + `), on the translated methods -/
def step (b : Refine.Builder) : Refine.RefineCall → Res Refine.Builder
  | .notNull => RefinementBuilder_NotNull b
  | .null => RefinementBuilder_Null b
  | .numLower a incl => RefinementBuilder_NumberRangeLowerBound b (RefineGo.ofArg a) incl
  | .numUpper a incl => RefinementBuilder_NumberRangeUpperBound b (RefineGo.ofArg a) incl
  | .numRangeInclusive lo hi => RefinementBuilder_NumberRangeInclusive b (RefineGo.ofArg lo) (RefineGo.ofArg hi)
  | .lenLower n => RefinementBuilder_CollectionLengthLowerBound b n
  | .lenUpper n => RefinementBuilder_CollectionLengthUpperBound b n
  | .collectionLength n => RefinementBuilder_CollectionLength b n
  | .stringPrefix p => RefinementBuilder_StringPrefix b p
  | .stringPrefixFull p => RefinementBuilder_StringPrefixFull b p

/-- a chain of builder calls -/
def run (b : Refine.Builder) : List Refine.RefineCall → Res Refine.Builder
  | [] => Res.ok b
  | c :: cs => Res.bind (step b c) fun b' => run b' cs

/-- ` + "`v.Refine()`" + ` -/
def init (v : Value) : Res Refine.Builder := Value_Refine (RefineGo.GoVal.v v)

/-- ` + "`b.NewValue()`" + ` -/
def newValue (b : Refine.Builder) : Res Value := Res.bind (RefinementBuilder_NewValue b) RefineGo.toValue

/-- ` + "`v.Refine().<calls>.NewValue()`" + ` -/
def refine (v : Value) (cs : List Refine.RefineCall) : Res Value :=
  Res.bind (init v) fun b => Res.bind (run b cs) newValue

/-- ` + "`a.rawEqual(b)`" + ` for two refinements (through the interface; a nil receiver panics) -/
def rawEqual (a b : Rfn) : Res Bool :=
  match a with
  | Rfn.nullable n => refinementNullable_rawEqual n b
  | Rfn.str n p => refinementString_rawEqual n p b
  | Rfn.num n lo hi => refinementNumber_rawEqual n (RefineGo.boundVal lo) (RefineGo.boundVal hi) (RefineGo.boundInc lo) (RefineGo.boundInc hi) b
  | Rfn.coll n lo hi => refinementCollection_rawEqual n lo hi b
  | Rfn.unref => Res.panic "invalid memory address or nil pointer dereference"
`

func translateRefineFns(repo, leanDir, hdr string) int {
	const file = "unknown_refinement.go"
	t := &rfTr{funcs: map[string]*ast.FuncDecl{}, file: map[string]string{}, units: map[string]*rfUnit{}, mutMemo: map[string]int{}}
	files := parseDir(filepath.Join(repo, "cty"))
	rfCheckDecls(files)
	for _, f := range files {
		if filepath.Base(fset.Position(f.Pos()).Filename) != file {
			continue
		}
		for _, d := range f.Decls {
			fd, ok := d.(*ast.FuncDecl)
			if !ok || fd.Body == nil {
				continue
			}
			key := fd.Name.Name
			if fd.Recv != nil {
				key = strings.TrimPrefix(src(fd.Recv.List[0].Type), "*") + "." + key
			}
			t.funcs[key] = fd
		}
	}
	for _, r := range rfRoots {
		if t.funcs[r] == nil {
			die("translate: %s not found in cty/%s", r, file)
		}
		t.ensure(r, t.funcs[r])
	}
	var b strings.Builder
	b.WriteString(hdr + "-- Translation of cty/" + file + " (extract/translate_rfn.go); tied to the hand-written model CtyModel/Refine.lean\n" +
		"-- by CtyModel/Lemmas/RefineFnsTie.lean.\n--\n-- TRANSLATED from the source text (a Go panic is `Res.panic`; a method that assigns to its pointer receiver returns\n" +
		"-- the receiver's new state; `Res.unmodelled` = the given API has no reading for an operand):\n")
	for _, u := range t.order {
		b.WriteString("--   " + u.key + "  (" + t.file[u.key] + ")\n")
	}
	b.WriteString("-- NOT translated: GoString (all four), Value.RefineWith (callback functions); everything the functions above call\n" +
		"-- outside the file is the GIVEN API of CtyModel/RefineGo.lean and CtyModel/TyGo.lean, assumed to be what the code does:\n")
	var api []string
	seen := map[string]bool{}
	add := func(goName string, p rfPrim) {
		if !seen[goName] {
			seen[goName] = true
			api = append(api, goName+" ↦ "+p.lean)
		}
	}
	for n, p := range rfValueMethods {
		add("Value."+n, p)
	}
	for n, p := range rfTypeMethods {
		add("Type."+n, p)
	}
	for n, p := range rfFuncPrims {
		add(n, p)
	}
	for n, p := range rfNamedEq {
		add("== "+n, rfPrim{lean: p})
	}
	sort.Strings(api)
	for _, a := range api {
		b.WriteString("--   " + a + "\n")
	}
	b.WriteString("--   len(string) ↦ RefineGo.strLen; s[:n] ↦ RefineGo.strTake; make([]Value, n) ↦ RefineGo.makeSlice; xs[i] = v ↦ RefineGo.sliceSet;\n" +
		"--   v.v.(*unknownType) ↦ RefineGo.unknownRefinement; Value{ty, &unknownType{refinement}} ↦ RefineGo.unknownWith; v.ty ↦ RefineGo.typeOf;\n" +
		"--   refinementNumber.min/minInc/max/maxInc ↦ RefineGo.boundVal/boundInc, stored with RefineGo.mkBound; RefinementBuilder.orig stored with RefineGo.toValue;\n" +
		"--   r == nil ↦ RefineGo.isNil; math.MaxInt ↦ Refine.maxInt; number equality ↦ the parameter [Refine.EqOracle];\n" +
		"--   cty.NormalizeString, ctystrings.SafeKnownPrefix ↦ the parameter [RefineGo.Strings]\n")
	b.WriteString("import CtyModel.RefineGo\nset_option linter.unusedVariables false\nnamespace CtyModel.Generated.RefineFns\nvariable [Refine.EqOracle] [RefineGo.Strings]\n\n")
	b.WriteString(strings.Join(t.out, "\n"))
	b.WriteString("\n" + rfAliases + "\nend CtyModel.Generated.RefineFns\n")
	writeIfChanged(filepath.Join(leanDir, "RefineFns.lean"), b.String())
	return len(t.out)
}
