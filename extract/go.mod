module ctyextract

go 1.18
