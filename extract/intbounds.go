package main

// C18: the `min`/`max` switch tables of cty/gocty/out.go fromCtyNumberInt and
// fromCtyNumberUInt, and the range tests that use them, re-read from the source.
// Recognised shape (anything else is a broken tie):
//
//	switch target.Type().Bits() {
//	case <int literal>:
//		min = <math.MinIntN | int literal>      (signed only)
//		max = <math.MaxIntN | math.MaxUintN | int literal>
//	...
//	default:
//		panic(<string literal>)
//	}
//
// followed by exactly one `if` whose condition mentions `max`.

import (
	"fmt"
	"go/ast"
	"go/token"
	"math"
	"math/big"
	"path/filepath"
	"strconv"
	"strings"
)

// the constants of Go's package math a bound may be written with (their values
// are the Go toolchain's, which is trusted)
var mathConsts = map[string]*big.Int{
	"math.MinInt8": big.NewInt(math.MinInt8), "math.MaxInt8": big.NewInt(math.MaxInt8),
	"math.MinInt16": big.NewInt(math.MinInt16), "math.MaxInt16": big.NewInt(math.MaxInt16),
	"math.MinInt32": big.NewInt(math.MinInt32), "math.MaxInt32": big.NewInt(math.MaxInt32),
	"math.MinInt64": big.NewInt(math.MinInt64), "math.MaxInt64": big.NewInt(math.MaxInt64),
	"math.MaxUint8": big.NewInt(math.MaxUint8), "math.MaxUint16": big.NewInt(math.MaxUint16),
	"math.MaxUint32": big.NewInt(math.MaxUint32), "math.MaxUint64": new(big.Int).SetUint64(math.MaxUint64),
}

func boundValue(fn string, e ast.Expr) *big.Int {
	s := src(e)
	if v, ok := mathConsts[s]; ok {
		return v
	}
	neg := false
	if u, ok := e.(*ast.UnaryExpr); ok && u.Op == token.SUB {
		neg = true
		e = u.X
	}
	if bl, ok := e.(*ast.BasicLit); ok && bl.Kind == token.INT {
		v, ok := new(big.Int).SetString(bl.Value, 0)
		if !ok {
			die("%s: unreadable integer literal %s", fn, bl.Value)
		}
		if neg {
			v.Neg(v)
		}
		return v
	}
	die("%s: bound %q is neither a math.MinIntN/MaxIntN/MaxUintN constant nor an integer literal", fn, s)
	return nil
}

type intBound struct {
	Bits     int
	Min, Max *big.Int // Min is nil for the unsigned table
}

func extractBoundSwitch(repo, fn string, signed bool) (rows []intBound, cond string) {
	fd := findFunc(parseDir(filepath.Join(repo, "cty/gocty")), fn)
	if fd == nil {
		die("%s not found in cty/gocty", fn)
	}
	nsw, nif := 0, 0
	for _, st := range fd.Body.List {
		switch s := st.(type) {
		case *ast.SwitchStmt:
			nsw++
			if s.Init != nil || src(s.Tag) != "target.Type().Bits()" {
				die("%s: the switch is not over target.Type().Bits()", fn)
			}
			hasDefault := false
			for _, c := range s.Body.List {
				cc := c.(*ast.CaseClause)
				if cc.List == nil {
					hasDefault = true
					if len(cc.Body) != 1 || !strings.HasPrefix(src(cc.Body[0]), "panic(\"") {
						die("%s: default is not a panic with a string literal", fn)
					}
					continue
				}
				if len(cc.List) != 1 {
					die("%s: a case with several labels", fn)
				}
				bl, ok := cc.List[0].(*ast.BasicLit)
				if !ok || bl.Kind != token.INT {
					die("%s: non-literal case label %s", fn, src(cc.List[0]))
				}
				bits, err := strconv.Atoi(bl.Value)
				if err != nil {
					die("%s: %v", fn, err)
				}
				row := intBound{Bits: bits}
				for _, b := range cc.Body {
					as, ok := b.(*ast.AssignStmt)
					if !ok || as.Tok != token.ASSIGN || len(as.Lhs) != 1 || len(as.Rhs) != 1 {
						die("%s: case %d contains something other than `min = …` / `max = …`: %s", fn, bits, src(b))
					}
					switch src(as.Lhs[0]) {
					case "min":
						if !signed || row.Min != nil {
							die("%s: unexpected assignment to min in case %d", fn, bits)
						}
						row.Min = boundValue(fn, as.Rhs[0])
					case "max":
						if row.Max != nil {
							die("%s: max assigned twice in case %d", fn, bits)
						}
						row.Max = boundValue(fn, as.Rhs[0])
					default:
						die("%s: case %d assigns to %s", fn, bits, src(as.Lhs[0]))
					}
				}
				if row.Max == nil || (signed && row.Min == nil) {
					die("%s: case %d does not set both bounds", fn, bits)
				}
				rows = append(rows, row)
			}
			if !hasDefault {
				die("%s: the switch has no default", fn)
			}
		case *ast.IfStmt:
			if strings.Contains(src(s.Cond), "max") {
				nif++
				if s.Init != nil || s.Else != nil {
					die("%s: the range test has an init statement or an else branch", fn)
				}
				if len(s.Body.List) != 1 || !strings.HasPrefix(src(s.Body.List[0]), "return path.NewErrorf(") {
					die("%s: the range test does not return an error", fn)
				}
				cond = strings.Join(strings.Fields(src(s.Cond)), " ")
			}
		}
	}
	if nsw != 1 || nif != 1 || len(rows) == 0 {
		die("%s: expected exactly one bounds switch and one range test (found %d, %d)", fn, nsw, nif)
	}
	return rows, cond
}

func writeIntBounds(repo, leanDir, hdr string) int {
	srows, scond := extractBoundSwitch(repo, "fromCtyNumberInt", true)
	urows, ucond := extractBoundSwitch(repo, "fromCtyNumberUInt", false)
	var lb strings.Builder
	lb.WriteString(hdr + "namespace CtyModel.Generated\n\n")
	lb.WriteString("/-- cty/gocty/out.go fromCtyNumberInt: (bits, min, max) per case of the switch over target.Type().Bits() -/\n")
	lb.WriteString("def intBounds : List (Nat × Int × Int) := [")
	for i, r := range srows {
		if i > 0 {
			lb.WriteString(", ")
		}
		fmt.Fprintf(&lb, "(%d, %s, %s)", r.Bits, r.Min.String(), r.Max.String())
	}
	lb.WriteString("]\n")
	fmt.Fprintf(&lb, "/-- … and the condition under which the decoded int64 is refused -/\ndef intRangeTest : String := %s\n\n", leanStr(scond))
	lb.WriteString("/-- cty/gocty/out.go fromCtyNumberUInt: (bits, max) per case of the switch over target.Type().Bits() -/\n")
	lb.WriteString("def uintBounds : List (Nat × Int) := [")
	for i, r := range urows {
		if i > 0 {
			lb.WriteString(", ")
		}
		fmt.Fprintf(&lb, "(%d, %s)", r.Bits, r.Max.String())
	}
	lb.WriteString("]\n")
	fmt.Fprintf(&lb, "/-- … and the condition under which the decoded uint64 is refused -/\ndef uintRangeTest : String := %s\n", leanStr(ucond))
	lb.WriteString("\nend CtyModel.Generated\n")
	writeIfChanged(filepath.Join(leanDir, "IntBounds.lean"), lb.String())
	return len(srows) + len(urows)
}
