// Go→Lean translator for the marks API of cty/marks.go (property C04): NewValueMarks, ValueMarks.Equal,
// PathValueMarks.Equal, Value.IsMarked / HasMark / ContainsMarked / assertUnmarked / Marks / HasSameMarks / Mark /
// MarkWithPaths / Unmark / UnmarkDeep / UnmarkDeepWithPaths / unmarkForce / WithMarks / WithSameMarks and the two
// transformer types.  It writes lean/CtyModel/Generated/MarksFns.lean; Lemmas/MarksFnsTie.lean proves the generated
// definitions equal to the hand-written marks model (CtyModel/Marks.lean, MarksOps.lean, Walk.lean), so the C04
// round-trip theorems are re-checked against what the source says on every run.
//
// EVERY function declared in cty/marks.go is translated except those in marksSkip.  Like translate.go this is a
// SYNTACTIC FRAGMENT, not Go semantics; anything else is an error with the source position (exit 1 = broken tie):
//
//	statements   x := e | x = e | x += e | x.f = e | m[k] = e | x.f[k] = e | var x T | { … }
//	             v, ok := X.(marker) | v, ok := X.(ValueMarks) | v := X.(marker) | _, ok := m[k] | a, b := f(…)
//	             ret, _ := TransformWithTransformer(val, &t | &T{…})      (T's Enter/Exit are translated on demand)
//	             Walk(val, func(p Path, v Value) (bool, error) {…})        (the literal may assign ONE captured variable)
//	             if [init;] c {…} [else …] | for [k][, v] := range <map> {…} | for _, v := range <slice> {…}
//	             (loops may nest; `continue` and `return` inside a loop are supported, break/goto/labels are not)
//	             return [e, …] | panic(…) | copy(path, p) | f(…) with no result
//	expressions  identifiers, int literals, nil, field selection, len, make, append(xs, x), !, &&, ||, ==, !=, <, <=, >, >=, +,
//	             Value{ty:, v:}, marker{…}, PathValueMarks{…}, T{…}, struct{}{}, calls of functions/methods of cty/marks.go
//	             (translated on demand) and of the given API (marksPrims)
//
// A loop is a structurally recursive helper that returns the variables the body assigns (and, when the body can
// return, whether it did); a pointer-receiver method returns the receiver's fields after the call next to its result.
// Aliasing is refused: a ValueMarks that is a parameter, a field or an element of what the caller handed in may be
// read and passed on, but not stored in a variable, a struct or a result, and not written to (the C20 heap model is
// where aliasing lives).
package main

import (
	"fmt"
	"go/ast"
	"go/token"
	"path/filepath"
	"sort"
	"strconv"
	"strings"
)

// ---------------------------------------------------------------- configuration (the reading of Go data)

// functions of cty/marks.go that are NOT translated
var marksSkip = map[string]string{"ValueMarks.GoString": "fmt / strings.Builder, no value-level content"}

// names of the always-present parameters
const (
	mOrd   = "mapOrder"
	mX     = "X"
	mSched = "sched"
)

type mShape int

const (
	msVal       mShape = iota // Value
	msTy                      // Type (opaque)
	msPay                     // interface{} holding a value's payload (Value.v, marker.realV)
	msAny                     // interface{} parameter where a mark is expected
	msKey                     // a mark (a map key of ValueMarks)
	msMarks                   // ValueMarks
	msMarksList               // []ValueMarks
	msVals                    // []Value
	msAnys                    // []interface{}
	msPVMs                    // []PathValueMarks
	msPath                    // Path
	msPathOpt                 // a Path made by make(Path, n[, c]): elements may still be the zero PathStep
	msInt
	msBool
	msUnit   // struct{}
	msStruct // marker, PathValueMarks, the transformer structs: flattened into the fields
	msNil
	msPoison
)

type mField struct {
	name string
	sh   mShape
}

type mStructT struct {
	name   string
	fields []mField
}

type mVal struct {
	sh     mShape
	e      string
	konst  int // msBool: 1 = known true, 2 = known false
	st     *mStructT
	fields map[string]mVal
	fresh  bool // msMarks: a map nobody else holds
	nilMap bool // msMarks: the nil map (writing to it panics)
	why    string
}

type mEnv map[string]mVal

func (e mEnv) with(k string, v mVal) mEnv {
	if k == "" || k == "_" {
		return e
	}
	n := make(mEnv, len(e)+1)
	for a, b := range e {
		n[a] = b
	}
	n[k] = v
	return n
}

func mBool(e string) mVal { return mVal{sh: msBool, e: e} }
func mConst(b bool) mVal {
	if b {
		return mVal{sh: msBool, e: "true", konst: 1}
	}
	return mVal{sh: msBool, e: "false", konst: 2}
}

func mLeanType(sh mShape) string {
	switch sh {
	case msVal:
		return "Value"
	case msTy:
		return "Ty"
	case msPay:
		return "Payload"
	case msAny:
		return "MarksGo.MarkArg"
	case msKey:
		return "String"
	case msMarks:
		return "List String"
	case msMarksList:
		return "List (List String)"
	case msVals:
		return "List Value"
	case msAnys:
		return "List MarksGo.MarkArg"
	case msPVMs:
		return "List Walk.PVM"
	case msPath:
		return "List PathStep"
	case msPathOpt:
		return "List (Option PathStep)"
	case msInt:
		return "Int"
	case msBool:
		return "Bool"
	case msUnit:
		return "Unit"
	}
	panic("mLeanType")
}

// element shape of a slice shape
func mElem(sh mShape) (mShape, bool) {
	switch sh {
	case msMarksList:
		return msMarks, true
	case msVals:
		return msVal, true
	case msAnys:
		return msAny, true
	case msPVMs:
		return msStruct, true
	}
	return 0, false
}

// given API: methods on a Path (hand-written model; translated separately by translate_path.go)
var marksPathPrims = map[string]string{"Equals": "Path.equals " + mX}

// ---------------------------------------------------------------- translator state

type mParam struct {
	name string
	sh   mShape
	st   *mStructT
}

type mUnit struct {
	key, name  string
	recvSh     mShape
	recvSt     *mStructT
	hasRecv    bool
	ptr        bool // pointer receiver: returns the receiver's fields too
	goParams   []mParam
	results    []mShape
	resultSt   []*mStructT
	hasErr     bool
	usesX      bool
	inProgress bool
}

type mtr struct {
	funcs   map[string]*ast.FuncDecl
	structs map[string]*mStructT
	units   map[string]*mUnit
	done    []string
	out     []string
	api     map[string]string
}

func (t *mtr) use(goForm, lean string) string {
	t.api[goForm] = lean
	return lean
}

type mctx struct {
	t        *mtr
	u        *mUnit
	ltype    map[string]string
	order    []string
	nloops   int
	nfuncs   int
	results  []mShape
	resultSt []*mStructT
	hasErr   bool
	recvName string                     // Go name of a pointer receiver
	stateOf  func(en mEnv) string       // closure: the captured state at a return
	retf     func(packed string) string // how a `return` is emitted here
	cont     func(en mEnv) string       // `continue`; nil outside a loop
	at       ast.Node
}

func (c *mctx) fresh(base, typ string) string {
	base = strings.TrimRight(base, "_")
	if base == "" {
		base = "x"
	}
	n := base + "_"
	for i := 2; c.ltype[n] != ""; i++ {
		n = fmt.Sprintf("%s_%d", base, i)
	}
	c.ltype[n] = typ
	c.order = append(c.order, n)
	return n
}

func mTuple(es []string) string {
	switch len(es) {
	case 0:
		return "()"
	case 1:
		return es[0]
	}
	return "(" + strings.Join(es, ", ") + ")"
}

func mTupleType(ts []string) string {
	switch len(ts) {
	case 0:
		return "Unit"
	case 1:
		return ts[0]
	}
	return strings.Join(mapStr(ts, atomType), " × ")
}

func mapStr(xs []string, f func(string) string) []string {
	out := make([]string, len(xs))
	for i, x := range xs {
		out[i] = f(x)
	}
	return out
}

// ---------------------------------------------------------------- Go types

func (t *mtr) goType(e ast.Expr, param bool) (mShape, *mStructT) {
	s := src(e)
	switch s {
	case "Value":
		return msVal, nil
	case "Type":
		return msTy, nil
	case "bool":
		return msBool, nil
	case "int":
		return msInt, nil
	case "ValueMarks":
		return msMarks, nil
	case "Path":
		return msPath, nil
	case "[]PathValueMarks":
		return msPVMs, nil
	case "struct{}":
		return msUnit, nil
	case "interface{}", "any":
		if param {
			return msAny, nil
		}
		return msPay, nil
	case "...ValueMarks", "[]ValueMarks":
		return msMarksList, nil
	case "...Value", "[]Value":
		return msVals, nil
	case "...interface{}", "[]interface{}":
		return msAnys, nil
	}
	if st := t.structs[s]; st != nil {
		return msStruct, st
	}
	dieAt(e, "type %s", s)
	return 0, nil
}

func (t *mtr) readStructs(files []*ast.File) {
	var specs []*ast.TypeSpec
	for _, f := range files {
		for _, d := range f.Decls {
			gd, ok := d.(*ast.GenDecl)
			if !ok || gd.Tok != token.TYPE {
				continue
			}
			for _, sp := range gd.Specs {
				ts := sp.(*ast.TypeSpec)
				if _, ok := ts.Type.(*ast.StructType); ok {
					t.structs[ts.Name.Name] = &mStructT{name: ts.Name.Name}
					specs = append(specs, ts)
				}
			}
		}
	}
	for _, ts := range specs {
		st := t.structs[ts.Name.Name]
		for _, f := range ts.Type.(*ast.StructType).Fields.List {
			sh, sub := t.goType(f.Type, false)
			if sub != nil {
				dieAt(f, "struct-typed field in %s", st.name)
			}
			if len(f.Names) == 0 {
				dieAt(f, "embedded field in %s", st.name)
			}
			for _, n := range f.Names {
				st.fields = append(st.fields, mField{n.Name, sh})
			}
		}
	}
}

func (st *mStructT) val(exprs []string, fresh bool) mVal {
	v := mVal{sh: msStruct, st: st, fields: map[string]mVal{}}
	for i, f := range st.fields {
		v.fields[f.name] = mVal{sh: f.sh, e: exprs[i], fresh: fresh}
	}
	return v
}

func (st *mStructT) types() []string {
	var ts []string
	for _, f := range st.fields {
		ts = append(ts, mLeanType(f.sh))
	}
	return ts
}

// pack: a struct value as one Lean expression (the tuple of its fields); a marker only exists inside a payload
func (c *mctx) pack(v mVal, at ast.Node) string {
	if v.sh != msStruct {
		return v.e
	}
	var es []string
	for _, f := range v.st.fields {
		fv := v.fields[f.name]
		if fv.sh == msPoison {
			dieAt(at, "field %s of %s is used before it is assigned (%s)", f.name, v.st.name, fv.why)
		}
		es = append(es, fv.e)
	}
	if v.st.name == "marker" { // stored in an interface{}
		return "(Payload.marked " + v.fields["marks"].e + " " + v.fields["realV"].e + ")"
	}
	return mTuple(es)
}

func (st *mStructT) unpack(x string, fresh bool) mVal {
	var es []string
	for i := range st.fields {
		switch {
		case len(st.fields) == 1:
			es = append(es, x)
		case i == len(st.fields)-1 && i == 1:
			es = append(es, x+".2")
		case i == 0:
			es = append(es, x+".1")
		default:
			panic("unpack: more than two fields")
		}
	}
	return st.val(es, fresh)
}

// ---------------------------------------------------------------- functions

func (t *mtr) ensure(key string, at ast.Node) *mUnit {
	if u := t.units[key]; u != nil {
		if u.inProgress {
			dieAt(at, "recursion through %s", key)
		}
		return u
	}
	fd := t.funcs[key]
	if fd == nil {
		dieAt(at, "call of %s, which is neither a function of cty/marks.go nor part of the given API", key)
	}
	if why, ok := marksSkip[key]; ok {
		dieAt(at, "call of %s, which is not translated (%s)", key, why)
	}
	return t.translate(key, fd)
}

func (t *mtr) posRange(fd *ast.FuncDecl) string {
	a, b := fset.Position(fd.Pos()), fset.Position(fd.End())
	return fmt.Sprintf("cty/%s:%d-%d", filepath.Base(a.Filename), a.Line, b.Line)
}

func (t *mtr) translate(key string, fd *ast.FuncDecl) *mUnit {
	u := &mUnit{key: key, name: strings.ReplaceAll(key, ".", "_"), inProgress: true}
	t.units[key] = u
	c := &mctx{t: t, u: u, ltype: map[string]string{mOrd: "MarksGo.Ord", mX: "SetOracle", mSched: "Walk.Sched"}}
	en := mEnv{}
	var params []leanVar
	addParam := func(goName string, sh mShape, st *mStructT, at ast.Node) {
		if sh == msStruct {
			var ex []string
			for _, f := range st.fields {
				n := c.fresh(goName+"_"+f.name, mLeanType(f.sh))
				params = append(params, leanVar{n, mLeanType(f.sh)})
				ex = append(ex, n)
			}
			en = en.with(goName, st.val(ex, false))
			return
		}
		n := c.fresh(goName, mLeanType(sh))
		params = append(params, leanVar{n, mLeanType(sh)})
		en = en.with(goName, mVal{sh: sh, e: n})
	}
	if fd.Recv != nil {
		r := fd.Recv.List[0]
		rn := "recv"
		if len(r.Names) == 1 {
			rn = r.Names[0].Name
		}
		rt := r.Type
		if se, ok := rt.(*ast.StarExpr); ok {
			u.ptr = true
			rt = se.X
			c.recvName = rn
		}
		u.hasRecv = true
		u.recvSh, u.recvSt = t.goType(rt, false)
		if u.ptr && u.recvSh != msStruct {
			dieAt(r, "pointer receiver of type %s", src(r.Type))
		}
		addParam(rn, u.recvSh, u.recvSt, r)
	}
	for _, f := range fd.Type.Params.List {
		sh, st := t.goType(f.Type, true)
		if len(f.Names) == 0 {
			dieAt(f, "unnamed parameter")
		}
		for _, nm := range f.Names {
			u.goParams = append(u.goParams, mParam{nm.Name, sh, st})
			if nm.Name == "_" {
				n := c.fresh("unused", mLeanType(sh))
				params = append(params, leanVar{n, mLeanType(sh)})
				continue
			}
			addParam(nm.Name, sh, st, f)
		}
	}
	if fd.Type.Results != nil {
		for i, f := range fd.Type.Results.List {
			if len(f.Names) > 0 {
				dieAt(f, "named result")
			}
			if src(f.Type) == "error" {
				if i != len(fd.Type.Results.List)-1 {
					dieAt(f, "error result that is not the last one")
				}
				u.hasErr = true
				continue
			}
			sh, st := t.goType(f.Type, false)
			u.results, u.resultSt = append(u.results, sh), append(u.resultSt, st)
		}
	}
	c.results, c.resultSt, c.hasErr = u.results, u.resultSt, u.hasErr
	c.retf = func(packed string) string { return "(Res.ok " + packed + ")" }
	body := c.block(fd.Body.List, en, func(e mEnv) string {
		if len(u.results) > 0 {
			dieAt(fd.Body, "control reaches the end of a function with a result")
		}
		return c.emitReturn(nil, e, fd.Body)
	})
	u.usesX = tokens(body)[mX]
	u.inProgress = false
	note := ""
	if u.ptr {
		note = "; yields the receiver's fields after the call, then the result"
	}
	doc := fmt.Sprintf("/-- Go: `%s` (%s)%s -/\n", strings.Join(strings.Fields(src(&ast.FuncDecl{Recv: fd.Recv, Name: fd.Name, Type: fd.Type})), " "), t.posRange(fd), note)
	ps := []string{"(" + mOrd + " : MarksGo.Ord)"}
	if u.usesX {
		ps = append(ps, "("+mX+" : SetOracle)", "("+mSched+" : Walk.Sched)")
	}
	for _, p := range params {
		ps = append(ps, fmt.Sprintf("(%s : %s)", p.name, p.typ))
	}
	t.out = append(t.out, fmt.Sprintf("%sdef %s %s : Res %s :=\n%s\n", doc, u.name, strings.Join(ps, " "), atomType(c.retType()), indent(body)))
	t.done = append(t.done, fmt.Sprintf("%s  (%s)", key, t.posRange(fd)))
	return u
}

func (u *mUnit) resTypes() []string {
	var ts []string
	if u.ptr {
		ts = append(ts, mTupleType(u.recvSt.types()))
	}
	for i, sh := range u.results {
		if sh == msStruct {
			ts = append(ts, mTupleType(u.resultSt[i].types()))
		} else {
			ts = append(ts, mLeanType(sh))
		}
	}
	return ts
}

func (c *mctx) retType() string { return mTupleType(c.u.resTypes()) }

func (c *mctx) head(u *mUnit) string {
	h := u.name + " " + mOrd
	if u.usesX {
		h += " " + mX + " " + mSched
	}
	return h
}

// ---------------------------------------------------------------- statements

func (c *mctx) block(list []ast.Stmt, en mEnv, k func(mEnv) string) string {
	return c.stmts(list, en, en, map[string]bool{}, k)
}

func mNoBranch(n ast.Node, allowContinue bool) {
	ast.Inspect(n, func(x ast.Node) bool {
		switch b := x.(type) {
		case *ast.FuncLit:
			return false
		case *ast.BranchStmt:
			if !(allowContinue && b.Tok == token.CONTINUE && b.Label == nil) {
				dieAt(b, "%s", b.Tok)
			}
		case *ast.LabeledStmt:
			dieAt(b, "label")
		case *ast.DeferStmt, *ast.GoStmt, *ast.SelectStmt, *ast.SendStmt:
			dieAt(b, "statement %s", strings.TrimPrefix(fmt.Sprintf("%T", b), "*ast."))
		}
		return true
	})
}

func (c *mctx) stmts(list []ast.Stmt, entry, cur mEnv, decl map[string]bool, k func(mEnv) string) string {
	if len(list) == 0 {
		out := mEnv{}
		for name, v := range entry {
			if decl[name] {
				out[name] = v
			} else {
				out[name] = cur[name]
			}
		}
		return k(out)
	}
	next := func(e mEnv, d map[string]bool) string { return c.stmts(list[1:], entry, e, d, k) }
	same := func(e mEnv) string { return next(e, decl) }
	switch s := list[0].(type) {
	case *ast.ReturnStmt:
		return c.emitReturn(s.Results, cur, s)
	case *ast.BlockStmt:
		return c.block(s.List, cur, same)
	case *ast.IfStmt:
		if s.Init != nil {
			return c.block([]ast.Stmt{s.Init, &ast.IfStmt{If: s.If, Cond: s.Cond, Body: s.Body, Else: s.Else}}, cur, same)
		}
		bs, v := c.expr(s.Cond, cur)
		if v.sh != msBool {
			dieAt(s.Cond, "condition %s", src(s.Cond))
		}
		thenT := func() string { return c.block(s.Body.List, cur, same) }
		elseT := func() string {
			switch e := s.Else.(type) {
			case nil:
				return next(cur, decl)
			case *ast.BlockStmt:
				return c.block(e.List, cur, same)
			default:
				return c.block([]ast.Stmt{e}, cur, same)
			}
		}
		switch v.konst {
		case 1:
			return wrap(bs, thenT())
		case 2:
			return wrap(bs, elseT())
		}
		return wrap(bs, "(if "+v.e+" then\n"+indent(thenT())+"\nelse\n"+indent(elseT())+")")
	case *ast.BranchStmt:
		if s.Tok == token.CONTINUE && s.Label == nil && c.cont != nil {
			return c.cont(cur)
		}
		dieAt(s, "%s", s.Tok)
	case *ast.DeclStmt:
		gd := s.Decl.(*ast.GenDecl)
		if gd.Tok == token.VAR && len(gd.Specs) == 1 {
			vs := gd.Specs[0].(*ast.ValueSpec)
			if len(vs.Names) == 1 && len(vs.Values) == 0 && vs.Type != nil {
				sh, st := c.t.goType(vs.Type, false)
				return next(cur.with(vs.Names[0].Name, c.zero(sh, st, vs)), declWith(decl, vs.Names[0].Name))
			}
		}
		dieAt(s, "declaration %s", src(s))
	case *ast.ExprStmt:
		call, ok := s.X.(*ast.CallExpr)
		if !ok {
			dieAt(s, "expression statement %s", src(s))
		}
		return c.callStmt(call, cur, same)
	case *ast.AssignStmt:
		return c.assign(s, cur, decl, next)
	case *ast.IncDecStmt:
		dieAt(s, "statement %s", src(s))
	case *ast.RangeStmt:
		return c.rangeStmt(s, cur, same)
	}
	dieAt(list[0], "statement %s", strings.TrimPrefix(fmt.Sprintf("%T", list[0]), "*ast."))
	return ""
}

// zero value of a declared variable
func (c *mctx) zero(sh mShape, st *mStructT, at ast.Node) mVal {
	switch sh {
	case msMarks:
		return mVal{sh: msMarks, e: "([] : List String)", fresh: true, nilMap: true}
	case msInt:
		return mVal{sh: msInt, e: "(0 : Int)"}
	case msBool:
		return mConst(false)
	case msPVMs:
		return mVal{sh: msPVMs, e: "([] : List Walk.PVM)"}
	case msPay:
		return mVal{sh: msPoison, why: "the nil interface{}"}
	case msStruct:
		v := mVal{sh: msStruct, st: st, fields: map[string]mVal{}}
		for _, f := range st.fields {
			v.fields[f.name] = c.zero(f.sh, nil, at)
		}
		return v
	}
	dieAt(at, "zero value of this type")
	return mVal{}
}

// emitReturn: results == nil is a bare return
func (c *mctx) emitReturn(results []ast.Expr, cur mEnv, at ast.Node) string {
	want := len(c.results)
	if c.hasErr {
		want++
	}
	if len(results) != want {
		dieAt(at, "return with %d values where %d are expected", len(results), want)
	}
	var bs []bind
	var parts []string
	if c.recvName != "" {
		parts = append(parts, c.pack(cur[c.recvName], at))
	}
	if c.stateOf != nil {
		parts = append(parts, c.stateOf(cur))
	}
	for i, r := range results {
		if c.hasErr && i == len(results)-1 {
			if id, ok := r.(*ast.Ident); !ok || id.Name != "nil" {
				dieAt(r, "a non-nil error result %s", src(r))
			}
			continue
		}
		b, v := c.expr(r, cur)
		b, v = c.coerce(b, v, c.results[i], r)
		if v.sh == msMarks && !v.fresh {
			dieAt(r, "returning the ValueMarks %s, which the caller or a value already holds (aliasing)", src(r))
		}
		bs = append(bs, b...)
		parts = append(parts, c.pack(v, r))
	}
	return wrap(bs, c.retf(mTuple(parts)))
}

// coerce a value to the shape a position wants (nil, a made Path)
func (c *mctx) coerce(bs []bind, v mVal, want mShape, at ast.Node) ([]bind, mVal) {
	switch {
	case v.sh == want:
		return bs, v
	case v.sh == msNil && want == msMarks:
		return bs, mVal{sh: msMarks, e: "([] : List String)", fresh: true, nilMap: true}
	case v.sh == msNil && want == msPVMs:
		return bs, mVal{sh: msPVMs, e: "([] : List Walk.PVM)"}
	case v.sh == msPathOpt && want == msPath:
		n := c.fresh("path", mLeanType(msPath))
		return append(bs, bind{n, "(" + c.t.use("a Path built by make(Path, n, c) and used as a Path", "PathGo.sliceDone") + " " + v.e + ")"}), mVal{sh: msPath, e: n}
	case v.sh == msAny && want == msKey:
		n := c.fresh("key", "String")
		return append(bs, bind{n, "(" + c.t.use("an interface{} argument used as a map key", "MarksGo.keyOf") + " " + v.e + ")"}), mVal{sh: msKey, e: n}
	case v.sh == msStruct && v.st.name == "marker" && want == msPay:
		return bs, mVal{sh: msPay, e: c.pack(v, at)}
	}
	dieAt(at, "%s where a value of another kind is expected", src(at))
	return nil, mVal{}
}

// ---- places (a variable, or a field of a struct variable)

type mPlace struct{ root, field string }

func (p mPlace) String() string {
	if p.field == "" {
		return p.root
	}
	return p.root + "." + p.field
}

func mGet(en mEnv, p mPlace) mVal {
	if p.field == "" {
		return en[p.root]
	}
	return en[p.root].fields[p.field]
}

func mSet(en mEnv, p mPlace, v mVal) mEnv {
	if p.field == "" {
		return en.with(p.root, v)
	}
	r := en[p.root]
	nf := map[string]mVal{}
	for k, x := range r.fields {
		nf[k] = x
	}
	nf[p.field] = v
	r.fields = nf
	return en.with(p.root, r)
}

func (c *mctx) placeOf(e ast.Expr, en mEnv) (mPlace, bool) {
	switch x := e.(type) {
	case *ast.Ident:
		if _, ok := en[x.Name]; ok {
			return mPlace{root: x.Name}, true
		}
	case *ast.SelectorExpr:
		if id, ok := x.X.(*ast.Ident); ok {
			if r, ok := en[id.Name]; ok && r.sh == msStruct {
				if _, ok := r.fields[x.Sel.Name]; ok {
					return mPlace{id.Name, x.Sel.Name}, true
				}
			}
		}
	}
	return mPlace{}, false
}

// assigned places of the enclosing scope inside a node (a loop body, a function literal)
func (c *mctx) mutated(n ast.Node, en mEnv) []mPlace {
	set := map[mPlace]bool{}
	add := func(e ast.Expr) {
		if ix, ok := e.(*ast.IndexExpr); ok {
			e = ix.X
		}
		if p, ok := c.placeOf(e, en); ok {
			if p.field == "" && en[p.root].sh == msStruct {
				for _, f := range en[p.root].st.fields {
					set[mPlace{p.root, f.name}] = true
				}
				return
			}
			set[p] = true
		}
	}
	shadow := map[string]bool{}
	ast.Inspect(n, func(x ast.Node) bool {
		switch s := x.(type) {
		case *ast.AssignStmt:
			if s.Tok == token.DEFINE {
				for _, l := range s.Lhs {
					if id, ok := l.(*ast.Ident); ok && id.Name != "_" {
						if _, outer := en[id.Name]; outer {
							shadow[id.Name] = true
						}
					}
				}
				return true
			}
			for _, l := range s.Lhs {
				add(l)
			}
		case *ast.IncDecStmt:
			add(s.X)
		case *ast.RangeStmt:
			for _, l := range []ast.Expr{s.Key, s.Value} {
				if id, ok := l.(*ast.Ident); ok && id.Name != "_" {
					if _, outer := en[id.Name]; outer {
						shadow[id.Name] = true
					}
				}
			}
		case *ast.CallExpr: // &t handed to TransformWithTransformer, copy(dst, …)
			if id, ok := s.Fun.(*ast.Ident); ok && id.Name == "copy" && len(s.Args) == 2 {
				add(s.Args[0])
			}
			for _, a := range s.Args {
				if ue, ok := a.(*ast.UnaryExpr); ok && ue.Op == token.AND {
					add(ue.X)
				}
			}
		}
		return true
	})
	var out []mPlace
	for p := range set {
		if shadow[p.root] {
			dieAt(n, "%s is both assigned and redeclared in here", p.root)
		}
		out = append(out, p)
	}
	sort.Slice(out, func(i, j int) bool { return out[i].String() < out[j].String() })
	return out
}

// rename gives the places fresh Lean names (the state of a helper) and returns the patterns and types
func (c *mctx) rename(ps []mPlace, en mEnv, at ast.Node) (mEnv, []string, []string, []string) {
	var names, types, init []string
	for _, p := range ps {
		v := mGet(en, p)
		switch v.sh {
		case msMarks, msInt, msBool, msPVMs, msPathOpt, msVal, msPay, msPath:
		default:
			dieAt(at, "a loop or function literal assigns %s", p)
		}
		if v.sh == msMarks && !v.fresh {
			dieAt(at, "write to the ValueMarks %s, which the caller or a value already holds (aliasing)", p)
		}
		n := c.fresh(strings.ReplaceAll(p.String(), ".", "_"), mLeanType(v.sh))
		names, types, init = append(names, n), append(types, mLeanType(v.sh)), append(init, v.e)
		nv := v
		nv.e, nv.konst = n, 0
		en = mSet(en, p, nv)
	}
	return en, names, types, init
}

func (c *mctx) stateExprs(ps []mPlace, en mEnv) []string {
	var out []string
	for _, p := range ps {
		out = append(out, mGet(en, p).e)
	}
	return out
}

// captured Lean names of the enclosing scope that a helper text mentions
func (c *mctx) captures(text string, cur mEnv, exclude []string) (decls, names []string) {
	used := tokens(text)
	avail := map[string]bool{}
	var walk func(v mVal)
	walk = func(v mVal) {
		for tk := range tokens(v.e) {
			avail[tk] = true
		}
		for _, f := range v.fields {
			walk(f)
		}
	}
	for _, v := range cur {
		walk(v)
	}
	ex := map[string]bool{}
	for _, n := range exclude {
		ex[n] = true
	}
	for _, n := range c.order {
		if used[n] && avail[n] && !ex[n] {
			decls = append(decls, fmt.Sprintf("(%s : %s)", n, c.ltype[n]))
			names = append(names, n)
		}
	}
	return
}

func (c *mctx) helperHead(text string) (decl, call string) {
	decl, call = "("+mOrd+" : MarksGo.Ord)", mOrd
	if tokens(text)[mX] {
		decl += " (" + mX + " : SetOracle) (" + mSched + " : Walk.Sched)"
		call += " " + mX + " " + mSched
	}
	return
}

// ---- assignment

func (c *mctx) assign(s *ast.AssignStmt, cur mEnv, decl map[string]bool, next func(mEnv, map[string]bool) string) string {
	define := s.Tok == token.DEFINE
	bindVar := func(e mEnv, d map[string]bool, name string, v mVal) (mEnv, map[string]bool) {
		if name == "" {
			return e, d
		}
		if define {
			if !d[name] {
				return e.with(name, v), declWith(d, name)
			}
			return e.with(name, v), d
		}
		old, ok := e[name]
		if !ok {
			dieAt(s, "assignment to unknown variable %s", name)
		}
		if old.sh != v.sh && old.sh != msPoison {
			dieAt(s, "assignment changes how %s is modelled", name)
		}
		return e.with(name, v), d
	}
	if s.Tok == token.ADD_ASSIGN {
		if len(s.Lhs) != 1 {
			dieAt(s, "assignment %s", src(s))
		}
		p, ok := c.placeOf(s.Lhs[0], cur)
		old := mGet(cur, p)
		bs, v := c.expr(s.Rhs[0], cur)
		if !ok || old.sh != msInt || v.sh != msInt {
			dieAt(s, "assignment %s", src(s))
		}
		return wrap(bs, next(mSet(cur, p, mVal{sh: msInt, e: "(" + old.e + " + " + v.e + ")"}), decl))
	}
	if s.Tok != token.DEFINE && s.Tok != token.ASSIGN {
		dieAt(s, "assignment operator %s", s.Tok)
	}
	// two values from one expression
	if len(s.Lhs) == 2 && len(s.Rhs) == 1 {
		if !define {
			dieAt(s, "two-valued assignment without :=")
		}
		n0, n1 := identName(s.Lhs[0]), identName(s.Lhs[1])
		switch r := s.Rhs[0].(type) {
		case *ast.TypeAssertExpr:
			return c.typeAssert(r, cur, n0, n1, true, func(e mEnv, v, ok mVal) string {
				e2, d := bindVar(e, decl, n0, v)
				e2, d = bindVar(e2, d, n1, ok)
				return next(e2, d)
			})
		case *ast.IndexExpr:
			bs, m := c.expr(r.X, cur)
			bs2, key := c.expr(r.Index, cur)
			bs2, key = c.coerce(bs2, key, msKey, r.Index)
			if m.sh != msMarks {
				dieAt(r, "comma-ok index of %s", src(r.X))
			}
			e, d := bindVar(cur, decl, n0, mVal{sh: msUnit, e: "()"})
			e, d = bindVar(e, d, n1, mBool("("+c.t.use("_, ok := m[k]", "MarksGo.mapHas")+" "+m.e+" "+key.e+")"))
			return wrap(append(bs, bs2...), next(e, d))
		case *ast.CallExpr:
			if id, ok := r.Fun.(*ast.Ident); ok && id.Name == "TransformWithTransformer" {
				return c.transformCall(r, cur, n0, s.Lhs[1], func(e mEnv, v mVal) string {
					e2, d := bindVar(e, decl, n0, v)
					return next(e2, d)
				})
			}
			bs, vs := c.callMulti(r, cur)
			if len(vs) != 2 {
				dieAt(s, "two-valued assignment from %s", src(r))
			}
			e, d := bindVar(cur, decl, n0, vs[0])
			e, d = bindVar(e, d, n1, vs[1])
			return wrap(bs, next(e, d))
		}
		dieAt(s, "two-valued assignment %s", src(s))
	}
	if len(s.Lhs) != 1 || len(s.Rhs) != 1 {
		dieAt(s, "parallel assignment")
	}
	// v := X.(marker)
	if ta, ok := s.Rhs[0].(*ast.TypeAssertExpr); ok {
		if !define {
			dieAt(s, "type assertion assigned without :=")
		}
		n0 := identName(s.Lhs[0])
		return c.typeAssert(ta, cur, n0, "", false, func(e mEnv, v, _ mVal) string {
			e2, d := bindVar(e, decl, n0, v)
			return next(e2, d)
		})
	}
	switch l := s.Lhs[0].(type) {
	case *ast.Ident:
		name := identName(l)
		bs, v := c.expr(s.Rhs[0], cur)
		if !define {
			if old, ok := cur[name]; ok {
				bs, v = c.coerceAssign(bs, v, old.sh, s.Rhs[0])
			}
		}
		c.storable(v, s.Rhs[0])
		e, d := bindVar(cur, decl, name, v)
		return wrap(bs, next(e, d))
	case *ast.SelectorExpr:
		p, ok := c.placeOf(l, cur)
		if !ok || define {
			dieAt(s, "assignment to %s", src(l))
		}
		old := mGet(cur, p)
		var want mShape
		for _, f := range cur[p.root].st.fields {
			if f.name == p.field {
				want = f.sh
			}
		}
		bs, v := c.expr(s.Rhs[0], cur)
		bs, v = c.coerceAssign(bs, v, want, s.Rhs[0])
		_ = old
		c.storable(v, s.Rhs[0])
		return wrap(bs, next(mSet(cur, p, v), decl))
	case *ast.IndexExpr: // m[k] = struct{}{}
		p, ok := c.placeOf(l.X, cur)
		if !ok || define {
			dieAt(s, "assignment to %s", src(l))
		}
		m := mGet(cur, p)
		if m.sh != msMarks {
			dieAt(s, "assignment to an element of %s", src(l.X))
		}
		if !m.fresh {
			dieAt(s, "write to the ValueMarks %s, which the caller or a value already holds (aliasing)", src(l.X))
		}
		bs, key := c.expr(l.Index, cur)
		bs, key = c.coerce(bs, key, msKey, l.Index)
		bs2, v := c.expr(s.Rhs[0], cur)
		if v.sh != msUnit {
			dieAt(s, "value %s stored in a ValueMarks", src(s.Rhs[0]))
		}
		if m.nilMap {
			return wrap(append(bs, bs2...), "(Res.panic \"assignment to entry in nil map\")")
		}
		nm := m
		nm.e = "(" + c.t.use("m[k] = struct{}{}", "MarksGo.mapSet") + " " + m.e + " " + key.e + ")"
		return wrap(append(bs, bs2...), next(mSet(cur, p, nm), decl))
	}
	dieAt(s, "assignment to %s", src(s.Lhs[0]))
	return ""
}

func (c *mctx) coerceAssign(bs []bind, v mVal, want mShape, at ast.Node) ([]bind, mVal) {
	if v.sh == want || want == msPoison {
		return bs, v
	}
	if v.sh == msNil || (v.sh == msPathOpt && want == msPath) {
		return c.coerce(bs, v, want, at)
	}
	dieAt(at, "assignment changes how the variable is modelled")
	return nil, mVal{}
}

// storable: what may be bound to a variable or stored in a field
func (c *mctx) storable(v mVal, at ast.Node) {
	switch v.sh {
	case msNil, msPoison:
		dieAt(at, "value %s cannot be stored in a variable", src(at))
	case msMarks:
		if !v.fresh {
			dieAt(at, "the ValueMarks %s, which the caller or a value already holds, is stored (aliasing)", src(at))
		}
	case msStruct:
		for _, f := range v.fields {
			if f.sh == msMarks && !f.fresh && v.st.name != "PathValueMarks" {
				dieAt(at, "a struct holding a ValueMarks that someone else holds is stored (aliasing)")
			}
		}
	}
}

// typeAssert: X.(marker) on a payload, X.(ValueMarks) on a mark argument.  commaOk=false: a failed assertion panics.
func (c *mctx) typeAssert(r *ast.TypeAssertExpr, cur mEnv, vName, okName string, commaOk bool, k func(mEnv, mVal, mVal) string) string {
	if r.Type == nil {
		dieAt(r, "type switch")
	}
	bs, x := c.expr(r.X, cur)
	ty := src(r.Type)
	fail := func(e mEnv) string {
		if !commaOk {
			return "(Res.panic \"interface conversion\")"
		}
		return k(e, mVal{sh: msPoison, why: "zero value after a failed type assertion"}, mConst(false))
	}
	switch {
	case x.sh == msPay && ty == "marker":
		st := c.t.structs["marker"]
		if st == nil || len(st.fields) != 2 || st.fields[0].name != "realV" || st.fields[1].name != "marks" || st.fields[0].sh != msPay || st.fields[1].sh != msMarks {
			dieAt(r, "the struct marker is no longer {realV interface{}; marks ValueMarks}")
		}
		base := vName
		if base == "" {
			base = "mr"
		}
		nm, nr := c.fresh(base+"_marks", "List String"), c.fresh(base+"_realV", "Payload")
		c.t.use("X.(marker)", "match on Payload.marked")
		okArm := k(cur, st.val([]string{nr, nm}, false), mConst(true))
		return wrap(bs, "(match "+x.e+" with\n| Payload.marked "+nm+" "+nr+" =>\n"+indent(okArm)+"\n| _ =>\n"+indent(fail(cur))+")")
	case x.sh == msAny && ty == "ValueMarks":
		id, isId := r.X.(*ast.Ident)
		base := vName
		if base == "" {
			base = "vm"
		}
		ns, nk := c.fresh(base, "List String"), c.fresh("key", "String")
		c.t.use("X.(ValueMarks) on an interface{} argument", "match on MarksGo.MarkArg")
		okArm := k(cur, mVal{sh: msMarks, e: ns}, mConst(true))
		other := cur
		if isId { // the argument is known to be an ordinary mark from here on
			other = cur.with(id.Name, mVal{sh: msKey, e: nk})
		}
		return wrap(bs, "(match "+x.e+" with\n| MarksGo.MarkArg.set "+ns+" =>\n"+indent(okArm)+"\n| MarksGo.MarkArg.one "+nk+" =>\n"+indent(fail(other))+")")
	}
	dieAt(r, "type assertion %s", src(r))
	return ""
}

// ---- loops

func mHasReturn(n ast.Node) bool {
	found := false
	ast.Inspect(n, func(x ast.Node) bool {
		switch x.(type) {
		case *ast.FuncLit:
			return false
		case *ast.ReturnStmt:
			found = true
		}
		return true
	})
	return found
}

func (c *mctx) rangeStmt(s *ast.RangeStmt, cur mEnv, after func(mEnv) string) string {
	if s.Tok != token.DEFINE {
		dieAt(s, "range without :=")
	}
	mNoBranch(s.Body, true)
	xb, x := c.expr(s.X, cur)
	keyName, valName := identName(s.Key), identName(s.Value)
	c.nloops++
	name := fmt.Sprintf("%s_loop%d", c.u.name, c.nloops)

	places := c.mutated(s.Body, cur)
	for _, p := range places {
		if p.String() == src(s.X) {
			dieAt(s, "loop assigns the collection it ranges over")
		}
	}
	inner, stNames, stTypes, stInit := c.rename(places, cur, s)
	body := inner
	var list, elemT, head string
	switch x.sh {
	case msMarks:
		head = c.fresh(keyName, "String")
		if keyName != "" {
			body = body.with(keyName, mVal{sh: msKey, e: head})
		}
		if valName != "" {
			body = body.with(valName, mVal{sh: msUnit, e: "()"})
		}
		c.t.use("for k := range m", "the list "+mOrd+" m (a parameter: any permutation of m)")
		list, elemT = "("+mOrd+" "+x.e+")", "String"
	case msMarksList, msVals, msAnys, msPVMs:
		if keyName != "" {
			dieAt(s.Key, "index variable of a loop over a slice")
		}
		esh, _ := mElem(x.sh)
		switch esh {
		case msStruct:
			st := c.t.structs["PathValueMarks"]
			if st == nil || len(st.fields) != 2 {
				dieAt(s, "the struct PathValueMarks is no longer {Path; Marks}")
			}
			head = c.fresh(valName, "Walk.PVM")
			if valName != "" {
				body = body.with(valName, st.unpack(head, false))
			}
			elemT = "Walk.PVM"
		default:
			head = c.fresh(valName, mLeanType(esh))
			if valName != "" {
				body = body.with(valName, mVal{sh: esh, e: head})
			}
			elemT = mLeanType(esh)
		}
		list = x.e
	default:
		dieAt(s.X, "range over %s", src(s.X))
	}
	rest := c.fresh("rest", "List "+elemT)
	hasRet := mHasReturn(s.Body)
	stT := mTupleType(stTypes)
	stPat := mTuple(stNames)
	if len(stNames) == 0 {
		stPat = "_"
	}
	retT := "Res " + atomType(stT)
	okNext := func(st string) string { return "(Res.ok " + st + ")" }
	if hasRet {
		retT = "Res (MarksGo.Flow " + atomType(c.retType()) + " " + atomType(stT) + ")"
		okNext = func(st string) string { return "(Res.ok (MarksGo.Flow.next " + st + "))" }
	}
	// the body: its end and `continue` hand the state on, `return` leaves the loop
	savedRetf, savedCont := c.retf, c.cont
	if hasRet {
		c.retf = func(packed string) string { return "(Res.ok (MarksGo.Flow.ret " + packed + "))" }
	}
	endBody := func(e mEnv) string { return okNext(mTuple(c.stateExprs(places, e))) }
	c.cont = endBody
	stepT := c.block(s.Body.List, body, endBody)
	c.retf, c.cont = savedRetf, savedCont

	hole := "«" + name + "»"
	var stepFull string
	nst := make([]string, len(stNames))
	for i, n := range stNames {
		nst[i] = c.fresh(n, c.ltype[n])
	}
	nstPat := mTuple(nst)
	if len(nst) == 0 {
		nstPat = "_"
	}
	nstArg := mTuple(nst)
	if hasRet {
		r := c.fresh("r", c.retType())
		stepFull = "(Res.bind " + stepT + " fun\n  | MarksGo.Flow.ret " + r + " => (Res.ok (MarksGo.Flow.ret " + r + "))\n  | MarksGo.Flow.next " + nstPat + " => (" + hole + " " + nstArg + " " + rest + "))"
	} else {
		stepFull = "(Res.bind " + stepT + " fun " + nstPat + " =>\n(" + hole + " " + nstArg + " " + rest + "))"
	}
	capDecl, capNames := c.captures(stepFull, cur, append(append([]string{}, stNames...), nst...))
	hd, hc := c.helperHead(stepFull)
	full := strings.Join(strings.Fields(name+" "+hc+" "+strings.Join(capNames, " ")), " ")
	stepFull = strings.ReplaceAll(stepFull, hole, full)
	c.t.out = append(c.t.out, fmt.Sprintf("/-- the `for %s := range %s` loop of `%s`: the assigned variables (%s) after it%s -/\ndef %s %s%s : %s → List %s → %s\n  | %s, [] => %s\n  | %s, %s :: %s =>\n%s\n",
		rangeVars(s), src(s.X), c.u.key, strings.Join(mapStr(placesStr(places), func(s string) string { return s }), ", "),
		map[bool]string{true: ", or the value the body returned", false: ""}[hasRet],
		name, hd, strings.TrimSuffix(" "+strings.Join(capDecl, " "), " "), atomType(stT), atomType(elemT), retT,
		stPat, okNext(mTuple(stNames)), stPat, head, rest, indent(indent(stepFull))))
	// the call, and what follows the loop
	outNames := make([]string, len(stNames))
	afterEnv := cur
	for i, p := range places {
		outNames[i] = c.fresh(stNames[i], c.ltype[stNames[i]])
		nv := mGet(inner, p)
		nv.e = outNames[i]
		afterEnv = mSet(afterEnv, p, nv)
	}
	outPat := mTuple(outNames)
	if len(outNames) == 0 {
		outPat = "_"
	}
	callT := "(" + full + " " + mTuple(stInit) + " " + list + ")"
	if hasRet {
		r := c.fresh("r", c.retType())
		return wrap(xb, "(Res.bind "+callT+" fun\n  | MarksGo.Flow.ret "+r+" => "+c.retf(r)+"\n  | MarksGo.Flow.next "+outPat+" =>\n"+indent(after(afterEnv))+")")
	}
	return wrap(xb, "(Res.bind "+callT+" fun "+outPat+" =>\n"+after(afterEnv)+")")
}

func placesStr(ps []mPlace) []string {
	var out []string
	for _, p := range ps {
		out = append(out, p.String())
	}
	if len(out) == 0 {
		out = []string{"none"}
	}
	return out
}

// ---- calls used as statements

func (c *mctx) callStmt(call *ast.CallExpr, cur mEnv, next func(mEnv) string) string {
	if id, ok := call.Fun.(*ast.Ident); ok {
		switch id.Name {
		case "panic":
			msg := "panic"
			if len(call.Args) == 1 {
				if bl, ok := call.Args[0].(*ast.BasicLit); ok && bl.Kind == token.STRING {
					msg, _ = strconv.Unquote(bl.Value)
				}
			}
			return "(Res.panic " + leanStr(msg) + ")"
		case "copy":
			if len(call.Args) != 2 {
				break
			}
			p, ok := c.placeOf(call.Args[0], cur)
			dst := mGet(cur, p)
			bs, srcV := c.expr(call.Args[1], cur)
			if !ok || dst.sh != msPathOpt || srcV.sh != msPath {
				dieAt(call, "copy(%s, %s)", src(call.Args[0]), src(call.Args[1]))
			}
			return wrap(bs, next(mSet(cur, p, mVal{sh: msPathOpt, e: "(" + c.t.use("copy(dst, src) on Paths", "PathGo.sliceCopy") + " " + dst.e + " " + srcV.e + ")"})))
		case "Walk":
			return c.walkCall(call, cur, next)
		}
	}
	bs, vs := c.callMulti(call, cur)
	if len(vs) != 0 {
		dieAt(call, "the result of %s is dropped", src(call))
	}
	return wrap(bs, next(cur))
}

// Walk(val, func(p Path, v Value) (bool, error) { … })
func (c *mctx) walkCall(call *ast.CallExpr, cur mEnv, next func(mEnv) string) string {
	if len(call.Args) != 2 {
		dieAt(call, "call %s", src(call))
	}
	bs, val := c.expr(call.Args[0], cur)
	fl, ok := call.Args[1].(*ast.FuncLit)
	if !ok || val.sh != msVal {
		dieAt(call, "Walk with anything but a value and a function literal")
	}
	var pnames []string
	var ptypes []string
	for _, f := range fl.Type.Params.List {
		for _, n := range f.Names {
			pnames, ptypes = append(pnames, n.Name), append(ptypes, src(f.Type))
		}
	}
	if len(pnames) != 2 || ptypes[0] != "Path" || ptypes[1] != "Value" || fl.Type.Results == nil || len(fl.Type.Results.List) != 2 ||
		src(fl.Type.Results.List[0].Type) != "bool" || src(fl.Type.Results.List[1].Type) != "error" {
		dieAt(fl, "the callback of Walk is not a func(Path, Value) (bool, error)")
	}
	mNoBranch(fl.Body, false)
	places := c.mutated(fl.Body, cur)
	if len(places) > 1 {
		dieAt(fl, "a function literal that assigns more than one captured variable")
	}
	inner, stNames, stTypes, stInit := c.rename(places, cur, fl)
	if len(places) == 0 {
		stNames, stTypes, stInit = []string{c.fresh("st", "Unit")}, []string{"Unit"}, []string{"()"}
	}
	body := inner
	pn, vn := c.fresh(strings.Trim(pnames[0], "_")+"", "List PathStep"), c.fresh(pnames[1], "Value")
	if pnames[0] != "_" {
		body = body.with(pnames[0], mVal{sh: msPath, e: pn})
	}
	if pnames[1] != "_" {
		body = body.with(pnames[1], mVal{sh: msVal, e: vn})
	}
	c.nfuncs++
	name := fmt.Sprintf("%s_func%d", c.u.name, c.nfuncs)
	sub := *c
	sub.results, sub.resultSt, sub.hasErr, sub.recvName, sub.cont = []mShape{msBool}, []*mStructT{nil}, true, "", nil
	sub.stateOf = func(e mEnv) string {
		if len(places) == 0 {
			return stNames[0]
		}
		return mGet(e, places[0]).e
	}
	sub.retf = func(packed string) string { return "(Res.ok " + packed + ")" }
	text := sub.block(fl.Body.List, body, func(e mEnv) string {
		dieAt(fl.Body, "control reaches the end of a function literal with a result")
		return ""
	})
	c.ltype, c.order, c.nloops = sub.ltype, sub.order, sub.nloops
	capDecl, capNames := c.captures(text, cur, []string{stNames[0], pn, vn})
	hd, hc := c.helperHead(text)
	c.t.out = append(c.t.out, fmt.Sprintf("/-- the function literal handed to `Walk` in `%s`, as a state transformer over the captured variable it assigns (%s): the variable after the call, then the result -/\ndef %s %s%s (%s : %s) (%s : List PathStep) (%s : Value) : Res (%s × Bool) :=\n%s\n",
		c.u.key, placesStr(places)[0], name, hd, strings.TrimSuffix(" "+strings.Join(capDecl, " "), " "), stNames[0], stTypes[0], pn, vn, atomType(stTypes[0]), indent(text)))
	out := c.fresh(stNames[0], stTypes[0])
	after := cur
	if len(places) == 1 {
		nv := mGet(inner, places[0])
		nv.e = out
		after = mSet(cur, places[0], nv)
	}
	c.t.use("Walk(val, func literal)", "MarksGo.walk "+mX+" (the hand-written Walk.walk; the literal's captured variable is replayed from the history)")
	head := strings.Join(strings.Fields(name+" "+hc+" "+strings.Join(capNames, " ")), " ")
	return wrap(bs, "(Res.bind (MarksGo.walk "+mX+" ("+head+") "+stInit[0]+" "+val.e+") fun ("+out+", _) =>\n"+next(after)+")")
}

// ret, _ := TransformWithTransformer(val, &t)
func (c *mctx) transformCall(call *ast.CallExpr, cur mEnv, retName string, errLhs ast.Expr, k func(mEnv, mVal) string) string {
	if identName(errLhs) != "" {
		dieAt(errLhs, "the error of TransformWithTransformer is kept")
	}
	if len(call.Args) != 2 {
		dieAt(call, "call %s", src(call))
	}
	bs, val := c.expr(call.Args[0], cur)
	ue, ok := call.Args[1].(*ast.UnaryExpr)
	if !ok || ue.Op != token.AND || val.sh != msVal {
		dieAt(call, "TransformWithTransformer with anything but a value and a pointer to a transformer struct")
	}
	var tv mVal
	var place *mPlace
	switch x := ue.X.(type) {
	case *ast.Ident:
		p, ok := c.placeOf(x, cur)
		if !ok {
			dieAt(x, "identifier %s", x.Name)
		}
		tv, place = cur[x.Name], &p
	case *ast.CompositeLit:
		var b2 []bind
		b2, tv = c.expr(x, cur)
		bs = append(bs, b2...)
	default:
		dieAt(ue, "transformer argument %s", src(ue))
	}
	if tv.sh != msStruct || len(tv.st.fields) != 1 {
		dieAt(ue, "the transformer is not a struct with exactly one field")
	}
	enter, exit := c.t.ensure(tv.st.name+".Enter", call), c.t.ensure(tv.st.name+".Exit", call)
	for _, u := range []*mUnit{enter, exit} {
		if !u.ptr || len(u.goParams) != 2 || u.goParams[0].sh != msPath || u.goParams[1].sh != msVal || len(u.results) != 1 || u.results[0] != msVal || !u.hasErr {
			dieAt(call, "%s is not a pointer-receiver method func(Path, Value) (Value, error)", u.key)
		}
	}
	sT := mLeanType(tv.st.fields[0].sh)
	st := c.fresh(tv.st.fields[0].name, sT)
	rn := c.fresh(retName, "Value")
	c.t.use("TransformWithTransformer(val, &t)", "MarksGo.transformWithTransformer "+mX+" "+mSched+" (the hand-written Walk.transformWith; the fields of t are replayed from the history)")
	after := cur
	if place != nil {
		after = mSet(cur, mPlace{place.root, tv.st.fields[0].name}, mVal{sh: tv.st.fields[0].sh, e: st})
	}
	return wrap(bs, "(Res.bind (MarksGo.transformWithTransformer "+mX+" "+mSched+" (⟨"+c.head(enter)+", "+c.head(exit)+"⟩ : MarksGo.GoTransformer "+atomType(sT)+") "+
		c.pack(tv, ue)+" "+val.e+") fun ("+st+", "+rn+", _) =>\n"+k(after, mVal{sh: msVal, e: rn})+")")
}

// ---------------------------------------------------------------- expressions

func (c *mctx) expr(e ast.Expr, en mEnv) ([]bind, mVal) {
	switch x := e.(type) {
	case *ast.ParenExpr:
		return c.expr(x.X, en)
	case *ast.Ident:
		switch x.Name {
		case "true":
			return nil, mConst(true)
		case "false":
			return nil, mConst(false)
		case "nil":
			return nil, mVal{sh: msNil}
		case "_":
			dieAt(x, "blank identifier as a value")
		}
		if v, ok := en[x.Name]; ok {
			if v.sh == msPoison {
				dieAt(x, "use of %s: %s", x.Name, v.why)
			}
			return nil, v
		}
		dieAt(x, "identifier %s", x.Name)
	case *ast.BasicLit:
		if x.Kind == token.INT {
			if n, err := strconv.ParseUint(x.Value, 0, 62); err == nil {
				return nil, mVal{sh: msInt, e: fmt.Sprintf("(%d : Int)", n)}
			}
		}
		dieAt(x, "literal %s", x.Value)
	case *ast.SelectorExpr:
		bs, v := c.expr(x.X, en)
		switch v.sh {
		case msStruct:
			if f, ok := v.fields[x.Sel.Name]; ok {
				if f.sh == msPoison {
					dieAt(x, "use of %s: %s", src(x), f.why)
				}
				return bs, f
			}
		case msVal:
			switch x.Sel.Name {
			case "ty":
				return bs, mVal{sh: msTy, e: "(Value.ty " + v.e + ")"}
			case "v":
				return bs, mVal{sh: msPay, e: "(Value.v " + v.e + ")"}
			}
		}
		dieAt(x, "selector %s", src(x))
	case *ast.UnaryExpr:
		bs, v := c.expr(x.X, en)
		if x.Op == token.NOT && v.sh == msBool {
			switch v.konst {
			case 1:
				return bs, mConst(false)
			case 2:
				return bs, mConst(true)
			}
			return bs, mBool("(!" + v.e + ")")
		}
		dieAt(x, "operator %s on %s", x.Op, src(x.X))
	case *ast.BinaryExpr:
		return c.binary(x, en)
	case *ast.CompositeLit:
		return c.composite(x, en)
	case *ast.CallExpr:
		bs, vs := c.callMulti(x, en)
		if len(vs) != 1 {
			dieAt(x, "call %s used as a single value", src(x))
		}
		return bs, vs[0]
	}
	dieAt(e, "expression %s (%s)", src(e), strings.TrimPrefix(fmt.Sprintf("%T", e), "*ast."))
	return nil, mVal{}
}

func (c *mctx) composite(cl *ast.CompositeLit, en mEnv) ([]bind, mVal) {
	ts := src(cl.Type)
	if ts == "struct{}" && len(cl.Elts) == 0 {
		return nil, mVal{sh: msUnit, e: "()"}
	}
	type fv struct {
		name string
		e    ast.Expr
	}
	var given []fv
	var fields []mField
	if ts == "Value" {
		fields = []mField{{"ty", msTy}, {"v", msPay}}
	} else if st := c.t.structs[ts]; st != nil {
		fields = st.fields
	} else {
		dieAt(cl, "composite literal of type %s", ts)
	}
	for i, el := range cl.Elts {
		if kv, ok := el.(*ast.KeyValueExpr); ok {
			given = append(given, fv{identName(kv.Key), kv.Value})
		} else {
			if len(cl.Elts) != len(fields) {
				dieAt(cl, "positional composite literal with %d of %d fields", len(cl.Elts), len(fields))
			}
			given = append(given, fv{fields[i].name, el})
		}
	}
	var bs []bind
	vals := map[string]mVal{}
	for _, g := range given {
		var want mShape
		found := false
		for _, f := range fields {
			if f.name == g.name {
				want, found = f.sh, true
			}
		}
		if !found {
			dieAt(g.e, "field %s of %s", g.name, ts)
		}
		if _, dup := vals[g.name]; dup {
			dieAt(g.e, "field %s given twice", g.name)
		}
		b, v := c.expr(g.e, en)
		b, v = c.coerce(b, v, want, g.e)
		if v.sh == msMarks && !v.fresh {
			dieAt(g.e, "the ValueMarks %s, which the caller or a value already holds, is stored in a struct (aliasing)", src(g.e))
		}
		bs = append(bs, b...)
		vals[g.name] = v
	}
	if ts == "Value" {
		ty, ok1 := vals["ty"]
		v, ok2 := vals["v"]
		if !ok1 || !ok2 {
			dieAt(cl, "Value literal without ty or v")
		}
		return bs, mVal{sh: msVal, e: "(⟨" + ty.e + ", " + v.e + "⟩ : Value)"}
	}
	st := c.t.structs[ts]
	out := mVal{sh: msStruct, st: st, fields: map[string]mVal{}}
	for _, f := range st.fields {
		if v, ok := vals[f.name]; ok {
			out.fields[f.name] = v
		} else {
			out.fields[f.name] = c.zero(f.sh, nil, cl)
		}
	}
	return bs, out
}

func (c *mctx) binary(x *ast.BinaryExpr, en mEnv) ([]bind, mVal) {
	lb, l := c.expr(x.X, en)
	if (x.Op == token.LAND && l.konst == 2) || (x.Op == token.LOR && l.konst == 1) {
		return lb, l
	}
	rb, r := c.expr(x.Y, en)
	bs := append(lb, rb...)
	switch x.Op {
	case token.LAND, token.LOR:
		if l.sh != msBool || r.sh != msBool {
			break
		}
		if len(rb) > 0 {
			dieAt(x, "the right operand of %s calls a function", x.Op)
		}
		if l.konst != 0 {
			return bs, r
		}
		if x.Op == token.LAND {
			return bs, mBool("(" + l.e + " && " + r.e + ")")
		}
		return bs, mBool("(" + l.e + " || " + r.e + ")")
	case token.EQL, token.NEQ:
		eq := x.Op == token.EQL
		if l.sh == msBool && r.sh == msBool && l.konst != 0 && r.konst != 0 {
			return bs, mConst((l.konst == r.konst) == eq)
		}
		if l.sh == r.sh && (l.sh == msBool || l.sh == msInt) {
			if eq {
				return bs, mBool("(" + l.e + " == " + r.e + ")")
			}
			return bs, mBool("(" + l.e + " != " + r.e + ")")
		}
	case token.LSS, token.LEQ, token.GTR, token.GEQ:
		if l.sh == msInt && r.sh == msInt {
			return bs, mBool("(decide (" + l.e + " " + x.Op.String() + " " + r.e + "))")
		}
	case token.ADD:
		if l.sh == msInt && r.sh == msInt {
			return bs, mVal{sh: msInt, e: "(" + l.e + " + " + r.e + ")"}
		}
	}
	dieAt(x, "operator %s in %s", x.Op, src(x))
	return nil, mVal{}
}

// callMulti translates a call; it returns the callee's results (none, one or two)
func (c *mctx) callMulti(call *ast.CallExpr, en mEnv) ([]bind, []mVal) {
	if call.Ellipsis.IsValid() {
		dieAt(call, "call with …")
	}
	one := func(bs []bind, v mVal) ([]bind, []mVal) { return bs, []mVal{v} }
	switch f := call.Fun.(type) {
	case *ast.Ident:
		if _, local := en[f.Name]; local {
			dieAt(call, "call of a local value")
		}
		switch f.Name {
		case "len":
			if len(call.Args) != 1 {
				break
			}
			bs, a := c.expr(call.Args[0], en)
			switch a.sh {
			case msMarks:
				return one(bs, mVal{sh: msInt, e: "(" + c.t.use("len(m)", "MarksGo.mapLen") + " " + a.e + ")"})
			case msMarksList, msVals, msAnys, msPVMs, msPath, msPathOpt:
				return one(bs, mVal{sh: msInt, e: "(Int.ofNat (List.length " + a.e + "))"})
			}
			dieAt(call, "len of %s", src(call.Args[0]))
		case "make":
			if len(call.Args) == 0 || len(call.Args) > 3 {
				break
			}
			var bs []bind
			var sizes []string
			for _, a := range call.Args[1:] {
				b, n := c.expr(a, en)
				if n.sh != msInt {
					dieAt(a, "size %s", src(a))
				}
				bs, sizes = append(bs, b...), append(sizes, n.e)
			}
			switch ts := src(call.Args[0]); {
			case ts == "ValueMarks" && len(sizes) <= 1:
				return one(bs, mVal{sh: msMarks, e: c.t.use("make(ValueMarks[, n])", "MarksGo.mapEmpty"), fresh: true})
			case ts == "Path" && len(sizes) == 2:
				n := c.fresh("path", mLeanType(msPathOpt))
				return one(append(bs, bind{n, "(" + c.t.use("make(Path, n, c)", "MarksGo.pathMake") + " " + sizes[0] + " " + sizes[1] + ")"}), mVal{sh: msPathOpt, e: n})
			case ts == "Path" && len(sizes) == 1:
				n := c.fresh("path", mLeanType(msPathOpt))
				return one(append(bs, bind{n, "(" + c.t.use("make(Path, n)", "PathGo.sliceMake") + " " + sizes[0] + ")"}), mVal{sh: msPathOpt, e: n})
			}
			dieAt(call, "make(%s)", src(call.Args[0]))
		case "append":
			if len(call.Args) != 2 {
				break
			}
			bs, a := c.expr(call.Args[0], en)
			b2, x := c.expr(call.Args[1], en)
			if a.sh == msPVMs && x.sh == msStruct && x.st.name == "PathValueMarks" {
				return one(append(bs, b2...), mVal{sh: msPVMs, e: "(" + a.e + " ++ [" + c.pack(x, call.Args[1]) + "])"})
			}
			dieAt(call, "append(%s, %s)", src(call.Args[0]), src(call.Args[1]))
		case "TransformWithTransformer", "Walk", "copy", "panic":
			dieAt(call, "%s used as a value", f.Name)
		}
		return c.callUnit(f.Name, nil, nil, call, en)
	case *ast.SelectorExpr:
		rb, r := c.expr(f.X, en)
		switch r.sh {
		case msVal:
			return c.callUnit("Value."+f.Sel.Name, rb, &r, call, en)
		case msMarks:
			return c.callUnit("ValueMarks."+f.Sel.Name, rb, &r, call, en)
		case msStruct:
			return c.callUnit(r.st.name+"."+f.Sel.Name, rb, &r, call, en)
		case msPath:
			if lean, ok := marksPathPrims[f.Sel.Name]; ok && len(call.Args) == 1 {
				ab, a := c.expr(call.Args[0], en)
				if a.sh != msPath {
					dieAt(call, "argument %s", src(call.Args[0]))
				}
				c.t.use("Path."+f.Sel.Name, lean)
				n := c.fresh("eq", "Bool")
				return one(append(append(rb, ab...), bind{n, "(" + lean + " " + r.e + " " + a.e + ")"}), mBool(n))
			}
		}
		dieAt(call, "method call %s", src(call))
	}
	dieAt(call, "call %s", src(call))
	return nil, nil
}

func (c *mctx) callUnit(key string, rb []bind, recv *mVal, call *ast.CallExpr, en mEnv) ([]bind, []mVal) {
	u := c.t.ensure(key, call)
	if u.hasRecv != (recv != nil) || u.ptr {
		dieAt(call, "call %s", src(call))
	}
	bs := rb
	var args []string
	if recv != nil {
		if recv.sh == msStruct {
			for _, f := range recv.st.fields {
				args = append(args, recv.fields[f.name].e)
			}
		} else {
			args = append(args, recv.e)
		}
	}
	variadic := len(u.goParams) > 0 && func() bool { _, ok := mElem(u.goParams[len(u.goParams)-1].sh); return ok }() &&
		func() bool {
			fd := c.t.funcs[key]
			l := fd.Type.Params.List
			_, ok := l[len(l)-1].Type.(*ast.Ellipsis)
			return ok
		}()
	nfix := len(u.goParams)
	if variadic {
		nfix--
	}
	if len(call.Args) < nfix || (!variadic && len(call.Args) != nfix) {
		dieAt(call, "call %s", src(call))
	}
	for i := 0; i < nfix; i++ {
		b, av := c.expr(call.Args[i], en)
		b, av = c.coerce(b, av, u.goParams[i].sh, call.Args[i])
		bs = append(bs, b...)
		if av.sh == msStruct {
			for _, f := range av.st.fields {
				args = append(args, av.fields[f.name].e)
			}
		} else {
			args = append(args, av.e)
		}
	}
	if variadic {
		esh, _ := mElem(u.goParams[nfix].sh)
		var es []string
		for _, a := range call.Args[nfix:] {
			b, av := c.expr(a, en)
			b, av = c.coerce(b, av, esh, a)
			bs = append(bs, b...)
			es = append(es, av.e)
		}
		args = append(args, "(["+strings.Join(es, ", ")+"] : "+mLeanType(u.goParams[nfix].sh)+")")
	}
	callT := "(" + c.head(u) + " " + strings.Join(args, " ") + ")"
	var names []string
	var vals []mVal
	for i, sh := range u.results {
		switch sh {
		case msStruct:
			dieAt(call, "call of %s, which returns a struct", key)
		default:
			n := c.fresh("x", mLeanType(sh))
			names = append(names, n)
			vals = append(vals, mVal{sh: sh, e: n, fresh: sh == msMarks})
		}
		_ = i
	}
	pat := mTuple(names)
	if len(names) == 0 {
		pat = "_"
	} else if len(names) > 1 {
		pat = "(" + strings.Join(names, ", ") + ")"
	}
	return append(bs, bind{pat, callT}), vals
}

// ---------------------------------------------------------------- entry

func translateMarksFns(repo, leanDir, hdr string) int {
	t := &mtr{funcs: map[string]*ast.FuncDecl{}, structs: map[string]*mStructT{}, units: map[string]*mUnit{}, api: map[string]string{}}
	files := parseDir(filepath.Join(repo, "cty"))
	var marksFile *ast.File
	for _, f := range files {
		if filepath.Base(fset.Position(f.Pos()).Filename) == "marks.go" {
			marksFile = f
		}
	}
	if marksFile == nil {
		die("translate_marks: cty/marks.go not found")
	}
	t.readStructs([]*ast.File{marksFile})
	var roots []string
	for _, d := range marksFile.Decls {
		fd, ok := d.(*ast.FuncDecl)
		if !ok {
			continue
		}
		if fd.Body == nil {
			dieAt(fd, "function without a body")
		}
		if fd.Type.TypeParams != nil {
			dieAt(fd, "generic function")
		}
		key := fd.Name.Name
		if fd.Recv != nil {
			key = strings.TrimPrefix(src(fd.Recv.List[0].Type), "*") + "." + key
		}
		if t.funcs[key] != nil {
			dieAt(fd, "%s declared twice", key)
		}
		t.funcs[key] = fd
		if _, skip := marksSkip[key]; !skip {
			roots = append(roots, key)
		}
	}
	for k := range marksSkip {
		if t.funcs[k] == nil {
			die("translate_marks: %s (listed as not translated) is no longer in cty/marks.go", k)
		}
	}
	for _, r := range roots {
		t.ensure(r, t.funcs[r])
	}
	var b strings.Builder
	b.WriteString(hdr)
	b.WriteString("-- Translation of the marks API of cty/marks.go (extract/translate_marks.go); tied to the hand-written marks model\n")
	b.WriteString("-- (CtyModel/Marks.lean, MarksOps.lean, Walk.lean) by CtyModel/Lemmas/MarksFnsTie.lean.\n--\n")
	b.WriteString("-- TRANSLATED from the source text, statement by statement (a Go panic is `Res.panic`; a `(T, error)` result is `Res T` and\n")
	b.WriteString("-- only a nil error is accepted; a loop is a structurally recursive helper returning the variables its body assigns; a\n")
	b.WriteString("-- pointer-receiver method returns the receiver's fields after the call next to its result; `" + mOrd + "` is the order in which\n")
	b.WriteString("-- `range` visits a ValueMarks, `" + mX + "`/`" + mSched + "` are what the hand-written walk model is told about set iteration and\n-- attribute order):\n")
	for _, d := range t.done {
		b.WriteString("--   " + d + "\n")
	}
	var skipped []string
	for k, why := range marksSkip {
		skipped = append(skipped, k+" ("+why+")")
	}
	sort.Strings(skipped)
	b.WriteString("-- NOT translated: " + strings.Join(skipped, "; ") + ".\n")
	b.WriteString("-- Aliasing is not modelled and therefore refused: a ValueMarks held by the caller or by a value may be read and passed on,\n")
	b.WriteString("-- never stored, returned or written to (the C20 heap model is where aliasing lives).\n")
	b.WriteString("-- GIVEN API (CtyModel/MarksGo.lean and the hand-written Walk / Path model), assumed to be what the code does:\n")
	b.WriteString("-- Value ↦ Value (ty, v), interface{} payload ↦ Payload, marker{realV, marks} in a payload ↦ Payload.marked marks realV,\n")
	b.WriteString("-- ValueMarks ↦ List String (duplicate-free, read up to order), an interface{} mark argument ↦ MarksGo.MarkArg,\n")
	b.WriteString("-- Path ↦ List PathStep, PathValueMarks ↦ Walk.PVM (path × marks), int ↦ Int; the value passed to panic is not evaluated; and\n")
	var keys []string
	for k := range t.api {
		keys = append(keys, k)
	}
	sort.Strings(keys)
	for _, k := range keys {
		b.WriteString("--   " + k + " ↦ " + t.api[k] + "\n")
	}
	b.WriteString("import CtyModel.MarksGo\nset_option linter.unusedVariables false\nnamespace CtyModel.Generated.MarksFns\n\n")
	b.WriteString(strings.Join(t.out, "\n"))
	b.WriteString("\nend CtyModel.Generated.MarksFns\n")
	writeIfChanged(filepath.Join(leanDir, "MarksFns.lean"), b.String())
	return len(t.out)
}
