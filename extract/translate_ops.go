// Go→Lean translator for the boolean, arithmetic and ordering methods of cty/value_ops.go (properties C02, C01,
// C04): Value.Not, And, Or, Negate, Absolute, Add, Subtract, Multiply, Divide, Modulo, LessThan, GreaterThan,
// LessThanOrEqualTo, GreaterThanOrEqualTo, and the helpers typeCheck / mustTypeCheck / forceShortCircuitType of helper.go.
// It writes lean/CtyModel/Generated/OpsFns.lean; Lemmas/OpsFnsTie.lean proves every generated definition equal to
// the hand-written transliteration (CtyModel/Ops.lean, Ops2.lean), so the C02 theorems are re-checked against
// what the source says on every run.
//
// Like translate.go this is a SYNTACTIC FRAGMENT, not Go semantics; anything else is an error with the source
// position (exit 1 = broken tie):
//
//	statements   x := e | x = e | a, b := <call answering a pair> (either side may be _) | { … }
//	             if [init;] c {…} [else …]   (an `if` whose branches only assign is an if-EXPRESSION per variable)
//	             return e | return e1, e2 | panic(e) | z.M(…) for a *big.Float z made fresh in this body (M writes z)
//	             for i, v := range <...Value parameter> {…}  (a structurally recursive helper; `continue` allowed;
//	             no break, labels or nesting; the index may only occur in error texts) | _, ok := v.v.(*unknownType)
//	expressions  identifiers, nil, true/false, integer literals, the package-level values True False Zero
//	             PositiveInfinity NegativeInfinity DynamicVal and types Bool Number String DynamicPseudoType,
//	             !, &&, ||, ==/!= (pointer or error against nil, Value against True/False, Type against a named type),
//	             <, >, <=, >= on integers, *p, &x, p.ty, v.v.(bool), v.v.(*big.Float), new(big.Float), &big.Float{},
//	             fmt.Errorf(format, …) (read as the constant head of the format; arguments not evaluated),
//	             calls of the translated methods (also on each other: a strongly connected group shares one fuel),
//	             calls of the GIVEN API (tables below; defined in lean/CtyModel/OpsGo.lean)
//
// Every translated function answers `Res` (`Res.panic` = Go panic).  Statement lists are translated in
// continuation-passing style.  The methods recurse (marks prologue: on the unmarked operands; LessThan/GreaterThan:
// on range bounds), not structurally, so each recursive group takes a fuel argument and the wrapper supplies
// `opsFuel`; the tie theorems show it always suffices.
package main

import (
	"fmt"
	"go/ast"
	"go/token"
	"path/filepath"
	"sort"
	"strconv"
	"strings"
)

// ---------------------------------------------------------------- configuration

// functions to translate (file → keys); everything else they call must be in the given API
var opRoots = []string{
	"typeCheck", "mustTypeCheck", "forceShortCircuitType",
	"Value.Not", "Value.And", "Value.Or",
	"Value.Negate", "Value.Absolute", "Value.Add", "Value.Subtract", "Value.Multiply", "Value.Divide", "Value.Modulo",
	"Value.LessThan", "Value.GreaterThan", "Value.LessThanOrEqualTo", "Value.GreaterThanOrEqualTo",
}

const opsFuel = 4

type oShape int

const (
	oVal oShape = iota
	oBool
	oTy
	oMarks
	oPtr   // *Value
	oErr   // error
	oFloat // *big.Float
	oNat   // uint (precision) / untyped non-negative literal
	oInt   // int (result of Cmp)
	oBigInt
	oRange
	oBuilder
	oRefiner
	oMethod // a method expression Value.M passed as a function value
	oVals   // ...Value
	oNil
	oUnit  // a result that is not used (accuracy)
	oIndex // the index variable of a range loop: only error texts mention it, and they are not evaluated
)

func oLeanType(sh oShape) string {
	switch sh {
	case oVal:
		return "Value"
	case oBool:
		return "Bool"
	case oTy:
		return "Ty"
	case oMarks:
		return "List String"
	case oPtr:
		return "Option Value"
	case oErr:
		return "Option String"
	case oFloat:
		return "Num"
	case oNat:
		return "Nat"
	case oInt, oBigInt:
		return "Int"
	case oRange:
		return "Value.VRange"
	case oBuilder:
		return "OpsGo.Builder"
	case oRefiner:
		return "OpsGo.Refiner"
	case oVals:
		return "List Value"
	case oUnit:
		return "Unit"
	}
	panic("oLeanType")
}

func oGoTypeShape(n ast.Node, s string) oShape {
	switch s {
	case "Value":
		return oVal
	case "bool":
		return oBool
	case "Type":
		return oTy
	case "*Value":
		return oPtr
	case "...Value":
		return oVals
	case "error":
		return oErr
	}
	dieAt(n, "type %s", s)
	return 0
}

type opVal struct {
	sh    oShape
	e     string
	konst int    // oBool: 1 = known true, 2 = known false
	fresh bool   // oFloat: made by new(big.Float) in this body (may be written)
	named string // a package-level value (True, Zero, …) or type
	lit   bool   // an untyped integer literal
}

// package-level values and types of package cty
var opNamed = map[string]opVal{
	"True":              {sh: oVal, e: "(Value.boolVal true)", named: "True"},
	"False":             {sh: oVal, e: "(Value.boolVal false)", named: "False"},
	"Zero":              {sh: oVal, e: "Value.zeroVal", named: "Zero"},
	"PositiveInfinity":  {sh: oVal, e: "Value.posInf", named: "PositiveInfinity"},
	"NegativeInfinity":  {sh: oVal, e: "Value.negInf", named: "NegativeInfinity"},
	"DynamicVal":        {sh: oVal, e: "Value.dynVal", named: "DynamicVal"},
	"Bool":              {sh: oTy, e: "Ty.bool", named: "Bool"},
	"Number":            {sh: oTy, e: "Ty.number", named: "Number"},
	"String":            {sh: oTy, e: "Ty.string", named: "String"},
	"DynamicPseudoType": {sh: oTy, e: "Ty.dyn", named: "DynamicPseudoType"},
}

// `t == <named type>` (interface comparison with a comparable dynamic value)
var opTyEq = map[string]string{"Bool": "Ty.isBool", "Number": "Ty.isNumber", "String": "Ty.isString", "DynamicPseudoType": "Ty.isDyn"}

// `v.RawEquals(<named value>)`
var opRawEq = map[string]string{"Zero": "OpsGo.rawEqualsZero", "PositiveInfinity": "OpsGo.rawEqualsPosInf", "NegativeInfinity": "OpsGo.rawEqualsNegInf"}

// the GIVEN API (lean/CtyModel/OpsGo.lean)
type opPrim struct {
	lean string
	args []oShape
	ret  []oShape // two entries: a pair
	res  bool     // answers Res
}

var opValueMethods = map[string]opPrim{
	"IsMarked":      {"OpsGo.isMarked", nil, []oShape{oBool}, false},
	"IsKnown":       {"OpsGo.isKnown", nil, []oShape{oBool}, false},
	"Type":          {"Value.ty", nil, []oShape{oTy}, false},
	"Unmark":        {"OpsGo.unmark", nil, []oShape{oVal, oMarks}, true},
	"True":          {"OpsGo.isTrue", nil, []oShape{oBool}, true},
	"False":         {"OpsGo.isFalse", nil, []oShape{oBool}, true},
	"Equals":        {"OpsGo.equals", []oShape{oVal}, []oShape{oVal}, true},
	"RefineNotNull": {"OpsGo.refineNotNull", nil, []oShape{oVal}, true},
	"RefineWith":    {"OpsGo.refineWith", []oShape{oRefiner}, []oShape{oVal}, true},
	"Refine":        {"OpsGo.refine", nil, []oShape{oBuilder}, true},
	"Range":         {"OpsGo.range", nil, []oShape{oRange}, true},
}

var opBuilderMethods = map[string]opPrim{
	"NotNull":              {"OpsGo.Builder.notNull'", nil, []oShape{oBuilder}, true},
	"NumberRangeInclusive": {"OpsGo.Builder.numberRangeInclusive", []oShape{oVal, oVal}, []oShape{oBuilder}, true},
	"NewValue":             {"OpsGo.Builder.newValue", nil, []oShape{oVal}, true},
}

var opRangeMethods = map[string]opPrim{
	"TypeConstraint":   {"OpsGo.typeConstraint", nil, []oShape{oTy}, false},
	"NumberLowerBound": {"OpsGo.numberLowerBound", nil, []oShape{oVal, oBool}, true},
	"NumberUpperBound": {"OpsGo.numberUpperBound", nil, []oShape{oVal, oBool}, true},
}

// methods of *big.Float; write: the receiver is assigned (it must be fresh) and is also the result
var opFloatMethods = map[string]struct {
	opPrim
	write bool
}{
	"Neg":     {opPrim{"OpsGo.Float.neg", []oShape{oFloat}, []oShape{oFloat}, false}, true},
	"Abs":     {opPrim{"OpsGo.Float.abs", []oShape{oFloat}, []oShape{oFloat}, false}, true},
	"Copy":    {opPrim{"OpsGo.Float.copy", []oShape{oFloat}, []oShape{oFloat}, false}, true},
	"SetPrec": {opPrim{"OpsGo.Float.setPrec", []oShape{oNat}, []oShape{oFloat}, false}, true},
	"SetInt":  {opPrim{"OpsGo.Float.setInt", []oShape{oBigInt}, []oShape{oFloat}, false}, true},
	"Add":     {opPrim{"OpsGo.Float.add", []oShape{oFloat, oFloat}, []oShape{oFloat}, true}, true},
	"Sub":     {opPrim{"OpsGo.Float.sub", []oShape{oFloat, oFloat}, []oShape{oFloat}, true}, true},
	"Mul":     {opPrim{"OpsGo.Float.mul", []oShape{oFloat, oFloat}, []oShape{oFloat}, true}, true},
	"Quo":     {opPrim{"OpsGo.Float.quo", []oShape{oFloat, oFloat}, []oShape{oFloat}, true}, true},
	"Prec":    {opPrim{"Num.prec", nil, []oShape{oNat}, false}, false},
	"MinPrec": {opPrim{"Num.minPrec", nil, []oShape{oNat}, false}, false},
	"Cmp":     {opPrim{"Num.cmp", []oShape{oFloat}, []oShape{oInt}, false}, false},
	"Int":     {opPrim{"OpsGo.Float.int", []oShape{oNil}, []oShape{oBigInt, oUnit}, true}, false},
}

var opTypeMethods = map[string]opPrim{
	"Equals": {"Ty.equals", []oShape{oTy}, []oShape{oBool}, false},
}

var opFuncPrims = map[string]opPrim{
	"BoolVal":                {"Value.boolVal", []oShape{oBool}, []oShape{oVal}, false},
	"NumberVal":              {"Value.numVal", []oShape{oFloat}, []oShape{oVal}, false},
	"UnknownVal":             {"Value.unknown", []oShape{oTy}, []oShape{oVal}, false},
	"numericRangeArithmetic": {"OpsGo.numericRangeArithmetic", []oShape{oMethod, oRange, oRange}, []oShape{oRefiner}, true},
}

var opMethodExprs = map[string]string{"Value.Add": "OpsGo.Method.add", "Value.Subtract": "OpsGo.Method.subtract", "Value.Multiply": "OpsGo.Method.multiply"}

// ---------------------------------------------------------------- state

type opUnit struct {
	key, name string
	fd        *ast.FuncDecl
	file      string
	params    []leanVar
	shapes    []oShape
	variadic  bool
	rets      []oShape
	helpers   []string // loop helpers, emitted before the function
	nloops    int
	body      string
	calls     map[string]bool // translated functions this body calls
	line0     int
	line1     int
}

type opTr struct {
	funcs map[string]*ast.FuncDecl
	file  map[string]string
	units map[string]*opUnit
	order []string
}

type opEnv map[string]opVal

func (e opEnv) with(k string, v opVal) opEnv {
	if k == "" || k == "_" {
		return e
	}
	n := make(opEnv, len(e)+1)
	for a, b := range e {
		n[a] = b
	}
	n[k] = v
	return n
}

type opCtx struct {
	t        *opTr
	u        *opUnit
	used     map[string]bool
	hint     []string           // Go names of the variables that receive the answer of the call being translated
	loopCont func(opEnv) string // inside a range loop: the next iteration
}

func (c *opCtx) fresh(base string) string {
	base = strings.TrimRight(base, "_")
	if base == "" {
		base = "x"
	}
	n := base
	for i := 2; c.used[n] || leanReserved[n]; i++ {
		n = fmt.Sprintf("%s_%d", base, i)
	}
	c.used[n] = true
	return n
}

var leanReserved = map[string]bool{"fuel": true, "at": true, "end": true, "from": true, "have": true, "show": true, "then": true, "else": true, "if": true, "fun": true, "let": true, "in": true, "do": true, "match": true, "with": true, "open": true, "where": true, "instance": true, "by": true}

func opCallHole(key string) string { return "«" + key + "»" }

// ---------------------------------------------------------------- functions

func (t *opTr) translate(key string) {
	fd := t.funcs[key]
	if fd == nil {
		die("translate_ops: %s not found in package cty", key)
	}
	u := &opUnit{key: key, name: strings.ReplaceAll(key, ".", "_"), fd: fd, file: t.file[key], calls: map[string]bool{},
		line0: fset.Position(fd.Pos()).Line, line1: fset.Position(fd.End()).Line}
	t.units[key] = u
	c := &opCtx{t: t, u: u, used: map[string]bool{}}
	en := opEnv{}
	if fd.Recv != nil {
		r := fd.Recv.List[0]
		if len(r.Names) != 1 || src(r.Type) != "Value" {
			dieAt(r, "receiver %s", src(r))
		}
		n := c.fresh(r.Names[0].Name)
		u.params, u.shapes = append(u.params, leanVar{n, "Value"}), append(u.shapes, oVal)
		en = en.with(r.Names[0].Name, opVal{sh: oVal, e: n})
	}
	for _, f := range fd.Type.Params.List {
		sh := oGoTypeShape(f.Type, src(f.Type))
		if len(f.Names) == 0 {
			dieAt(f, "unnamed parameter")
		}
		for _, nm := range f.Names {
			if u.variadic {
				dieAt(f, "parameter after a variadic one")
			}
			n := c.fresh(nm.Name)
			u.params, u.shapes = append(u.params, leanVar{n, oLeanType(sh)}), append(u.shapes, sh)
			en = en.with(nm.Name, opVal{sh: sh, e: n})
			u.variadic = sh == oVals
		}
	}
	u.rets = opResultShapes(fd)
	u.body = c.stmts(fd.Body.List, en, func(opEnv) string {
		dieAt(fd.Body, "control reaches the end of a function with a result")
		return ""
	})
	t.order = append(t.order, key)
}

// opResultShapes: one or two results; names of results are not variables of the translation (a bare `return` or a
// use of a named result is outside the fragment)
func opResultShapes(fd *ast.FuncDecl) []oShape {
	var out []oShape
	if fd.Type.Results != nil {
		for _, f := range fd.Type.Results.List {
			n := len(f.Names)
			if n == 0 {
				n = 1
			}
			for i := 0; i < n; i++ {
				out = append(out, oGoTypeShape(f.Type, src(f.Type)))
			}
		}
	}
	if len(out) < 1 || len(out) > 2 {
		dieAt(fd, "result list")
	}
	return out
}

func opRetType(rets []oShape) string {
	if len(rets) == 1 {
		return atomType(oLeanType(rets[0]))
	}
	return "(" + oLeanType(rets[0]) + " × " + oLeanType(rets[1]) + ")"
}

// ---------------------------------------------------------------- statements

// opOnlyAssigns: the statements are plain assignments `x = e` to variables of the enclosing scope
func opOnlyAssigns(list []ast.Stmt) bool {
	for _, s := range list {
		a, ok := s.(*ast.AssignStmt)
		if !ok || a.Tok != token.ASSIGN || len(a.Lhs) != 1 || len(a.Rhs) != 1 {
			return false
		}
		if _, ok := a.Lhs[0].(*ast.Ident); !ok {
			return false
		}
	}
	return len(list) > 0
}

func (c *opCtx) stmts(list []ast.Stmt, en opEnv, k func(opEnv) string) string {
	if len(list) == 0 {
		return k(en)
	}
	rest := list[1:]
	next := func(e opEnv) string { return c.stmts(rest, e, k) }
	switch s := list[0].(type) {
	case *ast.ReturnStmt:
		if len(s.Results) != len(c.u.rets) {
			dieAt(s, "return with %d values", len(s.Results))
		}
		if len(s.Results) == 2 {
			b1, v1 := c.expr(s.Results[0], en)
			v1 = c.coerce(s.Results[0], v1, c.u.rets[0])
			b2, v2 := c.expr(s.Results[1], en)
			v2 = c.coerce(s.Results[1], v2, c.u.rets[1])
			return wrap(append(b1, b2...), "(Res.ok ("+v1.e+", "+v2.e+"))")
		}
		bs, v := c.expr(s.Results[0], en)
		v = c.coerce(s.Results[0], v, c.u.rets[0])
		if n := len(bs); n > 0 && bs[n-1].pat == v.e {
			return wrap(bs[:n-1], bs[n-1].rhs) // tail call
		}
		return wrap(bs, "(Res.ok "+v.e+")")
	case *ast.BlockStmt:
		// a nested block: its declarations end with it
		return c.stmts(s.List, en, func(inner opEnv) string { return next(c.scopeExit(s, en, inner)) })
	case *ast.IfStmt:
		if s.Init != nil {
			blk := &ast.BlockStmt{Lbrace: s.Pos(), List: []ast.Stmt{s.Init, &ast.IfStmt{If: s.If, Cond: s.Cond, Body: s.Body, Else: s.Else}}}
			return c.stmts(append([]ast.Stmt{blk}, rest...), en, k)
		}
		bs, v := c.expr(s.Cond, en)
		if v.sh != oBool {
			dieAt(s.Cond, "condition %s", src(s.Cond))
		}
		var elseList []ast.Stmt
		switch e := s.Else.(type) {
		case nil:
		case *ast.BlockStmt:
			elseList = e.List
		default:
			elseList = []ast.Stmt{e}
		}
		if opOnlyAssigns(s.Body.List) && (s.Else == nil || opOnlyAssigns(elseList)) {
			// if-expression per assigned variable
			thenEnv := c.pureAssigns(s.Body.List, en)
			elseEnv := en
			if s.Else != nil {
				elseEnv = c.pureAssigns(elseList, en)
			}
			out := en
			var names []string
			for name := range en {
				names = append(names, name)
			}
			sort.Strings(names)
			for _, name := range names {
				a, b := thenEnv[name], elseEnv[name]
				if a.e == b.e {
					continue
				}
				switch v.konst {
				case 1:
					out = out.with(name, a)
				case 2:
					out = out.with(name, b)
				default:
					out = out.with(name, opVal{sh: a.sh, e: "(if " + v.e + " then " + a.e + " else " + b.e + ")", fresh: a.fresh && b.fresh})
				}
			}
			return wrap(bs, next(out))
		}
		thenT := func() string {
			return c.stmts(s.Body.List, en, func(inner opEnv) string { return next(c.scopeExit(s.Body, en, inner)) })
		}
		elseT := func() string {
			if s.Else == nil {
				return next(en)
			}
			return c.stmts(elseList, en, func(inner opEnv) string { return next(c.scopeExit(s.Else, en, inner)) })
		}
		switch v.konst {
		case 1:
			return wrap(bs, thenT())
		case 2:
			return wrap(bs, elseT())
		}
		return wrap(bs, "(if "+v.e+" then\n"+indent(thenT())+"\nelse\n"+indent(elseT())+")")
	case *ast.ExprStmt:
		call, ok := s.X.(*ast.CallExpr)
		if !ok {
			dieAt(s, "expression statement %s", src(s))
		}
		if id, ok := call.Fun.(*ast.Ident); ok && id.Name == "panic" {
			if len(call.Args) != 1 {
				dieAt(call, "panic with %d arguments", len(call.Args))
			}
			if bl, ok := call.Args[0].(*ast.BasicLit); ok && bl.Kind == token.STRING {
				msg, _ := strconv.Unquote(bl.Value)
				return "(Res.panic " + leanStr(msg) + ")"
			}
			bs, v := c.expr(call.Args[0], en)
			if v.sh != oErr {
				dieAt(call, "panic argument %s", src(call.Args[0]))
			}
			return wrap(bs, "(Res.panic (OpsGo.errText "+v.e+"))")
		}
		// z.M(…) writing the fresh *big.Float variable z
		if sel, ok := call.Fun.(*ast.SelectorExpr); ok {
			if id, ok := sel.X.(*ast.Ident); ok {
				if z, ok := en[id.Name]; ok && z.sh == oFloat {
					if m, ok := opFloatMethods[sel.Sel.Name]; ok && m.write {
						bs, v := c.expr(call, en)
						return wrap(bs, next(en.with(id.Name, v)))
					}
				}
			}
		}
		dieAt(s, "call %s used as a statement has no modelled effect", src(call))
	case *ast.AssignStmt:
		return c.assign(s, en, next)
	case *ast.RangeStmt:
		return c.rangeStmt(s, en, next)
	case *ast.BranchStmt:
		if s.Tok == token.CONTINUE && s.Label == nil && c.loopCont != nil {
			return c.loopCont(en)
		}
		dieAt(s, "%s", s.Tok)
	}
	dieAt(list[0], "statement %s", strings.TrimPrefix(fmt.Sprintf("%T", list[0]), "*ast."))
	return ""
}

// scopeExit: the environment after a nested scope — outer variables keep what the scope assigned to them
// (shadowing declarations inside the scope are dropped)
func (c *opCtx) scopeExit(at ast.Node, outer, inner opEnv) opEnv {
	shadow := map[string]bool{}
	ast.Inspect(at, func(n ast.Node) bool {
		if a, ok := n.(*ast.AssignStmt); ok && a.Tok == token.DEFINE {
			for _, l := range a.Lhs {
				if id, ok := l.(*ast.Ident); ok {
					shadow[id.Name] = true
				}
			}
		}
		return true
	})
	out := opEnv{}
	for name, v := range outer {
		if shadow[name] {
			// declared again somewhere in the scope: an assignment to the outer variable after the inner
			// declaration would be lost, one before it would be kept — refuse the mixture
			assigned := false
			ast.Inspect(at, func(n ast.Node) bool {
				if a, ok := n.(*ast.AssignStmt); ok && a.Tok == token.ASSIGN {
					for _, l := range a.Lhs {
						if id, ok := l.(*ast.Ident); ok && id.Name == name {
							assigned = true
						}
					}
				}
				return true
			})
			if assigned {
				dieAt(at, "variable %s is both shadowed and assigned in a nested scope", name)
			}
			out[name] = v
		} else {
			out[name] = inner[name]
		}
	}
	return out
}

// rangeStmt: `for i, v := range values {…}` over a ...Value parameter becomes a structurally recursive helper over
// the list; its state is the outer variables the body assigns, its base case is the code after the loop.
// `continue` is the next iteration; break, labels and nested loops are outside the fragment.
func (c *opCtx) rangeStmt(s *ast.RangeStmt, en opEnv, after func(opEnv) string) string {
	if c.loopCont != nil {
		dieAt(s, "nested loop")
	}
	if s.Tok != token.DEFINE {
		dieAt(s, "range without :=")
	}
	xb, x := c.expr(s.X, en)
	if x.sh != oVals {
		dieAt(s.X, "range over %s", src(s.X))
	}
	keyName, valName := "", ""
	if s.Key != nil {
		keyName = identOr(s.Key, "")
	}
	if s.Value != nil {
		valName = identOr(s.Value, "")
	}
	isState := map[string]bool{}
	ast.Inspect(s.Body, func(n ast.Node) bool {
		switch b := n.(type) {
		case *ast.BranchStmt:
			if b.Tok != token.CONTINUE || b.Label != nil {
				dieAt(b, "%s in a loop", b.Tok)
			}
		case *ast.AssignStmt:
			for _, l := range b.Lhs {
				id, ok := l.(*ast.Ident)
				if !ok {
					continue
				}
				if _, outer := en[id.Name]; outer {
					if b.Tok == token.DEFINE {
						dieAt(b, "loop body declares %s again", id.Name)
					}
					isState[id.Name] = true
				}
			}
		}
		return true
	})
	var names []string
	for n := range en {
		names = append(names, n)
	}
	sort.Strings(names)
	c.u.nloops++
	name := fmt.Sprintf("%s_loop%d", c.u.name, c.u.nloops)
	inner := opEnv{}
	var capDecl, capNames, capArgs, stPats, stTypes, stInit, state []string
	for _, n := range names {
		v := en[n]
		if v.sh == oIndex {
			continue
		}
		p := c.fresh(n)
		inner[n] = opVal{sh: v.sh, e: p}
		if isState[n] {
			state, stPats, stTypes, stInit = append(state, n), append(stPats, p), append(stTypes, atomType(oLeanType(v.sh))), append(stInit, v.e)
		} else {
			capDecl, capNames, capArgs = append(capDecl, "("+p+" : "+oLeanType(v.sh)+")"), append(capNames, p), append(capArgs, v.e)
		}
	}
	head, tail := c.fresh(identOr(s.Value, "v")), c.fresh("rest")
	body := inner
	if valName != "" {
		body = body.with(valName, opVal{sh: oVal, e: head})
	}
	if keyName != "" {
		body = body.with(keyName, opVal{sh: oIndex})
	}
	callNext := func(e opEnv) string {
		parts := append([]string{name}, capNames...)
		for _, n := range state {
			parts = append(parts, e[n].e)
		}
		return "(" + strings.Join(append(parts, tail), " ") + ")"
	}
	c.loopCont = callNext
	stepT := c.stmts(s.Body.List, body, callNext)
	c.loopCont = nil
	restT := after(inner)
	pat := func(last string) string { return strings.Join(append(append([]string{}, stPats...), last), ", ") }
	c.u.helpers = append(c.u.helpers, fmt.Sprintf("/-- the `for %s := range %s` loop of `%s`, and what follows it -/\ndef %s %s : %s → Res %s\n  | %s =>\n%s\n  | %s =>\n%s\n",
		rangeVars(s), src(s.X), c.u.key, name, strings.Join(capDecl, " "), strings.Join(append(append([]string{}, stTypes...), "List Value"), " → "), opRetType(c.u.rets),
		pat("[]"), indent(indent(restT)), pat(head+" :: "+tail), indent(indent(stepT))))
	parts := append(append([]string{name}, capArgs...), stInit...)
	return wrap(xb, "("+strings.Join(append(parts, x.e), " ")+")")
}

func (c *opCtx) pureAssigns(list []ast.Stmt, en opEnv) opEnv {
	for _, s := range list {
		a := s.(*ast.AssignStmt)
		name := a.Lhs[0].(*ast.Ident).Name
		old, ok := en[name]
		if !ok {
			dieAt(a, "assignment to unknown variable %s", name)
		}
		bs, v := c.expr(a.Rhs[0], en)
		if len(bs) != 0 {
			dieAt(a, "assignment %s in an if-expression evaluates a call that can panic", src(a))
		}
		v = c.coerce(a.Rhs[0], v, old.sh)
		en = en.with(name, v)
	}
	return en
}

func (c *opCtx) assign(s *ast.AssignStmt, en opEnv, next func(opEnv) string) string {
	define := s.Tok == token.DEFINE
	if s.Tok != token.DEFINE && s.Tok != token.ASSIGN {
		dieAt(s, "assignment operator %s", s.Tok)
	}
	lhsName := func(e ast.Expr) string {
		id, ok := e.(*ast.Ident)
		if !ok {
			dieAt(e, "assignment to %s", src(e))
		}
		if id.Name == "_" {
			return ""
		}
		if !define {
			if _, ok := en[id.Name]; !ok {
				dieAt(e, "assignment to unknown variable %s", id.Name)
			}
		}
		return id.Name
	}
	store := func(e opEnv, name string, v opVal) opEnv {
		if name == "" {
			return e
		}
		switch v.sh {
		case oNil, oMethod, oUnit:
			dieAt(s, "value %s cannot be stored in a variable", src(s))
		}
		if old, ok := e[name]; ok && !define && old.sh != v.sh {
			dieAt(s, "assignment changes how %s is modelled", name)
		}
		v.named, v.lit = "", false
		return e.with(name, v)
	}
	if ta, ok := s.Rhs[0].(*ast.TypeAssertExpr); ok && len(s.Lhs) == 2 && len(s.Rhs) == 1 && define {
		// _, unknown := v.v.(*unknownType)
		sel, ok := ta.X.(*ast.SelectorExpr)
		if !ok || sel.Sel.Name != "v" || ta.Type == nil || src(ta.Type) != "*unknownType" || lhsName(s.Lhs[0]) != "" {
			dieAt(s, "two-valued type assertion %s", src(s))
		}
		bs, v := c.expr(sel.X, en)
		if v.sh != oVal {
			dieAt(s, "two-valued type assertion %s", src(s))
		}
		return wrap(bs, next(store(en, lhsName(s.Lhs[1]), opVal{sh: oBool, e: "(Value.isUnk " + v.e + ")"})))
	}
	if len(s.Lhs) == 2 && len(s.Rhs) == 1 {
		call, ok := s.Rhs[0].(*ast.CallExpr)
		if !ok {
			dieAt(s, "two-valued assignment %s", src(s))
		}
		c.hint = []string{identOr(s.Lhs[0], "x"), identOr(s.Lhs[1], "y")}
		bs, vs := c.call(call, en)
		if len(vs) != 2 {
			dieAt(s, "two-valued assignment from %s", src(call))
		}
		a, b := lhsName(s.Lhs[0]), lhsName(s.Lhs[1])
		e := store(en, a, vs[0])
		e = store(e, b, vs[1])
		return wrap(bs, next(e))
	}
	if len(s.Lhs) != 1 || len(s.Rhs) != 1 {
		dieAt(s, "parallel assignment")
	}
	name := lhsName(s.Lhs[0])
	bs, v := c.expr(s.Rhs[0], en)
	if !define && name != "" {
		v = c.coerce(s.Rhs[0], v, en[name].sh)
	}
	if v.lit {
		dieAt(s, "untyped constant %s stored in a variable", src(s.Rhs[0]))
	}
	return wrap(bs, next(store(en, name, v)))
}

// ---------------------------------------------------------------- expressions

func (c *opCtx) coerce(at ast.Node, v opVal, want oShape) opVal {
	if v.sh == want {
		return v
	}
	if v.sh == oNil && want == oPtr {
		return opVal{sh: oPtr, e: "(none : Option Value)"}
	}
	if v.sh == oNil && want == oErr {
		return opVal{sh: oErr, e: "(none : Option String)"}
	}
	if v.lit && want == oInt {
		return opVal{sh: oInt, e: v.e}
	}
	dieAt(at, "%s where a %s is expected", src(at), oLeanType(want))
	return v
}

// bindRes names the answer of a call into Res
func (c *opCtx) bindRes(base, rhs string, sh oShape) ([]bind, opVal) {
	n := c.fresh(base)
	return []bind{{n, rhs}}, opVal{sh: sh, e: n}
}

func (c *opCtx) expr(e ast.Expr, en opEnv) ([]bind, opVal) {
	switch x := e.(type) {
	case *ast.ParenExpr:
		return c.expr(x.X, en)
	case *ast.Ident:
		switch x.Name {
		case "true":
			return nil, opVal{sh: oBool, e: "true", konst: 1}
		case "false":
			return nil, opVal{sh: oBool, e: "false", konst: 2}
		case "nil":
			return nil, opVal{sh: oNil}
		case "_":
			dieAt(x, "blank identifier as a value")
		}
		if v, ok := en[x.Name]; ok {
			return nil, v
		}
		if v, ok := opNamed[x.Name]; ok {
			return nil, v
		}
		dieAt(x, "identifier %s", x.Name)
	case *ast.BasicLit:
		if x.Kind == token.INT {
			if n, err := strconv.ParseUint(x.Value, 0, 63); err == nil {
				return nil, opVal{sh: oNat, e: strconv.FormatUint(n, 10), lit: true}
			}
		}
		dieAt(x, "literal %s", x.Value)
	case *ast.StarExpr:
		bs, v := c.expr(x.X, en)
		if v.sh != oPtr {
			dieAt(x, "dereference %s", src(x))
		}
		b2, d := c.bindRes("d", "(OpsGo.deref "+v.e+")", oVal)
		return append(bs, b2...), d
	case *ast.UnaryExpr:
		if x.Op == token.AND {
			if cl, ok := x.X.(*ast.CompositeLit); ok && src(cl.Type) == "big.Float" && len(cl.Elts) == 0 {
				return nil, opVal{sh: oFloat, e: "OpsGo.Float.new", fresh: true}
			}
			if id, ok := x.X.(*ast.Ident); ok {
				if v, ok := en[id.Name]; ok && v.sh == oVal {
					return nil, opVal{sh: oPtr, e: "(some " + v.e + ")"}
				}
				if v, ok := opNamed[id.Name]; ok && v.sh == oVal && !hasOpKey(en, id.Name) {
					return nil, opVal{sh: oPtr, e: "(some " + v.e + ")"}
				}
			}
			dieAt(x, "address of %s", src(x.X))
		}
		bs, v := c.expr(x.X, en)
		if x.Op == token.NOT && v.sh == oBool {
			switch v.konst {
			case 1:
				return bs, opVal{sh: oBool, e: "false", konst: 2}
			case 2:
				return bs, opVal{sh: oBool, e: "true", konst: 1}
			}
			return bs, opVal{sh: oBool, e: "(!" + v.e + ")"}
		}
		dieAt(x, "operator %s on %s", x.Op, src(x.X))
	case *ast.BinaryExpr:
		return c.binary(x, en)
	case *ast.SelectorExpr:
		// p.ty, v.ty
		if x.Sel.Name == "ty" {
			bs, v := c.expr(x.X, en)
			switch v.sh {
			case oVal:
				return bs, opVal{sh: oTy, e: v.e + ".ty"}
			case oPtr:
				b2, d := c.bindRes("d", "(OpsGo.deref "+v.e+")", oVal)
				return append(bs, b2...), opVal{sh: oTy, e: d.e + ".ty"}
			}
		}
		if m, ok := opMethodExprs[src(x)]; ok {
			return nil, opVal{sh: oMethod, e: m}
		}
		dieAt(x, "selector %s", src(x))
	case *ast.TypeAssertExpr:
		sel, ok := x.X.(*ast.SelectorExpr)
		if !ok || sel.Sel.Name != "v" || x.Type == nil {
			dieAt(x, "type assertion %s", src(x))
		}
		bs, v := c.expr(sel.X, en)
		if v.sh != oVal {
			dieAt(x, "type assertion %s", src(x))
		}
		switch src(x.Type) {
		case "bool":
			b2, r := c.bindRes("b", "(OpsGo.asBool "+v.e+")", oBool)
			return append(bs, b2...), r
		case "*big.Float":
			b2, r := c.bindRes("f", "(OpsGo.asFloat "+v.e+")", oFloat)
			return append(bs, b2...), r
		}
		dieAt(x, "type assertion %s", src(x))
	case *ast.CallExpr:
		bs, vs := c.call(x, en)
		if len(vs) != 1 {
			dieAt(x, "call %s answers %d values where one is used", src(x), len(vs))
		}
		return bs, vs[0]
	}
	dieAt(e, "expression %s (%s)", src(e), strings.TrimPrefix(fmt.Sprintf("%T", e), "*ast."))
	return nil, opVal{}
}

func (c *opCtx) binary(x *ast.BinaryExpr, en opEnv) ([]bind, opVal) {
	lb, l := c.expr(x.X, en)
	if (x.Op == token.LAND && l.konst == 2) || (x.Op == token.LOR && l.konst == 1) {
		return lb, l
	}
	rb, r := c.expr(x.Y, en)
	switch x.Op {
	case token.LAND, token.LOR:
		if l.sh != oBool || r.sh != oBool {
			break
		}
		and := x.Op == token.LAND
		if l.konst != 0 {
			return append(lb, rb...), r
		}
		if len(rb) == 0 {
			op := " || "
			if and {
				op = " && "
			}
			return lb, opVal{sh: oBool, e: "(" + l.e + op + r.e + ")"}
		}
		// the right operand can panic: it is evaluated only if the left one does not decide
		n := c.fresh("c")
		rhs := wrap(rb, "(Res.ok "+r.e+")")
		if and {
			return append(lb, bind{n, "(if " + l.e + " then\n" + indent(rhs) + "\nelse\n  (Res.ok false))"}), opVal{sh: oBool, e: n}
		}
		return append(lb, bind{n, "(if " + l.e + " then\n  (Res.ok true)\nelse\n" + indent(rhs) + ")"}), opVal{sh: oBool, e: n}
	case token.EQL, token.NEQ:
		eq := x.Op == token.EQL
		bs := append(lb, rb...)
		neg := func(s string) opVal {
			if eq {
				return opVal{sh: oBool, e: s}
			}
			return opVal{sh: oBool, e: "(!" + s + ")"}
		}
		if l.sh == oNil || (l.named != "" && r.named == "") {
			l, r = r, l
		}
		switch {
		case l.sh == oPtr && r.sh == oNil:
			return bs, neg("(Option.isNone " + l.e + ")")
		case l.sh == oErr && r.sh == oNil:
			return bs, neg("(Option.isNone " + l.e + ")")
		case l.sh == oVal && r.sh == oVal && (r.named == "True" || r.named == "False") && l.named == "":
			return bs, neg("(OpsGo.eqBoolLit " + l.e + " " + strings.ToLower(r.named) + ")")
		case l.sh == oTy && r.sh == oTy && opTyEq[r.named] != "" && l.named == "":
			return bs, neg("(" + opTyEq[r.named] + " " + l.e + ")")
		case l.sh == r.sh && (l.sh == oBool || l.sh == oNat || l.sh == oInt):
			return bs, neg("(" + l.e + " == " + r.e + ")")
		}
	case token.LSS, token.GTR, token.LEQ, token.GEQ:
		bs := append(lb, rb...)
		if l.lit && !r.lit {
			l = c.coerce(x.X, l, r.sh)
		}
		if r.lit && !l.lit {
			r = c.coerce(x.Y, r, l.sh)
		}
		if l.sh == r.sh && (l.sh == oNat || l.sh == oInt) {
			return bs, opVal{sh: oBool, e: "(decide (" + l.e + " " + x.Op.String() + " " + r.e + "))"}
		}
	}
	dieAt(x, "operator %s in %s", x.Op, src(x))
	return nil, opVal{}
}

func (c *opCtx) args(call *ast.CallExpr, want []oShape, en opEnv) ([]bind, []string) {
	if call.Ellipsis.IsValid() || len(call.Args) != len(want) {
		dieAt(call, "call %s", src(call))
	}
	var bs []bind
	var out []string
	for i, a := range call.Args {
		b, v := c.expr(a, en)
		if want[i] == oNil {
			if v.sh != oNil {
				dieAt(a, "argument %s", src(a))
			}
			bs = append(bs, b...)
			continue
		}
		if want[i] == oNat && v.sh == oNat {
			v.lit = false
		}
		v = c.coerce(a, v, want[i])
		bs, out = append(bs, b...), append(out, v.e)
	}
	return bs, out
}

func identOr(e ast.Expr, d string) string {
	if id, ok := e.(*ast.Ident); ok && id.Name != "_" {
		return id.Name
	}
	return d
}

func (c *opCtx) prim(p opPrim, recv string, call *ast.CallExpr, en opEnv, base string) ([]bind, []opVal) {
	hint := c.hint
	c.hint = nil
	bs, args := c.args(call, p.args, en)
	if recv != "" {
		args = append([]string{recv}, args...)
	}
	text := "(" + strings.Join(append([]string{p.lean}, args...), " ") + ")"
	if !p.res {
		if len(p.ret) != 1 {
			panic("pure pair")
		}
		return bs, []opVal{{sh: p.ret[0], e: text}}
	}
	if len(p.ret) == 2 {
		if len(hint) != 2 {
			hint = []string{base, base + "_b"}
		}
		a, b := c.fresh(hint[0]), c.fresh(hint[1])
		return append(bs, bind{"(" + a + ", " + b + ")", text}), []opVal{{sh: p.ret[0], e: a}, {sh: p.ret[1], e: b}}
	}
	b2, r := c.bindRes(base, text, p.ret[0])
	return append(bs, b2...), []opVal{r}
}

// callUnit: a call of a translated function; the head is a hole resolved when the recursive groups are known
func (c *opCtx) callUnit(key string, recv *opVal, call *ast.CallExpr, en opEnv, hint []string) ([]bind, []opVal) {
	fd := c.t.funcs[key]
	if fd == nil {
		dieAt(call, "call of %s, which is neither translated nor part of the given API", key)
	}
	isRoot := false
	for _, r := range opRoots {
		isRoot = isRoot || r == key
	}
	if !isRoot {
		dieAt(call, "call of %s, which is neither translated nor part of the given API", key)
	}
	var bs []bind
	var args []string
	if recv != nil {
		args = append(args, recv.e)
	}
	// parameter shapes from the declaration (the callee may not be translated yet)
	var shapes []oShape
	for _, f := range fd.Type.Params.List {
		for range f.Names {
			shapes = append(shapes, oGoTypeShape(f.Type, src(f.Type)))
		}
	}
	rets := opResultShapes(fd)
	variadic := len(shapes) > 0 && shapes[len(shapes)-1] == oVals
	nfix := len(shapes)
	if variadic {
		nfix--
	}
	if len(call.Args) < nfix || (!variadic && len(call.Args) != nfix) {
		dieAt(call, "call %s", src(call))
	}
	for i := 0; i < nfix; i++ {
		b, v := c.expr(call.Args[i], en)
		v = c.coerce(call.Args[i], v, shapes[i])
		bs, args = append(bs, b...), append(args, v.e)
	}
	if variadic {
		if call.Ellipsis.IsValid() {
			if len(call.Args) != nfix+1 {
				dieAt(call, "call %s", src(call))
			}
			b, v := c.expr(call.Args[nfix], en)
			v = c.coerce(call.Args[nfix], v, oVals)
			bs, args = append(bs, b...), append(args, v.e)
		} else {
			var elems []string
			for _, a := range call.Args[nfix:] {
				b, v := c.expr(a, en)
				v = c.coerce(a, v, oVal)
				bs, elems = append(bs, b...), append(elems, v.e)
			}
			args = append(args, "["+strings.Join(elems, ", ")+"]")
		}
	} else if call.Ellipsis.IsValid() {
		dieAt(call, "call %s", src(call))
	}
	c.u.calls[key] = true
	text := "(" + opCallHole(key) + " " + strings.Join(args, " ") + ")"
	if len(rets) == 2 {
		if len(hint) != 2 {
			hint = []string{"x", "y"}
		}
		a, b := c.fresh(hint[0]), c.fresh(hint[1])
		return append(bs, bind{"(" + a + ", " + b + ")", text}), []opVal{{sh: rets[0], e: a}, {sh: rets[1], e: b}}
	}
	b2, r := c.bindRes("x", text, rets[0])
	return append(bs, b2...), []opVal{r}
}

func (c *opCtx) call(call *ast.CallExpr, en opEnv) ([]bind, []opVal) {
	hint := c.hint
	c.hint = nil
	restore := func() { c.hint = hint }
	switch f := call.Fun.(type) {
	case *ast.Ident:
		if _, local := en[f.Name]; local {
			dieAt(call, "call of a local value")
		}
		if f.Name == "new" && len(call.Args) == 1 && src(call.Args[0]) == "big.Float" {
			return nil, []opVal{{sh: oFloat, e: "OpsGo.Float.new", fresh: true}}
		}
		if p, ok := opFuncPrims[f.Name]; ok {
			return c.prim(p, "", call, en, "x")
		}
		return c.callUnit(f.Name, nil, call, en, hint)
	case *ast.SelectorExpr:
		if src(f) == "fmt.Errorf" && !hasOpKey(en, "fmt") {
			// an error value is read as the constant head of its format string; the arguments are not evaluated
			if len(call.Args) == 0 {
				dieAt(call, "call %s", src(call))
			}
			bl, ok := call.Args[0].(*ast.BasicLit)
			if !ok || bl.Kind != token.STRING {
				dieAt(call, "error format %s", src(call.Args[0]))
			}
			format, _ := strconv.Unquote(bl.Value)
			if i := strings.IndexAny(format, ":%"); i >= 0 {
				format = format[:i]
			}
			return nil, []opVal{{sh: oErr, e: "(OpsGo.errorf " + leanStr(strings.TrimSpace(format)) + ")"}}
		}
		rb, r := c.expr(f.X, en)
		name := f.Sel.Name
		if r.sh == oPtr { // method call through a *Value
			b2, d := c.bindRes("d", "(OpsGo.deref "+r.e+")", oVal)
			rb, r = append(rb, b2...), d
		}
		switch r.sh {
		case oVal:
			if name == "WithMarks" {
				if call.Ellipsis.IsValid() || len(call.Args) == 0 {
					dieAt(call, "call %s", src(call))
				}
				var ms []string
				for _, a := range call.Args {
					b, v := c.expr(a, en)
					if v.sh != oMarks {
						dieAt(a, "argument %s", src(a))
					}
					rb, ms = append(rb, b...), append(ms, v.e)
				}
				return rb, []opVal{{sh: oVal, e: "(OpsGo.withMarks " + r.e + " [" + strings.Join(ms, ", ") + "])"}}
			}
			if name == "RawEquals" && len(call.Args) == 1 {
				if id, ok := call.Args[0].(*ast.Ident); ok && opRawEq[id.Name] != "" && !hasOpKey(en, id.Name) {
					return rb, []opVal{{sh: oBool, e: "(" + opRawEq[id.Name] + " " + r.e + ")"}}
				}
				dieAt(call, "RawEquals against %s (only the package-level numbers are in the given API)", src(call.Args[0]))
			}
			if p, ok := opValueMethods[name]; ok {
				restore()
				bs, vs := c.prim(p, r.e, call, en, opBase(name))
				return append(rb, bs...), vs
			}
			bs, vs := c.callUnit("Value."+name, &r, call, en, hint)
			return append(rb, bs...), vs
		case oBuilder:
			if p, ok := opBuilderMethods[name]; ok {
				bs, vs := c.prim(p, r.e, call, en, "b")
				return append(rb, bs...), vs
			}
		case oRange:
			if p, ok := opRangeMethods[name]; ok {
				restore()
				bs, vs := c.prim(p, r.e, call, en, opBase(name))
				return append(rb, bs...), vs
			}
		case oTy:
			if p, ok := opTypeMethods[name]; ok {
				bs, vs := c.prim(p, r.e, call, en, "x")
				return append(rb, bs...), vs
			}
		case oFloat:
			if m, ok := opFloatMethods[name]; ok {
				if m.write && !r.fresh {
					dieAt(call, "%s writes %s, which was not made by new(big.Float) in this body (it may be an operand's number)", name, src(f.X))
				}
				restore()
				bs, vs := c.prim(m.opPrim, r.e, call, en, "f")
				if m.write {
					vs[0].fresh = true
				}
				return append(rb, bs...), vs
			}
		}
		dieAt(call, "method call %s", src(call))
	}
	dieAt(call, "call %s", src(call))
	return nil, nil
}

func hasOpKey(en opEnv, k string) bool { _, ok := en[k]; return ok }

func opBase(method string) string {
	switch method {
	case "Unmark":
		return "un"
	case "Range":
		return "rng"
	case "NumberLowerBound", "NumberUpperBound":
		return "bound"
	case "True", "False":
		return "t"
	}
	return "x"
}

// ---------------------------------------------------------------- recursive groups and output

func (t *opTr) sccs() [][]string {
	index, low, on := map[string]int{}, map[string]int{}, map[string]bool{}
	var stack []string
	var out [][]string
	n := 0
	var visit func(v string)
	visit = func(v string) {
		n++
		index[v], low[v] = n, n
		stack, on[v] = append(stack, v), true
		var cs []string
		for w := range t.units[v].calls {
			cs = append(cs, w)
		}
		sort.Strings(cs)
		for _, w := range cs {
			if index[w] == 0 {
				visit(w)
				if low[w] < low[v] {
					low[v] = low[w]
				}
			} else if on[w] && index[w] < low[v] {
				low[v] = index[w]
			}
		}
		if low[v] == index[v] {
			var comp []string
			for {
				w := stack[len(stack)-1]
				stack, on[w] = stack[:len(stack)-1], false
				comp = append(comp, w)
				if w == v {
					break
				}
			}
			// keep source order inside a group
			sort.Slice(comp, func(i, j int) bool { return t.units[comp[i]].line0 < t.units[comp[j]].line0 })
			out = append(out, comp)
		}
	}
	for _, k := range t.order {
		if index[k] == 0 {
			visit(k)
		}
	}
	return out
}

func (t *opTr) emit() (string, int) {
	var b strings.Builder
	ndefs := 0
	for _, comp := range t.sccs() {
		in := map[string]bool{}
		for _, k := range comp {
			in[k] = true
		}
		recursive := len(comp) > 1 || t.units[comp[0]].calls[comp[0]]
		resolve := func(body string) string {
			for k, u := range t.units {
				head := u.name
				if in[k] && recursive {
					head = u.name + "_fuel fuel"
				}
				body = strings.ReplaceAll(body, opCallHole(k), head)
			}
			return body
		}
		doc := func(u *opUnit) string {
			return fmt.Sprintf("/-- Go: `%s` (cty/%s:%d-%d) -/\n", strings.Join(strings.Fields(src(&ast.FuncDecl{Recv: u.fd.Recv, Name: u.fd.Name, Type: u.fd.Type})), " "), u.file, u.line0, u.line1)
		}
		sig := func(u *opUnit) (decl, types, names, unders string) {
			var ds, ts, ns, us []string
			for _, p := range u.params {
				ds, ts, ns, us = append(ds, "("+p.name+" : "+p.typ+")"), append(ts, atomType(p.typ)), append(ns, p.name), append(us, "_")
			}
			return strings.Join(ds, " "), strings.Join(ts, " → "), strings.Join(ns, " "), strings.Join(us, ", ")
		}
		for _, k := range comp {
			if recursive && len(t.units[k].helpers) > 0 {
				dieAt(t.units[k].fd, "a loop in a recursive function")
			}
			for _, h := range t.units[k].helpers {
				b.WriteString(resolve(h) + "\n")
				ndefs++
			}
		}
		if !recursive {
			u := t.units[comp[0]]
			decl, _, _, _ := sig(u)
			fmt.Fprintf(&b, "%sdef %s %s : Res %s :=\n%s\n\n", doc(u), u.name, decl, opRetType(u.rets), indent(resolve(u.body)))
			ndefs++
			continue
		}
		if len(comp) > 1 {
			b.WriteString("mutual\n")
		}
		for _, k := range comp {
			u := t.units[k]
			_, types, names, unders := sig(u)
			fmt.Fprintf(&b, "%sdef %s_fuel : Nat → %s → Res %s\n  | 0, %s => Res.unmodelled\n  | fuel + 1, %s =>\n%s\n", doc(u), u.name, types, opRetType(u.rets), unders, strings.ReplaceAll(names, " ", ", "), indent(indent(resolve(u.body))))
			ndefs++
		}
		if len(comp) > 1 {
			b.WriteString("end\n")
		}
		b.WriteString("\n")
		for _, k := range comp {
			u := t.units[k]
			decl, _, names, _ := sig(u)
			fmt.Fprintf(&b, "def %s %s : Res %s := %s_fuel opsFuel %s\n\n", u.name, decl, opRetType(u.rets), u.name, names)
			ndefs++
		}
	}
	return b.String(), ndefs
}

func translateOpsFns(repo, leanDir, hdr string) int {
	t := &opTr{funcs: map[string]*ast.FuncDecl{}, file: map[string]string{}, units: map[string]*opUnit{}}
	for _, f := range parseDir(filepath.Join(repo, "cty")) {
		for _, d := range f.Decls {
			fd, ok := d.(*ast.FuncDecl)
			if !ok || fd.Body == nil {
				continue
			}
			key := fd.Name.Name
			if fd.Recv != nil {
				key = strings.TrimPrefix(src(fd.Recv.List[0].Type), "*") + "." + key
			}
			t.funcs[key] = fd
			t.file[key] = filepath.Base(fset.Position(fd.Pos()).Filename)
		}
	}
	for _, r := range opRoots {
		t.translate(r)
	}
	defs, n := t.emit()
	var b strings.Builder
	b.WriteString(hdr)
	b.WriteString("-- Translation of the boolean, arithmetic and ordering methods of cty.Value (extract/translate_ops.go); tied to the\n-- hand-written transliteration CtyModel/Ops.lean, Ops2.lean by CtyModel/Lemmas/OpsFnsTie.lean.\n--\n-- TRANSLATED (statement by statement, marks prologue, short-circuit branch and known-value branch):\n")
	for _, r := range opRoots {
		u := t.units[r]
		fmt.Fprintf(&b, "--   %-28s cty/%s:%d-%d\n", r, u.file, u.line0, u.line1)
	}
	b.WriteString("-- NOT translated (given API, CtyModel/OpsGo.lean — the hand-written model's functions):\n" +
		"--   Value.Equals (the C03 model Value.equals), Value.RawEquals (only against cty.Zero / the two infinities),\n" +
		"--   Value.Range and the ValueRange accessors, numericRangeArithmetic (takes a method VALUE and recovers from its\n" +
		"--   panics: closure + defer/recover; read with the method name as data), RefineWith / RefineNotNull / the\n" +
		"--   RefinementBuilder chain of Absolute (translated separately from unknown_refinement.go into RefineFns.lean),\n" +
		"--   Unmark / WithMarks / IsMarked / IsKnown / True / False, BoolVal / NumberVal / UnknownVal,\n" +
		"--   the *big.Float methods (the Num model: Num.add, quo, mulP, addP, setIntP, cmp, minPrec, …).\n" +
		"--   error values: fmt.Errorf(format, …) is read as the constant head of its format string (arguments not evaluated).\n" +
		"-- Outside this translation's root list: the other methods of value_ops.go (Equals, RawEquals, GetAttr, Index,\n" +
		"--   HasIndex, HasElement, Length, …; Equals and HasElement are modelled by hand in Ops.lean / Ops2.lean).\n" +
		"-- A Go panic is Res.panic.  Recursion (marks prologue; LessThan/GreaterThan on range bounds) is not structural:\n" +
		"-- each recursive group has a fuel argument, `opsFuel` is supplied, and the tie shows that it suffices.\n")
	b.WriteString("import CtyModel.OpsGo\nset_option linter.unusedVariables false\nnamespace CtyModel.Generated.OpsFns\n\n")
	fmt.Fprintf(&b, "/-- recursion depth supplied to every translated method: marks prologue, then range bounds, then known numbers -/\ndef opsFuel : Nat := %d\n\n", opsFuel)
	b.WriteString(defs)
	b.WriteString("end CtyModel.Generated.OpsFns\n")
	writeIfChanged(filepath.Join(leanDir, "OpsFns.lean"), b.String())
	return n
}
