// Go→Lean translator for the value constructors of cty/value_init.go, cty/null.go, cty/unknown.go (property C06):
// ListVal, ListValEmpty, CanListVal, TupleVal, MapVal, MapValEmpty, CanMapVal, ObjectVal, SetVal, SetValEmpty, CanSetVal,
// SetValFromValueSet, StringVal, NormalizeString, BoolVal, NullVal, UnknownVal.  It writes
// lean/CtyModel/Generated/ConsFns.lean; Lemmas/ConsFnsTie.lean proves the generated definitions equal to the hand-written
// constructors the C06 theorems are about, so those theorems are re-checked against what the source says on every run.
//
// Like translate.go this is a SYNTACTIC FRAGMENT, not Go semantics; anything else is an error with the source position
// (exit 1 = broken tie):
//
//	statements   x := e | x = e | a, b := v.UnmarkDeep() | v, _ = v.UnmarkDeep() | xs[i] = e | m[k] = e | var x []ValueMarks
//	             if c {…} [else if … | else {…}]  (no init statement) | { … }
//	             for [i], [v] := range <slice parameter> {…} | for [k], [v] := range <map parameter> {…}
//	             (no nesting, no break/continue/labels) | return e | panic(<string literal> | fmt.Errorf(<literal>, …))
//	expressions  identifiers, int literals, nil, val.ty, val.v, s.s, len, make, append to a []ValueMarks, !, &&, ||,
//	             == / != on int and against DynamicPseudoType, Value{ty: …, v: …}, []interface{}{}, map[string]interface{}{},
//	             calls of the translated functions and of the given API listed in the generated header
//
// Statement lists are translated in continuation-passing style (the code after an `if` is repeated in both branches);
// every `range` loop is a structurally recursive helper over the list it walks, whose parameters are the variables in
// scope and whose `[]` case is the code after the loop.  Variables are substituted (all right-hand sides are pure).
// Aliasing: a slice or map built by the code may not be copied from another variable.
package main

import (
	"fmt"
	"go/ast"
	"go/token"
	"path/filepath"
	"sort"
	"strconv"
	"strings"
)

var consRoots = []string{
	"BoolVal", "StringVal", "NormalizeString", "NullVal", "UnknownVal",
	"ListVal", "ListValEmpty", "CanListVal", "TupleVal",
	"MapVal", "MapValEmpty", "CanMapVal", "ObjectVal",
	"SetVal", "SetValEmpty", "CanSetVal", "SetValFromValueSet",
}

type cShape int

const (
	csValue cShape = iota
	csTy
	csBool
	csInt
	csString
	csPayload
	csSliceValue
	csSliceTyOpt
	csSlicePayload
	csMapArg
	csStrMapTy
	csStrMapPayload
	csMarks
	csSliceMarks
	csRules
	csGoSet
	csValueSet
	csGoBool // a Go bool stored under Value.v
)

var cLeanType = map[cShape]string{
	csValue: "Value", csTy: "Ty", csBool: "Bool", csInt: "Int", csString: "String", csPayload: "Payload",
	csSliceValue: "List Value", csSlicePayload: "List Payload", csSliceTyOpt: "List (Option Ty)",
	csMapArg: "List (String × Value)", csStrMapPayload: "ConsGo.StrMap Payload", csStrMapTy: "ConsGo.StrMap Ty",
	csMarks: "List String", csSliceMarks: "List (List String)", csRules: "Rules Payload",
	csGoSet: "SetGo.GoSet Payload", csValueSet: "ConsGo.GoValueSet",
}

// containers the code builds and updates in place: never to be shared between two variables
var cMutable = map[cShape]bool{csSlicePayload: true, csSliceTyOpt: true, csStrMapPayload: true, csStrMapTy: true, csGoSet: true}

func consGoType(e ast.Expr) cShape {
	switch strings.ReplaceAll(src(e), " ", "") {
	case "Value":
		return csValue
	case "Type":
		return csTy
	case "bool":
		return csBool
	case "int":
		return csInt
	case "string":
		return csString
	case "[]Value":
		return csSliceValue
	case "map[string]Value":
		return csMapArg
	case "[]ValueMarks":
		return csSliceMarks
	case "ValueSet":
		return csValueSet
	}
	dieAt(e, "type %s", src(e))
	return 0
}

type cVal struct {
	sh cShape
	e  string
}

type cVar struct {
	name string
	v    cVal
}

// cEnv: the variables in scope, in declaration order
type cEnv []cVar

func (en cEnv) get(n string) (cVal, bool) {
	for i := len(en) - 1; i >= 0; i-- {
		if en[i].name == n {
			return en[i].v, true
		}
	}
	return cVal{}, false
}

func (en cEnv) set(n string, v cVal) cEnv {
	out := make(cEnv, len(en), len(en)+1)
	copy(out, en)
	for i := range out {
		if out[i].name == n {
			out[i].v = v
			return out
		}
	}
	return append(out, cVar{n, v})
}

// leave: the environment after a block — the outer variables with the values the block gave them
func (en cEnv) leave(inner cEnv) cEnv {
	out := make(cEnv, len(en))
	for i, x := range en {
		v, _ := inner.get(x.name)
		out[i] = cVar{x.name, v}
	}
	return out
}

type cBind struct{ name, rhs string }

func cWrap(bs []cBind, body string) string {
	for i := len(bs) - 1; i >= 0; i-- {
		body = "(Res.bind " + bs[i].rhs + " fun " + bs[i].name + " =>\n" + body + ")"
	}
	return body
}

const (
	chOrder = iota
	chBucketOrder
	chNorm
	chHash
	chN
)

var cHidName = [chN]string{"mapOrder", "bucketOrder", "norm", "hashOf"}
var cHidType = [chN]string{"List (String × Value) → List (String × Value)", "SetGo.GoMap Payload → SetGo.GoMap Payload", "String → String", "Ty → Payload → Int"}

type cUnit struct {
	name   string
	fd     *ast.FuncDecl
	params []cVar
	ret    cShape
	hid    [chN]bool
	nloops int
	nfresh map[string]int
	defs   []string
}

func (u *cUnit) hidArgs() string {
	s := ""
	for i := 0; i < chN; i++ {
		if u.hid[i] {
			s += " " + cHidName[i]
		}
	}
	return s
}

func (u *cUnit) hidDecl() string {
	s := ""
	for i := 0; i < chN; i++ {
		if u.hid[i] {
			s += " (" + cHidName[i] + " : " + cHidType[i] + ")"
		}
	}
	return s
}

const (
	cHidTok     = "«HID»"
	cHidDeclTok = "«HIDDECL»"
)

type ctr struct {
	funcs map[string]*ast.FuncDecl
	vars  map[string]*ast.ValueSpec
	file  map[string]string
	units map[string]*cUnit
	out   []string
	hdrFn []string
	api   map[string]string
}

func (t *ctr) use(goForm, lean string) string {
	t.api[goForm] = lean
	return lean
}

func (u *cUnit) fresh(base string) string {
	base = strings.TrimRight(base, "_")
	u.nfresh[base]++
	if n := u.nfresh[base]; n > 1 {
		return fmt.Sprintf("%s_%d", base, n)
	}
	return base + "_"
}

type cctx struct {
	t      *ctr
	u      *cUnit
	inLoop bool
}

func (t *ctr) ensure(name string, at ast.Node) *cUnit {
	if u := t.units[name]; u != nil {
		if u.fd == nil {
			dieAt(at, "recursive call of %s", name)
		}
		return u
	}
	fd := t.funcs[name]
	if fd == nil {
		dieAt(at, "call of %s, which is neither a function of package cty nor in the given API", name)
	}
	if fd.Recv != nil || fd.Type.TypeParams != nil {
		dieAt(fd, "method or generic function %s", name)
	}
	u := &cUnit{name: name, nfresh: map[string]int{}}
	t.units[name] = u // fd == nil marks "in progress"
	var en cEnv
	for _, f := range fd.Type.Params.List {
		sh := consGoType(f.Type)
		if len(f.Names) == 0 {
			dieAt(f, "unnamed parameter")
		}
		for _, n := range f.Names {
			v := cVar{n.Name, cVal{sh, u.fresh(n.Name)}}
			u.params = append(u.params, v)
			en = append(en, v)
		}
	}
	if fd.Type.Results == nil || len(fd.Type.Results.List) != 1 || len(fd.Type.Results.List[0].Names) != 0 {
		dieAt(fd, "%s must have exactly one unnamed result", name)
	}
	u.ret = consGoType(fd.Type.Results.List[0].Type)
	c := &cctx{t: t, u: u}
	body := c.stmts(fd.Body.List, en, func(cEnv) string {
		dieAt(fd.Body, "%s can reach the end of its body without a return", name)
		return ""
	})
	var ps []string
	for _, p := range u.params {
		ps = append(ps, "("+p.v.e+" : "+cLeanType[p.v.sh]+")")
	}
	p0, p1 := fset.Position(fd.Pos()), fset.Position(fd.End())
	where := fmt.Sprintf("cty/%s:%d-%d", filepath.Base(p0.Filename), p0.Line, p1.Line)
	sig := src(&ast.FuncDecl{Name: fd.Name, Type: fd.Type})
	def := fmt.Sprintf("/-- Go: `%s` (%s) -/\ndef %s%s %s : Res %s :=\n%s\n", sig, where, name, u.hidDecl(), strings.Join(ps, " "), atomType(cLeanType[u.ret]), indent(body))
	for _, d := range append(u.defs, def) {
		t.out = append(t.out, strings.ReplaceAll(strings.ReplaceAll(d, cHidDeclTok, u.hidDecl()), cHidTok, u.hidArgs()))
	}
	t.hdrFn = append(t.hdrFn, fmt.Sprintf("%s  (%s)", name, where))
	u.fd = fd
	return u
}

// ---------------------------------------------------------------- statements

func (c *cctx) stmts(list []ast.Stmt, en cEnv, k func(cEnv) string) string {
	if len(list) == 0 {
		return k(en)
	}
	s, rest := list[0], list[1:]
	next := func(e cEnv) string { return c.stmts(rest, e, k) }
	switch s := s.(type) {
	case *ast.BlockStmt:
		return c.stmts(s.List, en, func(inner cEnv) string { return next(en.leave(inner)) })
	case *ast.IfStmt:
		return c.ifStmt(s, en, next)
	case *ast.AssignStmt:
		return c.assign(s, en, next)
	case *ast.DeclStmt:
		gd, ok := s.Decl.(*ast.GenDecl)
		if !ok || gd.Tok != token.VAR || len(gd.Specs) != 1 {
			dieAt(s, "declaration %s", src(s))
		}
		vs := gd.Specs[0].(*ast.ValueSpec)
		if len(vs.Names) != 1 || len(vs.Values) != 0 || vs.Type == nil {
			dieAt(s, "declaration %s", src(s))
		}
		if sh := consGoType(vs.Type); sh != csSliceMarks {
			dieAt(s, "var of type %s", src(vs.Type))
		}
		c.noShadow(vs.Names[0], en)
		return next(en.set(vs.Names[0].Name, cVal{csSliceMarks, "([] : List (List String))"}))
	case *ast.RangeStmt:
		return c.rangeStmt(s, en, next)
	case *ast.ReturnStmt:
		if len(s.Results) != 1 {
			dieAt(s, "return with %d results", len(s.Results))
		}
		bs, v := c.expr(s.Results[0], en)
		if v.sh != c.u.ret {
			dieAt(s, "return of a %s where the function returns %s", cLeanType[v.sh], cLeanType[c.u.ret])
		}
		return cWrap(bs, "(Res.ok "+v.e+")")
	case *ast.ExprStmt:
		if call, ok := s.X.(*ast.CallExpr); ok {
			if id, ok := call.Fun.(*ast.Ident); ok && id.Name == "panic" && len(call.Args) == 1 {
				return "(Res.panic " + leanStr(c.panicText(call.Args[0])) + ")"
			}
		}
		dieAt(s, "expression statement %s", src(s))
	}
	dieAt(s, "statement %T: %s", s, strings.SplitN(src(s), "\n", 2)[0])
	return ""
}

// panicText: the panic value is not evaluated; its text is kept for the reader
func (c *cctx) panicText(e ast.Expr) string {
	if bl, ok := e.(*ast.BasicLit); ok && bl.Kind == token.STRING {
		s, _ := strconv.Unquote(bl.Value)
		return s
	}
	if call, ok := e.(*ast.CallExpr); ok && src(call.Fun) == "fmt.Errorf" && len(call.Args) > 0 {
		if bl, ok := call.Args[0].(*ast.BasicLit); ok && bl.Kind == token.STRING {
			s, _ := strconv.Unquote(bl.Value)
			return s
		}
	}
	dieAt(e, "panic value %s", src(e))
	return ""
}

func (c *cctx) noShadow(id *ast.Ident, en cEnv) {
	if _, ok := en.get(id.Name); ok {
		dieAt(id, "%s shadows a variable in scope", id.Name)
	}
}

func (c *cctx) ifStmt(s *ast.IfStmt, en cEnv, next func(cEnv) string) string {
	if s.Init != nil {
		dieAt(s, "if with an init statement")
	}
	bs, cv := c.expr(s.Cond, en)
	if cv.sh != csBool {
		dieAt(s.Cond, "condition is not a bool")
	}
	leave := func(inner cEnv) string { return next(en.leave(inner)) }
	th := c.stmts(s.Body.List, en, leave)
	var el string
	switch e := s.Else.(type) {
	case nil:
		el = next(en)
	case *ast.IfStmt:
		el = c.ifStmt(e, en, next)
	case *ast.BlockStmt:
		el = c.stmts(e.List, en, leave)
	default:
		dieAt(s.Else, "else branch")
	}
	return cWrap(bs, "(if "+cv.e+" then\n"+indent(th)+"\nelse\n"+indent(el)+")")
}

func (c *cctx) assign(s *ast.AssignStmt, en cEnv, next func(cEnv) string) string {
	if s.Tok != token.DEFINE && s.Tok != token.ASSIGN {
		dieAt(s, "assignment operator %s", s.Tok)
	}
	bind := func(lhs ast.Expr, v cVal, en cEnv) cEnv {
		id, ok := lhs.(*ast.Ident)
		if !ok {
			dieAt(lhs, "assignment target %s", src(lhs))
		}
		if id.Name == "_" {
			return en
		}
		old, exists := en.get(id.Name)
		if s.Tok == token.DEFINE {
			if exists {
				dieAt(id, "%s := redeclares or shadows a variable in scope", id.Name)
			}
		} else {
			if !exists {
				dieAt(id, "assignment to %s, which is not a local variable", id.Name)
			}
			if old.sh != v.sh {
				dieAt(id, "assignment changes the reading of %s", id.Name)
			}
		}
		return en.set(id.Name, v)
	}
	// a, b := v.UnmarkDeep()
	if len(s.Lhs) == 2 && len(s.Rhs) == 1 {
		call, ok := s.Rhs[0].(*ast.CallExpr)
		if ok {
			if sel, ok := call.Fun.(*ast.SelectorExpr); ok && sel.Sel.Name == "UnmarkDeep" && len(call.Args) == 0 {
				bs, x := c.expr(sel.X, en)
				if x.sh != csValue {
					dieAt(sel.X, "UnmarkDeep on something that is not a Value")
				}
				c.t.use("v.UnmarkDeep()", "(Value.unmarkDeep v, Value.marksDeep v)")
				en2 := bind(s.Lhs[0], cVal{csValue, "(Value.unmarkDeep " + x.e + ")"}, en)
				en2 = bind(s.Lhs[1], cVal{csMarks, "(Value.marksDeep " + x.e + ")"}, en2)
				return cWrap(bs, next(en2))
			}
		}
		dieAt(s, "two-valued assignment %s", src(s))
	}
	if len(s.Lhs) != 1 || len(s.Rhs) != 1 {
		dieAt(s, "assignment %s", src(s))
	}
	// xs[i] = e, m[k] = e
	if ix, ok := s.Lhs[0].(*ast.IndexExpr); ok {
		id, ok := ix.X.(*ast.Ident)
		if !ok || s.Tok != token.ASSIGN {
			dieAt(s, "indexed assignment %s", src(s))
		}
		cont, ok := en.get(id.Name)
		if !ok {
			dieAt(id, "%s is not a local variable", id.Name)
		}
		bs1, kx := c.expr(ix.Index, en)
		bs2, v := c.expr(s.Rhs[0], en)
		bs := append(bs1, bs2...)
		switch cont.sh {
		case csSlicePayload, csSliceTyOpt:
			elem := v.e
			if cont.sh == csSlicePayload && v.sh != csPayload || cont.sh == csSliceTyOpt && v.sh != csTy || kx.sh != csInt {
				dieAt(s, "indexed assignment %s", src(s))
			}
			if cont.sh == csSliceTyOpt {
				elem = "(some " + v.e + ")"
			}
			n := c.u.fresh(id.Name)
			c.t.use("xs[i] = e", "ConsGo.sliceSet")
			bs = append(bs, cBind{n, "(ConsGo.sliceSet " + cont.e + " " + kx.e + " " + elem + ")"})
			return cWrap(bs, next(en.set(id.Name, cVal{cont.sh, n})))
		case csStrMapPayload, csStrMapTy:
			if cont.sh == csStrMapPayload && v.sh != csPayload || cont.sh == csStrMapTy && v.sh != csTy || kx.sh != csString {
				dieAt(s, "indexed assignment %s", src(s))
			}
			c.t.use("m[k] = e", "ConsGo.mapSet")
			return cWrap(bs, next(en.set(id.Name, cVal{cont.sh, "(ConsGo.mapSet " + cont.e + " " + kx.e + " " + v.e + ")"})))
		}
		dieAt(s, "indexed assignment to %s", id.Name)
	}
	bs, v := c.expr(s.Rhs[0], en)
	if cMutable[v.sh] {
		switch s.Rhs[0].(type) {
		case *ast.CallExpr, *ast.CompositeLit:
		default:
			dieAt(s, "%s would share a slice, map or set with another variable", src(s))
		}
	}
	return cWrap(bs, next(bind(s.Lhs[0], v, en)))
}

// assignedIn: the variables of `en` that the statements under n assign (syntactic)
func assignedIn(n ast.Node, en cEnv) map[string]bool {
	set := map[string]bool{}
	add := func(e ast.Expr) {
		if ix, ok := e.(*ast.IndexExpr); ok {
			e = ix.X
		}
		if id, ok := e.(*ast.Ident); ok {
			if _, ok := en.get(id.Name); ok {
				set[id.Name] = true
			}
		}
	}
	ast.Inspect(n, func(x ast.Node) bool {
		switch s := x.(type) {
		case *ast.AssignStmt:
			for _, l := range s.Lhs {
				add(l)
			}
		case *ast.IncDecStmt:
			add(s.X)
		}
		return true
	})
	return set
}

func (c *cctx) rangeStmt(s *ast.RangeStmt, en cEnv, after func(cEnv) string) string {
	if c.inLoop {
		dieAt(s, "nested loop")
	}
	if s.Tok != token.DEFINE {
		dieAt(s, "range without :=")
	}
	ast.Inspect(s.Body, func(n ast.Node) bool {
		switch n.(type) {
		case *ast.BranchStmt, *ast.LabeledStmt, *ast.ForStmt, *ast.RangeStmt, *ast.FuncLit, *ast.GoStmt, *ast.DeferStmt, *ast.SelectStmt, *ast.SwitchStmt, *ast.TypeSwitchStmt:
			dieAt(n, "%T inside a loop body", n)
		}
		return true
	})
	xid, ok := s.X.(*ast.Ident)
	if !ok {
		dieAt(s.X, "range over %s", src(s.X))
	}
	xs, ok := en.get(xid.Name)
	if !ok || (xs.sh != csSliceValue && xs.sh != csMapArg) {
		dieAt(s.X, "range over %s, which is neither a []Value nor a map[string]Value parameter", xid.Name)
	}
	name := func(e ast.Expr) string {
		if e == nil {
			return "_"
		}
		id, ok := e.(*ast.Ident)
		if !ok {
			dieAt(e, "range variable %s", src(e))
		}
		if id.Name != "_" {
			c.noShadow(id, en)
		}
		return id.Name
	}
	kn, vn := name(s.Key), name(s.Value)
	c.u.nloops++
	fn := fmt.Sprintf("%s_loop%d", c.u.name, c.u.nloops)
	mut := assignedIn(s.Body, en)
	var fixedDecl, fixedArgs, stTypes, stPats, stArgs []string
	// the helper's parameters are ordered by their reading (declaration order only among equal readings), so that
	// renaming locals or reordering their declarations leaves the generated signature unchanged
	en = append(cEnv(nil), en...)
	sort.SliceStable(en, func(i, j int) bool { return en[i].v.sh < en[j].v.sh })
	inner := make(cEnv, len(en))
	for i, x := range en {
		p := c.u.fresh(x.name)
		inner[i] = cVar{x.name, cVal{x.v.sh, p}}
		if mut[x.name] {
			stTypes = append(stTypes, atomType(cLeanType[x.v.sh]))
			stPats = append(stPats, p)
			stArgs = append(stArgs, x.v.e)
		} else {
			fixedDecl = append(fixedDecl, "("+p+" : "+cLeanType[x.v.sh]+")")
			fixedArgs = append(fixedArgs, x.v.e)
		}
	}
	fixedInner := func() []string {
		var a []string
		for _, x := range inner {
			if !mut[x.name] {
				a = append(a, x.v.e)
			}
		}
		return a
	}()
	withIx := xs.sh == csSliceValue && kn != "_"
	bodyEnv := inner
	var elemPat, elemType string
	ixVar := ""
	if xs.sh == csSliceValue {
		elemType = "List Value"
		vp := "_"
		if vn != "_" {
			vp = c.u.fresh(vn)
			bodyEnv = bodyEnv.set(vn, cVal{csValue, vp})
		}
		elemPat = vp
		if withIx {
			ixVar = c.u.fresh(kn)
			bodyEnv = bodyEnv.set(kn, cVal{csInt, ixVar})
		}
		c.t.use("for i, v := range xs", "structural recursion over the list xs, i counted from 0")
	} else {
		elemType = "List (String × Value)"
		kp, vp := "_", "_"
		if kn != "_" {
			kp = c.u.fresh(kn)
			bodyEnv = bodyEnv.set(kn, cVal{csString, kp})
		}
		if vn != "_" {
			vp = c.u.fresh(vn)
			bodyEnv = bodyEnv.set(vn, cVal{csValue, vp})
		}
		elemPat = "(" + kp + ", " + vp + ")"
		c.u.hid[chOrder] = true
		c.t.use("for k, v := range m  (m a map[string]Value argument)", "the list mapOrder m (a parameter: any permutation of the entries of m)")
	}
	rest := c.u.fresh("rest")
	recur := func(e cEnv) string {
		var a []string
		a = append(a, fixedInner...)
		for _, x := range en {
			if mut[x.name] {
				v, _ := e.get(x.name)
				a = append(a, v.e)
			}
		}
		if withIx {
			a = append(a, "("+ixVar+" + 1)")
		}
		a = append(a, rest)
		return "(" + fn + cHidTok + " " + strings.Join(a, " ") + ")"
	}
	c.inLoop = true
	body := c.stmts(s.Body.List, bodyEnv, func(e cEnv) string { return recur(inner.leave(e)) })
	c.inLoop = false
	done := after(inner)
	var types, pat1, pat2 []string
	types = append(types, stTypes...)
	pat1 = append(pat1, stPats...)
	pat2 = append(pat2, stPats...)
	if withIx {
		types = append(types, "Int")
		pat1 = append(pat1, ixVar)
		pat2 = append(pat2, "_")
	}
	types = append(types, atomType(elemType))
	pat1 = append(pat1, elemPat+" :: "+rest)
	pat2 = append(pat2, "[]")
	def := fmt.Sprintf("/-- the `for %s := range %s` loop of `%s`, and what follows it -/\ndef %s%s %s : %s → Res %s\n  | %s =>\n%s\n  | %s =>\n%s\n",
		rangeVars(s), xid.Name, c.u.name, fn, cHidDeclTok, strings.Join(fixedDecl, " "), strings.Join(types, " → "), atomType(cLeanType[c.u.ret]),
		strings.Join(pat1, ", "), indent(indent(body)), strings.Join(pat2, ", "), indent(indent(done)))
	c.u.defs = append(c.u.defs, def)
	var a []string
	a = append(a, fixedArgs...)
	a = append(a, stArgs...)
	if withIx {
		a = append(a, "(0 : Int)")
	}
	if xs.sh == csMapArg {
		a = append(a, "(mapOrder "+xs.e+")")
	} else {
		a = append(a, xs.e)
	}
	return "(" + fn + cHidTok + " " + strings.Join(a, " ") + ")"
}

// ---------------------------------------------------------------- expressions

func (c *cctx) expr(e ast.Expr, en cEnv) ([]cBind, cVal) {
	switch x := e.(type) {
	case *ast.ParenExpr:
		return c.expr(x.X, en)
	case *ast.Ident:
		if v, ok := en.get(x.Name); ok {
			return nil, v
		}
		switch x.Name {
		case "true", "false":
			return nil, cVal{csBool, x.Name}
		case "nil":
			c.t.use("nil (as the interface{} under Value.v)", "Payload.null")
			return nil, cVal{csPayload, "Payload.null"}
		case "DynamicPseudoType":
			return nil, cVal{csTy, "Ty.dyn"}
		case "String":
			return nil, cVal{csTy, "Ty.string"}
		case "Bool":
			return nil, cVal{csTy, "Ty.bool"}
		case "Number":
			return nil, cVal{csTy, "Ty.number"}
		case "totallyUnknown":
			vs := c.t.vars[x.Name]
			if vs == nil || len(vs.Values) != 1 || strings.ReplaceAll(src(vs.Values[0]), " ", "") != "&unknownType{}" {
				dieAt(x, "totallyUnknown is not declared as &unknownType{}")
			}
			c.t.use("totallyUnknown (= &unknownType{}: no refinement)", "Payload.unk Rfn.unref")
			return nil, cVal{csPayload, "(Payload.unk Rfn.unref)"}
		}
		dieAt(x, "identifier %s", x.Name)
	case *ast.BasicLit:
		if x.Kind == token.INT {
			return nil, cVal{csInt, "(" + x.Value + " : Int)"}
		}
		dieAt(x, "literal %s", x.Value)
	case *ast.SelectorExpr:
		bs, v := c.expr(x.X, en)
		switch {
		case v.sh == csValue && x.Sel.Name == "ty":
			return bs, cVal{csTy, v.e + ".ty"}
		case v.sh == csValue && x.Sel.Name == "v":
			return bs, cVal{csPayload, v.e + ".v"}
		case v.sh == csValueSet && x.Sel.Name == "s":
			return bs, cVal{csGoSet, v.e + ".s"}
		}
		dieAt(x, "selector %s", src(x))
	case *ast.UnaryExpr:
		if x.Op == token.NOT {
			bs, v := c.expr(x.X, en)
			if v.sh != csBool {
				dieAt(x, "! of a non-bool")
			}
			return bs, cVal{csBool, "(!" + v.e + ")"}
		}
		dieAt(x, "unary %s", x.Op)
	case *ast.BinaryExpr:
		return c.binary(x, en)
	case *ast.CompositeLit:
		return c.composite(x, en)
	case *ast.CallExpr:
		return c.call(x, en)
	}
	dieAt(e, "expression %T: %s", e, src(e))
	return nil, cVal{}
}

func (c *cctx) binary(x *ast.BinaryExpr, en cEnv) ([]cBind, cVal) {
	isDyn := func(e ast.Expr) bool { id, ok := e.(*ast.Ident); return ok && id.Name == "DynamicPseudoType" }
	switch x.Op {
	case token.LAND, token.LOR:
		b1, l := c.expr(x.X, en)
		b2, r := c.expr(x.Y, en)
		if l.sh != csBool || r.sh != csBool {
			dieAt(x, "%s of non-bools", x.Op)
		}
		if len(b2) > 0 {
			dieAt(x.Y, "a call that may panic on the right of %s", x.Op)
		}
		op := " && "
		if x.Op == token.LOR {
			op = " || "
		}
		return b1, cVal{csBool, "(" + l.e + op + r.e + ")"}
	case token.EQL, token.NEQ:
		var bs []cBind
		var e string
		switch {
		case isDyn(x.Y) || isDyn(x.X):
			o := x.X
			if isDyn(x.X) {
				o = x.Y
			}
			b, v := c.expr(o, en)
			if v.sh != csTy {
				dieAt(x, "comparison of a non-Type with DynamicPseudoType")
			}
			c.t.use("t == DynamicPseudoType", "Gocty.isDynTy t")
			bs, e = b, "(Gocty.isDynTy "+v.e+")"
		default:
			b1, l := c.expr(x.X, en)
			b2, r := c.expr(x.Y, en)
			if l.sh != csInt || r.sh != csInt {
				dieAt(x, "%s on operands that are neither ints nor a Type against DynamicPseudoType (== on types can panic in Go)", x.Op)
			}
			bs, e = append(b1, b2...), "("+l.e+" == "+r.e+")"
		}
		if x.Op == token.NEQ {
			e = "(!" + e + ")"
		}
		return bs, cVal{csBool, e}
	}
	dieAt(x, "operator %s", x.Op)
	return nil, cVal{}
}

// underV: the Payload stored under Value.v for a Go value of the given reading
func (c *cctx) underV(v cVal, at ast.Node) string {
	switch v.sh {
	case csPayload:
		return v.e
	case csSlicePayload:
		c.t.use("[]interface{} stored under Value.v", "ConsGo.ifaceSlice (Payload.seq)")
		return "(ConsGo.ifaceSlice " + v.e + ")"
	case csStrMapPayload:
		c.t.use("map[string]interface{} stored under Value.v", "ConsGo.ifaceMap (Payload.smap)")
		return "(ConsGo.ifaceMap " + v.e + ")"
	case csGoSet:
		c.t.use("set.Set[interface{}] stored under Value.v", "ConsGo.ifaceSet (Payload.sset: bucket ids, members in bucket order)")
		return "(ConsGo.ifaceSet " + v.e + ")"
	case csString:
		c.t.use("string stored under Value.v", "Payload.s")
		return "(Payload.s " + v.e + ")"
	case csBool:
		c.t.use("bool stored under Value.v", "Payload.b")
		return "(Payload.b " + v.e + ")"
	}
	dieAt(at, "a %s stored under Value.v", cLeanType[v.sh])
	return ""
}

func (c *cctx) composite(x *ast.CompositeLit, en cEnv) ([]cBind, cVal) {
	switch strings.ReplaceAll(src(x.Type), " ", "") {
	case "Value":
		var bs []cBind
		var ty, v *cVal
		for _, el := range x.Elts {
			kv, ok := el.(*ast.KeyValueExpr)
			if !ok {
				dieAt(el, "Value literal without field names")
			}
			b, fv := c.expr(kv.Value, en)
			bs = append(bs, b...)
			switch src(kv.Key) {
			case "ty":
				ty = &fv
			case "v":
				v = &fv
			default:
				dieAt(kv.Key, "field %s of Value", src(kv.Key))
			}
		}
		if ty == nil || v == nil || len(x.Elts) != 2 || ty.sh != csTy {
			dieAt(x, "Value literal %s", src(x))
		}
		return bs, cVal{csValue, "(Value.mk " + ty.e + " " + c.underV(*v, x) + ")"}
	case "[]interface{}":
		if len(x.Elts) != 0 {
			dieAt(x, "non-empty slice literal")
		}
		return nil, cVal{csSlicePayload, "([] : List Payload)"}
	case "map[string]interface{}":
		if len(x.Elts) != 0 {
			dieAt(x, "non-empty map literal")
		}
		c.t.use("map[string]E{} / make(map[string]E, n)", "ConsGo.mapEmpty")
		return nil, cVal{csStrMapPayload, "(ConsGo.mapEmpty : ConsGo.StrMap Payload)"}
	}
	dieAt(x, "composite literal %s", src(x))
	return nil, cVal{}
}

func (c *cctx) call(call *ast.CallExpr, en cEnv) ([]cBind, cVal) {
	args := func(shapes ...cShape) ([]cBind, []cVal) {
		if len(call.Args) != len(shapes) || call.Ellipsis.IsValid() {
			dieAt(call, "call %s", src(call))
		}
		var bs []cBind
		var vs []cVal
		for i, a := range call.Args {
			b, v := c.expr(a, en)
			if v.sh != shapes[i] {
				dieAt(a, "argument %d of %s is a %s, not a %s", i+1, src(call.Fun), cLeanType[v.sh], cLeanType[shapes[i]])
			}
			bs = append(bs, b...)
			vs = append(vs, v)
		}
		return bs, vs
	}
	bindRes := func(bs []cBind, base, rhs string, sh cShape) ([]cBind, cVal) {
		n := c.u.fresh(base)
		return append(bs, cBind{n, rhs}), cVal{sh, n}
	}
	fun := strings.ReplaceAll(src(call.Fun), " ", "")
	switch fun {
	case "len":
		if len(call.Args) != 1 {
			dieAt(call, "len")
		}
		bs, v := c.expr(call.Args[0], en)
		switch v.sh {
		case csSliceValue, csSlicePayload, csSliceMarks, csSliceTyOpt:
			c.t.use("len(xs)", "ConsGo.len")
			return bs, cVal{csInt, "(ConsGo.len " + v.e + ")"}
		case csMapArg:
			c.t.use("len(m)  (m a map[string]Value argument)", "ConsGo.mapLen")
			return bs, cVal{csInt, "(ConsGo.mapLen " + v.e + ")"}
		}
		dieAt(call, "len of a %s", cLeanType[v.sh])
	case "make":
		if len(call.Args) != 2 {
			dieAt(call, "make with %d arguments", len(call.Args))
		}
		bs, n := c.expr(call.Args[1], en)
		if n.sh != csInt {
			dieAt(call, "make with a non-int size")
		}
		switch strings.ReplaceAll(src(call.Args[0]), " ", "") {
		case "[]interface{}":
			c.t.use("make([]interface{}, n)", "ConsGo.sliceMake Payload.null n  (n nil interfaces)")
			return bindRes(bs, "made", "(ConsGo.sliceMake Payload.null "+n.e+")", csSlicePayload)
		case "[]Type":
			c.t.use("make([]Type, n)", "ConsGo.sliceMake none n  (n zero Types, which are not types: Tuple of one is unmodelled)")
			return bindRes(bs, "made", "(ConsGo.sliceMake (none : Option Ty) "+n.e+")", csSliceTyOpt)
		case "map[string]interface{}":
			c.t.use("map[string]E{} / make(map[string]E, n)", "ConsGo.mapEmpty")
			return bs, cVal{csStrMapPayload, "(ConsGo.mapEmpty : ConsGo.StrMap Payload)"}
		case "map[string]Type":
			c.t.use("map[string]E{} / make(map[string]E, n)", "ConsGo.mapEmpty")
			return bs, cVal{csStrMapTy, "(ConsGo.mapEmpty : ConsGo.StrMap Ty)"}
		}
		dieAt(call, "make of %s", src(call.Args[0]))
	case "append":
		bs, vs := args(csSliceMarks, csMarks)
		return bs, cVal{csSliceMarks, "(" + vs[0].e + " ++ [" + vs[1].e + "])"}
	case "ctystrings.Normalize":
		bs, vs := args(csString)
		c.u.hid[chNorm] = true
		c.t.use("ctystrings.Normalize", "norm (a parameter)")
		return bs, cVal{csString, "(norm " + vs[0].e + ")"}
	case "List", "Map", "Set":
		bs, vs := args(csTy)
		return bs, cVal{csTy, "(Ty." + strings.ToLower(fun) + " " + vs[0].e + ")"}
	case "Tuple":
		bs, vs := args(csSliceTyOpt)
		c.t.use("Tuple(elemTypes)", "ConsGo.tyTuple")
		return bindRes(bs, "tuple", "(ConsGo.tyTuple "+vs[0].e+")", csTy)
	case "Object":
		bs, vs := args(csStrMapTy)
		c.u.hid[chNorm] = true
		c.t.use("Object(attrTypes)", "ConsGo.tyObject norm  (cty/object_type.go: the names are normalised once more)")
		return bs, cVal{csTy, "(ConsGo.tyObject norm " + vs[0].e + ")"}
	case "set.NewSet":
		bs, vs := args(csRules)
		c.t.use("set.NewSet", "Generated.SetFns.NewSet (translated from cty/set)")
		return bindRes(bs, "set", "(Generated.SetFns.NewSet "+vs[0].e+")", csGoSet)
	case "set.NewSetFromSlice":
		bs, vs := args(csRules, csSlicePayload)
		c.t.use("set.NewSetFromSlice", "Generated.SetFns.NewSetFromSlice (translated from cty/set)")
		return bindRes(bs, "set", "(Generated.SetFns.NewSetFromSlice "+vs[0].e+" "+vs[1].e+")", csGoSet)
	case "set.Rules[interface{}]":
		if len(call.Args) == 1 {
			if cl, ok := call.Args[0].(*ast.CompositeLit); ok && src(cl.Type) == "setRules" && len(cl.Elts) == 1 {
				bs, t := c.expr(cl.Elts[0], en)
				if _, isKV := cl.Elts[0].(*ast.KeyValueExpr); !isKV && t.sh == csTy {
					c.u.hid[chHash] = true
					c.t.use("set.Rules[interface{}](setRules{ety})", "ConsGo.setRules hashOf ety  (Equivalent = equivP ety, Hash = the parameter hashOf ety)")
					return bs, cVal{csRules, "(ConsGo.setRules hashOf " + t.e + ")"}
				}
			}
		}
		dieAt(call, "conversion %s", src(call))
	}
	if sel, ok := call.Fun.(*ast.SelectorExpr); ok {
		{
			if id, ok := sel.X.(*ast.Ident); ok {
				if _, local := en.get(id.Name); !local {
					dieAt(call, "call %s outside the given API", src(call.Fun))
				}
			}
			bs, recv := c.expr(sel.X, en)
			switch {
			case recv.sh == csTy && sel.Sel.Name == "Equals":
				b2, vs := args(csTy)
				c.t.use("Type.Equals", "Ty.equals (tied to the source by Lemmas/TyFnsTie.lean)")
				return append(bs, b2...), cVal{csBool, "(Ty.equals " + recv.e + " " + vs[0].e + ")"}
			case recv.sh == csValue && sel.Sel.Name == "ContainsMarked":
				args()
				c.t.use("Value.ContainsMarked", "Value.containsMarked")
				return bs, cVal{csBool, "(Value.containsMarked " + recv.e + ")"}
			case recv.sh == csValue && sel.Sel.Name == "WithMarks":
				if len(call.Args) != 1 || !call.Ellipsis.IsValid() {
					dieAt(call, "WithMarks without a spread slice of mark sets")
				}
				b2, ms := c.expr(call.Args[0], en)
				if ms.sh != csSliceMarks {
					dieAt(call, "WithMarks of a %s", cLeanType[ms.sh])
				}
				c.t.use("Value.WithMarks(sets...)", "Fn.withMarkSets")
				return append(bs, b2...), cVal{csValue, "(Fn.withMarkSets " + recv.e + " " + ms.e + ")"}
			case recv.sh == csValueSet && sel.Sel.Name == "ElementType":
				args()
				c.t.use("ValueSet.ElementType", "the field ety of ConsGo.GoValueSet (the Type its setRules carry)")
				return bs, cVal{csTy, recv.e + ".ety"}
			case recv.sh == csGoSet && sel.Sel.Name == "Copy":
				args()
				c.u.hid[chBucketOrder] = true
				c.t.use("Set.Copy", "Generated.SetFns.Set_Copy bucketOrder (translated from cty/set; bucketOrder = the order in which it ranges over the buckets, a parameter)")
				return bindRes(bs, "copy", "(Generated.SetFns.Set_Copy bucketOrder "+recv.e+".vals "+recv.e+".rules)", csGoSet)
			}
			dieAt(call, "method call %s outside the given API", src(call.Fun))
		}
	}
	if id, ok := call.Fun.(*ast.Ident); ok {
		if _, local := en.get(id.Name); local {
			dieAt(call, "call of the local %s", id.Name)
		}
		u := c.t.ensure(id.Name, call)
		var shapes []cShape
		for _, p := range u.params {
			shapes = append(shapes, p.v.sh)
		}
		bs, vs := args(shapes...)
		a := ""
		for i := 0; i < chN; i++ {
			if u.hid[i] {
				c.u.hid[i] = true
				a += " " + cHidName[i]
			}
		}
		for _, v := range vs {
			a += " " + v.e
		}
		return bindRes(bs, "x", "("+u.name+a+")", u.ret)
	}
	dieAt(call, "call %s", src(call))
	return nil, cVal{}
}

// ---------------------------------------------------------------- entry

func translateConsFns(repo, leanDir, hdr string) int {
	t := &ctr{funcs: map[string]*ast.FuncDecl{}, vars: map[string]*ast.ValueSpec{}, file: map[string]string{}, units: map[string]*cUnit{}, api: map[string]string{}}
	for _, f := range parseDir(filepath.Join(repo, "cty")) {
		for _, d := range f.Decls {
			switch d := d.(type) {
			case *ast.FuncDecl:
				if d.Body != nil && d.Recv == nil {
					t.funcs[d.Name.Name] = d
				}
			case *ast.GenDecl:
				if d.Tok == token.VAR {
					for _, s := range d.Specs {
						vs := s.(*ast.ValueSpec)
						for _, n := range vs.Names {
							t.vars[n.Name] = vs
						}
					}
				}
			}
		}
	}
	for _, r := range consRoots {
		if t.funcs[r] == nil {
			die("translate_cons: %s not found in package cty", r)
		}
		t.ensure(r, t.funcs[r])
	}
	var b strings.Builder
	b.WriteString(hdr)
	b.WriteString("-- Translation of the value constructors of cty/value_init.go, cty/null.go, cty/unknown.go (extract/translate_cons.go);\n")
	b.WriteString("-- tied to the hand-written constructors of the C06 theorems by CtyModel/Lemmas/ConsFnsTie.lean.\n--\n")
	b.WriteString("-- TRANSLATED from the source text, statement by statement (a Go panic is `Res.panic`; the code after an `if` is\n")
	b.WriteString("-- repeated in both branches; a `range` loop is a structurally recursive helper whose `[]` case is the code after it):\n")
	for _, h := range t.hdrFn {
		b.WriteString("--   " + h + "\n")
	}
	b.WriteString("-- NOT translated: UnknownAsNull (element iterators, recursion that is not structural in the Go text), CapsuleVal\n")
	b.WriteString("-- (reflect), the number constructors (math/big: see Generated/OpsFns.lean for the arithmetic).\n")
	b.WriteString("-- GIVEN API (CtyModel/ConsGo.lean), assumed to be what the code does: Value ↦ CtyModel.Value (fields ty, v), Type ↦ Ty,\n")
	b.WriteString("-- interface{} under v ↦ Payload, []Value ↦ List Value, map[string]Value ↦ its entry list (distinct keys),\n")
	b.WriteString("-- ValueMarks ↦ sorted list of mark names, DynamicPseudoType ↦ Ty.dyn, String/Bool ↦ Ty.string/Ty.bool,\n")
	b.WriteString("-- List/Map/Set(t) ↦ Ty.list/map/set t; the value passed to panic is not evaluated; and\n")
	var keys []string
	for k := range t.api {
		keys = append(keys, k)
	}
	sort.Strings(keys)
	for _, k := range keys {
		b.WriteString("--   " + k + " ↦ " + t.api[k] + "\n")
	}
	b.WriteString("import CtyModel.ConsGo\nset_option linter.unusedVariables false\nnamespace CtyModel.Generated.ConsFns\n\n")
	b.WriteString(strings.Join(t.out, "\n"))
	b.WriteString("\nend CtyModel.Generated.ConsFns\n")
	writeIfChanged(filepath.Join(leanDir, "ConsFns.lean"), b.String())
	return len(t.out)
}
