// Go→Lean translator for the path machinery (property C19): cty/path.go — GetAttrStep.Apply, IndexStep.Apply,
// Path.Apply, Path.LastStep, Path.Equals, Path.HasPrefix, Path.Copy and the path constructors — cty/path_set.go —
// pathSetRules.Hash, Equivalent, SameRules and the PathSet methods (NewPathSet excepted) — and Walk / walk of
// cty/walk.go.  It writes lean/CtyModel/Generated/PathFns.lean; Lemmas/PathFnsTie.lean
// proves the generated definitions equal to the hand-written model (CtyModel/Path.lean, PathSet.lean), so the C19
// theorems about paths and path sets are re-checked against what the source says on every run.
//
// Like translate.go this is a SYNTACTIC FRAGMENT, not Go semantics; anything else is an error with the source
// position (exit 1 = broken tie):
//
//	statements   x := e | x = e | x, err = f(…) | a, _ := v.Unmark() | v, ok := X.(K) | var err error | { … }
//	             xs[i] = e (a slice under construction) | copy(dst, src) | h.Write(bs) | panic(…)
//	             if [init;] c {…} [else …] | switch [tag] { case …: … [default: …] } | switch [x :=] y.(type) {…}
//	             for [i][, v] := range <path> {…}   (no nesting, no break/continue/labels)
//	             for it := <set>.Iterator(); it.Next(); {… it.Value() …}
//	             for it := <value>.ElementIterator(); it.Next(); { k, e := it.Element() … }
//	             for i := a; i <= b; i++ {…}  (also <; a, b and i not assigned in the body: Int.toNat (b - a + 1) iterations)
//	             s.set.Add(p) | s.Add(p)  (a PathSet method without a result returns the new state of the wrapped set)
//	             x…, err := f(…, cb) | x, err := cb(…) | return f(…, cb)   (callbacks, see below)
//	             return e… (the error result statically nil or non-nil)
//	expressions  identifiers, field selection on a step struct, K{Field: e}, Path{}, len, make(Path, n), xs[i], xs[:n],
//	             !, &&, ||, ==, != (also against nil, NilVal, the primitive types), <, >, <=, >=, +, - on int,
//	             int(…), int64(…), []byte(…), errors.New, fmt.Errorf, calls of other functions/methods of the two files
//	             (translated on demand), method calls through the interface PathStep (a match over its two
//	             implementations), calls of the GIVEN API (tables below; lean/CtyModel/PathGo.lean)
//
// A Go `(T…, error)` function is read as `Res (T…)`; whether an error variable is nil is tracked statically (every
// call that returns an error splits the translation into the two continuations), so `if err != nil` folds.
// A function with a callback parameter `func(Path, Value) (bool, error)` is read as in CtyModel/Walk.lean: it takes
// the log of callback invocations so far and returns the log with its outcome; the callback is a `Walk.WalkCb`.  A
// declared recursive root (`walk`) gets a fuel argument, its loops take the recursion as `self`.
package main

import (
	"fmt"
	"go/ast"
	"go/token"
	"path/filepath"
	"sort"
	"strconv"
	"strings"
)

// ---------------------------------------------------------------- configuration (the reading of Go data)

var ptRoots = []string{
	"GetAttrStep.Apply", "IndexStep.Apply", "Path.Apply", "Path.LastStep", "Path.Equals", "Path.HasPrefix", "Path.Copy",
	"Path.Index", "Path.IndexInt", "Path.IndexString", "Path.GetAttr", "IndexPath", "IndexIntPath", "IndexStringPath", "GetAttrPath",
	"pathSetRules.Hash", "pathSetRules.Equivalent", "pathSetRules.SameRules",
	"PathSet.Add", "PathSet.AddAllSteps", "PathSet.Has", "PathSet.List", "PathSet.Remove", "PathSet.Empty",
	"PathSet.Union", "PathSet.Intersection", "PathSet.Subtract", "PathSet.SymmetricDifference", "PathSet.Equal",
	"Walk",
}

// functions that may call themselves: translated with a fuel argument
var ptRecRoots = map[string]bool{"walk": true}

var ptFiles = map[string]bool{"path.go": true, "path_set.go": true, "walk.go": true}

type ptShape int

const (
	ptBool ptShape = iota
	ptInt
	ptNat // a range index
	ptStr
	ptBytes
	ptVal
	ptTy
	ptStep    // a value of the interface PathStep (never nil)
	ptStepOpt // a PathStep result: may be nil
	ptPath
	ptPathOpt // a slice under construction
	ptStruct  // GetAttrStep / IndexStep, flattened into its fields
	ptErr     // an error: konst 1 = nil, 2 = not nil (e = its tag)
	ptHash
	ptU64
	ptRules
	ptMarks
	ptEmpty // pathSetRules{}
	ptSet   // set.Set[Path]
	ptPSet  // PathSet: the struct around its one field `set`
	ptPaths // []Path
	ptIter  // the iterator variable of a loop
	ptCb    // func(Path, Value) (bool, error)
	ptLog   // the invocations of the callback so far
	ptPoison
	ptNil
	ptNilVal
)

func ptLeanType(sh ptShape) string {
	switch sh {
	case ptBool:
		return "Bool"
	case ptInt:
		return "Int"
	case ptNat, ptU64:
		return "Nat"
	case ptStr:
		return "String"
	case ptBytes:
		return "List UInt8"
	case ptVal:
		return "Value"
	case ptTy:
		return "Ty"
	case ptStep:
		return "PathStep"
	case ptStepOpt:
		return "Option PathStep"
	case ptPath:
		return "List PathStep"
	case ptPathOpt:
		return "List (Option PathStep)"
	case ptHash:
		return "PathGo.Hash64"
	case ptRules:
		return "PathGo.RulesImpl"
	case ptMarks:
		return "List String"
	case ptSet, ptPSet:
		return "SetImpl (List PathStep)"
	case ptPaths:
		return "List (List PathStep)"
	case ptCb:
		return "Walk.WalkCb"
	case ptLog:
		return "List Walk.Visit"
	}
	panic("ptLeanType")
}

type ptVal_ struct {
	sh     ptShape
	e      string
	konst  int // ptBool: 1 = known true, 2 = known false; ptErr: 1 = nil, 2 = not nil
	kind   *ptKind
	fields map[string]ptVal_
	why    string
}

type ptField struct {
	name string
	sh   ptShape
}

// ptKind: an implementation of PathStep and its reading as a constructor
type ptKind struct {
	goType string
	ctor   string
	fields []ptField
}

var ptKinds = []*ptKind{
	{"GetAttrStep", "PathStep.getAttr", []ptField{{"Name", ptStr}}},
	{"IndexStep", "PathStep.index", []ptField{{"Key", ptVal}}},
}

func ptKindOf(s string) *ptKind {
	for _, k := range ptKinds {
		if k.goType == s {
			return k
		}
	}
	return nil
}

func (k *ptKind) mk(exprs []string) ptVal_ {
	v := ptVal_{sh: ptStruct, kind: k, fields: map[string]ptVal_{}}
	for i, f := range k.fields {
		v.fields[f.name] = ptVal_{sh: f.sh, e: exprs[i]}
	}
	return v
}

// pack: the struct as a value of the interface
func (v ptVal_) pack() string {
	var a []string
	for _, f := range v.kind.fields {
		a = append(a, v.fields[f.name].e)
	}
	return "(" + v.kind.ctor + " " + strings.Join(a, " ") + ")"
}

// the GIVEN API (lean/CtyModel/PathGo.lean and the hand-written operations model)
type ptPrim struct {
	lean string
	args []ptShape
	ret  ptShape
	res  bool // returns Res (the Go function can panic)
}

var ptValueMethods = map[string]ptPrim{
	"IsNull":             {"Value.isNull", nil, ptBool, false},
	"IsKnown":            {"Value.isKnown", nil, ptBool, false},
	"IsMarked":           {"Value.isMarked", nil, ptBool, false},
	"Type":               {"Value.ty", nil, ptTy, false},
	"HasIndex":           {"Value.hasIndex", []ptShape{ptVal}, ptVal, true},
	"Index":              {"Value.index", []ptShape{ptVal}, ptVal, true},
	"GetAttr":            {"Value.getAttr", []ptShape{ptStr}, ptVal, true},
	"True":               {"Value.isTrue", nil, ptBool, false},
	"False":              {"PathGo.valFalse", nil, ptBool, false},
	"Equals":             {"Value.equals", []ptShape{ptVal}, ptVal, true},
	"RawEquals":          {"Value.rawEquals X", []ptShape{ptVal}, ptBool, true},
	"AsString":           {"PathGo.asString", nil, ptStr, true},
	"CanIterateElements": {"PathGo.canIterateElements", nil, ptBool, false},
}

var ptTypeMethods = map[string]ptPrim{
	"IsListType":   {"PathGo.isListType", nil, ptBool, false},
	"IsSetType":    {"PathGo.isSetType", nil, ptBool, false},
	"IsMapType":    {"PathGo.isMapType", nil, ptBool, false},
	"IsTupleType":  {"PathGo.isTupleType", nil, ptBool, false},
	"IsObjectType": {"PathGo.isObjectType", nil, ptBool, false},
	"HasAttribute": {"PathGo.hasAttribute", []ptShape{ptStr}, ptBool, true},
	"ElementType":  {"PathStep.elementType", nil, ptTy, true},
}

var ptFuncPrims = map[string]ptPrim{
	"UnknownVal":   {"Value.unknown", []ptShape{ptTy}, ptVal, false},
	"NumberIntVal": {"Value.intVal", []ptShape{ptInt}, ptVal, false},
	"StringVal":    {"Value.strVal", []ptShape{ptStr}, ptVal, false},
}

var ptNamedVals = map[string]ptVal_{
	"DynamicVal": {sh: ptVal, e: "Value.dynVal"},
	"NilVal":     {sh: ptNilVal},
	"Number":     {sh: ptTy, e: "Ty.number"},
	"String":     {sh: ptTy, e: "Ty.string"},
	"Bool":       {sh: ptTy, e: "Ty.bool"},
}

// `t == <primitive type>`
var ptTyEq = map[string]string{"Ty.number": "PathGo.isNumber", "Ty.string": "PathGo.isString", "Ty.bool": "PathGo.isBool"}

// package-level variables: the initialiser must be exactly this text
var ptGlobals = map[string]struct {
	init string
	v    ptVal_
}{
	"crc64Table":           {"crc64.MakeTable(crc64.ISO)", ptVal_{sh: ptEmpty, e: "crc64Table"}},
	"indexStepPlaceholder": {"", ptVal_{sh: ptBytes, e: "indexStepPlaceholder"}}, // translated: []byte(<string literal>)
}

func ptTypeShape(n ast.Node, s string) ptShape {
	switch s {
	case "Value":
		return ptVal
	case "bool":
		return ptBool
	case "int":
		return ptInt
	case "string":
		return ptStr
	case "Type":
		return ptTy
	case "Path":
		return ptPath
	case "PathStep":
		return ptStep
	case "error":
		return ptErr
	case "set.Rules[Path]":
		return ptRules
	case "PathSet":
		return ptPSet
	case "[]Path":
		return ptPaths
	case "func(Path, Value) (bool, error)":
		return ptCb
	}
	if ptKindOf(s) != nil {
		return ptStruct
	}
	dieAt(n, "type %s", s)
	return 0
}

// ---------------------------------------------------------------- translator state

type ptParam struct {
	name string
	sh   ptShape
}

type ptUnit struct {
	key, name  string
	recvSh     ptShape // ptPath, ptStruct, ptEmpty; -1: none
	recvKind   *ptKind
	params     []leanVar
	goParams   []ptParam
	rets       []ptShape // without the error
	hasErr     bool
	needsX     bool
	needsR     bool
	traced     bool   // takes a callback: threads the log of its invocations, returns log × outcome
	cbName     string // Go name of the callback parameter
	cbLean     string
	proc       bool   // no result: the unit returns the new state of its receiver's set
	recvName   string // Go name of the receiver (procs)
	inProgress bool
	lines      string
}

func (u *ptUnit) retType() string {
	if u.traced {
		return "List Walk.Visit × " + u.resType()
	}
	return u.resType()
}

// selfSig: the type of a recursive root once X, R and the callback are fixed
func (u *ptUnit) selfSig() string {
	var ts []string
	for _, p := range u.params {
		ts = append(ts, atomType(p.typ))
	}
	return strings.Join(append(ts, u.retType()), " → ")
}

func (u *ptUnit) resType() string {
	if len(u.rets) == 0 {
		return "Res Unit"
	}
	var ts []string
	for _, r := range u.rets {
		ts = append(ts, atomType(ptLeanType(r)))
	}
	if len(ts) == 1 {
		return "Res " + ts[0]
	}
	return "Res (" + strings.Join(ts, " × ") + ")"
}

type ptTr struct {
	funcs   map[string]*ast.FuncDecl
	file    map[string]string
	globals map[string]ast.Expr
	units   map[string]*ptUnit
	order   []*ptUnit
	out     []string
	used    map[string]string // given API actually used: Go name ↦ Lean name
	gdefs   map[string]bool
}

type ptEnv map[string]ptVal_

func (e ptEnv) with(k string, v ptVal_) ptEnv {
	if k == "" || k == "_" {
		return e
	}
	n := make(ptEnv, len(e)+1)
	for a, b := range e {
		n[a] = b
	}
	n[k] = v
	return n
}

type ptCtx struct {
	t      *ptTr
	u      *ptUnit
	ltype  map[string]string
	order  []string
	nloops int
	inLoop bool
	// inside `for i := range xs`: xs[i] is the current element
	curXs, curIx string
	curElem      ptVal_
}

func (c *ptCtx) fresh(base, typ string) string {
	base = strings.TrimRight(base, "_")
	n := base + "_"
	for i := 2; c.ltype[n] != ""; i++ {
		n = fmt.Sprintf("%s_%d", base, i)
	}
	c.ltype[n] = typ
	c.order = append(c.order, n)
	return n
}

const ptLogKey = "·log"

// wrapT: the binds around a body; in a traced unit the callback log is handed to every early exit
func (c *ptCtx) wrapT(en ptEnv, bs []bind, body string) string {
	if !c.u.traced {
		return wrap(bs, body)
	}
	for i := len(bs) - 1; i >= 0; i-- {
		c.t.use("a callee that can panic, in a function with a callback", "PathGo.bindT (the log as it stands is returned with the panic)")
		body = "(PathGo.bindT " + en[ptLogKey].e + " " + bs[i].rhs + " fun " + bs[i].pat + " =>\n" + body + ")"
	}
	return body
}

// the three ways a function ends
func (c *ptCtx) okT(en ptEnv, e string) string {
	if c.u.traced {
		return "(" + en[ptLogKey].e + ", Res.ok " + e + ")"
	}
	return "(Res.ok " + e + ")"
}
func (c *ptCtx) errT(en ptEnv, tag string) string {
	if c.u.traced {
		return "(" + en[ptLogKey].e + ", Res.err " + tag + ")"
	}
	return "(Res.err " + tag + ")"
}
func (c *ptCtx) panicT(en ptEnv, msg string) string {
	if c.u.traced {
		return "(" + en[ptLogKey].e + ", Res.panic " + msg + ")"
	}
	return "(Res.panic " + msg + ")"
}

func ptBoolV(e string) ptVal_ { return ptVal_{sh: ptBool, e: e} }
func ptConst(b bool) ptVal_ {
	if b {
		return ptVal_{sh: ptBool, e: "true", konst: 1}
	}
	return ptVal_{sh: ptBool, e: "false", konst: 2}
}

func (t *ptTr) use(goName, lean string) { t.used[goName] = lean }

// ---------------------------------------------------------------- functions

func (t *ptTr) ensure(key string, at ast.Node) *ptUnit {
	if u := t.units[key]; u != nil {
		if u.inProgress && !ptRecRoots[key] {
			dieAt(at, "recursion through %s, which is not a declared recursive root of the translation", key)
		}
		return u
	}
	fd := t.funcs[key]
	if fd == nil {
		dieAt(at, "call of %s, which is neither a function of cty/path.go, cty/path_set.go, cty/walk.go nor part of the given API", key)
	}
	return t.translate(key, fd)
}

func (t *ptTr) translate(key string, fd *ast.FuncDecl) *ptUnit {
	u := &ptUnit{key: key, name: strings.ReplaceAll(key, ".", "_"), recvSh: -1, inProgress: true}
	if key == "Walk" { // `Walk` is a namespace of the model
		u.name = "go_Walk"
	}
	t.units[key] = u
	c := &ptCtx{t: t, u: u, ltype: map[string]string{"X": "SetOracle", "R": "Rules (List PathStep)"}, order: []string{"X", "R"}}
	en := ptEnv{}
	addParam := func(goName string, sh ptShape) ptVal_ {
		n := c.fresh(goName, ptLeanType(sh))
		u.params = append(u.params, leanVar{n, ptLeanType(sh)})
		return ptVal_{sh: sh, e: n}
	}
	if fd.Recv != nil {
		r := fd.Recv.List[0]
		rn := ""
		if len(r.Names) == 1 {
			rn = r.Names[0].Name
		}
		ts := src(r.Type)
		switch {
		case ts == "Path":
			u.recvSh = ptPath
			if rn == "" {
				rn = "recv"
			}
			en = en.with(rn, addParam(rn, ptPath))
		case ptKindOf(ts) != nil:
			k := ptKindOf(ts)
			u.recvSh, u.recvKind = ptStruct, k
			if rn == "" {
				rn = "recv"
			}
			var ex []string
			for _, f := range k.fields {
				ex = append(ex, addParam(rn+"_"+f.name, f.sh).e)
			}
			en = en.with(rn, k.mk(ex))
		case ts == "pathSetRules":
			u.recvSh = ptEmpty
			en = en.with(rn, ptVal_{sh: ptEmpty})
		case ts == "PathSet":
			u.recvSh = ptPSet
			if rn == "" {
				rn = "recv"
			}
			u.recvName = rn
			v := addParam(rn+"_set", ptPSet)
			en = en.with(rn, v)
		default:
			dieAt(r, "receiver type %s", ts)
		}
	}
	for _, f := range fd.Type.Params.List { // a callback parameter makes the unit a traced one: the log comes first
		if _, ok := f.Type.(*ast.FuncType); ok && !u.traced {
			u.traced = true
			en = en.with(ptLogKey, addParam("log", ptLog))
		}
	}
	for _, f := range fd.Type.Params.List {
		if _, ok := f.Type.(*ast.Ellipsis); ok {
			dieAt(f, "variadic parameter")
		}
		sh := ptTypeShape(f.Type, strings.Join(strings.Fields(src(f.Type)), " "))
		if sh == ptStruct || sh == ptErr {
			dieAt(f, "parameter of type %s", src(f.Type))
		}
		if len(f.Names) == 0 {
			dieAt(f, "unnamed parameter")
		}
		for _, nm := range f.Names {
			u.goParams = append(u.goParams, ptParam{nm.Name, sh})
			if sh == ptCb { // fixed through the recursion: declared before the colon
				if u.cbName != "" {
					dieAt(f, "a second callback parameter")
				}
				u.cbName, u.cbLean = nm.Name, c.fresh(nm.Name, ptLeanType(ptCb))
				en = en.with(nm.Name, ptVal_{sh: ptCb, e: u.cbLean})
				continue
			}
			en = en.with(nm.Name, addParam(nm.Name, sh))
		}
	}
	if ptRecRoots[key] {
		c.ltype["self"] = u.selfSig()
		c.order = append(c.order, "self")
	}
	if fd.Type.Results == nil || len(fd.Type.Results.List) == 0 {
		if u.recvSh != ptPSet {
			dieAt(fd, "function without a result")
		}
		u.proc, u.rets = true, []ptShape{ptPSet}
		fd.Type.Results = &ast.FieldList{}
	}
	for i, r := range fd.Type.Results.List {
		if len(r.Names) != 0 {
			dieAt(r, "named result")
		}
		sh := ptTypeShape(r.Type, src(r.Type))
		switch {
		case sh == ptErr && i == len(fd.Type.Results.List)-1:
			u.hasErr = true
		case sh == ptStep:
			u.rets = append(u.rets, ptStepOpt)
		case sh == ptErr || sh == ptStruct || sh == ptRules:
			dieAt(r, "result type %s", src(r.Type))
		default:
			u.rets = append(u.rets, sh)
		}
	}
	body := c.block(fd.Body.List, en, func(e ptEnv) string {
		if u.proc {
			return c.okT(e, e[u.recvName].e)
		}
		dieAt(fd.Body, "control reaches the end of a function with a result")
		return ""
	})
	u.needsX = tokens(body)["X"]
	u.needsR = tokens(body)["R"]
	u.inProgress = false
	p0, p1 := fset.Position(fd.Pos()), fset.Position(fd.End())
	u.lines = fmt.Sprintf("cty/%s:%d-%d", t.file[key], p0.Line, p1.Line)
	doc := fmt.Sprintf("/-- Go: `%s` (%s) -/\n", strings.Join(strings.Fields(src(&ast.FuncDecl{Recv: fd.Recv, Name: fd.Name, Type: fd.Type})), " "), u.lines)
	var ps []string
	if u.needsX {
		ps = append(ps, "(X : SetOracle)")
	}
	if u.needsR {
		ps = append(ps, "(R : Rules (List PathStep))")
	}
	fixedNames := ""
	if u.needsX {
		fixedNames += " X"
	}
	if u.needsR {
		fixedNames += " R"
	}
	if u.cbLean != "" {
		ps = append(ps, fmt.Sprintf("(%s : %s)", u.cbLean, ptLeanType(ptCb)))
		fixedNames += " " + u.cbLean
	}
	fixed := strings.Join(ps, " ")
	var names []string
	for _, p := range u.params {
		ps = append(ps, fmt.Sprintf("(%s : %s)", p.name, p.typ))
		names = append(names, p.name)
	}
	t.order = append(t.order, u)
	if tokens(body)["self"] { // a recursive root: fuel
		var fuel, under []string
		for i, p := range u.params {
			if p.typ == "Value" {
				fuel = append(fuel, "(Payload.depth (Value.v "+p.name+"))")
			}
			if i == 0 && u.traced {
				under = append(under, p.name)
			} else {
				under = append(under, "_")
			}
		}
		if len(fuel) == 0 {
			dieAt(fd, "recursive root without a Value argument to take the fuel from")
		}
		out0 := "Res.unmodelled"
		if u.traced {
			out0 = "(" + u.params[0].name + ", Res.unmodelled)"
		}
		body = replaceToken(body, "self", "("+u.name+"_fuel"+fixedNames+" fuel)")
		t.out = append(t.out, fmt.Sprintf("%sdef %s_fuel %s : Nat → %s\n  | 0, %s => %s\n  | fuel + 1, %s =>\n%s\n\ndef %s %s : %s :=\n  %s_fuel%s (%s + 1) %s\n",
			doc, u.name, fixed, u.selfSig(), strings.Join(under, ", "), out0, strings.Join(names, ", "), indent(indent(body)),
			u.name, strings.Join(ps, " "), u.retType(), u.name, fixedNames, strings.Join(fuel, " + "), strings.Join(names, " ")))
		return u
	}
	t.out = append(t.out, strings.Join(strings.Fields(fmt.Sprintf("def %s %s", u.name, strings.Join(ps, " "))), " "))
	t.out[len(t.out)-1] = doc + t.out[len(t.out)-1] + " : " + u.retType() + " :=\n" + indent(body) + "\n"
	return u
}

func (c *ptCtx) callText(u *ptUnit, args []string) string {
	head := u.name
	if u.needsX {
		head += " X"
	}
	if u.needsR {
		head += " R"
	}
	return strings.Join(strings.Fields("("+head+" "+strings.Join(args, " ")+")"), " ")
}

// ---------------------------------------------------------------- statements

func (c *ptCtx) block(list []ast.Stmt, en ptEnv, k func(ptEnv) string) string {
	return c.stmts(list, en, en, map[string]bool{}, k)
}

func ptNoBranch(n ast.Node, where string) {
	ast.Inspect(n, func(n ast.Node) bool {
		switch b := n.(type) {
		case *ast.BranchStmt:
			dieAt(b, "%s in a %s", b.Tok, where)
		case *ast.FuncLit:
			dieAt(b, "function literal")
		}
		return true
	})
}

func (c *ptCtx) stmts(list []ast.Stmt, entry, cur ptEnv, decl map[string]bool, k func(ptEnv) string) string {
	if len(list) == 0 {
		out := ptEnv{}
		for name, v := range entry {
			if decl[name] {
				out[name] = v
			} else {
				out[name] = cur[name]
			}
		}
		return k(out)
	}
	next := func(e ptEnv, d map[string]bool) string { return c.stmts(list[1:], entry, e, d, k) }
	nextSame := func(e ptEnv) string { return next(e, decl) }
	switch s := list[0].(type) {
	case *ast.ReturnStmt:
		return c.ret(s, cur)
	case *ast.BlockStmt:
		return c.block(s.List, cur, nextSame)
	case *ast.IfStmt:
		if s.Init != nil {
			return c.block([]ast.Stmt{s.Init, &ast.IfStmt{If: s.If, Cond: s.Cond, Body: s.Body, Else: s.Else}}, cur, nextSame)
		}
		bs, v := c.expr(s.Cond, cur)
		if v.sh != ptBool {
			dieAt(s.Cond, "condition %s", src(s.Cond))
		}
		thenT := func() string { return c.block(s.Body.List, cur, nextSame) }
		elseT := func() string {
			switch e := s.Else.(type) {
			case nil:
				return next(cur, decl)
			case *ast.BlockStmt:
				return c.block(e.List, cur, nextSame)
			default:
				return c.block([]ast.Stmt{e}, cur, nextSame)
			}
		}
		switch v.konst {
		case 1:
			return c.wrapT(cur, bs, thenT())
		case 2:
			return c.wrapT(cur, bs, elseT())
		}
		return c.wrapT(cur, bs, "(if "+v.e+" then\n"+indent(thenT())+"\nelse\n"+indent(elseT())+")")
	case *ast.SwitchStmt:
		return c.switchStmt(s, list[1:], entry, cur, decl, k)
	case *ast.TypeSwitchStmt:
		return c.typeSwitch(s, cur, nextSame)
	case *ast.DeclStmt:
		gd := s.Decl.(*ast.GenDecl)
		if gd.Tok == token.VAR && len(gd.Specs) == 1 {
			vs := gd.Specs[0].(*ast.ValueSpec)
			if len(vs.Names) == 1 && len(vs.Values) == 0 && vs.Type != nil && src(vs.Type) == "error" {
				return next(cur.with(vs.Names[0].Name, ptVal_{sh: ptErr, konst: 1}), declWith(decl, vs.Names[0].Name))
			}
			if len(vs.Names) == 1 && len(vs.Values) == 0 && vs.Type != nil && src(vs.Type) == "Path" { // the nil path
				return next(cur.with(vs.Names[0].Name, ptVal_{sh: ptPath, e: "([] : List PathStep)"}), declWith(decl, vs.Names[0].Name))
			}
		}
		dieAt(s, "declaration %s", src(s))
	case *ast.ExprStmt:
		call, ok := s.X.(*ast.CallExpr)
		if !ok {
			dieAt(s, "expression statement %s", src(s))
		}
		return c.callStmt(call, cur, nextSame)
	case *ast.AssignStmt:
		return c.assign(s, cur, decl, next)
	case *ast.RangeStmt:
		return c.rangeStmt(s, cur, nextSame)
	case *ast.ForStmt:
		return c.forStmt(s, cur, nextSame)
	}
	dieAt(list[0], "statement %s", strings.TrimPrefix(fmt.Sprintf("%T", list[0]), "*ast."))
	return ""
}

// switch [tag] {…}: rewritten as the if-chain it abbreviates (the tag is evaluated once)
func (c *ptCtx) switchStmt(s *ast.SwitchStmt, rest []ast.Stmt, entry, cur ptEnv, decl map[string]bool, k func(ptEnv) string) string {
	if s.Init != nil {
		dieAt(s, "switch with an init statement")
	}
	var tagBs []bind
	tagName := ""
	if s.Tag != nil {
		var tv ptVal_
		tagBs, tv = c.expr(s.Tag, cur)
		switch tv.sh {
		case ptTy, ptInt, ptStr, ptBool:
		default:
			dieAt(s.Tag, "switch tag %s", src(s.Tag))
		}
		tagName = "switch·tag"
		cur = cur.with(tagName, tv)
		entry = entry.with(tagName, tv)
	}
	var chain, last *ast.IfStmt
	var deflt *ast.BlockStmt
	for _, cs := range s.Body.List {
		cc := cs.(*ast.CaseClause)
		ptNoBranch(cc, "switch")
		body := &ast.BlockStmt{Lbrace: cc.Pos(), List: cc.Body}
		if cc.List == nil {
			deflt = body
			continue
		}
		var cond ast.Expr
		for _, e := range cc.List {
			one := e
			if tagName != "" {
				one = &ast.BinaryExpr{X: &ast.Ident{NamePos: e.Pos(), Name: tagName}, OpPos: e.Pos(), Op: token.EQL, Y: e}
			}
			if cond == nil {
				cond = one
			} else {
				cond = &ast.BinaryExpr{X: cond, OpPos: e.Pos(), Op: token.LOR, Y: one}
			}
		}
		is := &ast.IfStmt{If: cc.Pos(), Cond: cond, Body: body}
		if chain == nil {
			chain = is
		} else {
			last.Else = is
		}
		last = is
	}
	if chain == nil {
		dieAt(s, "switch without cases")
	}
	if deflt != nil {
		last.Else = deflt
	}
	return c.wrapT(cur, tagBs, c.stmts(append([]ast.Stmt{chain}, rest...), entry, cur, decl, k))
}

// switch [x :=] y.(type) {…} over a PathStep: one arm per implementation
func (c *ptCtx) typeSwitch(s *ast.TypeSwitchStmt, cur ptEnv, next func(ptEnv) string) string {
	if s.Init != nil {
		dieAt(s, "type switch with an init statement")
	}
	bindName := ""
	var ta *ast.TypeAssertExpr
	switch a := s.Assign.(type) {
	case *ast.ExprStmt:
		ta, _ = a.X.(*ast.TypeAssertExpr)
	case *ast.AssignStmt:
		if len(a.Lhs) == 1 && len(a.Rhs) == 1 && a.Tok == token.DEFINE {
			bindName = identName(a.Lhs[0])
			ta, _ = a.Rhs[0].(*ast.TypeAssertExpr)
		}
	}
	if ta == nil || ta.Type != nil {
		dieAt(s, "type switch %s", src(s.Assign))
	}
	bs, x := c.expr(ta.X, cur)
	if x.sh != ptStep {
		dieAt(ta.X, "type switch over %s, which is not a PathStep", src(ta.X))
	}
	arms := map[*ptKind]*ast.CaseClause{}
	var deflt *ast.CaseClause
	for _, cs := range s.Body.List {
		cc := cs.(*ast.CaseClause)
		ptNoBranch(cc, "switch")
		if cc.List == nil {
			deflt = cc
			continue
		}
		if len(cc.List) != 1 {
			dieAt(cc, "case with several types")
		}
		k := ptKindOf(src(cc.List[0]))
		if k == nil || arms[k] != nil {
			dieAt(cc, "case %s", src(cc.List[0]))
		}
		arms[k] = cc
	}
	// the block scope of the switch: what the arms declare is dropped, what they assign is kept
	scoped := func(body []ast.Stmt, en ptEnv) string {
		return c.block(body, en, func(e ptEnv) string {
			out := ptEnv{}
			for n := range cur {
				if n == bindName {
					out[n] = cur[n]
				} else {
					out[n] = e[n]
				}
			}
			return next(out)
		})
	}
	var texts []string
	covered := 0
	for _, k := range ptKinds {
		cc := arms[k]
		if cc == nil {
			continue
		}
		covered++
		pat := k.ctor
		var ex []string
		for _, f := range k.fields {
			base := bindName
			if base == "" {
				base = "x"
			}
			n := c.fresh(base+"_"+f.name, ptLeanType(f.sh))
			pat, ex = pat+" "+n, append(ex, n)
		}
		texts = append(texts, "| "+pat+" =>\n"+indent(scoped(cc.Body, cur.with(bindName, k.mk(ex)))))
	}
	if covered < len(ptKinds) {
		if deflt != nil {
			texts = append(texts, "| _ =>\n"+indent(scoped(deflt.Body, cur.with(bindName, x))))
		} else {
			texts = append(texts, "| _ =>\n"+indent(next(cur)))
		}
	}
	return c.wrapT(cur, bs, "(match "+x.e+" with\n"+strings.Join(texts, "\n")+")")
}

// an error value in a return statement or an assignment
func (c *ptCtx) errValue(e ast.Expr, en ptEnv) ptVal_ {
	_, v := c.expr(e, en)
	switch {
	case v.sh == ptNil:
		return ptVal_{sh: ptErr, konst: 1}
	case v.sh == ptErr && v.konst != 0:
		return v
	}
	dieAt(e, "error value %s", src(e))
	return ptVal_{}
}

// coerce: the value as one of shape `want` (a result or an argument)
func (c *ptCtx) coerce(n ast.Node, v ptVal_, want ptShape) ([]bind, string) {
	switch {
	case v.sh == want && v.sh != ptStruct:
		return nil, v.e
	case want == ptStepOpt && v.sh == ptNil:
		return nil, "none"
	case want == ptStepOpt && v.sh == ptStep:
		return nil, "(some " + v.e + ")"
	case want == ptStepOpt && v.sh == ptStruct:
		return nil, "(some " + v.pack() + ")"
	case want == ptStep && v.sh == ptStruct:
		return nil, v.pack()
	case want == ptPaths && v.sh == ptNil:
		return nil, "([] : List (List PathStep))"
	case want == ptSet && v.sh == ptPSet:
		return nil, v.e
	case want == ptPath && v.sh == ptPathOpt:
		x := c.fresh("done", ptLeanType(ptPath))
		c.t.use("a constructed slice used as a Path", "PathGo.sliceDone")
		return []bind{{x, "(PathGo.sliceDone " + v.e + ")"}}, x
	}
	dieAt(n, "value %s where a %s is expected", src(n), ptLeanType(want))
	return nil, ""
}

func (c *ptCtx) ret(s *ast.ReturnStmt, cur ptEnv) string {
	u := c.u
	if u.proc {
		if len(s.Results) != 0 {
			dieAt(s, "return with a value")
		}
		return c.okT(cur, cur[u.recvName].e)
	}
	want := len(u.rets)
	if u.hasErr {
		want++
	}
	if len(s.Results) == 1 {
		call, _ := s.Results[0].(*ast.CallExpr)
		if call == nil {
		} else if kind, bs, text, _, rets, hasErr := c.tracedCall(call, cur); kind == "unit" {
			if hasErr != u.hasErr || fmt.Sprint(rets) != fmt.Sprint(u.rets) {
				dieAt(s, "return %s", src(call))
			}
			return c.wrapT(cur, bs, text)
		} else if kind != "" {
			dieAt(s, "return %s", src(call))
		}
	}
	if len(s.Results) == 1 && want > 1 { // return f(…)
		call, ok := s.Results[0].(*ast.CallExpr)
		if !ok {
			dieAt(s, "return %s", src(s.Results[0]))
		}
		bs, text, rets, hasErr, isRes := c.callRaw(call, cur)
		if !isRes || hasErr != u.hasErr || len(rets) != len(u.rets) {
			dieAt(s, "return %s", src(s.Results[0]))
		}
		for i := range rets {
			if rets[i] != u.rets[i] {
				dieAt(s, "return %s", src(s.Results[0]))
			}
		}
		return c.wrapT(cur, bs, text)
	}
	if len(s.Results) != want {
		dieAt(s, "return with %d values", len(s.Results))
	}
	if u.hasErr {
		ev := c.errValue(s.Results[want-1], cur)
		if ev.konst == 2 { // the other results are not evaluated: they must be plain names
			for _, r := range s.Results[:want-1] {
				if _, ok := r.(*ast.Ident); !ok {
					dieAt(r, "result %s next to an error", src(r))
				}
			}
			return c.errT(cur, ev.e)
		}
	}
	var bs []bind
	var parts []string
	for i, sh := range u.rets {
		b, v := c.expr(s.Results[i], cur)
		b2, e := c.coerce(s.Results[i], v, sh)
		bs = append(append(bs, b...), b2...)
		parts = append(parts, e)
	}
	if len(parts) == 1 {
		if n := len(bs); n > 0 && bs[n-1].pat == parts[0] {
			return c.wrapT(cur, bs[:n-1], bs[n-1].rhs) // tail call
		}
		return c.wrapT(cur, bs, c.okT(cur, parts[0]))
	}
	if len(parts) == 0 {
		return c.okT(cur, "()")
	}
	return c.wrapT(cur, bs, c.okT(cur, "("+strings.Join(parts, ", ")+")"))
}

// a call used as a statement: panic, copy, h.Write
func (c *ptCtx) callStmt(call *ast.CallExpr, cur ptEnv, next func(ptEnv) string) string {
	if id, ok := call.Fun.(*ast.Ident); ok && !hasPtKey(cur, id.Name) {
		switch id.Name {
		case "panic":
			msg := "panic"
			if len(call.Args) == 1 {
				switch a := call.Args[0].(type) {
				case *ast.BasicLit:
					if a.Kind == token.STRING {
						msg, _ = strconv.Unquote(a.Value)
					}
				case *ast.CallExpr:
					if src(a.Fun) == "fmt.Errorf" || src(a.Fun) == "errors.New" {
						if bl, ok := a.Args[0].(*ast.BasicLit); ok && bl.Kind == token.STRING {
							msg, _ = strconv.Unquote(bl.Value)
						}
					}
				}
			}
			return c.panicT(cur, leanStr(msg))
		case "copy":
			if len(call.Args) == 2 {
				dn := identName(call.Args[0])
				dst, ok := cur[dn]
				bs, sv := c.expr(call.Args[1], cur)
				if ok && dst.sh == ptPathOpt && sv.sh == ptPath {
					c.t.use("copy(dst, src)", "PathGo.sliceCopy")
					return c.wrapT(cur, bs, next(cur.with(dn, ptVal_{sh: ptPathOpt, e: "(PathGo.sliceCopy " + dst.e + " " + sv.e + ")"})))
				}
			}
			dieAt(call, "call %s", src(call))
		}
	}
	if sel, ok := call.Fun.(*ast.SelectorExpr); ok {
		if id, ok := sel.X.(*ast.Ident); ok {
			if h, ok := cur[id.Name]; ok && h.sh == ptHash && sel.Sel.Name == "Write" && len(call.Args) == 1 {
				bs, a := c.expr(call.Args[0], cur)
				if a.sh != ptBytes {
					dieAt(call.Args[0], "argument %s of Write", src(call.Args[0]))
				}
				c.t.use("hash.Hash64.Write", "PathGo.crcWrite")
				return c.wrapT(cur, bs, next(cur.with(id.Name, ptVal_{sh: ptHash, e: "(PathGo.crcWrite " + h.e + " " + a.e + ")"})))
			}
		}
	}
	if sel, ok := call.Fun.(*ast.SelectorExpr); ok {
		root := ptRootIdent(sel.X)
		if rv, ok := cur[root]; ok && rv.sh == ptPSet {
			_, x := c.expr(sel.X, cur)
			switch {
			case x.sh == ptSet && (sel.Sel.Name == "Add" || sel.Sel.Name == "Remove"): // s.set.Add(p)
				lean := map[string]string{"Add": "SetImpl.add", "Remove": "SetImpl.remove"}[sel.Sel.Name]
				bs, args := c.argsOf(call, cur, []ptShape{ptPath})
				c.t.use("set.Set[Path]."+sel.Sel.Name, lean+" R")
				return c.wrapT(cur, bs, next(cur.with(root, ptVal_{sh: ptPSet, e: "(" + lean + " R " + x.e + " " + args[0] + ")"})))
			case x.sh == ptPSet: // a method of PathSet without a result: it returns the new state
				bs, text, _, _, _ := c.unitCall("PathSet."+sel.Sel.Name, []string{x.e}, call, cur)
				if u := c.t.units["PathSet."+sel.Sel.Name]; !u.proc {
					dieAt(call, "call %s used as a statement has no modelled effect", src(call))
				}
				n := c.fresh(root+"_set", ptLeanType(ptPSet))
				return c.wrapT(cur, append(bs, bind{n, text}), next(cur.with(root, ptVal_{sh: ptPSet, e: n})))
			}
		}
	}
	dieAt(call, "call %s used as a statement has no modelled effect", src(call))
	return ""
}

func hasPtKey(en ptEnv, k string) bool { _, ok := en[k]; return ok }

func (c *ptCtx) assign(s *ast.AssignStmt, cur ptEnv, decl map[string]bool, next func(ptEnv, map[string]bool) string) string {
	define := s.Tok == token.DEFINE
	if s.Tok != token.DEFINE && s.Tok != token.ASSIGN {
		dieAt(s, "assignment operator %s", s.Tok)
	}
	bindVar := func(e ptEnv, d map[string]bool, name string, v ptVal_) (ptEnv, map[string]bool) {
		if name == "" {
			return e, d
		}
		if c.inLoop && (name == c.curXs || name == c.curIx) {
			dieAt(s, "assignment to %s, which the enclosing loop ranges with", name)
		}
		if define && !d[name] {
			return e.with(name, v), declWith(d, name)
		}
		old, ok := e[name]
		if !ok {
			dieAt(s, "assignment to unknown variable %s", name)
		}
		if old.sh != v.sh && old.sh != ptPoison && v.sh != ptPoison {
			dieAt(s, "assignment changes how %s is modelled", name)
		}
		return e.with(name, v), d
	}
	storable := func(n ast.Node, v ptVal_) {
		switch v.sh {
		case ptNil, ptNilVal, ptPoison, ptEmpty:
			dieAt(n, "value %s cannot be stored in a variable", src(n))
		}
	}
	tracedRhs := false
	if call, ok := s.Rhs[0].(*ast.CallExpr); ok && len(s.Rhs) == 1 {
		kind, _, _, _, _, _ := c.tracedCall(call, cur)
		tracedRhs = kind != ""
	}
	if len(s.Rhs) == 1 && (len(s.Lhs) >= 2 || tracedRhs) {
		var names []string
		for _, l := range s.Lhs {
			names = append(names, identName(l))
		}
		switch r := s.Rhs[0].(type) {
		case *ast.TypeAssertExpr: // v, ok := X.(K)
			if !define || len(names) != 2 || r.Type == nil {
				dieAt(s, "type assertion %s", src(s))
			}
			bs, x := c.expr(r.X, cur)
			vName, okName := names[0], names[1]
			fail := func() string {
				e, d := bindVar(cur, decl, vName, ptVal_{sh: ptPoison, why: "zero value after a failed type assertion"})
				e, d = bindVar(e, d, okName, ptConst(false))
				return next(e, d)
			}
			if x.sh == ptRules && src(r.Type) == "pathSetRules" {
				e, d := bindVar(cur, decl, vName, ptVal_{sh: ptEmpty})
				e, d = bindVar(e, d, okName, ptConst(true))
				return c.wrapT(cur, bs, "(match "+x.e+" with\n| PathGo.RulesImpl.pathSetRules =>\n"+indent(next(e, d))+"\n| _ =>\n"+indent(fail())+")")
			}
			k := ptKindOf(src(r.Type))
			if x.sh != ptStep || k == nil {
				dieAt(r, "type assertion %s", src(r))
			}
			pat := k.ctor
			var ex []string
			for _, f := range k.fields {
				if vName == "" {
					pat, ex = pat+" _", append(ex, "_")
				} else {
					n := c.fresh(vName+"_"+f.name, ptLeanType(f.sh))
					pat, ex = pat+" "+n, append(ex, n)
				}
			}
			e, d := bindVar(cur, decl, vName, k.mk(ex))
			e, d = bindVar(e, d, okName, ptConst(true))
			return c.wrapT(cur, bs, "(match "+x.e+" with\n| "+pat+" =>\n"+indent(next(e, d))+"\n| _ =>\n"+indent(fail())+")")
		case *ast.CallExpr:
			if sel, ok := r.Fun.(*ast.SelectorExpr); ok && sel.Sel.Name == "Unmark" && len(r.Args) == 0 && len(names) == 2 {
				bs, x := c.expr(sel.X, cur)
				if x.sh == ptVal {
					c.t.use("Value.Unmark", "(Value.unmark, Value.marks)")
					e, d := bindVar(cur, decl, names[0], ptVal_{sh: ptVal, e: "(Value.unmark " + x.e + ")"})
					e, d = bindVar(e, d, names[1], ptVal_{sh: ptMarks, e: "(Value.marks " + x.e + ")"})
					return c.wrapT(cur, bs, next(e, d))
				}
			}
			if sel, ok := r.Fun.(*ast.SelectorExpr); ok && sel.Sel.Name == "Element" && len(r.Args) == 0 && len(names) == 2 {
				if _, x := c.expr(sel.X, cur); x.sh == ptIter && x.fields["Key"].e != "" { // k, v := it.Element()
					e, d := bindVar(cur, decl, names[0], x.fields["Key"])
					e, d = bindVar(e, d, names[1], x.fields["Elem"])
					return next(e, d)
				}
			}
			var bs []bind
			var text, logAfter string
			var rets []ptShape
			var hasErr, isRes bool
			kind := ""
			if tracedRhs {
				kind, bs, text, logAfter, rets, hasErr = c.tracedCall(r, cur)
				isRes = true
				if !hasErr {
					dieAt(s, "assignment %s", src(s))
				}
			} else {
				bs, text, rets, hasErr, isRes = c.callRaw(r, cur)
			}
			want := len(rets)
			if hasErr {
				want++
			}
			if !isRes || want != len(names) {
				dieAt(s, "assignment %s", src(s))
			}
			// the success continuation
			var pats []string
			e, d := cur, decl
			for i, sh := range rets {
				if names[i] == "" {
					pats = append(pats, "_")
					continue
				}
				n := c.fresh(names[i], ptLeanType(sh))
				pats = append(pats, n)
				target := sh
				if old, ok := cur[names[i]]; ok && !(define && !decl[names[i]]) {
					target = old.sh
				}
				if target != sh {
					dieAt(s, "assignment changes how %s is modelled", names[i])
				}
				e, d = bindVar(e, d, names[i], ptVal_{sh: sh, e: n})
			}
			pat := "_"
			if len(pats) == 1 {
				pat = pats[0]
			} else if len(pats) > 1 {
				pat = "(" + strings.Join(pats, ", ") + ")"
			}
			if !hasErr {
				return c.wrapT(cur, append(bs, bind{pat, text}), next(e, d))
			}
			errName := names[len(names)-1]
			log2 := ""
			switch kind {
			case "cb":
				log2 = logAfter
			case "unit":
				log2 = c.fresh("log", ptLeanType(ptLog))
			}
			if kind != "" {
				e = e.with(ptLogKey, ptVal_{sh: ptLog, e: log2})
			}
			eOk, dOk := bindVar(e, d, errName, ptVal_{sh: ptErr, konst: 1})
			okT := next(eOk, dOk)
			// the failure continuation: what is returned next to a non-nil error is not modelled
			tag := c.fresh("e", "String")
			e, d = cur, decl
			for i := range rets {
				e, d = bindVar(e, d, names[i], ptVal_{sh: ptPoison, why: "the value returned next to a non-nil error"})
			}
			e, d = bindVar(e, d, errName, ptVal_{sh: ptErr, konst: 2, e: tag})
			if kind != "" {
				e = e.with(ptLogKey, ptVal_{sh: ptLog, e: log2})
			}
			errT := next(e, d)
			switch kind {
			case "cb": // the invocation is on the log however the callback ends
				c.t.use("x, err := cb(path, val)", "PathGo.callCb (the invocation is appended to the log however it ends)")
				return c.wrapT(cur, bs, "(PathGo.callCb "+log2+" "+text+"\n  (fun "+pat+" =>\n"+indent(indent(okT))+")\n  (fun "+tag+" =>\n"+indent(indent(errT))+"))")
			case "unit":
				c.t.use("x…, err := f(…, cb)", "PathGo.callT (f takes the log so far and returns the log at its end)")
				return c.wrapT(cur, bs, "(PathGo.callT "+text+"\n  (fun "+log2+" "+pat+" =>\n"+indent(indent(okT))+")\n  (fun "+log2+" "+tag+" =>\n"+indent(indent(errT))+"))")
			}
			return c.wrapT(cur, bs, "(PathGo.callE "+text+"\n  (fun "+pat+" =>\n"+indent(indent(okT))+")\n  (fun "+tag+" =>\n"+indent(indent(errT))+"))")
		}
		dieAt(s, "assignment %s", src(s))
	}
	if len(s.Lhs) != 1 || len(s.Rhs) != 1 {
		dieAt(s, "parallel assignment")
	}
	switch l := s.Lhs[0].(type) {
	case *ast.Ident:
		name := identName(l)
		if old, ok := cur[name]; ok && old.sh == ptErr && !(define && !decl[name]) {
			e, d := bindVar(cur, decl, name, c.errValue(s.Rhs[0], cur))
			return next(e, d)
		}
		bs, v := c.expr(s.Rhs[0], cur)
		storable(s.Rhs[0], v)
		if v.sh == ptErr && v.konst == 0 {
			dieAt(s, "error value %s", src(s.Rhs[0]))
		}
		e, d := bindVar(cur, decl, name, v)
		return c.wrapT(cur, bs, next(e, d))
	case *ast.IndexExpr: // xs[i] = v
		name := identName(l.X)
		tgt, ok := cur[name]
		if define || !ok || tgt.sh != ptPathOpt {
			dieAt(s, "assignment to %s", src(l))
		}
		bs, i := c.expr(l.Index, cur)
		bs2, v := c.expr(s.Rhs[0], cur)
		i = ptToInt(i)
		if i.sh != ptInt {
			dieAt(l.Index, "index %s", src(l.Index))
		}
		bs3, ve := c.coerce(s.Rhs[0], v, ptStep)
		n := c.fresh(name, ptLeanType(ptPathOpt))
		c.t.use("xs[i] = v", "PathGo.sliceSet")
		bs = append(append(append(bs, bs2...), bs3...), bind{n, "(PathGo.sliceSet " + tgt.e + " " + i.e + " " + ve + ")"})
		return c.wrapT(cur, bs, next(cur.with(name, ptVal_{sh: ptPathOpt, e: n}), decl))
	}
	dieAt(s, "assignment to %s", src(s.Lhs[0]))
	return ""
}

// a range index used as an int
func ptToInt(v ptVal_) ptVal_ {
	if v.sh == ptNat {
		return ptVal_{sh: ptInt, e: "(Int.ofNat " + v.e + ")"}
	}
	return v
}

// ptAssignedOuter: variables of the enclosing scope that the loop body assigns (the loop's state)
func ptAssignedOuter(body *ast.BlockStmt, cur ptEnv) []string {
	set := map[string]bool{}
	ast.Inspect(body, func(n ast.Node) bool {
		switch x := n.(type) {
		case *ast.AssignStmt:
			if x.Tok == token.DEFINE { // declares in the body's own scope
				return true
			}
			for _, l := range x.Lhs {
				e := l
				if ix, ok := e.(*ast.IndexExpr); ok {
					e = ix.X
				}
				if id, ok := e.(*ast.Ident); ok && hasPtKey(cur, id.Name) {
					set[id.Name] = true
				}
			}
		case *ast.IncDecStmt:
			dieAt(x, "%s", src(x))
		case *ast.ExprStmt:
			if call, ok := x.X.(*ast.CallExpr); ok {
				if sel, ok := call.Fun.(*ast.SelectorExpr); ok {
					if id, ok := sel.X.(*ast.Ident); ok && hasPtKey(cur, id.Name) && cur[id.Name].sh == ptHash {
						set[id.Name] = true
					}
					if root := ptRootIdent(sel.X); hasPtKey(cur, root) && cur[root].sh == ptPSet {
						set[root] = true
					}
				}
				if id, ok := call.Fun.(*ast.Ident); ok && id.Name == "copy" && len(call.Args) > 0 {
					if a, ok := call.Args[0].(*ast.Ident); ok && hasPtKey(cur, a.Name) {
						set[a.Name] = true
					}
				}
			}
		}
		return true
	})
	var out []string
	for n := range set {
		out = append(out, n)
	}
	sort.Strings(out)
	return out
}

// shadowedIn: names the loop body declares with := at any depth (they are not state)
func ptDeclaredIn(body *ast.BlockStmt) map[string]bool {
	m := map[string]bool{}
	ast.Inspect(body, func(n ast.Node) bool {
		switch x := n.(type) {
		case *ast.AssignStmt:
			if x.Tok == token.DEFINE {
				for _, l := range x.Lhs {
					if id, ok := l.(*ast.Ident); ok {
						m[id.Name] = true
					}
				}
			}
		case *ast.TypeSwitchStmt:
			if a, ok := x.Assign.(*ast.AssignStmt); ok {
				if id, ok := a.Lhs[0].(*ast.Ident); ok {
					m[id.Name] = true
				}
			}
		}
		return true
	})
	return m
}

// ptLoopKind: how a loop walks — over a list (range, iterator) or by counting
type ptLoopKind struct {
	node     ast.Node
	body     *ast.BlockStmt
	descr    string
	ranged   string // Go name of the collection the loop must not assign ("" if it is not a plain variable)
	pre      []bind // evaluation of the loop header
	elemType string // list loops: Lean type of an element
	list     string // list loops: the Lean list
	keyName  string // list loops: Go name of the index variable ("" = none)
	headBase string
	setup    func(body ptEnv, head string) ptEnv // list loops: bind the Go variables that stand for the current element
	count    string                              // counting loops: number of iterations (a Nat)
	from     string                              // counting loops: first value of the counter (an Int)
	ctrName  string
}

func (c *ptCtx) rangeStmt(s *ast.RangeStmt, cur ptEnv, after func(ptEnv) string) string {
	if s.Tok != token.DEFINE {
		dieAt(s, "range without :=")
	}
	xb, x := c.expr(s.X, cur)
	if x.sh != ptPath {
		dieAt(s.X, "range over %s", src(s.X))
	}
	keyName, valName := identName(s.Key), identName(s.Value)
	lk := ptLoopKind{node: s, body: s.Body, descr: "for " + rangeVars(s) + " := range " + src(s.X), pre: xb, elemType: "PathStep", list: x.e,
		keyName: keyName, headBase: "elem"}
	if valName != "" {
		lk.headBase = valName
	}
	if id, ok := s.X.(*ast.Ident); ok {
		lk.ranged = id.Name
	}
	lk.setup = func(body ptEnv, head string) ptEnv {
		if lk.ranged != "" && keyName != "" {
			if d := ptDeclaredIn(s.Body); d[lk.ranged] || d[keyName] { // xs[i] would no longer be the current element
				dieAt(s, "the loop body redeclares %s or %s", lk.ranged, keyName)
			}
			c.curXs, c.curIx, c.curElem = lk.ranged, keyName, ptVal_{sh: ptStep, e: head}
		}
		return body.with(valName, ptVal_{sh: ptStep, e: head})
	}
	return c.loop(lk, cur, after)
}

// for it := X.Iterator(); it.Next(); {…}   and   for i := a; i <= b; i++ {…}
func (c *ptCtx) forStmt(s *ast.ForStmt, cur ptEnv, after func(ptEnv) string) string {
	init, ok := s.Init.(*ast.AssignStmt)
	if !ok || init.Tok != token.DEFINE || len(init.Lhs) != 1 || len(init.Rhs) != 1 || s.Cond == nil {
		dieAt(s, "for statement %s", strings.SplitN(src(s), "{", 2)[0])
	}
	v := identName(init.Lhs[0])
	hdr := "for " + src(s.Init) + "; " + src(s.Cond) + "; "
	if s.Post != nil {
		hdr += src(s.Post)
	}
	// the iterator form
	if call, ok := init.Rhs[0].(*ast.CallExpr); ok && s.Post == nil && src(s.Cond) == v+".Next()" {
		if sel, ok := call.Fun.(*ast.SelectorExpr); ok && len(call.Args) == 0 {
			xb, x := c.expr(sel.X, cur)
			if x.sh == ptSet && sel.Sel.Name == "Iterator" {
				c.t.use("for it := set.Iterator(); it.Next(); { … it.Value() … }", "a loop over SetImpl.iter R set")
				lk := ptLoopKind{node: s, body: s.Body, descr: strings.TrimSpace(hdr), pre: xb, elemType: "List PathStep", list: "(SetImpl.iter R " + x.e + ")",
					headBase: "member", ranged: ptRootIdent(sel.X)}
				lk.setup = func(body ptEnv, head string) ptEnv {
					return body.with(v, ptVal_{sh: ptIter, fields: map[string]ptVal_{"Value": {sh: ptPath, e: head}}})
				}
				return c.loop(lk, cur, after)
			}
			if x.sh == ptVal && sel.Sel.Name == "ElementIterator" {
				c.t.use("for it := v.ElementIterator(); it.Next(); { k, e := it.Element() … }", "a loop over PathGo.elements X v")
				lk := ptLoopKind{node: s, body: s.Body, descr: strings.TrimSpace(hdr), pre: xb, elemType: "Value × Value", list: "(PathGo.elements X " + x.e + ")",
					headBase: v, ranged: ptRootIdent(sel.X)}
				lk.setup = func(body ptEnv, head string) ptEnv {
					return body.with(v, ptVal_{sh: ptIter, fields: map[string]ptVal_{"Key": {sh: ptVal, e: head + ".1"}, "Elem": {sh: ptVal, e: head + ".2"}}})
				}
				return c.loop(lk, cur, after)
			}
		}
		dieAt(s, "iterator loop %s", hdr)
	}
	// the counting form: i := a; i <= b (or i < b); i++ with a, b fixed before the loop
	cond, ok := s.Cond.(*ast.BinaryExpr)
	post, ok2 := s.Post.(*ast.IncDecStmt)
	if !ok || !ok2 || post.Tok != token.INC || src(post.X) != v || src(cond.X) != v || (cond.Op != token.LEQ && cond.Op != token.LSS) {
		dieAt(s, "for statement %s", hdr)
	}
	ab, a := c.expr(init.Rhs[0], cur)
	bb, b := c.expr(cond.Y, cur)
	a, b = ptToInt(a), ptToInt(b)
	if a.sh != ptInt || b.sh != ptInt {
		dieAt(s, "for statement %s", hdr)
	}
	assigned := map[string]bool{}
	for _, n := range ptAssignedOuter(s.Body, cur.with(v, a)) {
		assigned[n] = true
	}
	ast.Inspect(cond.Y, func(n ast.Node) bool {
		if id, ok := n.(*ast.Ident); ok && (assigned[id.Name] || id.Name == v) {
			dieAt(cond, "the bound %s of the loop changes in its body", src(cond.Y))
		}
		return true
	})
	if assigned[v] {
		dieAt(s, "the loop body assigns the counter %s", v)
	}
	c.t.use("for i := a; i <= b; i++ {…} (a, b fixed)", "a loop of Int.toNat (b - a + 1) iterations")
	count := "(Int.toNat ((" + b.e + " - " + a.e + ") + 1))"
	if cond.Op == token.LSS {
		count = "(Int.toNat (" + b.e + " - " + a.e + "))"
	}
	return c.loop(ptLoopKind{node: s, body: s.Body, descr: strings.TrimSpace(hdr), pre: append(ab, bb...), count: count, from: a.e, ctrName: v}, cur, after)
}

func ptRootIdent(e ast.Expr) string {
	for {
		switch x := e.(type) {
		case *ast.Ident:
			return x.Name
		case *ast.SelectorExpr:
			e = x.X
		case *ast.ParenExpr:
			e = x.X
		default:
			return ""
		}
	}
}

// loop: a structurally recursive helper whose base case is the code after the loop
func (c *ptCtx) loop(lk ptLoopKind, cur ptEnv, after func(ptEnv) string) string {
	s := lk.node
	if c.inLoop {
		dieAt(s, "nested loop")
	}
	ptNoBranch(lk.body, "loop")
	c.nloops++
	name := fmt.Sprintf("%s_loop%d", c.u.name, c.nloops)
	hole := "«" + name + "»"

	inner := cur
	var stTypes, stPats, stInit, state []string
	declared := ptDeclaredIn(lk.body)
	assigned := ptAssignedOuter(lk.body, cur)
	if c.u.traced { // the log is part of every loop's state
		assigned = append([]string{ptLogKey}, assigned...)
	}
	for _, n := range assigned {
		v := cur[n]
		if lk.ranged == n {
			dieAt(s, "loop assigns the collection it ranges over")
		}
		if declared[n] { // which of the two an assignment means would need scope resolution
			dieAt(s, "the loop body both declares and assigns a variable named %s", n)
		}
		switch v.sh {
		case ptErr:
			if v.konst != 1 {
				dieAt(s, "error variable %s is not nil on entry to the loop", n)
			}
			continue // checked below: nil again at the end of every iteration
		case ptVal, ptHash, ptBool, ptInt, ptPath, ptPathOpt, ptStr, ptPaths, ptPSet, ptLog:
			p := c.fresh(strings.TrimPrefix(n, "·"), ptLeanType(v.sh))
			state = append(state, n)
			stTypes, stPats, stInit = append(stTypes, atomType(ptLeanType(v.sh))), append(stPats, p), append(stInit, v.e)
			inner = inner.with(n, ptVal_{sh: v.sh, e: p})
		default:
			dieAt(s, "loop assigns %s", n)
		}
	}
	stateOf := func(e ptEnv) string {
		var out []string
		for _, n := range state {
			if e[n].sh == ptPoison {
				dieAt(s, "%s is carried around the loop but holds %s", n, e[n].why)
			}
			out = append(out, e[n].e)
		}
		return strings.Join(out, " ")
	}
	body := inner
	var stepPat, donePat, recur, initArgs, sigT string
	if lk.count == "" {
		idx := ""
		if lk.keyName != "" {
			idx = c.fresh(lk.keyName, "Nat")
			body = body.with(lk.keyName, ptVal_{sh: ptNat, e: idx})
		}
		head := c.fresh(lk.headBase, lk.elemType)
		tail := c.fresh("rest", "List "+atomType(lk.elemType))
		body = lk.setup(body, head)
		stepPat, donePat, recur, initArgs, sigT = head+" :: "+tail, "[]", tail, lk.list, "List "+atomType(lk.elemType)
		if idx != "" {
			stepPat, donePat, recur, initArgs, sigT = idx+", "+stepPat, "_, "+donePat, "("+idx+" + 1) "+recur, "0 "+initArgs, "Nat → "+sigT
		}
	} else {
		n := c.fresh("n", "Nat")
		ctr := c.fresh(lk.ctrName, "Int")
		body = body.with(lk.ctrName, ptVal_{sh: ptInt, e: ctr})
		stepPat, donePat, recur, initArgs, sigT = n+" + 1, "+ctr, "0, _", n+" ("+ctr+" + 1)", lk.count+" "+lk.from, "Nat → Int"
	}
	c.inLoop = true
	stepT := c.block(lk.body.List, body, func(e ptEnv) string {
		for n, v := range cur {
			if v.sh == ptErr && (e[n].sh != ptErr || e[n].konst != v.konst) {
				dieAt(s, "error variable %s is carried around the loop", n)
			}
		}
		return strings.Join(strings.Fields("("+hole+" "+stateOf(e)+" "+recur+")"), " ")
	})
	c.inLoop = false
	c.curXs, c.curIx = "", ""
	restT := after(inner)
	used := tokens(stepT + "\n" + restT)
	avail := map[string]bool{"X": true, "R": true, "self": true}
	var walk func(v ptVal_)
	walk = func(v ptVal_) {
		for tk := range tokens(v.e) {
			avail[tk] = true
		}
		for _, f := range v.fields {
			walk(f)
		}
	}
	for _, v := range cur {
		walk(v)
	}
	var capDecl, capNames []string
	for _, n := range c.order {
		if used[n] && avail[n] {
			capDecl = append(capDecl, fmt.Sprintf("(%s : %s)", n, c.ltype[n]))
			capNames = append(capNames, n)
		}
	}
	headT := strings.Join(strings.Fields(name+" "+strings.Join(capNames, " ")), " ")
	stepT = strings.ReplaceAll(stepT, hole, headT)
	stPat := ""
	if len(stPats) > 0 {
		stPat = strings.Join(stPats, ", ") + ", "
	}
	sig := strings.Join(append(stTypes, sigT+" → "+c.u.retType()), " → ")
	c.t.out = append(c.t.out, fmt.Sprintf("/-- the `%s` loop of `%s`, and what follows it -/\ndef %s%s : %s\n  | %s%s =>\n%s\n  | %s%s =>\n%s\n",
		lk.descr, c.u.key,
		name, strings.TrimSuffix(" "+strings.Join(capDecl, " "), " "), sig,
		stPat, stepPat, indent(indent(stepT)),
		stPat, donePat, indent(indent(restT))))
	return c.wrapT(cur, lk.pre, "("+strings.Join(strings.Fields(headT+" "+strings.Join(stInit, " ")+" "+initArgs), " ")+")")
}

// ---------------------------------------------------------------- expressions

func (c *ptCtx) expr(e ast.Expr, en ptEnv) ([]bind, ptVal_) {
	switch x := e.(type) {
	case *ast.ParenExpr:
		return c.expr(x.X, en)
	case *ast.Ident:
		switch x.Name {
		case "true":
			return nil, ptConst(true)
		case "false":
			return nil, ptConst(false)
		case "nil":
			return nil, ptVal_{sh: ptNil}
		case "_":
			dieAt(x, "blank identifier as a value")
		}
		if v, ok := en[x.Name]; ok {
			if v.sh == ptPoison {
				dieAt(x, "use of %s: %s", x.Name, v.why)
			}
			return nil, v
		}
		if v, ok := ptNamedVals[x.Name]; ok {
			return nil, v
		}
		if g, ok := ptGlobals[x.Name]; ok {
			c.t.global(x.Name, x)
			return nil, g.v
		}
		dieAt(x, "identifier %s", x.Name)
	case *ast.BasicLit:
		switch x.Kind {
		case token.INT:
			if n, err := strconv.ParseUint(x.Value, 0, 63); err == nil {
				return nil, ptVal_{sh: ptInt, e: "(" + strconv.FormatUint(n, 10) + " : Int)"}
			}
		case token.STRING:
			if s, err := strconv.Unquote(x.Value); err == nil {
				return nil, ptVal_{sh: ptStr, e: leanStr(s)}
			}
		}
		dieAt(x, "literal %s", x.Value)
	case *ast.CompositeLit:
		ts := src(x.Type)
		if ts == "Path" && len(x.Elts) == 0 {
			return nil, ptVal_{sh: ptPath, e: "([] : List PathStep)"}
		}
		if ts == "PathSet" && len(x.Elts) == 1 {
			if kv, ok := x.Elts[0].(*ast.KeyValueExpr); ok && src(kv.Key) == "set" {
				bs, v := c.expr(kv.Value, en)
				if v.sh == ptSet {
					return bs, ptVal_{sh: ptPSet, e: v.e}
				}
			}
		}
		if k := ptKindOf(ts); k != nil {
			var bs []bind
			got := map[string]string{}
			for _, el := range x.Elts {
				kv, ok := el.(*ast.KeyValueExpr)
				if !ok {
					dieAt(el, "positional field in a composite literal")
				}
				b, v := c.expr(kv.Value, en)
				bs = append(bs, b...)
				fn := identName(kv.Key)
				for _, f := range k.fields {
					if f.name == fn && v.sh == f.sh {
						got[fn] = v.e
					}
				}
				if _, ok := got[fn]; !ok {
					dieAt(el, "field %s", src(el))
				}
			}
			var ex []string
			for _, f := range k.fields {
				if _, ok := got[f.name]; !ok {
					dieAt(x, "composite literal without the field %s", f.name)
				}
				ex = append(ex, got[f.name])
			}
			return bs, k.mk(ex)
		}
		dieAt(x, "composite literal %s", src(x))
	case *ast.SelectorExpr:
		bs, v := c.expr(x.X, en)
		if v.sh == ptStruct {
			if f, ok := v.fields[x.Sel.Name]; ok {
				return bs, f
			}
		}
		if v.sh == ptPSet && x.Sel.Name == "set" {
			return bs, ptVal_{sh: ptSet, e: v.e}
		}
		dieAt(x, "selector %s", src(x))
	case *ast.UnaryExpr:
		bs, v := c.expr(x.X, en)
		if x.Op == token.NOT && v.sh == ptBool {
			switch v.konst {
			case 1:
				return bs, ptConst(false)
			case 2:
				return bs, ptConst(true)
			}
			return bs, ptBoolV("(!" + v.e + ")")
		}
		dieAt(x, "operator %s on %s", x.Op, src(x.X))
	case *ast.BinaryExpr:
		return c.binary(x, en)
	case *ast.IndexExpr:
		if xs, ok := x.X.(*ast.Ident); ok && c.inLoop && xs.Name == c.curXs {
			if ix, ok := x.Index.(*ast.Ident); ok && ix.Name == c.curIx {
				if v, ok := en[ix.Name]; ok && v.sh == ptNat { // xs[i] in `for i := range xs`: the current element
					return nil, c.curElem
				}
			}
		}
		bs, v := c.expr(x.X, en)
		bs2, i := c.expr(x.Index, en)
		i = ptToInt(i)
		if v.sh == ptPath && i.sh == ptInt {
			n := c.fresh("elem", "PathStep")
			c.t.use("xs[i]", "PathGo.sliceGet")
			return append(append(bs, bs2...), bind{n, "(PathGo.sliceGet " + v.e + " " + i.e + ")"}), ptVal_{sh: ptStep, e: n}
		}
		dieAt(x, "index expression %s", src(x))
	case *ast.SliceExpr:
		bs, v := c.expr(x.X, en)
		if v.sh != ptPath || x.Low != nil || x.High == nil {
			dieAt(x, "slice expression %s", src(x))
		}
		bs2, hi := c.expr(x.High, en)
		hi = ptToInt(hi)
		if hi.sh != ptInt {
			dieAt(x.High, "slice bound %s", src(x.High))
		}
		bs = append(bs, bs2...)
		n := c.fresh("sl", ptLeanType(ptPath))
		if x.Slice3 {
			bs3, mx := c.expr(x.Max, en)
			mx = ptToInt(mx)
			if mx.sh != ptInt {
				dieAt(x.Max, "slice bound %s", src(x.Max))
			}
			c.t.use("xs[:hi:max]", "PathGo.sliceTo3")
			return append(append(bs, bs3...), bind{n, "(PathGo.sliceTo3 " + v.e + " " + hi.e + " " + mx.e + ")"}), ptVal_{sh: ptPath, e: n}
		}
		c.t.use("xs[:hi]", "PathGo.sliceTo")
		return append(bs, bind{n, "(PathGo.sliceTo " + v.e + " " + hi.e + ")"}), ptVal_{sh: ptPath, e: n}
	case *ast.CallExpr:
		bs, text, rets, hasErr, isRes := c.callRaw(x, en)
		if hasErr || len(rets) != 1 {
			dieAt(x, "call %s used as a single value", src(x))
		}
		if !isRes {
			return bs, ptVal_{sh: rets[0], e: text, konst: ptErrKonst(rets[0])}
		}
		n := c.fresh("x", ptLeanType(rets[0]))
		return append(bs, bind{n, text}), ptVal_{sh: rets[0], e: n}
	}
	dieAt(e, "expression %s (%s)", src(e), strings.TrimPrefix(fmt.Sprintf("%T", e), "*ast."))
	return nil, ptVal_{}
}

func ptErrKonst(sh ptShape) int {
	if sh == ptErr {
		return 2 // errors.New / fmt.Errorf never return nil
	}
	return 0
}

func (c *ptCtx) binary(x *ast.BinaryExpr, en ptEnv) ([]bind, ptVal_) {
	lb, l := c.expr(x.X, en)
	if (x.Op == token.LAND && l.konst == 2 && l.sh == ptBool) || (x.Op == token.LOR && l.konst == 1 && l.sh == ptBool) {
		return lb, l // Go does not evaluate the right operand
	}
	rb, r := c.expr(x.Y, en)
	cmp := func(op string) ([]bind, ptVal_) {
		return append(lb, rb...), ptBoolV("(" + l.e + " " + op + " " + r.e + ")")
	}
	switch x.Op {
	case token.LAND, token.LOR:
		if l.sh != ptBool || r.sh != ptBool {
			break
		}
		and := x.Op == token.LAND
		if l.konst != 0 { // true && r, false || r
			return append(lb, rb...), r
		}
		if len(rb) == 0 {
			if r.konst != 0 && (r.konst == 1) == and { // l && true, l || false
				return lb, l
			}
			op := " || "
			if and {
				op = " && "
			}
			return lb, ptBoolV("(" + l.e + op + r.e + ")")
		}
		// the right operand can panic: it is evaluated only if the left one does not decide
		n := c.fresh("c", "Bool")
		rhs := wrap(rb, "(Res.ok "+r.e+")") // a nested computation of a Bool: plain Res
		if and {
			return append(lb, bind{n, "(if " + l.e + " then\n" + indent(rhs) + "\nelse\n  (Res.ok false))"}), ptBoolV(n)
		}
		return append(lb, bind{n, "(if " + l.e + " then\n  (Res.ok true)\nelse\n" + indent(rhs) + ")"}), ptBoolV(n)
	case token.EQL, token.NEQ:
		eq := x.Op == token.EQL
		bs := append(lb, rb...)
		neg := func(v ptVal_) ptVal_ {
			if eq {
				return v
			}
			if v.konst != 0 {
				return ptConst(v.konst == 2)
			}
			return ptBoolV("(!" + v.e + ")")
		}
		if l.sh == ptNil || l.sh == ptNilVal || (l.sh == ptTy && ptTyEq[l.e] != "" && r.sh == ptTy && ptTyEq[r.e] == "") {
			l, r = r, l
		}
		l, r = ptToInt(l), ptToInt(r)
		switch {
		case l.sh == ptVal && r.sh == ptNilVal: // a modelled value is never cty.NilVal
			c.t.use("v == NilVal", "false (cty.NilVal is outside the model)")
			return bs, neg(ptConst(false))
		case l.sh == ptErr && r.sh == ptNil && l.konst != 0:
			return bs, neg(ptConst(l.konst == 1))
		case l.sh == ptTy && r.sh == ptTy && ptTyEq[r.e] != "":
			c.t.use("t == "+strings.TrimPrefix(r.e, "Ty."), ptTyEq[r.e])
			return bs, neg(ptBoolV("(" + ptTyEq[r.e] + " " + l.e + ")"))
		case l.sh == r.sh && (l.sh == ptBool || l.sh == ptInt || l.sh == ptStr):
			if eq {
				return cmp("==")
			}
			return cmp("!=")
		case l.sh == ptStruct && r.sh == ptStruct && l.kind == r.kind: // Go compares the structs field by field
			var parts []string
			for _, f := range l.kind.fields {
				if f.sh != ptStr && f.sh != ptInt && f.sh != ptBool {
					dieAt(x, "comparison of %s values (field %s)", l.kind.goType, f.name)
				}
				parts = append(parts, "("+l.fields[f.name].e+" == "+r.fields[f.name].e+")")
			}
			return bs, neg(ptBoolV("(" + strings.Join(parts, " && ") + ")"))
		}
	case token.LSS, token.GTR, token.LEQ, token.GEQ:
		l, r = ptToInt(l), ptToInt(r)
		if l.sh == ptInt && r.sh == ptInt {
			return append(lb, rb...), ptBoolV("(decide (" + l.e + " " + x.Op.String() + " " + r.e + "))")
		}
	case token.ADD, token.SUB:
		l, r = ptToInt(l), ptToInt(r)
		if l.sh == ptInt && r.sh == ptInt {
			return append(lb, rb...), ptVal_{sh: ptInt, e: "(" + l.e + " " + x.Op.String() + " " + r.e + ")"}
		}
	}
	dieAt(x, "operator %s in %s", x.Op, src(x))
	return nil, ptVal_{}
}

// argsOf: the arguments of a call, each coerced to the shape the callee wants
func (c *ptCtx) argsOf(call *ast.CallExpr, en ptEnv, want []ptShape) ([]bind, []string) {
	if call.Ellipsis.IsValid() || len(call.Args) != len(want) {
		dieAt(call, "call %s", src(call))
	}
	var bs []bind
	var out []string
	for i, a := range call.Args {
		b, v := c.expr(a, en)
		v = func() ptVal_ {
			if want[i] == ptInt {
				return ptToInt(v)
			}
			return v
		}()
		b2, e := c.coerce(a, v, want[i])
		bs = append(append(bs, b...), b2...)
		out = append(out, e)
	}
	return bs, out
}

func (c *ptCtx) primCall(goName string, p ptPrim, recv []string, call *ast.CallExpr, en ptEnv) ([]bind, string, []ptShape, bool, bool) {
	bs, args := c.argsOf(call, en, p.args)
	c.t.use(goName, p.lean)
	return bs, "(" + strings.Join(append(append([]string{p.lean}, recv...), args...), " ") + ")", []ptShape{p.ret}, false, p.res
}

func (c *ptCtx) unitCall(key string, recv []string, call *ast.CallExpr, en ptEnv) ([]bind, string, []ptShape, bool, bool) {
	u := c.t.ensure(key, call)
	var want []ptShape
	for _, p := range u.goParams {
		want = append(want, p.sh)
	}
	bs, args := c.argsOf(call, en, want)
	return bs, c.callText(u, append(recv, args...)), u.rets, u.hasErr, true
}

// tracedCall: a call of the callback parameter, or of a function that takes one.  kind "" = neither.
// cb: text : Res …, and the log afterwards is logAfter; unit: text : List Walk.Visit × Res …
func (c *ptCtx) tracedCall(call *ast.CallExpr, en ptEnv) (kind string, bs []bind, text, logAfter string, rets []ptShape, hasErr bool) {
	id, ok := call.Fun.(*ast.Ident)
	if !ok {
		return
	}
	if v, ok := en[id.Name]; ok {
		if v.sh != ptCb {
			return
		}
		bs, args := c.argsOf(call, en, []ptShape{ptPath, ptVal})
		log := en[ptLogKey].e
		return "cb", bs, "(" + v.e + " " + log + " " + args[0] + " " + args[1] + ")", "(" + log + " ++ [(" + args[0] + ", " + args[1] + ")])", []ptShape{ptBool}, true
	}
	fd := c.t.funcs[id.Name]
	if fd == nil || fd.Recv != nil {
		return
	}
	takesCb := false
	for _, f := range fd.Type.Params.List {
		if _, ok := f.Type.(*ast.FuncType); ok {
			takesCb = true
		}
	}
	if !takesCb {
		return
	}
	if !c.u.traced {
		dieAt(call, "call of %s, which takes a callback, from a function that has none", id.Name)
	}
	u := c.t.ensure(id.Name, call)
	if call.Ellipsis.IsValid() || len(call.Args) != len(u.goParams) {
		dieAt(call, "call %s", src(call))
	}
	var args []string
	for i, a := range call.Args {
		b, v := c.expr(a, en)
		if u.goParams[i].sh == ptCb { // the callback is handed on as it is
			if v.sh != ptCb {
				dieAt(a, "argument %s", src(a))
			}
			continue
		}
		b2, e := c.coerce(a, v, u.goParams[i].sh)
		bs = append(append(bs, b...), b2...)
		args = append(args, e)
	}
	head := "self"
	if !u.inProgress {
		head = u.name
		if u.needsX {
			head += " X"
		}
		if u.needsR {
			head += " R"
		}
		head += " " + c.u.cbLean
	}
	return "unit", bs, "(" + head + " " + en[ptLogKey].e + " " + strings.Join(args, " ") + ")", "", u.rets, u.hasErr
}

// callRaw translates a call into a Lean term; isRes: the term is a `Res`
func (c *ptCtx) callRaw(call *ast.CallExpr, en ptEnv) (bs []bind, text string, rets []ptShape, hasErr, isRes bool) {
	if kind, _, _, _, _, _ := c.tracedCall(call, en); kind != "" {
		dieAt(call, "call %s: a call of (a function with) a callback is translated only as `x…, err := f(…)` or `return f(…)`", src(call))
	}
	switch f := call.Fun.(type) {
	case *ast.ArrayType: // []byte(s)
		if src(f) == "[]byte" && len(call.Args) == 1 {
			bs, a := c.expr(call.Args[0], en)
			if a.sh == ptStr {
				c.t.use("[]byte(s)", "PathGo.bytes")
				return bs, "(PathGo.bytes " + a.e + ")", []ptShape{ptBytes}, false, false
			}
		}
	case *ast.Ident:
		if hasPtKey(en, f.Name) {
			dieAt(call, "call of a local value")
		}
		switch f.Name {
		case "len":
			if len(call.Args) == 1 {
				bs, a := c.expr(call.Args[0], en)
				if a.sh == ptPath || a.sh == ptPathOpt {
					return bs, "(Int.ofNat (List.length " + a.e + "))", []ptShape{ptInt}, false, false
				}
			}
			dieAt(call, "call %s", src(call))
		case "append":
			if len(call.Args) == 2 {
				bs, a := c.expr(call.Args[0], en)
				bs2, b := c.expr(call.Args[1], en)
				if a.sh == ptPaths && b.sh == ptPath {
					return append(bs, bs2...), "(" + a.e + " ++ [" + b.e + "])", []ptShape{ptPaths}, false, false
				}
				if a.sh == ptPath && (b.sh == ptStruct || b.sh == ptStep) {
					_, be := c.coerce(call.Args[1], b, ptStep)
					c.t.use("append(path, step)", "path ++ [step]")
					return append(bs, bs2...), "(" + a.e + " ++ [" + be + "])", []ptShape{ptPath}, false, false
				}
			}
			dieAt(call, "call %s", src(call))
		case "make":
			if len(call.Args) == 3 && src(call.Args[0]) == "[]Path" && src(call.Args[1]) == "0" {
				bs, n := c.expr(call.Args[2], en)
				n = ptToInt(n)
				if n.sh == ptInt {
					c.t.use("make([]Path, 0, n)", "PathGo.makePaths")
					return bs, "(PathGo.makePaths " + n.e + ")", []ptShape{ptPaths}, false, true
				}
			}
			if len(call.Args) == 2 && src(call.Args[0]) == "Path" {
				bs, n := c.expr(call.Args[1], en)
				n = ptToInt(n)
				if n.sh == ptInt {
					c.t.use("make(Path, n)", "PathGo.sliceMake")
					return bs, "(PathGo.sliceMake " + n.e + ")", []ptShape{ptPathOpt}, false, true
				}
			}
			dieAt(call, "call %s", src(call))
		case "int", "int64":
			if len(call.Args) == 1 {
				bs, a := c.expr(call.Args[0], en)
				a = ptToInt(a)
				switch a.sh {
				case ptInt:
					return bs, a.e, []ptShape{ptInt}, false, false
				case ptU64:
					c.t.use("int(uint64)", "PathGo.intOfUint64")
					return bs, "(PathGo.intOfUint64 " + a.e + ")", []ptShape{ptInt}, false, false
				}
			}
			dieAt(call, "conversion %s", src(call))
		}
		if p, ok := ptFuncPrims[f.Name]; ok {
			return c.primCall(f.Name, p, nil, call, en)
		}
		return c.unitCall(f.Name, nil, call, en)
	case *ast.SelectorExpr:
		if pkg, ok := f.X.(*ast.Ident); ok && !hasPtKey(en, pkg.Name) {
			switch pkg.Name + "." + f.Sel.Name {
			case "errors.New":
				if len(call.Args) == 1 {
					if bl, ok := call.Args[0].(*ast.BasicLit); ok && bl.Kind == token.STRING {
						s, _ := strconv.Unquote(bl.Value)
						c.t.use("errors.New", "PathGo.errorsNew")
						return nil, "(PathGo.errorsNew " + leanStr(s) + ")", []ptShape{ptErr}, false, false
					}
				}
				dieAt(call, "call %s", src(call))
			case "fmt.Errorf":
				if len(call.Args) >= 1 {
					if bl, ok := call.Args[0].(*ast.BasicLit); ok && bl.Kind == token.STRING {
						s, _ := strconv.Unquote(bl.Value)
						var tags []string
						for _, a := range call.Args[1:] { // only error arguments are evaluated; the others must be free of effects
							switch av := a.(type) {
							case *ast.Ident:
								if v, ok := en[av.Name]; ok && v.sh == ptErr {
									if v.konst != 2 {
										dieAt(a, "a nil error as an argument of fmt.Errorf")
									}
									tags = append(tags, v.e)
								} else if !ok {
									dieAt(a, "identifier %s", av.Name)
								}
							case *ast.SelectorExpr:
								c.expr(av, en)
							default:
								dieAt(a, "argument %s of fmt.Errorf", src(a))
							}
						}
						c.t.use("fmt.Errorf", "PathGo.errorf")
						return nil, "(PathGo.errorf " + leanStr(s) + " [" + strings.Join(tags, ", ") + "])", []ptShape{ptErr}, false, false
					}
				}
				dieAt(call, "call %s", src(call))
			case "crc64.New":
				if len(call.Args) == 1 && src(call.Args[0]) == "crc64Table" {
					c.t.global("crc64Table", call)
					c.t.use("crc64.New(crc64Table)", "PathGo.crcNew")
					return nil, "PathGo.crcNew", []ptShape{ptHash}, false, false
				}
				dieAt(call, "call %s", src(call))
			}
			dieAt(call, "call of %s.%s, which is not part of the given API", pkg.Name, f.Sel.Name)
		}
		rb, r := c.expr(f.X, en)
		add := func(bs []bind, text string, rets []ptShape, hasErr, isRes bool) ([]bind, string, []ptShape, bool, bool) {
			return append(rb, bs...), text, rets, hasErr, isRes
		}
		switch r.sh {
		case ptVal:
			if p, ok := ptValueMethods[f.Sel.Name]; ok {
				return add(c.primCall("Value."+f.Sel.Name, p, []string{r.e}, call, en))
			}
		case ptTy:
			if p, ok := ptTypeMethods[f.Sel.Name]; ok {
				return add(c.primCall("Type."+f.Sel.Name, p, []string{r.e}, call, en))
			}
		case ptHash:
			if f.Sel.Name == "Sum64" && len(call.Args) == 0 {
				c.t.use("hash.Hash64.Sum64", "PathGo.crcSum64")
				return rb, "(PathGo.crcSum64 " + r.e + ")", []ptShape{ptU64}, false, false
			}
		case ptPath:
			return add(c.unitCall("Path."+f.Sel.Name, []string{r.e}, call, en))
		case ptStruct:
			var recv []string
			for _, fl := range r.kind.fields {
				recv = append(recv, r.fields[fl.name].e)
			}
			return add(c.unitCall(r.kind.goType+"."+f.Sel.Name, recv, call, en))
		case ptEmpty:
			return add(c.unitCall("pathSetRules."+f.Sel.Name, nil, call, en))
		case ptIter:
			if v, ok := r.fields[f.Sel.Name]; ok && len(call.Args) == 0 {
				return rb, v.e, []ptShape{v.sh}, false, false
			}
		case ptSet:
			switch f.Sel.Name {
			case "Length":
				if len(call.Args) == 0 {
					c.t.use("set.Set[Path].Length", "SetImpl.length")
					return rb, "(Int.ofNat (SetImpl.length " + r.e + "))", []ptShape{ptInt}, false, false
				}
			case "Has":
				bs, args := c.argsOf(call, en, []ptShape{ptPath})
				c.t.use("set.Set[Path].Has", "SetImpl.has R")
				return append(rb, bs...), "(SetImpl.has R " + r.e + " " + args[0] + ")", []ptShape{ptBool}, false, false
			case "Union", "Intersection", "Subtract", "SymmetricDifference":
				lean := "SetImpl." + strings.ToLower(f.Sel.Name[:1]) + f.Sel.Name[1:]
				bs, args := c.argsOf(call, en, []ptShape{ptSet})
				c.t.use("set.Set[Path]."+f.Sel.Name, lean+" R")
				return append(rb, bs...), "(" + lean + " R " + r.e + " " + args[0] + ")", []ptShape{ptSet}, false, false
			}
		case ptPSet:
			bs, text, rets, hasErr, isRes := c.unitCall("PathSet."+f.Sel.Name, []string{r.e}, call, en)
			if c.t.units["PathSet."+f.Sel.Name].proc {
				dieAt(call, "call %s used as a value", src(call))
			}
			return add(bs, text, rets, hasErr, isRes)
		case ptStep: // a method call through the interface: one arm per implementation
			var arms []string
			var u0 *ptUnit
			var abs []bind
			for _, k := range ptKinds {
				pat := k.ctor
				var recv []string
				for _, fl := range k.fields {
					n := c.fresh("r_"+fl.name, ptLeanType(fl.sh))
					pat, recv = pat+" "+n, append(recv, n)
				}
				b, text, rets, hasErr, _ := c.unitCall(k.goType+"."+f.Sel.Name, recv, call, en)
				u := c.t.units[k.goType+"."+f.Sel.Name]
				if u0 == nil {
					u0, abs = u, b
				} else if u.hasErr != u0.hasErr || fmt.Sprint(u.rets) != fmt.Sprint(u0.rets) || fmt.Sprint(b) != fmt.Sprint(abs) {
					dieAt(call, "interface method %s: the implementations differ in their results or in how the arguments are read", f.Sel.Name)
				}
				_, _ = rets, hasErr
				arms = append(arms, "| "+pat+" => "+text)
			}
			return append(rb, abs...), "(match " + r.e + " with\n" + strings.Join(arms, "\n") + ")", u0.rets, u0.hasErr, true
		}
		dieAt(call, "method call %s", src(call))
	}
	dieAt(call, "call %s", src(call))
	return
}

// ---------------------------------------------------------------- package-level variables

func (t *ptTr) global(name string, at ast.Node) {
	if t.gdefs[name] {
		return
	}
	init := t.globals[name]
	if init == nil {
		dieAt(at, "package-level variable %s not found", name)
	}
	switch name {
	case "crc64Table":
		if got := src(init); got != ptGlobals[name].init {
			dieAt(init, "crc64Table is %s; the given API reads the hash as CRC-64 over %s", got, ptGlobals[name].init)
		}
	case "indexStepPlaceholder":
		call, ok := init.(*ast.CallExpr)
		var lit *ast.BasicLit
		if ok && src(call.Fun) == "[]byte" && len(call.Args) == 1 {
			lit, _ = call.Args[0].(*ast.BasicLit)
		}
		if lit == nil || lit.Kind != token.STRING {
			dieAt(init, "initialiser %s of indexStepPlaceholder", src(init))
		}
		s, _ := strconv.Unquote(lit.Value)
		t.use("[]byte(s)", "PathGo.bytes")
		t.out = append(t.out, fmt.Sprintf("/-- Go: `var indexStepPlaceholder = %s` (cty/path_set.go:%d) -/\ndef indexStepPlaceholder : List UInt8 := (PathGo.bytes %s)\n",
			src(init), fset.Position(init.Pos()).Line, leanStr(s)))
	}
	t.gdefs[name] = true
}

// ---------------------------------------------------------------- entry

func translatePathFns(repo, leanDir, hdr string) int {
	t := &ptTr{funcs: map[string]*ast.FuncDecl{}, file: map[string]string{}, globals: map[string]ast.Expr{}, units: map[string]*ptUnit{},
		used: map[string]string{}, gdefs: map[string]bool{}}
	for _, f := range parseDir(filepath.Join(repo, "cty")) {
		base := filepath.Base(fset.Position(f.Pos()).Filename)
		if !ptFiles[base] {
			continue
		}
		for _, d := range f.Decls {
			switch x := d.(type) {
			case *ast.FuncDecl:
				if x.Body == nil {
					continue
				}
				key := x.Name.Name
				if x.Recv != nil {
					key = strings.TrimPrefix(src(x.Recv.List[0].Type), "*") + "." + key
				}
				t.funcs[key] = x
				t.file[key] = base
			case *ast.GenDecl:
				if x.Tok != token.VAR {
					continue
				}
				for _, sp := range x.Specs {
					vs := sp.(*ast.ValueSpec)
					if len(vs.Names) == 1 && len(vs.Values) == 1 {
						t.globals[vs.Names[0].Name] = vs.Values[0]
					}
				}
			}
		}
	}
	for _, r := range ptRoots {
		if t.funcs[r] == nil {
			die("translate: %s not found in cty/path.go, cty/path_set.go, cty/walk.go", r)
		}
		t.ensure(r, t.funcs[r])
	}
	var b strings.Builder
	b.WriteString(hdr + "-- Translation of the path machinery of cty/path.go, cty/path_set.go and of Walk (cty/walk.go) (extract/translate_path.go);\n-- tied to the hand-written model CtyModel/Path.lean, PathSet.lean, Walk.lean by CtyModel/Lemmas/PathFnsTie.lean.\n--\n")
	b.WriteString("-- TRANSLATED from the source text (a Go panic is `Res.panic`; a `(T…, error)` result is `Res (T…)`, a non-nil error\n-- `Res.err` of its class tag; `X : SetOracle` is what the model is told about set iteration, used by RawEquals and ElementIterator):\n")
	for _, u := range t.order {
		fmt.Fprintf(&b, "--   %s  (%s)\n", u.key, u.lines)
	}
	b.WriteString("-- (`R` = the rules of the wrapped set.Set[Path]; a traced function takes and returns the log of callback invocations.)\n-- NOT translated: GoString (both), NewPathSet (variadic), Transform / TransformWithTransformer / transform (Go maps,\n-- an interface-typed callback); everything the functions above call outside the three files is the GIVEN API\n-- (CtyModel/PathGo.lean and the hand-written operations / set / walk model), assumed to be what the code does:\n")
	var names []string
	for n := range t.used {
		names = append(names, n)
	}
	sort.Strings(names)
	for _, n := range names {
		fmt.Fprintf(&b, "--   %s ↦ %s\n", n, t.used[n])
	}
	b.WriteString("import CtyModel.PathGo\nset_option linter.unusedVariables false\nnamespace CtyModel.Generated.PathFns\n\n")
	b.WriteString(strings.Join(t.out, "\n"))
	b.WriteString("\nend CtyModel.Generated.PathFns\n")
	writeIfChanged(filepath.Join(leanDir, "PathFns.lean"), b.String())
	return len(t.out)
}
