// Go→Lean translator for the generic hash-bucket set of package cty/set (property C03): Set.Add, Remove, Has, Copy,
// Values, Length, Iterator, EachValue, Union, Intersection, Subtract, SymmetricDifference, HasRules, Rules, NewSet,
// NewSetFromSlice, sameRules, mustHaveSameRules, Iterator.Value, Iterator.Next.  It writes
// lean/CtyModel/Generated/SetFns.lean; Lemmas/SetFnsTie.lean proves the generated definitions equal to the hand-written
// model CtyModel/SetImpl.lean, so the C03 set theorems are re-checked against what the source says on every run.
//
// Like translate.go this is a SYNTACTIC FRAGMENT, not Go semantics; anything else is an error with the source position
// (exit 1 = broken tie):
//
//	statements   x := e | x = e | x += e | x -= e | x++ | x-- | p.f = e, p.f++ (through a pointer to a struct)
//	             X.m[k] = e | delete(X.m, k)  (the map field of a struct value: Go maps are references, the update is the
//	             caller's too)  | v, ok := m[k] | r, ok := X.rules.(OrderedRules[T]) | var x []T | var x int | { … }
//	             if [init;] c {…} [else …] | for [i], v := range <slice> {…} | for [k], [v] := range <map> {…}
//	             for c {…}  (only with a fuel expression in the table setLoopFuel) — no nesting, no break/continue/labels
//	             return [e] | panic(…) | copy(x, ys) | sort.Ints(x) | sort.SliceStable(x, func(i, j int) bool { return … x[i] … x[j] … })
//	             f(…) / X.m(…)  (calls of functions of the package, translated on demand; a method that updates its
//	             receiver returns the receiver's new state) | cb(…)  (a call of a func(T) parameter)
//	expressions  identifiers, int literals, field selection, m[k], xs[i], xs[:i], xs[i:], len, append (also xs...), make,
//	             !, &&, ||, ==, !=, <, <=, >, >=, +, - on int, Set[T]{…}, &Iterator[T]{…}, map[int][]T{},
//	             X.rules.Hash/Equivalent/SameRules, r.Less, calls of functions of the package without side effects,
//	             func(v T) { … } as the argument of a func(T) parameter: read as a state transformer over the captured
//	             variables it updates
//
// Aliasing: a struct holding a map, or a pointer to a struct, may be bound only to the result of a call that returns a
// freshly made one (or to a composite literal), never copied from another variable; a function that updates its
// receiver may not take a second value of the same type.  An in-place slice update is accepted only on a variable
// that is assigned nothing but make(…)/nil/append(itself, …).  append to a re-sliced slice is outside the fragment.
// A function literal may not update a variable that is also handed to the callee, and a function that calls back
// may not update its receiver.
package main

import (
	"fmt"
	"go/ast"
	"go/parser"
	"go/token"
	"path/filepath"
	"sort"
	"strconv"
	"strings"
)

// ---------------------------------------------------------------- configuration (the reading of Go data)

var setRoots = []string{
	"NewSet", "NewSetFromSlice", "sameRules", "mustHaveSameRules", "Set.HasRules", "Set.Rules",
	"Set.Add", "Set.Remove", "Set.Has", "Set.Copy", "Iterator.Value", "Iterator.Next", "Set.Values", "Set.Iterator",
	"Set.EachValue", "Set.Length", "Set.Union", "Set.Intersection", "Set.Subtract", "Set.SymmetricDifference",
}

// Lean structures (lean/CtyModel/SetGo.lean) for the struct types of the package; the fields are read from the source
var setStructLean = map[string]string{"Set": "SetGo.GoSet", "Iterator": "SetGo.GoIterator"}

// `for c {…}` loops: a Go expression (over the variables in scope at the loop) bounding the number of iterations.
// It is NOT trusted: too small a bound makes the generated function `Res.unmodelled` and the tie theorem fail.
var setLoopFuel = map[string]string{"Set.EachValue": "len(it.vals) + 1"}

const (
	setSameParam = "rulesSame"
	setOrdParam  = "mapOrder"
)

type sShape int

const (
	ssT sShape = iota
	ssInt
	ssBool
	ssSliceT
	ssSliceInt
	ssSliceOpt // make([]T, n): elements may still be the zero T
	ssMap
	ssRules
	ssOrd    // the OrderedRules obtained by a type assertion: e is its Less function
	ssStruct // Set[T], *Iterator[T]: flattened into the fields
	ssCb     // a func(T) parameter; its effect is on the hidden state variable <name>·st
	ssState  // the hidden state of a callback (type σ, or the tuple type of a closure's captured variables)
	ssSortIx // i, j inside the less function of sort.SliceStable
	ssUnit
	ssPoison
	ssNil
)

type sKind struct {
	goName, lean string
	fields       []sField
}

type sField struct {
	name string
	sh   sShape
}

type sVal struct {
	sh     sShape
	e      string
	konst  int
	kind   *sKind
	fields map[string]sVal
	typ    string // ssState: Lean type
	fresh  bool   // a struct (or map) that no other variable can share
	why    string
}

type sEnv map[string]sVal

func (e sEnv) with(k string, v sVal) sEnv {
	if k == "" || k == "_" {
		return e
	}
	n := make(sEnv, len(e)+1)
	for a, b := range e {
		n[a] = b
	}
	n[k] = v
	return n
}

func sBool(e string) sVal { return sVal{sh: ssBool, e: e} }
func sConst(b bool) sVal {
	if b {
		return sVal{sh: ssBool, e: "true", konst: 1}
	}
	return sVal{sh: ssBool, e: "false", konst: 2}
}

func (t *str) typeOfShape(sh sShape, k *sKind) string {
	switch sh {
	case ssT:
		return "α"
	case ssInt:
		return "Int"
	case ssBool:
		return "Bool"
	case ssSliceT:
		return "List α"
	case ssSliceInt:
		return "List Int"
	case ssSliceOpt:
		return "List (Option α)"
	case ssMap:
		return "SetGo.GoMap α"
	case ssRules:
		return "Rules α"
	case ssOrd:
		return "α → α → Bool"
	case ssStruct:
		return k.lean + " α"
	case ssUnit:
		return "Unit"
	}
	panic("typeOfShape")
}

func (t *str) typeOf(v sVal) string {
	if v.sh == ssState {
		return v.typ
	}
	return t.typeOfShape(v.sh, v.kind)
}

// goType reads a Go type expression of the package
func (t *str) goType(e ast.Expr) (sShape, *sKind) {
	s := strings.ReplaceAll(src(e), " ", "")
	switch s {
	case "T", "interface{}", "any":
		return ssT, nil
	case "int":
		return ssInt, nil
	case "bool":
		return ssBool, nil
	case "[]T":
		return ssSliceT, nil
	case "[]int":
		return ssSliceInt, nil
	case "map[int][]T":
		return ssMap, nil
	case "Rules[T]":
		return ssRules, nil
	case "func(T)":
		return ssCb, nil
	}
	s = strings.TrimPrefix(s, "*")
	if strings.HasSuffix(s, "[T]") {
		if k := t.kinds[strings.TrimSuffix(s, "[T]")]; k != nil {
			return ssStruct, k
		}
	}
	dieAt(e, "type %s", src(e))
	return 0, nil
}

func sTupleExpr(es []string) string {
	switch len(es) {
	case 0:
		return "()"
	case 1:
		return es[0]
	}
	return "(" + strings.Join(es, ", ") + ")"
}

func sTupleType(ts []string) string {
	switch len(ts) {
	case 0:
		return "Unit"
	case 1:
		return ts[0]
	}
	a := make([]string, len(ts))
	for i, x := range ts {
		a[i] = atomType(x)
	}
	return strings.Join(a, " × ")
}

func sProj(x string, i, n int) string {
	if n == 1 {
		return x
	}
	if i < n-1 {
		return x + strings.Repeat(".2", i) + ".1"
	}
	return x + strings.Repeat(".2", i)
}

// ---------------------------------------------------------------- translator state

type sParam struct {
	name string
	sh   sShape
	kind *sKind
}

type sUnit struct {
	key, name  string
	fd         *ast.FuncDecl
	recvName   string
	recvKind   *sKind
	params     []sParam
	mutRecv    []string // receiver fields the function updates (returned to the caller)
	cb         string   // name of the func(T) parameter, if any
	hasRet     bool
	retSh      sShape
	retKind    *sKind
	freshRet   bool
	usesSame   bool
	usesOrd    bool
	inProgress bool
	resTypes   []string
}

type str struct {
	funcs map[string]*ast.FuncDecl
	file  map[string]string
	kinds map[string]*sKind
	units map[string]*sUnit
	order []*sUnit
	out   []string
	api   map[string]string // given API actually used ↦ its Lean reading
}

type sPlace struct{ v, f string }

type sctx struct {
	t       *str
	u       *sUnit
	ltype   map[string]string
	order   []string
	nloops  int
	inLoop  bool
	retType string
	retK    func(en sEnv, res *sVal, at ast.Node) string
	sortOf  string // name of the slice being sorted while its less function is translated
	noJoin  map[*ast.IfStmt]bool
}

func (c *sctx) fresh(base, typ string) string {
	base = strings.TrimRight(base, "_")
	n := base + "_"
	for i := 2; c.ltype[n] != ""; i++ {
		n = fmt.Sprintf("%s_%d", base, i)
	}
	c.ltype[n] = typ
	c.order = append(c.order, n)
	return n
}

func (t *str) use(goForm, lean string) string {
	t.api[goForm] = lean
	return lean
}

// structVal builds the flattened value of a struct from one Lean expression per field
func (t *str) structVal(k *sKind, exprs []string) sVal {
	v := sVal{sh: ssStruct, kind: k, fields: map[string]sVal{}}
	for i, f := range k.fields {
		v.fields[f.name] = sVal{sh: f.sh, e: exprs[i]}
	}
	return v
}

// pack writes a flattened struct as one Lean value
func (t *str) pack(v sVal) string {
	var fs []string
	for _, f := range v.kind.fields {
		fs = append(fs, f.name+" := "+v.fields[f.name].e)
	}
	return "({ " + strings.Join(fs, ", ") + " } : " + v.kind.lean + " α)"
}

func (t *str) valExpr(v sVal) string {
	if v.sh == ssStruct {
		return t.pack(v)
	}
	return v.e
}

// unpack reads a Lean value of a struct type as a flattened struct
func (t *str) unpack(k *sKind, x string) sVal {
	var es []string
	for _, f := range k.fields {
		es = append(es, x+"."+f.name)
	}
	return t.structVal(k, es)
}

func (k *sKind) field(n string) (sField, bool) {
	for _, f := range k.fields {
		if f.name == n {
			return f, true
		}
	}
	return sField{}, false
}

// isRef: values of this kind share state with their copies (a map field, or held by pointer)
func (k *sKind) isRef() bool { return true }

// ---------------------------------------------------------------- places and the update analysis

func sGet(en sEnv, p sPlace) sVal {
	if p.f == "" {
		return en[p.v]
	}
	return en[p.v].fields[p.f]
}

func sSet(en sEnv, p sPlace, v sVal) sEnv {
	if p.f == "" {
		return en.with(p.v, v)
	}
	old := en[p.v]
	nf := make(map[string]sVal, len(old.fields))
	for k, x := range old.fields {
		nf[k] = x
	}
	nf[p.f] = v
	old.fields = nf
	return en.with(p.v, old)
}

// placeOf: the variable (or struct field of a variable) that an assignable expression designates
func (c *sctx) placeOf(e ast.Expr, en sEnv) (sPlace, bool) {
	for {
		switch x := e.(type) {
		case *ast.ParenExpr:
			e = x.X
			continue
		case *ast.IndexExpr:
			e = x.X
			continue
		case *ast.StarExpr:
			e = x.X
			continue
		case *ast.Ident:
			if _, ok := en[x.Name]; ok {
				return sPlace{x.Name, ""}, true
			}
			return sPlace{}, false
		case *ast.SelectorExpr:
			if id, ok := x.X.(*ast.Ident); ok {
				if v, ok := en[id.Name]; ok && v.sh == ssStruct {
					if _, ok := v.kind.field(x.Sel.Name); ok {
						return sPlace{id.Name, x.Sel.Name}, true
					}
				}
			}
			return sPlace{}, false
		}
		return sPlace{}, false
	}
}

// mutated: the places of the enclosing scope `en` that the statements under n update (syntactic, an over-approximation)
func (c *sctx) mutated(n ast.Node, en sEnv) []sPlace {
	set := map[sPlace]bool{}
	add := func(e ast.Expr) {
		if p, ok := c.placeOf(e, en); ok {
			if p.f == "" && en[p.v].sh == ssStruct {
				dieAt(e, "assignment to the whole struct %s", p.v)
			}
			set[p] = true
		}
	}
	ast.Inspect(n, func(n ast.Node) bool {
		switch x := n.(type) {
		case *ast.AssignStmt:
			if x.Tok != token.DEFINE {
				for _, l := range x.Lhs {
					add(l)
				}
			}
		case *ast.IncDecStmt:
			add(x.X)
		case *ast.CallExpr:
			switch f := x.Fun.(type) {
			case *ast.Ident:
				switch {
				case (f.Name == "delete" || f.Name == "copy") && len(x.Args) > 0:
					add(x.Args[0])
				case en[f.Name].sh == ssCb:
					set[sPlace{f.Name + "·st", ""}] = true
				}
			case *ast.SelectorExpr:
				if id, ok := f.X.(*ast.Ident); ok {
					if id.Name == "sort" && len(x.Args) > 0 {
						if _, shadow := en["sort"]; !shadow {
							add(x.Args[0])
						}
					}
					if v, ok := en[id.Name]; ok && v.sh == ssStruct {
						if c.t.funcs[v.kind.goName+"."+f.Sel.Name] != nil {
							u := c.t.ensure(v.kind.goName+"."+f.Sel.Name, x)
							for _, fld := range u.mutRecv {
								set[sPlace{id.Name, fld}] = true
							}
						}
					}
				}
			}
		}
		return true
	})
	var out []sPlace
	for p := range set {
		out = append(out, p)
	}
	sort.Slice(out, func(i, j int) bool {
		if out[i].v != out[j].v {
			return out[i].v < out[j].v
		}
		return out[i].f < out[j].f
	})
	return out
}

// state helpers: the Lean expressions of a list of places, and the environment with those places renamed
func (c *sctx) stateExprs(ps []sPlace, en sEnv) []string {
	var out []string
	for _, p := range ps {
		out = append(out, sGet(en, p).e)
	}
	return out
}

func (c *sctx) stateTypes(ps []sPlace, en sEnv) []string {
	var out []string
	for _, p := range ps {
		out = append(out, c.t.typeOf(sGet(en, p)))
	}
	return out
}

func (c *sctx) rename(ps []sPlace, en sEnv) (sEnv, []string) {
	var names []string
	for _, p := range ps {
		v := sGet(en, p)
		switch v.sh {
		case ssStruct, ssPoison, ssNil, ssCb, ssSortIx:
			dieAt(c.u.fd, "variable %s cannot be carried through a loop or branch", p.v)
		}
		base := p.v
		if p.f != "" {
			base += "_" + p.f
		}
		base = strings.ReplaceAll(base, "·", "_")
		n := c.fresh(base, c.t.typeOf(v))
		names = append(names, n)
		v.e, v.konst = n, 0
		en = sSet(en, p, v)
	}
	return en, names
}

func (c *sctx) rebindProj(ps []sPlace, en sEnv, x string, off, n int) sEnv {
	for i, p := range ps {
		v := sGet(en, p)
		v.e, v.konst = sProj(x, off+i, n), 0
		en = sSet(en, p, v)
	}
	return en
}

func hasExit(n ast.Node) bool {
	found := false
	ast.Inspect(n, func(n ast.Node) bool {
		switch x := n.(type) {
		case *ast.ReturnStmt:
			found = true
		case *ast.FuncLit:
			return false
		case *ast.CallExpr:
			if id, ok := x.Fun.(*ast.Ident); ok && id.Name == "panic" {
				found = true
			}
		}
		return !found
	})
	return found
}

// ---------------------------------------------------------------- functions

func (t *str) ensure(key string, at ast.Node) *sUnit {
	if u := t.units[key]; u != nil {
		if u.inProgress {
			dieAt(at, "recursion through %s", key)
		}
		return u
	}
	fd := t.funcs[key]
	if fd == nil {
		dieAt(at, "call of %s, which is neither a function of package set nor part of the given API", key)
	}
	return t.translate(key, fd)
}

func (t *str) translate(key string, fd *ast.FuncDecl) *sUnit {
	u := &sUnit{key: key, name: strings.ReplaceAll(key, ".", "_"), fd: fd, inProgress: true}
	t.units[key] = u
	c := &sctx{t: t, u: u, ltype: map[string]string{setSameParam: "·", setOrdParam: "·"}, noJoin: map[*ast.IfStmt]bool{}}
	en := sEnv{}
	var binders []string
	nRef := 0
	bindParam := func(name string, sh sShape, k *sKind, at ast.Node) {
		switch sh {
		case ssStruct:
			nRef++
			var es []string
			for _, f := range k.fields {
				n := c.fresh(name+"_"+f.name, t.typeOfShape(f.sh, nil))
				binders = append(binders, fmt.Sprintf("(%s : %s)", n, t.typeOfShape(f.sh, nil)))
				es = append(es, n)
			}
			en = en.with(name, t.structVal(k, es))
		case ssCb:
			if u.cb != "" {
				dieAt(at, "second func(T) parameter")
			}
			u.cb = name
			n := c.fresh(name, "σ → α → Res σ")
			st := c.fresh(name+"_st", "σ")
			binders = append(binders, fmt.Sprintf("(%s : σ → α → Res σ)", n), fmt.Sprintf("(%s : σ)", st))
			en = en.with(name, sVal{sh: ssCb, e: n}).with(name+"·st", sVal{sh: ssState, e: st, typ: "σ"})
		case ssT, ssInt, ssBool, ssSliceT, ssSliceInt, ssRules:
			n := c.fresh(name, t.typeOfShape(sh, nil))
			binders = append(binders, fmt.Sprintf("(%s : %s)", n, t.typeOfShape(sh, nil)))
			en = en.with(name, sVal{sh: sh, e: n})
		default:
			dieAt(at, "parameter %s", name)
		}
	}
	if fd.Recv != nil {
		r := fd.Recv.List[0]
		if len(r.Names) != 1 {
			dieAt(r, "receiver without a name")
		}
		sh, k := t.goType(r.Type)
		if sh != ssStruct {
			dieAt(r, "receiver type %s", src(r.Type))
		}
		u.recvName, u.recvKind = r.Names[0].Name, k
		bindParam(u.recvName, sh, k, r)
	}
	for _, f := range fd.Type.Params.List {
		sh, k := t.goType(f.Type)
		if len(f.Names) == 0 {
			dieAt(f, "parameter without a name")
		}
		for _, nm := range f.Names {
			u.params = append(u.params, sParam{nm.Name, sh, k})
			bindParam(nm.Name, sh, k, f)
		}
	}
	switch {
	case fd.Type.Results == nil || len(fd.Type.Results.List) == 0:
	case len(fd.Type.Results.List) == 1 && len(fd.Type.Results.List[0].Names) == 0:
		u.hasRet = true
		u.retSh, u.retKind = t.goType(fd.Type.Results.List[0].Type)
		if u.retSh == ssCb {
			dieAt(fd, "function result")
		}
	default:
		dieAt(fd, "result list")
	}
	// which receiver fields does the body update?  (decided before the body is translated: every return yields them)
	if u.recvName != "" {
		for _, p := range c.mutated(fd.Body, en) {
			if p.v == u.recvName {
				u.mutRecv = append(u.mutRecv, p.f)
			} else if !strings.HasSuffix(p.v, "·st") {
				dieAt(fd, "the function updates its parameter %s", p.v)
			}
		}
	} else {
		for _, p := range c.mutated(fd.Body, en) {
			if !strings.HasSuffix(p.v, "·st") {
				dieAt(fd, "the function updates its parameter %s", p.v)
			}
		}
	}
	if len(u.mutRecv) > 0 {
		if nRef > 1 {
			dieAt(fd, "a function that updates its receiver takes a second struct value (they may alias)")
		}
		ptr := false
		if _, ok := fd.Recv.List[0].Type.(*ast.StarExpr); ok {
			ptr = true
		}
		for _, f := range u.mutRecv {
			if fs, _ := u.recvKind.field(f); fs.sh != ssMap && !ptr {
				dieAt(fd, "update of field %s of a value receiver is lost to the caller", f)
			}
			fs, _ := u.recvKind.field(f)
			u.resTypes = append(u.resTypes, t.typeOfShape(fs.sh, nil))
		}
	}
	if u.cb != "" {
		if len(u.mutRecv) > 0 {
			dieAt(fd, "a function that calls back may not update its receiver (the callback may be looking at it)")
		}
		u.resTypes = append(u.resTypes, "σ")
	}
	if u.hasRet {
		u.resTypes = append(u.resTypes, t.typeOfShape(u.retSh, u.retKind))
	}
	c.retType = "Res " + atomType(sTupleType(u.resTypes))
	u.freshRet = true
	c.retK = func(e sEnv, res *sVal, at ast.Node) string {
		var es []string
		for _, f := range u.mutRecv {
			es = append(es, e[u.recvName].fields[f].e)
		}
		if u.cb != "" {
			es = append(es, e[u.cb+"·st"].e)
		}
		if u.hasRet {
			if res == nil {
				dieAt(at, "control reaches the end of a function with a result")
			}
			if res.sh != u.retSh || res.kind != u.retKind {
				dieAt(at, "returned value")
			}
			es = append(es, t.valExpr(*res))
		} else if res != nil {
			dieAt(at, "return with a value")
		}
		return "(Res.ok " + sTupleExpr(es) + ")"
	}
	body := c.block(fd.Body.List, en, func(e sEnv) string { return c.retK(e, nil, fd.Body) })
	tk := tokens(body)
	u.usesSame, u.usesOrd = tk[setSameParam], tk[setOrdParam]
	u.inProgress = false
	var pre []string
	if u.cb != "" {
		pre = append(pre, "{σ : Type}")
	}
	if u.usesSame {
		pre = append(pre, "("+setSameParam+" : Rules α → Rules α → Bool)")
	}
	if u.usesOrd {
		pre = append(pre, "("+setOrdParam+" : SetGo.GoMap α → SetGo.GoMap α)")
	}
	what := ""
	if len(u.mutRecv) > 0 {
		what = "; yields the receiver's new `" + strings.Join(u.mutRecv, "`, `") + "`"
	}
	doc := fmt.Sprintf("/-- Go: `%s` (%s)%s -/\n", strings.Join(strings.Fields(src(&ast.FuncDecl{Recv: fd.Recv, Name: fd.Name, Type: fd.Type})), " "), t.posRange(fd), what)
	t.out = append(t.out, fmt.Sprintf("%sdef %s %s : %s :=\n%s\n", doc, u.name, strings.Join(append(pre, binders...), " "), c.retType, indent(body)))
	t.order = append(t.order, u)
	return u
}

func (t *str) posRange(fd *ast.FuncDecl) string {
	a, b := fset.Position(fd.Pos()), fset.Position(fd.End())
	return fmt.Sprintf("cty/set/%s:%d-%d", filepath.Base(a.Filename), a.Line, b.Line)
}

// ---------------------------------------------------------------- statements

func (c *sctx) block(list []ast.Stmt, en sEnv, k func(sEnv) string) string {
	return c.stmts(list, en, en, map[string]bool{}, k)
}

func sNoBranch(n ast.Node, what string) {
	ast.Inspect(n, func(n ast.Node) bool {
		switch b := n.(type) {
		case *ast.BranchStmt:
			dieAt(b, "%s in %s", b.Tok, what)
		case *ast.LabeledStmt:
			dieAt(b, "label in %s", what)
		}
		return true
	})
}

func (c *sctx) stmts(list []ast.Stmt, entry, cur sEnv, decl map[string]bool, k func(sEnv) string) string {
	if len(list) == 0 {
		out := sEnv{}
		for name, v := range entry {
			if decl[name] {
				out[name] = v
			} else {
				out[name] = cur[name]
			}
		}
		return k(out)
	}
	next := func(e sEnv, d map[string]bool) string { return c.stmts(list[1:], entry, e, d, k) }
	switch s := list[0].(type) {
	case *ast.ReturnStmt:
		if len(s.Results) == 0 {
			return c.retK(cur, nil, s)
		}
		if len(s.Results) != 1 {
			dieAt(s, "return with %d values", len(s.Results))
		}
		bs, v, e2 := c.exprEff(s.Results[0], cur)
		if v.sh == ssStruct && !v.fresh {
			c.u.freshRet = false
			if v.kind.isRef() {
				dieAt(s, "the function returns a struct that shares state with an argument")
			}
		}
		if v.sh == ssSliceOpt {
			n := c.fresh("elems", "List α")
			bs = append(bs, bind{n, "(" + c.t.use("a []T built by make([]T, n) and used as a []T", "SetGo.sliceDone") + " " + v.e + ")"})
			v = sVal{sh: ssSliceT, e: n}
		}
		return wrap(bs, c.retK(e2, &v, s))
	case *ast.BlockStmt:
		return c.block(s.List, cur, func(e sEnv) string { return next(e, decl) })
	case *ast.IfStmt:
		if !hasExit(s) && !c.noJoin[s] {
			// no way out of the statement but its end: translated once, the updated variables are handed on
			ps := c.mutated(s, cur)
			inner := c.ifStmt(s, cur, func(e sEnv) string { return "(Res.ok " + sTupleExpr(c.stateExprs(ps, e)) + ")" })
			e2, names := c.rename(ps, cur)
			pat := "_"
			if len(names) > 0 {
				pat = sTupleExpr(names)
				if len(names) > 1 {
					x := c.fresh("x", "·")
					pat = x
					e2 = c.rebindProj(ps, e2, x, 0, len(names))
				}
			}
			return wrap([]bind{{pat, inner}}, next(e2, decl))
		}
		return c.ifStmt(s, cur, func(e sEnv) string { return next(e, decl) })
	case *ast.DeclStmt:
		gd := s.Decl.(*ast.GenDecl)
		if gd.Tok == token.VAR && len(gd.Specs) == 1 {
			vs := gd.Specs[0].(*ast.ValueSpec)
			if len(vs.Names) == 1 && len(vs.Values) == 0 && vs.Type != nil {
				var v sVal
				switch sh, _ := c.t.goType(vs.Type); sh {
				case ssSliceT:
					v = sVal{sh: ssSliceT, e: "([] : List α)"}
				case ssSliceInt:
					v = sVal{sh: ssSliceInt, e: "([] : List Int)"}
				case ssInt:
					v = sVal{sh: ssInt, e: "(0 : Int)"}
				case ssBool:
					v = sConst(false)
				default:
					dieAt(s, "declaration %s", src(s))
				}
				return next(cur.with(vs.Names[0].Name, v), declWith(decl, vs.Names[0].Name))
			}
		}
		dieAt(s, "declaration %s", src(s))
	case *ast.ExprStmt:
		call, ok := s.X.(*ast.CallExpr)
		if !ok {
			dieAt(s, "expression statement %s", src(s))
		}
		return c.callStmt(call, cur, func(e sEnv) string { return next(e, decl) })
	case *ast.IncDecStmt:
		op := token.ADD_ASSIGN
		if s.Tok == token.DEC {
			op = token.SUB_ASSIGN
		}
		return c.assign(&ast.AssignStmt{Lhs: []ast.Expr{s.X}, TokPos: s.TokPos, Tok: op, Rhs: []ast.Expr{&ast.BasicLit{ValuePos: s.TokPos, Kind: token.INT, Value: "1"}}}, cur, decl, next)
	case *ast.AssignStmt:
		return c.assign(s, cur, decl, next)
	case *ast.RangeStmt:
		return c.rangeStmt(s, cur, func(e sEnv) string { return next(e, decl) })
	case *ast.ForStmt:
		return c.forStmt(s, cur, func(e sEnv) string { return next(e, decl) })
	}
	dieAt(list[0], "statement %s", strings.TrimPrefix(fmt.Sprintf("%T", list[0]), "*ast."))
	return ""
}

func (c *sctx) ifStmt(s *ast.IfStmt, cur sEnv, k func(sEnv) string) string {
	if s.Init != nil {
		in := &ast.IfStmt{If: s.If, Cond: s.Cond, Body: s.Body, Else: s.Else}
		c.noJoin[in] = true
		return c.block([]ast.Stmt{s.Init, in}, cur, k)
	}
	bs, v := c.expr(s.Cond, cur)
	if v.sh != ssBool {
		dieAt(s.Cond, "condition %s", src(s.Cond))
	}
	thenT := func() string { return c.block(s.Body.List, cur, k) }
	elseT := func() string {
		switch e := s.Else.(type) {
		case nil:
			return k(cur)
		case *ast.BlockStmt:
			return c.block(e.List, cur, k)
		default:
			return c.block([]ast.Stmt{e}, cur, k)
		}
	}
	switch v.konst {
	case 1:
		return wrap(bs, thenT())
	case 2:
		return wrap(bs, elseT())
	}
	return wrap(bs, "(if "+v.e+" then\n"+indent(thenT())+"\nelse\n"+indent(elseT())+")")
}

// storable: the value as it is stored in a variable, a map or a struct field of slice type
func (c *sctx) storable(bs []bind, v sVal, want sShape) ([]bind, sVal) {
	if v.sh == ssSliceOpt && want == ssSliceT {
		n := c.fresh("elems", "List α")
		bs = append(bs, bind{n, "(" + c.t.use("a []T built by make([]T, n) and used as a []T", "SetGo.sliceDone") + " " + v.e + ")"})
		return bs, sVal{sh: ssSliceT, e: n}
	}
	if v.sh == ssNil {
		switch want {
		case ssSliceT:
			return bs, sVal{sh: ssSliceT, e: "([] : List α)"}
		case ssSliceInt:
			return bs, sVal{sh: ssSliceInt, e: "([] : List Int)"}
		}
	}
	return bs, v
}

func (c *sctx) assign(s *ast.AssignStmt, cur sEnv, decl map[string]bool, next func(sEnv, map[string]bool) string) string {
	define := s.Tok == token.DEFINE
	bindVar := func(e sEnv, d map[string]bool, name string, v sVal) (sEnv, map[string]bool) {
		if name == "" {
			return e, d
		}
		if define && !d[name] {
			return e.with(name, v), declWith(d, name)
		}
		old, ok := e[name]
		if !ok {
			dieAt(s, "assignment to unknown variable %s", name)
		}
		if old.sh == ssStruct || v.sh == ssStruct {
			dieAt(s, "assignment to the struct variable %s", name)
		}
		if old.sh != v.sh && old.sh != ssPoison && !(old.sh == ssSliceT && v.sh == ssSliceOpt) {
			dieAt(s, "assignment changes how %s is modelled", name)
		}
		return e.with(name, v), d
	}
	// comma-ok forms
	if len(s.Lhs) == 2 && len(s.Rhs) == 1 && define {
		vName, okName := identName(s.Lhs[0]), identName(s.Lhs[1])
		switch r := s.Rhs[0].(type) {
		case *ast.IndexExpr:
			bs, m := c.expr(r.X, cur)
			bs2, key := c.expr(r.Index, cur)
			bs = append(bs, bs2...)
			if m.sh != ssMap || key.sh != ssInt {
				dieAt(r, "comma-ok index of %s", src(r.X))
			}
			e, d := bindVar(cur, decl, vName, sVal{sh: ssSliceT, e: "(" + c.t.use("m[k]", "SetGo.mapGet") + " " + m.e + " " + key.e + ")"})
			e, d = bindVar(e, d, okName, sBool("("+c.t.use("_, ok := m[k]", "SetGo.mapHas")+" "+m.e+" "+key.e+")"))
			return wrap(bs, next(e, d))
		case *ast.TypeAssertExpr:
			bs, x := c.expr(r.X, cur)
			if x.sh != ssRules || r.Type == nil || strings.ReplaceAll(src(r.Type), " ", "") != "OrderedRules[T]" {
				dieAt(r, "type assertion %s", src(r))
			}
			c.t.use("r.(OrderedRules[T])", "match on Rules.less")
			n := "_"
			ov := sVal{sh: ssPoison, why: "unused"}
			if vName != "" {
				n = c.fresh(vName+"_less", "α → α → Bool")
				ov = sVal{sh: ssOrd, e: n}
			}
			e, d := bindVar(cur, decl, vName, ov)
			e, d = bindVar(e, d, okName, sConst(true))
			some := next(e, d)
			e, d = bindVar(cur, decl, vName, sVal{sh: ssPoison, why: "zero value after a failed type assertion"})
			e, d = bindVar(e, d, okName, sConst(false))
			return wrap(bs, "(match "+x.e+".less with\n| some "+n+" =>\n"+indent(some)+"\n| none =>\n"+indent(next(e, d))+")")
		}
		dieAt(s, "two-valued assignment %s", src(s))
	}
	if len(s.Lhs) != 1 || len(s.Rhs) != 1 {
		dieAt(s, "parallel assignment")
	}
	rhs := s.Rhs[0]
	switch s.Tok {
	case token.DEFINE, token.ASSIGN:
	case token.ADD_ASSIGN, token.SUB_ASSIGN:
		op := token.ADD
		if s.Tok == token.SUB_ASSIGN {
			op = token.SUB
		}
		rhs = &ast.BinaryExpr{X: s.Lhs[0], OpPos: s.TokPos, Op: op, Y: &ast.ParenExpr{X: rhs}}
	default:
		dieAt(s, "assignment operator %s", s.Tok)
	}
	switch l := s.Lhs[0].(type) {
	case *ast.Ident:
		name := identName(l)
		bs, v, e2 := c.exprEff(rhs, cur)
		switch v.sh {
		case ssNil, ssPoison, ssUnit, ssCb, ssSortIx, ssState:
			dieAt(s, "value %s cannot be stored in a variable", src(rhs))
		case ssStruct:
			if !define || !v.fresh {
				dieAt(s, "a struct that shares state (a map, a pointer) may only be bound with := to a freshly made one")
			}
		case ssMap:
			dieAt(s, "a map may not be bound to a second name")
		}
		if !define {
			if old, ok := e2[name]; ok {
				bs, v = c.storable(bs, v, old.sh)
				if old.sh == ssSliceT && v.sh == ssSliceOpt {
					dieAt(s, "assignment changes how %s is modelled", name)
				}
			}
		}
		e, d := bindVar(e2, decl, name, v)
		return wrap(bs, next(e, d))
	case *ast.SelectorExpr: // p.f = e through a pointer
		p, ok := c.placeOf(l, cur)
		if !ok || p.f == "" || define {
			dieAt(s, "assignment to %s", src(l))
		}
		if fs, _ := cur[p.v].kind.field(p.f); fs.sh == ssMap || fs.sh == ssRules {
			dieAt(s, "assignment to the field %s", src(l))
		}
		if p.v != c.u.recvName && !cur[p.v].fresh {
			dieAt(s, "assignment to %s: the struct may be shared", src(l))
		}
		bs, v := c.expr(rhs, cur)
		bs, v = c.storable(bs, v, sGet(cur, p).sh)
		if v.sh != sGet(cur, p).sh {
			dieAt(s, "assignment to %s", src(l))
		}
		return wrap(bs, next(sSet(cur, p, v), decl))
	case *ast.IndexExpr: // X.m[k] = e
		p, ok := c.placeOf(l.X, cur)
		if !ok || define || sGet(cur, p).sh != ssMap || p.f == "" {
			dieAt(s, "assignment to %s", src(l))
		}
		if p.v != c.u.recvName && !cur[p.v].fresh {
			dieAt(s, "assignment to %s: the map may be shared with another variable", src(l))
		}
		m := sGet(cur, p)
		bs, key := c.expr(l.Index, cur)
		bs2, v := c.expr(rhs, cur)
		bs = append(bs, bs2...)
		bs, v = c.storable(bs, v, ssSliceT)
		if key.sh != ssInt || v.sh != ssSliceT {
			dieAt(s, "map element assignment %s", src(s))
		}
		m.e = "(" + c.t.use("m[k] = v", "SetGo.mapSet") + " " + m.e + " " + key.e + " " + v.e + ")"
		return wrap(bs, next(sSet(cur, p, m), decl))
	}
	dieAt(s, "assignment to %s", src(s.Lhs[0]))
	return ""
}

// ---------------------------------------------------------------- loops

// helper emits the definition of a loop helper; caps are the variables of the enclosing scope it mentions
func (c *sctx) captures(texts string, cur sEnv) (decls, names []string) {
	used := tokens(texts)
	avail := map[string]bool{}
	var walk func(v sVal)
	walk = func(v sVal) {
		for tk := range tokens(v.e) {
			avail[tk] = true
		}
		for _, f := range v.fields {
			walk(f)
		}
	}
	for _, v := range cur {
		walk(v)
	}
	if used[setSameParam] {
		decls, names = append(decls, "("+setSameParam+" : Rules α → Rules α → Bool)"), append(names, setSameParam)
	}
	if used[setOrdParam] {
		decls, names = append(decls, "("+setOrdParam+" : SetGo.GoMap α → SetGo.GoMap α)"), append(names, setOrdParam)
	}
	for _, n := range c.order {
		if used[n] && avail[n] {
			decls, names = append(decls, fmt.Sprintf("(%s : %s)", n, c.ltype[n])), append(names, n)
		}
	}
	return
}

func (c *sctx) sigma() string {
	if strings.Contains(c.retType, "σ") || c.u.cb != "" {
		return "{σ : Type} "
	}
	return ""
}

func (c *sctx) rangeStmt(s *ast.RangeStmt, cur sEnv, after func(sEnv) string) string {
	if c.inLoop {
		dieAt(s, "nested loop")
	}
	if s.Tok != token.DEFINE {
		dieAt(s, "range without :=")
	}
	sNoBranch(s.Body, "a loop")
	xb, x := c.expr(s.X, cur)
	keyName, valName := identName(s.Key), identName(s.Value)
	c.nloops++
	name := fmt.Sprintf("%s_loop%d", c.u.name, c.nloops)
	hole := "«" + name + "»"
	ps := c.mutated(s.Body, cur)
	for _, p := range ps {
		if q, ok := c.placeOf(s.X, cur); ok && q == p {
			dieAt(s, "loop updates the collection it ranges over")
		}
	}
	stInit := c.stateExprs(ps, cur)
	stTypes := c.stateTypes(ps, cur)
	inner, stPats := c.rename(ps, cur)
	body := inner
	var elemT, consPat, listE string
	idx := ""
	rest := ""
	switch x.sh {
	case ssSliceT, ssSliceInt:
		elemT = "α"
		esh := ssT
		if x.sh == ssSliceInt {
			elemT, esh = "Int", ssInt
		}
		if keyName != "" {
			idx = c.fresh(keyName, "Int")
			body = body.with(keyName, sVal{sh: ssInt, e: idx})
		}
		h := "_"
		if valName != "" {
			h = c.fresh(valName, elemT)
			body = body.with(valName, sVal{sh: esh, e: h})
		}
		rest = c.fresh("rest", "List "+elemT)
		consPat, listE = h+" :: "+rest, x.e
	case ssMap:
		elemT = "(Int × List α)"
		kh, vh := "_", "_"
		if keyName != "" {
			kh = c.fresh(keyName, "Int")
			body = body.with(keyName, sVal{sh: ssInt, e: kh})
		}
		if valName != "" {
			vh = c.fresh(valName, "List α")
			body = body.with(valName, sVal{sh: ssSliceT, e: vh})
		}
		rest = c.fresh("rest", "List (Int × List α)")
		consPat, listE = "("+kh+", "+vh+") :: "+rest, "("+setOrdParam+" "+x.e+")"
		c.t.use("for k, v := range m", "the list "+setOrdParam+" m (a parameter: any permutation of m)")
	default:
		dieAt(s.X, "range over %s", src(s.X))
	}
	idxNext := ""
	if idx != "" {
		idxNext = "(" + idx + " + 1) "
	}
	c.inLoop = true
	stepT := c.block(s.Body.List, body, func(e sEnv) string {
		return strings.Join(strings.Fields("("+hole+" "+strings.Join(c.stateExprs(ps, e), " ")+" "+idxNext+rest+")"), " ")
	})
	c.inLoop = false
	restT := after(inner)
	capDecl, capNames := c.captures(stepT+"\n"+restT, cur)
	head := strings.Join(strings.Fields(name+" "+strings.Join(capNames, " ")), " ")
	stepT = strings.ReplaceAll(stepT, hole, head)
	sig := append([]string{}, stTypes...)
	pats, unders := append([]string{}, stPats...), append([]string{}, stPats...)
	call := append([]string{}, stInit...)
	if idx != "" {
		sig, pats, unders, call = append(sig, "Int"), append(pats, idx), append(unders, "_"), append(call, "(0 : Int)")
	}
	sig, pats, unders, call = append(sig, "List "+elemT), append(pats, consPat), append(unders, "[]"), append(call, listE)
	for i, t := range sig {
		sig[i] = atomType(t)
	}
	c.t.out = append(c.t.out, fmt.Sprintf("/-- the `for %s := range %s` loop of `%s`, and what follows it -/\ndef %s%s : %s\n  | %s =>\n%s\n  | %s =>\n%s\n",
		rangeVars(s), src(s.X), c.u.key,
		name, strings.TrimRight(" "+c.sigma()+strings.Join(capDecl, " "), " "), strings.Join(append(sig, c.retType), " → "),
		strings.Join(pats, ", "), indent(indent(stepT)),
		strings.Join(unders, ", "), indent(indent(restT))))
	return wrap(xb, "("+head+" "+strings.Join(call, " ")+")")
}

// forStmt: `for c {…}` with a fuel bound from setLoopFuel
func (c *sctx) forStmt(s *ast.ForStmt, cur sEnv, after func(sEnv) string) string {
	if c.inLoop {
		dieAt(s, "nested loop")
	}
	if s.Init != nil || s.Post != nil || s.Cond == nil {
		dieAt(s, "for loop with an init or post statement, or without a condition")
	}
	fuelSrc, ok := setLoopFuel[c.u.key]
	if !ok || c.nloops > 0 {
		dieAt(s, "for loop without a known bound on its iterations")
	}
	fe, err := parser.ParseExpr(fuelSrc)
	if err != nil {
		die("translate_set: fuel expression %q: %v", fuelSrc, err)
	}
	fb, fv := c.expr(fe, cur)
	if fv.sh != ssInt {
		dieAt(s, "fuel expression %s", fuelSrc)
	}
	sNoBranch(s.Body, "a loop")
	c.nloops++
	name := fmt.Sprintf("%s_loop%d", c.u.name, c.nloops)
	hole := "«" + name + "»"
	ps := c.mutated(s, cur)
	stInit := c.stateExprs(ps, cur)
	stTypes := c.stateTypes(ps, cur)
	inner, stPats := c.rename(ps, cur)
	cb, cv, e2 := c.exprEff(s.Cond, inner)
	if cv.sh != ssBool {
		dieAt(s.Cond, "condition %s", src(s.Cond))
	}
	c.inLoop = true
	stepT := c.block(s.Body.List, e2, func(e sEnv) string {
		return strings.Join(strings.Fields("("+hole+" fuel "+strings.Join(c.stateExprs(ps, e), " ")+")"), " ")
	})
	c.inLoop = false
	restT := after(e2)
	bodyT := wrap(cb, "(if "+cv.e+" then\n"+indent(stepT)+"\nelse\n"+indent(restT)+")")
	capDecl, capNames := c.captures(bodyT, cur)
	head := strings.Join(strings.Fields(name+" "+strings.Join(capNames, " ")), " ")
	bodyT = strings.ReplaceAll(bodyT, hole, head)
	sig := []string{"Nat"}
	for _, t := range stTypes {
		sig = append(sig, atomType(t))
	}
	unders := make([]string, len(stPats))
	for i := range unders {
		unders[i] = "_"
	}
	c.t.out = append(c.t.out, fmt.Sprintf("/-- the `for %s` loop of `%s`, and what follows it; at most `%s` iterations, else `Res.unmodelled` -/\ndef %s %s%s : %s\n  | %s =>\n    Res.unmodelled\n  | %s =>\n%s\n",
		src(s.Cond), c.u.key, fuelSrc,
		name, c.sigma(), strings.Join(capDecl, " "), strings.Join(append(sig, c.retType), " → "),
		strings.Join(append([]string{"0"}, unders...), ", "),
		strings.Join(append([]string{"fuel + 1"}, stPats...), ", "), indent(indent(bodyT))))
	return wrap(fb, "("+head+" (Int.toNat "+fv.e+") "+strings.Join(stInit, " ")+")")
}

// ---------------------------------------------------------------- calls as statements

func (c *sctx) freshSliceVar(name string) bool {
	ok := true
	ast.Inspect(c.u.fd.Body, func(n ast.Node) bool {
		as, is := n.(*ast.AssignStmt)
		if !is {
			return true
		}
		for i, l := range as.Lhs {
			if id, isId := l.(*ast.Ident); !isId || id.Name != name || len(as.Rhs) != len(as.Lhs) {
				continue
			}
			call, isCall := as.Rhs[i].(*ast.CallExpr)
			if !isCall {
				if id, isId := as.Rhs[i].(*ast.Ident); isId && id.Name == "nil" {
					continue
				}
				ok = false
				continue
			}
			f, _ := call.Fun.(*ast.Ident)
			switch {
			case f != nil && f.Name == "make":
			case f != nil && f.Name == "append" && len(call.Args) > 0 && src(call.Args[0]) == name:
			default:
				ok = false
			}
		}
		return true
	})
	for _, p := range c.u.params {
		ok = ok && p.name != name
	}
	return ok
}

func (c *sctx) callStmt(call *ast.CallExpr, cur sEnv, next func(sEnv) string) string {
	if call.Ellipsis.IsValid() {
		dieAt(call, "variadic call")
	}
	inPlace := func(arg ast.Expr, want ...sShape) (string, sVal) {
		id, ok := arg.(*ast.Ident)
		if !ok {
			dieAt(arg, "in-place update of %s", src(arg))
		}
		v, ok := cur[id.Name]
		good := false
		for _, w := range want {
			good = good || v.sh == w
		}
		if !ok || !good {
			dieAt(arg, "in-place update of %s", src(arg))
		}
		if !c.freshSliceVar(id.Name) {
			dieAt(arg, "in-place update of %s, whose backing array may be shared", id.Name)
		}
		return id.Name, v
	}
	switch f := call.Fun.(type) {
	case *ast.Ident:
		if _, local := cur[f.Name]; local && cur[f.Name].sh != ssCb {
			dieAt(call, "call of a local value")
		}
		switch f.Name {
		case "panic":
			if len(call.Args) != 1 {
				dieAt(call, "panic")
			}
			msg := "panic"
			if bl, ok := call.Args[0].(*ast.BasicLit); ok && bl.Kind == token.STRING {
				msg, _ = strconv.Unquote(bl.Value)
			}
			return "(Res.panic " + leanStr(msg) + ")"
		case "delete":
			if len(call.Args) != 2 {
				dieAt(call, "delete")
			}
			p, ok := c.placeOf(call.Args[0], cur)
			if !ok || p.f == "" || sGet(cur, p).sh != ssMap {
				dieAt(call, "delete from %s", src(call.Args[0]))
			}
			if p.v != c.u.recvName && !cur[p.v].fresh {
				dieAt(call, "delete from %s: the map may be shared with another variable", src(call.Args[0]))
			}
			bs, key := c.expr(call.Args[1], cur)
			if key.sh != ssInt {
				dieAt(call, "delete key %s", src(call.Args[1]))
			}
			m := sGet(cur, p)
			m.e = "(" + c.t.use("delete(m, k)", "SetGo.mapDelete") + " " + m.e + " " + key.e + ")"
			return wrap(bs, next(sSet(cur, p, m)))
		case "copy":
			if len(call.Args) != 2 {
				dieAt(call, "copy")
			}
			name, dst := inPlace(call.Args[0], ssSliceOpt)
			bs, srcV := c.expr(call.Args[1], cur)
			if srcV.sh != ssSliceT {
				dieAt(call, "copy from %s", src(call.Args[1]))
			}
			dst.e = "(" + c.t.use("copy(dst, src)", "SetGo.sliceCopy") + " " + dst.e + " " + srcV.e + ")"
			return wrap(bs, next(cur.with(name, dst)))
		}
		if cbv, ok := cur[f.Name]; ok && cbv.sh == ssCb {
			if len(call.Args) != 1 {
				dieAt(call, "call of %s", f.Name)
			}
			bs, a := c.expr(call.Args[0], cur)
			if a.sh != ssT {
				dieAt(call, "argument %s", src(call.Args[0]))
			}
			st := cur[f.Name+"·st"]
			n := c.fresh(f.Name+"_st", st.typ)
			bs = append(bs, bind{n, "(" + cbv.e + " " + st.e + " " + a.e + ")"})
			st.e = n
			return wrap(bs, next(cur.with(f.Name+"·st", st)))
		}
	case *ast.SelectorExpr:
		if id, ok := f.X.(*ast.Ident); ok && id.Name == "sort" {
			if _, shadow := cur["sort"]; !shadow {
				switch {
				case f.Sel.Name == "Ints" && len(call.Args) == 1:
					name, v := inPlace(call.Args[0], ssSliceInt)
					v.e = "(" + c.t.use("sort.Ints(xs)", "SetGo.sortInts") + " " + v.e + ")"
					return next(cur.with(name, v))
				case f.Sel.Name == "SliceStable" && len(call.Args) == 2:
					name, v := inPlace(call.Args[0], ssSliceT)
					less := c.lessFunc(call.Args[1], name, cur)
					v.e = "(" + c.t.use("sort.SliceStable(xs, func(i, j int) bool { return less(xs[i], xs[j]) })", "SetGo.sortSliceStable") + " " + less + " " + v.e + ")"
					return next(cur.with(name, v))
				}
				dieAt(call, "call %s", src(call.Fun))
			}
		}
	}
	bs, _, e2 := c.exprEff(call, cur)
	return wrap(bs, next(e2))
}

// lessFunc: func(i, j int) bool { return E } where E mentions i and j only as xs[i], xs[j]
func (c *sctx) lessFunc(e ast.Expr, xs string, cur sEnv) string {
	fl, ok := e.(*ast.FuncLit)
	if !ok || fl.Type.Results == nil || len(fl.Type.Results.List) != 1 || src(fl.Type.Results.List[0].Type) != "bool" || len(fl.Body.List) != 1 {
		dieAt(e, "less function %s", src(e))
	}
	var names []string
	for _, f := range fl.Type.Params.List {
		if src(f.Type) != "int" {
			dieAt(e, "less function %s", src(e))
		}
		for _, n := range f.Names {
			names = append(names, n.Name)
		}
	}
	ret, ok := fl.Body.List[0].(*ast.ReturnStmt)
	if !ok || len(ret.Results) != 1 || len(names) != 2 {
		dieAt(e, "less function %s", src(e))
	}
	a, b := c.fresh("a", "α"), c.fresh("b", "α")
	en := cur.with(names[0], sVal{sh: ssSortIx, e: a}).with(names[1], sVal{sh: ssSortIx, e: b})
	saved := c.sortOf
	c.sortOf = xs
	bs, v := c.expr(ret.Results[0], en)
	c.sortOf = saved
	if len(bs) > 0 || v.sh != ssBool {
		dieAt(e, "less function %s", src(e))
	}
	return "(fun " + a + " " + b + " => " + v.e + ")"
}

// ---------------------------------------------------------------- expressions

// exprEff: an expression that may be a call which updates variables (allowed only at the top of the expression)
func (c *sctx) exprEff(e ast.Expr, en sEnv) ([]bind, sVal, sEnv) {
	for {
		p, ok := e.(*ast.ParenExpr)
		if !ok {
			break
		}
		e = p.X
	}
	if call, ok := e.(*ast.CallExpr); ok {
		if key, recv := c.unitOf(call, en); key != "" {
			return c.callUnit(key, recv, call, en, true)
		}
	}
	bs, v := c.expr(e, en)
	return bs, v, en
}

// unitOf: is the call one of a function or method of the package?  recv is the receiver variable's name
func (c *sctx) unitOf(call *ast.CallExpr, en sEnv) (key, recv string) {
	fun := call.Fun
	if ix, ok := fun.(*ast.IndexExpr); ok && src(ix.Index) == "T" { // explicit instantiation f[T](…)
		fun = ix.X
	}
	switch f := fun.(type) {
	case *ast.Ident:
		if _, local := en[f.Name]; !local && c.t.funcs[f.Name] != nil {
			return f.Name, ""
		}
	case *ast.SelectorExpr:
		if id, ok := f.X.(*ast.Ident); ok {
			if v, ok := en[id.Name]; ok && v.sh == ssStruct {
				return v.kind.goName + "." + f.Sel.Name, id.Name
			}
		}
	}
	return "", ""
}

func (c *sctx) callUnit(key, recv string, call *ast.CallExpr, en sEnv, effects bool) ([]bind, sVal, sEnv) {
	if call.Ellipsis.IsValid() {
		dieAt(call, "variadic call")
	}
	u := c.t.ensure(key, call)
	if (recv == "") != (u.recvName == "") || len(call.Args) != len(u.params) {
		dieAt(call, "call %s", src(call))
	}
	if (len(u.mutRecv) > 0 || u.cb != "") && !effects {
		dieAt(call, "call of %s, which updates variables, inside an expression", key)
	}
	var bs []bind
	var args []string
	if u.usesSame {
		args = append(args, setSameParam)
	}
	if u.usesOrd {
		args = append(args, setOrdParam)
	}
	if recv != "" {
		rv := en[recv]
		if len(u.mutRecv) > 0 && recv != c.u.recvName && !rv.fresh {
			dieAt(call, "%s updates %s, which may be shared with another variable", key, recv)
		}
		for _, f := range u.recvKind.fields {
			args = append(args, rv.fields[f.name].e)
		}
	}
	var cbPlaces []sPlace
	for i, a := range call.Args {
		p := u.params[i]
		if p.sh == ssCb {
			fl, ok := a.(*ast.FuncLit)
			if !ok {
				dieAt(a, "argument %s for a func(T) parameter (only a function literal is in the fragment)", src(a))
			}
			lam, places, init := c.closure(fl, en)
			for _, pl := range places {
				shared := pl.v == recv
				for _, other := range call.Args {
					if id, isId := other.(*ast.Ident); isId && id.Name == pl.v {
						shared = true
					}
				}
				if shared {
					dieAt(a, "the function literal updates %s, which is also handed to the callee", pl.v)
				}
			}
			cbPlaces = places
			args = append(args, lam, init)
			continue
		}
		b, av := c.expr(a, en)
		b, av = c.storable(b, av, p.sh)
		if av.sh != p.sh || av.kind != p.kind {
			dieAt(a, "argument %s", src(a))
		}
		bs = append(bs, b...)
		if av.sh == ssStruct {
			for _, f := range av.kind.fields {
				args = append(args, av.fields[f.name].e)
			}
		} else {
			args = append(args, av.e)
		}
	}
	n := len(u.resTypes)
	x := "_"
	if n > 0 {
		x = c.fresh("x", sTupleType(u.resTypes))
	}
	bs = append(bs, bind{x, "(" + strings.Join(append([]string{u.name}, args...), " ") + ")"})
	i := 0
	for _, f := range u.mutRecv {
		fv := en[recv].fields[f]
		fv.e = sProj(x, i, n)
		en = sSet(en, sPlace{recv, f}, fv)
		i++
	}
	if u.cb != "" {
		en = c.rebindProj(cbPlaces, en, sProj(x, i, n), 0, len(cbPlaces))
		i++
	}
	v := sVal{sh: ssUnit}
	if u.hasRet {
		px := sProj(x, i, n)
		if u.retSh == ssStruct {
			v = c.t.unpack(u.retKind, px)
			v.fresh = u.freshRet
		} else {
			v = sVal{sh: u.retSh, e: px}
		}
	}
	return bs, v, en
}

// closure: func(v T) { … } as a state transformer over the captured variables its body updates
func (c *sctx) closure(fl *ast.FuncLit, en sEnv) (lam string, places []sPlace, init string) {
	if fl.Type.Results != nil && len(fl.Type.Results.List) > 0 {
		dieAt(fl, "function literal with a result")
	}
	if len(fl.Type.Params.List) != 1 || len(fl.Type.Params.List[0].Names) != 1 {
		dieAt(fl, "function literal %s", src(fl.Type))
	}
	if sh, _ := c.t.goType(fl.Type.Params.List[0].Type); sh != ssT {
		dieAt(fl, "function literal %s", src(fl.Type))
	}
	if c.inLoop {
		dieAt(fl, "function literal inside a loop")
	}
	pname := fl.Type.Params.List[0].Names[0].Name
	places = c.mutated(fl.Body, en)
	for _, p := range places {
		if p.v != c.u.recvName && en[p.v].sh == ssStruct && !en[p.v].fresh {
			dieAt(fl, "the function literal updates %s, which may be shared with another variable", p.v)
		}
	}
	init = sTupleExpr(c.stateExprs(places, en))
	stType := sTupleType(c.stateTypes(places, en))
	inner, names := c.rename(places, en)
	pat := "(_ : Unit)"
	switch len(names) {
	case 0:
	case 1:
		pat = names[0]
	default:
		x := c.fresh("st", stType)
		pat = x
		inner = c.rebindProj(places, inner, x, 0, len(names))
	}
	pv := c.fresh(pname, "α")
	inner = inner.with(pname, sVal{sh: ssT, e: pv})
	savedK, savedT := c.retK, c.retType
	c.retType = "Res " + atomType(stType)
	c.retK = func(e sEnv, res *sVal, at ast.Node) string {
		if res != nil {
			dieAt(at, "return with a value")
		}
		return "(Res.ok " + sTupleExpr(c.stateExprs(places, e)) + ")"
	}
	body := c.block(fl.Body.List, inner, func(e sEnv) string { return c.retK(e, nil, fl) })
	c.retK, c.retType = savedK, savedT
	return "(fun " + pat + " " + pv + " =>\n" + indent(body) + ")", places, init
}

func (c *sctx) expr(e ast.Expr, en sEnv) ([]bind, sVal) {
	switch x := e.(type) {
	case *ast.ParenExpr:
		return c.expr(x.X, en)
	case *ast.Ident:
		switch x.Name {
		case "true":
			return nil, sConst(true)
		case "false":
			return nil, sConst(false)
		case "nil":
			return nil, sVal{sh: ssNil}
		case "_":
			dieAt(x, "blank identifier as a value")
		}
		if v, ok := en[x.Name]; ok {
			if v.sh == ssPoison {
				dieAt(x, "use of %s: %s", x.Name, v.why)
			}
			return nil, v
		}
		dieAt(x, "identifier %s", x.Name)
	case *ast.BasicLit:
		if x.Kind == token.INT {
			if n, err := strconv.ParseInt(x.Value, 0, 64); err == nil {
				return nil, sVal{sh: ssInt, e: fmt.Sprintf("(%d : Int)", n), konst: int(n) + 10} // konst-10 = the literal (small values only matter)
			}
		}
		dieAt(x, "literal %s", x.Value)
	case *ast.SelectorExpr:
		bs, v := c.expr(x.X, en)
		if v.sh == ssStruct {
			if f, ok := v.fields[x.Sel.Name]; ok {
				return bs, f
			}
		}
		dieAt(x, "selector %s", src(x))
	case *ast.UnaryExpr:
		if x.Op == token.AND {
			if cl, ok := x.X.(*ast.CompositeLit); ok {
				return c.composite(cl, en)
			}
			dieAt(x, "address of %s", src(x.X))
		}
		bs, v := c.expr(x.X, en)
		switch {
		case x.Op == token.NOT && v.sh == ssBool:
			switch v.konst {
			case 1:
				return bs, sConst(false)
			case 2:
				return bs, sConst(true)
			}
			return bs, sBool("(!" + v.e + ")")
		case x.Op == token.SUB && v.sh == ssInt:
			return bs, sVal{sh: ssInt, e: "(-" + v.e + ")"}
		}
		dieAt(x, "operator %s on %s", x.Op, src(x.X))
	case *ast.BinaryExpr:
		return c.binary(x, en)
	case *ast.CompositeLit:
		return c.composite(x, en)
	case *ast.IndexExpr:
		bs, v := c.expr(x.X, en)
		if id, ok := x.X.(*ast.Ident); ok && c.sortOf != "" && id.Name == c.sortOf {
			if ix, ok := x.Index.(*ast.Ident); ok && en[ix.Name].sh == ssSortIx {
				return nil, sVal{sh: ssT, e: en[ix.Name].e}
			}
		}
		bs2, i := c.expr(x.Index, en)
		bs = append(bs, bs2...)
		if i.sh != ssInt {
			dieAt(x, "index %s", src(x.Index))
		}
		switch v.sh {
		case ssMap:
			return bs, sVal{sh: ssSliceT, e: "(" + c.t.use("m[k]", "SetGo.mapGet") + " " + v.e + " " + i.e + ")"}
		case ssSliceT, ssSliceInt:
			sh, ty := ssT, "α"
			if v.sh == ssSliceInt {
				sh, ty = ssInt, "Int"
			}
			n := c.fresh("elem", ty)
			return append(bs, bind{n, "(" + c.t.use("xs[i]", "SetGo.sliceGet") + " " + v.e + " " + i.e + ")"}), sVal{sh: sh, e: n}
		}
		dieAt(x, "index expression %s", src(x))
	case *ast.SliceExpr:
		bs, v := c.expr(x.X, en)
		if (v.sh != ssSliceT && v.sh != ssSliceInt) || x.Slice3 || (x.Low != nil) == (x.High != nil) {
			dieAt(x, "slice expression %s", src(x))
		}
		ty := "List α"
		if v.sh == ssSliceInt {
			ty = "List Int"
		}
		n := c.fresh("part", ty)
		if x.High != nil {
			bs2, i := c.expr(x.High, en)
			if i.sh != ssInt {
				dieAt(x, "slice bound %s", src(x.High))
			}
			return append(append(bs, bs2...), bind{n, "(" + c.t.use("xs[:i]", "SetGo.sliceTo") + " " + v.e + " " + i.e + ")"}), sVal{sh: v.sh, e: n}
		}
		bs2, i := c.expr(x.Low, en)
		if i.sh != ssInt {
			dieAt(x, "slice bound %s", src(x.Low))
		}
		return append(append(bs, bs2...), bind{n, "(" + c.t.use("xs[i:]", "SetGo.sliceFrom") + " " + v.e + " " + i.e + ")"}), sVal{sh: v.sh, e: n}
	case *ast.CallExpr:
		return c.call(x, en)
	case *ast.FuncLit:
		dieAt(x, "function literal (only the argument of a func(T) parameter or of sort.SliceStable is in the fragment)")
	}
	dieAt(e, "expression %s (%s)", src(e), strings.TrimPrefix(fmt.Sprintf("%T", e), "*ast."))
	return nil, sVal{}
}

func (c *sctx) composite(cl *ast.CompositeLit, en sEnv) ([]bind, sVal) {
	if cl.Type == nil {
		dieAt(cl, "composite literal without a type")
	}
	if strings.ReplaceAll(src(cl.Type), " ", "") == "map[int][]T" {
		if len(cl.Elts) != 0 {
			dieAt(cl, "map literal with elements")
		}
		return nil, sVal{sh: ssMap, e: c.t.use("map[int][]T{}", "SetGo.mapEmpty"), fresh: true}
	}
	sh, k := c.t.goType(cl.Type)
	if sh != ssStruct {
		dieAt(cl, "composite literal %s", src(cl.Type))
	}
	v := sVal{sh: ssStruct, kind: k, fields: map[string]sVal{}, fresh: true}
	var bs []bind
	for _, el := range cl.Elts {
		kv, ok := el.(*ast.KeyValueExpr)
		if !ok {
			dieAt(el, "struct literal with positional fields")
		}
		fs, ok := k.field(src(kv.Key))
		if !ok {
			dieAt(el, "field %s", src(kv.Key))
		}
		b, fv := c.expr(kv.Value, en)
		b, fv = c.storable(b, fv, fs.sh)
		if fv.sh != fs.sh {
			dieAt(el, "field value %s", src(kv.Value))
		}
		if fv.sh == ssMap && !fv.fresh {
			v.fresh = false
		}
		bs = append(bs, b...)
		v.fields[fs.name] = fv
	}
	for _, f := range k.fields {
		if _, ok := v.fields[f.name]; !ok {
			dieAt(cl, "struct literal without the field %s", f.name)
		}
	}
	if !v.fresh {
		dieAt(cl, "struct literal around an existing map")
	}
	return bs, v
}

func (c *sctx) binary(x *ast.BinaryExpr, en sEnv) ([]bind, sVal) {
	lb, l := c.expr(x.X, en)
	if (x.Op == token.LAND && l.konst == 2 && l.sh == ssBool) || (x.Op == token.LOR && l.konst == 1 && l.sh == ssBool) {
		return lb, l
	}
	rb, r := c.expr(x.Y, en)
	switch x.Op {
	case token.LAND, token.LOR:
		if l.sh != ssBool || r.sh != ssBool {
			break
		}
		and := x.Op == token.LAND
		if l.konst != 0 {
			return append(lb, rb...), r
		}
		if len(rb) == 0 {
			op := " || "
			if and {
				op = " && "
			}
			return lb, sBool("(" + l.e + op + r.e + ")")
		}
		n := c.fresh("c", "Bool")
		rhs := wrap(rb, "(Res.ok "+r.e+")")
		if and {
			return append(lb, bind{n, "(if " + l.e + " then\n" + indent(rhs) + "\nelse\n  (Res.ok false))"}), sBool(n)
		}
		return append(lb, bind{n, "(if " + l.e + " then\n  (Res.ok true)\nelse\n" + indent(rhs) + ")"}), sBool(n)
	case token.EQL, token.NEQ:
		if l.sh == r.sh && (l.sh == ssInt || l.sh == ssBool) {
			op := " == "
			if x.Op == token.NEQ {
				op = " != "
			}
			return append(lb, rb...), sBool("(" + l.e + op + r.e + ")")
		}
	case token.LSS, token.LEQ, token.GTR, token.GEQ:
		if l.sh == ssInt && r.sh == ssInt {
			return append(lb, rb...), sBool("(decide (" + l.e + " " + x.Op.String() + " " + r.e + "))")
		}
	case token.ADD, token.SUB:
		if l.sh == ssInt && r.sh == ssInt {
			return append(lb, rb...), sVal{sh: ssInt, e: "(" + l.e + " " + x.Op.String() + " " + r.e + ")"}
		}
	}
	dieAt(x, "operator %s in %s", x.Op, src(x))
	return nil, sVal{}
}

// call: a call in expression position (no updates of variables)
func (c *sctx) call(call *ast.CallExpr, en sEnv) ([]bind, sVal) {
	if key, recv := c.unitOf(call, en); key != "" {
		bs, v, _ := c.callUnit(key, recv, call, en, false)
		if v.sh == ssUnit {
			dieAt(call, "call of %s, which has no result, as a value", key)
		}
		return bs, v
	}
	switch f := call.Fun.(type) {
	case *ast.Ident:
		if _, local := en[f.Name]; local {
			dieAt(call, "call of the local value %s inside an expression", f.Name)
		}
		switch f.Name {
		case "len":
			if len(call.Args) != 1 || call.Ellipsis.IsValid() {
				break
			}
			bs, a := c.expr(call.Args[0], en)
			switch a.sh {
			case ssSliceT, ssSliceInt, ssSliceOpt:
				return bs, sVal{sh: ssInt, e: "(" + c.t.use("len(xs)", "SetGo.len") + " " + a.e + ")"}
			case ssMap:
				return bs, sVal{sh: ssInt, e: "(" + c.t.use("len(m)", "SetGo.mapLen") + " " + a.e + ")"}
			}
			dieAt(call, "len of %s", src(call.Args[0]))
		case "append":
			if len(call.Args) < 2 {
				break
			}
			if _, reslice := call.Args[0].(*ast.SliceExpr); reslice {
				dieAt(call, "append to a re-sliced slice (it writes into the shared backing array)")
			}
			bs, a := c.expr(call.Args[0], en)
			bs, a = c.storable(bs, a, ssSliceT)
			if a.sh != ssSliceT && a.sh != ssSliceInt {
				dieAt(call, "append to %s", src(call.Args[0]))
			}
			if call.Ellipsis.IsValid() {
				if len(call.Args) != 2 {
					break
				}
				b2, ys := c.expr(call.Args[1], en)
				if ys.sh != a.sh {
					dieAt(call, "append of %s", src(call.Args[1]))
				}
				return append(bs, b2...), sVal{sh: a.sh, e: "(" + a.e + " ++ " + ys.e + ")"}
			}
			esh := ssT
			if a.sh == ssSliceInt {
				esh = ssInt
			}
			var els []string
			for _, arg := range call.Args[1:] {
				b2, ev := c.expr(arg, en)
				if ev.sh != esh {
					dieAt(arg, "appended value %s", src(arg))
				}
				bs, els = append(bs, b2...), append(els, ev.e)
			}
			return bs, sVal{sh: a.sh, e: "(" + a.e + " ++ [" + strings.Join(els, ", ") + "])"}
		case "make":
			if len(call.Args) == 0 || len(call.Args) > 3 || call.Ellipsis.IsValid() {
				break
			}
			sh, _ := c.t.goType(call.Args[0])
			var bs []bind
			var sz []sVal
			for _, a := range call.Args[1:] {
				b, n := c.expr(a, en)
				if n.sh != ssInt {
					dieAt(a, "size %s", src(a))
				}
				bs, sz = append(bs, b...), append(sz, n)
			}
			lit := func(v sVal) (int, bool) { return v.konst - 10, v.konst >= 10 }
			switch {
			case sh == ssMap && len(sz) <= 1:
				return nil, sVal{sh: ssMap, e: c.t.use("map[int][]T{}", "SetGo.mapEmpty"), fresh: true}
			case (sh == ssSliceT || sh == ssSliceInt) && len(sz) >= 1:
				ty := "List α"
				if sh == ssSliceInt {
					ty = "List Int"
				}
				if n, isLit := lit(sz[0]); isLit && n == 0 {
					if len(sz) == 1 {
						return bs, sVal{sh: sh, e: "([] : " + ty + ")"}
					}
					if m, isLit := lit(sz[1]); isLit && m >= 0 {
						return bs, sVal{sh: sh, e: "([] : " + ty + ")"}
					}
					nm := c.fresh("made", ty)
					return append(bs, bind{nm, "(" + c.t.use("make([]E, 0, c)", "SetGo.sliceMake0") + " " + sz[1].e + ")"}), sVal{sh: sh, e: nm}
				}
				if sh == ssSliceT && len(sz) == 1 {
					nm := c.fresh("made", "List (Option α)")
					return append(bs, bind{nm, "(" + c.t.use("make([]T, n)", "SetGo.sliceMakeN") + " " + sz[0].e + ")"}), sVal{sh: ssSliceOpt, e: nm}
				}
			}
			dieAt(call, "make %s", src(call))
		}
	case *ast.SelectorExpr:
		bs, r := c.expr(f.X, en)
		var args []sVal
		for _, a := range call.Args {
			b, av := c.expr(a, en)
			bs, args = append(bs, b...), append(args, av)
		}
		shapes := func(want ...sShape) bool {
			if len(args) != len(want) || call.Ellipsis.IsValid() {
				return false
			}
			for i, w := range want {
				if args[i].sh != w {
					return false
				}
			}
			return true
		}
		switch {
		case r.sh == ssRules && f.Sel.Name == "Hash" && shapes(ssT):
			return bs, sVal{sh: ssInt, e: "(" + r.e + "." + c.t.use("Rules.Hash", "hash") + " " + args[0].e + ")"}
		case r.sh == ssRules && f.Sel.Name == "Equivalent" && shapes(ssT, ssT):
			return bs, sBool("(" + r.e + "." + c.t.use("Rules.Equivalent", "equiv") + " " + args[0].e + " " + args[1].e + ")")
		case r.sh == ssRules && f.Sel.Name == "SameRules" && shapes(ssRules):
			return bs, sBool("(" + c.t.use("Rules.SameRules", setSameParam+" (a parameter)")[:len(setSameParam)] + " " + r.e + " " + args[0].e + ")")
		case r.sh == ssOrd && f.Sel.Name == "Less" && shapes(ssT, ssT):
			c.t.use("OrderedRules.Less", "the function under Rules.less")
			return bs, sBool("(" + r.e + " " + args[0].e + " " + args[1].e + ")")
		}
		dieAt(call, "method call %s", src(call))
	}
	dieAt(call, "call %s", src(call))
	return nil, sVal{}
}

// ---------------------------------------------------------------- entry

func translateSetFns(repo, leanDir, hdr string) int {
	t := &str{funcs: map[string]*ast.FuncDecl{}, file: map[string]string{}, kinds: map[string]*sKind{}, units: map[string]*sUnit{}, api: map[string]string{}}
	files := parseDir(filepath.Join(repo, "cty/set"))
	var structs []*ast.TypeSpec
	for _, f := range files {
		for _, d := range f.Decls {
			switch x := d.(type) {
			case *ast.FuncDecl:
				if x.Body == nil {
					continue
				}
				key := x.Name.Name
				if x.Recv != nil {
					rt := strings.TrimPrefix(strings.ReplaceAll(src(x.Recv.List[0].Type), " ", ""), "*")
					key = strings.TrimSuffix(rt, "[T]") + "." + key
				}
				t.funcs[key] = x
				t.file[key] = filepath.Base(fset.Position(x.Pos()).Filename)
			case *ast.GenDecl:
				for _, sp := range x.Specs {
					if ts, ok := sp.(*ast.TypeSpec); ok {
						if _, isStruct := ts.Type.(*ast.StructType); isStruct {
							structs = append(structs, ts)
						}
					}
				}
			}
		}
	}
	for _, ts := range structs {
		lean, ok := setStructLean[ts.Name.Name]
		if !ok {
			continue
		}
		if ts.TypeParams == nil || len(ts.TypeParams.List) != 1 || len(ts.TypeParams.List[0].Names) != 1 || ts.TypeParams.List[0].Names[0].Name != "T" {
			dieAt(ts, "type parameters of %s", ts.Name.Name)
		}
		t.kinds[ts.Name.Name] = &sKind{goName: ts.Name.Name, lean: lean}
	}
	for _, ts := range structs {
		k := t.kinds[ts.Name.Name]
		if k == nil {
			continue
		}
		for _, f := range ts.Type.(*ast.StructType).Fields.List {
			sh, _ := t.goType(f.Type)
			if sh == ssStruct || sh == ssCb || len(f.Names) == 0 {
				dieAt(f, "field of %s", ts.Name.Name)
			}
			for _, n := range f.Names {
				k.fields = append(k.fields, sField{n.Name, sh})
			}
		}
	}
	for name := range setStructLean {
		if t.kinds[name] == nil {
			die("translate_set: struct type %s not found in package set", name)
		}
	}
	for _, r := range setRoots {
		if t.funcs[r] == nil {
			die("translate_set: %s not found in package set", r)
		}
		t.ensure(r, t.funcs[r])
	}
	var b strings.Builder
	b.WriteString(hdr)
	b.WriteString("-- Translation of the generic hash-bucket set of cty/set (extract/translate_set.go); tied to the hand-written model\n-- CtyModel/SetImpl.lean by CtyModel/Lemmas/SetFnsTie.lean.\n--\n")
	b.WriteString("-- TRANSLATED from the source text (a Go panic is `Res.panic`; a method that updates its receiver — the map behind a\n-- Set, the fields behind an *Iterator — returns the receiver's new state; a func(T) argument is a state transformer\n-- over the captured variables it updates, and the callee returns the final state):\n")
	for _, u := range t.order {
		fmt.Fprintf(&b, "--   %s  (%s)\n", u.key, t.posRange(u.fd))
	}
	var untr []string
	for k := range t.funcs {
		if t.units[k] == nil {
			untr = append(untr, k)
		}
	}
	sort.Strings(untr)
	fmt.Fprintf(&b, "-- NOT translated: %s.\n", strings.Join(append(untr, "the interface declarations of rules.go"), ", "))
	b.WriteString("-- GIVEN API (CtyModel/SetGo.lean, CtyModel/SetImpl.lean), assumed to be what the code does: T ↦ α, int ↦ Int,\n-- map[int][]T ↦ the association list of SetImpl, []T ↦ List α (capacity and sharing of backing arrays are not modelled),\n-- Rules[T] ↦ Rules α with total pure functions; the value passed to panic is not evaluated; and\n")
	var keys []string
	for k := range t.api {
		keys = append(keys, k)
	}
	sort.Strings(keys)
	for _, k := range keys {
		fmt.Fprintf(&b, "--   %s ↦ %s\n", k, t.api[k])
	}
	b.WriteString("import CtyModel.SetGo\nset_option linter.unusedVariables false\nnamespace CtyModel.Generated.SetFns\nvariable {α : Type}\n\n")
	b.WriteString(strings.Join(t.out, "\n"))
	b.WriteString("\nend CtyModel.Generated.SetFns\n")
	writeIfChanged(filepath.Join(leanDir, "SetFns.lean"), b.String())
	return len(t.out)
}
