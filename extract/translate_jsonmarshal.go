// Go→Lean translation of cty/json/marshal.go (C15): marshal and marshalDynamic.  It writes
// lean/CtyModel/Generated/JsonMarshalFns.lean; Lemmas/JsonMarshalFnsTie.lean proves the generated
// definitions equal to the hand-written model (JsonVal.marshal: same outcome, and the tokens written
// are the rendering of the model's token tree), so the C15 theorems are re-checked against what the
// source says on every run.
//
// What is translated is a SYNTACTIC FRAGMENT; anything else is an error with the source position
// (a source edit that leaves the fragment is a broken tie):
//
//	statements   x := e | x = e | x, err := call | err := call | err = call | var err error | i++ | names = append(names, k)
//	             path := append(path, nil) | path[…] = cty.XStep{…}            (cty.Path is erased)
//	             b.WriteString/WriteRune/WriteByte(literal) | b.WriteString(x.Text('f', -1)) | b.Write(json bytes) | sort.Strings(names)
//	             if c {…} [else …] | switch { case a, b: … default: … } | switch x { case cty.String: … default: … }
//	             for it.Next() {…} with `ek, ev := it.Element()` | for [i,] k := range names {…} | for k := range atys {…}
//	             (no nested loops, no break/continue/goto/labels/defer/closures)
//	             return nil | return err (statically non-nil) | return path.NewErrorf("…", …) | return path.NewError(err) | return marshalDynamic(…) | panic("…")
//	expressions  identifiers, integer/string/rune literals, cty.String/Number/Bool/DynamicPseudoType, !, &&, ||,
//	             == and != (a type against one of those four, an error against nil), > < >= <= on int,
//	             len, make([]string, 0, n), x[i], m[k], and the calls of the given-API tables below
//
// How Go data is read: lean/CtyModel/JsonGo.lean (the GIVEN API).  The buffer is STATE: a write rebinds the Lean
// variable of the buffer.  A function with result `error` becomes a Lean function into `Res JsonGo.Buf`
// (`.ok b` = nil was returned and the buffer holds b).  The nil-ness of an error is split statically at the call
// that produced it (`JsonGo.split`): on the non-nil side the buffer and the other results of the call must
// not be used.  Statement lists are translated in continuation-passing style; code that two or more paths
// of an if/switch reach becomes a local function `k_n` over the variables assigned inside the statement; a
// loop becomes a structurally recursive top-level helper ending in the code after the loop.  `marshal` calls
// itself (directly and through marshalDynamic) on values that are not sub-terms: it gets checked fuel
// (`marshal_fuel`; out of fuel = `.unmodelled`), and the helpers take it as `self`.
package main

import (
	"fmt"
	"go/ast"
	"go/token"
	"path/filepath"
	"sort"
	"strconv"
	"strings"
)

const jmFile = "cty/json/marshal.go"

type jmShape int

const (
	jmBool    jmShape = iota
	jmNat             // int (loop counters: never negative here; only 0, ++ and comparisons are accepted)
	jmStr             // string
	jmNumText         // the result of (*big.Float).Text('f', -1)
	jmVal             // cty.Value
	jmSing            // cty.PositiveInfinity / cty.NegativeInfinity (by name)
	jmTy              // cty.Type
	jmTys             // []cty.Type
	jmTyMap           // map[string]cty.Type
	jmStrs            // []string
	jmIter            // cty.ElementIterator
	jmBuf             // *bytes.Buffer (state)
	jmBytes           // []byte holding JSON text
	jmErr             // error, nil-ness known statically
	jmPath            // cty.Path and everything computed from it (erased)
	jmNum             // *big.Float
	jmAny             // interface{} out of a capsule
	jmNil             // the literal nil
	jmPoison          // must not be used
)

var jmShapeNames = map[jmShape]string{jmBool: "bool", jmNat: "int", jmStr: "string", jmNumText: "big.Float text", jmVal: "cty.Value",
	jmSing: "named cty.Value", jmTy: "cty.Type", jmTys: "[]cty.Type", jmTyMap: "map[string]cty.Type", jmStrs: "[]string", jmIter: "cty.ElementIterator",
	jmBuf: "*bytes.Buffer", jmBytes: "[]byte", jmErr: "error", jmPath: "cty.Path", jmNum: "*big.Float", jmAny: "interface{}", jmNil: "nil", jmPoison: "poisoned"}

func jmLeanType(sh jmShape) string {
	switch sh {
	case jmBool:
		return "Bool"
	case jmNat:
		return "Nat"
	case jmStr, jmNumText:
		return "String"
	case jmVal:
		return "Value"
	case jmTy:
		return "Ty"
	case jmTys:
		return "List Ty"
	case jmTyMap:
		return "List String × List Ty"
	case jmStrs:
		return "List String"
	case jmIter:
		return "JsonGo.Iter"
	case jmBuf, jmBytes:
		return "JsonGo.Buf"
	case jmNum:
		return "Num"
	case jmAny:
		return "JsonGo.GoAny"
	}
	panic("jmLeanType " + jmShapeNames[sh])
}

type jmV struct {
	sh    jmShape
	e     string
	konst int    // jmBool: 1 true, 2 false; jmErr: 1 nil, 2 non-nil
	lit   string // jmStr: the Go value of a literal
	isLit bool
	prim  string // jmTy: one of String/Number/Bool/DynamicPseudoType (by name)
	cur   string // jmIter inside its loop: the Lean variable of the current pair
	why   string // jmPoison
}

type jmEnv map[string]jmV

func (e jmEnv) with(k string, v jmV) jmEnv {
	if k == "" || k == "_" {
		return e
	}
	n := make(jmEnv, len(e)+1)
	for a, b := range e {
		n[a] = b
	}
	n[k] = v
	return n
}

const jmSelfSig = "Value → Ty → JsonGo.Buf → Res JsonGo.Buf"
const jmCommonDecl = "(env : JsonVal.JEnv) (ord : JsonGo.MapOrder) (self : " + jmSelfSig + ")"
const jmCommonArgs = "env ord self"

type jmCtx struct {
	fn     string
	out    *[]string
	api    map[string]string
	nloops int
	nk     int
	inLoop bool
}

func (c *jmCtx) use(goName, lean string) string { c.api[goName] = lean; return lean }

func jmDie(n ast.Node, f string, a ...interface{}) {
	die("translate_jsonmarshal: %s: outside the translated fragment: %s", fset.Position(n.Pos()), fmt.Sprintf(f, a...))
}

func lv(goName string) string { return goName + "_" }

// ---------------------------------------------------------------- literals written into the buffer

func jmLexLit(s string) ([]string, bool) {
	var toks []string
	for i := 0; i < len(s); {
		switch ch := s[i]; {
		case ch == '[':
			toks, i = append(toks, ".lbrack"), i+1
		case ch == ']':
			toks, i = append(toks, ".rbrack"), i+1
		case ch == '{':
			toks, i = append(toks, ".lbrace"), i+1
		case ch == '}':
			toks, i = append(toks, ".rbrace"), i+1
		case ch == ',':
			toks, i = append(toks, ".comma"), i+1
		case ch == ':':
			toks, i = append(toks, ".colon"), i+1
		case strings.HasPrefix(s[i:], "null"):
			toks, i = append(toks, ".null"), i+4
		case strings.HasPrefix(s[i:], "true"):
			toks, i = append(toks, ".tt"), i+4
		case strings.HasPrefix(s[i:], "false"):
			toks, i = append(toks, ".ff"), i+5
		case ch == '"':
			j := i + 1
			for j < len(s) && s[j] != '"' {
				if s[j] == '\\' || s[j] < 0x20 || s[j] >= 0x7f {
					return nil, false
				}
				j++
			}
			if j >= len(s) {
				return nil, false
			}
			toks, i = append(toks, ".str "+leanStr(s[i+1:j])), j+1
		default:
			return nil, false
		}
	}
	// a keyword directly followed by another keyword or a string is not a token sequence of JSON text; nothing here writes one
	return toks, len(toks) > 0
}

// ---------------------------------------------------------------- expressions

func (c *jmCtx) lookup(id *ast.Ident, en jmEnv) jmV {
	v, ok := en[id.Name]
	if !ok {
		jmDie(id, "identifier %s", id.Name)
	}
	if v.sh == jmPoison {
		jmDie(id, "use of %s: %s", id.Name, v.why)
	}
	return v
}

func jmBoolV(e string) jmV { return jmV{sh: jmBool, e: e} }
func jmConstBool(b bool) jmV {
	if b {
		return jmV{sh: jmBool, e: "true", konst: 1}
	}
	return jmV{sh: jmBool, e: "false", konst: 2}
}

var jmPrimTys = map[string]string{"String": "Ty.string", "Number": "Ty.number", "Bool": "Ty.bool", "DynamicPseudoType": "Ty.dyn"}
var jmPrimTest = map[string]string{"String": "Ty.isString", "Number": "Ty.isNumber", "Bool": "Ty.isBool", "DynamicPseudoType": "Ty.isDyn"}

type jmMeth struct {
	lean    string
	args    []jmShape
	ret     jmShape
	partial bool
	env     bool
}

var jmValMethods = map[string]jmMeth{
	"IsMarked":          {lean: "JsonGo.isMarked", ret: jmBool},
	"IsKnown":           {lean: "JsonGo.isKnown", ret: jmBool},
	"IsNull":            {lean: "JsonGo.isNull", ret: jmBool},
	"Type":              {lean: "JsonGo.typeOf", ret: jmTy},
	"AsString":          {lean: "JsonGo.asString", ret: jmStr, partial: true},
	"AsBigFloat":        {lean: "JsonGo.asBigFloat", ret: jmNum, partial: true},
	"True":              {lean: "JsonGo.isTrue", ret: jmBool, partial: true},
	"EncapsulatedValue": {lean: "JsonGo.encapsulatedValue", ret: jmAny, partial: true},
	"GetAttr":           {lean: "JsonGo.getAttr", args: []jmShape{jmStr}, ret: jmVal, partial: true},
	"ElementIterator":   {lean: "JsonGo.elementIterator", ret: jmIter, partial: true, env: true},
}

var jmTyMethods = map[string]jmMeth{
	"IsPrimitiveType":   {lean: "JsonGo.isPrimitiveType", ret: jmBool},
	"IsListType":        {lean: "JsonGo.isListType", ret: jmBool},
	"IsSetType":         {lean: "JsonGo.isSetType", ret: jmBool},
	"IsMapType":         {lean: "JsonGo.isMapType", ret: jmBool},
	"IsTupleType":       {lean: "JsonGo.isTupleType", ret: jmBool},
	"IsObjectType":      {lean: "JsonGo.isObjectType", ret: jmBool},
	"IsCapsuleType":     {lean: "JsonGo.isCapsuleType", ret: jmBool},
	"ElementType":       {lean: "JsonGo.elementType", ret: jmTy, partial: true},
	"TupleElementTypes": {lean: "JsonGo.tupleElementTypes", ret: jmTys, partial: true},
	"AttributeTypes":    {lean: "JsonGo.attributeTypes", ret: jmTyMap, partial: true},
}

func (c *jmCtx) fresh(base string) string {
	c.nk++
	return fmt.Sprintf("%s_%d", base, c.nk)
}

func (c *jmCtx) expr(e ast.Expr, en jmEnv) ([]bind, jmV) {
	switch x := e.(type) {
	case *ast.ParenExpr:
		return c.expr(x.X, en)
	case *ast.Ident:
		switch x.Name {
		case "true":
			return nil, jmConstBool(true)
		case "false":
			return nil, jmConstBool(false)
		case "nil":
			return nil, jmV{sh: jmNil}
		case "_":
			jmDie(x, "blank identifier as a value")
		}
		return nil, c.lookup(x, en)
	case *ast.BasicLit:
		switch x.Kind {
		case token.INT:
			if n, err := strconv.ParseUint(x.Value, 0, 31); err == nil {
				return nil, jmV{sh: jmNat, e: strconv.FormatUint(n, 10)}
			}
		case token.STRING:
			if s, err := strconv.Unquote(x.Value); err == nil {
				return nil, jmV{sh: jmStr, e: leanStr(s), lit: s, isLit: true}
			}
		case token.CHAR:
			if s, err := strconv.Unquote(x.Value); err == nil {
				return nil, jmV{sh: jmStr, e: leanStr(s), lit: s, isLit: true}
			}
		}
		jmDie(x, "literal %s", x.Value)
	case *ast.SelectorExpr:
		if pk, ok := x.X.(*ast.Ident); ok && pk.Name == "cty" {
			if _, shadow := en["cty"]; !shadow {
				if l, ok := jmPrimTys[x.Sel.Name]; ok {
					return nil, jmV{sh: jmTy, e: l, prim: x.Sel.Name}
				}
				if x.Sel.Name == "PositiveInfinity" || x.Sel.Name == "NegativeInfinity" {
					return nil, jmV{sh: jmSing, e: x.Sel.Name}
				}
			}
		}
		jmDie(x, "selector %s", src(x))
	case *ast.UnaryExpr:
		bs, v := c.expr(x.X, en)
		if x.Op == token.NOT && v.sh == jmBool {
			switch v.konst {
			case 1:
				return bs, jmConstBool(false)
			case 2:
				return bs, jmConstBool(true)
			}
			return bs, jmBoolV("(!" + v.e + ")")
		}
		jmDie(x, "operator %s on %s", x.Op, src(x.X))
	case *ast.BinaryExpr:
		return c.binary(x, en)
	case *ast.IndexExpr:
		bs, v := c.expr(x.X, en)
		if v.sh == jmPath {
			return nil, v
		}
		bs2, i := c.expr(x.Index, en)
		bs = append(bs, bs2...)
		switch {
		case v.sh == jmTys && i.sh == jmNat:
			n := c.fresh("elem")
			return append(bs, bind{n, "(" + c.use("xs[i] on a []cty.Type", "JsonGo.sliceIndex") + " " + v.e + " " + i.e + ")"}), jmV{sh: jmTy, e: n}
		case v.sh == jmTyMap && i.sh == jmStr:
			n := c.fresh("elem")
			return append(bs, bind{n, "(" + c.use("m[k] on a map[string]cty.Type", "JsonGo.mapIndex") + " " + i.e + " " + v.e + ".1 " + v.e + ".2)"}), jmV{sh: jmTy, e: n}
		}
		jmDie(x, "index expression %s", src(x))
	case *ast.CompositeLit:
		// only as something stored into the erased path: the fields must be plain variables
		for _, el := range x.Elts {
			kv, ok := el.(*ast.KeyValueExpr)
			if !ok {
				jmDie(el, "composite literal element %s", src(el))
			}
			if id, ok := kv.Value.(*ast.Ident); !ok {
				jmDie(kv.Value, "composite literal field %s", src(kv.Value))
			} else {
				c.lookup(id, en)
			}
		}
		if t := src(x.Type); t == "cty.IndexStep" || t == "cty.GetAttrStep" {
			return nil, jmV{sh: jmPath}
		}
		jmDie(x, "composite literal %s", src(x.Type))
	case *ast.CallExpr:
		return c.call(x, en)
	}
	jmDie(e, "expression %s (%s)", src(e), strings.TrimPrefix(fmt.Sprintf("%T", e), "*ast."))
	return nil, jmV{}
}

func (c *jmCtx) binary(x *ast.BinaryExpr, en jmEnv) ([]bind, jmV) {
	lb, l := c.expr(x.X, en)
	if (x.Op == token.LAND && l.konst == 2 && l.sh == jmBool) || (x.Op == token.LOR && l.konst == 1 && l.sh == jmBool) {
		return lb, l
	}
	rb, r := c.expr(x.Y, en)
	switch x.Op {
	case token.LAND, token.LOR:
		if l.sh != jmBool || r.sh != jmBool {
			break
		}
		and := x.Op == token.LAND
		if l.konst != 0 {
			return append(lb, rb...), r
		}
		if len(rb) == 0 {
			if r.konst != 0 && (r.konst == 1) == and {
				return lb, l
			}
			op := " || "
			if and {
				op = " && "
			}
			return lb, jmBoolV("(" + l.e + op + r.e + ")")
		}
		n := c.fresh("c")
		rhs := wrap(rb, "(Res.ok "+r.e+")")
		if and {
			return append(lb, bind{n, "(if " + l.e + " then\n" + indent(rhs) + "\nelse\n  (Res.ok false))"}), jmBoolV(n)
		}
		return append(lb, bind{n, "(if " + l.e + " then\n  (Res.ok true)\nelse\n" + indent(rhs) + ")"}), jmBoolV(n)
	case token.EQL, token.NEQ:
		eq := x.Op == token.EQL
		bs := append(lb, rb...)
		if l.sh == jmNil || (l.sh == jmTy && l.prim != "" && r.prim == "") {
			l, r = r, l
		}
		switch {
		case l.sh == jmTy && r.sh == jmTy && r.prim != "":
			// interface comparison against a value whose dynamic type is comparable: no panic, equal iff the same primitive / the placeholder
			t := "(" + c.use("== cty."+r.prim+" on a cty.Type", jmPrimTest[r.prim]) + " " + l.e + ")"
			if !eq {
				t = "(!" + t + ")"
			}
			return bs, jmBoolV(t)
		case l.sh == jmErr && r.sh == jmNil && l.konst != 0:
			return bs, jmConstBool((l.konst == 1) == eq)
		}
	case token.GTR, token.LSS, token.GEQ, token.LEQ:
		if l.sh == jmNat && r.sh == jmNat {
			return append(lb, rb...), jmBoolV("(decide (" + l.e + " " + x.Op.String() + " " + r.e + "))")
		}
	case token.ADD, token.SUB:
		if l.sh == jmPath && (r.sh == jmPath || r.sh == jmNat) {
			return nil, l
		}
	}
	jmDie(x, "operator %s in %s", x.Op, src(x))
	return nil, jmV{}
}

func (c *jmCtx) pureArgs(args []ast.Expr, en jmEnv, want []jmShape, at ast.Node) ([]bind, []string) {
	if len(args) != len(want) {
		jmDie(at, "call %s", src(at))
	}
	var bs []bind
	var out []string
	for i, a := range args {
		b, v := c.expr(a, en)
		if v.sh != want[i] {
			jmDie(a, "argument %s (%s where %s is expected)", src(a), jmShapeNames[v.sh], jmShapeNames[want[i]])
		}
		bs, out = append(bs, b...), append(out, v.e)
	}
	return bs, out
}

// call: calls that are values (no error result, no effect on the buffer)
func (c *jmCtx) call(call *ast.CallExpr, en jmEnv) ([]bind, jmV) {
	if call.Ellipsis.IsValid() {
		jmDie(call, "variadic call")
	}
	switch f := call.Fun.(type) {
	case *ast.Ident:
		if _, local := en[f.Name]; local {
			jmDie(call, "call of a local value")
		}
		switch f.Name {
		case "len":
			if len(call.Args) == 1 {
				bs, a := c.expr(call.Args[0], en)
				switch a.sh {
				case jmPath:
					return nil, a
				case jmTyMap:
					return bs, jmV{sh: jmNat, e: "(List.length " + a.e + ".1)"}
				case jmStrs, jmTys:
					return bs, jmV{sh: jmNat, e: "(List.length " + a.e + ")"}
				}
			}
		case "append":
			if len(call.Args) >= 1 {
				bs, a := c.expr(call.Args[0], en)
				if a.sh == jmPath {
					for _, r := range call.Args[1:] {
						if _, v := c.expr(r, en); v.sh != jmNil && v.sh != jmPath {
							jmDie(r, "value appended to a cty.Path")
						}
					}
					return nil, a
				}
				if a.sh == jmStrs && len(call.Args) == 2 {
					b2, v := c.expr(call.Args[1], en)
					if v.sh == jmStr {
						return append(bs, b2...), jmV{sh: jmStrs, e: "(" + a.e + " ++ [" + v.e + "])"}
					}
				}
			}
		case "make":
			if len(call.Args) == 3 && src(call.Args[0]) == "[]string" && src(call.Args[1]) == "0" {
				bs, n := c.expr(call.Args[2], en)
				if n.sh == jmNat && len(bs) == 0 {
					return nil, jmV{sh: jmStrs, e: "([] : List String)"}
				}
			}
		}
		jmDie(call, "call %s", src(call))
	case *ast.SelectorExpr:
		if pk, ok := f.X.(*ast.Ident); ok {
			if _, local := en[pk.Name]; !local {
				if pk.Name == "cty" && f.Sel.Name == "StringVal" {
					bs, as := c.pureArgs(call.Args, en, []jmShape{jmStr}, call)
					return bs, jmV{sh: jmVal, e: "(" + c.use("cty.StringVal", "JsonGo.stringVal") + " " + as[0] + ")"}
				}
				jmDie(call, "call of %s, which is not part of the given API (as a plain value)", src(call.Fun))
			}
		}
		rb, r := c.expr(f.X, en)
		var tbl map[string]jmMeth
		switch r.sh {
		case jmVal:
			if f.Sel.Name == "RawEquals" && len(call.Args) == 1 {
				if _, a := c.expr(call.Args[0], en); a.sh == jmSing {
					fn := map[string]string{"PositiveInfinity": "JsonGo.rawEqualsPosInf", "NegativeInfinity": "JsonGo.rawEqualsNegInf"}[a.e]
					return rb, jmBoolV("(" + c.use("cty.Value.RawEquals(cty."+a.e+")", fn) + " " + r.e + ")")
				}
			}
			tbl = jmValMethods
		case jmTy:
			tbl = jmTyMethods
		case jmNum:
			if f.Sel.Name == "Text" && len(call.Args) == 2 && src(call.Args[0]) == "'f'" && src(call.Args[1]) == "-1" {
				return rb, jmV{sh: jmNumText, e: "(" + c.use("(*big.Float).Text('f', -1)", "Num.textF") + " " + r.e + ")"}
			}
		}
		if m, ok := tbl[f.Sel.Name]; ok {
			bs, as := c.pureArgs(call.Args, en, m.args, call)
			head := c.use(jmShapeNames[r.sh]+"."+f.Sel.Name, m.lean)
			if m.env {
				head += " env"
			}
			t := strings.Join(append([]string{head, r.e}, as...), " ")
			bs = append(rb, bs...)
			if !m.partial {
				return bs, jmV{sh: m.ret, e: "(" + t + ")"}
			}
			n := c.fresh("x")
			return append(bs, bind{n, "(" + t + ")"}), jmV{sh: m.ret, e: n}
		}
		jmDie(call, "method call %s on a %s", src(call), jmShapeNames[r.sh])
	}
	jmDie(call, "call %s", src(call))
	return nil, jmV{}
}

// errCall: calls whose result list ends in `error`.  Returns the Lean term (a Res), the shape of the value result
// (jmNil if there is none), and whether the buffer variable is rebound by the call.
func (c *jmCtx) errCall(e ast.Expr, en jmEnv) (bs []bind, term string, valSh jmShape, bufVar string, ok bool) {
	call, isCall := e.(*ast.CallExpr)
	if !isCall || call.Ellipsis.IsValid() {
		return nil, "", 0, "", false
	}
	switch f := call.Fun.(type) {
	case *ast.Ident:
		if _, local := en[f.Name]; local {
			return nil, "", 0, "", false
		}
		switch f.Name {
		case "marshal", "marshalDynamic":
			want := []jmShape{jmVal, jmTy, jmPath, jmBuf}
			if f.Name == "marshalDynamic" {
				want = []jmShape{jmVal, jmPath, jmBuf}
			}
			if len(call.Args) != len(want) {
				jmDie(call, "call %s", src(call))
			}
			var as []string
			for i, a := range call.Args {
				b, v := c.expr(a, en)
				if v.sh != want[i] {
					jmDie(a, "argument %s (%s where %s is expected)", src(a), jmShapeNames[v.sh], jmShapeNames[want[i]])
				}
				bs = append(bs, b...)
				switch want[i] {
				case jmPath:
				case jmBuf:
					id, isId := a.(*ast.Ident)
					if !isId {
						jmDie(a, "buffer argument %s", src(a))
					}
					bufVar = id.Name
					as = append(as, v.e)
				default:
					as = append(as, v.e)
				}
			}
			head := "self"
			if f.Name == "marshalDynamic" {
				if c.fn == "marshalDynamic" {
					jmDie(call, "marshalDynamic calls itself")
				}
				head = "marshalDynamic " + jmCommonArgs
			}
			return bs, "(" + head + " " + strings.Join(as, " ") + ")", jmNil, bufVar, true
		case "MarshalType":
			b, as := c.pureArgs(call.Args, en, []jmShape{jmTy}, call)
			return b, "(" + c.use("MarshalType (cty/json/type.go)", "JsonGo.marshalType") + " " + as[0] + ")", jmBytes, "", true
		}
	case *ast.SelectorExpr:
		if pk, isId := f.X.(*ast.Ident); isId && pk.Name == "json" && f.Sel.Name == "Marshal" && len(call.Args) == 1 {
			if _, local := en["json"]; local {
				jmDie(call, "call through the local variable json")
			}
			b, a := c.expr(call.Args[0], en)
			switch a.sh {
			case jmStr:
				return b, "(" + c.use("json.Marshal(string)", "JsonGo.jsonMarshalString") + " " + a.e + ")", jmBytes, "", true
			case jmAny:
				return b, "(" + c.use("json.Marshal(interface{} out of a capsule)", "JsonGo.jsonMarshalAny") + " " + a.e + ")", jmBytes, "", true
			}
			jmDie(call, "json.Marshal of a %s", jmShapeNames[a.sh])
		}
	}
	return nil, "", 0, "", false
}

// ---------------------------------------------------------------- statements

func jmTerminates(list []ast.Stmt) bool {
	if len(list) == 0 {
		return false
	}
	switch s := list[len(list)-1].(type) {
	case *ast.ReturnStmt:
		return true
	case *ast.ExprStmt:
		if call, ok := s.X.(*ast.CallExpr); ok {
			if id, ok := call.Fun.(*ast.Ident); ok && id.Name == "panic" {
				return true
			}
		}
	case *ast.BlockStmt:
		return jmTerminates(s.List)
	case *ast.IfStmt:
		if s.Else == nil || !jmTerminates(s.Body.List) {
			return false
		}
		switch e := s.Else.(type) {
		case *ast.BlockStmt:
			return jmTerminates(e.List)
		default:
			return jmTerminates([]ast.Stmt{e})
		}
	case *ast.SwitchStmt:
		hasDefault := false
		for _, cs := range s.Body.List {
			cc := cs.(*ast.CaseClause)
			if cc.List == nil {
				hasDefault = true
			}
			if !jmTerminates(cc.Body) {
				return false
			}
		}
		return hasDefault
	}
	return false
}

// jmAssigned: variables of the enclosing scope that a statement assigns (a buffer counts when it is written to or passed on)
func jmAssigned(n ast.Node, cur jmEnv) []string {
	set := map[string]bool{}
	declared := map[string]bool{}
	add := func(e ast.Expr) {
		if id, ok := e.(*ast.Ident); ok {
			if v, ok := cur[id.Name]; ok && v.sh != jmPath && !declared[id.Name] {
				set[id.Name] = true
			}
		}
	}
	ast.Inspect(n, func(n ast.Node) bool {
		switch x := n.(type) {
		case *ast.AssignStmt:
			for _, l := range x.Lhs {
				if x.Tok == token.DEFINE {
					if id, ok := l.(*ast.Ident); ok {
						if _, outer := cur[id.Name]; !outer {
							declared[id.Name] = true
						}
					}
				} else {
					add(l)
				}
			}
		case *ast.IncDecStmt:
			add(x.X)
		case *ast.CallExpr:
			if sel, ok := x.Fun.(*ast.SelectorExpr); ok {
				if id, ok := sel.X.(*ast.Ident); ok {
					if v, ok := cur[id.Name]; ok && v.sh == jmBuf {
						set[id.Name] = true
					}
					if id.Name == "sort" && len(x.Args) == 1 {
						add(x.Args[0])
					}
				}
			}
			for _, a := range x.Args {
				if id, ok := a.(*ast.Ident); ok {
					if v, ok := cur[id.Name]; ok && v.sh == jmBuf {
						set[id.Name] = true
					}
				}
			}
		}
		return true
	})
	var out []string
	for n := range set {
		out = append(out, n)
	}
	sort.Strings(out)
	return out
}

type jmK func(jmEnv) string

func (c *jmCtx) stmts(list []ast.Stmt, cur jmEnv, k jmK) string {
	if len(list) == 0 {
		return k(cur)
	}
	rest := func(e jmEnv) string { return c.stmts(list[1:], e, k) }
	switch s := list[0].(type) {
	case *ast.ReturnStmt:
		if len(list) > 1 {
			jmDie(list[1], "unreachable code")
		}
		return c.ret(s, cur)
	case *ast.BlockStmt:
		return c.scoped(s.List, cur, rest)
	case *ast.IfStmt:
		if s.Init != nil {
			jmDie(s, "if with an init statement")
		}
		return c.ifStmt(s, list[1:], cur, k)
	case *ast.SwitchStmt:
		return c.stmts(append([]ast.Stmt{jmSwitchToIf(s)}, list[1:]...), cur, k)
	case *ast.DeclStmt:
		gd := s.Decl.(*ast.GenDecl)
		if gd.Tok == token.VAR && len(gd.Specs) == 1 {
			vs := gd.Specs[0].(*ast.ValueSpec)
			if len(vs.Names) == 1 && len(vs.Values) == 0 && vs.Type != nil && src(vs.Type) == "error" {
				c.noShadow(vs.Names[0], cur)
				return rest(cur.with(vs.Names[0].Name, jmV{sh: jmErr, konst: 1}))
			}
		}
		jmDie(s, "declaration %s", src(s))
	case *ast.IncDecStmt:
		id, ok := s.X.(*ast.Ident)
		if !ok || s.Tok != token.INC {
			jmDie(s, "statement %s", src(s))
		}
		v := c.lookup(id, cur)
		if v.sh != jmNat {
			jmDie(s, "statement %s", src(s))
		}
		return "let " + lv(id.Name) + " : Nat := (" + v.e + " + 1);\n" + rest(cur.with(id.Name, jmV{sh: jmNat, e: lv(id.Name)}))
	case *ast.ExprStmt:
		return c.exprStmt(s, cur, rest)
	case *ast.AssignStmt:
		return c.assign(s, cur, rest)
	case *ast.ForStmt:
		return c.forIter(s, cur, rest)
	case *ast.RangeStmt:
		return c.forRange(s, cur, rest)
	}
	jmDie(list[0], "statement %s", strings.TrimPrefix(fmt.Sprintf("%T", list[0]), "*ast."))
	return ""
}

// scoped: a nested block; what it declares is dropped afterwards
func (c *jmCtx) scoped(list []ast.Stmt, cur jmEnv, after jmK) string {
	return c.stmts(list, cur, func(e jmEnv) string {
		out := jmEnv{}
		for name := range cur {
			out[name] = e[name]
		}
		return after(out)
	})
}

func (c *jmCtx) noShadow(id *ast.Ident, cur jmEnv) {
	if v, ok := cur[id.Name]; ok && v.sh != jmPath {
		jmDie(id, "declaration of %s shadows a variable of an enclosing scope", id.Name)
	}
}

func jmSwitchToIf(s *ast.SwitchStmt) ast.Stmt {
	if s.Init != nil {
		jmDie(s, "switch with an init statement")
	}
	if s.Tag != nil {
		if _, ok := s.Tag.(*ast.Ident); !ok {
			jmDie(s.Tag, "switch tag %s (only a variable is accepted)", src(s.Tag))
		}
	}
	var chain, last *ast.IfStmt
	var deflt *ast.BlockStmt
	for _, cs := range s.Body.List {
		cc := cs.(*ast.CaseClause)
		ast.Inspect(cc, func(n ast.Node) bool {
			if b, ok := n.(*ast.BranchStmt); ok {
				jmDie(b, "%s in a switch", b.Tok)
			}
			return true
		})
		body := &ast.BlockStmt{Lbrace: cc.Pos(), List: cc.Body}
		if cc.List == nil {
			if deflt != nil || cs != s.Body.List[len(s.Body.List)-1] {
				jmDie(cc, "default clause that is not the last one")
			}
			deflt = body
			continue
		}
		var cond ast.Expr
		for _, e := range cc.List {
			t := e
			if s.Tag != nil {
				t = &ast.BinaryExpr{X: s.Tag, OpPos: e.Pos(), Op: token.EQL, Y: e}
			}
			if cond == nil {
				cond = t
			} else {
				cond = &ast.BinaryExpr{X: cond, OpPos: e.Pos(), Op: token.LOR, Y: t}
			}
		}
		is := &ast.IfStmt{If: cc.Pos(), Cond: cond, Body: body}
		if chain == nil {
			chain = is
		} else {
			last.Else = is
		}
		last = is
	}
	if chain == nil {
		jmDie(s, "switch without cases")
	}
	if deflt != nil {
		last.Else = deflt
	}
	return chain
}

func (c *jmCtx) ifStmt(s *ast.IfStmt, restList []ast.Stmt, cur jmEnv, k jmK) string {
	bs, v := c.expr(s.Cond, cur)
	if v.sh != jmBool {
		jmDie(s.Cond, "condition %s", src(s.Cond))
	}
	var elseList []ast.Stmt
	switch e := s.Else.(type) {
	case nil:
	case *ast.BlockStmt:
		elseList = e.List
	default:
		elseList = []ast.Stmt{e}
	}
	after := func(e jmEnv) string { return c.stmts(restList, e, k) }
	thenTerm, elseTerm := jmTerminates(s.Body.List), s.Else != nil && jmTerminates(elseList)
	if (thenTerm && elseTerm) && len(restList) > 0 {
		jmDie(restList[0], "unreachable code")
	}
	switch v.konst {
	case 1:
		return wrap(bs, c.scoped(s.Body.List, cur, after))
	case 2:
		return wrap(bs, c.scoped(elseList, cur, after))
	}
	if thenTerm || elseTerm {
		// at most one branch falls through: what follows is its continuation only
		return wrap(bs, "(if "+v.e+" then\n"+indent(c.scoped(s.Body.List, cur, after))+"\nelse\n"+indent(c.scoped(elseList, cur, after))+")")
	}
	// both branches reach what follows: a join point over the variables assigned in the branches
	vars := jmAssigned(s, cur)
	c.nk++
	kn := fmt.Sprintf("k_%d", c.nk)
	var params, args []string
	joined := cur
	for _, n := range vars {
		sh := cur[n].sh
		switch sh {
		case jmBool, jmNat, jmStrs, jmBuf:
		default:
			jmDie(s, "%s (a %s) is assigned in a branch and used after it", n, jmShapeNames[sh])
		}
		params = append(params, fmt.Sprintf("(%s : %s)", lv(n), jmLeanType(sh)))
		joined = joined.with(n, jmV{sh: sh, e: lv(n)})
	}
	if len(vars) == 0 {
		params = []string{"(_ : Unit)"}
	}
	callK := func(e jmEnv) string {
		args = args[:0]
		for _, n := range vars {
			if e[n].sh == jmPoison {
				jmDie(s, "%s cannot be used after this statement: %s", n, e[n].why)
			}
			args = append(args, e[n].e)
		}
		if len(vars) == 0 {
			return "(" + kn + " ())"
		}
		return "(" + kn + " " + strings.Join(args, " ") + ")"
	}
	body := after(joined)
	return wrap(bs, "let "+kn+" := fun "+strings.Join(params, " ")+" =>\n"+indent("("+body+")")+";\n(if "+v.e+" then\n"+indent(c.scoped(s.Body.List, cur, callK))+"\nelse\n"+indent(c.scoped(elseList, cur, callK))+")")
}

func (c *jmCtx) ret(s *ast.ReturnStmt, cur jmEnv) string {
	if len(s.Results) != 1 {
		jmDie(s, "return with %d values", len(s.Results))
	}
	r := s.Results[0]
	if id, ok := r.(*ast.Ident); ok {
		if id.Name == "nil" {
			b, ok := cur["b"]
			if !ok || b.sh != jmBuf {
				jmDie(s, "return nil: the buffer %s", b.why)
			}
			return "(Res.ok " + b.e + ")"
		}
		v := c.lookup(id, cur)
		if v.sh == jmErr && v.konst == 2 {
			return "(Res.err " + v.e + ")"
		}
		jmDie(s, "return %s (an error that is not statically non-nil)", id.Name)
	}
	if call, ok := r.(*ast.CallExpr); ok {
		if sel, ok := call.Fun.(*ast.SelectorExpr); ok {
			if id, ok := sel.X.(*ast.Ident); ok && cur[id.Name].sh == jmPath {
				switch sel.Sel.Name {
				case "NewErrorf":
					if len(call.Args) >= 1 {
						if _, f := c.expr(call.Args[0], cur); f.isLit {
							for _, a := range call.Args[1:] {
								c.msgArg(a, cur)
							}
							return "(Res.err (" + c.use("cty.Path.NewErrorf", "JsonGo.newErrorf") + " " + f.e + "))"
						}
					}
				case "NewError":
					if len(call.Args) == 1 {
						if _, v := c.expr(call.Args[0], cur); v.sh == jmErr && v.konst == 2 {
							return "(Res.err (" + c.use("cty.Path.NewError", "JsonGo.newError") + " " + v.e + "))"
						}
					}
				}
				jmDie(call, "call %s", src(call))
			}
		}
		if bs, term, valSh, _, ok := c.errCall(r, cur); ok && valSh == jmNil {
			return wrap(bs, term) // tail call: the callee's outcome and buffer are the caller's
		}
	}
	jmDie(s, "returned value %s", src(r))
	return ""
}

// msgArg: an argument of NewErrorf only feeds the message; it must be a variable or t.FriendlyName()
func (c *jmCtx) msgArg(a ast.Expr, cur jmEnv) {
	switch x := a.(type) {
	case *ast.Ident:
		c.lookup(x, cur)
		return
	case *ast.CallExpr:
		if sel, ok := x.Fun.(*ast.SelectorExpr); ok && sel.Sel.Name == "FriendlyName" && len(x.Args) == 0 {
			if _, v := c.expr(sel.X, cur); v.sh == jmTy {
				c.use("cty.Type.FriendlyName (only in a message)", "not evaluated")
				return
			}
		}
	}
	jmDie(a, "message argument %s", src(a))
}

func (c *jmCtx) exprStmt(s *ast.ExprStmt, cur jmEnv, rest jmK) string {
	call, ok := s.X.(*ast.CallExpr)
	if !ok {
		jmDie(s, "expression statement %s", src(s))
	}
	if id, ok := call.Fun.(*ast.Ident); ok && id.Name == "panic" {
		if _, local := cur["panic"]; !local {
			msg := "panic"
			if len(call.Args) == 1 {
				if bl, ok := call.Args[0].(*ast.BasicLit); ok && bl.Kind == token.STRING {
					msg, _ = strconv.Unquote(bl.Value)
				}
			}
			return "(Res.panic " + leanStr(msg) + ")"
		}
	}
	sel, ok := call.Fun.(*ast.SelectorExpr)
	if !ok {
		jmDie(s, "call %s used as a statement has no modelled effect", src(call))
	}
	if pk, ok := sel.X.(*ast.Ident); ok && pk.Name == "sort" && sel.Sel.Name == "Strings" && len(call.Args) == 1 {
		if _, local := cur["sort"]; !local {
			id, ok := call.Args[0].(*ast.Ident)
			if !ok {
				jmDie(call, "call %s", src(call))
			}
			v := c.lookup(id, cur)
			if v.sh != jmStrs {
				jmDie(call, "call %s", src(call))
			}
			return "let " + lv(id.Name) + " : List String := (" + c.use("sort.Strings", "JsonGo.sortStrings") + " " + v.e + ");\n" + rest(cur.with(id.Name, jmV{sh: jmStrs, e: lv(id.Name)}))
		}
	}
	id, ok := sel.X.(*ast.Ident)
	if !ok {
		jmDie(s, "call %s used as a statement has no modelled effect", src(call))
	}
	recv := c.lookup(id, cur)
	if recv.sh != jmBuf || len(call.Args) != 1 {
		jmDie(s, "call %s used as a statement has no modelled effect", src(call))
	}
	bs, a := c.expr(call.Args[0], cur)
	var rhs string
	switch {
	case (sel.Sel.Name == "WriteString" || sel.Sel.Name == "WriteRune" || sel.Sel.Name == "WriteByte") && a.sh == jmStr && a.isLit:
		toks, ok := jmLexLit(a.lit)
		if !ok {
			jmDie(call, "the literal %s written into the buffer is not a sequence of JSON punctuation, keywords and escape-free strings", src(call.Args[0]))
		}
		rhs = "(" + c.use("(*bytes.Buffer).WriteString/WriteRune/WriteByte(literal)", "JsonGo.writeToks") + " " + recv.e + " [" + strings.Join(toks, ", ") + "])"
	case sel.Sel.Name == "WriteString" && a.sh == jmNumText:
		rhs = "(" + c.use("(*bytes.Buffer).WriteString(x.Text('f', -1))", "JsonGo.writeNumText") + " " + recv.e + " " + a.e + ")"
	case sel.Sel.Name == "Write" && a.sh == jmBytes:
		rhs = "(" + c.use("(*bytes.Buffer).Write(JSON bytes)", "JsonGo.writeBytes") + " " + recv.e + " " + a.e + ")"
	default:
		jmDie(call, "buffer write %s of a %s", src(call), jmShapeNames[a.sh])
	}
	return wrap(bs, "let "+lv(id.Name)+" : JsonGo.Buf := "+rhs+";\n"+rest(cur.with(id.Name, jmV{sh: jmBuf, e: lv(id.Name)})))
}

func (c *jmCtx) assign(s *ast.AssignStmt, cur jmEnv, rest jmK) string {
	define := s.Tok == token.DEFINE
	if s.Tok != token.DEFINE && s.Tok != token.ASSIGN {
		jmDie(s, "assignment operator %s", s.Tok)
	}
	if len(s.Rhs) != 1 {
		jmDie(s, "parallel assignment")
	}
	// declare / check a target
	target := func(e ast.Expr, sh jmShape) string {
		id, ok := e.(*ast.Ident)
		if !ok {
			jmDie(e, "assignment to %s", src(e))
		}
		if id.Name == "_" {
			return ""
		}
		old, exists := cur[id.Name]
		if define {
			if exists && old.sh != jmPath {
				// Go re-uses a variable of the SAME scope in a multi-value :=; telling the scopes apart is not attempted
				jmDie(id, "declaration of %s shadows or re-uses an existing variable", id.Name)
			}
			if exists && sh != jmPath {
				jmDie(id, "declaration of %s shadows the erased variable", id.Name)
			}
		} else {
			if !exists {
				jmDie(id, "assignment to unknown variable %s", id.Name)
			}
			if old.sh != sh && old.sh != jmPoison {
				jmDie(id, "assignment changes how %s is modelled (%s, was %s)", id.Name, jmShapeNames[sh], jmShapeNames[old.sh])
			}
		}
		return id.Name
	}
	// calls with an error result
	if bs, term, valSh, bufVar, ok := c.errCall(s.Rhs[0], cur); ok {
		var valName, errName string
		switch {
		case valSh == jmNil && len(s.Lhs) == 1:
			errName = target(s.Lhs[0], jmErr)
		case valSh != jmNil && len(s.Lhs) == 2:
			valName, errName = target(s.Lhs[0], valSh), target(s.Lhs[1], jmErr)
		default:
			jmDie(s, "assignment %s", src(s))
		}
		if errName == "" {
			jmDie(s, "the error result of %s is discarded", src(s.Rhs[0]))
		}
		okEnv, erEnv := cur.with(errName, jmV{sh: jmErr, konst: 1}), cur
		okPat := "_"
		why := "it is a result of " + src(s.Rhs[0]) + ", which returned an error here"
		if valName != "" {
			okPat = lv(valName)
			okEnv = okEnv.with(valName, jmV{sh: valSh, e: okPat})
			erEnv = erEnv.with(valName, jmV{sh: jmPoison, why: why})
		}
		if bufVar != "" {
			okPat = lv(bufVar)
			okEnv = okEnv.with(bufVar, jmV{sh: jmBuf, e: okPat})
			erEnv = erEnv.with(bufVar, jmV{sh: jmPoison, why: "is in an unknown state: " + src(s.Rhs[0]) + " wrote into it and returned an error here"})
		}
		ev := c.fresh("e")
		erEnv = erEnv.with(errName, jmV{sh: jmErr, konst: 2, e: ev})
		return wrap(bs, "("+c.use("if err != nil after a call (split statically)", "JsonGo.split")+" "+term+"\n"+indent("(fun "+okPat+" =>\n"+indent(rest(okEnv))+")\n(fun "+ev+" =>\n"+indent(rest(erEnv))+"))"))
	}
	// ek, ev := it.Element()
	if len(s.Lhs) == 2 {
		if call, ok := s.Rhs[0].(*ast.CallExpr); ok && len(call.Args) == 0 {
			if sel, ok := call.Fun.(*ast.SelectorExpr); ok && sel.Sel.Name == "Element" {
				if id, ok := sel.X.(*ast.Ident); ok {
					it := c.lookup(id, cur)
					if it.sh == jmIter && it.cur != "" && define {
						kn, vn := target(s.Lhs[0], jmVal), target(s.Lhs[1], jmVal)
						e := cur
						out := ""
						if kn != "" {
							out += "let " + lv(kn) + " : Value := " + it.cur + ".1;\n"
							e = e.with(kn, jmV{sh: jmVal, e: lv(kn)})
						}
						if vn != "" {
							out += "let " + lv(vn) + " : Value := " + it.cur + ".2;\n"
							e = e.with(vn, jmV{sh: jmVal, e: lv(vn)})
						}
						c.use("cty.ElementIterator.Next/Element", "the head of the list JsonGo.elementIterator gave")
						return out + rest(e)
					}
				}
			}
		}
		jmDie(s, "two-valued assignment %s", src(s))
	}
	if len(s.Lhs) != 1 {
		jmDie(s, "assignment %s", src(s))
	}
	// stores into the erased path
	if ix, ok := s.Lhs[0].(*ast.IndexExpr); ok {
		if id, ok := ix.X.(*ast.Ident); ok && cur[id.Name].sh == jmPath && !define {
			if _, i := c.expr(ix.Index, cur); i.sh != jmPath && i.sh != jmNat {
				jmDie(ix, "index %s", src(ix.Index))
			}
			if _, v := c.expr(s.Rhs[0], cur); v.sh != jmPath {
				jmDie(s, "modelled value stored into a cty.Path")
			}
			return rest(cur)
		}
		jmDie(s, "assignment to %s", src(s.Lhs[0]))
	}
	bs, v := c.expr(s.Rhs[0], cur)
	switch v.sh {
	case jmNil, jmSing, jmPoison, jmErr:
		jmDie(s, "value %s cannot be stored in a variable", src(s.Rhs[0]))
	}
	name := target(s.Lhs[0], v.sh)
	if name == "" {
		return wrap(bs, rest(cur))
	}
	if v.sh == jmPath {
		return rest(cur.with(name, v))
	}
	nv := v
	nv.e, nv.isLit, nv.lit, nv.prim = lv(name), false, "", ""
	return wrap(bs, "let "+lv(name)+" : "+jmLeanType(v.sh)+" := "+v.e+";\n"+rest(cur.with(name, nv)))
}

// ---------------------------------------------------------------- loops

type jmLoopVar struct{ pat, typ string }

// loop emits the helper of one loop.  bodyOf translates the loop body given the environment inside the helper and the
// text of the recursive call for the next iteration.
func (c *jmCtx) loop(at ast.Stmt, body *ast.BlockStmt, cur jmEnv, desc, elemTyp, consPat, listExpr string, withIndex string,
	bind func(jmEnv) jmEnv, after jmK) string {
	if c.inLoop {
		jmDie(at, "nested loop")
	}
	ast.Inspect(body, func(n ast.Node) bool {
		switch b := n.(type) {
		case *ast.BranchStmt:
			jmDie(b, "%s in a loop", b.Tok)
		case *ast.FuncLit:
			jmDie(b, "closure")
		}
		return true
	})
	c.nloops++
	name := fmt.Sprintf("%s_loop%d", c.fn, c.nloops)
	state := jmAssigned(body, cur)
	inner := cur
	var stTypes, stPats, stInit []string
	for _, n := range state {
		v := cur[n]
		switch v.sh {
		case jmBool, jmNat, jmStrs, jmBuf:
		default:
			jmDie(at, "the loop assigns %s (a %s)", n, jmShapeNames[v.sh])
		}
		stTypes, stPats, stInit = append(stTypes, atomType(jmLeanType(v.sh))), append(stPats, lv(n)), append(stInit, v.e)
		inner = inner.with(n, jmV{sh: v.sh, e: lv(n)})
	}
	idxPat, idxNext, idxInit := "", "", ""
	if withIndex != "" {
		stTypes = append(stTypes, "Nat")
		idxPat, idxNext, idxInit = lv(withIndex)+", ", "("+lv(withIndex)+" + 1) ", "0 "
	}
	hole := "«" + name + "»"
	c.inLoop = true
	stepT := c.scoped(body.List, bind(inner), func(e jmEnv) string {
		var st []string
		for _, n := range state {
			if e[n].sh == jmPoison {
				jmDie(at, "%s cannot be carried into the next iteration: %s", n, e[n].why)
			}
			st = append(st, e[n].e)
		}
		return strings.Join(strings.Fields("("+hole+" "+strings.Join(st, " ")+" "+idxNext+"rest_)"), " ")
	})
	c.inLoop = false
	restT := after(inner)
	// captured variables: what the helper mentions of the enclosing scope
	used := tokens(stepT + "\n" + restT)
	var capDecl, capNames []string
	var names []string
	for n := range cur {
		names = append(names, n)
	}
	sort.Strings(names)
	isState := map[string]bool{}
	for _, n := range state {
		isState[n] = true
	}
	for _, n := range names {
		v := cur[n]
		if isState[n] || v.sh == jmPath || v.sh == jmPoison || v.sh == jmErr || v.e != lv(n) || !used[lv(n)] {
			continue
		}
		capDecl = append(capDecl, fmt.Sprintf("(%s : %s)", lv(n), jmLeanType(v.sh)))
		capNames = append(capNames, lv(n))
	}
	head := strings.Join(strings.Fields(name+" "+jmCommonArgs+" "+strings.Join(capNames, " ")), " ")
	stepT = strings.ReplaceAll(stepT, hole, head)
	stPat := ""
	if len(stPats) > 0 {
		stPat = strings.Join(stPats, ", ") + ", "
	}
	*c.out = append(*c.out, fmt.Sprintf("/-- the `%s` loop of `%s` (%s:%d), and what follows it -/\ndef %s %s%s : %s\n  | %s%s[] =>\n%s\n  | %s%s%s :: rest_ =>\n%s\n",
		desc, c.fn, jmFile, fset.Position(at.Pos()).Line,
		name, jmCommonDecl, strings.TrimSuffix(" "+strings.Join(capDecl, " "), " "), strings.Join(append(append(stTypes, "List "+atomType(elemTyp)), "Res JsonGo.Buf"), " → "),
		stPat, strings.ReplaceAll(idxPat, lv(withIndex)+", ", "_, "), indent(indent(restT)),
		stPat, idxPat, consPat, indent(indent(stepT))))
	return "(" + strings.Join(strings.Fields(head+" "+strings.Join(stInit, " ")+" "+idxInit+listExpr), " ") + ")"
}

// for it.Next() { … }
func (c *jmCtx) forIter(s *ast.ForStmt, cur jmEnv, after jmK) string {
	if s.Init != nil || s.Post != nil || s.Cond == nil {
		jmDie(s, "for statement with init/post clauses or without a condition")
	}
	call, ok := s.Cond.(*ast.CallExpr)
	if ok {
		if sel, ok2 := call.Fun.(*ast.SelectorExpr); ok2 && sel.Sel.Name == "Next" && len(call.Args) == 0 {
			if id, ok3 := sel.X.(*ast.Ident); ok3 {
				it := c.lookup(id, cur)
				if it.sh == jmIter && it.cur == "" {
					for _, n := range jmAssigned(s.Body, cur) {
						if n == id.Name {
							jmDie(s, "the loop assigns its iterator")
						}
					}
					curName := lv(id.Name) + "cur"
					return c.loop(s, s.Body, cur.with(id.Name, jmV{sh: jmPoison, why: "the iterator is only usable inside its loop"}),
						"for "+src(s.Cond), "Value × Value", curName, it.e, "",
						func(e jmEnv) jmEnv { return e.with(id.Name, jmV{sh: jmIter, e: "rest_", cur: curName}) }, after)
				}
			}
		}
	}
	jmDie(s, "for statement whose condition is not it.Next() on an element iterator")
	return ""
}

// for [i,] k := range names  |  for k := range atys
func (c *jmCtx) forRange(s *ast.RangeStmt, cur jmEnv, after jmK) string {
	if s.Tok != token.DEFINE {
		jmDie(s, "range without :=")
	}
	xid, ok := s.X.(*ast.Ident)
	if !ok {
		jmDie(s.X, "range over %s (only a variable is accepted)", src(s.X))
	}
	x := c.lookup(xid, cur)
	for _, n := range jmAssigned(s.Body, cur) {
		if n == xid.Name {
			jmDie(s, "the loop assigns the collection it ranges over")
		}
	}
	name := func(e ast.Expr) string {
		if e == nil {
			return ""
		}
		id, ok := e.(*ast.Ident)
		if !ok {
			jmDie(e, "range variable %s", src(e))
		}
		if id.Name == "_" {
			return ""
		}
		c.noShadow(id, cur)
		return id.Name
	}
	kn, vn := name(s.Key), name(s.Value)
	switch x.sh {
	case jmStrs:
		pat := "_"
		if vn != "" {
			pat = lv(vn)
		}
		return c.loop(s, s.Body, cur, "for "+rangeVars(s)+" := range "+xid.Name, "String", pat, x.e, kn, func(e jmEnv) jmEnv {
			if kn != "" {
				e = e.with(kn, jmV{sh: jmNat, e: lv(kn)})
			}
			return e.with(vn, jmV{sh: jmStr, e: lv(vn)})
		}, after)
	case jmTyMap:
		if vn != "" || kn == "" {
			jmDie(s, "range over a map with a value variable (only `for k := range m` is accepted)")
		}
		c.use("for k := range m on a map[string]cty.Type", "the keys in the order `ord keys` (ord : JsonGo.MapOrder is a parameter)")
		return c.loop(s, s.Body, cur, "for "+kn+" := range "+xid.Name, "String", lv(kn), "(ord "+x.e+".1)", "", func(e jmEnv) jmEnv {
			return e.with(kn, jmV{sh: jmStr, e: lv(kn)})
		}, after)
	}
	jmDie(s.X, "range over a %s", jmShapeNames[x.sh])
	return ""
}

// ---------------------------------------------------------------- entry

func translateJsonMarshalFns(repo, leanDir, hdr string) int {
	files := parseDir(filepath.Join(repo, "cty/json"))
	var out []string
	api := map[string]string{}
	var ranges []string
	unit := func(fname string, want []string) {
		fd := findFunc(files, fname)
		if fd == nil || fd.Body == nil || fd.Recv != nil {
			die("translate_jsonmarshal: function %s not found in cty/json", fname)
		}
		if filepath.Base(fset.Position(fd.Pos()).Filename) != "marshal.go" {
			die("translate_jsonmarshal: %s is not in %s", fname, jmFile)
		}
		ast.Inspect(fd.Body, func(n ast.Node) bool {
			switch x := n.(type) {
			case *ast.FuncLit:
				jmDie(x, "closure")
			case *ast.GoStmt, *ast.DeferStmt, *ast.LabeledStmt, *ast.SelectStmt, *ast.TypeSwitchStmt:
				jmDie(x, "statement %s", strings.TrimPrefix(fmt.Sprintf("%T", x), "*ast."))
			case *ast.BranchStmt:
				jmDie(x, "%s", x.Tok)
			}
			return true
		})
		var got []string
		en := jmEnv{}
		var params []string
		for _, f := range fd.Type.Params.List {
			for _, nm := range f.Names {
				ts := src(f.Type)
				got = append(got, ts)
				switch ts {
				case "cty.Value":
					en = en.with(nm.Name, jmV{sh: jmVal, e: lv(nm.Name)})
					params = append(params, "("+lv(nm.Name)+" : Value)")
				case "cty.Type":
					en = en.with(nm.Name, jmV{sh: jmTy, e: lv(nm.Name)})
					params = append(params, "("+lv(nm.Name)+" : Ty)")
				case "cty.Path":
					en = en.with(nm.Name, jmV{sh: jmPath})
				case "*bytes.Buffer":
					if nm.Name != "b" {
						jmDie(f, "the buffer parameter must be called b")
					}
					en = en.with(nm.Name, jmV{sh: jmBuf, e: lv(nm.Name)})
					params = append(params, "("+lv(nm.Name)+" : JsonGo.Buf)")
				default:
					jmDie(f, "parameter of type %s", ts)
				}
			}
		}
		if strings.Join(got, ", ") != strings.Join(want, ", ") {
			jmDie(fd, "parameters of %s are (%s), expected (%s)", fname, strings.Join(got, ", "), strings.Join(want, ", "))
		}
		if fd.Type.Results == nil || len(fd.Type.Results.List) != 1 || len(fd.Type.Results.List[0].Names) != 0 || src(fd.Type.Results.List[0].Type) != "error" {
			jmDie(fd, "result list of %s (expected: error)", fname)
		}
		c := &jmCtx{fn: fname, out: &out, api: api}
		body := c.stmts(fd.Body.List, en, func(e jmEnv) string {
			jmDie(fd.Body, "control reaches the end of %s", fname)
			return ""
		})
		lo, hi := fset.Position(fd.Pos()).Line, fset.Position(fd.End()).Line
		ranges = append(ranges, fmt.Sprintf("--   %s  (%s:%d-%d)", fname, jmFile, lo, hi))
		doc := fmt.Sprintf("/-- `%s` (%s:%d-%d) -/\n", fname, jmFile, lo, hi)
		if fname == "marshal" {
			out = append(out, fmt.Sprintf("%sdef marshal_fuel (env : JsonVal.JEnv) (ord : JsonGo.MapOrder) : Nat → %s\n  | 0, _, _, _ => Res.unmodelled\n  | fuel + 1, val_, t_, b_ =>\n    let self := marshal_fuel env ord fuel;\n%s\n",
				doc, jmSelfSig, indent(indent(body))))
			out = append(out, "/-- `marshal(val, t, path, b)` with the fuel the tie theorem shows to suffice -/\ndef marshal (env : JsonVal.JEnv) (ord : JsonGo.MapOrder) (val_ : Value) (t_ : Ty) (b_ : JsonGo.Buf) : Res JsonGo.Buf :=\n  marshal_fuel env ord (JsonGo.fuelFor val_) val_ t_ b_\n")
		} else {
			out = append(out, fmt.Sprintf("%sdef %s %s %s : Res JsonGo.Buf :=\n%s\n", doc, fname, jmCommonDecl, strings.Join(params, " "), indent(body)))
		}
	}
	unit("marshalDynamic", []string{"cty.Value", "cty.Path", "*bytes.Buffer"})
	unit("marshal", []string{"cty.Value", "cty.Type", "cty.Path", "*bytes.Buffer"})
	var keys []string
	for k := range api {
		keys = append(keys, k)
	}
	sort.Strings(keys)
	var b strings.Builder
	b.WriteString(hdr)
	b.WriteString("-- Translation of cty/json/marshal.go (extract/translate_jsonmarshal.go); tied to the hand-written model CtyModel/JsonVal.lean\n-- (JsonVal.marshal) by CtyModel/Lemmas/JsonMarshalFnsTie.lean.\n--\n")
	b.WriteString("-- TRANSLATED from the source text, statement by statement (a Go panic is `Res.panic`; a returned error is `Res.err` of its format\n-- string; `Res.ok b` = nil was returned and the buffer holds the tokens `b`; the buffer is state: a write rebinds the Lean variable;\n-- `path` is erased; the nil-ness of an error is split statically at the call that produced it; `k_n` = the code after an if/switch\n-- that several paths reach; a loop is a structurally recursive helper ending in the code after the loop; `marshal` has checked fuel\n-- and the helpers take it as `self`):\n")
	b.WriteString(strings.Join(ranges, "\n") + "\n")
	b.WriteString("-- NOT translated: everything the functions above call.  That is the GIVEN API of CtyModel/JsonGo.lean, assumed to be what\n-- bytes, encoding/json, math/big, sort and package cty do (as emission of the token trees of the hand-written model):\n")
	for _, k := range keys {
		fmt.Fprintf(&b, "--   %s ↦ %s\n", k, api[k])
	}
	b.WriteString("--   cty.String/Number/Bool/DynamicPseudoType ↦ Ty's constructors; cty.Path and the steps stored into it are erased\n")
	b.WriteString("import CtyModel.JsonGo\nset_option linter.unusedVariables false\nnamespace CtyModel.Generated.JsonMarshalFns\n\n")
	b.WriteString(strings.Join(out, "\n"))
	b.WriteString("\nend CtyModel.Generated.JsonMarshalFns\n")
	writeIfChanged(filepath.Join(leanDir, "JsonMarshalFns.lean"), b.String())
	return len(out)
}
