// A small Go→Lean translator for the pure, structurally recursive core of
// cty.Type: Type.Equals and the per-kind Equals methods, testConformance /
// Type.TestConformance, Type.HasDynamicTypes, Type.WithoutOptionalAttributesDeep
// (and whatever small `Type` methods those call).  It writes
// lean/CtyModel/Generated/TyFns.lean; Lemmas/TyFnsTie.lean proves the generated
// definitions equal to the hand-written model, so the C07 theorems are
// re-checked against what the source says on every run.
//
// What is translated is a SYNTACTIC FRAGMENT; anything else is an error with
// the source position (a source edit that leaves the fragment is a broken tie):
//
//	statements   x := e | x = e | m[k] = e | xs[i] = e | *errs = append(*errs, …)
//	             v, ok := X.typeImpl.(K) | v, ok := m[k] | var errs []error
//	             if [init;] c {…} [else …] | switch { case c1, c2: … default: … }
//	             for k, v := range <slice or map> {…}   (no nesting, no break/continue/labels)
//	             return [e] | panic(…) | f(…, &errs)     (call with an error-list out-parameter)
//	expressions  identifiers, field selection on a type-impl struct, len, make, x[i], !, &&, ||, ==, !=,
//	             X == DynamicPseudoType, X == NilType (false: NilType is outside the model),
//	             calls of other functions/methods of package cty (translated on demand),
//	             method calls through the typeImpl interface (a match over all kinds)
//
// How Go data is read as model data (the only per-name knowledge, tables
// below): the type-impl structs and their fields ↦ constructors/fields of `Ty`;
// `Path` values are erased (nothing may flow from them into a modelled value;
// operations on them are assumed not to panic); `*[]error` is a counter, the
// appended error values are not evaluated; a handful of `cty` API functions are
// taken as given (lean/CtyModel/TyGo.lean).  No function body is special-cased.
//
// Shape of the output: every Go function becomes a Lean function into `Res`
// (`Res.panic` = Go panic).  Statement lists are translated in
// continuation-passing style (the code after a branch is duplicated into the
// branches); a `range` loop becomes a structurally recursive helper over the
// model's lists whose base case is the code after the loop.  A declared root
// that calls itself gets a fuel argument (`<root>_fuel`), and every helper that
// reaches the recursion takes it as `self`; the tie theorems show the fuel
// supplied by the wrapper always suffices.
package main

import (
	"fmt"
	"go/ast"
	"go/token"
	"path/filepath"
	"regexp"
	"sort"
	"strconv"
	"strings"
)

// ---------------------------------------------------------------- configuration (the mapping)

// functions to translate; each may recurse through itself only
var trRoots = []string{"Type.Equals", "Type.HasDynamicTypes", "Type.WithoutOptionalAttributesDeep", "testConformance", "Type.TestConformance"}

// names under which the tie theorems address the entry points
const trAliases = `/-- ` + "`a.Equals(b)`" + ` -/
def equals (a b : Ty) : Res Bool := Type_Equals a b
/-- ` + "`len(given.TestConformance(want))`" + ` -/
def conformErrs (want given : Ty) : Res Nat := Type_TestConformance given want
/-- ` + "`t.HasDynamicTypes()`" + ` -/
def hasDynamicTypes (t : Ty) : Res Bool := Type_HasDynamicTypes t
/-- ` + "`t.WithoutOptionalAttributesDeep()`" + ` -/
def withoutOptionalAttributesDeep (t : Ty) : Res Ty := Type_WithoutOptionalAttributesDeep t
`

type shape int

const (
	shTy shape = iota
	shBool
	shNat // int, primitiveTypeKind, *capsuleType (identity)
	shStr
	shSlice    // []Type                 : List Ty
	shSliceOpt // []Type under construction : List (Option Ty)
	shMap      // map[string]Type        : keys e, values e2
	shSet      // map[string]struct{}    : keys e, flags e2
	shStruct   // a type-impl struct, flattened into its fields
	shImpl     // X.typeImpl (only to assert on or to call a method through)
	shErased   // Path and what is computed from it
	shCounter  // *[]error / []error     : Nat
	shUnit     // struct{}
	shPoison   // zero value of a failed comma-ok form: must not be used
	shNilType
	shNil
)

type val struct {
	sh     shape
	e, e2  string
	fields map[string]val
	konst  int    // shBool: 1 = known true, 2 = known false
	isDyn  bool   // the identifier DynamicPseudoType
	why    string // shPoison
}

type leanVar struct{ name, typ string }

type fieldSpec struct {
	sh shape
	ix []int
}

type alt struct {
	ctor   string
	consts []string // nil: the constructor binds the kind's vars
}

// kind: one implementation of typeImpl and its reading as constructors of Ty
type kind struct {
	goType string
	vars   []leanVar
	alts   []alt
	fields map[string]fieldSpec
	ptr    bool // the Go value is a pointer compared by identity: it IS vars[0]
}

var kinds = []*kind{
	{goType: "primitiveType", vars: []leanVar{{"kind", "Nat"}},
		alts:   []alt{{"Ty.bool", []string{"66"}}, {"Ty.number", []string{"78"}}, {"Ty.string", []string{"83"}}},
		fields: map[string]fieldSpec{"Kind": {shNat, []int{0}}}},
	{goType: "pseudoTypeDynamic", alts: []alt{{"Ty.dyn", nil}}},
	{goType: "typeList", vars: []leanVar{{"e", "Ty"}}, alts: []alt{{"Ty.list", nil}}, fields: map[string]fieldSpec{"ElementTypeT": {shTy, []int{0}}}},
	{goType: "typeSet", vars: []leanVar{{"e", "Ty"}}, alts: []alt{{"Ty.set", nil}}, fields: map[string]fieldSpec{"ElementTypeT": {shTy, []int{0}}}},
	{goType: "typeMap", vars: []leanVar{{"e", "Ty"}}, alts: []alt{{"Ty.map", nil}}, fields: map[string]fieldSpec{"ElementTypeT": {shTy, []int{0}}}},
	{goType: "typeTuple", vars: []leanVar{{"es", "List Ty"}}, alts: []alt{{"Ty.tuple", nil}}, fields: map[string]fieldSpec{"ElemTypes": {shSlice, []int{0}}}},
	{goType: "typeObject", vars: []leanVar{{"ns", "List String"}, {"ts", "List Ty"}, {"os", "List Bool"}}, alts: []alt{{"Ty.object", nil}},
		fields: map[string]fieldSpec{"AttrTypes": {shMap, []int{0, 1}}, "AttrOptional": {shSet, []int{0, 2}}}},
	{goType: "*capsuleType", vars: []leanVar{{"id", "Nat"}}, alts: []alt{{"Ty.capsule", nil}}, ptr: true},
}

// API of package cty taken as given (defined in lean/CtyModel/TyGo.lean)
type prim struct {
	lean    string
	args    []shape
	ret     shape
	partial bool // returns Res
}

var typeMethodPrims = map[string]prim{
	"IsCollectionType": {"TyGo.isCollectionType", nil, shBool, false},
	"ElementType":      {"TyGo.elementType", nil, shTy, true},
}

var funcPrims = map[string]prim{
	"List":   {"Ty.list", []shape{shTy}, shTy, false},
	"Set":    {"Ty.set", []shape{shTy}, shTy, false},
	"Map":    {"Ty.map", []shape{shTy}, shTy, false},
	"Tuple":  {"Ty.tuple", []shape{shSlice}, shTy, false},
	"Object": {"TyGo.mkObject", []shape{shMap}, shTy, false},
}

var erasedTypes = map[string]bool{"Path": true}

func goTypeShape(n ast.Node, s string) shape {
	switch {
	case s == "Type":
		return shTy
	case s == "bool":
		return shBool
	case s == "*[]error" || s == "[]error":
		return shCounter
	case s == "[]Type":
		return shSlice
	case s == "map[string]Type":
		return shMap
	case erasedTypes[s]:
		return shErased
	}
	dieAt(n, "type %s", s)
	return 0
}

func leanType(sh shape) string {
	switch sh {
	case shTy:
		return "Ty"
	case shBool:
		return "Bool"
	case shNat, shCounter:
		return "Nat"
	case shStr:
		return "String"
	case shSlice:
		return "List Ty"
	case shSliceOpt:
		return "List (Option Ty)"
	case shMap:
		return "List String × List Ty"
	}
	panic("leanType")
}

func dieAt(n ast.Node, f string, a ...interface{}) {
	die("translate: %s: outside the translated fragment: %s", fset.Position(n.Pos()), fmt.Sprintf(f, a...))
}

// ---------------------------------------------------------------- translator state

type goParam struct {
	name string
	sh   shape
}

type unit struct {
	key, name  string
	recv       *kind // receiver is a type-impl struct
	recvTy     bool  // receiver is a Type
	params     []leanVar
	goParams   []goParam
	retSh      shape
	counterIx  int
	inProgress bool
	needsSelf  bool
	isRoot     bool
}

func (u *unit) sig() string {
	var ts []string
	for _, p := range u.params {
		ts = append(ts, p.typ)
	}
	return strings.Join(append(ts, "Res "+atomType(leanType(u.retSh))), " → ")
}

func atomType(t string) string {
	if strings.ContainsAny(t, " ") {
		return "(" + t + ")"
	}
	return t
}

type tr struct {
	funcs map[string]*ast.FuncDecl
	file  map[string]string
	units map[string]*unit
	out   []string
	root  *unit // current session
}

type env map[string]val

func (e env) with(k string, v val) env {
	if k == "" || k == "_" {
		return e
	}
	n := make(env, len(e)+1)
	for a, b := range e {
		n[a] = b
	}
	n[k] = v
	return n
}

type fnctx struct {
	t          *tr
	u          *unit
	ltype      map[string]string
	order      []string
	counter    string // Go name of the error-list out-parameter
	nloops     int
	inLoopBody bool
}

func (c *fnctx) fresh(base, typ string) string {
	base = strings.TrimRight(base, "_")
	n := base + "_"
	for i := 2; c.ltype[n] != ""; i++ {
		n = fmt.Sprintf("%s_%d", base, i)
	}
	c.ltype[n] = typ
	c.order = append(c.order, n)
	return n
}

var identRe = regexp.MustCompile(`[A-Za-z_][A-Za-z0-9_]*`)

// tokens returns the identifiers of a Lean text that are not field/namespace suffixes
func tokens(s string) map[string]bool {
	m := map[string]bool{}
	for _, loc := range identRe.FindAllStringIndex(s, -1) {
		if loc[0] > 0 && s[loc[0]-1] == '.' {
			continue
		}
		m[s[loc[0]:loc[1]]] = true
	}
	return m
}

func indent(s string) string { return "  " + strings.ReplaceAll(s, "\n", "\n  ") }

type bind struct{ pat, rhs string }

func wrap(bs []bind, body string) string {
	for i := len(bs) - 1; i >= 0; i-- {
		body = "(Res.bind " + bs[i].rhs + " fun " + bs[i].pat + " =>\n" + body + ")"
	}
	return body
}

func boolVal(e string) val { return val{sh: shBool, e: e} }
func constBool(b bool) val {
	if b {
		return val{sh: shBool, e: "true", konst: 1}
	}
	return val{sh: shBool, e: "false", konst: 2}
}

func (k *kind) mk(exprs []string) val {
	if k.ptr {
		return val{sh: shNat, e: exprs[0]}
	}
	v := val{sh: shStruct, fields: map[string]val{}}
	for f, fs := range k.fields {
		fv := val{sh: fs.sh, e: exprs[fs.ix[0]]}
		if len(fs.ix) > 1 {
			fv.e2 = exprs[fs.ix[1]]
		}
		v.fields[f] = fv
	}
	return v
}

func kindOf(goType string) *kind {
	for _, k := range kinds {
		if k.goType == goType {
			return k
		}
	}
	return nil
}

// ---------------------------------------------------------------- functions

func (t *tr) ensure(key string, at ast.Node) *unit {
	if u := t.units[key]; u != nil {
		if u.inProgress && u != t.root {
			dieAt(at, "recursion through %s, which is not a declared root of the translation", key)
		}
		return u
	}
	fd := t.funcs[key]
	if fd == nil {
		dieAt(at, "call of %s, which is neither a function of package cty nor part of the given API", key)
	}
	isRoot := false
	for _, r := range trRoots {
		isRoot = isRoot || r == key
	}
	saved := t.root
	u := t.translate(key, fd, isRoot)
	t.root = saved
	return u
}

func (t *tr) translate(key string, fd *ast.FuncDecl, isRoot bool) *unit {
	u := &unit{key: key, name: strings.ReplaceAll(key, ".", "_"), counterIx: -1, inProgress: true, isRoot: isRoot}
	t.units[key] = u
	if isRoot {
		t.root = u
	}
	c := &fnctx{t: t, u: u, ltype: map[string]string{}}
	en := env{}
	if fd.Recv != nil {
		r := fd.Recv.List[0]
		rn := "recv"
		if len(r.Names) == 1 {
			rn = r.Names[0].Name
		}
		if ts := src(r.Type); ts == "Type" {
			u.recvTy = true
			n := c.fresh(rn, "Ty")
			u.params = append(u.params, leanVar{n, "Ty"})
			en = en.with(rn, val{sh: shTy, e: n})
		} else if k := kindOf(ts); k != nil {
			u.recv = k
			var ex []string
			for _, v := range k.vars {
				n := c.fresh(rn+"_"+v.name, v.typ)
				u.params = append(u.params, leanVar{n, v.typ})
				ex = append(ex, n)
			}
			en = en.with(rn, k.mk(ex))
		} else {
			dieAt(r, "receiver type %s", ts)
		}
	}
	for _, f := range fd.Type.Params.List {
		sh := goTypeShape(f.Type, src(f.Type))
		for _, nm := range f.Names {
			u.goParams = append(u.goParams, goParam{nm.Name, sh})
			switch sh {
			case shErased:
				en = en.with(nm.Name, val{sh: shErased})
			case shCounter:
				if u.counterIx >= 0 || src(f.Type) != "*[]error" {
					dieAt(f, "parameter of type %s", src(f.Type))
				}
				u.counterIx = len(u.goParams) - 1
				c.counter = nm.Name
				n := c.fresh(nm.Name, "Nat")
				u.params = append(u.params, leanVar{n, "Nat"})
				en = en.with(nm.Name, val{sh: shCounter, e: n})
			case shTy:
				n := c.fresh(nm.Name, "Ty")
				u.params = append(u.params, leanVar{n, "Ty"})
				en = en.with(nm.Name, val{sh: shTy, e: n})
			default:
				dieAt(f, "parameter of type %s", src(f.Type))
			}
		}
	}
	switch {
	case fd.Type.Results == nil || len(fd.Type.Results.List) == 0:
		if u.counterIx < 0 {
			dieAt(fd, "function without a result")
		}
		u.retSh = shCounter
	case len(fd.Type.Results.List) == 1 && len(fd.Type.Results.List[0].Names) <= 1 && u.counterIx < 0:
		if len(fd.Type.Results.List[0].Names) == 1 {
			dieAt(fd, "named result")
		}
		u.retSh = goTypeShape(fd.Type.Results.List[0].Type, src(fd.Type.Results.List[0].Type))
	default:
		dieAt(fd, "result list")
	}
	body := c.block(fd.Body.List, en, func(e env) string {
		if c.counter == "" {
			dieAt(fd.Body, "control reaches the end of a function with a result")
		}
		return "(Res.ok " + e[c.counter].e + ")"
	})
	u.needsSelf = tokens(body)["self"]
	u.inProgress = false
	doc := fmt.Sprintf("/-- Go: `%s` (cty/%s) -/\n", strings.Join(strings.Fields(src(&ast.FuncDecl{Recv: fd.Recv, Name: fd.Name, Type: fd.Type})), " "), t.file[key])
	ret := "Res " + atomType(leanType(u.retSh))
	var ps, names []string
	for _, p := range u.params {
		ps = append(ps, fmt.Sprintf("(%s : %s)", p.name, p.typ))
		names = append(names, p.name)
	}
	switch {
	case !u.needsSelf:
		t.out = append(t.out, fmt.Sprintf("%sdef %s %s : %s :=\n%s\n", doc, u.name, strings.Join(ps, " "), ret, indent(body)))
	case isRoot:
		var fuel []string
		under := make([]string, len(u.params))
		for i, p := range u.params {
			under[i] = "_"
			if p.typ == "Ty" {
				fuel = append(fuel, "TyGo.size "+p.name)
			}
		}
		if len(fuel) == 0 {
			dieAt(fd, "recursive root without a Type argument to take the fuel from")
		}
		body = replaceToken(body, "self", "("+u.name+"_fuel fuel)")
		t.out = append(t.out, fmt.Sprintf("%sdef %s_fuel : Nat → %s\n  | 0, %s => Res.unmodelled\n  | fuel + 1, %s =>\n%s\n\ndef %s %s : %s :=\n  %s_fuel (%s + 1) %s\n",
			doc, u.name, u.sig(), strings.Join(under, ", "), strings.Join(names, ", "), indent(indent(body)),
			u.name, strings.Join(ps, " "), ret, u.name, strings.Join(fuel, " + "), strings.Join(names, " ")))
	default:
		t.out = append(t.out, fmt.Sprintf("%sdef %s (self : %s) %s : %s :=\n%s\n", doc, u.name, t.root.sig(), strings.Join(ps, " "), ret, indent(body)))
	}
	return u
}

func replaceToken(s, from, to string) string {
	return identRe.ReplaceAllStringFunc(s, func(m string) string {
		if m == from {
			return to
		}
		return m
	})
}

// ---------------------------------------------------------------- statements

func (c *fnctx) block(list []ast.Stmt, en env, k func(env) string) string {
	return c.stmts(list, en, en, map[string]bool{}, k)
}

func declWith(d map[string]bool, names ...string) map[string]bool {
	n := map[string]bool{}
	for k := range d {
		n[k] = true
	}
	for _, k := range names {
		if k != "" && k != "_" {
			n[k] = true
		}
	}
	return n
}

func identName(e ast.Expr) string {
	if e == nil {
		return ""
	}
	id, ok := e.(*ast.Ident)
	if !ok {
		dieAt(e, "%s where an identifier is expected", src(e))
	}
	if id.Name == "_" {
		return ""
	}
	return id.Name
}

func (c *fnctx) stmts(list []ast.Stmt, entry, cur env, decl map[string]bool, k func(env) string) string {
	if len(list) == 0 {
		out := env{}
		for name, v := range entry {
			if decl[name] {
				out[name] = v
			} else {
				out[name] = cur[name]
			}
		}
		return k(out)
	}
	next := func(e env, d map[string]bool) string { return c.stmts(list[1:], entry, e, d, k) }
	switch s := list[0].(type) {
	case *ast.ReturnStmt:
		return c.ret(s, cur)
	case *ast.BlockStmt:
		return c.block(s.List, cur, func(e env) string { return next(e, decl) })
	case *ast.IfStmt:
		if s.Init != nil {
			return c.block([]ast.Stmt{s.Init, &ast.IfStmt{If: s.If, Cond: s.Cond, Body: s.Body, Else: s.Else}}, cur, func(e env) string { return next(e, decl) })
		}
		bs, v := c.expr(s.Cond, cur)
		if v.sh != shBool {
			dieAt(s.Cond, "condition %s", src(s.Cond))
		}
		thenT := func() string { return c.block(s.Body.List, cur, func(e env) string { return next(e, decl) }) }
		elseT := func() string {
			switch e := s.Else.(type) {
			case nil:
				return next(cur, decl)
			case *ast.BlockStmt:
				return c.block(e.List, cur, func(e env) string { return next(e, decl) })
			default:
				return c.block([]ast.Stmt{e}, cur, func(e env) string { return next(e, decl) })
			}
		}
		switch v.konst {
		case 1:
			return wrap(bs, thenT())
		case 2:
			return wrap(bs, elseT())
		}
		return wrap(bs, "(if "+v.e+" then\n"+indent(thenT())+"\nelse\n"+indent(elseT())+")")
	case *ast.SwitchStmt:
		if s.Init != nil || s.Tag != nil {
			dieAt(s, "switch with an init statement or a tag")
		}
		// rewritten as the if-chain it abbreviates (cases are tried in order, default last)
		var chain, last *ast.IfStmt
		var deflt *ast.BlockStmt
		for _, cs := range s.Body.List {
			cc := cs.(*ast.CaseClause)
			ast.Inspect(cc, func(n ast.Node) bool {
				if b, ok := n.(*ast.BranchStmt); ok {
					dieAt(b, "%s in a switch", b.Tok)
				}
				return true
			})
			body := &ast.BlockStmt{Lbrace: cc.Pos(), List: cc.Body}
			if cc.List == nil {
				deflt = body
				continue
			}
			cond := cc.List[0]
			for _, e := range cc.List[1:] {
				cond = &ast.BinaryExpr{X: cond, Op: token.LOR, Y: e}
			}
			is := &ast.IfStmt{If: cc.Pos(), Cond: cond, Body: body}
			if chain == nil {
				chain = is
			} else {
				last.Else = is
			}
			last = is
		}
		if chain == nil {
			dieAt(s, "switch without cases")
		}
		if deflt != nil {
			last.Else = deflt
		}
		return c.stmts(append([]ast.Stmt{chain}, list[1:]...), entry, cur, decl, k)
	case *ast.DeclStmt:
		gd := s.Decl.(*ast.GenDecl)
		if gd.Tok == token.VAR && len(gd.Specs) == 1 {
			vs := gd.Specs[0].(*ast.ValueSpec)
			if len(vs.Names) == 1 && len(vs.Values) == 0 && vs.Type != nil && src(vs.Type) == "[]error" {
				return next(cur.with(vs.Names[0].Name, val{sh: shCounter, e: "0"}), declWith(decl, vs.Names[0].Name))
			}
		}
		dieAt(s, "declaration %s", src(s))
	case *ast.ExprStmt:
		call, ok := s.X.(*ast.CallExpr)
		if !ok {
			dieAt(s, "expression statement %s", src(s))
		}
		if id, ok := call.Fun.(*ast.Ident); ok && id.Name == "panic" {
			msg := "panic"
			if len(call.Args) == 1 {
				if bl, ok := call.Args[0].(*ast.BasicLit); ok && bl.Kind == token.STRING {
					msg, _ = strconv.Unquote(bl.Value)
				}
			}
			return "(Res.panic " + leanStr(msg) + ")"
		}
		bs, v, outVar := c.call(call, cur, true)
		if outVar == "" {
			dieAt(s, "call %s used as a statement has no modelled effect", src(call))
		}
		return wrap(bs, next(cur.with(outVar, v), decl))
	case *ast.AssignStmt:
		return c.assign(s, cur, decl, next)
	case *ast.RangeStmt:
		return c.rangeStmt(s, cur, func(e env) string { return next(e, decl) })
	}
	dieAt(list[0], "statement %s", strings.TrimPrefix(fmt.Sprintf("%T", list[0]), "*ast."))
	return ""
}

func (c *fnctx) ret(s *ast.ReturnStmt, cur env) string {
	if len(s.Results) == 0 {
		if c.counter == "" {
			dieAt(s, "return without a value")
		}
		return "(Res.ok " + cur[c.counter].e + ")"
	}
	if len(s.Results) != 1 || c.counter != "" {
		dieAt(s, "return with %d values", len(s.Results))
	}
	bs, v := c.expr(s.Results[0], cur)
	if v.sh != c.u.retSh {
		dieAt(s, "returned value %s", src(s.Results[0]))
	}
	e := v.e
	if v.sh == shMap {
		e = "(" + v.e + ", " + v.e2 + ")"
	}
	if n := len(bs); n > 0 && bs[n-1].pat == e {
		return wrap(bs[:n-1], bs[n-1].rhs) // tail call
	}
	return wrap(bs, "(Res.ok "+e+")")
}

func (c *fnctx) assign(s *ast.AssignStmt, cur env, decl map[string]bool, next func(env, map[string]bool) string) string {
	define := s.Tok == token.DEFINE
	if s.Tok != token.DEFINE && s.Tok != token.ASSIGN {
		dieAt(s, "assignment operator %s", s.Tok)
	}
	bindVar := func(e env, d map[string]bool, name string, v val) (env, map[string]bool) {
		if name == "" {
			return e, d
		}
		if define && !d[name] {
			return e.with(name, v), declWith(d, name)
		}
		old, ok := e[name]
		if !ok {
			dieAt(s, "assignment to unknown variable %s", name)
		}
		if old.sh != v.sh && old.sh != shPoison {
			dieAt(s, "assignment changes how %s is modelled", name)
		}
		return e.with(name, v), d
	}
	// comma-ok forms
	if len(s.Lhs) == 2 && len(s.Rhs) == 1 && define {
		vName, okName := identName(s.Lhs[0]), identName(s.Lhs[1])
		switch r := s.Rhs[0].(type) {
		case *ast.TypeAssertExpr:
			sel, ok := r.X.(*ast.SelectorExpr)
			if !ok || sel.Sel.Name != "typeImpl" || r.Type == nil {
				dieAt(r, "type assertion %s", src(r))
			}
			bs, x := c.expr(sel.X, cur)
			k := kindOf(src(r.Type))
			if x.sh != shTy || k == nil {
				dieAt(r, "type assertion %s", src(r))
			}
			var arms []string
			for _, a := range k.alts {
				pat, ex := a.ctor, a.consts
				if a.consts == nil {
					for _, v := range k.vars {
						if vName == "" {
							pat += " _"
							ex = append(ex, "_")
						} else {
							n := c.fresh(vName+"_"+v.name, v.typ)
							pat += " " + n
							ex = append(ex, n)
						}
					}
				}
				e, d := bindVar(cur, decl, vName, k.mk(ex))
				e, d = bindVar(e, d, okName, constBool(true))
				arms = append(arms, "| "+pat+" =>\n"+indent(next(e, d)))
			}
			e, d := bindVar(cur, decl, vName, val{sh: shPoison, why: "zero value after a failed type assertion"})
			e, d = bindVar(e, d, okName, constBool(false))
			arms = append(arms, "| _ =>\n"+indent(next(e, d)))
			return wrap(bs, "(match "+x.e+" with\n"+strings.Join(arms, "\n")+")")
		case *ast.IndexExpr:
			bs, m := c.expr(r.X, cur)
			bs2, key := c.expr(r.Index, cur)
			bs = append(bs, bs2...)
			if key.sh != shStr {
				dieAt(r, "map key %s", src(r.Index))
			}
			switch {
			case m.sh == shSet:
				e, d := bindVar(cur, decl, vName, val{sh: shUnit})
				e, d = bindVar(e, d, okName, boolVal("(TyGo.setMem "+key.e+" "+m.e+" "+m.e2+")"))
				return wrap(bs, next(e, d))
			case m.sh == shMap && vName == "":
				e, d := bindVar(cur, decl, okName, boolVal("(TyGo.mapHas "+key.e+" "+m.e+" "+m.e2+")"))
				return wrap(bs, next(e, d))
			case m.sh == shMap:
				n := c.fresh(vName, "Ty")
				e, d := bindVar(cur, decl, vName, val{sh: shTy, e: n})
				e, d = bindVar(e, d, okName, constBool(true))
				some := next(e, d)
				e, d = bindVar(cur, decl, vName, val{sh: shPoison, why: "zero value after a failed map lookup"})
				e, d = bindVar(e, d, okName, constBool(false))
				return wrap(bs, "(match TyGo.mapLookup "+key.e+" "+m.e+" "+m.e2+" with\n| some "+n+" =>\n"+indent(some)+"\n| none =>\n"+indent(next(e, d))+")")
			}
			dieAt(r, "comma-ok index of %s", src(r.X))
		}
		dieAt(s, "two-valued assignment %s", src(s))
	}
	if len(s.Lhs) != 1 || len(s.Rhs) != 1 {
		dieAt(s, "parallel assignment")
	}
	switch l := s.Lhs[0].(type) {
	case *ast.Ident:
		name := identName(l)
		if !define && name != "" && cur[name].sh == shErased {
			if _, v := c.expr(s.Rhs[0], cur); v.sh != shErased {
				dieAt(s, "modelled value assigned to an erased variable")
			}
			return next(cur, decl)
		}
		bs, v := c.expr(s.Rhs[0], cur)
		switch v.sh {
		case shImpl, shNil, shNilType, shPoison, shUnit:
			dieAt(s, "value %s cannot be stored in a variable", src(s.Rhs[0]))
		}
		e, d := bindVar(cur, decl, name, v)
		return wrap(bs, next(e, d))
	case *ast.StarExpr: // *errs = append(*errs, …)
		name := identName(l.X)
		if define || cur[name].sh != shCounter || name != c.counter {
			dieAt(s, "assignment through %s", src(l))
		}
		bs, v := c.expr(s.Rhs[0], cur)
		if v.sh != shCounter {
			dieAt(s, "assignment through %s", src(l))
		}
		return wrap(bs, next(cur.with(name, v), decl))
	case *ast.IndexExpr: // m[k] = v, xs[i] = v
		name := identName(l.X)
		tgt, ok := cur[name]
		if define || !ok {
			dieAt(s, "assignment to %s", src(l))
		}
		switch tgt.sh {
		case shErased:
			return next(cur, decl)
		case shSliceOpt:
			bs, i := c.expr(l.Index, cur)
			bs2, v := c.expr(s.Rhs[0], cur)
			if i.sh != shNat || v.sh != shTy {
				dieAt(s, "slice element assignment %s", src(s))
			}
			n := c.fresh(name, "List (Option Ty)")
			bs = append(append(bs, bs2...), bind{n, "(TyGo.sliceSet " + tgt.e + " " + i.e + " " + v.e + ")"})
			return wrap(bs, next(cur.with(name, val{sh: shSliceOpt, e: n}), decl))
		case shMap:
			bs, key := c.expr(l.Index, cur)
			bs2, v := c.expr(s.Rhs[0], cur)
			if key.sh != shStr || v.sh != shTy {
				dieAt(s, "map element assignment %s", src(s))
			}
			nk, nv := c.fresh(name+"_k", "List String"), c.fresh(name+"_v", "List Ty")
			return wrap(append(bs, bs2...), "(match TyGo.mapInsert "+key.e+" "+v.e+" "+tgt.e+" "+tgt.e2+" with\n| ("+nk+", "+nv+") =>\n"+
				indent(next(cur.with(name, val{sh: shMap, e: nk, e2: nv}), decl))+")")
		}
		dieAt(s, "assignment to an element of %s", name)
	}
	dieAt(s, "assignment to %s", src(s.Lhs[0]))
	return ""
}

// assignedOuter: variables of the enclosing scope that the loop body assigns (the loop's state)
func assignedOuter(body *ast.BlockStmt, cur env) []string {
	set := map[string]bool{}
	add := func(e ast.Expr) {
		for {
			switch x := e.(type) {
			case *ast.Ident:
				if v, ok := cur[x.Name]; ok && v.sh != shErased {
					set[x.Name] = true
				}
				return
			case *ast.IndexExpr:
				e = x.X
			case *ast.StarExpr:
				e = x.X
			case *ast.UnaryExpr:
				e = x.X
			case *ast.ParenExpr:
				e = x.X
			default:
				return
			}
		}
	}
	ast.Inspect(body, func(n ast.Node) bool {
		switch x := n.(type) {
		case *ast.AssignStmt:
			if x.Tok == token.ASSIGN {
				for _, l := range x.Lhs {
					add(l)
				}
			}
		case *ast.ExprStmt:
			if call, ok := x.X.(*ast.CallExpr); ok {
				for _, a := range call.Args {
					if v, ok := cur[strings.TrimPrefix(src(a), "&")]; ok && v.sh == shCounter {
						add(a)
					}
				}
			}
		}
		return true
	})
	var out []string
	for n := range set {
		out = append(out, n)
	}
	sort.Strings(out)
	return out
}

func (c *fnctx) rangeStmt(s *ast.RangeStmt, cur env, after func(env) string) string {
	if c.inLoopBody {
		dieAt(s, "nested loop")
	}
	if s.Tok != token.DEFINE {
		dieAt(s, "range without := ")
	}
	ast.Inspect(s.Body, func(n ast.Node) bool {
		if b, ok := n.(*ast.BranchStmt); ok {
			dieAt(b, "%s in a loop", b.Tok)
		}
		return true
	})
	xb, x := c.expr(s.X, cur)
	keyName, valName := identName(s.Key), identName(s.Value)
	c.nloops++
	name := fmt.Sprintf("%s_loop%d", c.u.name, c.nloops)
	hole := "«" + name + "»"

	inner := cur
	var stTypes, stPats, stInit []string
	state := assignedOuter(s.Body, cur)
	for _, n := range state {
		if id, ok := s.X.(*ast.Ident); ok && id.Name == n {
			dieAt(s, "loop assigns the collection it ranges over")
		}
		v := cur[n]
		switch v.sh {
		case shCounter, shSliceOpt:
			p := c.fresh(n, leanType(v.sh))
			stTypes, stPats, stInit = append(stTypes, atomType(leanType(v.sh))), append(stPats, p), append(stInit, v.e)
			inner = inner.with(n, val{sh: v.sh, e: p})
		case shMap:
			p, q := c.fresh(n+"_k", "List String"), c.fresh(n+"_v", "List Ty")
			stTypes, stPats, stInit = append(stTypes, "List String", "List Ty"), append(stPats, p, q), append(stInit, v.e, v.e2)
			inner = inner.with(n, val{sh: shMap, e: p, e2: q})
		default:
			dieAt(s, "loop assigns %s", n)
		}
	}
	stateOf := func(e env) string {
		var out []string
		for _, n := range state {
			out = append(out, e[n].e)
			if e[n].sh == shMap {
				out = append(out, e[n].e2)
			}
		}
		return strings.Join(out, " ")
	}
	type iter struct{ list, typ, head, tail string }
	var its []iter
	body := inner
	idx := ""
	mk := func(list, typ, goVar string, sh shape) {
		h := "_"
		if goVar != "" {
			h = c.fresh(goVar, typ)
			body = body.with(goVar, val{sh: sh, e: h})
		}
		its = append(its, iter{list, typ, h, c.fresh("rest", "List "+typ)})
	}
	switch x.sh {
	case shSlice:
		if keyName != "" {
			idx = c.fresh(keyName, "Nat")
			body = body.with(keyName, val{sh: shNat, e: idx})
		}
		mk(x.e, "Ty", valName, shTy)
	case shMap:
		if keyName != "" || valName == "" {
			mk(x.e, "String", keyName, shStr)
		}
		if valName != "" {
			mk(x.e2, "Ty", valName, shTy)
		}
	default:
		dieAt(s.X, "range over %s", src(s.X))
	}
	var conses, unders, tails, lists, sigT []string
	for _, it := range its {
		conses, unders, tails, lists = append(conses, it.head+" :: "+it.tail), append(unders, "_"), append(tails, it.tail), append(lists, it.list)
		sigT = append(sigT, "List "+it.typ)
	}
	idxPat, idxUnder, idxNext, idxInit := "", "", "", ""
	if idx != "" {
		idxPat, idxUnder, idxNext, idxInit = idx+", ", "_, ", "("+idx+" + 1) ", "0 "
		sigT = append([]string{"Nat"}, sigT...)
	}
	stPat := ""
	if len(stPats) > 0 {
		stPat = strings.Join(stPats, ", ") + ", "
	}
	c.inLoopBody = true
	stepT := c.block(s.Body.List, body, func(e env) string {
		return strings.Join(strings.Fields("("+hole+" "+stateOf(e)+" "+idxNext+strings.Join(tails, " ")+")"), " ")
	})
	c.inLoopBody = false
	restT := after(inner)
	// captured variables: what the helper mentions of the enclosing scope
	used := tokens(stepT + "\n" + restT)
	avail := map[string]bool{}
	for _, v := range cur {
		var walk func(v val)
		walk = func(v val) {
			for tk := range tokens(v.e + " " + v.e2) {
				avail[tk] = true
			}
			for _, f := range v.fields {
				walk(f)
			}
		}
		walk(v)
	}
	var capDecl, capNames []string
	for _, n := range c.order {
		if used[n] && avail[n] {
			capDecl = append(capDecl, fmt.Sprintf("(%s : %s)", n, c.ltype[n]))
			capNames = append(capNames, n)
		}
	}
	self, selfDecl := "", ""
	if used["self"] {
		self, selfDecl = " self", fmt.Sprintf(" (self : %s)", c.t.root.sig())
	}
	head := strings.Join(strings.Fields(name+self+" "+strings.Join(capNames, " ")), " ")
	stepT = strings.ReplaceAll(stepT, hole, head)
	ret := "Res " + atomType(leanType(c.u.retSh))
	c.t.out = append(c.t.out, fmt.Sprintf("/-- the `for %s := range %s` loop of `%s`, and what follows it -/\ndef %s%s%s : %s\n  | %s%s%s =>\n%s\n  | %s%s%s =>\n%s\n",
		rangeVars(s), src(s.X), c.u.key,
		name, selfDecl, strings.TrimSuffix(" "+strings.Join(capDecl, " "), " "), strings.Join(append(append(stTypes, sigT...), ret), " → "),
		stPat, idxPat, strings.Join(conses, ", "), indent(indent(stepT)),
		stPat, idxUnder, strings.Join(unders, ", "), indent(indent(restT))))
	return wrap(xb, "("+strings.Join(strings.Fields(head+" "+strings.Join(stInit, " ")+" "+idxInit+strings.Join(lists, " ")), " ")+")")
}

func rangeVars(s *ast.RangeStmt) string {
	var l []string
	if s.Key != nil {
		l = append(l, src(s.Key))
	}
	if s.Value != nil {
		l = append(l, src(s.Value))
	}
	return strings.Join(l, ", ")
}

// ---------------------------------------------------------------- expressions

func (c *fnctx) expr(e ast.Expr, en env) ([]bind, val) {
	switch x := e.(type) {
	case *ast.ParenExpr:
		return c.expr(x.X, en)
	case *ast.Ident:
		switch x.Name {
		case "true":
			return nil, constBool(true)
		case "false":
			return nil, constBool(false)
		case "nil":
			return nil, val{sh: shNil}
		case "_":
			dieAt(x, "blank identifier as a value")
		}
		if v, ok := en[x.Name]; ok {
			if v.sh == shPoison {
				dieAt(x, "use of %s: %s", x.Name, v.why)
			}
			return nil, v
		}
		switch x.Name {
		case "DynamicPseudoType":
			return nil, val{sh: shTy, e: "Ty.dyn", isDyn: true}
		case "NilType":
			return nil, val{sh: shNilType}
		}
		dieAt(x, "identifier %s", x.Name)
	case *ast.BasicLit:
		if x.Kind == token.INT {
			if n, err := strconv.ParseUint(x.Value, 0, 63); err == nil {
				return nil, val{sh: shNat, e: strconv.FormatUint(n, 10)}
			}
		}
		dieAt(x, "literal %s", x.Value)
	case *ast.SelectorExpr:
		bs, v := c.expr(x.X, en)
		switch {
		case v.sh == shStruct:
			if f, ok := v.fields[x.Sel.Name]; ok {
				return bs, f
			}
		case v.sh == shTy && x.Sel.Name == "typeImpl":
			return bs, val{sh: shImpl, e: v.e}
		}
		dieAt(x, "selector %s", src(x))
	case *ast.StarExpr:
		if bs, v := c.expr(x.X, en); v.sh == shCounter {
			return bs, v
		}
		dieAt(x, "dereference %s", src(x))
	case *ast.UnaryExpr:
		bs, v := c.expr(x.X, en)
		switch {
		case x.Op == token.NOT && v.sh == shBool:
			switch v.konst {
			case 1:
				return bs, constBool(false)
			case 2:
				return bs, constBool(true)
			}
			return bs, boolVal("(!" + v.e + ")")
		case x.Op == token.AND && v.sh == shCounter:
			return bs, v
		}
		dieAt(x, "operator %s on %s", x.Op, src(x.X))
	case *ast.BinaryExpr:
		return c.binary(x, en)
	case *ast.IndexExpr:
		bs, v := c.expr(x.X, en)
		if v.sh == shErased {
			return nil, v
		}
		bs2, i := c.expr(x.Index, en)
		if v.sh == shSlice && i.sh == shNat {
			n := c.fresh("elem", "Ty")
			return append(append(bs, bs2...), bind{n, "(TyGo.sliceGet " + v.e + " " + i.e + ")"}), val{sh: shTy, e: n}
		}
		dieAt(x, "index expression %s", src(x))
	case *ast.SliceExpr:
		if _, v := c.expr(x.X, en); v.sh == shErased {
			return nil, v
		}
		dieAt(x, "slice expression %s", src(x))
	case *ast.CallExpr:
		bs, v, out := c.call(x, en, false)
		if out != "" {
			dieAt(x, "call with an out-parameter used as a value")
		}
		return bs, v
	}
	dieAt(e, "expression %s (%s)", src(e), strings.TrimPrefix(fmt.Sprintf("%T", e), "*ast."))
	return nil, val{}
}

func (c *fnctx) binary(x *ast.BinaryExpr, en env) ([]bind, val) {
	lb, l := c.expr(x.X, en)
	if (x.Op == token.LAND && l.konst == 2) || (x.Op == token.LOR && l.konst == 1) {
		return lb, l // Go does not evaluate the right operand
	}
	rb, r := c.expr(x.Y, en)
	switch x.Op {
	case token.LAND, token.LOR:
		if l.sh != shBool || r.sh != shBool {
			break
		}
		and := x.Op == token.LAND
		if l.konst != 0 { // true && r, false || r
			return append(lb, rb...), r
		}
		if len(rb) == 0 {
			if r.konst != 0 && (r.konst == 1) == and { // l && true, l || false
				return lb, l
			}
			op := " || "
			if and {
				op = " && "
			}
			return lb, boolVal("(" + l.e + op + r.e + ")")
		}
		// the right operand can panic: it is evaluated only if the left one does not decide
		n := c.fresh("c", "Bool")
		rhs := wrap(rb, "(Res.ok "+r.e+")")
		if and {
			return append(lb, bind{n, "(if " + l.e + " then\n" + indent(rhs) + "\nelse\n  (Res.ok false))"}), boolVal(n)
		}
		return append(lb, bind{n, "(if " + l.e + " then\n  (Res.ok true)\nelse\n" + indent(rhs) + ")"}), boolVal(n)
	case token.EQL, token.NEQ:
		eq := x.Op == token.EQL
		bs := append(lb, rb...)
		if l.sh == shNilType || l.isDyn {
			l, r = r, l
		}
		switch {
		case l.sh == shTy && r.sh == shNilType:
			return bs, constBool(!eq) // a modelled type is never NilType
		case l.sh == shTy && r.isDyn: // interface comparison against a value of a comparable dynamic type
			if eq {
				return bs, boolVal("(Ty.isDyn " + l.e + ")")
			}
			return bs, boolVal("(!Ty.isDyn " + l.e + ")")
		case l.sh == r.sh && (l.sh == shBool || l.sh == shNat || l.sh == shStr):
			if eq {
				return bs, boolVal("(" + l.e + " == " + r.e + ")")
			}
			return bs, boolVal("(" + l.e + " != " + r.e + ")")
		}
	case token.ADD, token.SUB:
		if l.sh == shErased && (r.sh == shErased || r.sh == shNat) {
			return nil, l
		}
	}
	dieAt(x, "operator %s in %s", x.Op, src(x))
	return nil, val{}
}

// call translates a call; outVar is the Go variable that receives the callee's error-list out-parameter
func (c *fnctx) call(call *ast.CallExpr, en env, stmt bool) (bs []bind, v val, outVar string) {
	if call.Ellipsis.IsValid() {
		dieAt(call, "variadic call")
	}
	switch f := call.Fun.(type) {
	case *ast.Ident:
		switch f.Name {
		case "len":
			if len(call.Args) != 1 {
				break
			}
			bs, a := c.expr(call.Args[0], en)
			switch a.sh {
			case shSlice, shSliceOpt, shMap:
				return bs, val{sh: shNat, e: "(List.length " + a.e + ")"}, ""
			case shSet:
				return bs, val{sh: shNat, e: "(TyGo.setLen " + a.e2 + ")"}, ""
			case shErased:
				return nil, a, ""
			}
			dieAt(call, "len of %s", src(call.Args[0]))
		case "append":
			if len(call.Args) < 2 {
				break
			}
			bs, a := c.expr(call.Args[0], en)
			switch a.sh {
			case shCounter: // the appended error values are counted, not evaluated
				return bs, val{sh: shCounter, e: fmt.Sprintf("(%s + %d)", a.e, len(call.Args)-1)}, ""
			case shErased:
				return nil, a, ""
			}
			dieAt(call, "append to %s", src(call.Args[0]))
		case "make":
			if len(call.Args) == 0 || len(call.Args) > 2 {
				break
			}
			ts := src(call.Args[0])
			if erasedTypes[ts] {
				return nil, val{sh: shErased}, ""
			}
			var n val
			if len(call.Args) == 2 {
				if bs, n = c.expr(call.Args[1], en); n.sh != shNat {
					dieAt(call, "size %s", src(call.Args[1]))
				}
			}
			switch {
			case ts == "[]Type" && len(call.Args) == 2:
				return bs, val{sh: shSliceOpt, e: "(TyGo.sliceMake " + n.e + ")"}, ""
			case ts == "map[string]Type":
				return bs, val{sh: shMap, e: "([] : List String)", e2: "([] : List Ty)"}, ""
			}
			dieAt(call, "make(%s)", ts)
		}
		if p, ok := funcPrims[f.Name]; ok && !hasKey(en, f.Name) {
			if len(call.Args) != len(p.args) {
				dieAt(call, "call %s", src(call))
			}
			var args []string
			for i, a := range call.Args {
				b, av := c.expr(a, en)
				bs = append(bs, b...)
				if av.sh == shSliceOpt && p.args[i] == shSlice { // a constructed slice is handed over: every element must be set
					n := c.fresh("elems", "List Ty")
					bs = append(bs, bind{n, "(TyGo.sliceDone " + av.e + ")"})
					av = val{sh: shSlice, e: n}
				}
				if av.sh != p.args[i] {
					dieAt(a, "argument %s of %s", src(a), f.Name)
				}
				args = append(args, av.e)
				if av.sh == shMap {
					args = append(args, av.e2)
				}
			}
			return bs, val{sh: p.ret, e: "(" + p.lean + " " + strings.Join(args, " ") + ")"}, ""
		}
		if hasKey(en, f.Name) {
			dieAt(call, "call of a local value")
		}
		return c.callUnit(f.Name, nil, call, en, stmt)
	case *ast.SelectorExpr:
		rb, r := c.expr(f.X, en)
		switch r.sh {
		case shTy:
			if p, ok := typeMethodPrims[f.Sel.Name]; ok {
				if len(call.Args) != 0 {
					dieAt(call, "call %s", src(call))
				}
				if !p.partial {
					return rb, val{sh: p.ret, e: "(" + p.lean + " " + r.e + ")"}, ""
				}
				n := c.fresh("x", leanType(p.ret))
				return append(rb, bind{n, "(" + p.lean + " " + r.e + ")"}), val{sh: p.ret, e: n}, ""
			}
			bs, v, out := c.callUnit("Type."+f.Sel.Name, []string{r.e}, call, en, stmt)
			return append(rb, bs...), v, out
		case shImpl: // method call through the interface: one arm per implementation
			var args []string
			for _, a := range call.Args {
				b, av := c.expr(a, en)
				if av.sh != shTy {
					dieAt(a, "argument %s", src(a))
				}
				rb, args = append(rb, b...), append(args, av.e)
			}
			var arms []string
			var ret shape
			for _, k := range kinds {
				u := c.t.ensure(strings.TrimPrefix(k.goType, "*")+"."+f.Sel.Name, call)
				if u.counterIx >= 0 || len(u.goParams) != len(args) {
					dieAt(call, "interface method %s", f.Sel.Name)
				}
				for _, p := range u.goParams {
					if p.sh != shTy {
						dieAt(call, "interface method %s", f.Sel.Name)
					}
				}
				ret = u.retSh
				for _, a := range k.alts {
					pat, ex := a.ctor, a.consts
					if a.consts == nil {
						for _, v := range k.vars {
							n := c.fresh("r_"+v.name, v.typ)
							pat, ex = pat+" "+n, append(ex, n)
						}
					}
					arms = append(arms, "| "+pat+" => "+c.callText(u, append(ex, args...)))
				}
			}
			n := c.fresh("x", leanType(ret))
			return append(rb, bind{n, "(match " + r.e + " with\n" + strings.Join(arms, "\n") + ")"}), val{sh: ret, e: n}, ""
		}
		dieAt(call, "method call %s", src(call))
	}
	dieAt(call, "call %s", src(call))
	return nil, val{}, ""
}

func hasKey(en env, k string) bool { _, ok := en[k]; return ok }

func (c *fnctx) callText(u *unit, args []string) string {
	head := u.name
	if u == c.t.root && u.inProgress {
		head = "self"
	} else if u.needsSelf && !u.isRoot {
		head += " self"
	}
	return "(" + head + " " + strings.Join(args, " ") + ")"
}

func (c *fnctx) callUnit(key string, recv []string, call *ast.CallExpr, en env, stmt bool) (bs []bind, v val, outVar string) {
	u := c.t.ensure(key, call)
	if (recv == nil) != (!u.recvTy) || len(call.Args) != len(u.goParams) {
		dieAt(call, "call %s", src(call))
	}
	args := recv
	for i, a := range call.Args {
		switch u.goParams[i].sh {
		case shErased:
			if _, av := c.expr(a, en); av.sh != shErased {
				dieAt(a, "argument %s", src(a))
			}
		case shCounter:
			b, av := c.expr(a, en)
			name := strings.TrimPrefix(src(a), "&")
			if av.sh != shCounter || !hasKey(en, name) || !stmt {
				dieAt(a, "out-parameter argument %s", src(a))
			}
			bs, args, outVar = append(bs, b...), append(args, av.e), name
		default:
			b, av := c.expr(a, en)
			if av.sh != u.goParams[i].sh {
				dieAt(a, "argument %s", src(a))
			}
			bs, args = append(bs, b...), append(args, av.e)
		}
	}
	n := c.fresh("x", leanType(u.retSh))
	v = val{sh: u.retSh, e: n}
	if u.retSh == shMap {
		v = val{sh: shMap, e: n + ".1", e2: n + ".2"}
	}
	return append(bs, bind{n, c.callText(u, args)}), v, outVar
}

// ---------------------------------------------------------------- entry

func translateTyFns(repo, leanDir, hdr string) int {
	t := &tr{funcs: map[string]*ast.FuncDecl{}, file: map[string]string{}, units: map[string]*unit{}}
	for _, f := range parseDir(filepath.Join(repo, "cty")) {
		for _, d := range f.Decls {
			fd, ok := d.(*ast.FuncDecl)
			if !ok || fd.Body == nil {
				continue
			}
			key := fd.Name.Name
			if fd.Recv != nil {
				key = strings.TrimPrefix(src(fd.Recv.List[0].Type), "*") + "." + key
			}
			t.funcs[key] = fd
			t.file[key] = filepath.Base(fset.Position(fd.Pos()).Filename)
		}
	}
	for _, r := range trRoots {
		if t.funcs[r] == nil {
			die("translate: %s not found in package cty", r)
		}
		t.ensure(r, t.funcs[r])
	}
	var b strings.Builder
	b.WriteString(hdr + "-- Translation of the pure recursive core of cty.Type (extract/translate.go); tied to the hand-written\n-- model by CtyModel/Lemmas/TyFnsTie.lean.\nimport CtyModel.TyGo\nset_option linter.unusedVariables false\nnamespace CtyModel.Generated.TyFns\n\n")
	b.WriteString(strings.Join(t.out, "\n"))
	b.WriteString("\n" + trAliases + "\nend CtyModel.Generated.TyFns\n")
	writeIfChanged(filepath.Join(leanDir, "TyFns.lean"), b.String())
	return len(t.out)
}
