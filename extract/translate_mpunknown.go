// Go→Lean translation of cty/msgpack/unknown.go (C16/C17): marshalUnknownValue and
// unmarshalUnknownValue.  It writes lean/CtyModel/Generated/MpUnknownFns.lean;
// Lemmas/MpUnknownFnsTie.lean proves the generated definitions equal to the hand-written
// model (Msgpack.marshalUnknown, D17.unmarshal on extension items), so the refinement
// theorems of C16/C17 are re-checked against what the source says on every run.
//
// What is translated is a SYNTACTIC FRAGMENT; anything else is an error with the source
// position (a source edit that leaves the fragment is a broken tie):
//
//	statements   var b bytes.Buffer | x := e | x = e | x, y := call | _, err = call | x++ | a, b, c := e1, e2, e3
//	             e := msgpack.NewEncoder(&b) | d := msgpack.NewDecoder(bytes.NewReader(body)) | body := make([]byte, n)
//	             if [init;] c {…} [else …] | switch [init;] [tag] { case a, b: … default: … }
//	             for i := a; i < n; i++ {…}   (i, n not assigned in the body; no break/continue/goto/labels)
//	             enc.EncodeInt/EncodeBool/EncodeString/EncodeMapLen(e) | marshal(v, ty, nil, enc) | panic("…")
//	             defer func() { if r := recover(); r != nil { ret = cty.DynamicVal; err = path.NewErrorf(…) } }()  (exactly this shape, first statement)
//	             return nil | return path.NewError(err) | return path.NewErrorf("…", pure args) | return v, nil | return v, path.NewErrorf(…)
//	expressions  identifiers, integer/string/bool literals, the package's constants, math.MaxInt, cty.Number/String/Bool/DynamicPseudoType,
//	             cty.NegativeInfinity/PositiveInfinity/Zero/DynamicVal, !, &&, ||, ==, != (types against a primitive type, values against a
//	             singleton, errors against nil, strings, integers), <, <=, >, >= , + and - on int (no overflow is modelled: the operands are
//	             sizes of in-memory buffers and small constants), s[:n], len(s), conversions int64(e)/int(e)/unknownValRefinementKey(e),
//	             and the calls of the given-API tables below
//
// How Go data is read: lean/CtyModel/MpGo.lean (the GIVEN API).  Encoders, buffers, decoders and the
// refinement builder are STATE: a method call with an effect rebinds the Lean variable of the
// object it acts on.  A function with result `error` becomes a Lean function into `Res MpGo.Buf`
// (`.ok b` = nil was returned and the encoder parameter holds b); `(cty.Value, error)` becomes `Res GoVal`.
// Statement lists are translated in continuation-passing style; code that two or more paths of an
// if/switch reach becomes a local function `k_n` over the variables assigned inside the statement;
// a `for` loop becomes a structurally recursive top-level helper over the number of iterations left.
package main

import (
	"fmt"
	"go/ast"
	"go/token"
	"math/big"
	"path/filepath"
	"sort"
	"strconv"
	"strings"
)

const muFile = "cty/msgpack/unknown.go"

var muRoots = []string{"marshalUnknownValue", "unmarshalUnknownValue"}

type muShape int

const (
	muBool      muShape = iota
	muInt               // int
	muI64               // int64
	muI8                // int8 (extension type code)
	muKey               // unknownValRefinementKey
	muConst             // untyped integer constant
	muStr               // string
	muVal               // cty.Value
	muTy                // cty.Type
	muTyPrim            // one of cty.Number/String/Bool/DynamicPseudoType (by name)
	muValSing           // one of cty.NegativeInfinity/PositiveInfinity/DynamicVal (by name)
	muRng               // cty.ValueRange
	muPath              // cty.Path (erased)
	muEnc               // *msgpack.Encoder (state: what it has written)
	muBuf               // bytes.Buffer
	muBytes             // []byte: the content of a buffer / an extension body
	muErr               // error
	muNil               // the literal nil
	muDec               // the outer *msgpack.Decoder (state)
	muRDec              // a decoder over an extension body (state)
	muBuilder           // *cty.RefinementBuilder
	muRecovered         // the result of recover()
)

var muShapeNames = map[muShape]string{muBool: "bool", muInt: "int", muI64: "int64", muI8: "int8", muKey: "unknownValRefinementKey", muConst: "untyped constant",
	muStr: "string", muVal: "cty.Value", muTy: "cty.Type", muTyPrim: "primitive cty.Type", muValSing: "named cty.Value", muRng: "cty.ValueRange",
	muPath: "cty.Path", muEnc: "*msgpack.Encoder", muBuf: "bytes.Buffer", muBytes: "[]byte", muErr: "error", muNil: "nil", muDec: "*msgpack.Decoder",
	muRDec: "*msgpack.Decoder over an extension body", muBuilder: "*cty.RefinementBuilder", muRecovered: "recover() result"}

func muLeanType(sh muShape) string {
	switch sh {
	case muBool:
		return "Bool"
	case muInt, muI64, muI8, muKey, muConst:
		return "Int"
	case muStr:
		return "MpGo.GoStr"
	case muVal, muValSing:
		return "RefineGo.GoVal"
	case muTy, muTyPrim:
		return "Ty"
	case muRng:
		return "Refine.ValueRange"
	case muEnc, muBuf, muBytes:
		return "MpGo.Buf"
	case muErr:
		return "MpGo.GoErr"
	case muDec:
		return "MpGo.Dec"
	case muRDec:
		return "MpGo.RDec"
	case muBuilder:
		return "Refine.Builder"
	}
	panic("muLeanType " + muShapeNames[sh])
}

func muIsInt(sh muShape) bool {
	return sh == muInt || sh == muI64 || sh == muI8 || sh == muKey || sh == muConst
}

func muTypeShape(n ast.Node, s string) muShape {
	switch s {
	case "bool":
		return muBool
	case "int":
		return muInt
	case "int64":
		return muI64
	case "string":
		return muStr
	case "error":
		return muErr
	case "cty.Value":
		return muVal
	case "cty.Type":
		return muTy
	case "cty.ValueRange":
		return muRng
	case "cty.Path":
		return muPath
	case "*msgpack.Encoder":
		return muEnc
	case "*msgpack.Decoder":
		return muDec
	case "bytes.Buffer":
		return muBuf
	}
	dieAt(n, "type %s", s)
	return 0
}

// ---------------------------------------------------------------- the given API (lean/CtyModel/MpGo.lean)

type muPrim struct {
	lean    string
	args    []muShape
	rets    []muShape // Go results that the translation keeps
	partial bool      // the Lean function returns Res
	state   bool      // acts on the receiver's state: first Lean argument, and first component of the result
	ext     bool      // takes the external functions `E`
	stmt    bool      // only as a statement: the (error) result of the Go call is discarded, and nil in the model
}

var muMethods = map[muShape]map[string]muPrim{
	muRng: {
		"TypeConstraint":    {lean: "MpGo.typeConstraint", rets: []muShape{muTy}},
		"DefinitelyNotNull": {lean: "MpGo.definitelyNotNull", rets: []muShape{muBool}},
		"NumberLowerBound":  {lean: "MpGo.numberLowerBound", rets: []muShape{muVal, muBool}, partial: true},
		"NumberUpperBound":  {lean: "MpGo.numberUpperBound", rets: []muShape{muVal, muBool}, partial: true},
		"StringPrefix":      {lean: "MpGo.stringPrefix", rets: []muShape{muStr}, partial: true},
		"LengthLowerBound":  {lean: "MpGo.lengthLowerBound", rets: []muShape{muInt}, partial: true},
		"LengthUpperBound":  {lean: "MpGo.lengthUpperBound", rets: []muShape{muInt}, partial: true},
	},
	muVal: {
		"IsKnown": {lean: "RefineGo.isKnown", rets: []muShape{muBool}},
		"IsNull":  {lean: "RefineGo.isNull", rets: []muShape{muBool}},
		"Type":    {lean: "RefineGo.typeOf", rets: []muShape{muTy}, partial: true},
		"True":    {lean: "RefineGo.isTrue", rets: []muShape{muBool}, partial: true},
		"Index":   {lean: "MpGo.valIndex", args: []muShape{muVal}, rets: []muShape{muVal}, partial: true},
		"Refine":  {lean: "MpGo.valRefine", rets: []muShape{muBuilder}, partial: true},
	},
	muTy: {
		"IsCollectionType": {lean: "Msgpack.isCollection", rets: []muShape{muBool}},
		"IsListType":       {lean: "RefineGo.isListType", rets: []muShape{muBool}},
		"IsSetType":        {lean: "RefineGo.isSetType", rets: []muShape{muBool}},
		"IsMapType":        {lean: "RefineGo.isMapType", rets: []muShape{muBool}},
	},
	muBuf: {
		"Len":   {lean: "MpGo.bufLen", rets: []muShape{muInt}},
		"Bytes": {lean: "MpGo.bufBytes", rets: []muShape{muBytes}},
	},
	muEnc: {
		"EncodeInt":       {lean: "MpGo.encodeInt", args: []muShape{muI64}, state: true, stmt: true},
		"EncodeBool":      {lean: "MpGo.encodeBool", args: []muShape{muBool}, state: true, stmt: true},
		"EncodeString":    {lean: "MpGo.encodeString", args: []muShape{muStr}, state: true, stmt: true, partial: true},
		"EncodeMapLen":    {lean: "MpGo.encodeMapLen", args: []muShape{muInt}, state: true, stmt: true},
		"EncodeExtHeader": {lean: "MpGo.encodeExtHeader", args: []muShape{muI8, muInt}, rets: []muShape{muErr}, state: true},
	},
	muDec: {
		"DecodeExtHeader": {lean: "MpGo.decodeExtHeader", rets: []muShape{muI8, muInt, muErr}, state: true, partial: true},
	},
	muRDec: {
		"DecodeMapLen": {lean: "MpGo.decodeMapLen", rets: []muShape{muInt, muErr}, state: true, partial: true},
		"DecodeInt64":  {lean: "MpGo.decodeInt64", rets: []muShape{muI64, muErr}, state: true, partial: true},
		"DecodeInt":    {lean: "MpGo.decodeInt", rets: []muShape{muInt, muErr}, state: true, partial: true},
		"DecodeBool":   {lean: "MpGo.decodeBool", rets: []muShape{muBool, muErr}, state: true, partial: true},
		"DecodeString": {lean: "MpGo.decodeString", rets: []muShape{muStr, muErr}, state: true, partial: true},
		"Skip":         {lean: "MpGo.decSkip", rets: []muShape{muErr}, state: true, partial: true},
	},
	muBuilder: {
		"Null":                       {lean: "MpGo.builderNull", rets: []muShape{muBuilder}, partial: true},
		"NotNull":                    {lean: "MpGo.builderNotNull", rets: []muShape{muBuilder}, partial: true},
		"StringPrefixFull":           {lean: "MpGo.builderStringPrefixFull", args: []muShape{muStr}, rets: []muShape{muBuilder}, partial: true, ext: true},
		"CollectionLengthLowerBound": {lean: "MpGo.builderLenLower", args: []muShape{muInt}, rets: []muShape{muBuilder}, partial: true},
		"CollectionLengthUpperBound": {lean: "MpGo.builderLenUpper", args: []muShape{muInt}, rets: []muShape{muBuilder}, partial: true},
		"NumberRangeLowerBound":      {lean: "MpGo.builderNumLower", args: []muShape{muVal, muBool}, rets: []muShape{muBuilder}, partial: true},
		"NumberRangeUpperBound":      {lean: "MpGo.builderNumUpper", args: []muShape{muVal, muBool}, rets: []muShape{muBuilder}, partial: true},
		"NewValue":                   {lean: "MpGo.builderNewValue", rets: []muShape{muVal}, partial: true},
	},
}

// package-level functions
var muFuncs = map[string]muPrim{
	"cty.BoolVal":                {lean: "RefineGo.boolVal", args: []muShape{muBool}, rets: []muShape{muVal}},
	"cty.UnknownVal":             {lean: "RefineGo.unknownVal", args: []muShape{muTy}, rets: []muShape{muVal}},
	"cty.NumberIntVal":           {lean: "RefineGo.numberIntVal", args: []muShape{muI64}, rets: []muShape{muVal}},
	"ctystrings.SafeKnownPrefix": {lean: "MpGo.safeKnownPrefix", args: []muShape{muStr}, rets: []muShape{muStr}, partial: true, ext: true},
	"utf8.ValidString":           {lean: "MpGo.utf8ValidString", args: []muShape{muStr}, rets: []muShape{muBool}},
}

var muTyPrims = map[string]string{"Number": "Ty.isNumber", "String": "Ty.isString", "DynamicPseudoType": "Ty.isDyn", "Bool": "RefineGo.isBool"}
var muTyPrimLean = map[string]string{"Number": "Ty.number", "String": "Ty.string", "DynamicPseudoType": "Ty.dyn", "Bool": "Ty.bool"}
var muValSings = map[string][2]string{ // Go name ↦ Lean value, Lean test
	"NegativeInfinity": {"RefineGo.GoVal.negInf", "RefineGo.isNegInf"},
	"PositiveInfinity": {"RefineGo.GoVal.posInf", "RefineGo.isPosInf"},
	"DynamicVal":       {"MpGo.dynamicVal", "RefineGo.isDynamicVal"},
	"Zero":             {"MpGo.zeroVal", ""},
}

// ---------------------------------------------------------------- translator state

type muVar struct {
	sh    muShape
	lean  string
	scope int
	back  string // for an encoder/decoder made over a buffer: the Go name of the variable that holds its state
}

type muEnv map[string]muVar

func (e muEnv) with(k string, v muVar) muEnv {
	n := make(muEnv, len(e)+1)
	for a, b := range e {
		n[a] = b
	}
	n[k] = v
	return n
}

type muUnit struct {
	name string
	text string
	pos  string
}

type muTr struct {
	files   []*ast.File
	funcs   map[string]*ast.FuncDecl
	consts  map[string]muV
	out     []*muUnit
	helpers []string
	usedAPI map[string]string
}

type muCtx struct {
	t       *muTr
	name    string
	used    map[string]bool
	nk      int
	nscope  int
	nloop   int
	retVal  bool     // results (cty.Value, error); otherwise `error` with the encoder parameter as the out-state
	outEnc  string   // Go name of the encoder parameter
	params  []string // Lean binders of the function (for loop helpers)
	pargs   []string
	recover string // Lean text of the recover handler's result ("" = none)
}

type muV struct {
	e    string
	sh   muShape
	name string // muTyPrim / muValSing: the Go name
}

type muBind struct {
	pat, rhs string
	pure     bool
}

func muWrap(bs []muBind, body string) string {
	for i := len(bs) - 1; i >= 0; i-- {
		if bs[i].pure {
			body = "let " + bs[i].pat + " := " + bs[i].rhs + ";\n" + body
		} else {
			body = "(Res.bind " + bs[i].rhs + " fun " + bs[i].pat + " =>\n" + body + ")"
		}
	}
	return body
}

func (c *muCtx) use(lean, goName string) { c.t.usedAPI[lean] = goName }

func (c *muCtx) fresh(goName string) string {
	n := goName + "_"
	for i := 2; c.used[n]; i++ {
		n = fmt.Sprintf("%s_%d", goName, i)
	}
	c.used[n] = true
	return n
}

func (c *muCtx) tmp(base string) string {
	c.nk++
	return fmt.Sprintf("%s_%d", base, c.nk)
}

func muIntLit(s string) string { return "(" + s + " : Int)" }

// the variable that holds the state of an encoder/decoder variable
func (c *muCtx) stateOf(n ast.Node, name string, en muEnv) muVar {
	v, ok := en[name]
	if !ok {
		dieAt(n, "identifier %s", name)
	}
	if v.back != "" {
		b, ok := en[v.back]
		if !ok {
			dieAt(n, "%s writes to %s, which is out of scope", name, v.back)
		}
		return b
	}
	return v
}

// ---------------------------------------------------------------- statements

func muIsPanic(s ast.Stmt) (*ast.CallExpr, bool) {
	es, ok := s.(*ast.ExprStmt)
	if !ok {
		return nil, false
	}
	call, ok := es.X.(*ast.CallExpr)
	if !ok {
		return nil, false
	}
	id, ok := call.Fun.(*ast.Ident)
	return call, ok && id.Name == "panic"
}

// does every path through the list end in return or panic?  (a loop is taken to fall through)
func muTerminates(list []ast.Stmt) bool {
	if len(list) == 0 {
		return false
	}
	switch s := list[len(list)-1].(type) {
	case *ast.ReturnStmt:
		return true
	case *ast.ExprStmt:
		_, p := muIsPanic(s)
		return p
	case *ast.IfStmt:
		if s.Else == nil || !muTerminates(s.Body.List) {
			return false
		}
		switch e := s.Else.(type) {
		case *ast.BlockStmt:
			return muTerminates(e.List)
		case *ast.IfStmt:
			return muTerminates([]ast.Stmt{e})
		}
		return false
	case *ast.SwitchStmt:
		hasDefault := false
		for _, cl := range s.Body.List {
			cc := cl.(*ast.CaseClause)
			if cc.List == nil {
				hasDefault = true
			}
			if !muTerminates(cc.Body) {
				return false
			}
		}
		return hasDefault
	}
	return false
}

// the variables of `en` that code inside n may rebind: assigned names, and the state of every
// encoder/decoder that is mentioned (an over-approximation, which is harmless)
func (c *muCtx) mutated(n ast.Node, en muEnv) []string {
	set := map[string]bool{}
	ast.Inspect(n, func(x ast.Node) bool {
		switch s := x.(type) {
		case *ast.AssignStmt:
			for _, l := range s.Lhs {
				if id, ok := l.(*ast.Ident); ok {
					if _, ok := en[id.Name]; ok {
						set[id.Name] = true
					}
				}
			}
		case *ast.IncDecStmt:
			if id, ok := s.X.(*ast.Ident); ok {
				if _, ok := en[id.Name]; ok {
					set[id.Name] = true
				}
			}
		case *ast.Ident:
			if v, ok := en[s.Name]; ok && (v.sh == muEnc || v.sh == muDec || v.sh == muRDec) {
				if v.back != "" {
					if _, ok := en[v.back]; ok {
						set[v.back] = true
					}
				} else {
					set[s.Name] = true
				}
			}
		}
		return true
	})
	var vars []string
	for k := range set {
		v := en[k]
		if v.back != "" {
			continue
		}
		vars = append(vars, k)
	}
	sort.Strings(vars)
	return vars
}

func (c *muCtx) join(s ast.Node, nfall int, en muEnv, after func(muEnv) string, gen func(after func(muEnv) string) string) string {
	if nfall < 2 {
		return gen(after)
	}
	vars := c.mutated(s, en)
	kn := c.tmp("k")
	var ps, as []string
	for _, v := range vars {
		if en[v].sh == muPath || en[v].sh == muRng {
			dieAt(s, "assignment to %s", v)
		}
		ps = append(ps, fmt.Sprintf("(%s : %s)", en[v].lean, muLeanType(en[v].sh)))
		as = append(as, en[v].lean)
	}
	if len(ps) == 0 {
		ps, as = []string{"(_ : Unit)"}, []string{"()"}
	}
	callK := "(" + kn + " " + strings.Join(as, " ") + ")"
	body := after(en)
	return fmt.Sprintf("let %s := fun %s =>\n%s;\n%s", kn, strings.Join(ps, " "), indent(body), gen(func(muEnv) string { return callK }))
}

func (c *muCtx) newScope() int { c.nscope++; return c.nscope }

func (c *muCtx) stmts(list []ast.Stmt, en muEnv, sc int, k func(muEnv) string) string {
	if len(list) == 0 {
		return k(en)
	}
	s, rest := list[0], list[1:]
	next := func(e muEnv) string { return c.stmts(rest, e, sc, k) }
	noRest := func() {
		if len(rest) > 0 {
			dieAt(rest[0], "statement after return/panic")
		}
	}
	switch s := s.(type) {
	case *ast.EmptyStmt:
		return next(en)

	case *ast.DeclStmt:
		gd, ok := s.Decl.(*ast.GenDecl)
		if !ok || gd.Tok != token.VAR || len(gd.Specs) != 1 {
			dieAt(s, "declaration %s", src(s))
		}
		vs := gd.Specs[0].(*ast.ValueSpec)
		if vs.Type == nil || len(vs.Values) != 0 || len(vs.Names) != 1 || src(vs.Type) != "bytes.Buffer" {
			dieAt(vs, "var declaration %s (only `var b bytes.Buffer`)", src(vs))
		}
		name := vs.Names[0].Name
		if _, dup := en[name]; dup || name == "_" {
			dieAt(vs, "declaration shadows %s", name)
		}
		ln := c.fresh(name)
		c.use("MpGo.emptyBuf", "var b bytes.Buffer")
		return fmt.Sprintf("let %s : MpGo.Buf := MpGo.emptyBuf;\n", ln) + next(en.with(name, muVar{sh: muBuf, lean: ln, scope: sc}))

	case *ast.AssignStmt:
		return c.assign(s, en, sc, next)

	case *ast.IncDecStmt:
		id, ok := s.X.(*ast.Ident)
		if !ok || s.Tok != token.INC {
			dieAt(s, "statement %s", src(s))
		}
		v, ok := en[id.Name]
		if !ok || v.sh != muInt {
			dieAt(s, "%s++ on something that is not a local int", id.Name)
		}
		return fmt.Sprintf("let %s : Int := (%s + 1);\n", v.lean, v.lean) + next(en)

	case *ast.ExprStmt:
		if call, ok := muIsPanic(s); ok {
			noRest()
			return c.panicText(call)
		}
		call, ok := s.X.(*ast.CallExpr)
		if !ok {
			dieAt(s, "expression statement %s", src(s))
		}
		bs, vs := c.call(call, en, 0, true)
		if len(vs) != 0 {
			dieAt(s, "call statement %s: results discarded", src(s))
		}
		return muWrap(bs, next(en))

	case *ast.ReturnStmt:
		noRest()
		return c.ret(s, en)

	case *ast.IfStmt:
		return c.ifStmt(s, en, sc, next)

	case *ast.SwitchStmt:
		return c.switchStmt(s, en, sc, next)

	case *ast.ForStmt:
		return c.forStmt(s, en, sc, next)

	case *ast.DeferStmt:
		dieAt(s, "defer (only the recover wrapper as the first statement of the function)")
	}
	dieAt(s, "statement %s", strings.SplitN(src(s), "\n", 2)[0])
	return ""
}

func (c *muCtx) panicText(call *ast.CallExpr) string {
	if len(call.Args) != 1 {
		dieAt(call, "panic with %d arguments", len(call.Args))
	}
	bl, ok := call.Args[0].(*ast.BasicLit)
	if !ok || bl.Kind != token.STRING {
		dieAt(call, "panic with a non-literal argument")
	}
	s, err := strconv.Unquote(bl.Value)
	if err != nil {
		dieAt(call, "%v", err)
	}
	return "(Res.panic " + leanStr(s) + ")"
}

// `[init;] cond` of an if: the init statement opens a scope of its own
func (c *muCtx) ifStmt(s *ast.IfStmt, en muEnv, sc int, next func(muEnv) string) string {
	if s.Init != nil {
		inner := c.newScope()
		s2 := *s
		s2.Init = nil
		return c.stmts([]ast.Stmt{s.Init, &s2}, en, inner, func(muEnv) string { return next(en) })
		// NOTE: variables assigned inside travel by Lean rebinding or as k_n parameters; `en` itself never changes shape
	}
	bs, cv := c.expr(s.Cond, en)
	if cv.sh != muBool {
		dieAt(s.Cond, "condition of type %s", muShapeNames[cv.sh])
	}
	nfall := 0
	if !muTerminates(s.Body.List) {
		nfall++
	}
	var elseList []ast.Stmt
	switch e := s.Else.(type) {
	case nil:
		nfall++
	case *ast.BlockStmt:
		elseList = e.List
		if !muTerminates(elseList) {
			nfall++
		}
	case *ast.IfStmt:
		elseList = []ast.Stmt{e}
		if !muTerminates(elseList) {
			nfall++
		}
	default:
		dieAt(s.Else, "else branch")
	}
	return muWrap(bs, c.join(s, nfall, en, next, func(after func(muEnv) string) string {
		out := func(muEnv) string { return after(en) }
		th := c.stmts(s.Body.List, en, c.newScope(), out)
		el := c.stmts(elseList, en, c.newScope(), out)
		return fmt.Sprintf("(if %s then\n%s\nelse\n%s)", cv.e, indent(th), indent(el))
	}))
}

func (c *muCtx) switchStmt(s *ast.SwitchStmt, en muEnv, sc int, next func(muEnv) string) string {
	if s.Init != nil {
		inner := c.newScope()
		s2 := *s
		s2.Init = nil
		return c.stmts([]ast.Stmt{s.Init, &s2}, en, inner, func(muEnv) string { return next(en) })
	}
	var bs []muBind
	var tag *muV
	if s.Tag != nil {
		b, v := c.expr(s.Tag, en)
		bs = b
		if !muIsInt(v.sh) {
			dieAt(s.Tag, "switch over a value of type %s", muShapeNames[v.sh])
		}
		tn := c.tmp("t")
		bs = append(bs, muBind{tn + " : Int", v.e, true})
		tag = &muV{e: tn, sh: v.sh}
	}
	cls := s.Body.List
	defIx := -1
	nfall := 0
	for i, cl := range cls {
		cc := cl.(*ast.CaseClause)
		if cc.List == nil {
			defIx = i
		}
		for _, st := range cc.Body {
			if b, ok := st.(*ast.BranchStmt); ok {
				dieAt(b, "statement %s", src(b))
			}
		}
		if !muTerminates(cc.Body) {
			nfall++
		}
	}
	if defIx < 0 {
		nfall++
	}
	return muWrap(bs, c.join(s, nfall, en, next, func(after func(muEnv) string) string {
		out := func(muEnv) string { return after(en) }
		bodyOf := func(i int) string {
			return c.stmts(cls[i].(*ast.CaseClause).Body, en, c.newScope(), out)
		}
		code := ""
		if defIx >= 0 {
			code = bodyOf(defIx)
		} else {
			code = out(en)
		}
		for i := len(cls) - 1; i >= 0; i-- {
			cc := cls[i].(*ast.CaseClause)
			if cc.List == nil {
				continue
			}
			var conds []string
			for _, l := range cc.List {
				lb, lv := c.expr(l, en)
				if tag == nil {
					if lv.sh != muBool {
						dieAt(l, "case condition of type %s", muShapeNames[lv.sh])
					}
					if len(lb) > 0 && len(cc.List) > 1 {
						dieAt(l, "a partial operation in a case list")
					}
					if len(lb) > 0 {
						// evaluated only when the earlier cases have failed: keep it inside this branch
						code = muWrap(lb, fmt.Sprintf("(if %s then\n%s\nelse\n%s)", lv.e, indent(bodyOf(i)), indent(code)))
						conds = nil
						break
					}
					conds = append(conds, lv.e)
				} else {
					if len(lb) > 0 {
						dieAt(l, "case label with a partial operation")
					}
					conds = append(conds, c.equal(l, *tag, lv))
				}
			}
			if conds == nil {
				continue
			}
			cond := conds[0]
			if len(conds) > 1 {
				cond = "(" + strings.Join(conds, " || ") + ")"
			}
			code = fmt.Sprintf("(if %s then\n%s\nelse\n%s)", cond, indent(bodyOf(i)), indent(code))
		}
		return code
	}))
}

// ---------------------------------------------------------------- assignments and returns

func (c *muCtx) coerce(n ast.Node, v muV, want muShape) string {
	switch {
	case v.sh == want:
		return v.e
	case v.sh == muConst && muIsInt(want):
		return v.e
	case v.sh == muTyPrim && want == muTy:
		return v.e
	case v.sh == muValSing && want == muVal:
		return v.e
	case v.sh == muNil && want == muErr:
		return "(none : MpGo.GoErr)"
	}
	dieAt(n, "a value of type %s where %s is expected", muShapeNames[v.sh], muShapeNames[want])
	return ""
}

// the shape a `:=` gives to its variable
func muDeclShape(n ast.Node, v muV) muShape {
	switch v.sh {
	case muConst:
		return muInt
	case muTyPrim:
		return muTy
	case muValSing:
		return muVal
	case muNil, muPath, muRng, muRecovered:
		dieAt(n, "declaration from a value of type %s", muShapeNames[v.sh])
	}
	return v.sh
}

func (c *muCtx) assign(s *ast.AssignStmt, en muEnv, sc int, next func(muEnv) string) string {
	if s.Tok != token.DEFINE && s.Tok != token.ASSIGN {
		dieAt(s, "assignment operator %s", s.Tok)
	}
	var names []string
	for _, l := range s.Lhs {
		id, ok := l.(*ast.Ident)
		if !ok {
			dieAt(l, "assignment to %s", src(l))
		}
		names = append(names, id.Name)
	}
	var bs []muBind
	var vs []muV
	switch {
	case len(s.Rhs) == len(names) && len(names) > 1:
		for _, r := range s.Rhs {
			b, v := c.expr(r, en)
			if len(b) > 0 {
				dieAt(r, "parallel assignment with an effect or a partial operation")
			}
			vs = append(vs, v)
		}
		// all right-hand sides are evaluated before any assignment: they must not mention the assigned names
		for _, r := range s.Rhs {
			ast.Inspect(r, func(x ast.Node) bool {
				if id, ok := x.(*ast.Ident); ok {
					for _, nm := range names {
						if id.Name == nm {
							dieAt(r, "parallel assignment that reads %s", nm)
						}
					}
				}
				return true
			})
		}
	case len(s.Rhs) != 1:
		dieAt(s, "assignment %s", src(s))
	default:
		if special, ok := c.specialInit(s, names, en, sc, next); ok {
			return special
		}
		if call, ok := s.Rhs[0].(*ast.CallExpr); ok && len(names) > 1 {
			bs, vs = c.call(call, en, len(names), false)
		} else {
			var v muV
			bs, v = c.expr(s.Rhs[0], en)
			vs = []muV{v}
		}
	}
	if len(vs) != len(names) {
		dieAt(s, "%d variables, %d values", len(names), len(vs))
	}
	cur := en
	lets := ""
	for i, name := range names {
		v := vs[i]
		if name == "_" {
			continue
		}
		old, exists := cur[name]
		if s.Tok == token.DEFINE && !(exists && old.scope == sc) {
			sh := muDeclShape(s, v)
			if sh == muEnc || sh == muDec || sh == muRDec || sh == muBuf {
				dieAt(s, "alias of %s", src(s.Rhs[0]))
			}
			ln := c.fresh(name)
			cur = cur.with(name, muVar{sh: sh, lean: ln, scope: sc})
			lets += fmt.Sprintf("let %s : %s := %s;\n", ln, muLeanType(sh), v.e)
		} else {
			if !exists {
				dieAt(s, "assignment to %s, which is not a local variable", name)
			}
			if old.sh == muPath || old.sh == muRng || old.sh == muEnc || old.sh == muDec || old.sh == muRDec || old.sh == muBuf || old.sh == muBytes {
				dieAt(s, "assignment to %s", name)
			}
			lets += fmt.Sprintf("let %s : %s := %s;\n", old.lean, muLeanType(old.sh), c.coerce(s.Rhs[0], v, old.sh))
		}
	}
	return muWrap(bs, lets+next(cur))
}

// x := msgpack.NewEncoder(&buf) | x := msgpack.NewDecoder(bytes.NewReader(body)) | body := make([]byte, n)
func (c *muCtx) specialInit(s *ast.AssignStmt, names []string, en muEnv, sc int, next func(muEnv) string) (string, bool) {
	call, ok := s.Rhs[0].(*ast.CallExpr)
	if !ok || len(names) != 1 {
		return "", false
	}
	fn := src(call.Fun)
	if fn != "msgpack.NewEncoder" && fn != "msgpack.NewDecoder" && fn != "make" {
		return "", false
	}
	name := names[0]
	if _, local := en["msgpack"]; local {
		dieAt(s, "msgpack is a local variable")
	}
	if s.Tok != token.DEFINE || name == "_" {
		dieAt(s, "%s outside a declaration", fn)
	}
	if _, dup := en[name]; dup {
		dieAt(s, "declaration shadows %s", name)
	}
	switch fn {
	case "msgpack.NewEncoder":
		if len(call.Args) != 1 {
			dieAt(call, "NewEncoder with %d arguments", len(call.Args))
		}
		u, ok := call.Args[0].(*ast.UnaryExpr)
		var id *ast.Ident
		if ok && u.Op == token.AND {
			id, ok = u.X.(*ast.Ident)
		}
		if !ok || en[id.Name].sh != muBuf {
			dieAt(call, "NewEncoder over %s (only the address of a local bytes.Buffer)", src(call.Args[0]))
		}
		for _, v := range en {
			if v.back == id.Name {
				dieAt(call, "a second encoder over %s", id.Name)
			}
		}
		return next(en.with(name, muVar{sh: muEnc, scope: sc, back: id.Name})), true
	case "msgpack.NewDecoder":
		if len(call.Args) != 1 {
			dieAt(call, "NewDecoder with %d arguments", len(call.Args))
		}
		inner, ok := call.Args[0].(*ast.CallExpr)
		if !ok || src(inner.Fun) != "bytes.NewReader" || len(inner.Args) != 1 {
			dieAt(call, "NewDecoder over %s (only bytes.NewReader(body))", src(call.Args[0]))
		}
		id, ok := inner.Args[0].(*ast.Ident)
		if !ok || en[id.Name].sh != muBytes {
			dieAt(call, "bytes.NewReader(%s): not an extension body", src(inner.Args[0]))
		}
		ln := c.fresh(name)
		c.use("MpGo.newBodyDecoder", "msgpack.NewDecoder(bytes.NewReader(body))")
		return fmt.Sprintf("let %s : MpGo.RDec := (MpGo.newBodyDecoder %s);\n", ln, en[id.Name].lean) +
			next(en.with(name, muVar{sh: muRDec, lean: ln, scope: sc})), true
	case "make":
		if len(call.Args) != 2 || src(call.Args[0]) != "[]byte" {
			dieAt(call, "%s (only make([]byte, n))", src(call))
		}
		bs, n := c.expr(call.Args[1], en)
		if n.sh != muInt {
			dieAt(call, "make([]byte, n) with n of type %s", muShapeNames[n.sh])
		}
		ln := c.fresh(name)
		c.use("MpGo.makeBytes", "make([]byte, n)")
		bs = append(bs, muBind{ln, "(MpGo.makeBytes " + n.e + ")", false})
		return muWrap(bs, next(en.with(name, muVar{sh: muBytes, lean: ln, scope: sc}))), true
	}
	return "", false
}

// path.NewErrorf("…", pure args) | path.NewError(err): the Lean text of the message
func (c *muCtx) errorText(e ast.Expr, en muEnv) (string, bool) {
	call, ok := e.(*ast.CallExpr)
	if !ok {
		return "", false
	}
	f, ok := call.Fun.(*ast.SelectorExpr)
	if !ok {
		return "", false
	}
	id, ok := f.X.(*ast.Ident)
	if !ok || en[id.Name].sh != muPath || call.Ellipsis.IsValid() {
		return "", false
	}
	switch f.Sel.Name {
	case "NewErrorf":
		if len(call.Args) == 0 {
			dieAt(call, "NewErrorf without a format")
		}
		bl, ok := call.Args[0].(*ast.BasicLit)
		if !ok || bl.Kind != token.STRING {
			dieAt(call, "NewErrorf with a non-literal format")
		}
		format, err := strconv.Unquote(bl.Value)
		if err != nil {
			dieAt(call, "%v", err)
		}
		for _, a := range call.Args[1:] {
			aid, ok := a.(*ast.Ident)
			if !ok {
				dieAt(a, "error argument %s (only local variables)", src(a))
			}
			if _, ok := en[aid.Name]; !ok {
				dieAt(a, "error argument %s", src(a))
			}
		}
		c.use("MpGo.newErrorf", "cty.Path.NewErrorf")
		return "(MpGo.newErrorf " + leanStr(format) + ")", true
	case "NewError":
		if len(call.Args) != 1 {
			dieAt(call, "NewError with %d arguments", len(call.Args))
		}
		aid, ok := call.Args[0].(*ast.Ident)
		if !ok || en[aid.Name].sh != muErr {
			dieAt(call, "NewError(%s): not a local error", src(call.Args[0]))
		}
		c.use("MpGo.newError", "cty.Path.NewError")
		return "(MpGo.newError " + en[aid.Name].lean + ")", true
	}
	return "", false
}

func (c *muCtx) ret(s *ast.ReturnStmt, en muEnv) string {
	isNil := func(e ast.Expr) bool {
		id, ok := e.(*ast.Ident)
		_, local := en["nil"]
		return ok && id.Name == "nil" && !local
	}
	if !c.retVal {
		if len(s.Results) != 1 {
			dieAt(s, "return with %d results", len(s.Results))
		}
		if isNil(s.Results[0]) {
			return "(Res.ok " + en[c.outEnc].lean + ")"
		}
		if t, ok := c.errorText(s.Results[0], en); ok {
			return "(Res.err " + t + ")"
		}
		dieAt(s, "return %s", src(s.Results[0]))
	}
	if len(s.Results) != 2 {
		dieAt(s, "return with %d results (named results are assigned only by the recover wrapper)", len(s.Results))
	}
	bs, v := c.expr(s.Results[0], en)
	val := c.coerce(s.Results[0], v, muVal)
	if isNil(s.Results[1]) {
		return muWrap(bs, "(Res.ok "+val+")")
	}
	if t, ok := c.errorText(s.Results[1], en); ok {
		// the value returned next to an error is dropped; it must not be able to panic
		if len(bs) > 0 {
			dieAt(s.Results[0], "a partial operation next to a returned error")
		}
		return "(Res.err " + t + ")"
	}
	dieAt(s, "return %s", src(s.Results[1]))
	return ""
}

// ---------------------------------------------------------------- expressions

func (c *muCtx) isPkg(name string, en muEnv) bool {
	_, local := en[name]
	return !local
}

func (c *muCtx) expr(e ast.Expr, en muEnv) ([]muBind, muV) {
	switch x := e.(type) {
	case *ast.ParenExpr:
		return c.expr(x.X, en)
	case *ast.Ident:
		if v, ok := en[x.Name]; ok {
			switch v.sh {
			case muPath:
				dieAt(e, "use of the erased path %s", x.Name)
			case muEnc, muDec, muRDec:
				dieAt(e, "%s used as a value (aliasing is not modelled)", x.Name)
			}
			return nil, muV{e: v.lean, sh: v.sh}
		}
		switch x.Name {
		case "true", "false":
			return nil, muV{e: x.Name, sh: muBool}
		case "nil":
			return nil, muV{e: "()", sh: muNil}
		}
		if k, ok := c.t.consts[x.Name]; ok {
			return nil, k
		}
		dieAt(e, "identifier %s", x.Name)
	case *ast.BasicLit:
		switch x.Kind {
		case token.INT:
			v, ok := new(big.Int).SetString(x.Value, 0)
			if !ok {
				dieAt(e, "integer literal %s", x.Value)
			}
			return nil, muV{e: muIntLit(v.String()), sh: muConst}
		case token.STRING:
			s, err := strconv.Unquote(x.Value)
			if err != nil {
				dieAt(e, "%v", err)
			}
			c.use("MpGo.strLit", "string literals")
			return nil, muV{e: "(MpGo.strLit " + leanStr(s) + ")", sh: muStr}
		}
		dieAt(e, "literal %s", x.Value)
	case *ast.SelectorExpr:
		id, ok := x.X.(*ast.Ident)
		if !ok || !c.isPkg(id.Name, en) {
			dieAt(e, "selector %s", src(e))
		}
		switch id.Name {
		case "math":
			if x.Sel.Name == "MaxInt" {
				// int is 64 bits wide on the platforms the model describes (Refine.maxInt)
				return nil, muV{e: muIntLit("9223372036854775807"), sh: muConst}
			}
		case "cty":
			if l, ok := muTyPrimLean[x.Sel.Name]; ok {
				return nil, muV{e: l, sh: muTyPrim, name: x.Sel.Name}
			}
			if l, ok := muValSings[x.Sel.Name]; ok {
				c.use(l[0], "cty."+x.Sel.Name)
				return nil, muV{e: l[0], sh: muValSing, name: x.Sel.Name}
			}
		}
		dieAt(e, "name %s", src(e))
	case *ast.UnaryExpr:
		bs, v := c.expr(x.X, en)
		if x.Op == token.NOT {
			if v.sh != muBool {
				dieAt(e, "! of %s", muShapeNames[v.sh])
			}
			return bs, muV{e: "(!" + v.e + ")", sh: muBool}
		}
		dieAt(e, "unary %s", x.Op)
	case *ast.BinaryExpr:
		return c.binary(x, en)
	case *ast.SliceExpr:
		if x.Low != nil || x.High == nil || x.Slice3 {
			dieAt(e, "slice expression %s (only s[:n])", src(e))
		}
		bs, s := c.expr(x.X, en)
		b2, n := c.expr(x.High, en)
		if s.sh != muStr || !(n.sh == muInt || n.sh == muConst) {
			dieAt(e, "slice of %s by %s", muShapeNames[s.sh], muShapeNames[n.sh])
		}
		tmp := c.tmp("x")
		c.use("MpGo.strSliceTo", "s[:n] on a string")
		bs = append(append(bs, b2...), muBind{tmp, "(MpGo.strSliceTo " + s.e + " " + n.e + ")", false})
		return bs, muV{e: tmp, sh: muStr}
	case *ast.CallExpr:
		bs, vs := c.call(x, en, 1, false)
		return bs, vs[0]
	}
	dieAt(e, "expression %s", src(e))
	return nil, muV{}
}

func (c *muCtx) equal(n ast.Node, a, b muV) string {
	switch {
	case muIsInt(a.sh) && muIsInt(b.sh) && (a.sh == b.sh || a.sh == muConst || b.sh == muConst):
		return "(decide (" + a.e + " = " + b.e + "))"
	case a.sh == muBool && b.sh == muBool:
		return "(" + a.e + " == " + b.e + ")"
	case a.sh == muStr && b.sh == muStr:
		c.use("MpGo.strEq", "== on strings")
		return "(MpGo.strEq " + a.e + " " + b.e + ")"
	case a.sh == muTyPrim && b.sh == muTy:
		return c.equal(n, b, a)
	case a.sh == muTy && b.sh == muTyPrim:
		t, ok := muTyPrims[b.name]
		if !ok {
			dieAt(n, "comparison with cty.%s", b.name)
		}
		return "(" + t + " " + a.e + ")"
	case a.sh == muValSing && b.sh == muVal:
		return c.equal(n, b, a)
	case a.sh == muVal && b.sh == muValSing:
		t := muValSings[b.name][1]
		if t == "" {
			dieAt(n, "comparison with cty.%s", b.name)
		}
		c.use(t, "== cty."+b.name+" (Go struct equality: pointer identity of the payload)")
		return "(" + t + " " + a.e + ")"
	case a.sh == muNil && b.sh == muErr:
		return c.equal(n, b, a)
	case a.sh == muErr && b.sh == muNil:
		return "(Option.isNone " + a.e + ")"
	}
	dieAt(n, "comparison of %s with %s", muShapeNames[a.sh], muShapeNames[b.sh])
	return ""
}

func (c *muCtx) binary(x *ast.BinaryExpr, en muEnv) ([]muBind, muV) {
	lb, l := c.expr(x.X, en)
	rb, r := c.expr(x.Y, en)
	intsOK := muIsInt(l.sh) && muIsInt(r.sh) && (l.sh == r.sh || l.sh == muConst || r.sh == muConst)
	switch x.Op {
	case token.LAND, token.LOR:
		if l.sh != muBool || r.sh != muBool {
			dieAt(x, "%s of non-booleans", x.Op)
		}
		if len(rb) > 0 {
			// the right operand is evaluated only if the left one does not decide
			tmp := c.tmp("b")
			short := "true"
			cond := l.e
			if x.Op == token.LAND {
				short = "false"
				cond = "(!" + l.e + ")"
			}
			lb = append(lb, muBind{tmp, "(if " + cond + " then (Res.ok " + short + ") else\n" + indent(muWrap(rb, "(Res.ok "+r.e+")")) + ")", false})
			return lb, muV{e: tmp, sh: muBool}
		}
		return lb, muV{e: "(" + l.e + " " + x.Op.String() + " " + r.e + ")", sh: muBool}
	case token.EQL:
		return append(lb, rb...), muV{e: c.equal(x, l, r), sh: muBool}
	case token.NEQ:
		return append(lb, rb...), muV{e: "(!" + c.equal(x, l, r) + ")", sh: muBool}
	case token.LSS, token.LEQ, token.GTR, token.GEQ:
		if !intsOK {
			dieAt(x, "ordering of %s and %s", muShapeNames[l.sh], muShapeNames[r.sh])
		}
		op := map[token.Token]string{token.LSS: "<", token.LEQ: "≤", token.GTR: ">", token.GEQ: "≥"}[x.Op]
		return append(lb, rb...), muV{e: "(decide (" + l.e + " " + op + " " + r.e + "))", sh: muBool}
	case token.ADD, token.SUB:
		if !intsOK || l.sh == muI8 || l.sh == muKey {
			dieAt(x, "%s of %s and %s", x.Op, muShapeNames[l.sh], muShapeNames[r.sh])
		}
		sh := l.sh
		if sh == muConst {
			sh = r.sh
		}
		return append(lb, rb...), muV{e: "(" + l.e + " " + x.Op.String() + " " + r.e + ")", sh: sh}
	}
	dieAt(x, "operator %s", x.Op)
	return nil, muV{}
}

// ---------------------------------------------------------------- calls

// []T{a, b, …} as a Lean list of values of shape `elem`
func (c *muCtx) sliceLit(e ast.Expr, elemType string, elem muShape, en muEnv) ([]muBind, string) {
	cl, ok := e.(*ast.CompositeLit)
	if !ok || src(cl.Type) != "[]"+elemType {
		dieAt(e, "%s (only a []%s literal)", src(e), elemType)
	}
	var bs []muBind
	var items []string
	for _, el := range cl.Elts {
		b, v := c.expr(el, en)
		bs = append(bs, b...)
		items = append(items, c.coerce(el, v, elem))
	}
	return bs, "[" + strings.Join(items, ", ") + "]"
}

// the results of a stateful primitive: `r` is the tuple (state, results…)
func muProj(r string, n int) []string {
	switch n {
	case 1:
		return []string{r + ".2"}
	case 2:
		return []string{r + ".2.1", r + ".2.2"}
	case 3:
		return []string{r + ".2.1", r + ".2.2.1", r + ".2.2.2"}
	}
	panic("muProj")
}

// applies a primitive: `state` is the variable it acts on (nil for a pure one), `recv` an extra first argument
func (c *muCtx) apply(call *ast.CallExpr, goName string, p muPrim, state *muVar, recv string, argExprs []ast.Expr, en muEnv, want int, stmt bool, bs []muBind) ([]muBind, []muV) {
	if call.Ellipsis.IsValid() {
		dieAt(call, "variadic call")
	}
	if len(argExprs) != len(p.args) {
		dieAt(call, "%s with %d arguments", goName, len(argExprs))
	}
	if p.stmt != stmt {
		if p.stmt {
			dieAt(call, "the result of %s is used (the model has no write errors for an in-memory encoder)", goName)
		}
		dieAt(call, "%s as a statement: its results are discarded", goName)
	}
	if !stmt && len(p.rets) != want {
		dieAt(call, "%s has %d results, %d wanted", goName, len(p.rets), want)
	}
	args := []string{}
	if p.ext {
		args = append(args, "E")
	}
	if state != nil {
		args = append(args, state.lean)
	}
	if recv != "" {
		args = append(args, recv)
	}
	for i, a := range argExprs {
		b, v := c.expr(a, en)
		bs = append(bs, b...)
		args = append(args, c.coerce(a, v, p.args[i]))
	}
	c.use(p.lean, goName)
	text := "(" + p.lean + " " + strings.Join(args, " ") + ")"
	if state != nil && len(p.rets) == 0 {
		bs = append(bs, muBind{state.lean, text, !p.partial})
		return bs, nil
	}
	r := text
	if p.partial || state != nil || len(p.rets) > 1 {
		r = c.tmp("r")
		bs = append(bs, muBind{r, text, !p.partial})
	}
	var outs []string
	if state != nil {
		bs = append(bs, muBind{state.lean, r + ".1", true})
		outs = muProj(r, len(p.rets))
	} else if len(p.rets) == 1 {
		outs = []string{r}
	} else {
		outs = []string{r + ".1", r + ".2"}
		if len(p.rets) != 2 {
			panic("apply: arity")
		}
	}
	var vs []muV
	for i, sh := range p.rets {
		vs = append(vs, muV{e: outs[i], sh: sh})
	}
	return bs, vs
}

func (c *muCtx) call(call *ast.CallExpr, en muEnv, want int, stmt bool) ([]muBind, []muV) {
	switch f := call.Fun.(type) {
	case *ast.Ident:
		if !c.isPkg(f.Name, en) {
			dieAt(call, "call of the local %s", f.Name)
		}
		switch f.Name {
		case "int64", "int", "unknownValRefinementKey":
			if len(call.Args) != 1 || want != 1 {
				dieAt(call, "conversion %s", src(call))
			}
			to := map[string]muShape{"int64": muI64, "int": muInt, "unknownValRefinementKey": muKey}[f.Name]
			bs, v := c.expr(call.Args[0], en)
			// int, int64 and unknownValRefinementKey are all 64 bits wide on the platforms the model describes: no wrap-around
			if !(v.sh == muInt || v.sh == muI64 || v.sh == muKey || v.sh == muConst) {
				dieAt(call, "conversion %s of a value of type %s", f.Name, muShapeNames[v.sh])
			}
			return bs, []muV{{e: v.e, sh: to}}
		case "len":
			if len(call.Args) != 1 || want != 1 {
				dieAt(call, "%s", src(call))
			}
			bs, v := c.expr(call.Args[0], en)
			if v.sh != muStr {
				dieAt(call, "len of a value of type %s", muShapeNames[v.sh])
			}
			c.use("MpGo.strLen", "len(s) on a string")
			return bs, []muV{{e: "(MpGo.strLen " + v.e + ")", sh: muInt}}
		case "marshal":
			// marshal(val, ty, nil, enc): the nested encoder call; its error result is discarded by the source
			c.t.checkOutsideFile(call, "marshal")
			if !stmt || len(call.Args) != 4 {
				dieAt(call, "%s (only as a statement with four arguments)", src(call))
			}
			if id, ok := call.Args[2].(*ast.Ident); !ok || id.Name != "nil" {
				dieAt(call.Args[2], "marshal with a path other than nil")
			}
			eid, ok := call.Args[3].(*ast.Ident)
			if !ok || en[eid.Name].sh != muEnc {
				dieAt(call.Args[3], "marshal into %s", src(call.Args[3]))
			}
			sv := c.stateOf(call, eid.Name, en)
			p := muPrim{lean: "MpGo.marshalStmt", args: []muShape{muVal, muTy}, state: true, stmt: true, partial: true, ext: true}
			return c.apply(call, "marshal(val, ty, nil, enc) as a statement", p, &sv, "", call.Args[:2], en, 0, true, nil)
		case "unmarshal":
			c.t.checkOutsideFile(call, "unmarshal")
			if len(call.Args) != 3 {
				dieAt(call, "%s", src(call))
			}
			if id, ok := call.Args[2].(*ast.Ident); !ok || id.Name != "nil" {
				dieAt(call.Args[2], "unmarshal with a path other than nil")
			}
			did, ok := call.Args[0].(*ast.Ident)
			if !ok || en[did.Name].sh != muRDec {
				dieAt(call.Args[0], "unmarshal from %s", src(call.Args[0]))
			}
			sv := c.stateOf(call, did.Name, en)
			p := muPrim{lean: "MpGo.unmarshalNested", args: []muShape{muTy}, rets: []muShape{muVal, muErr}, state: true, partial: true, ext: true}
			return c.apply(call, "unmarshal(dec, ty, nil)", p, &sv, "", call.Args[1:2], en, want, stmt, nil)
		}
		dieAt(call, "call of %s", f.Name)
	case *ast.SelectorExpr:
		// enc.Writer().Write(bytes)
		if inner, ok := f.X.(*ast.CallExpr); ok && f.Sel.Name == "Write" {
			if is, ok := inner.Fun.(*ast.SelectorExpr); ok && is.Sel.Name == "Writer" && len(inner.Args) == 0 {
				if id, ok := is.X.(*ast.Ident); ok && en[id.Name].sh == muEnc {
					sv := c.stateOf(call, id.Name, en)
					p := muPrim{lean: "MpGo.writerWrite", args: []muShape{muBytes}, rets: []muShape{muInt, muErr}, state: true}
					return c.apply(call, "enc.Writer().Write(b)", p, &sv, "", call.Args, en, want, stmt, nil)
				}
			}
		}
		if id, ok := f.X.(*ast.Ident); ok && c.isPkg(id.Name, en) {
			full := id.Name + "." + f.Sel.Name
			switch full {
			case "cty.Tuple":
				if len(call.Args) != 1 || want != 1 {
					dieAt(call, "%s", src(call))
				}
				bs, l := c.sliceLit(call.Args[0], "cty.Type", muTy, en)
				return bs, []muV{{e: "(Ty.tuple " + l + ")", sh: muTy}}
			case "cty.TupleVal":
				if len(call.Args) != 1 || want != 1 {
					dieAt(call, "%s", src(call))
				}
				bs, l := c.sliceLit(call.Args[0], "cty.Value", muVal, en)
				tmp := c.tmp("x")
				c.use("MpGo.tupleVal", "cty.TupleVal")
				bs = append(bs, muBind{tmp, "(MpGo.tupleVal " + l + ")", false})
				return bs, []muV{{e: tmp, sh: muVal}}
			case "io.ReadAtLeast":
				// io.ReadAtLeast(dec.Buffered(), body, len(body)): the extension body, whole
				if len(call.Args) != 3 {
					dieAt(call, "%s", src(call))
				}
				bid, ok := call.Args[1].(*ast.Ident)
				if !ok || en[bid.Name].sh != muBytes || src(call.Args[2]) != "len("+bid.Name+")" {
					dieAt(call, "%s (only io.ReadAtLeast(dec.Buffered(), body, len(body)))", src(call))
				}
				bc, ok := call.Args[0].(*ast.CallExpr)
				var did *ast.Ident
				if ok && len(bc.Args) == 0 {
					if bs, ok2 := bc.Fun.(*ast.SelectorExpr); ok2 && bs.Sel.Name == "Buffered" {
						did, _ = bs.X.(*ast.Ident)
					}
				}
				if did == nil || en[did.Name].sh != muDec {
					dieAt(call, "%s (only io.ReadAtLeast(dec.Buffered(), body, len(body)))", src(call))
				}
				sv := c.stateOf(call, did.Name, en)
				body := en[bid.Name]
				p := muPrim{lean: "MpGo.readBody", rets: []muShape{muBytes, muInt, muErr}, state: true, partial: true}
				bs, vs := c.apply(call, "io.ReadAtLeast(dec.Buffered(), body, len(body))", p, &sv, body.lean, nil, en, want+1, stmt, nil)
				// the first result is the new content of `body`
				bs = append(bs, muBind{body.lean, vs[0].e, true})
				return bs, vs[1:]
			}
			if p, ok := muFuncs[full]; ok {
				return c.apply(call, full, p, nil, "", call.Args, en, want, stmt, nil)
			}
			dieAt(call, "call of %s", full)
		}
		// methods
		if id, ok := f.X.(*ast.Ident); ok {
			v, ok := en[id.Name]
			if ok && (v.sh == muEnc || v.sh == muDec || v.sh == muRDec) {
				if v.sh == muEnc && f.Sel.Name == "Encode" {
					if len(call.Args) != 1 || src(call.Args[0]) != "unknownVal" || !c.isPkg("unknownVal", en) {
						dieAt(call, "%s (only Encode(unknownVal))", src(call))
					}
					c.t.checkUnknownVal(call)
					sv := c.stateOf(call, id.Name, en)
					p := muPrim{lean: "MpGo.encodeUnknownVal", rets: []muShape{muErr}, state: true}
					return c.apply(call, "enc.Encode(unknownVal)", p, &sv, "", nil, en, want, stmt, nil)
				}
				p, ok := muMethods[v.sh][f.Sel.Name]
				if !ok {
					dieAt(call, "method %s of %s is not in the given API", f.Sel.Name, muShapeNames[v.sh])
				}
				sv := c.stateOf(call, id.Name, en)
				return c.apply(call, muShapeNames[v.sh]+"."+f.Sel.Name, p, &sv, "", call.Args, en, want, stmt, nil)
			}
		}
		bs, recv := c.expr(f.X, en)
		tbl, ok := muMethods[recv.sh]
		if !ok {
			dieAt(call, "method %s of a value of type %s", f.Sel.Name, muShapeNames[recv.sh])
		}
		p, ok := tbl[f.Sel.Name]
		if !ok {
			dieAt(call, "method %s of %s is not in the given API", f.Sel.Name, muShapeNames[recv.sh])
		}
		return c.apply(call, muShapeNames[recv.sh]+"."+f.Sel.Name, p, nil, recv.e, call.Args, en, want, stmt, bs)
	}
	dieAt(call, "call %s", src(call.Fun))
	return nil, nil
}

// marshal/unmarshal must be functions of the package defined OUTSIDE unknown.go (they are the given API)
func (t *muTr) checkOutsideFile(at ast.Node, name string) {
	if _, here := t.funcs[name]; here {
		dieAt(at, "%s is defined in %s itself", name, muFile)
	}
	for _, f := range t.files {
		for _, d := range f.Decls {
			if fd, ok := d.(*ast.FuncDecl); ok && fd.Recv == nil && fd.Name.Name == name {
				return
			}
		}
	}
	dieAt(at, "function %s not found in cty/msgpack", name)
}

// enc.Encode(unknownVal) writes unknownValBytes = {0xd4, 0, 0}: the three declarations must still say so
func (t *muTr) checkUnknownVal(at ast.Node) {
	want := map[string]string{"unknownVal": "unknownType{}", "unknownValBytes": "[]byte{0xd4, 0, 0}"}
	found := 0
	for _, f := range t.files {
		for _, d := range f.Decls {
			switch x := d.(type) {
			case *ast.GenDecl:
				if x.Tok != token.VAR {
					continue
				}
				for _, sp := range x.Specs {
					vs := sp.(*ast.ValueSpec)
					for i, id := range vs.Names {
						if w, ok := want[id.Name]; ok {
							if i >= len(vs.Values) || src(vs.Values[i]) != w {
								dieAt(vs, "%s is no longer defined as %s", id.Name, w)
							}
							found++
						}
					}
				}
			case *ast.FuncDecl:
				if x.Name.Name == "MarshalMsgpack" && x.Recv != nil && src(x.Recv.List[0].Type) == "unknownType" {
					if len(x.Body.List) != 1 || src(x.Body.List[0]) != "return unknownValBytes, nil" {
						dieAt(x, "unknownType.MarshalMsgpack no longer returns unknownValBytes")
					}
					found++
				}
			}
		}
	}
	if found != 3 {
		dieAt(at, "unknownVal / unknownValBytes / unknownType.MarshalMsgpack not found")
	}
}

// ---------------------------------------------------------------- loops

// for i := a; i < n; i++ { body }  with i and n not assigned in the body: (n - a) iterations if that is positive
func (c *muCtx) forStmt(s *ast.ForStmt, en muEnv, sc int, next func(muEnv) string) string {
	init, ok := s.Init.(*ast.AssignStmt)
	if !ok || init.Tok != token.DEFINE || len(init.Lhs) != 1 || len(init.Rhs) != 1 {
		dieAt(s, "for loop (only `for i := a; i < n; i++`)")
	}
	iv, ok := init.Lhs[0].(*ast.Ident)
	if !ok || iv.Name == "_" {
		dieAt(s, "for loop (only `for i := a; i < n; i++`)")
	}
	if _, dup := en[iv.Name]; dup {
		dieAt(init, "loop variable shadows %s", iv.Name)
	}
	cond, ok := s.Cond.(*ast.BinaryExpr)
	post, ok2 := s.Post.(*ast.IncDecStmt)
	if !ok || !ok2 || cond.Op != token.LSS || src(cond.X) != iv.Name || post.Tok != token.INC || src(post.X) != iv.Name {
		dieAt(s, "for loop (only `for i := a; i < n; i++`)")
	}
	nid, ok := cond.Y.(*ast.Ident)
	if !ok || en[nid.Name].sh != muInt {
		dieAt(cond.Y, "loop bound %s (only a local int)", src(cond.Y))
	}
	ib, i0 := c.expr(init.Rhs[0], en)
	if len(ib) > 0 || !(i0.sh == muConst || i0.sh == muInt) {
		dieAt(init, "loop start %s", src(init.Rhs[0]))
	}
	ast.Inspect(s.Body, func(x ast.Node) bool {
		switch b := x.(type) {
		case *ast.BranchStmt:
			dieAt(b, "statement %s inside a loop", src(b))
		case *ast.LabeledStmt:
			dieAt(b, "label inside a loop")
		case *ast.ForStmt, *ast.RangeStmt:
			dieAt(b, "nested loop")
		case *ast.FuncLit:
			dieAt(b, "closure")
		}
		return true
	})
	inner := c.newScope()
	il := c.fresh(iv.Name)
	benv := en.with(iv.Name, muVar{sh: muInt, lean: il, scope: inner})
	vars := c.mutated(s.Body, benv)
	for _, v := range vars {
		if v == iv.Name || v == nid.Name {
			dieAt(s, "the loop body assigns %s", v)
		}
	}
	isMut := map[string]bool{}
	for _, v := range vars {
		isMut[v] = true
	}
	var invNames []string
	for k, v := range en {
		if v.back != "" || v.sh == muPath || isMut[k] {
			continue
		}
		invNames = append(invNames, k)
	}
	sort.Strings(invNames)
	c.nloop++
	hn := fmt.Sprintf("%s_loop_%d", c.name, c.nloop)
	var hps, hargs, kty, mps, margs []string
	hps = append(hps, c.params...)
	hargs = append(hargs, c.pargs...)
	seen := map[string]bool{}
	for _, a := range c.pargs {
		seen[a] = true
	}
	for _, k := range invNames {
		v := en[k]
		if seen[v.lean] {
			continue
		}
		hps = append(hps, fmt.Sprintf("(%s : %s)", v.lean, muLeanType(v.sh)))
		hargs = append(hargs, v.lean)
	}
	for _, k := range vars {
		v := en[k]
		if seen[v.lean] {
			dieAt(s, "the loop assigns the parameter %s", k)
		}
		kty = append(kty, muLeanType(v.sh))
		mps = append(mps, fmt.Sprintf("(%s : %s)", v.lean, muLeanType(v.sh)))
		margs = append(margs, v.lean)
	}
	res := "Res " + c.resType()
	ktype := strings.Join(append(kty, res), " → ")
	recur := fmt.Sprintf("(%s %s k_after fuel (%s + 1) %s)", hn, strings.Join(hargs, " "), il, strings.Join(margs, " "))
	body := c.stmts(s.Body.List, benv, inner, func(muEnv) string { return recur })
	kcall := "(k_after " + strings.Join(margs, " ") + ")"
	if len(margs) == 0 {
		dieAt(s, "a loop without effect")
	}
	p0, p1 := fset.Position(s.Pos()), fset.Position(s.End())
	helper := fmt.Sprintf("/-- the `for` loop of `%s` (%s:%d-%d): `fuel` iterations left, `k_after` the code after the loop -/\ndef %s %s (k_after : %s) (fuel : Nat) (%s : Int) %s : %s :=\n  match fuel with\n  | 0 => %s\n  | fuel + 1 =>\n%s\n",
		c.name, muFile, p0.Line, p1.Line, hn, strings.Join(hps, " "), ktype, il, strings.Join(mps, " "), res, kcall, indent(indent(body)))
	c.t.helpers = append(c.t.helpers, helper)
	after := next(en)
	return fmt.Sprintf("(%s %s (fun %s =>\n%s) (Int.toNat (%s - %s)) %s %s)", hn, strings.Join(hargs, " "), strings.Join(mps, " "), indent(after),
		en[nid.Name].lean, i0.e, i0.e, strings.Join(margs, " "))
}

func (c *muCtx) resType() string {
	if c.retVal {
		return "RefineGo.GoVal"
	}
	return "MpGo.Buf"
}

// ---------------------------------------------------------------- functions

// defer func() { if r := recover(); r != nil { ret = <value>; err = path.NewErrorf(…) } }()
func (c *muCtx) recoverWrapper(d *ast.DeferStmt, en muEnv, results []string) string {
	bad := func() {
		dieAt(d, "defer (only `defer func() { if r := recover(); r != nil { ret = …; err = path.NewErrorf(…) } }()`)")
	}
	fl, ok := d.Call.Fun.(*ast.FuncLit)
	if !ok || len(d.Call.Args) != 0 || len(fl.Type.Params.List) != 0 || fl.Type.Results != nil || len(fl.Body.List) != 1 || len(results) != 2 {
		bad()
	}
	is, ok := fl.Body.List[0].(*ast.IfStmt)
	if !ok || is.Else != nil || is.Init == nil || len(is.Body.List) != 2 {
		bad()
	}
	in, ok := is.Init.(*ast.AssignStmt)
	if !ok || in.Tok != token.DEFINE || len(in.Lhs) != 1 || len(in.Rhs) != 1 || src(in.Rhs[0]) != "recover()" {
		bad()
	}
	r := src(in.Lhs[0])
	if _, dup := en[r]; dup || src(is.Cond) != r+" != nil" {
		bad()
	}
	a1, ok1 := is.Body.List[0].(*ast.AssignStmt)
	a2, ok2 := is.Body.List[1].(*ast.AssignStmt)
	if !ok1 || !ok2 || a1.Tok != token.ASSIGN || a2.Tok != token.ASSIGN || len(a1.Lhs) != 1 || len(a2.Lhs) != 1 || len(a1.Rhs) != 1 || len(a2.Rhs) != 1 ||
		src(a1.Lhs[0]) != results[0] || src(a2.Lhs[0]) != results[1] {
		bad()
	}
	en2 := en.with(r, muVar{sh: muRecovered, lean: "r_", scope: -1})
	bs, v := c.expr(a1.Rhs[0], en2)
	if len(bs) > 0 {
		dieAt(a1, "a partial operation in the recover handler")
	}
	c.coerce(a1.Rhs[0], v, muVal)
	t, ok := c.errorText(a2.Rhs[0], en2)
	if !ok {
		bad()
	}
	c.use("MpGo.recoverWith", "defer func() { if r := recover(); r != nil { ret = …; err = … } }()")
	return "(Res.err " + t + ")"
}

func (t *muTr) translate(name string, fd *ast.FuncDecl) {
	if fd.Recv != nil || fd.Type.TypeParams != nil {
		dieAt(fd, "%s: a method or a generic function", name)
	}
	c := &muCtx{t: t, name: name, used: map[string]bool{"E": true, "k_after": true, "fuel": true, "r_": true}}
	en := muEnv{}
	root := 0
	c.params = []string{"(E : Msgpack.Ext)"}
	c.pargs = []string{"E"}
	for _, f := range fd.Type.Params.List {
		sh := muTypeShape(f.Type, src(f.Type))
		if len(f.Names) == 0 {
			dieAt(f, "%s: unnamed parameter", name)
		}
		for _, id := range f.Names {
			if id.Name == "_" {
				dieAt(id, "%s: blank parameter", name)
			}
			v := muVar{sh: sh, scope: root}
			if sh != muPath {
				v.lean = c.fresh(id.Name)
				c.params = append(c.params, fmt.Sprintf("(%s : %s)", v.lean, muLeanType(sh)))
				c.pargs = append(c.pargs, v.lean)
			}
			if sh == muEnc {
				if c.outEnc != "" {
					dieAt(id, "%s: two encoder parameters", name)
				}
				c.outEnc = id.Name
			}
			en[id.Name] = v
		}
	}
	rl := fd.Type.Results
	var results []string
	pre := ""
	switch {
	case rl != nil && len(rl.List) == 1 && len(rl.List[0].Names) == 0 && src(rl.List[0].Type) == "error":
		if c.outEnc == "" {
			dieAt(fd, "%s: result `error` without an encoder parameter", name)
		}
	case rl != nil && len(rl.List) == 2 && len(rl.List[0].Names) == 1 && len(rl.List[1].Names) == 1 &&
		src(rl.List[0].Type) == "cty.Value" && src(rl.List[1].Type) == "error":
		c.retVal = true
		c.params = append([]string{"[O : Refine.EqOracle]"}, c.params...)
		for i, f := range rl.List {
			id := f.Names[0]
			if _, dup := en[id.Name]; dup || id.Name == "_" {
				dieAt(id, "%s: result name %s", name, id.Name)
			}
			results = append(results, id.Name)
			ln := c.fresh(id.Name)
			if i == 0 {
				en[id.Name] = muVar{sh: muVal, lean: ln, scope: root}
				pre += fmt.Sprintf("let %s : RefineGo.GoVal := RefineGo.GoVal.nilVal;\n", ln)
			} else {
				en[id.Name] = muVar{sh: muErr, lean: ln, scope: root}
				pre += fmt.Sprintf("let %s : MpGo.GoErr := none;\n", ln)
			}
		}
	default:
		dieAt(fd, "%s: the result list is neither `error` nor `(ret cty.Value, err error)`", name)
	}
	list := fd.Body.List
	handler := ""
	if len(list) > 0 {
		if d, ok := list[0].(*ast.DeferStmt); ok {
			handler = c.recoverWrapper(d, en, results)
			list = list[1:]
		}
	}
	body := pre + c.stmts(list, en, root, func(muEnv) string {
		dieAt(fd.Body, "%s: the end of the function body is reachable", name)
		return ""
	})
	if handler != "" {
		body = "(MpGo.recoverWith " + handler + " (\n" + indent(body) + "))"
	}
	p0, p1 := fset.Position(fd.Pos()), fset.Position(fd.End())
	u := &muUnit{name: name, pos: fmt.Sprintf("%s:%d-%d", muFile, p0.Line, p1.Line)}
	u.text = strings.Join(t.helpers, "\n")
	if len(t.helpers) > 0 {
		u.text += "\n"
	}
	t.helpers = nil
	u.text += fmt.Sprintf("/-- `%s` (%s) -/\ndef %s %s : Res %s :=\n%s\n", name, u.pos, name, strings.Join(c.params, " "), c.resType(), indent(body))
	t.out = append(t.out, u)
}

// the integer constants of the file: `const X T = lit` / `const X = lit`
func (t *muTr) readConsts(f *ast.File) {
	for _, d := range f.Decls {
		gd, ok := d.(*ast.GenDecl)
		if !ok || gd.Tok != token.CONST {
			continue
		}
		for _, sp := range gd.Specs {
			vs := sp.(*ast.ValueSpec)
			if len(vs.Names) != 1 || len(vs.Values) != 1 {
				dieAt(vs, "constant declaration %s", src(vs))
			}
			bl, ok := vs.Values[0].(*ast.BasicLit)
			if !ok || bl.Kind != token.INT {
				dieAt(vs, "constant %s is not an integer literal", vs.Names[0].Name)
			}
			v, ok := new(big.Int).SetString(bl.Value, 0)
			if !ok {
				dieAt(vs, "integer literal %s", bl.Value)
			}
			sh := muConst
			if vs.Type != nil {
				if src(vs.Type) != "unknownValRefinementKey" {
					dieAt(vs, "constant of type %s", src(vs.Type))
				}
				sh = muKey
			}
			t.consts[vs.Names[0].Name] = muV{e: muIntLit(v.String()), sh: sh}
		}
	}
}

func translateMpUnknownFns(repo, leanDir, hdr string) int {
	files := parseDir(filepath.Join(repo, "cty/msgpack"))
	t := &muTr{files: files, funcs: map[string]*ast.FuncDecl{}, consts: map[string]muV{}, usedAPI: map[string]string{}}
	for _, f := range files {
		if filepath.Base(fset.Position(f.Pos()).Filename) != filepath.Base(muFile) {
			continue
		}
		t.readConsts(f)
		for _, d := range f.Decls {
			switch x := d.(type) {
			case *ast.FuncDecl:
				if x.Recv == nil && x.Body != nil {
					t.funcs[x.Name.Name] = x
				}
			case *ast.GenDecl:
				if x.Tok == token.TYPE {
					for _, sp := range x.Specs {
						ts := sp.(*ast.TypeSpec)
						if ts.Name.Name == "unknownValRefinementKey" && src(ts.Type) != "int64" {
							dieAt(ts, "unknownValRefinementKey is no longer int64")
						}
					}
				}
			}
		}
	}
	for _, r := range muRoots {
		fd, ok := t.funcs[r]
		if !ok {
			die("translate: %s not found in %s", r, muFile)
		}
		t.translate(r, fd)
	}
	var lb strings.Builder
	lb.WriteString(hdr)
	lb.WriteString("-- Translation of cty/msgpack/unknown.go (extract/translate_mpunknown.go); tied to the hand-written model CtyModel/Msgpack.lean\n")
	lb.WriteString("-- (marshalUnknown) and CtyModel/d17Msgpack.lean (D17.unmarshal on extension items) by CtyModel/Lemmas/MpUnknownFnsTie.lean.\n--\n")
	lb.WriteString("-- TRANSLATED from the source text, statement by statement (a Go panic is `Res.panic`; a returned error is `Res.err` of its format\n")
	lb.WriteString("-- string; for a function with result `error`, `Res.ok b` = nil was returned and the encoder parameter holds `b`; encoders, buffers,\n")
	lb.WriteString("-- decoders and the refinement builder are state: a call with an effect rebinds the Lean variable; `path` is erased; `k_n` = the\n")
	lb.WriteString("-- code after an if/switch that several paths reach; a `for` loop is a structurally recursive helper over the iterations left):\n")
	for _, u := range t.out {
		fmt.Fprintf(&lb, "--   %s  (%s)\n", u.name, u.pos)
	}
	lb.WriteString("-- NOT translated: everything the functions above call.  That is the GIVEN API of CtyModel/MpGo.lean, assumed to be what\n")
	lb.WriteString("-- vmihailenco/msgpack, bytes, io and package cty do (as emission of / reading from the item trees of the hand-written model):\n")
	var keys []string
	for k := range t.usedAPI {
		keys = append(keys, k)
	}
	sort.Slice(keys, func(i, j int) bool {
		if t.usedAPI[keys[i]] != t.usedAPI[keys[j]] {
			return t.usedAPI[keys[i]] < t.usedAPI[keys[j]]
		}
		return keys[i] < keys[j]
	})
	for _, k := range keys {
		fmt.Fprintf(&lb, "--   %s ↦ %s\n", t.usedAPI[k], k)
	}
	lb.WriteString("--   the package's integer constants and math.MaxInt ↦ their values; cty.Number/String/Bool/DynamicPseudoType, cty.Tuple ↦ Ty's constructors;\n")
	lb.WriteString("--   int, int64 and unknownValRefinementKey are 64 bits wide (conversions between them are the identity; + and - do not overflow on the sizes involved)\n")
	lb.WriteString("import CtyModel.MpGo\nset_option linter.unusedVariables false\nnamespace CtyModel.Generated.MpUnknownFns\n\n")
	for _, u := range t.out {
		lb.WriteString(u.text + "\n")
	}
	lb.WriteString("end CtyModel.Generated.MpUnknownFns\n")
	writeIfChanged(filepath.Join(leanDir, "MpUnknownFns.lean"), lb.String())
	return len(t.out)
}
