// Go→Lean translation of the scalar decoders of cty/gocty/out.go (C18):
// fromCtyNumber (the dispatch on the target's kind), fromCtyNumberInt,
// fromCtyNumberUInt, fromCtyNumberFloat, fromCtyNumberBig, fromCtyBool,
// fromCtyString and likelyRequiredTypesError (translated on demand, as a
// callee).  It writes lean/CtyModel/Generated/GoctyFns.lean;
// Lemmas/GoctyFnsTie.lean proves the generated definitions equal to the
// hand-written model (CtyModel/Gocty.lean: fromNum, fromNumInt, …), so the C18
// number theorems are re-checked against what the source says on every run.
//
// What is translated is a SYNTACTIC FRAGMENT; anything else is an error with
// the source position (a source edit that leaves the fragment is a broken tie):
//
//	statements   var x T [= e] | x := e | x = e | x, y := recv.M(…)   (no shadowing)
//	             if c {…} [else …] | switch [tag] { case a, b: … fallthrough … default: … }
//	             target.SetInt/SetUint/SetFloat/SetBool/SetString/Set(e) | panic("…")
//	             return nil | return path.NewErrorf("…", pure args) | return f(…) (f in the same file, translated on demand)
//	expressions  identifiers, integer/string literals, math.MinIntN/MaxIntN/MaxUintN, reflect.<Kind>, big.Exact/Below/Above,
//	             the package-level reflect.Type variables of helpers.go (their definitions are checked),
//	             !, unary -, &&, || (right operand total), ==, !=, <, <=, >, >= on integers of one type,
//	             conversions int64(e)/uint64(e)/int(e)/uint(e)/float64(e)/float32(e), math.IsInf,
//	             reflect.ValueOf(bf|bi), and the methods of the given-API tables below
//
// How Go data is read (lean/CtyModel/GoctyGo.lean, the GIVEN API): *big.Float ↦ Num,
// *big.Int ↦ Option Int, Go integers ↦ Int (conversions wrap explicitly), float64 ↦ Num,
// the target reflect.Value ↦ its GoTy and the GoVal it holds (state threaded through the
// statements), cty.Path erased, an error ↦ Res.err of its format string, panic ↦ Res.panic.
// A function with result `error` becomes a Lean function into `Res GoVal`: `.ok g` = nil was
// returned and the target holds g.  No function body is special-cased.
//
// Statement lists are translated in continuation-passing style; where two or more paths of an
// if/switch reach the code after it, that code becomes a local function `k_n` over the variables
// assigned inside the statement.
package main

import (
	"fmt"
	"go/ast"
	"go/token"
	"math/big"
	"path/filepath"
	"sort"
	"strconv"
	"strings"
)

const gcFile = "cty/gocty/out.go"

// the entry points; what they call inside the package is translated on demand
var gcRoots = []string{"fromCtyNumber", "fromCtyBool", "fromCtyString"}

type gcShape int

const (
	gcBool   gcShape = iota
	gcInt            // int
	gcI64            // int64
	gcU64            // uint64
	gcConst          // untyped integer constant
	gcF64            // float64
	gcF32            // float32
	gcAcc            // big.Accuracy
	gcKind           // reflect.Kind
	gcNum            // *big.Float
	gcBigInt         // *big.Int
	gcGoTy           // reflect.Type
	gcNamed          // a package-level reflect.Type variable
	gcRV             // a reflect.Value other than the target
	gcTarget         // the target reflect.Value (parameter)
	gcVal            // cty.Value
	gcPath           // cty.Path (erased)
	gcStr            // string
	gcNil            // the literal nil
	gcCtyTy          // cty.Type (d18b)
	gcTyList         // []cty.Type (d18b)
	gcField          // target.Field(i): a field of the target, decoded in place (d18b)
)

var gcShapeNames = map[gcShape]string{gcBool: "bool", gcInt: "int", gcI64: "int64", gcU64: "uint64", gcConst: "untyped constant",
	gcF64: "float64", gcF32: "float32", gcAcc: "big.Accuracy", gcKind: "reflect.Kind", gcNum: "*big.Float", gcBigInt: "*big.Int",
	gcGoTy: "reflect.Type", gcNamed: "reflect.Type variable", gcRV: "reflect.Value", gcTarget: "reflect.Value (target)",
	gcVal: "cty.Value", gcPath: "cty.Path", gcStr: "string", gcNil: "nil"}

func gcLeanType(sh gcShape) string {
	switch sh {
	case gcBool:
		return "Bool"
	case gcInt, gcI64, gcU64, gcConst:
		return "Int"
	case gcF64, gcF32, gcNum:
		return "Num"
	case gcAcc:
		return "GoctyGo.Accuracy"
	case gcKind:
		return "GoctyGo.Kind"
	case gcBigInt:
		return "Option Int"
	case gcGoTy:
		return "GoTy"
	case gcNamed:
		return "GoctyGo.NamedTy"
	case gcRV:
		return "GoctyGo.RV"
	case gcVal:
		return "Value"
	case gcStr:
		return "String"
	case gcCtyTy:
		return "Ty"
	case gcTyList:
		return "List Ty"
	}
	panic("gcLeanType")
}

func gcIsInt(sh gcShape) bool { return sh == gcInt || sh == gcI64 || sh == gcU64 || sh == gcConst }

// Go types of parameters and `var` declarations
func gcTypeShape(n ast.Node, s string) gcShape {
	switch s {
	case "bool":
		return gcBool
	case "int":
		return gcInt
	case "int64":
		return gcI64
	case "uint64":
		return gcU64
	case "float64":
		return gcF64
	case "float32":
		return gcF32
	case "string":
		return gcStr
	case "*big.Float":
		return gcNum
	case "*big.Int":
		return gcBigInt
	case "reflect.Value":
		return gcTarget
	case "reflect.Type":
		return gcGoTy
	case "reflect.Kind":
		return gcKind
	case "big.Accuracy":
		return gcAcc
	case "cty.Value":
		return gcVal
	case "cty.Path":
		return gcPath
	}
	dieAt(n, "type %s", s)
	return 0
}

// ---------------------------------------------------------------- the given API (lean/CtyModel/GoctyGo.lean)

type gcPrim struct {
	lean    string
	args    []gcShape
	rets    []gcShape
	partial bool // returns Res
}

var gcMethods = map[gcShape]map[string]gcPrim{
	gcNum: {
		"Int64":   {"GoctyGo.bfInt64", nil, []gcShape{gcI64, gcAcc}, false},
		"Uint64":  {"GoctyGo.bfUint64", nil, []gcShape{gcU64, gcAcc}, false},
		"Float64": {"GoctyGo.bfFloat64", nil, []gcShape{gcF64, gcAcc}, false},
		"Float32": {"GoctyGo.bfFloat32", nil, []gcShape{gcF32, gcAcc}, false},
		"Int":     {"GoctyGo.bfInt", []gcShape{gcNil}, []gcShape{gcBigInt, gcAcc}, false},
		"IsInt":   {"GoctyGo.bfIsInt", nil, []gcShape{gcBool}, false},
		"IsInf":   {"GoctyGo.bfIsInf", nil, []gcShape{gcBool}, false},
		"Sign":    {"GoctyGo.bfSign", nil, []gcShape{gcInt}, false},
		"Cmp":     {"GoctyGo.bfCmp", []gcShape{gcNum}, []gcShape{gcInt}, false},
	},
	gcTarget: {
		"Kind":          {"GoctyGo.kindOf", nil, []gcShape{gcKind}, false},
		"Type":          {"", nil, []gcShape{gcGoTy}, false}, // the target's GoTy itself
		"OverflowFloat": {"GoctyGo.overflowFloat", []gcShape{gcF64}, []gcShape{gcBool}, true},
	},
	gcGoTy: {
		"Bits":         {"GoctyGo.typeBits", nil, []gcShape{gcInt}, true},
		"Kind":         {"GoctyGo.kindOf", nil, []gcShape{gcKind}, false},
		"AssignableTo": {"GoctyGo.assignableTo", []gcShape{gcNamed}, []gcShape{gcBool}, false},
	},
	gcNamed: {
		"ConvertibleTo": {"GoctyGo.convertibleTo", []gcShape{gcGoTy}, []gcShape{gcBool}, false},
	},
	gcVal: {
		"True":       {"GoctyGo.valTrue", nil, []gcShape{gcBool}, true},
		"AsBigFloat": {"GoctyGo.asBigFloat", nil, []gcShape{gcNum}, true},
		"AsString":   {"GoctyGo.asString", nil, []gcShape{gcStr}, true},
	},
	gcRV: {
		"Elem":    {"GoctyGo.rvElem", nil, []gcShape{gcRV}, true},
		"Convert": {"GoctyGo.rvConvert", []gcShape{gcGoTy}, []gcShape{gcRV}, true},
	},
}

// statement-level methods of the target: each yields the value the target holds afterwards
var gcSetters = map[string]gcPrim{
	"SetInt":    {"GoctyGo.setInt", []gcShape{gcI64}, nil, true},
	"SetUint":   {"GoctyGo.setUint", []gcShape{gcU64}, nil, true},
	"SetFloat":  {"GoctyGo.setFloat", []gcShape{gcF64}, nil, true},
	"SetBool":   {"GoctyGo.setBool", []gcShape{gcBool}, nil, true},
	"SetString": {"GoctyGo.setString", []gcShape{gcStr}, nil, true},
	"Set":       {"GoctyGo.rvSet", []gcShape{gcRV}, nil, true},
}

// package-level reflect.Type variables of cty/gocty and the definitions they must still have
var gcNamedVars = map[string]string{
	"valueType":    "reflect.TypeOf(cty.Value{})",
	"setType":      "reflect.TypeOf(set.Set[interface{}]{})",
	"bigFloatType": "reflect.TypeOf(big.Float{})",
	"bigIntType":   "reflect.TypeOf(big.Int{})",
}

var gcKindNames = map[string]bool{"Invalid": true, "Bool": true, "Int": true, "Int8": true, "Int16": true, "Int32": true, "Int64": true,
	"Uint": true, "Uint8": true, "Uint16": true, "Uint32": true, "Uint64": true, "Uintptr": true, "Float32": true, "Float64": true,
	"Complex64": true, "Complex128": true, "Array": true, "Chan": true, "Func": true, "Interface": true, "Map": true, "Ptr": true,
	"Slice": true, "String": true, "Struct": true, "UnsafePointer": true}

var gcAccNames = map[string]string{"Exact": "exact", "Below": "below", "Above": "above"}

// ---------------------------------------------------------------- translator state

type gcParam struct {
	name string
	sh   gcShape
}

type gcUnit struct {
	name       string
	params     []gcParam
	text       string
	pos        string
	inProgress bool
	hasRec     bool // d18b: takes the recursive call fromCtyValue as its first parameter `rec_`
}

type gcTr struct {
	files   []*ast.File
	funcs   map[string]*ast.FuncDecl
	units   map[string]*gcUnit
	out     []*gcUnit
	usedAPI map[string]string // lean name ↦ Go spelling
}

type gcEnv map[string]gcShape

func (e gcEnv) with(k string, sh gcShape) gcEnv {
	n := make(gcEnv, len(e)+1)
	for a, b := range e {
		n[a] = b
	}
	n[k] = sh
	return n
}

// restrict drops the variables declared in an inner block
func (e gcEnv) restrict(outer gcEnv) gcEnv {
	n := make(gcEnv, len(outer))
	for a := range outer {
		n[a] = e[a]
	}
	return n
}

type gcCtx struct {
	t      *gcTr
	u      *gcUnit
	target string // Go name of the target parameter
	nk     int
	inLoop int               // d18b: depth of `for … range` bodies being translated
	fields map[string]string // d18b: Go name of a `target.Field(e)` variable ↦ the Lean index expression
	views  []gcView          // d18b: views of the target (index 0 = the target itself)
	vvars  map[string]int    // d18b: Go name of a view variable ↦ its view
}

type gcV struct {
	e  string
	sh gcShape
}

func gcLv(name string) string { return name + "_" }

func (c *gcCtx) targetState() string { return c.target + "_v" }

func (c *gcCtx) use(lean, goName string) { c.t.usedAPI[lean] = goName }

func gcIntLit(s string) string { return "(" + s + " : Int)" }

// ---------------------------------------------------------------- units

func (t *gcTr) ensure(name string, at ast.Node) *gcUnit {
	if u, ok := t.units[name]; ok {
		if u.inProgress {
			dieAt(at, "recursive call of %s", name)
		}
		return u
	}
	fd, ok := t.funcs[name]
	if !ok {
		dieAt(at, "callee %s is not a function of %s", name, gcFile)
	}
	return t.translate(name, fd)
}

func (t *gcTr) translate(name string, fd *ast.FuncDecl) *gcUnit {
	if fd.Recv != nil || fd.Type.TypeParams != nil {
		dieAt(fd, "%s: a method or a generic function", name)
	}
	if fd.Type.Results == nil || len(fd.Type.Results.List) != 1 || len(fd.Type.Results.List[0].Names) != 0 || src(fd.Type.Results.List[0].Type) != "error" {
		dieAt(fd, "%s: the result list is not `error`", name)
	}
	u := &gcUnit{name: name, inProgress: true}
	t.units[name] = u
	c := &gcCtx{t: t, u: u, fields: map[string]string{}, vvars: map[string]int{}}
	en := gcEnv{}
	var lparams []string
	if gcRecFuncs[name] {
		u.hasRec = true
		lparams = append(lparams, "(rec_ : GoctyGo.Rec)")
	}
	if gcOrdFuncs[name] {
		lparams = append(lparams, "(ord_ : List String → List String)")
	}
	for _, f := range fd.Type.Params.List {
		sh := gcTypeShape(f.Type, src(f.Type))
		if len(f.Names) == 0 {
			dieAt(f, "%s: unnamed parameter", name)
		}
		for _, id := range f.Names {
			if id.Name == "_" {
				dieAt(id, "%s: blank parameter", name)
			}
			u.params = append(u.params, gcParam{id.Name, sh})
			en[id.Name] = sh
			switch sh {
			case gcPath:
			case gcTarget:
				if c.target != "" {
					dieAt(id, "%s: two reflect.Value parameters", name)
				}
				c.target = id.Name
				lparams = append(lparams, fmt.Sprintf("(%s : GoTy) (%s_v : GoVal)", gcLv(id.Name), id.Name))
			default:
				lparams = append(lparams, fmt.Sprintf("(%s : %s)", gcLv(id.Name), gcLeanType(sh)))
			}
		}
	}
	if c.target == "" {
		dieAt(fd, "%s: no reflect.Value parameter (the decoding target)", name)
	}
	body := c.stmts(fd.Body.List, en, func(gcEnv) string {
		dieAt(fd.Body, "%s: the end of the function body is reachable", name)
		return ""
	})
	p0, p1 := fset.Position(fd.Pos()), fset.Position(fd.End())
	u.pos = fmt.Sprintf("%s:%d-%d", gcFile, p0.Line, p1.Line)
	u.text = fmt.Sprintf("/-- `%s` (%s) -/\ndef %s %s : Res GoVal :=\n%s\n", name, u.pos, name, strings.Join(lparams, " "), indent(body))
	u.inProgress = false
	t.out = append(t.out, u)
	return u
}

// ---------------------------------------------------------------- statements

func gcIsPanic(s ast.Stmt) (*ast.CallExpr, bool) {
	es, ok := s.(*ast.ExprStmt)
	if !ok {
		return nil, false
	}
	call, ok := es.X.(*ast.CallExpr)
	if !ok {
		return nil, false
	}
	id, ok := call.Fun.(*ast.Ident)
	return call, ok && id.Name == "panic"
}

func gcHasFallthrough(body []ast.Stmt) bool {
	if len(body) == 0 {
		return false
	}
	b, ok := body[len(body)-1].(*ast.BranchStmt)
	return ok && b.Tok == token.FALLTHROUGH
}

// does every path through the list end in return or panic?
func gcTerminates(list []ast.Stmt) bool {
	if len(list) == 0 {
		return false
	}
	switch s := list[len(list)-1].(type) {
	case *ast.ReturnStmt:
		return true
	case *ast.ExprStmt:
		_, p := gcIsPanic(s)
		return p
	case *ast.IfStmt:
		if s.Else == nil || !gcTerminates(s.Body.List) {
			return false
		}
		switch e := s.Else.(type) {
		case *ast.BlockStmt:
			return gcTerminates(e.List)
		case *ast.IfStmt:
			return gcTerminates([]ast.Stmt{e})
		}
		return false
	case *ast.SwitchStmt:
		hasDefault := false
		cls := s.Body.List
		for i := len(cls) - 1; i >= 0; i-- {
			cc := cls[i].(*ast.CaseClause)
			if cc.List == nil {
				hasDefault = true
			}
			if !gcClauseTerminates(cls, i) {
				return false
			}
		}
		return hasDefault
	}
	return false
}

func gcClauseTerminates(cls []ast.Stmt, i int) bool {
	cc := cls[i].(*ast.CaseClause)
	if gcHasFallthrough(cc.Body) {
		return i+1 < len(cls) && gcClauseTerminates(cls, i+1)
	}
	return gcTerminates(cc.Body)
}

// the variables of `en` assigned inside n, and whether the target is stored to
func (c *gcCtx) mutated(n ast.Node, en gcEnv) (vars []string, target bool) {
	set := map[string]bool{}
	ast.Inspect(n, func(x ast.Node) bool {
		switch s := x.(type) {
		case *ast.AssignStmt:
			for _, l := range s.Lhs {
				if id, ok := l.(*ast.Ident); ok {
					if _, ok := en[id.Name]; ok {
						set[id.Name] = true
					}
				}
			}
		case *ast.IncDecStmt:
			dieAt(s, "statement %s", src(s))
		case *ast.CallExpr:
			if sel, ok := s.Fun.(*ast.SelectorExpr); ok {
				if id, ok := sel.X.(*ast.Ident); ok && id.Name == c.target {
					if _, ok := gcSetters[sel.Sel.Name]; ok {
						target = true
					}
				}
			}
		}
		return true
	})
	for k := range set {
		vars = append(vars, k)
	}
	sort.Strings(vars)
	return vars, target
}

// join: if two or more paths reach the code after statement s, that code becomes a local function
func (c *gcCtx) join(s ast.Stmt, nfall int, en gcEnv, after func(gcEnv) string, gen func(after func(gcEnv) string) string) string {
	if nfall < 2 {
		return gen(after)
	}
	vars, tgt := c.mutated(s, en)
	c.nk++
	kn := fmt.Sprintf("k_%d", c.nk)
	var ps, as []string
	for _, v := range vars {
		if en[v] == gcTarget || en[v] == gcPath {
			dieAt(s, "assignment to %s", v)
		}
		ps = append(ps, fmt.Sprintf("(%s : %s)", gcLv(v), gcLeanType(en[v])))
		as = append(as, gcLv(v))
	}
	if tgt {
		ps = append(ps, fmt.Sprintf("(%s : GoVal)", c.targetState()))
		as = append(as, c.targetState())
	}
	if len(ps) == 0 {
		ps, as = []string{"(_ : Unit)"}, []string{"()"}
	}
	callK := "(" + kn + " " + strings.Join(as, " ") + ")"
	body := after(en)
	return fmt.Sprintf("let %s := fun %s =>\n%s;\n%s", kn, strings.Join(ps, " "), indent(body), gen(func(gcEnv) string { return callK }))
}

func (c *gcCtx) stmts(list []ast.Stmt, en gcEnv, k func(gcEnv) string) string {
	if len(list) == 0 {
		return k(en)
	}
	if out, ok := c.shapeStmts(list, en, k); ok { // d18b (translate_gocty_shape.go)
		return out
	}
	s, rest := list[0], list[1:]
	next := func(e gcEnv) string { return c.stmts(rest, e, k) }
	noRest := func() {
		if len(rest) > 0 {
			dieAt(rest[0], "statement after return/panic")
		}
	}
	switch s := s.(type) {
	case *ast.EmptyStmt:
		return next(en)

	case *ast.DeclStmt:
		gd, ok := s.Decl.(*ast.GenDecl)
		if !ok || gd.Tok != token.VAR {
			dieAt(s, "declaration %s", src(s))
		}
		cur := en
		var lets []string
		for _, sp := range gd.Specs {
			vs := sp.(*ast.ValueSpec)
			if vs.Type == nil || len(vs.Values) > 1 || len(vs.Names) != 1 {
				dieAt(vs, "var declaration %s", src(vs))
			}
			sh := gcTypeShape(vs.Type, src(vs.Type))
			name := vs.Names[0].Name
			if _, dup := cur[name]; dup || name == "_" {
				dieAt(vs, "declaration shadows %s", name)
			}
			var val string
			if len(vs.Values) == 1 {
				bs, v := c.expr(vs.Values[0], cur)
				if len(bs) > 0 {
					dieAt(vs, "var initialiser with a partial operation")
				}
				val = c.coerce(vs.Values[0], v, sh)
			} else {
				switch {
				case gcIsInt(sh):
					val = gcIntLit("0")
				case sh == gcBool:
					val = "false"
				case sh == gcStr:
					val = `""`
				default:
					dieAt(vs, "zero value of type %s", src(vs.Type))
				}
			}
			lets = append(lets, fmt.Sprintf("let %s : %s := %s;\n", gcLv(name), gcLeanType(sh), val))
			cur = cur.with(name, sh)
		}
		return strings.Join(lets, "") + next(cur)

	case *ast.AssignStmt:
		return c.assign(s, en, next)

	case *ast.ExprStmt:
		if call, ok := gcIsPanic(s); ok {
			noRest()
			return c.panicText(call)
		}
		call, ok := s.X.(*ast.CallExpr)
		if !ok {
			dieAt(s, "expression statement %s", src(s))
		}
		sel, ok := call.Fun.(*ast.SelectorExpr)
		if !ok {
			dieAt(s, "call statement %s", src(s))
		}
		id, ok := sel.X.(*ast.Ident)
		if !ok || id.Name != c.target {
			dieAt(s, "call statement %s (only the target's Set… methods are statements)", src(s))
		}
		p, ok := gcSetters[sel.Sel.Name]
		if !ok {
			dieAt(s, "method %s of the target as a statement", sel.Sel.Name)
		}
		if len(call.Args) != 1 || call.Ellipsis.IsValid() {
			dieAt(s, "%s with %d arguments", sel.Sel.Name, len(call.Args))
		}
		bs, v := c.expr(call.Args[0], en)
		arg := c.coerce(call.Args[0], v, p.args[0])
		c.use(p.lean, "reflect.Value."+sel.Sel.Name)
		bs = append(bs, bind{c.targetState(), c.lifted(en, fmt.Sprintf("(%s %s %s)", p.lean, c.curTy(en), arg))})
		return wrap(bs, next(en))

	case *ast.ReturnStmt:
		noRest()
		return c.ret(s, en)

	case *ast.IfStmt:
		if s.Init != nil {
			dieAt(s, "if with an init statement")
		}
		bs, cv := c.expr(s.Cond, en)
		if cv.sh != gcBool {
			dieAt(s.Cond, "condition of type %s", gcShapeNames[cv.sh])
		}
		nfall := 0
		if !gcTerminates(s.Body.List) {
			nfall++
		}
		var elseList []ast.Stmt
		switch e := s.Else.(type) {
		case nil:
			nfall++
		case *ast.BlockStmt:
			elseList = e.List
			if !gcTerminates(elseList) {
				nfall++
			}
		case *ast.IfStmt:
			elseList = []ast.Stmt{e}
			if !gcTerminates(elseList) {
				nfall++
			}
		default:
			dieAt(s.Else, "else branch")
		}
		return wrap(bs, c.join(s, nfall, en, next, func(after func(gcEnv) string) string {
			out := func(e gcEnv) string { return after(e.restrict(en)) }
			th := c.stmts(s.Body.List, en, out)
			el := c.stmts(elseList, en, out)
			return fmt.Sprintf("(if %s then\n%s\nelse\n%s)", cv.e, indent(th), indent(el))
		}))

	case *ast.SwitchStmt:
		return c.switchStmt(s, en, next)
	}
	dieAt(s, "statement %s", strings.SplitN(src(s), "\n", 2)[0])
	return ""
}

func (c *gcCtx) panicText(call *ast.CallExpr) string {
	if len(call.Args) != 1 {
		dieAt(call, "panic with %d arguments", len(call.Args))
	}
	bl, ok := call.Args[0].(*ast.BasicLit)
	if !ok || bl.Kind != token.STRING {
		dieAt(call, "panic with a non-literal argument")
	}
	s, err := strconv.Unquote(bl.Value)
	if err != nil {
		dieAt(call, "%v", err)
	}
	return "(Res.panic " + leanStr(s) + ")"
}

func (c *gcCtx) switchStmt(s *ast.SwitchStmt, en gcEnv, next func(gcEnv) string) string {
	if s.Init != nil {
		dieAt(s, "switch with an init statement")
	}
	var bs []bind
	var tag *gcV
	pre := ""
	if s.Tag != nil {
		b, v := c.expr(s.Tag, en)
		bs = b
		if v.sh == gcTarget || v.sh == gcPath || v.sh == gcNil || v.sh == gcRV || v.sh == gcGoTy || v.sh == gcNamed || v.sh == gcVal || v.sh == gcNum || v.sh == gcBigInt || v.sh == gcF64 || v.sh == gcF32 {
			dieAt(s.Tag, "switch over a value of type %s", gcShapeNames[v.sh])
		}
		c.nk++
		tn := fmt.Sprintf("t_%d", c.nk)
		pre = fmt.Sprintf("let %s : %s := %s;\n", tn, gcLeanType(v.sh), v.e)
		tag = &gcV{tn, v.sh}
	}
	cls := s.Body.List
	defIx := -1
	nfall := 0
	for i, cl := range cls {
		cc := cl.(*ast.CaseClause)
		if cc.List == nil {
			defIx = i
		}
		for j, st := range cc.Body {
			if b, ok := st.(*ast.BranchStmt); ok && !(b.Tok == token.FALLTHROUGH && j == len(cc.Body)-1) {
				dieAt(b, "statement %s", src(b))
			}
		}
		if gcHasFallthrough(cc.Body) && i == len(cls)-1 {
			dieAt(cc, "fallthrough in the last clause")
		}
		if !gcHasFallthrough(cc.Body) && !gcTerminates(cc.Body) {
			nfall++
		}
	}
	if defIx < 0 {
		nfall++
	}
	return wrap(bs, pre+c.join(s, nfall, en, next, func(after func(gcEnv) string) string {
		out := func(e gcEnv) string { return after(e.restrict(en)) }
		var bodyOf func(i int, e gcEnv) string
		bodyOf = func(i int, e gcEnv) string {
			cc := cls[i].(*ast.CaseClause)
			body := cc.Body
			if gcHasFallthrough(body) {
				return c.stmts(body[:len(body)-1], e, func(e2 gcEnv) string { return bodyOf(i+1, e2.restrict(en)) })
			}
			return c.stmts(body, e, out)
		}
		code := ""
		if defIx >= 0 {
			code = bodyOf(defIx, en)
		} else {
			code = out(en)
		}
		for i := len(cls) - 1; i >= 0; i-- {
			cc := cls[i].(*ast.CaseClause)
			if cc.List == nil {
				continue
			}
			var conds []string
			for _, l := range cc.List {
				lb, lv := c.expr(l, en)
				if len(lb) > 0 {
					dieAt(l, "case label with a partial operation")
				}
				if tag == nil {
					if lv.sh != gcBool {
						dieAt(l, "case condition of type %s", gcShapeNames[lv.sh])
					}
					conds = append(conds, lv.e)
				} else {
					conds = append(conds, c.equal(l, *tag, lv))
				}
			}
			cond := conds[0]
			if len(conds) > 1 {
				cond = "(" + strings.Join(conds, " || ") + ")"
			}
			code = fmt.Sprintf("(if %s then\n%s\nelse\n%s)", cond, indent(bodyOf(i, en)), indent(code))
		}
		return code
	}))
}

func (c *gcCtx) assign(s *ast.AssignStmt, en gcEnv, next func(gcEnv) string) string {
	if s.Tok != token.DEFINE && s.Tok != token.ASSIGN {
		dieAt(s, "assignment operator %s", s.Tok)
	}
	var names []string
	for _, l := range s.Lhs {
		id, ok := l.(*ast.Ident)
		if !ok {
			dieAt(l, "assignment to %s", src(l))
		}
		names = append(names, id.Name)
	}
	if len(s.Rhs) != 1 {
		dieAt(s, "parallel assignment")
	}
	var bs []bind
	var vs []gcV
	if call, ok := s.Rhs[0].(*ast.CallExpr); ok && len(names) > 1 {
		bs, vs = c.call(call, en, len(names))
	} else {
		var v gcV
		bs, v = c.expr(s.Rhs[0], en)
		vs = []gcV{v}
	}
	if len(vs) != len(names) {
		dieAt(s, "%d variables, %d values", len(names), len(vs))
	}
	cur := en
	lets := ""
	tuple := ""
	if len(vs) > 1 {
		// vs[i].e are projections of one tuple expression: name it first
		c.nk++
		tuple = fmt.Sprintf("r_%d", c.nk)
		lets += fmt.Sprintf("let %s := %s;\n", tuple, vs[0].e)
	}
	for i, name := range names {
		v := vs[i]
		if tuple != "" {
			v.e = fmt.Sprintf("%s.%d", tuple, i+1)
		}
		if name == "_" {
			continue
		}
		old, exists := cur[name]
		if s.Tok == token.DEFINE {
			if exists {
				dieAt(s, "redeclaration or shadowing of %s", name)
			}
			if v.sh == gcConst {
				dieAt(s, "%s := untyped constant", name)
			}
			if v.sh == gcTarget || v.sh == gcPath || v.sh == gcNil {
				dieAt(s, "alias of %s", src(s.Rhs[0]))
			}
			cur = cur.with(name, v.sh)
			lets += fmt.Sprintf("let %s : %s := %s;\n", gcLv(name), gcLeanType(v.sh), v.e)
		} else {
			if !exists {
				dieAt(s, "assignment to %s, which is not a local variable", name)
			}
			if old == gcTarget || old == gcPath {
				dieAt(s, "assignment to %s", name)
			}
			lets += fmt.Sprintf("let %s : %s := %s;\n", gcLv(name), gcLeanType(old), c.coerce(s.Rhs[0], v, old))
		}
	}
	return wrap(bs, lets+next(cur))
}

// coerce checks that a value may be used where `want` is expected (Go assignability within the fragment)
func (c *gcCtx) coerce(n ast.Node, v gcV, want gcShape) string {
	if v.sh == want || (v.sh == gcConst && gcIsInt(want)) {
		return v.e
	}
	dieAt(n, "a value of type %s where %s is expected", gcShapeNames[v.sh], gcShapeNames[want])
	return ""
}

func (c *gcCtx) equal(n ast.Node, a, b gcV) string {
	switch {
	case gcIsInt(a.sh) && gcIsInt(b.sh) && (a.sh == b.sh || a.sh == gcConst || b.sh == gcConst):
	case a.sh == b.sh && (a.sh == gcKind || a.sh == gcAcc || a.sh == gcStr):
	case a.sh == gcBool && b.sh == gcBool:
		return "(" + a.e + " == " + b.e + ")"
	case a.sh == gcCtyTy && b.sh == gcCtyTy: // d18b: == on cty.Type values (primitive types only)
		c.use("GoctyGo.tyIs", "== on cty.Type")
		return "(GoctyGo.tyIs " + a.e + " " + b.e + ")"
	default:
		dieAt(n, "comparison of %s with %s", gcShapeNames[a.sh], gcShapeNames[b.sh])
	}
	return "(decide (" + a.e + " = " + b.e + "))"
}

// an argument of an error constructor: not evaluated, but it must not be able to panic or to have an effect
func gcPureArg(e ast.Expr) {
	switch x := e.(type) {
	case *ast.Ident, *ast.BasicLit:
	case *ast.SelectorExpr:
		if id, ok := x.X.(*ast.Ident); !ok || (id.Name != "math" && id.Name != "reflect" && id.Name != "big") {
			dieAt(e, "error argument %s", src(e))
		}
	case *ast.ParenExpr:
		gcPureArg(x.X)
	case *ast.CallExpr:
		if !gcPureCalls[src(e)] { // d18b: calls that were evaluated just before and can not panic
			dieAt(e, "error argument %s", src(e))
		}
	case *ast.UnaryExpr:
		if x.Op != token.SUB && x.Op != token.NOT {
			dieAt(e, "error argument %s", src(e))
		}
		gcPureArg(x.X)
	default:
		dieAt(e, "error argument %s", src(e))
	}
}

func (c *gcCtx) ret(s *ast.ReturnStmt, en gcEnv) string {
	if len(s.Results) != 1 {
		dieAt(s, "return with %d results", len(s.Results))
	}
	r := s.Results[0]
	if id, ok := r.(*ast.Ident); ok && id.Name == "nil" {
		if c.inLoop > 0 {
			dieAt(s, "return nil inside a loop")
		}
		return "(Res.ok " + c.targetState() + ")"
	}
	call, ok := r.(*ast.CallExpr)
	if !ok {
		dieAt(s, "return %s", src(r))
	}
	switch f := call.Fun.(type) {
	case *ast.SelectorExpr:
		id, ok := f.X.(*ast.Ident)
		if !ok || en[id.Name] != gcPath || f.Sel.Name != "NewErrorf" || len(call.Args) == 0 || call.Ellipsis.IsValid() {
			dieAt(s, "return %s", src(r))
		}
		bl, ok := call.Args[0].(*ast.BasicLit)
		if !ok || bl.Kind != token.STRING {
			dieAt(call, "NewErrorf with a non-literal format")
		}
		format, err := strconv.Unquote(bl.Value)
		if err != nil {
			dieAt(call, "%v", err)
		}
		for _, a := range call.Args[1:] {
			gcPureArg(a)
		}
		c.use("GoctyGo.newErrorf", "cty.Path.NewErrorf")
		return "(Res.err (GoctyGo.newErrorf " + leanStr(format) + "))"
	case *ast.Ident:
		if _, local := en[f.Name]; local {
			dieAt(s, "call of the local %s", f.Name)
		}
		if out, ok := c.givenFunc(f.Name, call, en); ok { // d18b: functions that stay in the given API
			return out
		}
		u := c.t.ensure(f.Name, call)
		if len(call.Args) != len(u.params) || call.Ellipsis.IsValid() {
			dieAt(call, "%s called with %d arguments", f.Name, len(call.Args))
		}
		var bs []bind
		var args []string
		for i, a := range call.Args {
			p := u.params[i]
			switch p.sh {
			case gcPath:
				if !gcIsPathExpr(a, en) {
					dieAt(a, "path argument %s", src(a))
				}
			case gcTarget:
				if id, ok := a.(*ast.Ident); !ok || id.Name != c.target {
					dieAt(a, "target argument %s", src(a))
				}
				args = append(args, c.curTy(en), c.curState(en))
			default:
				b, v := c.expr(a, en)
				bs = append(bs, b...)
				args = append(args, c.coerce(a, v, p.sh))
			}
		}
		if u.hasRec {
			if !c.u.hasRec {
				dieAt(call, "%s needs the recursive decoder, which %s does not have", u.name, c.u.name)
			}
			if gcOrdFuncs[u.name] {
				if !gcOrdFuncs[c.u.name] {
					dieAt(call, "%s needs the map order, which %s does not have", u.name, c.u.name)
				}
				args = append([]string{"ord_"}, args...)
			}
			args = append([]string{"rec_"}, args...)
		}
		return wrap(bs, c.lifted(en, "("+u.name+" "+strings.Join(args, " ")+")"))
	}
	dieAt(s, "return %s", src(r))
	return ""
}

// ---------------------------------------------------------------- expressions

func (c *gcCtx) expr(e ast.Expr, en gcEnv) ([]bind, gcV) {
	switch x := e.(type) {
	case *ast.ParenExpr:
		return c.expr(x.X, en)
	case *ast.Ident:
		if sh, ok := en[x.Name]; ok {
			if sh == gcPath {
				dieAt(e, "use of the erased path %s", x.Name)
			}
			if sh == gcTarget {
				return nil, gcV{c.viewTyOf(x.Name, en), sh}
			}
			return nil, gcV{gcLv(x.Name), sh}
		}
		switch x.Name {
		case "true", "false":
			return nil, gcV{x.Name, gcBool}
		case "nil":
			return nil, gcV{"()", gcNil}
		}
		if want, ok := gcNamedVars[x.Name]; ok {
			c.t.checkNamedVar(x, x.Name, want)
			c.use("GoctyGo.NamedTy."+x.Name, x.Name+" = "+want)
			return nil, gcV{"GoctyGo.NamedTy." + x.Name, gcNamed}
		}
		dieAt(e, "identifier %s", x.Name)
	case *ast.BasicLit:
		switch x.Kind {
		case token.INT:
			v, ok := new(big.Int).SetString(x.Value, 0)
			if !ok {
				dieAt(e, "integer literal %s", x.Value)
			}
			return nil, gcV{gcIntLit(v.String()), gcConst}
		case token.STRING:
			s, err := strconv.Unquote(x.Value)
			if err != nil {
				dieAt(e, "%v", err)
			}
			return nil, gcV{leanStr(s), gcStr}
		}
		dieAt(e, "literal %s", x.Value)
	case *ast.SelectorExpr:
		id, ok := x.X.(*ast.Ident)
		if !ok {
			dieAt(e, "selector %s", src(e))
		}
		if _, local := en[id.Name]; local {
			dieAt(e, "field selection %s", src(e))
		}
		if v, ok := c.shapeSelector(x); ok { // d18b
			return nil, v
		}
		switch id.Name {
		case "math":
			if v, ok := mathConsts[src(e)]; ok {
				return nil, gcV{gcIntLit(v.String()), gcConst}
			}
		case "reflect":
			if gcKindNames[x.Sel.Name] {
				return nil, gcV{"GoctyGo.Kind.k" + x.Sel.Name, gcKind}
			}
		case "big":
			if a, ok := gcAccNames[x.Sel.Name]; ok {
				return nil, gcV{"GoctyGo.Accuracy." + a, gcAcc}
			}
		}
		dieAt(e, "name %s", src(e))
	case *ast.UnaryExpr:
		bs, v := c.expr(x.X, en)
		switch x.Op {
		case token.NOT:
			if v.sh != gcBool {
				dieAt(e, "! of %s", gcShapeNames[v.sh])
			}
			return bs, gcV{"(!" + v.e + ")", gcBool}
		case token.SUB:
			if v.sh != gcConst {
				dieAt(e, "unary minus of a non-constant (overflow is not modelled)")
			}
			return bs, gcV{"(-" + v.e + ")", gcConst}
		}
		dieAt(e, "unary %s", x.Op)
	case *ast.BinaryExpr:
		return c.binary(x, en)
	case *ast.CallExpr:
		bs, vs := c.call(x, en, 1)
		return bs, vs[0]
	}
	dieAt(e, "expression %s", src(e))
	return nil, gcV{}
}

func (c *gcCtx) binary(x *ast.BinaryExpr, en gcEnv) ([]bind, gcV) {
	lb, l := c.expr(x.X, en)
	rb, r := c.expr(x.Y, en)
	switch x.Op {
	case token.LAND, token.LOR:
		if l.sh != gcBool || r.sh != gcBool {
			dieAt(x, "%s of non-booleans", x.Op)
		}
		if len(rb) > 0 {
			dieAt(x.Y, "a partial operation as the right operand of %s", x.Op)
		}
		return lb, gcV{"(" + l.e + " " + x.Op.String() + " " + r.e + ")", gcBool}
	case token.EQL:
		return append(lb, rb...), gcV{c.equal(x, l, r), gcBool}
	case token.NEQ:
		return append(lb, rb...), gcV{"(!" + c.equal(x, l, r) + ")", gcBool}
	case token.LSS, token.LEQ, token.GTR, token.GEQ:
		if !(gcIsInt(l.sh) && gcIsInt(r.sh) && (l.sh == r.sh || l.sh == gcConst || r.sh == gcConst)) {
			dieAt(x, "ordering of %s and %s", gcShapeNames[l.sh], gcShapeNames[r.sh])
		}
		op := map[token.Token]string{token.LSS: "<", token.LEQ: "≤", token.GTR: ">", token.GEQ: "≥"}[x.Op]
		return append(lb, rb...), gcV{"(decide (" + l.e + " " + op + " " + r.e + "))", gcBool}
	}
	dieAt(x, "operator %s", x.Op)
	return nil, gcV{}
}

var gcConvs = map[string]gcShape{"int": gcInt, "uint": gcU64, "int64": gcI64, "uint64": gcU64, "float64": gcF64, "float32": gcF32}

func (c *gcCtx) call(call *ast.CallExpr, en gcEnv, want int) ([]bind, []gcV) {
	if call.Ellipsis.IsValid() {
		dieAt(call, "variadic call")
	}
	single := func(bs []bind, v gcV) ([]bind, []gcV) {
		if want != 1 {
			dieAt(call, "%d results wanted from %s", want, src(call.Fun))
		}
		return bs, []gcV{v}
	}
	if bs, vs, ok := c.shapeCall(call, en, want); ok { // d18b (translate_gocty_shape.go)
		return bs, vs
	}
	switch f := call.Fun.(type) {
	case *ast.Ident:
		if _, local := en[f.Name]; local {
			dieAt(call, "call of the local %s", f.Name)
		}
		to, ok := gcConvs[f.Name]
		if !ok || len(call.Args) != 1 {
			dieAt(call, "call of %s in an expression", f.Name)
		}
		bs, v := c.expr(call.Args[0], en)
		switch {
		case gcIsInt(to) && v.sh == gcConst:
			return single(bs, gcV{v.e, to})
		case gcIsInt(to) && gcIsInt(v.sh):
			// int and uint are 64 bits wide on the platforms the model describes (IntW.wInt)
			c.use("GoctyGo.wrapInt", "integer conversions T(e)")
			signed := "true"
			if to == gcU64 {
				signed = "false"
			}
			return single(bs, gcV{fmt.Sprintf("(GoctyGo.wrapInt 64 %s %s)", signed, v.e), to})
		case to == gcF64 && (v.sh == gcF64 || v.sh == gcF32):
			c.use("GoctyGo.toFloat64", "float64(e)")
			return single(bs, gcV{"(GoctyGo.toFloat64 " + v.e + ")", gcF64})
		case to == gcF32 && (v.sh == gcF64 || v.sh == gcF32):
			c.use("GoctyGo.toFloat32", "float32(e)")
			return single(bs, gcV{"(GoctyGo.toFloat32 " + v.e + ")", gcF32})
		}
		dieAt(call, "conversion %s of a value of type %s", f.Name, gcShapeNames[v.sh])
	case *ast.SelectorExpr:
		// package functions
		if id, ok := f.X.(*ast.Ident); ok {
			if _, local := en[id.Name]; !local {
				switch id.Name + "." + f.Sel.Name {
				case "math.IsInf":
					if len(call.Args) != 2 {
						dieAt(call, "math.IsInf with %d arguments", len(call.Args))
					}
					b1, a := c.expr(call.Args[0], en)
					b2, sg := c.expr(call.Args[1], en)
					if a.sh != gcF64 || !(sg.sh == gcInt || sg.sh == gcConst) {
						dieAt(call, "math.IsInf(%s, %s)", gcShapeNames[a.sh], gcShapeNames[sg.sh])
					}
					c.use("GoctyGo.mathIsInf", "math.IsInf")
					return single(append(b1, b2...), gcV{"(GoctyGo.mathIsInf " + a.e + " " + sg.e + ")", gcBool})
				case "reflect.ValueOf":
					if len(call.Args) != 1 {
						dieAt(call, "reflect.ValueOf with %d arguments", len(call.Args))
					}
					bs, a := c.expr(call.Args[0], en)
					switch a.sh {
					case gcNum:
						c.use("GoctyGo.valueOfBigFloat", "reflect.ValueOf(*big.Float)")
						return single(bs, gcV{"(GoctyGo.valueOfBigFloat " + a.e + ")", gcRV})
					case gcBigInt:
						c.use("GoctyGo.valueOfBigInt", "reflect.ValueOf(*big.Int)")
						return single(bs, gcV{"(GoctyGo.valueOfBigInt " + a.e + ")", gcRV})
					}
					dieAt(call, "reflect.ValueOf of a value of type %s", gcShapeNames[a.sh])
				}
				if _, named := gcNamedVars[id.Name]; !named {
					dieAt(call, "call of %s", src(call.Fun))
				}
			}
		}
		// methods of the given API, by the receiver's type
		bs, recv := c.expr(f.X, en)
		tbl, ok := gcMethods[recv.sh]
		if !ok {
			dieAt(call, "method %s of a value of type %s", f.Sel.Name, gcShapeNames[recv.sh])
		}
		p, ok := tbl[f.Sel.Name]
		if !ok {
			if _, setter := gcSetters[f.Sel.Name]; setter && recv.sh == gcTarget {
				dieAt(call, "%s in an expression", f.Sel.Name)
			}
			dieAt(call, "method %s of %s is not in the given API", f.Sel.Name, gcShapeNames[recv.sh])
		}
		if len(call.Args) != len(p.args) {
			dieAt(call, "%s with %d arguments", f.Sel.Name, len(call.Args))
		}
		if len(p.rets) != want {
			dieAt(call, "%s has %d results, %d wanted", f.Sel.Name, len(p.rets), want)
		}
		args := []string{recv.e}
		for i, a := range call.Args {
			b, v := c.expr(a, en)
			bs = append(bs, b...)
			if p.args[i] == gcNil {
				if v.sh != gcNil {
					dieAt(a, "%s with a non-nil argument (aliasing is not modelled)", f.Sel.Name)
				}
				continue
			}
			args = append(args, c.coerce(a, v, p.args[i]))
		}
		if p.lean == "" { // target.Type()
			return single(bs, gcV{recv.e, p.rets[0]})
		}
		c.use(p.lean, gcShapeNames[recv.sh]+"."+f.Sel.Name)
		text := "(" + p.lean + " " + strings.Join(args, " ") + ")"
		if p.partial {
			c.nk++
			tmp := fmt.Sprintf("x_%d", c.nk)
			bs = append(bs, bind{tmp, text})
			text = tmp
		}
		if len(p.rets) == 1 {
			return bs, []gcV{{text, p.rets[0]}}
		}
		var vs []gcV
		for i, sh := range p.rets {
			if i == 0 {
				vs = append(vs, gcV{text, sh}) // the whole tuple: `assign` names it and projects
			} else {
				vs = append(vs, gcV{"", sh})
			}
		}
		return bs, vs
	}
	dieAt(call, "call %s", src(call.Fun))
	return nil, nil
}

// the definition of a package-level reflect.Type variable must be the expected one
func (t *gcTr) checkNamedVar(at ast.Node, name, want string) {
	for _, f := range t.files {
		for _, d := range f.Decls {
			gd, ok := d.(*ast.GenDecl)
			if !ok || gd.Tok != token.VAR {
				continue
			}
			for _, sp := range gd.Specs {
				vs := sp.(*ast.ValueSpec)
				for i, id := range vs.Names {
					if id.Name != name {
						continue
					}
					if i >= len(vs.Values) || src(vs.Values[i]) != want {
						dieAt(vs, "%s is no longer defined as %s", name, want)
					}
					return
				}
			}
		}
	}
	dieAt(at, "package-level variable %s not found", name)
}

// ---------------------------------------------------------------- driver

func translateGoctyFns(repo, leanDir, hdr string) int {
	files := parseDir(filepath.Join(repo, "cty/gocty"))
	t := &gcTr{files: files, funcs: map[string]*ast.FuncDecl{}, units: map[string]*gcUnit{}, usedAPI: map[string]string{}}
	for _, f := range files {
		if filepath.Base(fset.Position(f.Pos()).Filename) != filepath.Base(gcFile) {
			continue
		}
		for _, d := range f.Decls {
			if fd, ok := d.(*ast.FuncDecl); ok && fd.Recv == nil && fd.Body != nil {
				t.funcs[fd.Name.Name] = fd
			}
		}
	}
	for _, r := range gcRoots {
		fd, ok := t.funcs[r]
		if !ok {
			die("translate: %s not found in %s", r, gcFile)
		}
		if _, done := t.units[r]; !done {
			t.translate(r, fd)
		}
	}
	nOld := len(t.out)
	apiOld := map[string]bool{}
	for k := range t.usedAPI {
		apiOld[k] = true
	}
	defer writeGoctyShapeFns(t, leanDir, hdr, nOld, apiOld) // d18b: the shape checks, second file (translate_gocty_shape.go)
	var lb strings.Builder
	lb.WriteString(hdr)
	lb.WriteString("-- Translation of the scalar decoders of cty/gocty/out.go (extract/translate_gocty.go); tied to the hand-written model\n")
	lb.WriteString("-- CtyModel/Gocty.lean (fromNum, fromNumInt, fromNumUInt, fromNumFloat, fromCtyP) by CtyModel/Lemmas/GoctyFnsTie.lean.\n--\n")
	lb.WriteString("-- TRANSLATED from the source text, statement by statement (a Go panic is `Res.panic`; a returned error is `Res.err` of its\n")
	lb.WriteString("-- format string; `Res.ok g` = nil was returned and the target holds `g`; the target `reflect.Value` is its `GoTy` and the\n")
	lb.WriteString("-- `GoVal` it holds, `path` is erased; `k_n` = the code after an if/switch that several paths reach):\n")
	for _, u := range t.out {
		fmt.Fprintf(&lb, "--   %s  (%s)\n", u.name, u.pos)
	}
	lb.WriteString("-- NOT translated: the rest of out.go (fromCtyValue, fromCtyPopulatePtr and the collection/structure decoders: loops over\n")
	lb.WriteString("-- reflect values, closures, aliasing).  Everything the functions above call outside the file is the GIVEN API of\n")
	lb.WriteString("-- CtyModel/GoctyGo.lean, assumed to be what math/big, reflect and cty do (math/big's results are the hand-written Num model):\n")
	var keys []string
	for k := range t.usedAPI {
		keys = append(keys, k)
	}
	sort.Slice(keys, func(i, j int) bool { return t.usedAPI[keys[i]] < t.usedAPI[keys[j]] })
	for _, k := range keys {
		fmt.Fprintf(&lb, "--   %s ↦ %s\n", t.usedAPI[k], k)
	}
	lb.WriteString("--   math.MinIntN/MaxIntN/MaxUintN ↦ their values (the Go toolchain's); reflect.<Kind> ↦ GoctyGo.Kind.k<Kind>; big.Exact/Below/Above ↦ GoctyGo.Accuracy\n")
	lb.WriteString("import CtyModel.GoctyGo\nset_option linter.unusedVariables false\nnamespace CtyModel.Generated.GoctyFns\n\n")
	for _, u := range t.out[:nOld] {
		lb.WriteString(u.text + "\n")
	}
	lb.WriteString("end CtyModel.Generated.GoctyFns\n")
	writeIfChanged(filepath.Join(leanDir, "GoctyFns.lean"), lb.String())
	return nOld
}
