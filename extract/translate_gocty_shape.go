// Slice d18b: fromCtyValue (cty.Value passthrough, null and unknown guards, dispatch on the type kind) and the SHAPE CHECKS of the
// collection and structure decoders of cty/gocty/out.go — fromCtyList, fromCtySet, fromCtyMap, fromCtyTuple, fromCtyObject — translated by the same statement translator as the scalar decoders
// (translate_gocty.go) into lean/CtyModel/Generated/GoctyShapeFns.lean; Lemmas/d18bShapeTie.lean proves them equal
// to the cases of the hand-written model Gocty.fromCtyP.
//
// Additions to the fragment (everything else still fails closed with the source position):
//
//	recursion     `err := fromCtyValue(ev, target.Field(i), path); if err != nil { return err }` is one step of OPEN
//	              recursion: every function here takes the decoder as its first parameter `rec_` (GoctyGo.Rec)
//	loops         `for i := range xs` over a []cty.Type local: GoctyGo.forRange (the body may only fall through or leave
//	              the function with an error/panic; it may not assign to outer variables)
//	path          statements that only update the erased cty.Path are dropped (three exact forms)
//	reflect/cty   val.IsNull/IsKnown/LengthInt/Type/Index(cty.NumberIntVal(int64(i))), Type.TupleElementTypes, len(xs),
//	              target.Len/Field(i).CanSet, Type.NumField/Key, target.Set(reflect.Zero(target.Type()))
//	views         deepTarget := fromCtyPopulatePtr(target, false) | target = fromCtyPopulatePtr(target, true) | target = deepTarget:
//	              the code goes on with a pointee of the target; what is written there is lifted back (GoctyGo.populateLift)
//	closures      NOT translated.  The five `val.ForEachElement(func …)` loops, each with the statements that prepare
//	              and consume its variables, are PINNED REGIONS: the source text of the region must be, token for token,
//	              the text below; the region then stands for one given-API function (GoctyShapeGo.lean).  Any edit inside a
//	              region is reported as a broken tie.
package main

import (
	"fmt"
	"go/ast"
	"go/token"
	"path/filepath"
	"sort"
	"strings"
)

// the functions that take `rec_`
var gcRecFuncs = map[string]bool{"fromCtyList": true, "fromCtySet": true, "fromCtyMap": true, "fromCtyTuple": true, "fromCtyObject": true, "fromCtyValue": true}

// the functions that range over a Go map inside a pinned region: they take the order `ord_` in which the attribute names are visited
var gcOrdFuncs = map[string]bool{"fromCtyObject": true, "fromCtyValue": true}

// functions of out.go that stay in the given API (not translated): capsules are outside the model
var gcGivenFuncs = map[string]string{"fromCtyCapsule": "GoctyGo.fromCtyCapsule"}

// the entry points of the second generated file
var gcShapeRoots = []string{"fromCtyList", "fromCtySet", "fromCtyMap", "fromCtyTuple", "fromCtyObject", "fromCtyValue"}

var gcPureCalls = map[string]bool{"target.Len()": true}

func init() {
	gcShapeNames[gcCtyTy] = "cty.Type"
	gcShapeNames[gcTyList] = "[]cty.Type"
	gcShapeNames[gcField] = "reflect.Value (a field of the target)"
	gcMethods[gcVal]["IsNull"] = gcPrim{"GoctyGo.valIsNull", nil, []gcShape{gcBool}, false}
	gcMethods[gcVal]["IsKnown"] = gcPrim{"GoctyGo.valIsKnown", nil, []gcShape{gcBool}, false}
	gcMethods[gcVal]["LengthInt"] = gcPrim{"GoctyGo.lengthInt", nil, []gcShape{gcInt}, true}
	gcMethods[gcVal]["Type"] = gcPrim{"Value.ty", nil, []gcShape{gcCtyTy}, false}
	gcMethods[gcCtyTy] = map[string]gcPrim{
		"TupleElementTypes": {"GoctyGo.tupleElementTypes", nil, []gcShape{gcTyList}, true},
		"IsListType":        {"GoctyGo.isListType", nil, []gcShape{gcBool}, false},
		"IsMapType":         {"GoctyGo.isMapType", nil, []gcShape{gcBool}, false},
		"IsSetType":         {"GoctyGo.isSetType", nil, []gcShape{gcBool}, false},
		"IsObjectType":      {"GoctyGo.isObjectType", nil, []gcShape{gcBool}, false},
		"IsTupleType":       {"GoctyGo.isTupleType", nil, []gcShape{gcBool}, false},
		"IsCapsuleType":     {"GoctyGo.isCapsuleType", nil, []gcShape{gcBool}, false},
	}
	gcMethods[gcTarget]["Len"] = gcPrim{"GoctyGo.targetLen", nil, []gcShape{gcInt}, true}
	gcMethods[gcGoTy]["NumField"] = gcPrim{"GoctyGo.numField", nil, []gcShape{gcInt}, true}
	gcMethods[gcGoTy]["Key"] = gcPrim{"GoctyGo.typeKey", nil, []gcShape{gcGoTy}, true}
}

func gcTight(s string) string { return strings.Join(strings.Fields(s), "") }

func gcNorm(s string) string { return strings.Join(strings.Fields(s), " ") }

func gcStmtsText(list []ast.Stmt) string {
	var parts []string
	for _, s := range list {
		parts = append(parts, src(s))
	}
	return gcNorm(strings.Join(parts, "\n"))
}

// a pinned region: `n` consecutive statements of function `fn` whose text is `text`; it stores to the target
type gcRegion struct {
	fn, name string
	n        int
	text     string
	lean     string   // the given-API call; $x = the Lean name of the Go variable x
	uses     []string // Go variables the call reads (must be in scope)
}

const gcLoopIndexed = `i := 0
var err error
val.ForEachElement(func(key cty.Value, val cty.Value) bool {
	path[len(path)-1] = cty.IndexStep{
		Key: cty.NumberIntVal(int64(i)),
	}
	targetElem := %s.Index(i)
	err = fromCtyValue(val, targetElem, path)
	if err != nil {
		return true
	}
	i++
	return false
})
if err != nil {
	return err
}`

const gcLoopPlain = `i := 0
var err error
val.ForEachElement(func(key cty.Value, val cty.Value) bool {
	targetElem := %s.Index(i)
	err = fromCtyValue(val, targetElem, path)
	if err != nil {
		return true
	}
	i++
	return false
})
if err != nil {
	return err
}`

var gcRegions = []gcRegion{
	{"fromCtyList", "listIntoSlice", 8,
		"tv := reflect.MakeSlice(target.Type(), length, length)\npath = append(path, nil)\n" + fmt.Sprintf(gcLoopIndexed, "tv") + "\npath = path[:len(path)-1]\ntarget.Set(tv)",
		"(GoctyGo.listIntoSlice rec_ $val $target $length)", []string{"val", "target", "length"}},
	{"fromCtyList", "listIntoArray", 6,
		"path = append(path, nil)\n" + fmt.Sprintf(gcLoopIndexed, "target") + "\npath = path[:len(path)-1]",
		"(GoctyGo.listIntoArray rec_ $val $target)", []string{"val", "target"}},
	{"fromCtySet", "setIntoSlice", 6,
		"tv := reflect.MakeSlice(target.Type(), length, length)\n" + fmt.Sprintf(gcLoopPlain, "tv") + "\ntarget.Set(tv)",
		"(GoctyGo.setIntoSlice rec_ $val $target $length)", []string{"val", "target", "length"}},
	{"fromCtySet", "setIntoArray", 4,
		fmt.Sprintf(gcLoopPlain, "target"),
		"(GoctyGo.setIntoArray rec_ $val $target)", []string{"val", "target"}},
	{"fromCtyMap", "mapIntoMap", 8,
		`tv := reflect.MakeMap(target.Type())
et := target.Type().Elem()
path = append(path, nil)
var err error
val.ForEachElement(func(key cty.Value, val cty.Value) bool {
	path[len(path)-1] = cty.IndexStep{
		Key: key,
	}
	ks := key.AsString()
	targetElem := reflect.New(et)
	err = fromCtyValue(val, targetElem, path)
	tv.SetMapIndex(reflect.ValueOf(ks), targetElem.Elem())
	return err != nil
})
if err != nil {
	return err
}
path = path[:len(path)-1]
target.Set(tv)`,
		"(GoctyGo.mapIntoMap rec_ $val $target)", []string{"val", "target"}},
	{"fromCtyObject", "objectMissingCheck", 4,
		`attrTypes := val.Type().AttributeTypes()
targetFields := structTagIndices(target.Type())
path = append(path, nil)
for k, i := range targetFields {
	if _, exists := attrTypes[k]; !exists {
		fk := target.Field(i).Kind()
		switch fk {
		case reflect.Ptr, reflect.Slice, reflect.Map, reflect.Interface:
		default:
			return path.NewErrorf("missing required attribute %q", k)
		}
	}
}`,
		"(GoctyGo.objectMissingCheck $val $target target_v)", []string{"val", "target"}},
	{"fromCtyObject", "objectIntoFields", 1,
		`for k := range attrTypes {
	path[len(path)-1] = cty.GetAttrStep{
		Name: k,
	}
	fieldIdx, exists := targetFields[k]
	if !exists {
		return path.NewErrorf("unsupported attribute %q", k)
	}
	ev := val.GetAttr(k)
	targetField := target.Field(fieldIdx)
	if !targetField.CanSet() {
		return likelyRequiredTypesError(path[:len(path)-1], target)
	}
	err := fromCtyValue(ev, targetField, path)
	if err != nil {
		return err
	}
}`,
		"(GoctyGo.objectIntoFields rec_ ord_ $val $target target_v)", []string{"val", "target"}},
}

var gcRegionsSeen = map[string]bool{}

func gcHasFuncLit(n ast.Node) bool {
	found := false
	ast.Inspect(n, func(x ast.Node) bool {
		if _, ok := x.(*ast.FuncLit); ok {
			found = true
		}
		return !found
	})
	return found
}

// is e an expression over the erased path only (path, path[:len(path)-1])?
func gcIsPathExpr(e ast.Expr, en gcEnv) bool {
	switch x := e.(type) {
	case *ast.Ident:
		return en[x.Name] == gcPath
	case *ast.SliceExpr:
		id, ok := x.X.(*ast.Ident)
		return ok && en[id.Name] == gcPath && gcTight(src(e)) == id.Name+"[:len("+id.Name+")-1]"
	}
	return false
}

// a statement that only updates the erased path
func gcIsPathStmt(s ast.Stmt, en gcEnv) bool {
	as, ok := s.(*ast.AssignStmt)
	if !ok || as.Tok != token.ASSIGN || len(as.Lhs) != 1 || len(as.Rhs) != 1 {
		return false
	}
	switch l := as.Lhs[0].(type) {
	case *ast.Ident:
		if en[l.Name] != gcPath {
			return false
		}
		r := gcTight(src(as.Rhs[0]))
		if r == "append("+l.Name+",nil)" || r == l.Name+"[:len("+l.Name+")-1]" {
			return true
		}
		dieAt(s, "assignment to the path: %s", src(s))
	case *ast.IndexExpr:
		id, ok := l.X.(*ast.Ident)
		if !ok || en[id.Name] != gcPath {
			return false
		}
		if gcTight(src(l.Index)) != "len("+id.Name+")-1" {
			dieAt(s, "assignment to a path step other than the last: %s", src(s))
		}
		cl, ok := as.Rhs[0].(*ast.CompositeLit)
		if !ok || (src(cl.Type) != "cty.IndexStep" && src(cl.Type) != "cty.GetAttrStep") || gcHasFuncLit(cl) {
			dieAt(s, "path step %s", src(as.Rhs[0]))
		}
		return true
	}
	return false
}

// the statement forms added by this slice; ok = false: not one of them
func (c *gcCtx) shapeStmts(list []ast.Stmt, en gcEnv, k func(gcEnv) string) (string, bool) {
	// pinned regions
	for _, r := range gcRegions {
		if r.fn != c.u.name {
			continue
		}
		first := gcNorm(strings.SplitN(r.text, "\n", 2)[0])
		if (len(list) < r.n || gcStmtsText(list[:r.n]) != gcNorm(r.text)) && strings.HasPrefix(gcNorm(src(list[0])), first) && !gcRegionsSeen[r.fn+"."+r.name] {
			// the region starts here but its text differs: fail closed, naming the region
			alt := false
			for _, r2 := range gcRegions {
				if r2.fn == r.fn && r2.name != r.name && len(list) >= r2.n && gcStmtsText(list[:r2.n]) == gcNorm(r2.text) {
					alt = true
				}
			}
			if !alt {
				dieAt(list[0], "the pinned region %s of %s changed: its source text is no longer the text GoctyGo.%s was written against (any edit inside a pinned region is a broken tie)", r.name, r.fn, r.name)
			}
		}
		if len(list) < r.n {
			continue
		}
		if gcStmtsText(list[:r.n]) != gcNorm(r.text) {
			continue
		}
		lean := r.lean
		for _, v := range r.uses {
			sh, ok := en[v]
			if !ok {
				dieAt(list[0], "region %s: %s is not in scope", r.name, v)
			}
			name := gcLv(v)
			if sh == gcTarget {
				if v != c.target {
					dieAt(list[0], "region %s: %s is not the target", r.name, v)
				}
			}
			lean = strings.ReplaceAll(lean, "$"+v, name)
		}
		gcRegionsSeen[r.fn+"."+r.name] = true
		c.use("GoctyGo."+r.name, "PINNED REGION "+r.fn+": "+r.name)
		rest := list[r.n:]
		return wrap([]bind{{c.targetState(), lean}}, c.stmts(rest, en, k)), true
	}
	s, rest := list[0], list[1:]
	next := func(e gcEnv) string { return c.stmts(rest, e, k) }
	switch s.(type) {
	case *ast.IfStmt, *ast.SwitchStmt, *ast.RangeStmt, *ast.BlockStmt:
	default:
		if gcHasFuncLit(s) {
			dieAt(s, "a closure outside the pinned regions (the region's text changed?): %s", gcNorm(src(s)))
		}
	}
	if gcIsPathStmt(s, en) {
		return next(en), true
	}
	if out, ok := c.viewStmt(s, en, next); ok {
		return out, true
	}
	switch s := s.(type) {
	case *ast.ExprStmt:
		// target.Set(reflect.Zero(target.Type()))
		if c.target != "" && gcNorm(src(s.X)) == c.target+".Set(reflect.Zero("+c.target+".Type()))" {
			c.use("GoctyGo.setZero", "reflect.Value.Set(reflect.Zero(target.Type()))")
			return wrap([]bind{{c.targetState(), c.lifted(en, "(GoctyGo.setZero "+c.curTy(en)+")")}}, next(en)), true
		}
	case *ast.AssignStmt:
		if len(s.Lhs) == 1 && len(s.Rhs) == 1 && s.Tok == token.DEFINE {
			name, ok := s.Lhs[0].(*ast.Ident)
			call, ok2 := s.Rhs[0].(*ast.CallExpr)
			if ok && ok2 {
				// f := target.Field(e)
				if sel, ok := call.Fun.(*ast.SelectorExpr); ok && sel.Sel.Name == "Field" {
					if id, ok := sel.X.(*ast.Ident); ok && id.Name == c.target && len(call.Args) == 1 {
						if _, dup := en[name.Name]; dup {
							dieAt(s, "redeclaration or shadowing of %s", name.Name)
						}
						bs, v := c.expr(call.Args[0], en)
						if len(bs) > 0 || !gcIsInt(v.sh) {
							dieAt(s, "field index %s", src(call.Args[0]))
						}
						c.fields[name.Name] = v.e
						return next(en.with(name.Name, gcField)), true
					}
				}
				// err := fromCtyValue(v, f, path); if err != nil { return err }
				if fid, ok := call.Fun.(*ast.Ident); ok && fid.Name == "fromCtyValue" {
					if !c.u.hasRec {
						dieAt(s, "recursive call of fromCtyValue in %s", c.u.name)
					}
					if len(rest) == 0 || gcNorm(src(rest[0])) != "if "+name.Name+" != nil { return "+name.Name+" }" {
						dieAt(s, "the error of fromCtyValue is not returned at once")
					}
					if len(call.Args) != 3 || !gcIsPathExpr(call.Args[2], en) {
						dieAt(s, "call %s", src(call))
					}
					fld, ok := call.Args[1].(*ast.Ident)
					if !ok || en[fld.Name] != gcField {
						dieAt(s, "the target of the recursive call is not a field of the target: %s", src(call.Args[1]))
					}
					bs, v := c.expr(call.Args[0], en)
					if v.sh != gcVal {
						dieAt(s, "fromCtyValue of a %s", gcShapeNames[v.sh])
					}
					c.use("GoctyGo.intoField", "err := fromCtyValue(v, target.Field(i), path); if err != nil { return err }")
					bs = append(bs, bind{c.targetState(), fmt.Sprintf("(GoctyGo.intoField rec_ %s %s %s %s)", gcLv(c.target), c.targetState(), c.fields[fld.Name], v.e)})
					return wrap(bs, c.stmts(rest[1:], en, k)), true
				}
			}
		}
	case *ast.RangeStmt:
		// for i := range xs   (xs a []cty.Type local)
		key, ok := s.Key.(*ast.Ident)
		xs, ok2 := s.X.(*ast.Ident)
		if !ok || !ok2 || s.Value != nil || s.Tok != token.DEFINE || en[xs.Name] != gcTyList || key.Name == "_" {
			dieAt(s, "range statement %s", gcNorm(src(s))[:40])
		}
		if _, dup := en[key.Name]; dup {
			dieAt(s, "redeclaration or shadowing of %s", key.Name)
		}
		// the body may not assign to variables declared outside it (other than the erased path)
		vars, _ := c.mutated(s.Body, en)
		for _, v := range vars {
			if en[v] != gcPath {
				dieAt(s, "the loop body assigns to %s", v)
			}
		}
		c.inLoop++
		body := c.stmts(s.Body.List, en.with(key.Name, gcInt), func(gcEnv) string { return "(Res.ok " + c.targetState() + ")" })
		c.inLoop--
		c.use("GoctyGo.forRange", "for i := range xs")
		loop := fmt.Sprintf("(GoctyGo.forRange (List.length %s) (fun (%s : Int) (%s : GoVal) =>\n%s) %s)", gcLv(xs.Name), gcLv(key.Name), c.targetState(), indent(body), c.targetState())
		return wrap([]bind{{c.targetState(), loop}}, next(en)), true
	}
	return "", false
}

// the expression forms added by this slice
func (c *gcCtx) shapeCall(call *ast.CallExpr, en gcEnv, want int) ([]bind, []gcV, bool) {
	if call.Ellipsis.IsValid() {
		return nil, nil, false
	}
	switch f := call.Fun.(type) {
	case *ast.Ident:
		// len(xs)
		if f.Name == "len" && len(call.Args) == 1 && want == 1 {
			if _, local := en["len"]; local {
				return nil, nil, false
			}
			bs, v := c.expr(call.Args[0], en)
			if v.sh != gcTyList {
				dieAt(call, "len of a %s", gcShapeNames[v.sh])
			}
			return bs, []gcV{{"((List.length " + v.e + " : Nat) : Int)", gcInt}}, true
		}
	case *ast.SelectorExpr:
		id, ok := f.X.(*ast.Ident)
		if !ok {
			return nil, nil, false
		}
		switch {
		case en[id.Name] == gcVal && f.Sel.Name == "Index" && want == 1:
			// val.Index(cty.NumberIntVal(int64(i)))
			if len(call.Args) != 1 {
				dieAt(call, "Index with %d arguments", len(call.Args))
			}
			a, ok := call.Args[0].(*ast.CallExpr)
			if !ok || src(a.Fun) != "cty.NumberIntVal" || len(a.Args) != 1 {
				dieAt(call, "Index(%s)", src(call.Args[0]))
			}
			conv, ok := a.Args[0].(*ast.CallExpr)
			if !ok || src(conv.Fun) != "int64" || len(conv.Args) != 1 {
				dieAt(call, "Index(%s)", src(call.Args[0]))
			}
			bs, v := c.expr(conv.Args[0], en)
			if v.sh != gcInt {
				dieAt(call, "Index of a %s", gcShapeNames[v.sh])
			}
			c.nk++
			tmp := fmt.Sprintf("x_%d", c.nk)
			c.use("GoctyGo.valIndex", "cty.Value.Index(cty.NumberIntVal(int64(i)))")
			bs = append(bs, bind{tmp, "(GoctyGo.valIndex " + gcLv(id.Name) + " " + v.e + ")"})
			return bs, []gcV{{tmp, gcVal}}, true
		case en[id.Name] == gcField && want == 1:
			if f.Sel.Name != "CanSet" || len(call.Args) != 0 {
				dieAt(call, "method %s of a field of the target", f.Sel.Name)
			}
			c.nk++
			tmp := fmt.Sprintf("x_%d", c.nk)
			c.use("GoctyGo.fieldCanSet", "target.Field(i).CanSet()")
			return []bind{{tmp, "(GoctyGo.fieldCanSet " + gcLv(c.target) + " " + c.fields[id.Name] + ")"}}, []gcV{{tmp, gcBool}}, true
		}
	}
	return nil, nil, false
}

// the second generated file: the units translated after the scalar ones
func writeGoctyShapeFns(t *gcTr, leanDir, hdr string, nOld int, apiOld map[string]bool) int {
	for _, r := range gcShapeRoots {
		fd, ok := t.funcs[r]
		if !ok {
			die("translate: %s not found in %s", r, gcFile)
		}
		if _, done := t.units[r]; !done {
			t.translate(r, fd)
		}
	}
	for _, r := range gcRegions {
		if !gcRegionsSeen[r.fn+"."+r.name] {
			die("translate: the pinned region %s of %s was not found: the text of the ForEachElement loop or of the statements around it changed (%s)", r.name, r.fn, gcFile)
		}
	}
	var lb strings.Builder
	lb.WriteString(hdr)
	lb.WriteString("-- Translation of the SHAPE CHECKS of the collection and structure decoders of cty/gocty/out.go (extract/translate_gocty_shape.go);\n")
	lb.WriteString("-- tied to the hand-written model CtyModel/Gocty.lean (fromCtyP) by CtyModel/Lemmas/d18bShapeTie.lean.  Conventions as in GoctyFns.lean;\n")
	lb.WriteString("-- `rec_` = the recursive call fromCtyValue(v, t, path) on a fresh zero target (open recursion).\n--\n-- TRANSLATED statement by statement:\n")
	for _, u := range t.out[nOld:] {
		fmt.Fprintf(&lb, "--   %s  (%s)\n", u.name, u.pos)
	}
	lb.WriteString("-- NOT translated: the five val.ForEachElement(func …) loops (closures) and the two loops over Go maps of fromCtyObject.  Each is a PINNED\n")
	lb.WriteString("-- REGION: its source text is compared token for token with the text its given-API function was written against (any edit = broken tie).\n")
	lb.WriteString("-- fromCtyPopulatePtr (a loop over reflect values that allocates) is given API (populateTy / populateLift); fromCtyCapsule is not translated\n")
	lb.WriteString("-- (capsules are outside the model).  GIVEN API (GoctyGo.lean, GoctyShapeGo.lean):\n")
	var keys []string
	for k := range t.usedAPI {
		if !apiOld[k] {
			keys = append(keys, k)
		}
	}
	sortStrings(keys)
	for _, k := range keys {
		fmt.Fprintf(&lb, "--   %s ↦ %s\n", t.usedAPI[k], k)
	}
	lb.WriteString("import CtyModel.GoctyShapeGo\nimport CtyModel.Generated.GoctyFns\nset_option linter.unusedVariables false\nnamespace CtyModel.Generated.GoctyShapeFns\nopen CtyModel.Generated.GoctyFns\n\n")
	for _, u := range t.out[nOld:] {
		lb.WriteString(u.text + "\n")
	}
	lb.WriteString("end CtyModel.Generated.GoctyShapeFns\n")
	writeIfChanged(filepath.Join(leanDir, "GoctyShapeFns.lean"), lb.String())
	return len(t.out) - nOld
}

func sortStrings(a []string) { sort.Strings(a) }

// ---------------------------------------------------------------- views of the target (fromCtyValue)
//
// `deepTarget := fromCtyPopulatePtr(target, false)`, `target = fromCtyPopulatePtr(target, true)` and `target = deepTarget`
// make the code work on a pointee of the target.  A view is the pointee's type and the function that rebuilds the value
// the ORIGINAL target holds from the value written through the view; which view the name `target` currently stands for
// is part of the environment (key gcViewKey), so it is scoped like an assignment.

type gcView struct {
	ty   string // Lean expression of the type the view has
	lift string // Lean function GoVal → GoVal back to the original target ("" = identity)
}

const gcViewKey = "\x00view"

func (c *gcCtx) view(en gcEnv) gcView {
	if i, ok := en[gcViewKey]; ok {
		return c.views[int(i)]
	}
	return gcView{ty: gcLv(c.target)}
}

func (c *gcCtx) curTy(en gcEnv) string { return c.view(en).ty }

// the value the current view holds when a callee starts: the target's own state, or a fresh zero behind pointers just allocated
func (c *gcCtx) curState(en gcEnv) string {
	if v := c.view(en); v.lift != "" {
		return "(Gocty.zeroVal " + v.ty + ")"
	}
	return c.targetState()
}

// an outcome of an operation on the current view, as an outcome for the original target
func (c *gcCtx) lifted(en gcEnv, e string) string {
	if v := c.view(en); v.lift != "" {
		c.use("GoctyGo.liftRes", "writing through fromCtyPopulatePtr(target, …)")
		return "(GoctyGo.liftRes " + v.lift + " " + e + ")"
	}
	return e
}

func (c *gcCtx) viewTyOf(name string, en gcEnv) string {
	if name == c.target {
		return c.curTy(en)
	}
	if i, ok := c.vvars[name]; ok {
		return c.views[i].ty
	}
	return gcLv(name)
}

// fromCtyPopulatePtr(target, true|false) as a view of the current view
func (c *gcCtx) populate(call *ast.CallExpr, en gcEnv) (gcView, bool) {
	id, ok := call.Fun.(*ast.Ident)
	if !ok || id.Name != "fromCtyPopulatePtr" || len(call.Args) != 2 {
		return gcView{}, false
	}
	t, ok := call.Args[0].(*ast.Ident)
	b, ok2 := call.Args[1].(*ast.Ident)
	if !ok || !ok2 || t.Name != c.target || (b.Name != "true" && b.Name != "false") {
		dieAt(call, "call %s", src(call))
	}
	cur := c.view(en)
	c.use("GoctyGo.populateTy", "fromCtyPopulatePtr(target, decodingNull): the type of the value returned")
	c.use("GoctyGo.populateLift", "fromCtyPopulatePtr(target, decodingNull): the pointers allocated on the way")
	v := gcView{ty: "(GoctyGo.populateTy " + cur.ty + " " + b.Name + ")", lift: "(GoctyGo.populateLift " + cur.ty + " " + b.Name + ")"}
	if cur.lift != "" {
		v.lift = "(fun g => " + cur.lift + " (" + v.lift + " g))"
	}
	return v, true
}

func (c *gcCtx) addView(v gcView) int {
	if len(c.views) == 0 {
		c.views = append(c.views, gcView{ty: gcLv(c.target)})
	}
	c.views = append(c.views, v)
	return len(c.views) - 1
}

// statements about views; ok = false: not one of them
func (c *gcCtx) viewStmt(s ast.Stmt, en gcEnv, next func(gcEnv) string) (string, bool) {
	switch s := s.(type) {
	case *ast.AssignStmt:
		if len(s.Lhs) != 1 || len(s.Rhs) != 1 {
			return "", false
		}
		l, ok := s.Lhs[0].(*ast.Ident)
		if !ok {
			return "", false
		}
		if call, ok := s.Rhs[0].(*ast.CallExpr); ok {
			if v, ok := c.populate(call, en); ok {
				i := c.addView(v)
				switch {
				case s.Tok == token.DEFINE:
					if _, dup := en[l.Name]; dup {
						dieAt(s, "redeclaration or shadowing of %s", l.Name)
					}
					c.vvars[l.Name] = i
					return next(en.with(l.Name, gcTarget)), true
				case l.Name == c.target:
					return next(en.with(gcViewKey, gcShape(i))), true
				}
				dieAt(s, "assignment %s", src(s))
			}
		}
		// target = <view variable>
		if r, ok := s.Rhs[0].(*ast.Ident); ok && s.Tok == token.ASSIGN && l.Name == c.target {
			if i, ok := c.vvars[r.Name]; ok {
				return next(en.with(gcViewKey, gcShape(i))), true
			}
		}
	case *ast.ExprStmt:
		// X.Set(reflect.ValueOf(val)) for a view variable X and a cty.Value val
		call, ok := s.X.(*ast.CallExpr)
		if !ok {
			return "", false
		}
		sel, ok := call.Fun.(*ast.SelectorExpr)
		if !ok || sel.Sel.Name != "Set" || len(call.Args) != 1 {
			return "", false
		}
		x, ok := sel.X.(*ast.Ident)
		if !ok {
			return "", false
		}
		i, isView := c.vvars[x.Name]
		if !isView {
			return "", false
		}
		vo, ok := call.Args[0].(*ast.CallExpr)
		if !ok || src(vo.Fun) != "reflect.ValueOf" || len(vo.Args) != 1 {
			dieAt(s, "statement %s", src(s))
		}
		bs, v := c.expr(vo.Args[0], en)
		if v.sh != gcVal {
			dieAt(s, "%s.Set of a %s", x.Name, gcShapeNames[v.sh])
		}
		c.use("GoctyGo.setCval", "reflect.Value.Set(reflect.ValueOf(cty.Value))")
		c.use("GoctyGo.liftRes", "writing through fromCtyPopulatePtr(target, …)")
		vw := c.views[i]
		bs = append(bs, bind{c.targetState(), "(GoctyGo.liftRes " + vw.lift + " (GoctyGo.setCval " + vw.ty + " " + v.e + "))"})
		return wrap(bs, next(en)), true
	}
	return "", false
}

// a callee that stays in the given API
func (c *gcCtx) givenFunc(name string, call *ast.CallExpr, en gcEnv) (string, bool) {
	lean, ok := gcGivenFuncs[name]
	if !ok {
		return "", false
	}
	if len(call.Args) != 3 || !gcIsPathExpr(call.Args[2], en) {
		dieAt(call, "call %s", src(call))
	}
	t, ok := call.Args[1].(*ast.Ident)
	if !ok || t.Name != c.target {
		dieAt(call, "target argument %s", src(call.Args[1]))
	}
	bs, v := c.expr(call.Args[0], en)
	if v.sh != gcVal {
		dieAt(call, "%s of a %s", name, gcShapeNames[v.sh])
	}
	c.use(lean, name+" (NOT translated: capsules are outside the model)")
	return wrap(bs, c.lifted(en, "("+lean+" "+v.e+" "+c.curTy(en)+")")), true
}

// cty.Bool / cty.Number / cty.String
func (c *gcCtx) shapeSelector(x *ast.SelectorExpr) (gcV, bool) {
	id, ok := x.X.(*ast.Ident)
	if !ok || id.Name != "cty" {
		return gcV{}, false
	}
	switch x.Sel.Name {
	case "Bool":
		return gcV{"Ty.bool", gcCtyTy}, true
	case "Number":
		return gcV{"Ty.number", gcCtyTy}, true
	case "String":
		return gcV{"Ty.string", gcCtyTy}, true
	}
	return gcV{}, false
}
