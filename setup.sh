#!/bin/sh
# MANIFEST.setup_cmd — offline build of the framework from files on disk only.
set -e
cd "$(dirname "$0")"
export GOFLAGS=-mod=mod GOPROXY=off GOSUMDB=off GOTOOLCHAIN=local
mkdir -p .bin evidence replays
( cd extract && go build -o ../.bin/ctyextract . && ../.bin/ctyextract -repo /repo -lean ../lean/CtyModel/Generated -harness ../harness )
cp /repo/go.sum harness/go.sum
( cd harness && go build -tags verif -o ../.bin/ctyharness . && ../.bin/ctyharness -dumpspecs ../lean/CtyModel/Generated )
( cd lean && lake build CtyModel ctydrv )
echo setup ok
