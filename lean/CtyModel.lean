-- root of the library: everything the checks build
import CtyModel.Props.C07
import CtyModel.Props.C03
import CtyModel.Props.C08
import CtyModel.Props.C10
import CtyModel.Props.C11
import CtyModel.Props.C14
import CtyModel.Props.C18
import CtyModel.Props.C05
import CtyModel.Props.C04
import CtyModel.Props.C16
import CtyModel.Props.C15
import CtyModel.Props.C13
import CtyModel.Props.C06
import CtyModel.Props.C20
import CtyModel.Props.C01
import CtyModel.Props.C12
import CtyModel.Props.C09
