-- root of the library: everything the checks build
import CtyModel.Props.C07
import CtyModel.Props.C03
import CtyModel.Props.C19
