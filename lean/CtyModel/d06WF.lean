/-
C06 (d06) — "sets hold no duplicate members", restated so that it cannot pass for the
wrong reason.

`noDup` (WF.lean) reads every `Equals` outcome that is not `.ok` — a panic, or
`.unmodelled` as for capsule members, whose equality the model cannot see — as "not
equivalent": a set of two identical capsules passes.  Here

  * `noDupS` is STRICT: every pair of members must have an `Equals` the model can
    evaluate, and the answer must not be "known true";
  * capsule equality is an abstract PARAMETER.  A capsule payload is opaque (`.caps`
    carries no identity), so the parameter is a tagging `cid : Nat → Nat` of the capsule
    leaves of the value, numbered in dump (pre-)order: two capsule leaves are equal iff
    they carry the same tag.  Every equivalence relation on capsule payloads is such a
    tagging (class representatives); for capsule types without custom `Equals` the
    harness sends pointer identity (`EncapsulatedValue()`).  `relabel cid` makes the tags
    visible to the modelled `Equals` by putting a one-element tuple holding the integer
    tag in the place of each capsule leaf, and `decapTy` reads `capsule _` as
    `tuple [number]` (a type that, like a capsule type, admits only the nullness
    refinement, so unknown capsules stay as they are).

`Value.WFc cid nfc v` = `Value.WF nfc v` ∧ every set at every depth of the relabelled
value is strictly duplicate-free.  This is what the driver's `wfc` verb evaluates.

Core Lean only: the driver links this file.
-/
import CtyModel.WFCons
namespace CtyModel
namespace D06

mutual
/-- capsule types read as `tuple [number]` -/
def decapTy : Ty → Ty
  | .capsule _ => .tuple [.number]
  | .list e => .list (decapTy e)
  | .set e => .set (decapTy e)
  | .map e => .map (decapTy e)
  | .tuple es => .tuple (decapTyL es)
  | .object ns ts os => .object ns (decapTyL ts) os
  | t => t
def decapTyL : List Ty → List Ty
  | [] => []
  | t :: ts => decapTy t :: decapTyL ts
end

mutual
/-- does a capsule type occur in the type? -/
def hasCapsTy : Ty → Bool
  | .capsule _ => true
  | .list e | .set e | .map e => hasCapsTy e
  | .tuple es => hasCapsTyL es
  | .object _ ts _ => hasCapsTyL ts
  | _ => false
def hasCapsTyL : List Ty → Bool
  | [] => false
  | t :: ts => hasCapsTy t || hasCapsTyL ts
end

mutual
/-- number of capsule leaves of a payload -/
def capsCount : Payload → Nat
  | .caps => 1
  | .marked _ r => capsCount r
  | .seq vs | .smap _ vs | .sset _ vs => capsCountL vs
  | _ => 0
def capsCountL : List Payload → Nat
  | [] => 0
  | v :: vs => capsCount v + capsCountL vs
end

mutual
/-- capsule leaf number `k`, `k+1`, … (dump order) replaced by the tuple holding its tag -/
def relabel (cid : Nat → Nat) : Payload → Nat → Payload
  | .caps, k => .seq [.n (Num.ofNat (cid k))]
  | .marked ms r, k => .marked ms (relabel cid r k)
  | .seq vs, k => .seq (relabelL cid vs k)
  | .smap ks vs, k => .smap ks (relabelL cid vs k)
  | .sset ids vs, k => .sset ids (relabelL cid vs k)
  | p, _ => p
def relabelL (cid : Nat → Nat) : List Payload → Nat → List Payload
  | [], _ => []
  | v :: vs, k => relabel cid v k :: relabelL cid vs (k + capsCount v)
end

/-- the value with its capsule leaves made comparable -/
def decap (cid : Nat → Nat) (v : Value) : Value := ⟨decapTy v.ty, relabel cid v.v 0⟩

/-- three-valued `setRules.Equivalent`: `none` when the model cannot evaluate `Equals` on the pair -/
def equivR (e : Ty) (x y : Payload) : Option Bool :=
  match Value.equalsP e x e y with
  | .ok v => some v.isTrue
  | _ => none

/-- STRICTLY no duplicates: for every member and every later one, `Equals` evaluates and is not known true -/
def noDupS (e : Ty) : List Payload → Bool
  | [] => true
  | x :: xs => xs.all (fun y => equivR e x y == some false) && noDupS e xs

mutual
/-- every set, at every depth, is strictly duplicate-free -/
def setsDupFree : Ty → Payload → Bool
  | t, .marked _ r => setsDupFree t r
  | .list e, .seq vs => dupFreeAll e vs
  | .map e, .smap _ vs => dupFreeAll e vs
  | .set e, .sset _ vs => noDupS e vs && dupFreeAll e vs
  | .tuple es, .seq vs => dupFreeZip es vs
  | .object _ ts _, .smap _ vs => dupFreeZip ts vs
  | _, _ => true
def dupFreeAll : Ty → List Payload → Bool
  | _, [] => true
  | e, v :: vs => setsDupFree e v && dupFreeAll e vs
def dupFreeZip : List Ty → List Payload → Bool
  | t :: ts, v :: vs => setsDupFree t v && dupFreeZip ts vs
  | _, _ => true
end

/-- "sets hold no duplicate members", capsule equality given by the tagging `cid` -/
def dupFreeC (cid : Nat → Nat) (v : Value) : Bool := setsDupFree (decapTy v.ty) (relabel cid v.v 0)

/-- a tagging given as the list of tags in dump order -/
def cidOf (l : List Nat) : Nat → Nat := fun k => l.getD k 0

end D06

namespace Value
/-- C06 with the duplicate clause at full strength: `WF`, and no set at any depth holds two members that are
equal — capsules compared by `cid` — or whose equality cannot be evaluated -/
def WFc (cid : Nat → Nat) (nfc : String → Bool) (v : Value) : Bool := v.WF nfc && D06.dupFreeC cid v
end Value

/-! ### diagnostics (driver output only) -/
namespace D06

/-- first reason why a member list is not strictly duplicate-free -/
def noDupSWhy (e : Ty) : List Payload → Option String
  | [] => none
  | x :: xs =>
    if xs.any (fun y => equivR e x y == some true) then some "set-duplicate"
    else if xs.any (fun y => equivR e x y == none) then some "set-equals-undecided"
    else noDupSWhy e xs

mutual
def dupWhy : Ty → Payload → Option String
  | t, .marked _ r => dupWhy t r
  | .list e, .seq vs => dupWhyAll e vs
  | .map e, .smap _ vs => dupWhyAll e vs
  | .set e, .sset _ vs => (noDupSWhy e vs).orElse fun _ => dupWhyAll e vs
  | .tuple es, .seq vs => dupWhyZip es vs
  | .object _ ts _, .smap _ vs => dupWhyZip ts vs
  | _, _ => none
def dupWhyAll : Ty → List Payload → Option String
  | _, [] => none
  | e, v :: vs => (dupWhy e v).orElse fun _ => dupWhyAll e vs
def dupWhyZip : List Ty → List Payload → Option String
  | t :: ts, v :: vs => (dupWhy t v).orElse fun _ => dupWhyZip ts vs
  | _, _ => none
end

/-- the driver's verdict for `wfc`: decided by `WFc`, labelled by `wfWhy` / `dupWhy` -/
def wfcVerdict (cids : List Nat) (nfc : String → Bool) (v : Value) : String :=
  if capsCount v.v != cids.length then "fail decode-capsule-tags"
  else if v.WFc (cidOf cids) nfc then "pass"
  else if !v.WF nfc then "fail " ++ v.wfWhy nfc
  else "fail " ++ ((dupWhy (decapTy v.ty) (relabel (cidOf cids) v.v 0)).getD "?")

end D06
end CtyModel
