/-
C20 (d20) — goroutines over the heap model: the executable definitions (theorems:
`Lemmas/d20Conc.lean`).  Core Lean only: the driver runs `Arena.act` under
`Interleave.exec` and `Global.exec` (op `heap.conc`) against real goroutines.
-/
import CtyModel.HeapOps
import CtyModel.Interleave
namespace CtyModel
namespace Heap
namespace Conc

/-- the API entry points of the model whose write set is empty in EVERY state: all but
the two documented ownership transfers, the mutating methods of helper sets and the
continuation of a running `Walk` (which appends to the walk's own path buffer) -/
def readOnlyApi : Api → Bool
  | .numberVal _ | .tupleType _ | .vsAdd .. | .vsRemove .. | .psAdd .. | .psRemove .. | .psAddAllSteps .. | .walkNext _ => false
  | _ => true

/-- caller actions that only allocate -/
def allocOnly : Caller → Bool
  | .newFloat _ | .newSlice .. | .newMap _ | .newMarks _ | .newTypes _ | .newTypeMap _ | .nilPath
  | .elemPath .. => true
  | _ => false

/-- the step respects the ownership rules and its write set holds no object below
address `n` (the shared heap) -/
def sharedSafe (n : Nat) (st : St) (op : HeapOp) : Bool :=
  respectful st op && (List.range n).all fun x => !wset st op x

/-- the guarded step of a goroutine: a step whose write set reaches into the shared
heap is outside the theorems (the goroutine is stuck) -/
def gstep (n : Nat) (st : St) (op : HeapOp) : Option St :=
  if sharedSafe n st op then step st op else none

/-- what a goroutine gets back running alone from `st`: the state after every step
(`none`: the step did not apply) -/
def soloTrace (n : Nat) : St → List HeapOp → List (Option St)
  | _, [] => []
  | st, op :: ops =>
    match gstep n st op with
    | some st' => some st' :: soloTrace n st' ops
    | none => none :: soloTrace n st ops

/-- the same with the unguarded step of the model -/
def stepTrace : St → List HeapOp → List (Option St)
  | _, [] => []
  | st, op :: ops =>
    match step st op with
    | some st' => some st' :: stepTrace st' ops
    | none => none :: stepTrace st ops

/-- programs made of read-only API calls and allocating caller actions -/
def readOnlyOp : HeapOp → Bool
  | .api c => readOnlyApi c
  | .caller c => allocOnly c

namespace Arena
open Interleave

/-- cell 0: the shared state; cell `i+1`: goroutine `i`'s arena and registers -/
abbrev Cells := Memory St

/-- what goroutine `i` sees: the shared heap followed by its own arena, its own registers -/
def view (m : Cells) (i : Nat) : St := { m (i + 1) with mem := (m 0).mem ++ (m (i + 1)).mem }

/-- one step of goroutine `i`: `Heap.step` on its view; BOTH the shared cell and the
goroutine's cell are written back from the result -/
def act (i : Nat) (op : HeapOp) : Act St (Option St) where
  run m :=
    let n := (m 0).mem.length
    match gstep n (view m i) op with
    | some st' =>
      (fun a => if a = i + 1 then { st' with mem := st'.mem.drop n }
                else if a = 0 then { m 0 with mem := st'.mem.take n } else m a, some st')
    | none => (m, none)

/-- the goroutines start with the registers of `st0` (every existing value and Go
object is shared) and an empty arena -/
def cells0 (st0 : St) : Cells := fun a => if a = 0 then st0 else { st0 with mem := [] }

/-- the programs of the goroutines as steps over the cells -/
def prog (progs : Nat → List HeapOp) (i : Nat) : List (Act St (Option St)) := (progs i).map (act i)

end Arena

namespace Global

/-- a concurrent configuration: ONE heap, registers per goroutine, what each
goroutine still has to do -/
structure Cfg where
  mem : Mem
  regs : Nat → St
  todo : Nat → List HeapOp
  out : Nat → List (Option St) := fun _ => []

/-- the scheduler picks goroutine `i`: its next step (`f` = the step function) runs on
the global heap -/
def tickWith (f : St → HeapOp → Option St) (c : Cfg) (i : Nat) : Cfg :=
  match c.todo i with
  | [] => c
  | op :: rest =>
    match f { c.regs i with mem := c.mem } op with
    | some st' =>
      { mem := st'.mem, regs := Interleave.upd c.regs i st', todo := Interleave.upd c.todo i rest,
        out := Interleave.upd c.out i (c.out i ++ [some st']) }
    | none => { c with todo := Interleave.upd c.todo i rest, out := Interleave.upd c.out i (c.out i ++ [none]) }

def execWith (f : St → HeapOp → Option St) (c : Cfg) : List Nat → Cfg
  | [] => c
  | i :: s => execWith f (tickWith f c i) s

/-- with the guarded step: a step whose write set reaches into the first `n` objects is not admitted -/
def tick (n : Nat) (c : Cfg) (i : Nat) : Cfg := tickWith (gstep n) c i

def exec (n : Nat) (c : Cfg) (s : List Nat) : Cfg := execWith (gstep n) c s

def start (st0 : St) (progs : Nat → List HeapOp) : Cfg := { mem := st0.mem, regs := fun _ => st0, todo := progs }

end Global

end Conc
end Heap
end CtyModel
