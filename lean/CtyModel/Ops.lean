/-
Operation methods of `cty.Value` (cty/value_ops.go, helper.go, value_range.go):
transliteration layer.  Every function follows the Go control flow branch for
branch; a Go panic is `.panic`.  Inputs the model deliberately does not decide
are `.unmodelled` (never compared): the pointer-identity test `val == Zero` in
Multiply, and hash bytes of strings that need `strconv.Quote`'s escaping tables.

Conventions: object attributes and map keys are the ascending parallel lists of
`Payload.smap`; a set is `Payload.sset ids vs` with the bucket id (hash) of each
member as delivered by the implementation (an oracle column — crc32 and %q
quoting are not re-derived when members are merely moved around).
-/
import CtyModel.Marks
import CtyModel.NumText
namespace CtyModel

def maxInt : Int := 9223372036854775807

namespace Value

def boolVal (b : Bool) : Value := ⟨.bool, .b b⟩
def numVal (n : Num) : Value := ⟨.number, .n n⟩
def intVal (i : Int) : Value := numVal (Num.ofInt i 64)
/-- `UnknownVal(Bool).RefineNotNull()` -/
def unkBool : Value := ⟨.bool, .unk (.nullable .f)⟩
def posInf : Value := numVal (.inf false)
def negInf : Value := numVal (.inf true)

def isTrue (v : Value) : Bool := match v.v with | .b true => true | _ => false
def isFalse (v : Value) : Bool := match v.v with | .b false => true | _ => false
def isUnk (v : Value) : Bool := match v.v with | .unk _ => true | _ => false

/-! ### typeCheck / mustTypeCheck / forceShortCircuitType (helper.go) -/
inductive TC where
  | none | dynamic | unknown
  deriving Repr, BEq, DecidableEq

def typeCheckAux (required : Ty) : List Value → Bool → Bool → Res TC
  | [], hasDyn, hasUnk => .ok (if hasDyn then .dynamic else if hasUnk then .unknown else .none)
  | v :: vs, hasDyn, hasUnk =>
    if v.ty.isDyn then typeCheckAux required vs true hasUnk
    else if !(v.ty.equals required) then .panic "type mismatch"
    else typeCheckAux required vs hasDyn (hasUnk || v.isUnk)

def typeCheck (required : Ty) (vs : List Value) : Res TC := typeCheckAux required vs false false

/-- run `f` on unmarked operands and re-apply the union of their top-level marks -/
def binMarks (f : Value → Value → Res Value) (a b : Value) : Res Value :=
  if a.isMarked || b.isMarked then
    (f a.unmark b.unmark).map (·.withMarks (unionMarks a.marks b.marks))
  else f a b

def unMarks (f : Value → Res Value) (a : Value) : Res Value :=
  if a.isMarked then (f a.unmark).map (·.withMarks a.marks) else f a

/-! ### Value.Range and the numeric accessors of ValueRange -/
structure VRange where
  ty : Ty
  raw : Rfn
  deriving Repr, BEq

/-- number of members of a known collection payload -/
def storeLength : Payload → Option Nat
  | .seq vs => some vs.length
  | .smap _ vs => some vs.length
  | .sset _ vs => some vs.length
  | _ => none

/-- `Value.Length()` restricted to what `Range()` needs for a known collection:
the exact length if it is known, none if it is an unknown (refined) number -/
def knownCollLen (v : Value) : Option Int :=
  match v.ty, v.v with
  | .set _, .sset _ vs =>
    if vs.length == 1 || Payload.whollyKnownL vs then some vs.length else none
  | .list _, .seq vs => some vs.length
  | .map _, .smap _ vs => some vs.length
  | _, _ => none

def isCollection : Ty → Bool
  | .list _ | .set _ | .map _ => true
  | _ => false

def range (v : Value) : Res VRange :=
  if v.isMarked then .panic "Range on marked value" else
  match v.v with
  | .unk r => .ok ⟨v.ty, match r with | .unref => .nullable .u | r => r⟩
  | .null => .ok ⟨v.ty, .nullable .t⟩
  | p =>
    match v.ty with
    | .string => match p with
      | .s str => .ok ⟨v.ty, .str .f str⟩
      | _ => .panic "not a string"
    | .number => match p with
      | .n x => .ok ⟨v.ty, .num .f (some ⟨x, true⟩) (some ⟨x, true⟩)⟩
      | _ => .ok ⟨v.ty, .num .f none none⟩
    | .list _ | .set _ | .map _ =>
      match knownCollLen v with
      | some l => .ok ⟨v.ty, .coll .f l l⟩
      | none => .ok ⟨v.ty, .coll .f 0 maxInt⟩
    | _ => .ok ⟨v.ty, .nullable .f⟩

/-- `NumberLowerBound`: `none` stands for `UnknownVal(Number)` -/
def VRange.numLower (r : VRange) : Res (Option Num) :=
  if r.ty.isDyn then .ok none
  else if !r.ty.isNumber then .panic "NumberLowerBound on non-number"
  else match r.raw with
    | .num _ (some b) _ => .ok (some b.v)
    | _ => .ok (some (.inf true))

def VRange.numUpper (r : VRange) : Res (Option Num) :=
  if r.ty.isDyn then .ok none
  else if !r.ty.isNumber then .panic "NumberUpperBound on non-number"
  else match r.raw with
    | .num _ _ (some b) => .ok (some b.v)
    | _ => .ok (some (.inf false))

def VRange.numLowerB (r : VRange) : Option Bound :=
  match r.raw with
  | .num _ (some b) _ => some b
  | _ => some ⟨.inf true, true⟩
def VRange.numUpperB (r : VRange) : Option Bound :=
  match r.raw with
  | .num _ _ (some b) => some b
  | _ => some ⟨.inf false, true⟩

def VRange.lenLower (r : VRange) : Res Int :=
  if r.ty.isDyn then .ok 0
  else if !isCollection r.ty then .panic "LengthLowerBound on non-collection"
  else match r.raw with
    | .coll _ lo _ => .ok lo
    | _ => .ok 0
def VRange.lenUpper (r : VRange) : Res Int :=
  if r.ty.isDyn then .ok maxInt
  else if !isCollection r.ty then .panic "LengthUpperBound on non-collection"
  else match r.raw with
    | .coll _ _ hi => .ok hi
    | _ => .ok maxInt

def definitelyNotNull (v : Value) : Bool :=
  if v.isKnown then !v.isNull
  else match v.v with
    | .unk r => r.nullness == .f
    | _ => false

/-! ### Comparison of numbers (LessThan / GreaterThan) -/
def asNum (v : Value) : Res Num :=
  match v.v with
  | .n x => .ok x
  | _ => .panic "payload is not a number"

/-- the range-based shortcut shared by LessThan and GreaterThan:
`some true` if every value of `a` is below every value of `b`, `some false` if
every value of `a` is above every value of `b` -/
def rangeLess (a b : Value) : Res (Option Bool) := do
  let ra ← a.range
  let rb ← b.range
  if ra.ty.isNumber && rb.ty.isNumber then
    let aMax ← ra.numUpper
    let bMin ← rb.numLower
    let aMin ← ra.numLower
    let bMax ← rb.numUpper
    match aMax, bMin, aMin, bMax with
    | some aMax, some bMin, some aMin, some bMax =>
      if Num.cmp aMax bMin < 0 then pure (some true)
      else if Num.cmp aMin bMax > 0 then pure (some false)
      else pure none
    | _, _, _, _ => pure none
  else pure none

def lessThanU (a b : Value) : Res Value := do
  match ← typeCheck .number [a, b] with
  | .none =>
    let x ← asNum a
    let y ← asNum b
    pure (boolVal (Num.cmp x y < 0))
  | _ =>
    match ← rangeLess a b with
    | some r => pure (boolVal r)
    | none => pure unkBool

def greaterThanU (a b : Value) : Res Value := do
  match ← typeCheck .number [a, b] with
  | .none =>
    let x ← asNum a
    let y ← asNum b
    pure (boolVal (Num.cmp x y > 0))
  | _ =>
    -- GreaterThan checks "min > otherMax → True" first, then "max < otherMin → False"
    let ra ← a.range
    let rb ← b.range
    if ra.ty.isNumber && rb.ty.isNumber then
      let aMin ← ra.numLower
      let bMax ← rb.numUpper
      let aMax ← ra.numUpper
      let bMin ← rb.numLower
      match aMin, bMax, aMax, bMin with
      | some aMin, some bMax, some aMax, some bMin =>
        if Num.cmp aMin bMax > 0 then pure (boolVal true)
        else if Num.cmp aMax bMin < 0 then pure (boolVal false)
        else pure unkBool
      | _, _, _, _ => pure unkBool
    else pure unkBool

def lessThan := binMarks lessThanU
def greaterThan := binMarks greaterThanU

/-! ### Logic -/
def asBool (v : Value) : Res Bool :=
  match v.v with
  | .b x => .ok x
  | _ => .panic "payload is not a bool"

def notU (a : Value) : Res Value := do
  match ← typeCheck .bool [a] with
  | .none => pure (boolVal (!(← asBool a)))
  | _ => pure unkBool
def «not» := unMarks notU

/-- `val == False`: struct equality of (type, payload) with an untyped bool payload -/
def isLitBool (v : Value) (b : Bool) : Bool := v.ty.isBool && (match v.v with | .b x => x == b | _ => false)

def andU (a b : Value) : Res Value := do
  match ← typeCheck .bool [a, b] with
  | .none => if !(← asBool a) then pure (boolVal false) else pure (boolVal (← asBool b))  -- Go's && short-circuits
  | _ => if isLitBool a false || isLitBool b false then pure (boolVal false) else pure unkBool
def orU (a b : Value) : Res Value := do
  match ← typeCheck .bool [a, b] with
  | .none => if (← asBool a) then pure (boolVal true) else pure (boolVal (← asBool b))  -- Go's || short-circuits
  | _ => if isLitBool a true || isLitBool b true then pure (boolVal true) else pure unkBool
def and := binMarks andU
def or := binMarks orU

/-! ### ValueRange.Includes, for the use Equals makes of it
Returns `some false` when the range definitely excludes `v`, `some true` when it
definitely includes it (only in the null cases), `none` for "unknown". `v` is a
known (possibly null) unmarked value. `lenOf v` is `v.Length()` as an interval. -/
def numLE (x y : Num) : Bool := Num.cmp x y < 0 || Num.rawEqual x y
def numGE (x y : Num) : Bool := Num.cmp x y > 0 || Num.rawEqual x y

def hasPrefix (s p : String) : Bool := p.toUTF8.toList.isPrefixOf s.toUTF8.toList

def includes (r : VRange) (v : Value) : Res (Option Bool) :=
  if r.raw.nullness == .t then .ok (some v.isNull)
  else if r.raw.nullness == .f && v.isNull then .ok (some false)
  else if v.isNull then .ok (some true)
  else if Ty.conformErrs r.ty v.ty != 0 then .ok (some false)
  else if v.ty.isDyn then .ok none
  else match r.raw with
    | .str _ p =>
      match v.v with
      | .s str => .ok (if hasPrefix str p then none else some false)
      | .unk _ => .ok none
      | _ => .panic "AsString on non-string"
    | .coll _ lo hi =>
      -- lenVal := v.Length(): exact, or the refined unknown [1, n] of a set holding unknowns
      match v.ty, v.v with
      | .set _, .sset _ vs =>
        let n : Int := vs.length
        if vs.length == 1 || Payload.whollyKnownL vs then
          .ok (if n < lo || n > hi then some false else none)
        else
          -- lenVal ∈ [1, n]: ≥ lo is definitely false iff n < lo; ≤ hi definitely false iff hi < 1
          .ok (if n < lo || hi < 1 then some false else none)
      | .list _, .seq vs => let n : Int := vs.length; .ok (if n < lo || n > hi then some false else none)
      | .map _, .smap _ vs => let n : Int := vs.length; .ok (if n < lo || n > hi then some false else none)
      | _, _ => .panic "Length on non-collection"
    | .num _ lo hi =>
      match v.v with
      | .n x =>
        let lob := (lo.getD ⟨.inf true, true⟩)
        let hib := (hi.getD ⟨.inf false, true⟩)
        let minOk := if lob.incl then numGE x lob.v else Num.cmp x lob.v > 0
        let maxOk := if hib.incl then numLE x hib.v else Num.cmp x hib.v < 0
        .ok (if !minOk || !maxOk then some false else none)
      | _ => .panic "number comparison on non-number payload"
    | _ => .ok none

/-! ### Equals (value_ops.go), on values that contain no marks -/

/-- lookup in ascending parallel lists -/
def lookupKey (k : String) : List String → List Payload → Option Payload
  | n :: ns, v :: vs => if n = k then some v else lookupKey k ns vs
  | _, _ => none

/-- the checks Equals makes before it looks at payloads; `none` = fall through to
the structural comparison -/
def equalsPre (a b : Value) : Res (Option Value) := do
  if a.isNull && definitelyNotNull b then return some (boolVal false)
  if b.isNull && definitelyNotNull a then return some (boolVal false)
  if a.isKnown && !b.isKnown then
    match ← includes (← b.range) a with
    | some false => return some (boolVal false)
    | _ => pure ()
  else if b.isKnown && !a.isKnown then
    match ← includes (← a.range) b with
    | some false => return some (boolVal false)
    | _ => pure ()
  if !a.isKnown && !b.isKnown then return some unkBool
  if a.isKnown && !b.isKnown then
    if a.isNull || b.ty.hasDyn then return some unkBool
    if !(a.ty.equals b.ty) then return some (boolVal false)
    return some unkBool
  if b.isKnown && !a.isKnown then
    if b.isNull || a.ty.hasDyn then return some unkBool
    if !(b.ty.equals a.ty) then return some (boolVal false)
    return some unkBool
  if a.isNull && b.isNull then return some (boolVal true)
  if a.isNull || b.isNull then return some (boolVal false)
  return none

mutual
/-- `HasWhollyKnownType` -/
def hasWhollyKnownType : Ty → Payload → Bool
  | _, .null => true
  | t, .unk _ => !t.hasDyn
  | .list e, .seq vs => hwktAll e vs
  | .set e, .sset _ vs => hwktAll e vs
  | .map e, .smap _ vs => hwktAll e vs
  | .tuple es, .seq vs => hwktZip es vs
  | .object _ ts _, .smap _ vs => hwktZip ts vs
  | _, _ => true
def hwktAll : Ty → List Payload → Bool
  | _, [] => true
  | e, v :: vs => hasWhollyKnownType e v && hwktAll e vs
def hwktZip : List Ty → List Payload → Bool
  | t :: ts, v :: vs => hasWhollyKnownType t v && hwktZip ts vs
  | _, _ => true
end

/-- three-valued accumulation of element comparisons in iteration order:
unknown → stop with unknown; false → stop with false -/
inductive EqAcc where
  | t | f | u
  deriving Repr, BEq, DecidableEq

def eqAccOf (r : Res Value) : Res EqAcc :=
  match r with
  | .ok v => if !v.isKnown then .ok .u else if v.isFalse then .ok .f else .ok .t
  | .err c => .err c
  | .panic w => .panic w
  | .unmodelled => .unmodelled

/-- the recursive occurrence of Equals on members, as a parameter -/
abbrev EqRec := Ty → Payload → Ty → Payload → Res Value

/-- pairwise comparison in order with per-position types (tuple, object) -/
def equalsZip (rec : EqRec) : List Ty → List Payload → List Payload → Res EqAcc
  | t :: ts, x :: xs, y :: ys =>
    match eqAccOf (rec t x t y) with
    | .ok .t => equalsZip rec ts xs ys
    | r => r
  | _, _, _ => .ok .t

/-- pairwise comparison in order with one element type (list) -/
def equalsAll (rec : EqRec) (e : Ty) : List Payload → List Payload → Res EqAcc
  | x :: xs, y :: ys =>
    match eqAccOf (rec e x e y) with
    | .ok .t => equalsAll rec e xs ys
    | r => r
  | _, _ => .ok .t

/-- object branch: every attribute is compared; a known-unequal attribute decides
(False), otherwise an unknown comparison makes the result unknown.  The result
does not depend on the order in which attributes are visited. -/
def equalsObj (rec : EqRec) : List Ty → List Payload → List Payload → Bool → Res EqAcc
  | t :: ts, x :: xs, y :: ys, sawU =>
    match eqAccOf (rec t x t y) with
    | .ok .t => equalsObj rec ts xs ys sawU
    | .ok .u => equalsObj rec ts xs ys true
    | r => r
  | _, _, _, sawU => .ok (if sawU then .u else .t)

/-- map branch (lengths already equal): a key missing from the other map or a
known-unequal element decides (False); otherwise unknown if any comparison was. -/
def equalsMap (rec : EqRec) (e : Ty) : List String → List Payload → List String → List Payload → Bool → Res EqAcc
  | k :: ks, x :: xs, ky, ys, sawU =>
    match lookupKey k ky ys with
    | none => .ok .f
    | some y =>
      match eqAccOf (rec e x e y) with
      | .ok .t => equalsMap rec e ks xs ky ys sawU
      | .ok .u => equalsMap rec e ks xs ky ys true
      | r => r
  | _, _, _, _, sawU => .ok (if sawU then .u else .t)

/-- `s.Has(x)` where `x` hashes to bucket `i`: scan the members of that bucket for
one whose `Equals` with `x` is known true (`setRules.Equivalent(x, member)`) -/
def setHas (rec : EqRec) (e : Ty) (i : Int) (x : Payload) : List Int → List Payload → Res Bool
  | j :: js, y :: ys =>
    if i == j then
      match rec e x e y with
      | .ok v => if v.isTrue then .ok true else setHas rec e i x js ys
      | .err c => .err c
      | .panic w => .panic w
      | .unmodelled => .unmodelled
    else setHas rec e i x js ys
  | _, _ => .ok false

/-- every member of the first set is in the second -/
def setIncl (rec : EqRec) (e : Ty) : List Int → List Payload → List Int → List Payload → Res Bool
  | i :: is, x :: xs, iy, ys =>
    match setHas rec e i x iy ys with
    | .ok h =>
      match setIncl rec e is xs iy ys with
      | .ok r => .ok (h && r)
      | o => o
    | o => o
  | _, _, _, _ => .ok true

/-- one loop of the set branch of Equals: for each member of the first set in
iteration order — not wholly known → the comparison is unknown (`none`); otherwise
`Has` in the second set; the conjunction of the `Has` answers -/
def setInclWK (rec : EqRec) (e : Ty) : List Int → List Payload → List Int → List Payload → Res (Option Bool)
  | i :: is, x :: xs, iy, ys =>
    if !x.whollyKnown then .ok none
    else match setHas rec e i x iy ys with
      | .ok h =>
        (match setInclWK rec e is xs iy ys with
         | .ok (some r) => .ok (some (h && r))
         | o => o)
      | .err c => .err c
      | .panic w => .panic w
      | .unmodelled => .unmodelled
  | _, _, _, _ => .ok (some true)

def accVal : EqAcc → Value
  | .t => boolVal true
  | .f => boolVal false
  | .u => unkBool

def isUnkPayload : Payload → Bool
  | .unk _ => true
  | _ => false

/-- `val.Equals(other)` for mark-free operands; `fuel` bounds the nesting depth -/
def equalsFuel : Nat → EqRec
  | 0, _, _, _, _ => .unmodelled
  | fuel + 1, ta, a, tb, b =>
    match equalsPre ⟨ta, a⟩ ⟨tb, b⟩ with
    | .ok (some r) => .ok r
    | .err c => .err c
    | .panic w => .panic w
    | .unmodelled => .unmodelled
    | .ok none =>
      if !hasWhollyKnownType ta a || !hasWhollyKnownType tb b then
        if Ty.conformErrs tb ta != 0 && Ty.conformErrs ta tb != 0 then .ok (boolVal false)
        else .ok unkBool
      else if !(ta.equals tb) then .ok (boolVal false)
      else
        let rec' := equalsFuel fuel
        match ta, a, b with
        | .number, .n x, .n y => .ok (boolVal (Num.rawEqual x y))
        | .bool, .b x, .b y => .ok (boolVal (x == y))
        | .string, .s x, .s y => .ok (boolVal (x == y))
        | .object _ ts _, .smap _ xs, .smap _ ys => (equalsObj rec' ts xs ys false).map accVal
        | .tuple ts, .seq xs, .seq ys => (equalsZip rec' ts xs ys).map accVal
        | .list e, .seq xs, .seq ys =>
          if xs.length == ys.length then (equalsAll rec' e xs ys).map accVal else .ok (boolVal false)
        | .map e, .smap kx xs, .smap ky ys =>
          if xs.length == ys.length then (equalsMap rec' e kx xs ky ys false).map accVal else .ok (boolVal false)
        | .set e, .sset ix xs, .sset iy ys =>
          -- a member that is not wholly known (in either set) → unknown; else mutual inclusion
          match setInclWK rec' e ix xs iy ys with
          | .ok none => .ok unkBool
          | .ok (some p) =>
            (match setInclWK rec' e iy ys ix xs with
             | .ok none => .ok unkBool
             | .ok (some q) => .ok (boolVal (p && q))
             | .err c => .err c
             | .panic w => .panic w
             | .unmodelled => .unmodelled)
          | .err c => .err c
          | .panic w => .panic w
          | .unmodelled => .unmodelled
        | .capsule _, .caps, .caps => .unmodelled
        | _, _, _ => .panic "payload does not match type"

mutual
/-- nesting depth of a payload -/
def _root_.CtyModel.Payload.depth : Payload → Nat
  | .marked _ r => r.depth + 1
  | .seq vs | .smap _ vs | .sset _ vs => Payload.depthL vs + 1
  | _ => 1
def _root_.CtyModel.Payload.depthL : List Payload → Nat
  | [] => 0
  | v :: vs => max v.depth (Payload.depthL vs)
end

def equalsP (ta : Ty) (a : Payload) (tb : Ty) (b : Payload) : Res Value :=
  equalsFuel (max a.depth b.depth + 1) ta a tb b

/-- `Value.Equals` -/
def equals (a b : Value) : Res Value :=
  if a.containsMarked || b.containsMarked then
    (equalsP a.ty a.v.stripMarks b.ty b.v.stripMarks).map
      (·.withMarks (unionMarks a.marksDeep b.marksDeep))
  else equalsP a.ty a.v b.ty b.v

end Value
end CtyModel
