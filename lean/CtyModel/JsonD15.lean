/-
C15, additions (d15): parts of cty/json that `JsonVal.lean` did not follow yet, and two
specifications.  Core Lean only (the driver links this file).  `JsonVal.lean` is left as it
is (Props/C17Json.lean builds on it); the definitions here are the ones the correspondence
harness compares with /repo for the operations `json.implied` and `json.simple`.

* `impliedTypeD`: `impliedTypeForTok(tok, dec, depth)` of type_implied.go WITH its depth
  counter (/repo 0c63e6a: `if depth >= maxImpliedTypeDepth` before an array or an object is
  entered, `depth+1` for its members).  `JsonVal.impliedType` is the same recursion without
  the counter; `Lemmas/d15Implied.lean` proves that they agree exactly on the documents nested
  at most `lim` deep and that deeper ones are never answered with a type.
* `impliedTypeGo` / `simpleUnmarshalGo`: the public `ImpliedType` / `SimpleJSONValue.UnmarshalJSON`
  (the limit is `Generated.jsonMaxImpliedTypeDepth`, re-read from the source on every check).
* `mirrorsW`: "plain decoding mirrors the value's structure" for ANY constraint — where the
  constraint is the placeholder and the value's type is not, a plain reader sees the two-member
  object `{"value": x, "type": τ}` with τ the type document of the value's type and x the
  encoding against that type; everywhere else what `JsonVal.mirrors` describes.
-/
import CtyModel.JsonValSpec
import CtyModel.Generated.JsonEmit
namespace CtyModel
namespace JsonVal

/-! ## nesting depth of a document: how many arrays / objects enclose its innermost token -/
mutual
def nest : Json → Nat
  | .arr xs => nestL xs + 1
  | .obj ks vs => nestM ks vs + 1
  | _ => 0
def nestL : List Json → Nat
  | [] => 0
  | x :: xs => max (nest x) (nestL xs)
/-- the members of an object: keys and values in lockstep (as every decoder walks them) -/
def nestM : List String → List Json → Nat
  | _ :: ks, x :: xs => max (nest x) (nestM ks xs)
  | _, _ => 0
end

/-! ## type_implied.go with the depth counter -/
mutual
/-- `impliedTypeForTok(tok, dec, depth)`; `lim` is `maxImpliedTypeDepth` -/
def impliedTypeD (env : JEnv) (lim : Nat) : Json → Nat → Res Ty
  | .null, _ => .ok .dyn
  | .bool _, _ => .ok .bool
  | .num _, _ => .ok .number
  | .str _, _ => .ok .string
  | .arr xs, depth =>
    if depth ≥ lim then .err "exceeded max nesting depth"
    else (impliedAllD env lim xs (depth + 1)).map .tuple
  | .obj ks vs, depth =>
    if depth ≥ lim then .err "exceeded max nesting depth"
    else
      match impliedMembersD env lim ks vs [] [] (depth + 1) with
      | .ok (aK, aT) =>
        if normConflict env.norm aK aT then .unmodelled
        else
          let r := Ty.buildFields env.norm aK aT
          .ok (.object r.1 r.2 (r.1.map fun _ => false))
      | r => errOf r
/-- `impliedTupleType(dec, depth)` -/
def impliedAllD (env : JEnv) (lim : Nat) : List Json → Nat → Res (List Ty)
  | [], _ => .ok []
  | j :: js, depth =>
    match impliedTypeD env lim j depth with
    | .ok t =>
      match impliedAllD env lim js depth with
      | .ok ts => .ok (t :: ts)
      | r => r
    | r => errOf r
/-- `impliedObjectType(dec, depth)` -/
def impliedMembersD (env : JEnv) (lim : Nat) : List String → List Json → List String → List Ty → Nat →
    Res (List String × List Ty)
  | k :: ks, j :: js, aK, aT, depth =>
    match impliedTypeD env lim j depth with
    | .ok aty =>
      match lookupTy k aK aT with
      | some ex =>
        if !(ex.equals aty) then .err "duplicate property in JSON object"
        else impliedMembersD env lim ks js aK (setTy k aty aK aT) depth
      | none => impliedMembersD env lim ks js (aK ++ [k]) (aT ++ [aty]) depth
    | r => errOf r
  | _, _, aK, aT, _ => .ok (aK, aT)
end

/-- `ImpliedType(buf)` on the token tree of `buf` -/
def impliedTypeGo (env : JEnv) (j : Json) : Res Ty :=
  impliedTypeD env Generated.jsonMaxImpliedTypeDepth j 0

/-- `SimpleJSONValue.UnmarshalJSON`: `ImpliedType`, then `Unmarshal` with its answer -/
def simpleUnmarshalGo (env : JEnv) (j : Json) : Res Value :=
  match impliedTypeGo env j with
  | .ok t => unmarshalTop env j t
  | r => errOf r

/-! ## documents whose objects list their keys in ANY order

`docOK` (JsonValSpec.lean) wants the normal forms of the keys of every object strictly
ascending; real documents seldom oblige.  `docOKU` only wants them DISTINCT (no duplicate,
also none after normalisation); `structTyU` is the structural type of such a document: the
object type over the normalised keys — sorted, as a Go map's key set has no order — each
with the structural type of its member. -/
mutual
def structTyU (norm : String → String) : Json → Ty
  | .null => .dyn
  | .bool _ => .bool
  | .num _ => .number
  | .str _ => .string
  | .arr xs => .tuple (structTyUL norm xs)
  | .obj ks vs =>
    let r := Ty.buildFields norm ks (structTyUL norm vs)
    .object r.1 r.2 (r.1.map fun _ => false)
def structTyUL (norm : String → String) : List Json → List Ty
  | [] => []
  | x :: xs => structTyU norm x :: structTyUL norm xs
end

mutual
def docOKU (env : JEnv) : Json → Bool
  | .num l =>
    match Num.parse512 l with
    | .ok n => numOK n
    | _ => false
  | .arr xs => docOKUL env xs
  | .obj ks vs => !hasDup (ks.map env.norm) && ks.length == vs.length && docOKUL env vs
  | _ => true
def docOKUL (env : JEnv) : List Json → Bool
  | [] => true
  | x :: xs => docOKU env x && docOKUL env xs
end

/-! ## the encoder's output as a plain JSON reader sees it, for any constraint -/

/-! the same token tree (structural; `Json` derives `BEq` only) -/
mutual
def jsonSame : Json → Json → Bool
  | .null, .null => true
  | .bool a, .bool b => a == b
  | .num a, .num b => a == b
  | .str a, .str b => a == b
  | .arr xs, .arr ys => jsonSameL xs ys
  | .obj k1 xs, .obj k2 ys => k1 == k2 && jsonSameL xs ys
  | _, _ => false
def jsonSameL : List Json → List Json → Bool
  | [], [] => true
  | x :: xs, y :: ys => jsonSame x y && jsonSameL xs ys
  | _, _ => false
end

/-- the wrapper object of `marshalDynamic`, taken off: at a position whose constraint is the
placeholder while the value's type is not, the document must be `{"value": x, "type": τ}` with
τ the type document of the value's type (`MarshalType`); the body `x` is then read against the
value's own type.  Elsewhere the document is the body and the constraint stays. -/
def unwrapDyn (t vt : Ty) (j : Json) : Option (Ty × Json) :=
  if t.isDyn && !vt.isDyn then
    match j with
    | .obj ["value", "type"] [x, τ] =>
      (match vt.toJson with
       | .ok τ' => if jsonSame τ' τ then some (vt, x) else none
       | _ => none)
    | _ => none
  else some (t, j)

mutual
/-- `mirrorsW t vt p j`: `j` has the structure of the value `⟨vt, p⟩` encoded against the
constraint `t` — wrapper objects exactly at the placeholder positions, below them `null` for
null, the same bool / string, the decimal text of the number, an array with one entry per
element in order (list, tuple), an object with exactly the value's keys in order (map,
object).  Sets are not described (their order is the hash order): `false`. -/
def mirrorsW (t vt : Ty) : Payload → Json → Bool
  | .null, j =>
    match unwrapDyn t vt j with
    | some (_, .null) => true
    | _ => false
  | .b a, j =>
    match unwrapDyn t vt j with
    | some (_, .bool b) => a == b
    | _ => false
  | .s a, j =>
    match unwrapDyn t vt j with
    | some (_, .str b) => a == b
    | _ => false
  | .n a, j =>
    match unwrapDyn t vt j with
    | some (_, .num l) => l == Num.textF a
    | _ => false
  | .seq vs, j =>
    match unwrapDyn t vt j with
    | some (.list e, .arr js) =>
      (match vt with
       | .list ve => mirrorsWAll e ve vs js
       | _ => false)
    | some (.tuple es, .arr js) =>
      (match vt with
       | .tuple ves => mirrorsWZip es ves vs js
       | _ => false)
    | _ => false
  | .smap ks vs, j =>
    match unwrapDyn t vt j with
    | some (.map e, .obj ks' js) =>
      (match vt with
       | .map ve => ks == ks' && mirrorsWAll e ve vs js
       | _ => false)
    | some (.object _ ts _, .obj ks' js) =>
      (match vt with
       | .object _ vts _ => ks == ks' && mirrorsWZip ts vts vs js
       | _ => false)
    | _ => false
  | _, _ => false
def mirrorsWAll (e ve : Ty) : List Payload → List Json → Bool
  | [], [] => true
  | v :: vs, j :: js => mirrorsW e ve v j && mirrorsWAll e ve vs js
  | _, _ => false
def mirrorsWZip : List Ty → List Ty → List Payload → List Json → Bool
  | _, _, [], [] => true
  | e :: es, ve :: ves, v :: vs, j :: js => mirrorsW e ve v j && mirrorsWZip es ves vs js
  | _, _, _, _ => false
end

end JsonVal
end CtyModel
