/-
The Lean side of the Go→Lean translation of package `cty/set` done by
`extract/translate_set.go` (output: `Generated/SetFns.lean`, property C03).

The translator rewrites the bodies of `Set.Add`, `Remove`, `Has`, `Copy`,
`Values`, `Length`, `Iterator`, `EachValue`, the four set-algebra methods,
`NewSet`, `NewSetFromSlice`, `sameRules`, `mustHaveSameRules`, … statement by
statement.  What it cannot take from the source is *how a Go value is read as a
model value*; that reading is fixed here, once, as data-level vocabulary — the
GIVEN API:

* the type parameter `T` is a Lean type `α`; Go `int` is `Int`;
* `map[int][]T` is the association list `(bucket id, members)` that `SetImpl`
  already uses (`GoMap`): `m[k]` / `v, ok := m[k]` / `m[k] = v` / `delete(m, k)`
  are `SetImpl.lookup` / `setBucket` / `delBucket`; a real Go map has distinct
  keys, and the list keeps them ascending (`Asc`, the order in which the
  harness prints a Go map).  `for k, v := range m` walks `mapOrder m`, where
  `mapOrder` is a PARAMETER of every generated function that ranges over a map
  (Go leaves the order unspecified): the tie theorems hold for every `mapOrder`
  that returns a permutation of its argument, so no result depends on it;
* `[]T`, `[]int` are lists: capacity and the sharing of backing arrays are not
  modelled (a C20 matter, see `SetImpl.lean`); the translator therefore accepts
  an in-place update (`sort.Ints`, `sort.SliceStable`, `copy`) only of a slice
  variable that holds a fresh slice.  A slice made with a non-zero length
  (`make([]T, n)`) is a `List (Option α)`, `none` = the zero `T`, and must be
  fully assigned before it is stored (`sliceDone`);
* `Rules[T]` is `CtyModel.Rules α` (`Hash`, `Equivalent` total functions, `Less`
  present iff the rules implement `OrderedRules[T]`), exactly as in `SetImpl`;
  `Rules.SameRules` is a parameter `rulesSame`;
* `sort.Ints` is "the ascending arrangement", `sort.SliceStable` is
  `SetImpl.sortStable` (see there for what is assumed about Go's algorithm);
* a Go panic is `Res.panic`; `Res.unmodelled` = a loop ran out of fuel, a zero
  `T` escaped or a slice was re-sliced beyond its length (the tie theorems show
  none of these happens).

Core only (imported by the generated file).
-/
import CtyModel.Basic
import CtyModel.SetImpl
namespace CtyModel
namespace SetGo

/-- `map[int][]T` -/
abbrev GoMap (α : Type) := List (Int × List α)

/-- the Go struct `set.Set[T]` -/
structure GoSet (α : Type) where
  vals : GoMap α
  rules : Rules α

/-- the Go struct `set.Iterator[T]` (always held through a pointer) -/
structure GoIterator (α : Type) where
  vals : List α
  idx : Int

variable {α : Type}

/-! ### Go maps -/

/-- `map[int][]T{}` -/
def mapEmpty : GoMap α := []

/-- `m[k]` (the nil slice if absent) -/
def mapGet (m : GoMap α) (k : Int) : List α := (SetImpl.lookup m k).getD []

/-- the `ok` of `v, ok := m[k]` -/
def mapHas (m : GoMap α) (k : Int) : Bool := (SetImpl.lookup m k).isSome

/-- `m[k] = v` -/
def mapSet (m : GoMap α) (k : Int) (v : List α) : GoMap α := SetImpl.setBucket m k v

/-- `delete(m, k)` -/
def mapDelete (m : GoMap α) (k : Int) : GoMap α := SetImpl.delBucket m k

/-- `len(m)` -/
def mapLen (m : GoMap α) : Int := Int.ofNat m.length

/-! ### Go slices -/

/-- `len(xs)` -/
def len {β : Type} (xs : List β) : Int := Int.ofNat xs.length

/-- `make([]E, 0, c)`: only a negative capacity matters -/
def sliceMake0 {β : Type} (c : Int) : Res (List β) :=
  if c < 0 then .panic "makeslice: cap out of range" else .ok []

/-- `make([]T, n)`: `n` zero values -/
def sliceMakeN (n : Int) : Res (List (Option α)) :=
  if n < 0 then .panic "makeslice: len out of range" else .ok (List.replicate n.toNat none)

/-- `copy(dst, src)`: overwrites the first `min(len(dst), len(src))` elements of `dst` -/
def sliceCopy (dst : List (Option α)) (src : List α) : List (Option α) :=
  (src.take dst.length).map some ++ dst.drop src.length

/-- a constructed slice stored where a `[]T` is expected: every element must have been assigned -/
def sliceDone : List (Option α) → Res (List α)
  | [] => .ok []
  | some t :: r =>
    match sliceDone r with
    | .ok ts => .ok (t :: ts)
    | _ => .unmodelled
  | none :: _ => .unmodelled

/-- `xs[i]` -/
def sliceGet {β : Type} (xs : List β) (i : Int) : Res β :=
  if i < 0 then .panic "index out of range"
  else match xs[i.toNat]? with
    | some t => .ok t
    | none => .panic "index out of range"

/-- `xs[:i]` (beyond the length Go either panics or exposes spare capacity: outside the model) -/
def sliceTo {β : Type} (xs : List β) (i : Int) : Res (List β) :=
  if i < 0 then .panic "slice bounds out of range"
  else if i.toNat ≤ xs.length then .ok (xs.take i.toNat) else .unmodelled

/-- `xs[i:]` -/
def sliceFrom {β : Type} (xs : List β) (i : Int) : Res (List β) :=
  if i < 0 then .panic "slice bounds out of range"
  else if i.toNat ≤ xs.length then .ok (xs.drop i.toNat) else .panic "slice bounds out of range"

/-- `sort.Ints(xs)`: the ascending arrangement of `xs` -/
def sortInts (xs : List Int) : List Int := SetImpl.sortStable (fun a b => decide (a < b)) xs

/-- `sort.SliceStable(xs, func(i, j int) bool { return less(xs[i], xs[j]) })` -/
def sortSliceStable (less : α → α → Bool) (xs : List α) : List α := SetImpl.sortStable less xs

end SetGo
end CtyModel
