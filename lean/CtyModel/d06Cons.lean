/-
C06 (d06) — the constructors `cty.MapVal`, `cty.ObjectVal` WITH their
`NormalizeString` step (cty/value_init.go:114-128, 209-233, cty/object_type.go:43-67).

`Gocty.mapVal` / `Gocty.objectVal` take keys that "arrive normalised and strictly
ascending"; here the keys are the RAW Go map keys, in the order the `range` loop
visits them (Go map iteration order = the caller's schedule, DESIGN §3.5), and the
loop body is the code's: `rawMap[NormalizeString(key)] = val.v` — a later write to
the same normal form overwrites the earlier one.  `norm` (= `ctystrings.Normalize`
= `norm.NFC.String`) is a parameter; the harness sends it as an oracle table.

Core Lean only: the driver links this file.
-/
import CtyModel.WFCons
namespace CtyModel
namespace D06

/-- `m[k] = x` on a Go map kept as ascending parallel lists -/
def putKV {α} (k : String) (x : α) : List String → List α → List String × List α
  | n :: ns, y :: ys =>
    if k < n then (k :: n :: ns, x :: y :: ys)
    else if k = n then (n :: ns, x :: ys)
    else (n :: (putKV k x ns ys).1, y :: (putKV k x ns ys).2)
  | _, _ => ([k], [x])

/-- the loop `for key, val := range vals { m[NormalizeString(key)] = val }`, entries in visiting order -/
def buildFrom {α} (norm : String → String) : List String → List α → List String × List α → List String × List α
  | k :: ks, x :: xs, acc => buildFrom norm ks xs (putKV (norm k) x acc.1 acc.2)
  | _, _, acc => acc

def buildMap {α} (norm : String → String) (ks : List String) (xs : List α) : List String × List α :=
  buildFrom norm ks xs ([], [])

/-- `cty.MapVal(vals)`: `ks`/`ws` = the entries of `vals` in the order the loop visits them -/
def mapValN (norm : String → String) (ks : List String) (ws : List Value) : Res Value :=
  if ws.isEmpty then .panic "must not call MapVal with empty map"
  else
    match Gocty.elemTypeOf .dyn ws with
    | .ok et =>
      let m := buildMap norm ks ws
      .ok ⟨.map et, .smap m.1 (Gocty.payloads m.2)⟩
    | .err c => .err c
    | .panic w => .panic w
    | .unmodelled => .unmodelled

/-- `cty.Object(attrTypes)`: the keys are normalised once more (`ObjectWithOptionalAttrs`) -/
def objectTy (norm : String → String) (names : List String) (tys : List Ty) : Ty :=
  let t := buildMap norm names tys
  .object t.1 t.2 (t.1.map fun _ => false)

/-- `cty.ObjectVal(attrs)`: `ks`/`ws` = the entries of `attrs` in the order the loop visits them;
type map and value map are written by the same loop iteration -/
def objectValN (norm : String → String) (ks : List String) (ws : List Value) : Value :=
  let m := buildMap norm ks ws
  ⟨objectTy norm m.1 (Gocty.tysOf m.2), .smap m.1 (Gocty.payloads m.2)⟩

/-! ### schedules: every order in which a Go `range` may visit the entries (driver only) -/

def insertAll {α} (x : α) : List α → List (List α)
  | [] => [[x]]
  | y :: ys => (x :: y :: ys) :: (insertAll x ys).map (y :: ·)

def perms {α} : List α → List (List α)
  | [] => [[]]
  | x :: xs => (perms xs).flatMap (insertAll x)

end D06
end CtyModel
