/-
Model of `*big.Float` as go-cty uses it (rounding mode ToNearestEven
everywhere).  A finite number is ±mant·2^exp with an odd (or zero) mantissa and
carries the precision of the big.Float it stands for.  Arithmetic is exact
integer arithmetic followed by one rounding step — the specification of
math/big's Add/Sub/Mul/Quo.  `math/big` itself is trusted; this model of it is
diffed against it by the harness on every run.
-/
import CtyModel.Basic
import CtyModel.Sexp
namespace CtyModel

inductive Num where
  | fin (neg : Bool) (mant : Nat) (exp : Int) (prec : Nat)
  | inf (neg : Bool)
  deriving Repr, BEq, DecidableEq, Inhabited

namespace Num

def bitlen (n : Nat) : Nat := if n = 0 then 0 else n.log2 + 1

/-- strip trailing zero bits of the mantissa (fuel-bounded so that it reduces in
the kernel); zero is normalised to exponent 0 -/
def normFuel : Nat → Nat → Int → Nat × Int
  | 0, m, e => (m, e)
  | fuel + 1, m, e => if m = 0 then (0, 0) else if m % 2 = 0 then normFuel fuel (m / 2) (e + 1) else (m, e)

def norm (m : Nat) (e : Int) : Nat × Int := normFuel (bitlen m + 1) m e

def mk (neg : Bool) (m : Nat) (e : Int) (prec : Nat) : Num :=
  let r := norm m e
  .fin neg r.1 r.2 prec

def zero (prec : Nat := 64) : Num := .fin false 0 0 prec
def ofInt (i : Int) (prec : Nat := 64) : Num := mk (i < 0) i.natAbs 0 prec
def ofNat (n : Nat) (prec : Nat := 64) : Num := mk false n 0 prec

def prec : Num → Nat
  | .fin _ _ _ p => p
  | .inf _ => 0

def isInf : Num → Bool
  | .inf _ => true
  | _ => false

def isZero : Num → Bool
  | .fin _ 0 _ _ => true
  | _ => false

def signbit : Num → Bool
  | .fin n _ _ _ => n
  | .inf n => n

/-- sign as -1, 0, +1 (`big.Float.Sign`) -/
def sign : Num → Int
  | .fin _ 0 _ _ => 0
  | .fin true _ _ _ => -1
  | .fin false _ _ _ => 1
  | .inf true => -1
  | .inf false => 1

/-- the exact value as a signed integer mantissa and a binary exponent -/
def parts : Num → Option (Int × Int)
  | .fin neg m e _ => some (if neg then -(m : Int) else (m : Int), e)
  | .inf _ => none

/-- scale a (mantissa, exponent) pair down to exponent `e` (requires `e ≤ e₁`) -/
def scaleTo (m : Int) (e₁ e : Int) : Int := m * (2 : Int) ^ (e₁ - e).toNat

/-- exact comparison (`big.Float.Cmp`): -1, 0, +1 -/
def cmp (a b : Num) : Int :=
  match a, b with
  | .inf na, .inf nb => if na = nb then 0 else if na then -1 else 1
  | .inf na, _ => if na then -1 else 1
  | _, .inf nb => if nb then 1 else -1
  | .fin na ma ea _, .fin nb mb eb _ =>
    let e := min ea eb
    let x := scaleTo (if na then -(ma : Int) else ma) ea e
    let y := scaleTo (if nb then -(mb : Int) else mb) eb e
    if x < y then -1 else if x = y then 0 else 1

/-- round a positive mantissa to `p` bits, nearest-even; returns new (mant, exp) -/
def roundME (m : Nat) (e : Int) (p : Nat) : Nat × Int :=
  let bl := bitlen m
  if p = 0 then (0, 0)
  else if bl ≤ p then (m, e)
  else
    let k := bl - p
    let q := m >>> k
    let r := m % (2 ^ k)
    let half := 2 ^ (k - 1)
    let q' := if r > half ∨ (r = half ∧ q % 2 = 1) then q + 1 else q
    (q', e + k)

/-- `SetPrec(p)` / the rounding every arithmetic result goes through -/
def round (neg : Bool) (m : Nat) (e : Int) (p : Nat) : Num :=
  let r := roundME m e p
  mk neg r.1 r.2 p

def setPrec (a : Num) (p : Nat) : Num :=
  match a with
  | .fin n m e _ => round n m e p
  | .inf n => .inf n

def neg : Num → Num
  | .fin n m e p => .fin (!n) m e p
  | .inf n => .inf (!n)

def abs : Num → Num
  | .fin _ m e p => .fin false m e p
  | .inf _ => .inf false

/-- `new(big.Float).Add(a, b)`; `.panic` models big.ErrNaN -/
def add (a b : Num) : Res Num :=
  match a, b with
  | .inf na, .inf nb => if na = nb then .ok (.inf na) else .panic "ErrNaN"
  | .inf na, _ => .ok (.inf na)
  | _, .inf nb => .ok (.inf nb)
  | .fin na ma ea pa, .fin nb mb eb pb =>
    let p := max pa pb
    if ma = 0 ∧ mb = 0 then
      -- ±0 + ±0: -0 only if both are -0
      .ok (.fin (na && nb) 0 0 p)
    else
      let e := min ea eb
      let x := scaleTo (if na then -(ma : Int) else ma) ea e
      let y := scaleTo (if nb then -(mb : Int) else mb) eb e
      let s := x + y
      if s = 0 then .ok (.fin false 0 0 p)
      else .ok (round (s < 0) s.natAbs e p)

def sub (a b : Num) : Res Num := add a (neg b)

/-- min number of mantissa bits needed (`MinPrec`) -/
def minPrec : Num → Nat
  | .fin _ m _ _ => bitlen m
  | .inf _ => 0

/-- cty's Multiply: 512-bit product, then precision max(operand precisions, MinPrec) -/
def mulCty (a b : Num) : Res Num :=
  match a, b with
  | .inf na, .fin nb mb _ _ => if mb = 0 then .panic "ErrNaN" else .ok (.inf (na != nb))
  | .fin na ma _ _, .inf nb => if ma = 0 then .panic "ErrNaN" else .ok (.inf (na != nb))
  | .inf na, .inf nb => .ok (.inf (na != nb))
  | .fin na ma ea pa, .fin nb mb eb pb =>
    let r := round (na != nb) (ma * mb) (ea + eb) 512
    let p := max (max pa pb) r.minPrec
    .ok (match r with
      | .fin n m e _ => .fin n m e p
      | x => x)

/-- `new(big.Float).Quo(a, b)` -/
def quo (a b : Num) : Res Num :=
  match a, b with
  | .inf _, .inf _ => .panic "ErrNaN"
  | .inf na, .fin nb _ _ _ => .ok (.inf (na != nb))
  | .fin na _ _ pa, .inf nb => .ok (.fin (na != nb) 0 0 pa)
  | .fin na ma ea pa, .fin nb mb eb pb =>
    let p := max pa pb
    if mb = 0 then
      if ma = 0 then .panic "ErrNaN" else .ok (.inf (na != nb))
    else if ma = 0 then .ok (.fin (na != nb) 0 0 p)
    else
      let s := (p + 3 + bitlen mb) - bitlen ma
      let num := ma <<< s
      let q := num / mb
      let r := num % mb
      let m2 := 2 * q + (if r = 0 then 0 else 1)
      .ok (round (na != nb) m2 (ea - eb - s - 1) p)

def isInt : Num → Bool
  | .fin _ _ e _ => e ≥ 0
  | .inf _ => false

/-- truncation toward zero (`big.Float.Int`), `none` for infinities -/
def truncInt : Num → Option Int
  | .fin n m e _ =>
    let v : Int := if e ≥ 0 then (m : Int) * 2 ^ e.toNat else (m : Int) / 2 ^ (-e).toNat
    some (if n then -v else v)
  | .inf _ => none

/-- the exact integer value if the number is one -/
def toInt? (a : Num) : Option Int := if a.isInt then a.truncInt else none

/-! ### Wire codec: `(n sign mant exp prec)` or `(inf sign)` -/
def toSexp : Num → Sexp
  | .fin n m e p => .list [.atom "n", Sexp.encBool n, Sexp.encNat m, Sexp.encInt e, Sexp.encNat p]
  | .inf n => .list [.atom "inf", Sexp.encBool n]

def ofSexp : Sexp → Option Num
  | .list [.atom "n", n, m, e, p] => do
    pure (.fin (← Sexp.decBool n) (← Sexp.decNat m) (← Sexp.decInt e) (← Sexp.decNat p))
  | .list [.atom "inf", n] => (Sexp.decBool n).map .inf
  | _ => none

end Num
end CtyModel
