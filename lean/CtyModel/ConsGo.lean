/-
The Lean side of the Go→Lean translation of the value constructors of
cty/value_init.go, cty/null.go, cty/unknown.go done by `extract/translate_cons.go`
(output: `Generated/ConsFns.lean`, property C06).

The translator rewrites the bodies of `ListVal`, `TupleVal`, `MapVal`, `ObjectVal`,
`SetVal`, the three `Can…Val`, the `…ValEmpty`, `SetValFromValueSet`, `StringVal`,
`NormalizeString`, `NullVal`, `UnknownVal` statement by statement.  What it cannot
take from the source is *how a Go value is read as a model value*; that reading is
fixed here, once — the GIVEN API:

* `cty.Value` is `CtyModel.Value` (`val.ty`, `val.v` are its two fields); the
  `interface{}` under `v` is a `Payload`, the nil interface is `Payload.null`
  (exactly what `NullVal` stores), `totallyUnknown` is `.unk .unref`;
  `[]interface{}` / `map[string]interface{}` / `set.Set[interface{}]` stored
  under `v` are `.seq` / `.smap` / `.sset` (`ifaceSlice`, `ifaceMap`, `ifaceSet`);
* `cty.Type` is `Ty`; `t == DynamicPseudoType` is `Gocty.isDynTy t` (no other `==` on
  types is accepted: it can panic in Go); `Type.Equals` is the hand-written
  `Ty.equals` (itself tied to the source by `Lemmas/TyFnsTie.lean`); `List`,
  `Map`, `Set`, `Tuple` are the constructors of `Ty`; `Object(m)` is
  `D06.objectTy norm` (cty/object_type.go: it normalises the names once more);
* a slice is a list; `make([]T, n)` is `n` zero values — the nil interface for
  `[]interface{}`, `none` for `[]Type` (a `Type{}` without implementation is not
  a `Ty`: `Tuple` of a slice with a zero entry is `Res.unmodelled`) — and
  `xs[i] = e` is `sliceSet` (index out of range = panic);
* `map[string]E` BUILT by the code is the ascending association list the model's
  `.smap` / `.object` keep, as parallel lists (`StrMap`); `m[k] = e` is
  `D06.putKV` (a later write to the same key replaces the earlier one);
* a `map[string]Value` ARGUMENT is its entry list (distinct keys);
  `for k, v := range m` walks `mapOrder m`, a PARAMETER of every generated
  function that ranges over a map (any permutation: Go leaves the order open);
* `NormalizeString`'s callee `ctystrings.Normalize` is the parameter `norm`;
* `ValueMarks` is a sorted list of mark names, `[]ValueMarks` a list of those;
  `ContainsMarked`, `UnmarkDeep`, `WithMarks(sets...)` are the hand-written Marks
  model (`Value.containsMarked`, `unmarkDeep`/`marksDeep`, `Fn.withMarkSets`);
* `setRules{ety}` is `Rules Payload` with `Equivalent` = `equivP ety` and `Hash`
  = the parameter `hashOf ety` (CRC-32 of `appendSetHashBytes`, an oracle);
  `set.NewSet`, `set.NewSetFromSlice`, `Set.Copy` are the TRANSLATED definitions
  of `Generated/SetFns.lean`; `ValueSet` is its set plus the element type its
  rules carry (`ValueSet.ElementType()` reads it back);
* a Go panic is `Res.panic` (the panic value is not evaluated; the text is the
  string literal or the format string of `fmt.Errorf`).

Core only (imported by the generated file).
-/
import CtyModel.WFCons
import CtyModel.d06Cons
import CtyModel.Generated.SetFns
namespace CtyModel
namespace ConsGo

/-! ### slices -/

/-- `len(xs)` -/
def len {β : Type} (xs : List β) : Int := Int.ofNat xs.length

/-- `make([]E, n)` with `zero` the zero value of `E` -/
def sliceMake {β : Type} (zero : β) (n : Int) : Res (List β) :=
  if n < 0 then .panic "makeslice: len out of range" else .ok (List.replicate n.toNat zero)

/-- `xs[i] = e` -/
def sliceSet {β : Type} (xs : List β) (i : Int) (e : β) : Res (List β) :=
  if i < 0 then .panic "index out of range"
  else if i.toNat < xs.length then .ok (xs.set i.toNat e) else .panic "index out of range"

/-- a `[]Type` handed to `Tuple`: every entry must have been assigned -/
def tysDone : List (Option Ty) → Res (List Ty)
  | [] => .ok []
  | some t :: r =>
    match tysDone r with
    | .ok ts => .ok (t :: ts)
    | _ => .unmodelled
  | none :: _ => .unmodelled

/-! ### maps built by the code -/

/-- `map[string]E` as ascending parallel lists -/
abbrev StrMap (β : Type) := List String × List β

/-- `make(map[string]E, n)` / `map[string]E{}` -/
def mapEmpty {β : Type} : StrMap β := ([], [])

/-- `m[k] = e` -/
def mapSet {β : Type} (m : StrMap β) (k : String) (e : β) : StrMap β := D06.putKV k e m.1 m.2

/-- `len(m)` of a map argument -/
def mapLen {β : Type} (m : List (String × β)) : Int := Int.ofNat m.length

/-! ### what is stored under `Value.v` -/

def ifaceSlice (xs : List Payload) : Payload := .seq xs
def ifaceMap (m : StrMap Payload) : Payload := .smap m.1 m.2
/-- a `set.Set[interface{}]`: bucket id of every member, members in `Values()` order of unordered rules -/
def ifaceSet (s : SetGo.GoSet Payload) : Payload :=
  .sset (s.vals.flatMap fun kv => kv.2.map fun _ => kv.1) (SetImpl.values ⟨s.vals⟩)

/-! ### types -/

/-- `Tuple(elemTypes)` -/
def tyTuple (ts : List (Option Ty)) : Res Ty := (tysDone ts).map Ty.tuple

/-- `Object(attrTypes)` (cty/object_type.go:43-67) -/
def tyObject (norm : String → String) (m : StrMap Ty) : Ty := D06.objectTy norm m.1 m.2

/-! ### sets -/

/-- `set.Rules[interface{}](setRules{ety})` -/
def setRules (hashOf : Ty → Payload → Int) (ety : Ty) : Rules Payload :=
  { hash := hashOf ety, equiv := fun x y => equivP ety x y }

/-- `cty.ValueSet` -/
structure GoValueSet where
  ety : Ty
  s : SetGo.GoSet Payload

/-! ### outcomes up to the panic text -/

/-- forget the text of a panic / error class -/
def cls {β : Type} : Res β → Res β
  | .ok a => .ok a
  | .err _ => .err ""
  | .panic _ => .panic ""
  | .unmodelled => .unmodelled

end ConsGo
end CtyModel
