/-
The GIVEN API of the translated marks API (cty/marks.go → `Generated/MarksFns.lean`, written by
extract/translate_marks.go on every check): how the Go data the translated functions handle is read as
model data, and the callees that are NOT translated.  Everything here is assumed to be what the code does;
`Lemmas/MarksFnsTie.lean` ties the generated definitions to the hand-written marks model on top of it.

* `ValueMarks` (a Go map used as a set) is a duplicate-free `List String` read up to order: `m[k] = struct{}{}`
  is `insertMark` (which keeps a canonical list canonical), `_, ok := m[k]` is membership, `len(m)` the length,
  `for k := range m` walks `mapOrder m` where `mapOrder : Ord` is a parameter of every generated function
  (the tie theorems hold for every order that is a permutation).
* an `interface{}` parameter that is expected to be a mark is `MarkArg`: an ordinary (hashable) mark, or a
  `ValueMarks` map (which `NewValueMarks` merges and `Mark` refuses); using a map as a map key is Go's runtime panic.
* `marker{realV, marks}` stored in a `Value` is `Payload.marked marks realV`; `val.v.(marker)` is a match on it.
* `Path` is `List PathStep` (`make`/`copy`/use as in `PathGo`), `PathValueMarks` the pair `Walk.PVM`.
* `Walk(val, cb)` and `TransformWithTransformer(val, t)` are the hand-written `Walk.walk` / `Walk.transformWith`
  (CtyModel/Walk.lean).  Their callbacks are Go closures / objects with mutable fields: the generated callback
  is a state transformer (`state → path → value → Res (state × result)`); the hand-written walkers hand every
  callback the history of the invocations made so far, from which the state is replayed (`replay`, `replayW`), so
  no second copy of the walkers is needed.  The error results of both are discarded by marks.go; what `transform`
  returns next to a non-nil error is `DynamicVal`.

Core Lean only.
-/
import CtyModel.Walk
import CtyModel.PathGo
namespace CtyModel
namespace MarksGo

/-- an `interface{}` argument where a mark is expected -/
inductive MarkArg where
  | one (m : String)          -- an ordinary mark value
  | set (ms : List String)    -- a `ValueMarks`
  deriving Repr, DecidableEq, Inhabited

/-- the argument used as a map key: a map is not hashable -/
def keyOf : MarkArg → Res String
  | .one m => .ok m
  | .set _ => .panic "runtime error: hash of unhashable type cty.ValueMarks"

/-- the order in which `range` visits the keys of a `ValueMarks` -/
abbrev Ord := List String → List String

/-- `make(ValueMarks[, n])` -/
def mapEmpty : List String := []
/-- `m[k] = struct{}{}` -/
def mapSet (m : List String) (k : String) : List String := insertMark k m
/-- `_, ok := m[k]` -/
def mapHas (m : List String) (k : String) : Bool := m.contains k
/-- `len(m)` -/
def mapLen (m : List String) : Int := Int.ofNat m.length

/-- what a loop body hands back: the function returned `r`, or the next iteration starts in state `s` -/
inductive Flow (R S : Type) where
  | ret (r : R)
  | next (s : S)

/-- `make(Path, n, c)` -/
def pathMake (n c : Int) : Res (List (Option PathStep)) :=
  if c < n then .panic "makeslice: cap out of range" else PathGo.sliceMake n

/-! ### `TransformWithTransformer` with a transformer object that has fields -/

/-- a Go value implementing `cty.Transformer` through pointer-receiver methods: each method gets the fields
`S` and returns them as they are after the call, next to its result -/
structure GoTransformer (S : Type) where
  enter : S → Path → Value → Res (S × Value)
  exit : S → Path → Value → Res (S × Value)

/-- the fields after a method call (a failing call leaves them as they were) -/
def after {S α} (r : Res (S × α)) (s : S) : S :=
  match r with
  | .ok q => q.1
  | _ => s

/-- the fields after the method calls of a history -/
def replay {S} (t : GoTransformer S) : S → List Walk.Ev → S
  | s, [] => s
  | s, .enter p v :: rest => replay t (after (t.enter s p v) s) rest
  | s, .exit p v :: rest => replay t (after (t.exit s p v) s) rest

/-- the object as the hand-written `transform` model sees it -/
def toWalk {S} (t : GoTransformer S) (s0 : S) : Walk.Transformer :=
  ⟨fun log p v => (t.enter (replay t s0 log) p v).map (·.2),
   fun log p v => (t.exit (replay t s0 log) p v).map (·.2)⟩

/-- `TransformWithTransformer(val, &t)`: the fields of `t` afterwards, the returned value, and whether the
returned error is non-nil -/
def transformWithTransformer {S} (X : SetOracle) (σ : Walk.Sched) (t : GoTransformer S) (s0 : S) (val : Value) :
    Res (S × Value × Bool) :=
  match Walk.transformWith X σ (toWalk t s0) (val.v.depth + 1) val with
  | (log, .ok r) => .ok (replay t s0 log, r, false)
  | (log, .err _) => .ok (replay t s0 log, Value.dynVal, true)
  | (_, .panic w) => .panic w
  | (_, .unmodelled) => .unmodelled

/-! ### `Walk` with a closure that assigns captured variables -/

/-- the captured variables after the calls of a history -/
def replayW {S} (cb : S → Path → Value → Res (S × Bool)) : S → List Walk.Visit → S
  | s, [] => s
  | s, (p, v) :: rest => replayW cb (after (cb s p v) s) rest

/-- `Walk(val, cb)`: the captured variables afterwards and whether the returned error is non-nil -/
def walk {S} (X : SetOracle) (cb : S → Path → Value → Res (S × Bool)) (s0 : S) (val : Value) : Res (S × Bool) :=
  match Walk.walk X (fun log p v => (cb (replayW cb s0 log) p v).map (·.2)) val with
  | (log, .ok _) => .ok (replayW cb s0 log, false)
  | (log, .err _) => .ok (replayW cb s0 log, true)
  | (_, .panic w) => .panic w
  | (_, .unmodelled) => .unmodelled

end MarksGo
end CtyModel
