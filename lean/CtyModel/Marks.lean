/-
Observers of values and the mark layer (cty/value.go, cty/marks.go).
Mark sets are sorted duplicate-free lists of mark names (the harness uses string
marks; Go's `map[interface{}]struct{}` is a set).
-/
import CtyModel.Val
namespace CtyModel

/-- insertion into a sorted duplicate-free list -/
def insertMark (m : String) : List String → List String
  | [] => [m]
  | x :: xs => if m < x then m :: x :: xs else if m = x then x :: xs else x :: insertMark m xs

/-- union of mark sets (sorted, duplicate-free) -/
def unionMarks (a b : List String) : List String := a.foldr insertMark b

namespace Payload

def isMarked : Payload → Bool
  | .marked _ _ => true
  | _ => false

/-- `unmarkForce`: drop the top-level marker if any -/
def unmark1 : Payload → Payload
  | .marked _ r => r
  | p => p

/-- top-level marks (`Marks()`) -/
def marks1 : Payload → List String
  | .marked ms _ => ms
  | _ => []

def isNull (p : Payload) : Bool :=
  match p.unmark1 with
  | .null => true
  | _ => false

def isKnown (p : Payload) : Bool :=
  match p.unmark1 with
  | .unk _ => false
  | _ => true

/-- `WithMarks`: merge marks into the (single) marker layer; no-op for an empty set -/
def withMarks (p : Payload) (ms : List String) : Payload :=
  let all := unionMarks p.marks1 ms
  if all.isEmpty then p else .marked all p.unmark1

mutual
/-- remove every marker at any depth (`UnmarkDeep`, result value) -/
def stripMarks : Payload → Payload
  | .marked _ r => stripMarks r
  | .seq vs => .seq (stripMarksL vs)
  | .smap ks vs => .smap ks (stripMarksL vs)
  | .sset ids vs => .sset ids (stripMarksL vs)
  | p => p
def stripMarksL : List Payload → List Payload
  | [] => []
  | v :: vs => stripMarks v :: stripMarksL vs
end

mutual
/-- union of all marks at any depth (`UnmarkDeep`, result marks) -/
def marksDeep : Payload → List String
  | .marked ms r => unionMarks ms (marksDeep r)
  | .seq vs | .smap _ vs | .sset _ vs => marksDeepL vs
  | _ => []
def marksDeepL : List Payload → List String
  | [] => []
  | v :: vs => unionMarks (marksDeep v) (marksDeepL vs)
end

mutual
/-- `ContainsMarked` -/
def containsMarked : Payload → Bool
  | .marked _ _ => true
  | .seq vs | .smap _ vs | .sset _ vs => containsMarkedL vs
  | _ => false
def containsMarkedL : List Payload → Bool
  | [] => false
  | v :: vs => containsMarked v || containsMarkedL vs
end

mutual
/-- `IsWhollyKnown` -/
def whollyKnown : Payload → Bool
  | .unk _ => false
  | .marked _ r => whollyKnown r
  | .seq vs | .smap _ vs | .sset _ vs => whollyKnownL vs
  | _ => true
def whollyKnownL : List Payload → Bool
  | [] => true
  | v :: vs => whollyKnown v && whollyKnownL vs
end

end Payload

namespace Value
def isMarked (x : Value) : Bool := x.v.isMarked
def isNull (x : Value) : Bool := x.v.isNull
def isKnown (x : Value) : Bool := x.v.isKnown
def marks (x : Value) : List String := x.v.marks1
def unmark (x : Value) : Value := ⟨x.ty, x.v.unmark1⟩
def withMarks (x : Value) (ms : List String) : Value := ⟨x.ty, x.v.withMarks ms⟩
def unmarkDeep (x : Value) : Value := ⟨x.ty, x.v.stripMarks⟩
def marksDeep (x : Value) : List String := x.v.marksDeep
def containsMarked (x : Value) : Bool := x.v.containsMarked
def whollyKnown (x : Value) : Bool := x.v.whollyKnown
def unknown (t : Ty) : Value := ⟨t, .unk .unref⟩
def dynVal : Value := ⟨.dyn, .unk .unref⟩
def null (t : Ty) : Value := ⟨t, .null⟩
end Value

end CtyModel
