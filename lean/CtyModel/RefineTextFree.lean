/-
C05, slice d05b: the decidable side condition of the bridge (`Lemmas/d05bBridge.lean`), in a core-only file so that the
driver can evaluate it (`rfn.textfree`) and the harness can compare it with the same condition evaluated on the real
code (`c05TextAgrees`: `Equals(a, b) == (Cmp(a, b) == 0)` for every two numbers of the input).
-/
import CtyModel.Refine
namespace CtyModel
namespace Refine
namespace D05b

/-- every two numbers of the list: the code's (text-based) equality is exact comparison -/
def textFreeList (L : List Num) : Bool :=
  L.all fun a => L.all fun b => Num.rawEqual a b == (Num.cmp a b == 0)

/-! ## collecting the numbers of an input -/

def numsOfBound : Option Bound → List Num
  | none => []
  | some w => [w.v]

def numsOfRfn : Rfn → List Num
  | .num _ lo hi => numsOfBound lo ++ numsOfBound hi
  | _ => []

def numsOfArg : NumArg → List Num
  | .known m => [m]
  | .negInf => [.inf true]
  | .posInf => [.inf false]
  | _ => []

def numsOfCall : RefineCall → List Num
  | .numLower a _ => numsOfArg a
  | .numUpper a _ => numsOfArg a
  | .numRangeInclusive lo hi => numsOfArg lo ++ numsOfArg hi
  | _ => []

def numsOfCalls (cs : List RefineCall) : List Num := cs.flatMap numsOfCall

def numsOfPayload : Payload → List Num
  | .n x => [x]
  | .unk r => numsOfRfn r
  | _ => []

/-- a known number, or the bounds an already-refined unknown number carries -/
def numsOfValue (v : Value) : List Num := numsOfPayload v.unmark.v

def numsOfBuilder (b : Builder) : List Num :=
  (match b.orig.v with
   | .n x => [x]
   | _ => []) ++ numsOfRfn b.wip

/-- THE decidable side condition for `v.Refine().<cs>.NewValue()` -/
def textFree (v : Value) (cs : List RefineCall) : Bool := textFreeList (numsOfValue v ++ numsOfCalls cs)

/-- … and for a builder in mid-chain -/
def textFreeB (b : Builder) (cs : List RefineCall) : Bool := textFreeList (numsOfBuilder b ++ numsOfCalls cs)

end D05b
end Refine
end CtyModel
