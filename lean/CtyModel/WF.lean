/-
C06 — well-formedness of a value: `Value.WF`, an executable predicate, read off
the property statement clause by clause.

  every accessor applicable to the type succeeds           → the payload constructor is the one the type
                                                             dictates, recursively (`wfP`, clause `shape`)
  nested values have exactly the declared element or       → members are judged against the element /
  attribute types; the placeholder only where documented     attribute type of the container (leaves carry no
                                                             type of their own, as in Go); under the
                                                             placeholder only null or unknown ("there is no
                                                             known, non-null value of this type", docs/types.md)
  tuple lengths and object attribute sets match the type   → `seq` length = arity; `smap` keys = attribute names
  strings, attribute names, map keys are NFC-normalized    → `nfc` on every string payload, map key and on every
                                                             attribute name of the value's type.  NFC is not
                                                             modelled: `nfc : String → Bool` is a parameter
                                                             (the harness sends the real
                                                             `norm.NFC.IsNormalString` as an oracle column)
  sets hold no marked and no duplicate members             → no marker at any depth inside a set member; no two
                                                             members `Equivalent` by the code's own set rules
                                                             (`setRules.Equivalent`: `Equals` is known true);
                                                             members in the order the code keeps them (bucket
                                                             ids ascending, one id per member)
  a value carries at most one layer of marks               → a marker never wraps a marker, and never carries an
                                                             empty mark set (`WithMarks` returns the value
                                                             itself when there is nothing to add)
  no value's type carries optional-attribute annotations   → `Ty.hasOpt` is false of the value's type
  (hook_needed: refinement kind vs type)                   → `Refine.kindOk`: the refinement struct of an unknown
                                                             is the one `Refine()` would pick for the type

`Ty.wf` (names ascending, parallel lists of equal length) is the representation
invariant of the model's `Ty` — a Go map has distinct keys and the harness prints
them sorted.

`wfWhy` names the first clause that fails (diagnostics for the driver only — the
verdict `pass`/`fail` is `Value.WF` itself).

Core Lean only: the driver links this file.
-/
import CtyModel.Ops2
import CtyModel.Refine
namespace CtyModel

namespace Ty
/-! every attribute name occurring anywhere in the type satisfies `p` -/
mutual
def namesAll (p : String → Bool) : Ty → Bool
  | .list e | .set e | .map e => namesAll p e
  | .tuple es => namesAllL p es
  | .object ns ts _ => ns.all p && namesAllL p ts
  | _ => true
def namesAllL (p : String → Bool) : List Ty → Bool
  | [] => true
  | t :: ts => namesAll p t && namesAllL p ts
end

/-- what C06 asks of the *type* of a value: representation invariant, no
optional-attribute annotation anywhere, attribute names normalised -/
def ok (nfc : String → Bool) (t : Ty) : Bool := t.wf && !t.hasOpt && t.namesAll nfc
def okL (nfc : String → Bool) (ts : List Ty) : Bool := Ty.wfL ts && !Ty.hasOptL ts && Ty.namesAllL nfc ts
end Ty

/-- `setRules.Equivalent(v1, v2)`: `v1.Equals(v2)` is known and true -/
def equivP (e : Ty) (x y : Payload) : Bool :=
  match Value.equalsP e x e y with
  | .ok v => v.isTrue
  | _ => false

/-- no member is `Equivalent` to a later one -/
def noDup (e : Ty) : List Payload → Bool
  | [] => true
  | x :: xs => xs.all (fun y => !equivP e x y) && noDup e xs

/-- bucket ids in the order `Values()` visits buckets -/
def idsAsc : List Int → Bool
  | a :: b :: rest => decide (a ≤ b) && idsAsc (b :: rest)
  | _ => true

namespace Payload

/-! ### the payload is what the type dictates, recursively -/
mutual
def wfP (nfc : String → Bool) : Ty → Payload → Bool
  | t, .marked ms r => !ms.isEmpty && !r.isMarked && wfP nfc t r
  | _, .null => true
  | t, .unk r => Refine.kindOk t r
  | .bool, .b _ => true
  | .number, .n _ => true
  | .string, .s v => nfc v
  | .list e, .seq vs => wfAll nfc e vs
  | .map e, .smap ks vs =>
    ks.length == vs.length && Ty.strictAsc ks && ks.all nfc && wfAll nfc e vs
  | .set e, .sset ids vs =>
    ids.length == vs.length && idsAsc ids && !containsMarkedL vs && noDup e vs && wfAll nfc e vs
  | .tuple es, .seq vs => es.length == vs.length && wfZip nfc es vs
  | .object ns ts _, .smap ks vs => ks == ns && ts.length == vs.length && wfZip nfc ts vs
  | .capsule _, .caps => true
  | _, _ => false
def wfAll (nfc : String → Bool) : Ty → List Payload → Bool
  | _, [] => true
  | e, v :: vs => wfP nfc e v && wfAll nfc e vs
def wfZip (nfc : String → Bool) : List Ty → List Payload → Bool
  | t :: ts, v :: vs => wfP nfc t v && wfZip nfc ts vs
  | _, _ => true
end

end Payload

namespace Value

/-- C06: the value is internally consistent with its type -/
def WF (nfc : String → Bool) (v : Value) : Bool := v.ty.ok nfc && v.v.wfP nfc v.ty

end Value

/-! ### diagnostics: the first failing clause (driver output only) -/
namespace Payload
mutual
def wfWhy (nfc : String → Bool) : Ty → Payload → Option String
  | t, .marked ms r =>
    if ms.isEmpty then some "empty-mark-set"
    else if r.isMarked then some "two-marker-layers"
    else wfWhy nfc t r
  | _, .null => none
  | t, .unk r => if Refine.kindOk t r then none else some "refinement-kind"
  | .bool, .b _ => none
  | .number, .n _ => none
  | .string, .s v => if nfc v then none else some "string-not-nfc"
  | .list e, .seq vs => wfWhyAll nfc e vs
  | .map e, .smap ks vs =>
    if ks.length != vs.length then some "shape"
    else if !Ty.strictAsc ks then some "map-keys-order"
    else if !ks.all nfc then some "map-key-not-nfc"
    else wfWhyAll nfc e vs
  | .set e, .sset ids vs =>
    if ids.length != vs.length then some "shape"
    else if !idsAsc ids then some "set-order"
    else if containsMarkedL vs then some "set-member-marked"
    else if !noDup e vs then some "set-duplicate"
    else wfWhyAll nfc e vs
  | .tuple es, .seq vs => if es.length != vs.length then some "tuple-length" else wfWhyZip nfc es vs
  | .object ns ts _, .smap ks vs =>
    if ks != ns || ts.length != vs.length then some "object-attributes" else wfWhyZip nfc ts vs
  | .capsule _, .caps => none
  | .dyn, _ => some "known-value-of-dynamic-type"
  | _, .bad w => some ("payload-kind:" ++ w)
  | _, _ => some "payload-kind"
def wfWhyAll (nfc : String → Bool) : Ty → List Payload → Option String
  | _, [] => none
  | e, v :: vs => (wfWhy nfc e v).orElse fun _ => wfWhyAll nfc e vs
def wfWhyZip (nfc : String → Bool) : List Ty → List Payload → Option String
  | t :: ts, v :: vs => (wfWhy nfc t v).orElse fun _ => wfWhyZip nfc ts vs
  | _, _ => none
end
end Payload

namespace Value
def wfWhy (nfc : String → Bool) (v : Value) : String :=
  if !v.ty.wf then "type-representation"
  else if v.ty.hasOpt then "optional-attribute-in-type"
  else if !v.ty.namesAll nfc then "attribute-name-not-nfc"
  else (v.v.wfWhy nfc v.ty).getD "?"

/-- the driver's verdict: decided by `WF`, labelled by `wfWhy` -/
def wfVerdict (nfc : String → Bool) (v : Value) : String :=
  if v.WF nfc then "pass" else "fail " ++ v.wfWhy nfc
end Value

end CtyModel
