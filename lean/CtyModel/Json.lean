/-
JSON documents as token trees: what `encoding/json`'s lexer delivers to cty's
decoders (key order and duplicate keys preserved, numbers as their literal
spelling).  The byte-level lexer is not modelled; the harness lexes with the real
`encoding/json` and sends the tree.
-/
import CtyModel.Basic
import CtyModel.Sexp
namespace CtyModel

inductive Json where
  | null
  | bool (b : Bool)
  | num (lit : String)
  | str (s : String)
  | arr (xs : List Json)
  | obj (keys : List String) (vals : List Json)
  deriving Repr, Inhabited, BEq

namespace Json

mutual
partial def toSexp : Json → Sexp
  | .null => .atom "null"
  | .bool b => .list [.atom "jb", Sexp.encBool b]
  | .num l => .list [.atom "jn", Sexp.encStr l]
  | .str s => .list [.atom "js", Sexp.encStr s]
  | .arr xs => .list (.atom "ja" :: xs.map toSexp)
  | .obj ks vs => .list (.atom "jo" :: membersToSexp ks vs)
partial def membersToSexp : List String → List Json → List Sexp
  | k :: ks, v :: vs => .list [Sexp.encStr k, toSexp v] :: membersToSexp ks vs
  | _, _ => []
end

partial def ofSexp : Sexp → Option Json
  | .atom "null" => some .null
  | .list [.atom "jb", b] => (Sexp.decBool b).map .bool
  | .list [.atom "jn", l] => (Sexp.decStr l).map .num
  | .list [.atom "js", s] => (Sexp.decStr s).map .str
  | .list (.atom "ja" :: xs) => (xs.mapM ofSexp).map .arr
  | .list (.atom "jo" :: ms) => do
    let parts ← ms.mapM fun m =>
      match m with
      | .list [k, v] => do pure ((← Sexp.decStr k), (← ofSexp v))
      | _ => none
    pure (.obj (parts.map (·.1)) (parts.map (·.2)))
  | _ => none

end Json
end CtyModel
