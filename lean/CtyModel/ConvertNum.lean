/-
`cty.ParseNumberVal` = `big.ParseFloat(s, 10, 512, big.ToNearestEven)` as the
string → number conversion of package convert uses it
(cty/convert/conversion_primitive.go, cty/value_init.go; math/big floatconv.go,
natconv.go, ratconv.go).

Syntax accepted by math/big for base 10 (no prefix, no `_` separators):
  [sign] ( digits [ "." [digits] ] | "." digits ) [ ("e"|"E"|"p"|"P") [sign] digits ]
or one of `Inf inf +Inf +inf -Inf -inf`.  The whole string must be consumed.
A `p` exponent is a binary exponent (accepted for every base).

Value: the exact rational  M · 10^(-fractional digits) · (10|2)^exp  rounded once
to 512 bits, nearest-even.  math/big computes the power of five at 576/640 bits,
which is exact as long as 5^n fits; beyond that (and for exponents whose powers
of two are not worth materialising) the model answers `.unmodelled`.
math/big itself is trusted; this model of it is diffed against it on every run.
-/
import CtyModel.Num
namespace CtyModel
namespace Num

def isDigit (c : Char) : Bool := '0' ≤ c && c ≤ '9'

/-- value of a digit string, most significant first -/
def digitsVal (cs : List Char) : Nat := cs.foldl (fun acc c => acc * 10 + (c.toNat - 48)) 0

/-- the mantissa scan of `nat.scan(r, 10, fracOk = true)`: integer digits, an
optional radix point, fraction digits; returns them and the unread rest -/
def scanMantissa (cs : List Char) : List Char × Option (List Char) × List Char :=
  let ip := cs.takeWhile isDigit
  let rest := cs.drop ip.length
  match rest with
  | '.' :: rest' =>
    let fp := rest'.takeWhile isDigit
    (ip, some fp, rest'.drop fp.length)
  | _ => (ip, none, rest)

/-- outcome of `scanExponent(r, base2ok = true, sepOk = false)`:
`none` = error (no digits, or out of int64 range) -/
def scanExponent (cs : List Char) : Option (Int × Nat × List Char) :=
  match cs with
  | c :: rest =>
    let ebase : Nat := if c = 'e' || c = 'E' then 10 else if c = 'p' || c = 'P' then 2 else 0
    if ebase = 0 then some (0, 10, cs)          -- not an exponent: unread
    else
      let (neg, rest) : Bool × List Char := match rest with
        | '-' :: r => (true, r)
        | '+' :: r => (false, r)
        | r => (false, r)
      let ds := rest.takeWhile isDigit
      if ds.isEmpty then none                   -- errNoDigits
      else
        let n := digitsVal ds
        -- strconv.ParseInt(…, 10, 64)
        if (!neg && n > 9223372036854775807) || (neg && n > 9223372036854775808) then none
        else some (if neg then -(n : Int) else n, ebase, rest.drop ds.length)
  | [] => some (0, 10, [])

/-- exponents beyond this are not materialised by the model -/
def parseExpLimit : Nat := 4096
/-- 5^n is computed exactly by `pow5` at 576 bits up to this n -/
def pow5Limit : Nat := 248

/-- `M · 2^e2 · 5^e5` rounded to 512 bits (M > 0) -/
def scale512 (neg : Bool) (M : Nat) (e2 e5 : Int) : Num :=
  if e5 ≥ 0 then round neg (M * 5 ^ e5.toNat) e2 512
  else
    let d := 5 ^ (-e5).toNat
    let s := (515 + bitlen d) - bitlen M
    let num := M <<< s
    let q := num / d
    let r := num % d
    round neg (2 * q + (if r = 0 then 0 else 1)) (e2 - s - 1) 512

/-- `(*big.Float).scan` + the end-of-string check of `Parse`, after the `Inf` forms -/
def parseFinite (cs : List Char) : Res Num :=
  match cs with
  | [] => .err "EOF"
  | c :: rest0 =>
    let neg := c = '-'
    let rest := if c = '-' || c = '+' then rest0 else cs
    let (ip, fp?, rest) := scanMantissa rest
    let fp := fp?.getD []
    if ip.isEmpty && fp.isEmpty then .err "no digits"
    else
      match scanExponent rest with
      | none => .err "exponent"
      | some (exp, ebase, rest) =>
        let M := digitsVal (ip ++ fp)
        if M = 0 then
          if rest.isEmpty then .ok (.fin neg 0 0 512) else .err "trailing"
        else if !rest.isEmpty then
          -- a trailing character is an error whatever the exponent did (overflow or not)
          .err "trailing"
        else
          let d : Int := -(fp.length : Int)
          let e2 := d + exp
          let e5 := if ebase = 10 then d + exp else d
          if exp.natAbs > parseExpLimit || fp.length > parseExpLimit || e5.natAbs > pow5Limit then .unmodelled
          else .ok (scale512 neg M e2 e5)

/-- `big.ParseFloat(s, 10, 512, ToNearestEven)`; `.err` = "a number is required" -/
def parse512 (s : String) : Res Num :=
  if s = "Inf" || s = "inf" || s = "+Inf" || s = "+inf" then .ok (.inf false)
  else if s = "-Inf" || s = "-inf" then .ok (.inf true)
  else parseFinite s.toList

end Num
end CtyModel
