/-
The round trip through the MessagePack codec (C16), by mutual structural
induction on the payload: `unmarshal (marshal v t) t` is an acceptable decoding
of `v` (`Approx`) of the same type, under the hypotheses `Fits` and `SetsRebuild`.
-/
import CtyModel.Lemmas.MsgpackUnknown
import CtyModel.Lemmas.TyJsonRT
import CtyModel.Lemmas.TyEq
import CtyModel.Lemmas.TyMisc
import CtyModel.Lemmas.Asc
namespace CtyModel
namespace Msgpack
open Refine

/-! ### types -/

mutual
theorem tyNamesFixed_eq (norm : String → String) : ∀ t : Ty, tyNamesFixed norm t = Ty.namesFixed norm t
  | .bool | .number | .string | .dyn | .capsule _ => by simp [tyNamesFixed, Ty.namesFixed]
  | .list e | .set e | .map e => by simp [tyNamesFixed, Ty.namesFixed, tyNamesFixed_eq norm e]
  | .tuple es => by simp [tyNamesFixed, Ty.namesFixed, tyNamesFixedL_eq norm es]
  | .object ns ts os => by simp [tyNamesFixed, Ty.namesFixed, tyNamesFixedL_eq norm ts]
theorem tyNamesFixedL_eq (norm : String → String) : ∀ ts : List Ty, tyNamesFixedL norm ts = Ty.namesFixedL norm ts
  | [] => by simp [tyNamesFixedL, Ty.namesFixedL]
  | t :: ts => by simp [tyNamesFixedL, Ty.namesFixedL, tyNamesFixed_eq norm t, tyNamesFixedL_eq norm ts]
end

theorem goodTy_json (E : Ext) (t : Ty) (h : goodTy E t = true) :
    ∃ j, Ty.toJson t = .ok j ∧ Ty.ofJson E.norm j = .ok t := by
  simp only [goodTy, Bool.and_eq_true, Bool.not_eq_true'] at h
  exact Ty.json_roundtrip E.norm t h.1.1.1 h.1.1.2 (by rw [← tyNamesFixed_eq]; exact h.2)

theorem goodTy_stripOpt (E : Ext) (t : Ty) (h : goodTy E t = true) : t.stripOpt = t := by
  simp only [goodTy, Bool.and_eq_true, Bool.not_eq_true'] at h
  exact Ty.stripOpt_id_of_noOpt t h.1.2

/-! ### optional-attribute annotations of the constraint -/

theorem isDyn_stripOpt (t : Ty) : t.stripOpt.isDyn = t.isDyn := by
  cases t <;> simp [Ty.stripOpt, Ty.isDyn]

mutual
theorem wf_stripOpt : ∀ t : Ty, t.wf = true → t.stripOpt.wf = true
  | .bool, _ | .number, _ | .string, _ | .dyn, _ | .capsule _, _ => by simp [Ty.stripOpt, Ty.wf]
  | .list e, h | .set e, h | .map e, h => by
    simp only [Ty.wf] at h; simp [Ty.stripOpt, Ty.wf, wf_stripOpt e h]
  | .tuple es, h => by simp only [Ty.wf] at h; simp [Ty.stripOpt, Ty.wf, wfL_stripOptL es h]
  | .object ns ts os, h => by
    simp only [Ty.wf, Bool.and_eq_true] at h
    simp [Ty.stripOpt, Ty.wf, wfL_stripOptL ts h.2, Ty.stripOptL_length, h.1.1.1, h.1.1.2, h.1.2]
theorem wfL_stripOptL : ∀ ts : List Ty, Ty.wfL ts = true → Ty.wfL (Ty.stripOptL ts) = true
  | [], _ => rfl
  | t :: ts, h => by
    simp only [Ty.wfL, Bool.and_eq_true] at h
    simp [Ty.stripOptL, Ty.wfL, wf_stripOpt t h.1, wfL_stripOptL ts h.2]
end

theorem equals_eq {a b : Ty} (ha : a.wf = true) (hb : b.wf = true) (h : a.equals b = true) : a = b :=
  (Ty.equals_iff_eq a b ha hb).mp h

theorem equals_self {a : Ty} (ha : a.wf = true) : a.equals a = true :=
  (Ty.equals_iff_eq a a ha ha).mpr rfl

/-! ### value constructors -/

theorem elemTy_same (ve : Ty) (hw : ve.wf = true) : ∀ vs : List Value, (∀ v ∈ vs, v.ty = ve) → elemTy vs ve = .ok ve
  | [], _ => rfl
  | v :: vs, h => by
    have hv : v.ty = ve := h v (by simp)
    have ih := elemTy_same ve hw vs (fun x hx => h x (by simp [hx]))
    simp only [elemTy, hv]
    by_cases hd : ve.isDyn = true
    · simp [hd, ih]
    · simp [hd, equals_self hw, ih]

theorem elemTy_dyn (ve : Ty) (hw : ve.wf = true) (v : Value) (vs : List Value) (h : ∀ x ∈ v :: vs, x.ty = ve) :
    elemTy (v :: vs) .dyn = .ok ve := by
  have hv : v.ty = ve := h v (by simp)
  simp only [elemTy, Ty.isDyn, if_true, hv]
  exact elemTy_same ve hw vs (fun x hx => h x (by simp [hx]))

theorem payloads_length : ∀ vs : List Value, (payloads vs).length = vs.length
  | [] => rfl
  | _ :: vs => by simp [payloads, payloads_length vs]

/-! ### keys -/

theorem insertKV_append {α} (k : String) (v : α) : ∀ (ks : List String) (vs : List α),
    ks.length = vs.length → (∀ a ∈ ks, a < k) → insertKV k v ks vs = (ks ++ [k], vs ++ [v])
  | [], [], _, _ => rfl
  | [], _ :: _, h, _ => by simp at h
  | _ :: _, [], h, _ => by simp at h
  | n :: ns, u :: us, hl, hlt => by
    have hnk : n < k := hlt n (by simp)
    have h1 : ¬ k < n := fun h => String.lt_irrefl _ (String.lt_trans h hnk)
    have h2 : ¬ k = n := fun h => String.lt_irrefl _ (h ▸ hnk)
    simp only [insertKV, h1, h2, if_false]
    rw [insertKV_append k v ns us (by simpa using hl) (fun a ha => hlt a (by simp [ha]))]
    simp

theorem norm_map_fixed (E : Ext) : ∀ ks : List String, (ks.all fun k => E.norm k == k) = true → ks.map E.norm = ks
  | [], _ => rfl
  | k :: ks, h => by
    simp only [List.all_cons, Bool.and_eq_true, beq_iff_eq] at h
    simp [h.1, norm_map_fixed E ks h.2]

theorem normCollides_false (E : Ext) : ∀ ks : List String, Ty.strictAsc ks = true →
    (ks.all fun k => E.norm k == k) = true → normCollides E ks = false
  | [], _, _ => rfl
  | [_], _, _ => rfl
  | a :: b :: rest, ha, hn => by
    have ⟨ha', hlt⟩ := Ty.strictAsc_cons ha
    have hn' := hn
    simp only [List.all_cons, Bool.and_eq_true, beq_iff_eq] at hn'
    obtain ⟨hna, hnb, hnr⟩ := hn'
    have ih := normCollides_false E (b :: rest) ha' (by simp [hnb, hnr])
    simp only [normCollides, ih, Bool.or_false, hna, hnb]
    have h1 : (a == b) = false := by
      have := hlt b (by simp)
      simp; intro h; exact String.lt_irrefl _ (h ▸ this)
    have h2 : (rest.any fun c => a == E.norm c) = false := by
      simp only [List.any_eq_false, beq_iff_eq]
      intro c hc
      have hcn : E.norm c = c := by
        have := List.all_eq_true.mp hnr c hc
        simpa using this
      rw [hcn]
      intro h
      have := hlt c (by simp [hc])
      exact String.lt_irrefl _ (h ▸ this)
    simp [h1, h2]

theorem keysOK_ok (E : Ext) (ks : List String) (h : keysOK E ks = true) :
    (normCollides E ks || ks.map E.norm != ks) = false := by
  simp only [keysOK, Bool.and_eq_true] at h
  simp [normCollides_false E ks h.1 h.2, norm_map_fixed E ks h.2]

theorem find_self : ∀ (ns : List String) (ts : List Ty) (os : List Bool), Ty.strictAsc ns = true →
    ns.length = ts.length → os.length = ts.length →
    ∀ k t, (k, t) ∈ ns.zip ts → ∃ o, Ty.find k ns ts os = some (t, o)
  | [], _, _, _, _, _, _, _, h => by simp at h
  | _ :: _, [], _, _, h, _, _, _, _ => by simp at h
  | _ :: _, _ :: _, [], _, _, h, _, _, _ => by simp at h
  | n :: ns, u :: us, o :: os, ha, hl1, hl2, k, t, hm => by
    have ⟨ha', hlt⟩ := Ty.strictAsc_cons ha
    simp only [List.zip_cons_cons, List.mem_cons, Prod.mk.injEq] at hm
    rcases hm with ⟨rfl, rfl⟩ | hm
    · exact ⟨o, by simp [Ty.find]⟩
    · have hk : k ∈ ns := (List.of_mem_zip hm).1
      have hne : ¬ n = k := fun h => String.lt_irrefl _ (h ▸ hlt k hk)
      obtain ⟨o', ho⟩ := find_self ns us os ha' (by simpa using hl1) (by simpa using hl2) k t hm
      exact ⟨o', by simp [Ty.find, hne, ho]⟩

/-! ### decoding the members of maps and objects -/

theorem unmarshalAll_cons {E : Ext} {x : Item} {xs : List Item} {e : Ty} {vs : List Value}
    (h : unmarshalAll E (x :: xs) e = .ok vs) :
    ∃ v vs', unmarshal E x e = .ok v ∧ unmarshalAll E xs e = .ok vs' ∧ vs = v :: vs' := by
  simp only [unmarshalAll] at h
  cases hx : unmarshal E x e with
  | ok v =>
    simp only [hx] at h
    cases hxs : unmarshalAll E xs e with
    | ok vs' => simp only [hxs, Res.map, Res.ok.injEq] at h; exact ⟨v, vs', rfl, rfl, h.symm⟩
    | _ => simp [hxs, Res.map] at h
  | _ => simp [hx] at h

theorem unmarshalZip_cons {E : Ext} {x : Item} {xs : List Item} {e : Ty} {es : List Ty} {vs : List Value}
    (h : unmarshalZip E (x :: xs) (e :: es) = .ok vs) :
    ∃ v vs', unmarshal E x e = .ok v ∧ unmarshalZip E xs es = .ok vs' ∧ vs = v :: vs' := by
  simp only [unmarshalZip] at h
  cases hx : unmarshal E x e with
  | ok v =>
    simp only [hx] at h
    cases hxs : unmarshalZip E xs es with
    | ok vs' => simp only [hxs, Res.map, Res.ok.injEq] at h; exact ⟨v, vs', rfl, rfl, h.symm⟩
    | _ => simp [hxs, Res.map] at h
  | _ => simp [hx] at h

theorem entries_asc (E : Ext) (e : Ty) : ∀ (ks : List String) (its : List Item) (vs : List Value)
    (accK : List String) (accV : List Value),
    unmarshalAll E its e = .ok vs → its.length = ks.length → accK.length = accV.length →
    (∀ a ∈ accK, ∀ k ∈ ks, a < k) → Ty.strictAsc ks = true →
    unmarshalEntries E (strItems ks) its e accK accV = .ok (accK ++ ks, accV ++ vs)
  | [], [], vs, accK, accV, h, _, _, _, _ => by
    simp only [unmarshalAll, Res.ok.injEq] at h
    subst h
    simp [strItems, unmarshalEntries]
  | [], _ :: _, _, _, _, _, h, _, _, _ => by simp at h
  | _ :: _, [], _, _, _, _, h, _, _, _ => by simp at h
  | k :: ks, it :: its, vs, accK, accV, h, hl, hla, hlt, ha => by
    obtain ⟨v, vs', hv, hvs, rfl⟩ := unmarshalAll_cons h
    have ⟨ha', hk⟩ := Ty.strictAsc_cons ha
    simp only [strItems, unmarshalEntries, decString, hv]
    rw [insertKV_append k v accK accV hla (fun a haa => hlt a haa k (by simp))]
    simp only []
    rw [entries_asc E e ks its vs' (accK ++ [k]) (accV ++ [v]) hvs (by simpa using hl) (by simp [hla])
      (by
        intro a haa k' hk'
        rcases List.mem_append.mp haa with h1 | h1
        · exact hlt a h1 k' (by simp [hk'])
        · simp only [List.mem_singleton] at h1; subst h1; exact hk k' hk') ha']
    simp

theorem attrs_asc (E : Ext) (ns : List String) (ts : List Ty) (os : List Bool) :
    ∀ (ks : List String) (its : List Item) (ts2 : List Ty) (vs : List Value)
    (accK : List String) (accV : List Value),
    unmarshalZip E its ts2 = .ok vs → its.length = ks.length → ts2.length = ks.length → accK.length = accV.length →
    (∀ k t, (k, t) ∈ ks.zip ts2 → ∃ o, Ty.find k ns ts os = some (t, o)) →
    (∀ a ∈ accK, ∀ k ∈ ks, a < k) → Ty.strictAsc ks = true →
    unmarshalAttrs E (strItems ks) its ns ts os accK accV = .ok (accK ++ ks, accV ++ vs)
  | [], [], ts2, vs, accK, accV, h, _, hl2, _, _, _, _ => by
    cases ts2 with
    | nil =>
      simp only [unmarshalZip, Res.ok.injEq] at h
      subst h
      simp [strItems, unmarshalAttrs]
    | cons _ _ => simp at hl2
  | [], _ :: _, _, _, _, _, _, h, _, _, _, _, _ => by simp at h
  | _ :: _, [], _, _, _, _, _, h, _, _, _, _, _ => by simp at h
  | _ :: _, _ :: _, [], _, _, _, _, _, h, _, _, _, _ => by simp at h
  | k :: ks, it :: its, t2 :: ts2, vs, accK, accV, h, hl, hl2, hla, hfind, hlt, ha => by
    obtain ⟨v, vs', hv, hvs, rfl⟩ := unmarshalZip_cons h
    have ⟨ha', hk⟩ := Ty.strictAsc_cons ha
    obtain ⟨o, ho⟩ := hfind k t2 (by simp)
    have hnc : accK.contains k = false := by
      simp only [List.contains_eq_mem, decide_eq_false_iff_not]
      intro hm
      exact String.lt_irrefl _ (hlt k hm k (by simp))
    simp only [strItems, unmarshalAttrs, decString, ho, hv, hnc, Bool.false_eq_true, if_false]
    rw [insertKV_append k v accK accV hla (fun a haa => hlt a haa k (by simp))]
    simp only []
    rw [attrs_asc E ns ts os ks its ts2 vs' (accK ++ [k]) (accV ++ [v]) hvs (by simpa using hl) (by simpa using hl2)
      (by simp [hla])
      (fun k' t' hm => hfind k' t' (by simp [hm]))
      (by
        intro a haa k' hk'
        rcases List.mem_append.mp haa with h1 | h1
        · exact hlt a h1 k' (by simp [hk'])
        · simp only [List.mem_singleton] at h1; subst h1; exact hk k' hk') ha']
    simp

/-! ### one member -/

/-- a member as `marshal` treats it: mark check, wrapper decision, then `marshalP` -/
def childItem (E : Ext) (ce ve : Ty) (p : Payload) : Res Item :=
  match p with
  | .marked _ _ => .err "value has marks"
  | _ => if ce.isDyn && !ve.isDyn then wrapDyn ve (marshalP E ve p ve) else marshalP E ve p ce

def fitsChild (E : Ext) (ce ve : Ty) (p : Payload) : Bool :=
  if ce.isDyn && !ve.isDyn then goodTy E ve && fitsP E ve ve p else fitsP E ce ve p

theorem marshalAll_cons (E : Ext) (ve ce : Ty) (p : Payload) (ps : List Payload) :
    marshalAll E ve (p :: ps) ce =
      (match childItem E ce ve p with
       | .ok it => (marshalAll E ve ps ce).map (it :: ·)
       | .err e => .err e
       | .panic w => .panic w
       | .unmodelled => .unmodelled) := by
  cases p <;> rfl

theorem marshalZip_cons (E : Ext) (ve ce : Ty) (ves ces : List Ty) (p : Payload) (ps : List Payload) :
    marshalZip E (ve :: ves) (p :: ps) (ce :: ces) =
      (match childItem E ce ve p with
       | .ok it => (marshalZip E ves ps ces).map (it :: ·)
       | .err e => .err e
       | .panic w => .panic w
       | .unmodelled => .unmodelled) := by
  cases p <;> rfl

/-- the statement proved for every payload -/
def RTP (E : Ext) (p : Payload) : Prop :=
  ∀ ct vt : Ty, ct.wf = true → vt.wf = true → (∀ n ∈ setNodes vt p, SetLawAt E n) → fitsP E ct vt p = true →
    ∃ it, marshalP E vt p ct = .ok it ∧ ∃ p', unmarshal E it ct = .ok ⟨vt, p'⟩ ∧ Approx vt p' p

theorem fitsP_not_marked (E : Ext) (ct vt : Ty) (ms : List String) (q : Payload) : fitsP E ct vt (.marked ms q) = false := by
  simp [fitsP]

theorem child_rt (E : Ext) (p : Payload) (ih : RTP E p) (ce ve : Ty) (hce : ce.wf = true) (hve : ve.wf = true)
    (hset : ∀ n ∈ setNodes ve p, SetLawAt E n) (hfit : fitsChild E ce ve p = true) :
    ∃ it, childItem E ce ve p = .ok it ∧ ∃ p', unmarshal E it ce = .ok ⟨ve, p'⟩ ∧ Approx ve p' p := by
  unfold fitsChild at hfit
  by_cases hw : (ce.isDyn && !ve.isDyn) = true
  · -- the dynamic wrapper
    simp only [hw, if_true, Bool.and_eq_true] at hfit
    obtain ⟨hgood, hfp⟩ := hfit
    have hci : childItem E ce ve p = wrapDyn ve (marshalP E ve p ve) := by
      cases p <;> simp [childItem, hw, fitsP_not_marked] at hfp ⊢
    obtain ⟨it0, hm, p', hu, ha⟩ := ih ve ve hve hve hset hfp
    obtain ⟨j, hj1, hj2⟩ := goodTy_json E ve hgood
    have hced : ce = .dyn := by
      simp only [Bool.and_eq_true] at hw
      cases ce <;> simp_all [Ty.isDyn]
    subst hced
    refine ⟨.arr [.binj j, it0], by rw [hci]; simp [wrapDyn, hj1, hm], p', ?_, ha⟩
    simp [unmarshal, typeOfJson, hj2, goodTy_stripOpt E ve hgood, hu]
  · simp only [hw, if_false] at hfit
    have hci : childItem E ce ve p = marshalP E ve p ce := by
      cases p <;> simp [childItem, hw, fitsP_not_marked] at hfit ⊢
    obtain ⟨it, hm, p', hu, ha⟩ := ih ce ve hce hve hset hfit
    exact ⟨it, by rw [hci]; exact hm, p', hu, ha⟩

/-! ### members of lists, sets, maps (one element type) and of tuples, objects -/

theorem rtAll (E : Ext) (ce ve : Ty) (hce : ce.wf = true) (hve : ve.wf = true) :
    ∀ ps : List Payload, (∀ p ∈ ps, RTP E p) → (∀ n ∈ setNodesAll ve ps, SetLawAt E n) → fitsAll E ce ve ps = true →
    ∃ its, marshalAll E ve ps ce = .ok its ∧ its.length = ps.length ∧
      ∃ vs, unmarshalAll E its ce = .ok vs ∧ vs.length = ps.length ∧ (∀ v ∈ vs, v.ty = ve) ∧
        ApproxAll ve (payloads vs) ps
  | [], _, _, _ => ⟨[], rfl, rfl, [], rfl, rfl, by simp, by simp [payloads, ApproxAll]⟩
  | p :: ps, ih, hset, hfit => by
    have hfit' : fitsChild E ce ve p = true ∧ fitsAll E ce ve ps = true := by
      simpa [fitsAll, fitsChild] using hfit
    have hs1 : ∀ n ∈ setNodes ve p, SetLawAt E n := fun n hn => hset n (by simp [setNodesAll, hn])
    have hs2 : ∀ n ∈ setNodesAll ve ps, SetLawAt E n := fun n hn => hset n (by simp [setNodesAll, hn])
    obtain ⟨it, hm, p', hu, ha⟩ := child_rt E p (ih p (by simp)) ce ve hce hve hs1 hfit'.1
    obtain ⟨its, hms, hl, vs, hus, hvl, hty, has⟩ :=
      rtAll E ce ve hce hve ps (fun q hq => ih q (by simp [hq])) hs2 hfit'.2
    refine ⟨it :: its, by rw [marshalAll_cons, hm]; simp [hms, Res.map], by simp [hl], ⟨ve, p'⟩ :: vs, ?_, by simp [hvl], ?_, ?_⟩
    · simp [unmarshalAll, hu, hus, Res.map]
    · intro v hv
      rcases List.mem_cons.mp hv with rfl | hv
      · rfl
      · exact hty v hv
    · simp [payloads, ApproxAll, ha, has]

theorem fitsZip_lengths (E : Ext) : ∀ (ces ves : List Ty) (ps : List Payload), fitsZip E ces ves ps = true →
    ces.length = ps.length ∧ ves.length = ps.length
  | [], [], [], _ => by simp
  | c :: ces, v :: ves, p :: ps, h => by
    simp only [fitsZip, Bool.and_eq_true] at h
    have := fitsZip_lengths E ces ves ps h.2
    simp [this.1, this.2]
  | [], [], _ :: _, h => by simp [fitsZip] at h
  | [], _ :: _, _, h => by simp [fitsZip] at h
  | _ :: _, [], _, h => by simp [fitsZip] at h
  | _ :: _, _ :: _, [], h => by simp [fitsZip] at h

theorem rtZip (E : Ext) : ∀ (ces ves : List Ty) (ps : List Payload), Ty.wfL ces = true → Ty.wfL ves = true →
    (∀ p ∈ ps, RTP E p) → (∀ n ∈ setNodesZip ves ps, SetLawAt E n) → fitsZip E ces ves ps = true →
    ∃ its, marshalZip E ves ps ces = .ok its ∧ its.length = ps.length ∧
      ∃ vs, unmarshalZip E its ces = .ok vs ∧ types vs = ves ∧ ApproxZip ves (payloads vs) ps
  | [], [], [], _, _, _, _, _ => ⟨[], rfl, rfl, [], rfl, rfl, by simp [payloads, ApproxZip]⟩
  | ce :: ces, ve :: ves, p :: ps, hce, hve, ih, hset, hfit => by
    have hfit' : fitsChild E ce ve p = true ∧ fitsZip E ces ves ps = true := by
      simpa [fitsZip, fitsChild] using hfit
    simp only [Ty.wfL, Bool.and_eq_true] at hce hve
    have hs1 : ∀ n ∈ setNodes ve p, SetLawAt E n := fun n hn => hset n (by simp [setNodesZip, hn])
    have hs2 : ∀ n ∈ setNodesZip ves ps, SetLawAt E n := fun n hn => hset n (by simp [setNodesZip, hn])
    obtain ⟨it, hm, p', hu, ha⟩ := child_rt E p (ih p (by simp)) ce ve hce.1 hve.1 hs1 hfit'.1
    obtain ⟨its, hms, hl, vs, hus, hty, has⟩ :=
      rtZip E ces ves ps hce.2 hve.2 (fun q hq => ih q (by simp [hq])) hs2 hfit'.2
    refine ⟨it :: its, by rw [marshalZip_cons, hm]; simp [hms, Res.map], by simp [hl], ⟨ve, p'⟩ :: vs, ?_, ?_, ?_⟩
    · simp [unmarshalZip, hu, hus, Res.map]
    · simp [types, hty]
    · simp [payloads, ApproxZip, ha, has]
  | [], [], _ :: _, _, _, _, _, h => by simp [fitsZip] at h
  | [], _ :: _, _, _, _, _, _, h => by simp [fitsZip] at h
  | _ :: _, [], _, _, _, _, _, h => by simp [fitsZip] at h
  | _ :: _, _ :: _, [], _, _, _, _, h => by simp [fitsZip] at h

/-! ### leaves -/

theorem rtp_null (E : Ext) : RTP E .null := by
  intro ct vt hc hv _ hfit
  have : ct = vt := equals_eq hc hv (by simpa [fitsP] using hfit)
  subst this
  exact ⟨.nil, rfl, .null, by simp [unmarshal, Value.null], by simp [Approx]⟩

theorem rtp_unk (E : Ext) (r : Rfn) : RTP E (.unk r) := by
  intro ct vt hc hv _ hfit
  simp only [fitsP, Bool.and_eq_true, Bool.or_eq_true] at hfit
  have : ct = vt := equals_eq hc hv hfit.1
  subst this
  by_cases hd : ct.isDyn = true
  · have hct : ct = .dyn := by cases ct <;> simp_all [Ty.isDyn]
    subst hct
    refine ⟨plainUnknown, by simp [marshalP, marshalUnknown, Ty.isDyn], .unk .unref, unmarshal_plain E .dyn, ?_⟩
    simp only [Approx]
    exact ⟨weaker_dyn _ _ rfl, Or.inl rfl⟩
  · have hd' : ct.isDyn = false := by simpa using hd
    have hr : rfnOK E ct r = true := by
      rcases hfit.2 with h | h
      · simp [hd'] at h
      · exact h
    obtain ⟨it, hm, r'', hu, hw, hk⟩ := unknown_rt E ct r hd' hr
    exact ⟨it, by simpa [marshalP] using hm, .unk r'', hu, by simp only [Approx]; exact ⟨hw, Or.inr hk.toKept⟩⟩

theorem rtp_b (E : Ext) (b : Bool) : RTP E (.b b) := by
  intro ct vt _ _ _ hfit
  simp only [fitsP, Bool.and_eq_true] at hfit
  have h1 : ct = .bool := by cases ct <;> simp_all [Ty.isBool]
  have h2 : vt = .bool := by cases vt <;> simp_all [Ty.isBool]
  subst h1 h2
  exact ⟨.bool b, rfl, .b b, by simp [unmarshal], by simp [Approx]⟩

theorem rtp_n (E : Ext) (x : Num) : RTP E (.n x) := by
  intro ct vt _ _ _ hfit
  simp only [fitsP, Bool.and_eq_true] at hfit
  have h1 : ct = .number := by cases ct <;> simp_all [Ty.isNumber]
  have h2 : vt = .number := by cases vt <;> simp_all [Ty.isNumber]
  subst h1 h2
  obtain ⟨y, hy, hb⟩ := encNum_back x hfit.2
  exact ⟨encNum x, rfl, .n y, by simp [unmarshal_encNum, hy, Res.map], by simpa [Approx] using hb⟩

theorem rtp_s (E : Ext) (s : String) : RTP E (.s s) := by
  intro ct vt _ _ _ hfit
  simp only [fitsP, Bool.and_eq_true, beq_iff_eq] at hfit
  have h1 : ct = .string := by cases ct <;> simp_all [Ty.isString]
  have h2 : vt = .string := by cases vt <;> simp_all [Ty.isString]
  subst h1 h2
  exact ⟨.str s, rfl, .s s, by simp [unmarshal, decString, hfit.2], by simp [Approx]⟩

/-! ### containers -/

theorem isEmpty_of_length {α β} {a : List α} {b : List β} (h : a.length = b.length) (hb : b.isEmpty = false) :
    a.isEmpty = false := by
  cases a <;> cases b <;> simp_all

theorem rtp_seq (E : Ext) (vs : List Payload) (ih : ∀ p ∈ vs, RTP E p) : RTP E (.seq vs) := by
  intro ct vt hc hv hset hfit
  cases ct <;> cases vt <;> simp only [fitsP, Bool.false_eq_true] at hfit
  case list.list ce ve =>
    simp only [Ty.wf] at hc hv
    simp only [setNodes] at hset
    by_cases hemp : vs.isEmpty = true
    · have hvs : vs = [] := by simpa using hemp
      subst hvs
      simp only [List.isEmpty_nil, if_true] at hfit
      have : ce = ve := equals_eq hc hv hfit
      subst this
      exact ⟨.arr [], by simp [marshalP, marshalAll, Res.map], .seq [], by simp [unmarshal], by simp [Approx, ApproxAll]⟩
    · simp only [hemp, if_false] at hfit
      obtain ⟨its, hm, hl, vs2, hu, hvl, hty, ha⟩ := rtAll E ce ve hc hv vs ih hset hfit
      have hne : its.isEmpty = false := isEmpty_of_length hl (by simpa using hemp)
      refine ⟨.arr its, by simp [marshalP, hm, Res.map], .seq (payloads vs2), ?_, by simpa [Approx] using ha⟩
      cases vs2 with
      | nil => cases vs <;> simp_all
      | cons w ws =>
        simp [unmarshal, hne, hu, Res.bind, listVal, elemTy_dyn ve hv w ws hty, Res.map]
  case tuple.tuple ces ves =>
    simp only [Ty.wf] at hc hv
    simp only [setNodes] at hset
    obtain ⟨hl1, hl2⟩ := fitsZip_lengths E ces ves vs hfit
    obtain ⟨its, hm, hl, vs2, hu, hty, ha⟩ := rtZip E ces ves vs hc hv ih hset hfit
    refine ⟨.arr its, by simp [marshalP, hl1, hl2, hm, Res.map], .seq (payloads vs2), ?_, by simpa [Approx] using ha⟩
    by_cases hemp : its.isEmpty = true
    · have hi : its = [] := by simpa using hemp
      subst hi
      have hvs : vs = [] := by cases vs <;> simp_all
      subst hvs
      have hces : ces = [] := by cases ces <;> simp_all
      have hves : ves = [] := by cases ves <;> simp_all
      subst hces hves
      simp only [unmarshalZip, Res.ok.injEq] at hu
      subst hu
      simp [unmarshal, payloads]
    · have hlen : ¬ its.length ≠ ces.length := by omega
      simp [unmarshal, hemp, hlen, hu, Res.map, tupleVal, hty]

theorem rtp_sset (E : Ext) (ids : List Int) (vs : List Payload) (ih : ∀ p ∈ vs, RTP E p) : RTP E (.sset ids vs) := by
  intro ct vt hc hv hset hfit
  cases ct <;> cases vt <;> simp only [fitsP, Bool.false_eq_true] at hfit
  case set.set ce ve =>
    simp only [Ty.wf] at hc hv
    by_cases hemp : vs.isEmpty = true
    · have hvs : vs = [] := by simpa using hemp
      subst hvs
      simp only [List.isEmpty_nil, if_true] at hfit
      have : ce = ve := equals_eq hc hv hfit
      subst this
      exact ⟨.arr [], by simp [marshalP, marshalAll, Res.map], .sset [] [], by simp [unmarshal], by simp [Approx, ApproxAll]⟩
    · simp only [hemp, if_false] at hfit
      have hset' : ∀ n ∈ setNodesAll ve vs, SetLawAt E n := fun n hn => hset n (by simp [setNodes, hn])
      obtain ⟨its, hm, hl, vs2, hu, hvl, hty, ha⟩ := rtAll E ce ve hc hv vs ih hset' hfit
      have hne : its.isEmpty = false := isEmpty_of_length hl (by simpa using hemp)
      obtain ⟨ids', ps'', hso, ha'⟩ := hset (ve, vs) (by simp [setNodes]) (payloads vs2) ha
      refine ⟨.arr its, by simp [marshalP, hm, Res.map], .sset ids' ps'', ?_, by simpa [Approx] using ha'⟩
      cases vs2 with
      | nil => cases vs <;> simp_all
      | cons w ws =>
        simp only at hso
        simp [unmarshal, hne, hu, Res.bind, setVal, elemTy_dyn ve hv w ws hty, hso, Res.map]

theorem strItems_length : ∀ ks : List String, (strItems ks).length = ks.length
  | [] => rfl
  | _ :: ks => by simp [strItems, strItems_length ks]

theorem rtp_smap (E : Ext) (ks : List String) (vs : List Payload) (ih : ∀ p ∈ vs, RTP E p) : RTP E (.smap ks vs) := by
  intro ct vt hc hv hset hfit
  cases ct <;> cases vt <;> simp only [fitsP, Bool.false_eq_true] at hfit
  case map.map ce ve =>
    simp only [Ty.wf] at hc hv
    simp only [setNodes] at hset
    simp only [Bool.and_eq_true, beq_iff_eq] at hfit
    obtain ⟨⟨hkeys, hlen⟩, hrest⟩ := hfit
    by_cases hemp : vs.isEmpty = true
    · have hvs : vs = [] := by simpa using hemp
      subst hvs
      have hks : ks = [] := by cases ks <;> simp_all
      subst hks
      simp only [List.isEmpty_nil, if_true] at hrest
      have : ce = ve := equals_eq hc hv hrest
      subst this
      exact ⟨.map [] [], by simp [marshalP, marshalAll, Res.map, strItems], .smap [] [],
        by simp [unmarshal], by simp [Approx, ApproxAll]⟩
    · simp only [hemp, if_false] at hrest
      obtain ⟨its, hm, hl, vs2, hu, hvl, hty, ha⟩ := rtAll E ce ve hc hv vs ih hset hrest
      have hne : (strItems ks).isEmpty = false :=
        isEmpty_of_length (b := vs) (by rw [strItems_length]; exact hlen) (by simpa using hemp)
      refine ⟨.map (strItems ks) its, by simp [marshalP, hlen, hm, Res.map], .smap ks (payloads vs2), ?_,
        by simpa [Approx] using ha⟩
      have hasc : Ty.strictAsc ks = true := by
        simp only [keysOK, Bool.and_eq_true] at hkeys; exact hkeys.1
      have hent := entries_asc E ce ks its vs2 [] [] hu (by omega) rfl (by simp) hasc
      cases vs2 with
      | nil => cases vs <;> simp_all
      | cons w ws =>
        simp only [List.nil_append] at hent
        simp [unmarshal, hne, hent, Res.bind, mapVal, keysOK_ok E ks hkeys, elemTy_dyn ve hv w ws hty, Res.map]
  case object.object cns cts cos vns vts vos =>
    simp only [Ty.wf, Bool.and_eq_true, beq_iff_eq] at hc hv
    simp only [setNodes] at hset
    simp only [Bool.and_eq_true, beq_iff_eq, Bool.not_eq_true'] at hfit
    obtain ⟨⟨⟨⟨⟨hkeys, hcn⟩, hvn⟩, hvo⟩, hvol⟩, hzip⟩ := hfit
    subst hcn hvn
    obtain ⟨hl1, hl2⟩ := fitsZip_lengths E cts vts vs hzip
    obtain ⟨its, hm, hl, vs2, hu, hty, ha⟩ := rtZip E cts vts vs hc.2 hv.2 ih hset hzip
    have hvos : vns.map (fun _ => false) = vos := Ty.map_const_false vns vos (by omega) hvo
    refine ⟨.map (strItems vns) its, by simp [marshalP, hl1, hl2, hm, Res.map], .smap vns (payloads vs2), ?_,
      by simpa [Approx] using ha⟩
    by_cases hemp : vns.isEmpty = true
    · have hk : vns = [] := by simpa using hemp
      subst hk
      have e1 : cts.length = 0 := by have := hc.1.1.1; simp at this; omega
      have hcts : cts = [] := List.length_eq_zero_iff.mp e1
      subst hcts
      have hvs : vs = [] := List.length_eq_zero_iff.mp (by simp at hl1; omega)
      subst hvs
      have hvts : vts = [] := by simpa using hl2
      subst hvts
      have hits : its = [] := by simpa using hl
      subst hits
      have hvos' : vos = [] := by simpa using hvol
      subst hvos'
      simp only [unmarshalZip, Res.ok.injEq] at hu
      subst hu
      simp [unmarshal, strItems, payloads]
    · have hne : (strItems vns).isEmpty = false :=
        isEmpty_of_length (strItems_length vns) (by simpa using hemp)
      have hlenok : ¬ (strItems vns).length ≠ cts.length := by rw [strItems_length]; omega
      have hfind := find_self vns cts cos hc.1.2 hc.1.1.1 hc.1.1.2
      have hent := attrs_asc E vns cts cos vns its cts vs2 [] [] hu (by omega) (by omega) rfl hfind (by simp) hc.1.2
      simp only [List.nil_append] at hent
      simp [unmarshal, hne, hlenok, hent, Res.bind, objectVal, keysOK_ok E vns hkeys, hty, hvos]

/-! ### every payload -/

mutual
theorem rtp (E : Ext) : ∀ p : Payload, RTP E p
  | .null => rtp_null E
  | .unk r => rtp_unk E r
  | .b v => rtp_b E v
  | .n x => rtp_n E x
  | .s s => rtp_s E s
  | .seq vs => rtp_seq E vs (rtpL E vs)
  | .sset ids vs => rtp_sset E ids vs (rtpL E vs)
  | .smap ks vs => rtp_smap E ks vs (rtpL E vs)
  | .caps => by intro ct vt _ _ _ h; simp [fitsP] at h
  | .marked _ _ => by intro ct vt _ _ _ h; simp [fitsP] at h
  | .bad _ => by intro ct vt _ _ _ h; simp [fitsP] at h
theorem rtpL (E : Ext) : ∀ ps : List Payload, ∀ p ∈ ps, RTP E p
  | [], _, h => by simp at h
  | q :: qs, p, h => by
    by_cases hp : p = q
    · rw [hp]; exact rtp E q
    · exact rtpL E qs p (by simpa [hp] using h)
end

theorem marshalV_eq (E : Ext) (v : Value) (ct : Ty) : marshalV E v ct = childItem E ct v.ty v.v := by
  unfold marshalV childItem
  cases v.v <;> rfl

/-! ### `marshal` does not look at the optional-attribute annotations of the constraint -/

/-- what is proved of every payload -/
def SO (E : Ext) (p : Payload) : Prop := ∀ vt ct : Ty, marshalP E vt p ct.stripOpt = marshalP E vt p ct

theorem childItem_so (E : Ext) (p : Payload) (ih : SO E p) (ce ve : Ty) :
    childItem E ce.stripOpt ve p = childItem E ce ve p := by
  cases p <;> simp only [childItem, isDyn_stripOpt, ih ve ce]

theorem marshalAll_so (E : Ext) (ve ce : Ty) : ∀ ps : List Payload, (∀ p ∈ ps, SO E p) →
    marshalAll E ve ps ce.stripOpt = marshalAll E ve ps ce
  | [], _ => by simp [marshalAll]
  | p :: ps, ih => by
    rw [marshalAll_cons, marshalAll_cons, childItem_so E p (ih p (by simp)),
      marshalAll_so E ve ce ps (fun q hq => ih q (by simp [hq]))]

theorem marshalZip_so (E : Ext) : ∀ (ves : List Ty) (ps : List Payload) (ces : List Ty), (∀ p ∈ ps, SO E p) →
    marshalZip E ves ps (Ty.stripOptL ces) = marshalZip E ves ps ces
  | ve :: ves, p :: ps, ce :: ces, ih => by
    simp only [Ty.stripOptL]
    rw [marshalZip_cons, marshalZip_cons, childItem_so E p (ih p (by simp)),
      marshalZip_so E ves ps ces (fun q hq => ih q (by simp [hq]))]
  | [], _, _, _ => by simp [marshalZip]
  | _ :: _, [], _, _ => by simp [marshalZip]
  | _ :: _, _ :: _, [], _ => by simp [marshalZip, Ty.stripOptL]

theorem so_seq (E : Ext) (vs : List Payload) (ih : ∀ p ∈ vs, SO E p) : SO E (.seq vs) := by
  intro vt ct
  cases ct <;> cases vt <;> simp only [Ty.stripOpt, marshalP]
  case list.list ce ve => rw [marshalAll_so E ve ce vs ih]
  case tuple.tuple ces ves => rw [marshalZip_so E ves vs ces ih, Ty.stripOptL_length]

theorem so_sset (E : Ext) (ids : List Int) (vs : List Payload) (ih : ∀ p ∈ vs, SO E p) : SO E (.sset ids vs) := by
  intro vt ct
  cases ct <;> cases vt <;> simp only [Ty.stripOpt, marshalP]
  case set.set ce ve => rw [marshalAll_so E ve ce vs ih]

theorem so_smap (E : Ext) (ks : List String) (vs : List Payload) (ih : ∀ p ∈ vs, SO E p) : SO E (.smap ks vs) := by
  intro vt ct
  cases ct <;> cases vt <;> simp only [Ty.stripOpt, marshalP]
  case map.map ce ve => rw [marshalAll_so E ve ce vs ih]
  case object.object cns cts cos vns vts vos => rw [marshalZip_so E vts vs cts ih, Ty.stripOptL_length]

mutual
theorem so (E : Ext) : ∀ p : Payload, SO E p
  | .null => by intro vt ct; simp [marshalP]
  | .unk r => by intro vt ct; simp [marshalP]
  | .b _ => by intro vt ct; cases ct <;> simp [marshalP, Ty.stripOpt]
  | .n _ => by intro vt ct; cases ct <;> simp [marshalP, Ty.stripOpt]
  | .s _ => by intro vt ct; cases ct <;> simp [marshalP, Ty.stripOpt]
  | .caps => by intro vt ct; cases ct <;> simp [marshalP, Ty.stripOpt]
  | .bad _ => by intro vt ct; simp [marshalP]
  | .marked _ _ => by intro vt ct; simp [marshalP]
  | .seq vs => so_seq E vs (soL E vs)
  | .sset ids vs => so_sset E ids vs (soL E vs)
  | .smap ks vs => so_smap E ks vs (soL E vs)
theorem soL (E : Ext) : ∀ ps : List Payload, ∀ p ∈ ps, SO E p
  | [], _, h => by simp at h
  | q :: qs, p, h => by
    by_cases hp : p = q
    · rw [hp]; exact so E q
    · exact soL E qs p (by simpa [hp] using h)
end

/-- The round trip: under `Fits` (and the set law) `Marshal` succeeds, `Unmarshal`
of its result with the same constraint succeeds, and what comes back has the
original's type and is an acceptable decoding of it. -/
theorem roundtrip (E : Ext) (v : Value) (t : Ty) (hfit : Fits E t v = true) (hset : SetsRebuild E v)
    (hconf : Ty.conformErrs t v.ty = 0) :
    ∃ it v', marshal E v t = .ok it ∧ Unmarshal E it t = .ok v' ∧ ApproxV v' v := by
  have hfit' : (t.wf = true ∧ v.ty.wf = true) ∧ fitsChild E t.stripOpt v.ty v.v = true := by
    simpa [Fits, fitsChild, isDyn_stripOpt] using hfit
  obtain ⟨⟨ht, hv⟩, hc⟩ := hfit'
  obtain ⟨it, hm, p', hu, ha⟩ := child_rt E v.v (rtp E v.v) t.stripOpt v.ty (wf_stripOpt t ht) hv hset hc
  rw [childItem_so E v.v (so E v.v)] at hm
  have hnm : v.v.isMarked = false := by
    cases hvv : v.v <;> simp_all [Payload.isMarked, childItem]
  refine ⟨it, ⟨v.ty, p'⟩, ?_, hu, rfl, ha⟩
  simp [marshal, hnm, hconf, marshalV_eq, hm]

end Msgpack
end CtyModel
