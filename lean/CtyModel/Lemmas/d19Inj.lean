/-
Paths identify positions (outside sets), and the "replace the member at this
path" callback.

* `kids_steps_nodup`   — in a container other than a set the STEPS of the members
                         are pairwise different (not only the (step, member) pairs).
* `pathAt_inj_noSet`   — a position whose way does not go through a set is the only
                         position with its path: `pathAt` is injective there.
* `atPathCb q0 x`      — the callback "return `x` at path `q0`, the given value
                         anywhere else" — what the rule `(at q0 (ret x))` of the
                         harness' rule language denotes (`Driver/HWalk.lean`
                         `decTRules`, `harness/c19.go` `hitRule`: paths compared by
                         their canonical wire strings).
* `atPathCb_hyps`      — that callback meets both hypotheses of
                         `C19.transform_replace_one` for every position outside sets,
                         so those hypotheses are satisfiable wherever the theorem
                         applies, by the very callback the correspondence runs.
-/
import CtyModel.Lemmas.WalkReplace
import CtyModel.Lemmas.ValEqDec
namespace CtyModel
namespace Walk
open Value

theorem seqKids_steps_nodup (e : Ty) : ∀ (i : Nat) (vs : List Payload),
    ((seqKids e i vs).map (·.1)).Nodup
  | _, [] => by simp [seqKids]
  | i, v :: vs => by
    simp only [seqKids, List.map_cons, List.nodup_cons]
    refine ⟨?_, seqKids_steps_nodup e (i + 1) vs⟩
    intro hmem
    obtain ⟨c, hc, hs⟩ := List.mem_map.mp hmem
    obtain ⟨j, hj, hc'⟩ := seqKids_steps_ge e (i + 1) vs c hc
    rw [hc'] at hs
    simp only [PathStep.index.injEq] at hs
    have := intVal_nat_inj hs
    omega

theorem tupKids_steps_nodup : ∀ (i : Nat) (ts : List Ty) (vs : List Payload),
    ((tupKids i ts vs).map (·.1)).Nodup
  | _, [], _ => by simp [tupKids]
  | _, _ :: _, [] => by simp [tupKids]
  | i, t :: ts, v :: vs => by
    simp only [tupKids, List.map_cons, List.nodup_cons]
    refine ⟨?_, tupKids_steps_nodup (i + 1) ts vs⟩
    intro hmem
    obtain ⟨c, hc, hs⟩ := List.mem_map.mp hmem
    obtain ⟨j, hj, hc'⟩ := tupKids_steps_ge (i + 1) ts vs c hc
    rw [hc'] at hs
    simp only [PathStep.index.injEq] at hs
    have := intVal_nat_inj hs
    omega

theorem mapKids_steps_nodup (e : Ty) : ∀ (ks : List String) (vs : List Payload), ks.Nodup →
    ((mapKids e ks vs).map (·.1)).Nodup
  | [], _, _ => by simp [mapKids]
  | _ :: _, [], _ => by simp [mapKids]
  | k :: ks, v :: vs, hnd => by
    have ⟨hnot, hnd'⟩ := List.nodup_cons.mp hnd
    simp only [mapKids, List.map_cons, List.nodup_cons]
    refine ⟨?_, mapKids_steps_nodup e ks vs hnd'⟩
    intro hmem
    obtain ⟨c, hc, hs⟩ := List.mem_map.mp hmem
    obtain ⟨k', hk', hc'⟩ := mapKids_step_mem e ks vs c hc
    rw [hc'] at hs
    simp only [strVal, PathStep.index.injEq, Value.mk.injEq, Payload.s.injEq, true_and] at hs
    exact hnot (hs ▸ hk')

theorem objKids_steps_nodup : ∀ (ns : List String) (ts : List Ty) (vs : List Payload), ns.Nodup →
    ((objKids ns ts vs).map (·.1)).Nodup
  | [], _, _, _ => by simp [objKids]
  | _ :: _, [], _, _ => by simp [objKids]
  | _ :: _, _ :: _, [], _ => by simp [objKids]
  | n :: ns, t :: ts, v :: vs, hnd => by
    have ⟨hnot, hnd'⟩ := List.nodup_cons.mp hnd
    simp only [objKids, List.map_cons, List.nodup_cons]
    refine ⟨?_, objKids_steps_nodup ns ts vs hnd'⟩
    intro hmem
    obtain ⟨c, hc, hs⟩ := List.mem_map.mp hmem
    obtain ⟨n', hn', hc'⟩ := objKids_step_mem ns ts vs c hc
    rw [hc'] at hs
    simp only [PathStep.getAttr.injEq] at hs
    exact hnot (hs ▸ hn')

/-- in a container other than a set, no two members have the same step -/
theorem kids_steps_nodup {X : SetOracle} (v : Value) (hs : shapedV v = true)
    (hset : notSet v.ty = true) : ((kids X v).map (·.1)).Nodup := by
  simp only [kids]
  split
  · exact List.nodup_nil
  · have hsu : shaped v.ty v.v.unmark1 = true := shaped_unmark1 hs
    obtain ⟨t, p⟩ := v
    simp only [Value.unmark]
    cases t <;> (try (simp [notSet] at hset; done)) <;> cases hp : p.unmark1 <;>
      simp only [children, List.map_nil, List.nodup_nil] <;> simp only [hp] at hsu
    · exact seqKids_steps_nodup _ _ _
    · simp only [shaped, Bool.and_eq_true, decide_eq_true_eq] at hsu
      exact mapKids_steps_nodup _ _ _ hsu.1.2
    · exact tupKids_steps_nodup _ _ _
    · simp only [shaped, Bool.and_eq_true, decide_eq_true_eq, beq_iff_eq] at hsu
      exact objKids_steps_nodup _ _ _ hsu.1.2

theorem nodup_map_getElem?_inj {α β : Type} (f : α → β) : ∀ (l : List α), (l.map f).Nodup →
    ∀ (i j : Nat) (a b : α), l[i]? = some a → l[j]? = some b → f a = f b → i = j
  | [], _, i, _, _, _, h, _, _ => by simp at h
  | x :: l, hnd, i, j, a, b, hi, hj, hab => by
    simp only [List.map_cons, List.nodup_cons, List.mem_map, not_exists, not_and] at hnd
    cases i with
    | zero =>
      cases j with
      | zero => rfl
      | succ j =>
        simp only [List.getElem?_cons_zero, Option.some.injEq] at hi
        simp only [List.getElem?_cons_succ] at hj
        exact absurd (hi ▸ hab).symm (hnd.1 b (List.mem_of_getElem? hj))
    | succ i =>
      cases j with
      | zero =>
        simp only [List.getElem?_cons_zero, Option.some.injEq] at hj
        simp only [List.getElem?_cons_succ] at hi
        exact absurd (hj ▸ hab) (hnd.1 a (List.mem_of_getElem? hi))
      | succ j =>
        simp only [List.getElem?_cons_succ] at hi hj
        rw [nodup_map_getElem?_inj f l hnd.2 i j a b hi hj hab]

/-- **paths identify positions outside sets**: if the way to `r0` does not go
through a set, `r0` is the only position of the value that has its path -/
theorem pathAt_inj_noSet {X : SetOracle} (hX : IterPerm X) : ∀ (r0 r : Pos) (v : Value) (q : Path),
    shapedV v = true → noSetAt X v r0 = true → pathAt X v r0 = some q → pathAt X v r = some q →
    r = r0
  | [], r, v, q, _, _, h0, h => by
    simp only [pathAt, Option.some.injEq] at h0
    subst h0
    cases r with
    | nil => rfl
    | cons j r =>
      simp only [pathAt] at h
      split at h
      · simp only [Option.map_eq_some_iff] at h
        obtain ⟨_, _, h⟩ := h
        cases h
      · cases h
  | j0 :: r0, r, v, q, hs, hns, h0, h => by
    simp only [pathAt] at h0
    simp only [noSetAt, Bool.and_eq_true] at hns
    cases hc0 : (kids X v)[j0]? with
    | none => simp [hc0] at h0
    | some c0 =>
      simp only [hc0, Option.map_eq_some_iff] at h0 hns
      obtain ⟨q0, hq0, rfl⟩ := h0
      cases r with
      | nil => simp [pathAt] at h
      | cons j r =>
        simp only [pathAt] at h
        cases hc : (kids X v)[j]? with
        | none => simp [hc] at h
        | some c =>
          simp only [hc, Option.map_eq_some_iff, List.cons.injEq] at h
          obtain ⟨q', hq', hst, rfl⟩ := h
          have hj : j = j0 :=
            nodup_map_getElem?_inj (·.1) (kids X v) (kids_steps_nodup v hs hns.1) j j0 c c0 hc hc0 hst
          subst hj
          rw [hc0] at hc
          cases hc
          have := pathAt_inj_noSet hX r0 r c0.2 q' (kids_shaped hX v hs c0 (List.mem_of_getElem? hc0))
            hns.2 hq0 hq'
          rw [this]

instance d19DecEqPathStep : DecidableEq PathStep := fun a b =>
  match a, b with
  | .getAttr m, .getAttr n => if h : m = n then isTrue (h ▸ rfl) else isFalse (fun e => h (by cases e; rfl))
  | .index j, .index k => if h : j = k then isTrue (h ▸ rfl) else isFalse (fun e => h (by cases e; rfl))
  | .getAttr _, .index _ => isFalse (fun e => by cases e)
  | .index _, .getAttr _ => isFalse (fun e => by cases e)

/-- the callback of the rule `(at q0 (ret x))`: return `x` at path `q0`, the value
it is given anywhere else — whatever was called before -/
def atPathCb (q0 : Path) (x : Value) : TCb := fun _ p w => if p = q0 then .ok x else .ok w

/-- `atPathCb` meets both hypotheses of `transform_replace_one`, at every position
outside sets -/
theorem atPathCb_hyps {X : SetOracle} (hX : IterPerm X) (v x : Value) (r0 : Pos) (q0 : Path)
    (hs : shapedV v = true) (hns : noSetAt X v r0 = true) (hq0 : pathAt X v r0 = some q0) :
    (∀ q, pathAt X v r0 = some q → ∀ log v', atPathCb q0 x log q v' = .ok x) ∧
    (∀ r q, r ≠ r0 → pathAt X v r = some q → ∀ log v', atPathCb q0 x log q v' = .ok v') := by
  constructor
  · intro q hq log v'
    rw [hq0] at hq
    cases hq
    simp [atPathCb]
  · intro r q hr hq log v'
    have hne : q ≠ q0 := by
      intro h
      subst h
      exact hr (pathAt_inj_noSet hX r0 r v q hs hns hq0 hq)
    simp [atPathCb, hne]

end Walk
end CtyModel
