/-
Refinements never change the type: `v.Refine()…NewValue()` has the type of `v`;
hence `prepareUnknownResult` returns a value of the type it is given.
-/
import CtyModel.Lemmas.ConvertBasic
namespace CtyModel
namespace Convert
open Refine

theorem init_orig {v : Value} {b : Builder} (h : Refine.init v = .ok b) : b.orig.ty = v.ty := by
  unfold Refine.init at h
  simp only at h
  split at h
  · simp at h
  · split at h <;> (try split at h) <;> (try split at h) <;> simp at h <;> (subst h; rfl)

theorem stepNotNull_orig {b b' : Builder} (h : stepNotNull b = .ok b') : b'.orig = b.orig := by
  unfold stepNotNull at h
  split at h <;> (try split at h) <;> simp at h <;> (subst h; rfl)

theorem stepNull_orig {b b' : Builder} (h : stepNull b = .ok b') : b'.orig = b.orig := by
  unfold stepNull at h
  split at h <;> (try split at h) <;> simp at h <;> (subst h; rfl)

theorem stepLenLower_orig {b b' : Builder} {n : Int} (h : stepLenLower b n = .ok b') : b'.orig = b.orig := by
  unfold stepLenLower at h
  split at h
  · simp only at h
    repeat' split at h
    all_goals (first | (simp at h; subst h; rfl) | simp at h)
  · simp at h

theorem stepLenUpper_orig {b b' : Builder} {n : Int} (h : stepLenUpper b n = .ok b') : b'.orig = b.orig := by
  unfold stepLenUpper at h
  split at h
  · simp only at h
    repeat' split at h
    all_goals (first | (simp at h; subst h; rfl) | simp at h)
  · simp at h

theorem lowerCore_orig {b b' : Builder} {n lo hi m incl store}
    (h : lowerCore b n lo hi m incl store = .ok b') : b'.orig = b.orig := by
  unfold lowerCore at h
  split at h
  · simp at h
  · split at h
    · simp at h
    · simp at h; subst h; rfl
    · simp only at h
      split at h
      · simp at h
      · simp at h
      · simp at h; subst h; rfl
  all_goals simp at h

theorem upperCore_orig {b b' : Builder} {n lo hi m incl store}
    (h : upperCore b n lo hi m incl store = .ok b') : b'.orig = b.orig := by
  unfold upperCore at h
  split at h
  · simp at h
  · split at h
    · simp at h
    · simp at h; subst h; rfl
    · simp only at h
      split at h
      · simp at h
      · simp at h
      · simp at h; subst h; rfl
  all_goals simp at h

theorem stepNumLower_orig {b b' : Builder} {a incl} (h : stepNumLower b a incl = .ok b') : b'.orig = b.orig := by
  unfold stepNumLower at h
  split at h
  · split at h
    · simp at h; subst h; rfl
    · simp at h
    · exact lowerCore_orig h
    · exact lowerCore_orig h
    · exact lowerCore_orig h
  · simp at h

theorem stepNumUpper_orig {b b' : Builder} {a incl} (h : stepNumUpper b a incl = .ok b') : b'.orig = b.orig := by
  unfold stepNumUpper at h
  split at h
  · split at h
    · simp at h; subst h; rfl
    · simp at h
    · exact upperCore_orig h
    · exact upperCore_orig h
    · exact upperCore_orig h
  · simp at h

theorem stepPrefix_orig {b b' : Builder} {p} (h : stepPrefix b p = .ok b') : b'.orig = b.orig := by
  unfold stepPrefix at h
  split at h
  · simp only at h
    repeat' split at h
    all_goals (first | (simp at h; subst h; rfl) | simp at h)
  · simp at h

theorem step1_orig {b b' : Builder} {c : RefineCall} (h : step1 b c = .ok b') : b'.orig = b.orig := by
  cases c <;> simp only [step1] at h
  · exact stepNotNull_orig h
  · exact stepNull_orig h
  · exact stepNumLower_orig h
  · exact stepNumUpper_orig h
  · obtain ⟨b1, h1, h2⟩ := Res.bind_eq_ok h
    rw [stepNumUpper_orig h2, stepNumLower_orig h1]
  · exact stepLenLower_orig h
  · exact stepLenUpper_orig h
  · obtain ⟨b1, h1, h2⟩ := Res.bind_eq_ok h
    rw [stepLenUpper_orig h2, stepLenLower_orig h1]
  · exact stepPrefix_orig h
  · exact stepPrefix_orig h

theorem step_orig {b b' : Builder} {c : RefineCall} (h : Refine.step b c = .ok b') : b'.orig = b.orig := by
  unfold Refine.step at h
  split at h
  · simp at h; subst h; rfl
  · split at h
    · simp at h
    · exact step1_orig h

theorem run_orig : ∀ {cs : List RefineCall} {b b' : Builder}, Refine.run b cs = .ok b' → b'.orig = b.orig
  | [], b, b', h => by simp [Refine.run] at h; subst h; rfl
  | c :: cs, b, b', h => by
    simp only [Refine.run] at h
    obtain ⟨b1, h1, h2⟩ := Res.bind_eq_ok h
    rw [run_orig h2, step_orig h1]

theorem collapse_ty {ty : Ty} {r : Rfn} {v : Value} (h : collapse ty r = .ok (some v)) : v.ty = ty := by
  unfold collapse at h
  repeat' split at h
  all_goals (first | (simp at h; subst h; rfl) | simp at h)

theorem newValue_ty {b : Builder} {r : Value} (h : newValue b = .ok r) : r.ty = b.orig.ty := by
  unfold newValue at h
  split at h
  · simp at h; subst h; rfl
  · simp only at h
    split at h
    · simp at h
    · split at h
      · simp at h; subst h; rfl
      · simp at h; subst h; rfl
      · split at h
        · rename_i v hc
          simp at h; subst h
          exact (withMarks_ty v _).trans (collapse_ty hc)
        · simp at h; subst h; rfl
        · simp at h
        · simp at h
        · simp at h

/-- `v.Refine().<calls>.NewValue()` has the type of `v` -/
theorem refine_ty {v r : Value} {cs : List RefineCall} (h : Refine.refine v cs = .ok r) : r.ty = v.ty := by
  unfold Refine.refine at h
  obtain ⟨b, hb, h⟩ := Res.bind_eq_ok h
  obtain ⟨b', hb', h⟩ := Res.bind_eq_ok h
  rw [newValue_ty h, run_orig hb', init_orig hb]

/-- `prepareUnknownResult(range, targetTy)` is of type `targetTy` -/
theorem prepareUnknownResult_ty {src : ValueRange} {t : Ty} {r : Value}
    (h : prepareUnknownResult src t = .ok r) : r.ty = t := by
  unfold prepareUnknownResult at h
  simp only at h
  obtain ⟨ret, hret, h⟩ := Res.bind_eq_ok h
  have hrt : ret.ty = t := by
    split at hret
    · exact refine_ty hret
    · simp at hret; subst hret; rfl
  split at h
  · rw [refine_ty h, hrt]
  · rw [refine_ty h, hrt]
  · split at h <;> rw [refine_ty h, hrt]
  · split at h
    · obtain ⟨lo, _, h⟩ := Res.bind_eq_ok h
      obtain ⟨hi, _, h⟩ := Res.bind_eq_ok h
      rw [refine_ty h, hrt]
    · simp at h; subst h; exact hrt

end Convert
end CtyModel
