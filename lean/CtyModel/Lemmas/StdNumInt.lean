/- Numeric lemmas for C14: exactness of `SetInt` at the receiver's precision, and the
integer bounds behind ceil / floor / int. -/
import CtyModel.Lemmas.NumRound
import CtyModel.Lemmas.GoctyNum
import CtyModel.Stdlib.NumberSpec
namespace CtyModel
namespace Num

/-- rounding `q·2^j` to `p` bits is exact when `q` fits `p` bits -/
theorem roundME_exact (q j : Nat) (e : Int) (p : Nat) (hp : 0 < p) (hq : bitlen q ≤ p) :
    ∃ k : Nat, (roundME (q * 2 ^ j) e p).2 = e + k ∧ (roundME (q * 2 ^ j) e p).1 * 2 ^ k = q * 2 ^ j := by
  unfold roundME
  have hp' : p ≠ 0 := by omega
  simp only [hp', if_false]
  split
  · exact ⟨0, by simp, by simp⟩
  · rename_i hbl
    refine ⟨bitlen (q * 2 ^ j) - p, by simp, ?_⟩
    generalize hk : bitlen (q * 2 ^ j) - p = k
    have hk0 : 0 < k := by omega
    -- k ≤ j because q·2^j < 2^(p+j)
    have hqlt : q < 2 ^ p := (bitlen_le_iff q p).mp hq
    have hlt : q * 2 ^ j < 2 ^ (p + j) := by
      rw [Nat.pow_add]; exact Nat.mul_lt_mul_of_pos_right hqlt (Nat.two_pow_pos j)
    have hble : bitlen (q * 2 ^ j) ≤ p + j := (bitlen_le_iff _ _).mpr hlt
    have hkj : k ≤ j := by omega
    have hsplit : q * 2 ^ j = (q * 2 ^ (j - k)) * 2 ^ k := by
      rw [Nat.mul_assoc, ← Nat.pow_add]; congr 2; omega
    have hmod : q * 2 ^ j % 2 ^ k = 0 := by rw [hsplit]; exact Nat.mul_mod_left _ _
    have hdiv : (q * 2 ^ j) >>> k = q * 2 ^ (j - k) := by
      rw [Nat.shiftRight_eq_div_pow, hsplit, Nat.mul_div_cancel _ (Nat.two_pow_pos k)]
    have hhalf : 0 < 2 ^ (k - 1) := Nat.two_pow_pos _
    simp only [hmod, hdiv]
    have h1 : ¬ (0 > 2 ^ (k - 1) ∨ 0 = 2 ^ (k - 1) ∧ q * 2 ^ (j - k) % 2 = 1) := by omega
    simp only [h1, if_false]
    exact hsplit.symm

theorem IsVal.rescale {c : Num} {v e1 : Int} (h : IsVal c v e1) (e0 : Int) (he : e0 ≤ e1) :
    IsVal c (v * 2 ^ (e1 - e0).toNat) e0 := by
  cases c with
  | inf n => exact h
  | fin n m e' p =>
    simp only [IsVal] at h ⊢
    rcases h with ⟨hm, hv⟩ | ⟨hle, hv⟩
    · left; exact ⟨hm, by simp [hv]⟩
    · right
      refine ⟨by omega, ?_⟩
      have : (e' - e0).toNat = (e' - e1).toNat + (e1 - e0).toNat := by omega
      rw [this, Int.pow_add, ← Int.mul_assoc, hv]

/-- `round` is exact on `q·2^j` when `q` fits the precision -/
theorem round_exact (neg : Bool) (q j : Nat) (p : Nat) (hp : 0 < p) (hq : bitlen q ≤ p) :
    IsVal (round neg (q * 2 ^ j) 0 p) (if neg then -((q * 2 ^ j : Nat) : Int) else ((q * 2 ^ j : Nat) : Int)) 0 := by
  obtain ⟨k, h1, h2⟩ := roundME_exact q j 0 p hp hq
  unfold round
  simp only []
  have hv := mk_isVal neg (roundME (q * 2 ^ j) 0 p).1 (roundME (q * 2 ^ j) 0 p).2 p
  have hr := hv.rescale 0 (by omega)
  have hk : ((roundME (q * 2 ^ j) 0 p).2 - 0).toNat = k := by rw [h1]; omega
  rw [hk] at hr
  have h2' : ((roundME (q * 2 ^ j) 0 p).1 : Int) * 2 ^ k = ((q * 2 ^ j : Nat) : Int) := by exact_mod_cast h2
  cases neg
  · simpa [h2'] using hr
  · simp only [if_true] at hr ⊢
    rw [Int.neg_mul, h2'] at hr
    exact hr

/-- `z.SetInt(k)` at the receiver's precision `p` represents `k` exactly whenever
`|k| = q·2^j` with `q` fitting `p` bits (or `p = 0`: the precision is then chosen
large enough) -/
theorem setIntP_exact (k : Int) (p q j : Nat) (hk : k.natAbs = q * 2 ^ j) (hq : p = 0 ∨ bitlen q ≤ p) :
    IsVal (setIntP k p) k 0 := by
  unfold setIntP
  have hsign : (if decide (k < 0) = true then -((k.natAbs : Nat) : Int) else ((k.natAbs : Nat) : Int)) = k := by
    by_cases h : k < 0 <;> simp [h] <;> omega
  by_cases hp0 : p = 0
  · simp only [hp0, if_true]
    have hfit : bitlen (k.natAbs * 2 ^ 0) ≤ max (bitlen k.natAbs) 64 := by simp; omega
    have := round_exact (decide (k < 0)) k.natAbs 0 (max (bitlen k.natAbs) 64) (by omega) (by omega)
    simp only [Nat.pow_zero, Nat.mul_one] at this
    rw [hsign] at this
    exact this
  · simp only [hp0, if_false]
    have hq' : bitlen q ≤ p := by rcases hq with h | h; exact absurd h hp0; exact h
    have := round_exact (decide (k < 0)) q j p (by omega) hq'
    rw [← hk, hsign] at this
    rw [hk]
    rw [hk] at this
    exact this

end Num
end CtyModel

namespace CtyModel
namespace StdNum
open Num Value

@[simp] theorem arg0 (a : Value) (l : List Value) : arg (a :: l) 0 = .ok a := rfl
@[simp] theorem arg1 (a b : Value) (l : List Value) : arg (a :: b :: l) 1 = .ok b := rfl
@[simp] theorem arg2 (a b c : Value) (l : List Value) : arg (a :: b :: c :: l) 2 = .ok c := rfl

@[simp] theorem asBigFloat_num (x : Num) : asBigFloat (numVal x) = .ok x := by
  simp [asBigFloat, numVal, Value.isMarked, Payload.isMarked, Ty.isNumber]

theorem isZero_fin {n : Bool} {m : Nat} {e : Int} {p : Nat} (h : m ≠ 0) : (Num.fin n m e p).isZero = false := by
  cases m with
  | zero => contradiction
  | succ k => rfl

theorem sval_natAbs (n : Bool) (m : Nat) : (sval n m).natAbs = m := by
  cases n <;> simp [sval]

/-- an odd number is not a multiple of `2^K` (K ≥ 1): strict bounds of the quotient -/
theorem odd_div_pow (m K : Nat) (hodd : m % 2 = 1) (hK : 0 < K) :
    (m / 2 ^ K) * 2 ^ K < m ∧ m < (m / 2 ^ K + 1) * 2 ^ K ∧ 2 * (m / 2 ^ K) < m := by
  have hd : 2 ^ K = 2 * 2 ^ (K - 1) := by rw [← Nat.pow_succ']; congr 1; omega
  have hpos : 0 < 2 ^ (K - 1) := Nat.two_pow_pos _
  have hdm := Nat.div_add_mod m (2 ^ K)
  have hlt := Nat.mod_lt m (Nat.two_pow_pos K)
  have hne : m % 2 ^ K ≠ 0 := by
    intro h0
    have h2 : (m % 2 ^ K) % 2 = m % 2 := Nat.mod_mod_of_dvd m ⟨2 ^ (K - 1), hd⟩
    rw [h0] at h2; omega
  have hle : 2 * (m / 2 ^ K) ≤ (m / 2 ^ K) * 2 ^ K := by
    rw [Nat.mul_comm 2]; exact Nat.mul_le_mul_left _ (by omega)
  rw [Nat.mul_comm] at hdm
  rw [Nat.add_mul, Nat.one_mul]
  generalize (m / 2 ^ K) * 2 ^ K = A at *
  generalize m % 2 ^ K = r at *
  omega

/-- what `x.Int(nil)` and its accuracy are for a whole number -/
theorem trunc_int (n : Bool) (m : Nat) (e : Int) (p : Nat) (he : 0 ≤ e) :
    (Num.fin n m e p).truncInt = some (sval n m * 2 ^ e.toNat) ∧ intAcc (.fin n m e p) = .exact := by
  have h1 : decide (e ≥ 0) = true := by simp [he]
  constructor
  · cases n <;> simp [Num.truncInt, he, sval, Int.neg_mul]
  · simp [intAcc, Num.isInt, he]

/-- … and for a non-integer (odd mantissa, negative exponent) -/
theorem trunc_frac (n : Bool) (m : Nat) (e : Int) (p : Nat) (he : e < 0) (hodd : m % 2 = 1) :
    (Num.fin n m e p).truncInt = some (sval n (m / 2 ^ (-e).toNat)) ∧
    intAcc (.fin n m e p) = (if n then .above else .below) := by
  have h1 : ¬ (e ≥ 0) := by omega
  have hm : m ≠ 0 := by omega
  constructor
  · have : ((m : Int) / 2 ^ (-e).toNat) = ((m / 2 ^ (-e).toNat : Nat) : Int) := by
      rw [Int.natCast_ediv]; simp
    simp only [Num.truncInt, h1, if_false, this]
    cases n <;> simp [sval]
  · cases n <;> simp [intAcc, Num.isInt, h1, isZero_fin hm, Num.signbit]

theorem ceilImpl_eval (x : Num) (hfin : x.isInf = false) (i : Int) (ht : x.truncInt = some i) :
    ceilImpl [numVal x] = .ok (numVal (setIntP (match intAcc x with | .exact | .above => i | .below => i + 1) x.prec)) := by
  simp [ceilImpl, hfin, ht]
  rfl

theorem floorImpl_eval (x : Num) (hfin : x.isInf = false) (i : Int) (ht : x.truncInt = some i) :
    floorImpl [numVal x] = .ok (numVal (setIntP (match intAcc x with | .exact | .below => i | .above => i - 1) x.prec)) := by
  simp [floorImpl, hfin, ht]
  rfl

/-- bit-length bound that makes `SetInt` at the argument's precision exact for a
non-integer argument: the truncation plus one still fits -/
theorem frac_fits (m K p : Nat) (hodd : m % 2 = 1) (hK : 0 < K) (hp : bitlen m ≤ p) :
    bitlen (m / 2 ^ K + 1) ≤ p ∧ bitlen (m / 2 ^ K) ≤ p := by
  have hm : m < 2 ^ p := (bitlen_le_iff m p).mp hp
  have hp1 : 0 < p := by
    have : 0 < bitlen m := bitlen_pos (by omega)
    omega
  have h2 : 2 ^ p = 2 * 2 ^ (p - 1) := by rw [← Nat.pow_succ']; congr 1; omega
  obtain ⟨_, _, h3⟩ := odd_div_pow m K hodd hK
  constructor
  · rw [bitlen_le_iff]; omega
  · rw [bitlen_le_iff]; omega

/-- `ceil` of a finite number: the result is the whole number `k`, represented
exactly at the argument's precision, with `k − 1 < x ≤ k` (both sides scaled to
integers: `x = sval n m · 2^e`) -/
theorem ceil_fin (n : Bool) (m : Nat) (e : Int) (p : Nat) (hN : Normal (.fin n m e p)) :
    ∃ k : Int, ceilImpl [numVal (.fin n m e p)] = .ok (numVal (setIntP k p)) ∧
      IsVal (setIntP k p) k 0 ∧
      (k - 1) * 2 ^ (-e).toNat < sval n m * 2 ^ e.toNat ∧ sval n m * 2 ^ e.toNat ≤ k * 2 ^ (-e).toNat := by
  obtain ⟨hform, hfit⟩ := hN
  by_cases he : 0 ≤ e
  · obtain ⟨ht, ha⟩ := trunc_int n m e p he
    refine ⟨sval n m * 2 ^ e.toNat, ?_, ?_, ?_, ?_⟩
    · rw [ceilImpl_eval _ rfl _ ht, ha]; rfl
    · apply setIntP_exact _ p m e.toNat _ (Or.inr hfit)
      rw [Int.natAbs_mul, sval_natAbs, Int.natAbs_pow]; rfl
    · have : (-e).toNat = 0 := by omega
      rw [this]; omega
    · have : (-e).toNat = 0 := by omega
      rw [this]; omega
  · have he' : e < 0 := by omega
    have hodd : m % 2 = 1 := by rcases hform with ⟨_, h0⟩ | h; omega; exact h
    obtain ⟨ht, ha⟩ := trunc_frac n m e p he' hodd
    have hK : 0 < (-e).toNat := by omega
    obtain ⟨hb1, hb2, _⟩ := odd_div_pow m (-e).toNat hodd hK
    obtain ⟨hf1, hf2⟩ := frac_fits m (-e).toNat p hodd hK hfit
    have hJ : e.toNat = 0 := by omega
    generalize hq : m / 2 ^ (-e).toNat = q at *
    have hb1' : ((q * 2 ^ (-e).toNat : Nat) : Int) < (m : Int) := by exact_mod_cast hb1
    have hb2' : (m : Int) < (((q + 1) * 2 ^ (-e).toNat : Nat) : Int) := by exact_mod_cast hb2
    simp only [Int.natCast_mul, Int.natCast_pow, Int.natCast_add, Int.natCast_one] at hb1' hb2'
    generalize hd : ((2 : Int) ^ (-e).toNat) = d at *
    cases n
    · -- positive: truncation is below, ceil = q + 1
      refine ⟨(q : Int) + 1, ?_, ?_, ?_, ?_⟩
      · rw [ceilImpl_eval _ rfl _ ht, ha]; simp [sval, Num.prec]
      · apply setIntP_exact _ p (q + 1) 0 _ (Or.inr hf1)
        simp; omega
      · simp only [sval, hJ, Bool.false_eq_true, if_false]
        have : ((q : Int) + 1 - 1) * d = (q : Int) * d := by rw [Int.add_sub_cancel]
        rw [this]; omega
      · simp only [sval, hJ, Bool.false_eq_true, if_false]; omega
    · -- negative: truncation is above, ceil = -q
      refine ⟨-(q : Int), ?_, ?_, ?_, ?_⟩
      · rw [ceilImpl_eval _ rfl _ ht, ha]; simp [sval, Num.prec]
      · apply setIntP_exact _ p q 0 _ (Or.inr hf2)
        simp
      · simp only [sval, hJ, if_true]
        have : (-(q : Int) - 1) * d = -(((q : Int) + 1) * d) := by
          rw [← Int.neg_mul]; congr 1; omega
        rw [this]; omega
      · simp only [sval, hJ, if_true]
        have key : -(q : Int) * d = -((q : Int) * d) := Int.neg_mul _ _
        omega

/-- `floor` of a finite number: the whole number `k`, exact at the argument's
precision, with `k ≤ x < k + 1` -/
theorem floor_fin (n : Bool) (m : Nat) (e : Int) (p : Nat) (hN : Normal (.fin n m e p)) :
    ∃ k : Int, floorImpl [numVal (.fin n m e p)] = .ok (numVal (setIntP k p)) ∧
      IsVal (setIntP k p) k 0 ∧
      k * 2 ^ (-e).toNat ≤ sval n m * 2 ^ e.toNat ∧ sval n m * 2 ^ e.toNat < (k + 1) * 2 ^ (-e).toNat := by
  obtain ⟨hform, hfit⟩ := hN
  by_cases he : 0 ≤ e
  · obtain ⟨ht, ha⟩ := trunc_int n m e p he
    refine ⟨sval n m * 2 ^ e.toNat, ?_, ?_, ?_, ?_⟩
    · rw [floorImpl_eval _ rfl _ ht, ha]; rfl
    · apply setIntP_exact _ p m e.toNat _ (Or.inr hfit)
      rw [Int.natAbs_mul, sval_natAbs, Int.natAbs_pow]; rfl
    · have : (-e).toNat = 0 := by omega
      rw [this]; omega
    · have : (-e).toNat = 0 := by omega
      rw [this]; omega
  · have he' : e < 0 := by omega
    have hodd : m % 2 = 1 := by rcases hform with ⟨_, h0⟩ | h; omega; exact h
    obtain ⟨ht, ha⟩ := trunc_frac n m e p he' hodd
    have hK : 0 < (-e).toNat := by omega
    obtain ⟨hb1, hb2, _⟩ := odd_div_pow m (-e).toNat hodd hK
    obtain ⟨hf1, hf2⟩ := frac_fits m (-e).toNat p hodd hK hfit
    have hJ : e.toNat = 0 := by omega
    generalize hq : m / 2 ^ (-e).toNat = q at *
    have hb1' : ((q * 2 ^ (-e).toNat : Nat) : Int) < (m : Int) := by exact_mod_cast hb1
    have hb2' : (m : Int) < (((q + 1) * 2 ^ (-e).toNat : Nat) : Int) := by exact_mod_cast hb2
    simp only [Int.natCast_mul, Int.natCast_pow, Int.natCast_add, Int.natCast_one] at hb1' hb2'
    generalize hd : ((2 : Int) ^ (-e).toNat) = d at *
    cases n
    · -- positive: truncation is below, floor = q
      refine ⟨(q : Int), ?_, ?_, ?_, ?_⟩
      · rw [floorImpl_eval _ rfl _ ht, ha]; simp [sval, Num.prec]
      · apply setIntP_exact _ p q 0 _ (Or.inr hf2)
        simp
      · simp only [sval, hJ, Bool.false_eq_true, if_false]; omega
      · simp only [sval, hJ, Bool.false_eq_true, if_false]; omega
    · -- negative: truncation is above, floor = -q - 1
      refine ⟨-(q : Int) - 1, ?_, ?_, ?_, ?_⟩
      · rw [floorImpl_eval _ rfl _ ht, ha]; simp [sval, Num.prec]
      · apply setIntP_exact _ p (q + 1) 0 _ (Or.inr hf1)
        simp; omega
      · simp only [sval, hJ, if_true]
        have key : (-(q : Int) - 1) * d = -(((q : Int) + 1) * d) := by
          rw [← Int.neg_mul]; congr 1; omega
        omega
      · simp only [sval, hJ, if_true]
        have key : (-(q : Int) - 1 + 1) * d = -((q : Int) * d) := by
          rw [← Int.neg_mul]; congr 1; omega
        omega

/-- `int` is the identity on whole numbers … -/
theorem int_whole (x : Num) (h : x.isInt = true) : intImpl [numVal x] = .ok (numVal x) := by
  cases x with
  | inf n => simp [Num.isInt] at h
  | fin n m e p => simp [intImpl, h, Num.isInf]

/-- … rejects every infinity with a plain error (documented for `Int`: "If an infinity
is passed to Int, an error is returned") … -/
theorem int_inf (n : Bool) : ∃ msg, intImpl [numVal (.inf n)] = .err msg :=
  ⟨_, by simp [intImpl, Num.isInf]; rfl⟩

/-- … and truncates a non-integer toward zero: the result is `sval n q` (the sign of
the argument on the integer part `q` of its magnitude), exactly -/
theorem int_frac (n : Bool) (m : Nat) (e : Int) (p : Nat) (hN : Normal (.fin n m e p)) (he : e < 0) :
    ∃ q : Nat, intImpl [numVal (.fin n m e p)] = .ok (numVal (setIntP (sval n q) 0)) ∧
      IsVal (setIntP (sval n q) 0) (sval n q) 0 ∧
      q * 2 ^ (-e).toNat < m ∧ m < (q + 1) * 2 ^ (-e).toNat := by
  obtain ⟨hform, _⟩ := hN
  have hodd : m % 2 = 1 := by rcases hform with ⟨_, h0⟩ | h; omega; exact h
  obtain ⟨ht, _⟩ := trunc_frac n m e p he hodd
  obtain ⟨hb1, hb2, _⟩ := odd_div_pow m (-e).toNat hodd (by omega)
  refine ⟨m / 2 ^ (-e).toNat, ?_, ?_, hb1, hb2⟩
  · have hni : (Num.fin n m e p).isInt = false := by simp [Num.isInt]; omega
    simp [intImpl, hni, ht, Num.isInf]
  · exact setIntP_exact _ 0 (m / 2 ^ (-e).toNat) 0 (by simp [sval_natAbs]) (Or.inl rfl)

end StdNum
end CtyModel
