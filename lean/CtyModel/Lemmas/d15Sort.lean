/-
C15 (d15) — one generic "insert into ascending parallel lists unless the key is there" sort
(`sortG`), of which `Ty.buildFields` (the attribute map of `cty.Object`), `sortMembers` (the
canonical form of a document) are instances, and what the document round trip for objects
with keys in ANY order needs of it: the key list does not depend on the values, a pointwise
relation between two value lists survives the sort, sorted input is left alone, lookups in
the output are lookups in the input.
-/
import CtyModel.JsonD15
import CtyModel.Lemmas.JsonValDoc
import CtyModel.Lemmas.JsonValRT
namespace CtyModel
namespace JsonVal
open Ty

variable {α β : Type}

def insG (k : String) (a : α) : List String → List α → List String × List α
  | n :: ns, u :: us =>
    if k < n then (k :: n :: ns, a :: u :: us)
    else if k = n then (n :: ns, u :: us)
    else
      let r := insG k a ns us
      (n :: r.1, u :: r.2)
  | _, _ => ([k], [a])

def sortG : List String → List α → List String × List α
  | k :: ks, a :: as =>
    let r := sortG ks as
    insG k a r.1 r.2
  | _, _ => ([], [])

/-- pointwise relation of two lists of equal length -/
def All2 (R : α → β → Prop) : List α → List β → Prop
  | [], [] => True
  | a :: as, b :: bs => R a b ∧ All2 R as bs
  | _, _ => False

theorem insertField_eq_insG (k : String) (t : Ty) : ∀ (ns : List String) (ts : List Ty),
    insertField k t ns ts = insG k t ns ts
  | [], _ => by simp [insertField, insG]
  | _ :: _, [] => by simp [insertField, insG]
  | n :: ns, u :: us => by simp [insertField, insG, insertField_eq_insG k t ns us]

theorem buildFields_eq_sortG (norm : String → String) : ∀ (ks : List String) (ts : List Ty),
    buildFields norm ks ts = sortG (ks.map norm) ts
  | [], _ => by simp [buildFields, sortG]
  | _ :: _, [] => by simp [buildFields, sortG]
  | k :: ks, t :: ts => by
    simp [buildFields, sortG, buildFields_eq_sortG norm ks ts, insertField_eq_insG]

theorem insertMember_eq_insG (k : String) (v : Json) : ∀ (ns : List String) (us : List Json),
    insertMember k v ns us = insG k v ns us
  | [], _ => by simp [insertMember, insG]
  | _ :: _, [] => by simp [insertMember, insG]
  | n :: ns, u :: us => by simp [insertMember, insG, insertMember_eq_insG k v ns us]

theorem sortMembers_eq_sortG : ∀ (ks : List String) (vs : List Json), sortMembers ks vs = sortG ks vs
  | [], _ => by simp [sortMembers, sortG]
  | _ :: _, [] => by simp [sortMembers, sortG]
  | k :: ks, v :: vs => by simp [sortMembers, sortG, sortMembers_eq_sortG ks vs, insertMember_eq_insG]

/-! ### keys do not depend on the values; a pointwise relation survives -/

theorem insG_rel (R : α → β → Prop) (k : String) (a : α) (b : β) (hab : R a b) :
    ∀ (ns : List String) (us : List α) (vs : List β), All2 R us vs →
      (insG k a ns us).1 = (insG k b ns vs).1 ∧ All2 R (insG k a ns us).2 (insG k b ns vs).2
  | [], us, vs, _ => by simp [insG, All2, hab]
  | _ :: _, [], [], _ => by simp [insG, All2, hab]
  | _ :: _, [], _ :: _, h => by simp [All2] at h
  | _ :: _, _ :: _, [], h => by simp [All2] at h
  | n :: ns, u :: us, v :: vs, h => by
    simp only [All2] at h
    have ih := insG_rel R k a b hab ns us vs h.2
    simp only [insG]
    by_cases h1 : k < n
    · simp [h1, All2, hab, h.1, h.2]
    · by_cases h2 : k = n
      · simp [h2, All2, h.1, h.2]
      · simp [h1, h2, All2, h.1, ih.1, ih.2]

theorem sortG_rel (R : α → β → Prop) : ∀ (ks : List String) (as : List α) (bs : List β), All2 R as bs →
    (sortG ks as).1 = (sortG ks bs).1 ∧ All2 R (sortG ks as).2 (sortG ks bs).2
  | [], _, _, _ => by simp [sortG, All2]
  | _ :: _, [], [], _ => by simp [sortG, All2]
  | _ :: _, [], _ :: _, h => by simp [All2] at h
  | _ :: _, _ :: _, [], h => by simp [All2] at h
  | k :: ks, a :: as, b :: bs, h => by
    simp only [All2] at h
    have ih := sortG_rel R ks as bs h.2
    simp only [sortG]
    have := insG_rel R k a b h.1 (sortG ks as).1 (sortG ks as).2 (sortG ks bs).2 ih.2
    rw [← ih.1]
    exact this

theorem All2_of_length {as : List α} {bs : List β} : as.length = bs.length → All2 (fun _ _ => True) as bs := by
  induction as generalizing bs with
  | nil => cases bs <;> simp [All2]
  | cons a as ih =>
    cases bs with
    | nil => simp
    | cons b bs => intro h; simp [All2]; exact ih (by simpa using h)

theorem All2_length {R : α → β → Prop} {as : List α} {bs : List β} : All2 R as bs → as.length = bs.length := by
  induction as generalizing bs with
  | nil => cases bs <;> simp [All2]
  | cons a as ih =>
    cases bs with
    | nil => simp [All2]
    | cons b bs => intro h; simp [All2] at h; simp [ih h.2]

theorem sortG_keys (ks : List String) (as : List α) (bs : List β) (h : as.length = bs.length) :
    (sortG ks as).1 = (sortG ks bs).1 := (sortG_rel _ ks as bs (All2_of_length h)).1

theorem All2_map_eq {f : α → β} {as : List α} {bs : List β} (h : All2 (fun a b => f a = b) as bs) :
    as.map f = bs := by
  induction as generalizing bs with
  | nil => cases bs <;> simp [All2] at h ⊢
  | cons a as ih =>
    cases bs with
    | nil => simp [All2] at h
    | cons b bs => simp [All2] at h; simp [h.1, ih h.2]

theorem All2_map_self (f : α → β) : ∀ as : List α, All2 (fun a b => f a = b) as (as.map f)
  | [] => by simp [All2]
  | a :: as => by simp [All2, All2_map_self f as]

/-- mapping the values commutes with the sort -/
theorem sortG_map (f : α → β) (ks : List String) (as : List α) :
    (sortG ks (as.map f)).2 = (sortG ks as).2.map f :=
  (All2_map_eq (sortG_rel _ ks as (as.map f) (All2_map_self f as)).2).symm

theorem sortG_length : ∀ (ks : List String) (as : List α), (sortG ks as).1.length = (sortG ks as).2.length
  | [], _ => by simp [sortG]
  | _ :: _, [] => by simp [sortG]
  | k :: ks, a :: as => by
    have ih := sortG_length ks as
    simp only [sortG]
    generalize (sortG ks as).1 = ns at ih ⊢
    generalize (sortG ks as).2 = us at ih ⊢
    clear as ks
    induction ns generalizing us with
    | nil => simp [insG]
    | cons n ns ihn =>
      cases us with
      | nil => simp at ih
      | cons u us =>
        simp only [insG]
        by_cases h1 : k < n
        · simpa [h1] using ih
        · by_cases h2 : k = n
          · simpa [h1, h2] using ih
          · simp [h1, h2, ihn us (by simpa using ih)]

/-! ### sorted input is left alone -/

theorem sortG_sorted : ∀ (ks : List String) (as : List α), strictAsc ks = true → ks.length = as.length →
    sortG ks as = (ks, as)
  | [], [], _, _ => by simp [sortG]
  | [], _ :: _, _, h => by simp at h
  | _ :: _, [], _, h => by simp at h
  | k :: ks, a :: as, hs, hl => by
    have ⟨hs', hlt⟩ := strictAsc_cons hs
    simp only [sortG, sortG_sorted ks as hs' (by simpa using hl)]
    cases ks with
    | nil =>
      cases as with
      | nil => simp [insG]
      | cons _ _ => simp at hl
    | cons n ns =>
      cases as with
      | nil => simp at hl
      | cons u us => simp [insG, hlt n (by simp)]

/-! ### membership -/

theorem insG_mem (k : String) (a : α) : ∀ (ns : List String) (us : List α) (x : String),
    x ∈ (insG k a ns us).1 → x = k ∨ x ∈ ns
  | [], _, x, h => by simp [insG] at h; exact .inl h
  | _ :: _, [], x, h => by simp [insG] at h; exact .inl h
  | n :: ns, u :: us, x, h => by
    simp only [insG] at h
    by_cases h1 : k < n
    · simp only [h1, if_true, List.mem_cons] at h
      rcases h with h | h | h
      · exact .inl h
      · exact .inr (by simp [h])
      · exact .inr (by simp [h])
    · by_cases h2 : k = n
      · subst h2
        simp [h1] at h
        exact .inr (by simpa using h)
      · simp only [h1, h2, if_false, List.mem_cons] at h
        rcases h with h | h
        · exact .inr (by simp [h])
        · rcases insG_mem k a ns us x h with h | h
          · exact .inl h
          · exact .inr (by simp [h])

theorem sortG_mem : ∀ (ks : List String) (as : List α) (x : String), x ∈ (sortG ks as).1 → x ∈ ks
  | [], _, x, h => by simp [sortG] at h
  | _ :: _, [], x, h => by simp [sortG] at h
  | k :: ks, a :: as, x, h => by
    simp only [sortG] at h
    rcases insG_mem k a _ _ x h with h | h
    · simp [h]
    · exact List.mem_cons_of_mem _ (sortG_mem ks as x h)

theorem insG_mem2 (k : String) (a : α) : ∀ (ns : List String) (us : List α) (x : α),
    x ∈ (insG k a ns us).2 → x = a ∨ x ∈ us
  | [], _, x, h => by simp [insG] at h; exact .inl h
  | _ :: _, [], x, h => by simp [insG] at h; exact .inl h
  | n :: ns, u :: us, x, h => by
    simp only [insG] at h
    by_cases h1 : k < n
    · simp only [h1, if_true, List.mem_cons] at h
      rcases h with h | h | h
      · exact .inl h
      · exact .inr (by simp [h])
      · exact .inr (by simp [h])
    · by_cases h2 : k = n
      · subst h2
        simp [h1] at h
        exact .inr (by simpa using h)
      · simp only [h1, h2, if_false, List.mem_cons] at h
        rcases h with h | h
        · exact .inr (by simp [h])
        · rcases insG_mem2 k a ns us x h with h | h
          · exact .inl h
          · exact .inr (by simp [h])

theorem sortG_mem2 : ∀ (ks : List String) (as : List α) (x : α), x ∈ (sortG ks as).2 → x ∈ as
  | [], _, x, h => by simp [sortG] at h
  | _ :: _, [], x, h => by simp [sortG] at h
  | k :: ks, a :: as, x, h => by
    simp only [sortG] at h
    rcases insG_mem2 k a _ _ x h with h | h
    · simp [h]
    · exact List.mem_cons_of_mem _ (sortG_mem2 ks as x h)

/-! ### first-match lookup in the output = the member of the input (distinct keys) -/

def lookF (k : String) : List String → List α → Option α
  | n :: ns, u :: us => if n = k then some u else lookF k ns us
  | _, _ => none

theorem lookF_insG_self (k : String) (a : α) : ∀ (ns : List String) (us : List α), k ∉ ns →
    lookF k (insG k a ns us).1 (insG k a ns us).2 = some a
  | [], _, _ => by simp [insG, lookF]
  | _ :: _, [], _ => by simp [insG, lookF]
  | n :: ns, u :: us, h => by
    have hn : ¬ k = n := fun e => h (by simp [e])
    have hn' : ¬ n = k := fun e => hn e.symm
    simp only [insG]
    by_cases h1 : k < n
    · simp [h1, lookF]
    · simp [h1, hn, lookF, hn', lookF_insG_self k a ns us (fun hm => h (List.mem_cons_of_mem _ hm))]

theorem lookF_insG_other (k k' : String) (a : α) (hk : k' ≠ k) : ∀ (ns : List String) (us : List α),
    ns.length = us.length →
    lookF k' (insG k a ns us).1 (insG k a ns us).2 = lookF k' ns us
  | [], [], _ => by simp [insG, lookF, Ne.symm hk]
  | [], _ :: _, h => by simp at h
  | _ :: _, [], h => by simp at h
  | n :: ns, u :: us, h => by
    simp only [insG]
    by_cases h1 : k < n
    · simp [h1, lookF, Ne.symm hk]
    · by_cases h2 : k = n
      · simp [h2]
      · simp [h1, h2, lookF, lookF_insG_other k k' a hk ns us (by simpa using h)]

/-- every member of the input is found in the output under its key -/
def AllLook (ns : List String) (us : List α) : List String → List α → Prop
  | k :: ks, a :: as => lookF k ns us = some a ∧ AllLook ns us ks as
  | _, _ => True

theorem AllLook_insG (k : String) (a : α) (ns : List String) (us : List α) (hl : ns.length = us.length) :
    ∀ (ks : List String) (as : List α), k ∉ ks → AllLook ns us ks as →
      AllLook (insG k a ns us).1 (insG k a ns us).2 ks as
  | [], _, _, _ => by simp [AllLook]
  | _ :: _, [], _, _ => by simp [AllLook]
  | k' :: ks, a' :: as, hk, h => by
    simp only [AllLook] at h ⊢
    have hne : k' ≠ k := fun e => hk (by simp [e])
    exact ⟨by rw [lookF_insG_other k k' a hne ns us hl]; exact h.1,
      AllLook_insG k a ns us hl ks as (fun hm => hk (List.mem_cons_of_mem _ hm)) h.2⟩

theorem sortG_allLook : ∀ (ks : List String) (as : List α), ks.Nodup →
    AllLook (sortG ks as).1 (sortG ks as).2 ks as
  | [], _, _ => by simp [AllLook]
  | _ :: _, [], _ => by simp [AllLook]
  | k :: ks, a :: as, h => by
    have ⟨hk, hnd⟩ := List.nodup_cons.mp h
    simp only [sortG, AllLook]
    refine ⟨lookF_insG_self k a _ _ (fun hm => hk (sortG_mem ks as k hm)), ?_⟩
    exact AllLook_insG k a _ _ (sortG_length ks as) ks as hk (sortG_allLook ks as hnd)

/-! ### `lookupLast` (the Go map filled in document order) on the keys of the output -/

theorem insG_map_rel {γ : Type} (f : String → γ) (g : α → γ) (k : String) (a : α) (hka : f k = g a) :
    ∀ (ns : List String) (us : List α), ns.map f = us.map g →
      (insG k a ns us).1.map f = (insG k a ns us).2.map g
  | [], _, _ => by simp [insG, hka]
  | _ :: _, [], _ => by simp [insG, hka]
  | n :: ns, u :: us, h => by
    simp only [List.map_cons, List.cons.injEq] at h
    simp only [insG]
    by_cases h1 : k < n
    · simp [h1, hka, h.1, h.2]
    · by_cases h2 : k = n
      · simp [h2, h.1, h.2]
      · simp [h1, h2, h.1, insG_map_rel f g k a hka ns us h.2]

theorem lookupLast_cons_ne {n k : String} {a : Value} (ks : List String) (as : List Value) (h : n ≠ k) :
    lookupLast n (k :: ks) (a :: as) = lookupLast n ks as := by
  simp only [lookupLast]
  cases lookupLast n ks as with
  | some r => rfl
  | none => simp [Ne.symm h]

theorem sortG_lookupLast : ∀ (ks : List String) (as : List Value), ks.Nodup →
    (sortG ks as).1.map (fun n => lookupLast n ks as) = (sortG ks as).2.map some
  | [], _, _ => by simp [sortG]
  | _ :: _, [], _ => by simp [sortG]
  | k :: ks, a :: as, h => by
    have ⟨hk, hnd⟩ := List.nodup_cons.mp h
    simp only [sortG]
    apply insG_map_rel
    · simp [lookupLast, lookupLast_none ks as hk]
    · rw [← sortG_lookupLast ks as hnd]
      apply List.map_congr_left
      intro n hn
      have : n ≠ k := fun e => hk (e ▸ sortG_mem ks as n hn)
      exact lookupLast_cons_ne ks as this

theorem objectVal_of_lookups (ks : List String) (vals : List Value) : ∀ (ns : List String) (ts : List Ty)
    (ws : List Value), ns.length = ts.length → ns.map (fun n => lookupLast n ks vals) = ws.map some →
    objectVal ns ts ks vals = ws
  | [], _, ws, _, h => by
    cases ws with
    | nil => cases ‹List Ty› <;> simp [objectVal]
    | cons _ _ => simp at h
  | _ :: _, [], _, hl, _ => by simp at hl
  | n :: ns, t :: ts, ws, hl, h => by
    cases ws with
    | nil => simp at h
    | cons w ws =>
      simp only [List.map_cons, List.cons.injEq] at h
      simp [objectVal, h.1, objectVal_of_lookups ks vals ns ts ws (by simpa using hl) h.2]

/-- `find` over the three parallel lists of an object type without optional attributes -/
theorem find_of_lookF (k : String) : ∀ (ns : List String) (ts : List Ty) (t : Ty), ns.length = ts.length →
    lookF k ns ts = some t → find k ns ts (ns.map fun _ => false) = some (t, false)
  | [], _, _, _, h => by simp [lookF] at h
  | _ :: _, [], _, hl, _ => by simp at hl
  | n :: ns, u :: us, t, hl, h => by
    simp only [lookF] at h
    simp only [List.map_cons, find]
    by_cases hn : n = k
    · simp [hn] at h ⊢; exact h
    · simp [hn] at h ⊢; exact find_of_lookF k ns us t (by simpa using hl) h

theorem fieldsIn_of_allLook (ns : List String) (nts : List Ty) (hl : ns.length = nts.length) :
    ∀ (ks : List String) (ts : List Ty), AllLook ns nts ks ts →
      FieldsIn ks ts (ks.map fun _ => false) ns nts (ns.map fun _ => false)
  | [], _, _ => by simp [FieldsIn]
  | _ :: _, [], _ => by simp [FieldsIn]
  | k :: ks, t :: ts, h => by
    simp only [AllLook] at h
    simp only [List.map_cons, FieldsIn]
    exact ⟨find_of_lookF k ns nts t hl h.1, fieldsIn_of_allLook ns nts hl ks ts h.2⟩

end JsonVal
end CtyModel
