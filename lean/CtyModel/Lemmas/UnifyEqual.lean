/-
Identical types unify to that type with no conversions (`unify_equal_types`), for the
full model with any environment satisfying `UnifyLaws`, and for ConvertUnify's
`unifyTyF` itself — which makes `unifyTy` an instance of `UnifyLaws`.
-/
import CtyModel.Lemmas.UnifySort
namespace CtyModel
namespace Unify
open Convert Ty

theorem set_replicate_same {α} (n i : Nat) (a : α) : (List.replicate n a).set i a = List.replicate n a := by
  apply List.ext_getElem?
  intro j
  simp only [List.getElem?_set, List.length_replicate, List.getElem?_replicate]
  split <;> (try split) <;> simp_all

/-- with every input equal to the candidate the inner loop only writes nils -/
theorem tryCandidate_same (E : Env) (uns : Bool) (w : Nat) (want : Ty) (n : Nat) :
    ∀ (rest : List Ty) (i : Nat), (∀ x ∈ rest, x.equals want = true) →
      tryCandidate E uns w want i rest (List.replicate n none) = (List.replicate n none, true)
  | [], _, _ => rfl
  | t :: rest, i, h => by
    have ht := h t (by simp)
    have ih := tryCandidate_same E uns w want n rest (i + 1) (fun x hx => h x (List.mem_cons_of_mem _ hx))
    simp only [tryCandidate, ht, set_replicate_same]
    split <;> exact ih

theorem general_same (E : Env) (uns : Bool) (t : Ty) (n : Nat) (hn : 0 < n) (hw : t.wf = true) :
    general E uns (List.replicate n t) = .ok (some (t, List.replicate n none)) := by
  have hne : List.replicate n t ≠ [] := by
    intro h; have := congrArg List.length h; simp at this; omega
  have hlen := sortTypes_length_ge (List.replicate n t)
  simp only [List.length_replicate] at hlen
  cases hs : sortTypes (List.replicate n t) with
  | nil => rw [hs] at hlen; simp at hlen; omega
  | cons w rest =>
    have hw' : w < n := by
      have := sortTypes_lt (List.replicate n t) hne w (by rw [hs]; simp)
      simpa using this
    have hidx : idxR (List.replicate n t) w = .ok t := by
      simp [idxR, List.getElem?_replicate, hw']
    have htc := tryCandidate_same E uns w t n (List.replicate n t) 0
      (fun x hx => by rw [(List.mem_replicate.mp hx).2]; exact equals_self hw)
    simp only [general, hs, prefLoop, hidx, List.map_replicate, Res.bind, htc]
    rfl

theorem mapRes_replicate {α β} (f : α → Res β) (a : α) (b : β) (h : f a = .ok b) (n : Nat) :
    mapRes f (List.replicate n a) = .ok (List.replicate n b) := by
  have := mapRes_ok_map f (fun _ => b) (List.replicate n a)
    (fun x hx => by rw [(List.mem_replicate.mp hx).2]; exact h)
  simpa using this

theorem convLoop_replicate (E : Env) (uns : Bool) (t : Ty) (hw : t.wf = true) (n : Nat) :
    convLoop E uns t (List.replicate n t) = some (List.replicate n none) := by
  have := convLoop_same (E := E) (uns := uns) (retTy := t) (List.replicate n t)
    (fun x hx => by rw [(List.mem_replicate.mp hx).2]; exact equals_self hw)
  simpa using this

theorem unifyG_replicate {E : Env} (hU : UnifyLaws E) (uns : Bool) (t : Ty) (n : Nat) (hn : 0 < n)
    (hw : t.wf = true) (ho : t.hasOpt = false) : E.unifyG uns (List.replicate n t) = some t := by
  have hne : List.replicate n t ≠ [] := by
    intro h; have := congrArg List.length h; simp at this; omega
  have : (List.replicate n t).isEmpty = false := by
    cases h : List.replicate n t with
    | nil => exact absurd h hne
    | cons _ _ => rfl
  simp only [Env.unifyG, this]
  exact hU.same uns t _ hne (fun x hx => (List.mem_replicate.mp hx).2) hw ho

/-- the columns of `n` copies of one attribute / element list unify to that list -/
theorem unifyColumns_replicate {E : Env} (hU : UnifyLaws E) (uns : Bool) (n : Nat) (hn : 0 < n) :
    ∀ (tys : List Ty), wfL tys = true → hasOptL tys = false →
      unifyColumns E uns (tys.map (List.replicate n ·)) = some tys
  | [], _, _ => rfl
  | t :: tys, hw, ho => by
    simp only [wfL, Bool.and_eq_true] at hw
    simp only [hasOptL, Bool.or_eq_false_iff] at ho
    simp [unifyColumns, unifyG_replicate hU uns t n hn hw.1 ho.1,
      unifyColumns_replicate hU uns n hn tys hw.2 ho.2]

/-- `ty.AttributeType(name)` across `n` copies of one object type, for the names of a
sub-list of its fields -/
theorem attrColumns_replicate (n : Nat) (ns : List String) (tys : List Ty) (os : List Bool) :
    ∀ (ks : List String) (ts : List Ty) (ps : List Bool), ks.length = ts.length → ps.length = ts.length →
      FieldsIn ks ts ps ns tys os →
      mapRes (fun name => attrColumn name (List.replicate n (Ty.object ns tys os))) ks =
        .ok (ts.map (List.replicate n ·))
  | [], [], _, _, _, _ => rfl
  | [], _ :: _, _, h, _, _ => by simp at h
  | _ :: _, [], _, h, _, _ => by simp at h
  | _ :: _, _ :: _, [], _, h, _ => by simp at h
  | k :: ks, t :: ts, p :: ps, h1, h2, hf => by
    simp only [FieldsIn] at hf
    have ih := attrColumns_replicate n ns tys os ks ts ps (by simpa using h1) (by simpa using h2) hf.2
    have hc : attrColumn k (List.replicate n (Ty.object ns tys os)) = .ok (List.replicate n t) := by
      apply mapRes_replicate
      simp [hf.1]
    simp [mapRes, hc, ih, Res.bind]

theorem tupleColumns_range (n : Nat) (es : List Ty) :
    mapRes (fun idx => tupleColumn idx (List.replicate n (Ty.tuple es))) (List.range es.length) =
      .ok (es.map (List.replicate n ·)) := by
  have h := mapRes_ok_map (fun idx => tupleColumn idx (List.replicate n (Ty.tuple es)))
    (fun idx => List.replicate n (es.getD idx .dyn)) (List.range es.length) (by
      intro idx hidx
      have hlt : idx < es.length := List.mem_range.mp hidx
      apply mapRes_replicate
      simp [tupleEtysR, Res.bind, idxR, List.getElem?_eq_getElem hlt])
  rw [h]
  congr 1
  apply List.ext_getElem?
  intro j
  by_cases hj : j < es.length
  · simp [List.getElem?_range hj, List.getElem?_eq_getElem hj]
  · have h2 : es[j]? = none := by simp; omega
    simp [h2]; omega

theorem sameAttrNames_replicate (ns : List String) (tys : List Ty) (os : List Bool) :
    ∀ (m : Nat), sameAttrNames ns (List.replicate m (Ty.object ns tys os)) = .ok true
  | 0 => rfl
  | m + 1 => by
    have hall : (ns.all fun n => ns.contains n) = true := by
      simp [List.all_eq_true]
    simp [List.replicate_succ, sameAttrNames, attrNamesR, Res.bind, hall, sameAttrNames_replicate ns tys os m]

theorem sameTupleLen_replicate (es : List Ty) :
    ∀ (m : Nat), sameTupleLen es.length (List.replicate m (Ty.tuple es)) = .ok true
  | 0 => rfl
  | m + 1 => by
    simp [List.replicate_succ, sameTupleLen, tupleEtysR, Res.bind, sameTupleLen_replicate es m]

theorem opts_all_false : ∀ (os : List Bool), os.any id = false → (os.map fun _ => false) = os
  | [], _ => rfl
  | o :: os, h => by
    simp only [List.any_cons, Bool.or_eq_false_iff, id] at h
    simp [h.1, opts_all_false os h.2]

theorem map_const_length {α β} (f : α → β) (c : β) : ∀ (l₁ : List α) (l₂ : List β), l₁.length = l₂.length →
    (l₁.map fun _ => c) = (l₂.map fun _ => c)
  | [], [], _ => rfl
  | [], _ :: _, h => by simp at h
  | _ :: _, [], h => by simp at h
  | _ :: l₁, _ :: l₂, h => by simp [map_const_length f c l₁ l₂ (by simpa using h)]

/-- one activation of `unify` on `n ≥ 1` copies of one type -/
theorem unifyStep_same {E : Env} (hU : UnifyLaws E) (self : Bool → List Ty → Res UOut) (uns : Bool)
    (t : Ty) (n : Nat) (hn : 0 < n) (hw : t.wf = true) (ho : t.hasOpt = false) :
    unifyStep E uns self (List.replicate n t) = .ok (some (t, List.replicate n none)) := by
  have hne : (List.replicate n t).isEmpty = false := by
    cases n with
    | zero => omega
    | succ n => rfl
  have hpos : decide (n > 0) = true := by simp; omega
  have hg := general_same E uns t n hn hw
  cases t with
  | bool | number | string | dyn | capsule _ =>
    simp [unifyStep, hne, count, List.filter_replicate, isMapTy, isListTy, isSetTy, isObjectTy, isTupleTy, Ty.isDyn, hg]
    all_goals (try omega)
  | list e =>
    simp only [wf] at hw
    simp only [hasOpt] at ho
    have hel := mapRes_replicate elementType (Ty.list e) e rfl n
    simp [unifyStep, hne, count, List.filter_replicate, isMapTy, isListTy, isSetTy, isObjectTy, isTupleTy, Ty.isDyn,
      collectionTypes, hel, Res.bind, unifyG_replicate hU uns e n hn hw ho, convLoop_replicate, wf, hw, hpos]
    all_goals (try omega)
  | set e =>
    simp only [wf] at hw
    simp only [hasOpt] at ho
    have hel := mapRes_replicate elementType (Ty.set e) e rfl n
    simp [unifyStep, hne, count, List.filter_replicate, isMapTy, isListTy, isSetTy, isObjectTy, isTupleTy, Ty.isDyn,
      collectionTypes, hel, Res.bind, unifyG_replicate hU uns e n hn hw ho, convLoop_replicate, wf, hw, hpos]
    all_goals (try omega)
  | map e =>
    simp only [wf] at hw
    simp only [hasOpt] at ho
    have hel := mapRes_replicate elementType (Ty.map e) e rfl n
    simp [unifyStep, hne, count, List.filter_replicate, isMapTy, isListTy, isSetTy, isObjectTy, isTupleTy, Ty.isDyn,
      collectionTypes, hel, Res.bind, unifyG_replicate hU uns e n hn hw ho, convLoop_replicate, wf, hw, hpos]
    all_goals (try omega)
  | tuple es =>
    have hw' := hw
    simp only [wf] at hw
    simp only [hasOpt] at ho
    have hidx : idxR (List.replicate n (Ty.tuple es)) 0 = .ok (Ty.tuple es) := by
      simp [idxR, List.getElem?_replicate, hn]
    simp [unifyStep, hne, count, List.filter_replicate, isMapTy, isListTy, isSetTy, isObjectTy, isTupleTy, Ty.isDyn,
      tupleTypes, hidx, Res.bind, tupleEtysR, List.drop_replicate, sameTupleLen_replicate, tupleColumns_range,
      unifyColumns_replicate hU uns n hn es hw ho, convLoop_replicate _ _ _ hw', hpos]
    all_goals (try omega)
  | object ns tys os =>
    have hw' := hw
    simp only [wf, Bool.and_eq_true, beq_iff_eq] at hw
    simp only [hasOpt, Bool.or_eq_false_iff] at ho
    have hidx : idxR (List.replicate n (Ty.object ns tys os)) 0 = .ok (Ty.object ns tys os) := by
      simp [idxR, List.getElem?_replicate, hn]
    have hcols := attrColumns_replicate n ns tys os ns tys os hw.1.1.1 hw.1.1.2 (FieldsIn_self hw.1.2)
    have hos : (tys.map fun _ => false) = os := by
      rw [map_const_length (fun _ => false) false tys os hw.1.1.2.symm]
      exact opts_all_false os ho.1
    simp [unifyStep, hne, count, List.filter_replicate, isMapTy, isListTy, isSetTy, isObjectTy, isTupleTy, Ty.isDyn,
      objectTypes, hidx, Res.bind, attrNamesR, List.drop_replicate, sameAttrNames_replicate, hcols,
      unifyColumns_replicate hU uns n hn tys hw.2 ho.2, hos, convLoop_replicate _ _ _ hw', hpos]
    all_goals (try omega)

/-- `unify` on a non-empty list of identical types: that type, no conversions -/
theorem unifyF_same {E : Env} (hU : UnifyLaws E) (fuel : Nat) (uns : Bool) (t : Ty) (ts : List Ty)
    (hne : ts ≠ []) (hall : ∀ x ∈ ts, x = t) (hw : t.wf = true) (ho : t.hasOpt = false) :
    unifyF E (fuel + 1) uns ts = .ok (some (t, ts.map fun _ => none)) := by
  have hts : ts = List.replicate ts.length t := List.eq_replicate_iff.mpr ⟨rfl, hall⟩
  have hn : 0 < ts.length := List.length_pos_iff.mpr hne
  rw [hts]
  simp only [unifyF, List.map_replicate]
  exact unifyStep_same hU _ uns t ts.length hn hw ho

end Unify
end CtyModel
