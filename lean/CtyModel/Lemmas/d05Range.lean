/-
C05: `Range()` of whatever `NewValue` returns for an unknown receiver reports exactly the builder's record —
also when the result collapsed to a known value (a number, a list of n unknown elements, the empty set/map, a
one-element set) or to null.

`ValueRange.admitsN` reads the accessors as `ValueRange.admits` does and, in addition, "definitely null" the way
`ValueRange.Includes` does (there is no public accessor for it): a definitely-null range admits null only.
-/
import CtyModel.Lemmas.RefineEnds
import CtyModel.Lemmas.RefineBase
namespace CtyModel
namespace Refine
namespace D05
open NumCmp

/-- membership read off a `ValueRange`: the accessors, plus "definitely null" as `Includes` reads it -/
def _root_.CtyModel.Refine.ValueRange.admitsN (r : ValueRange) (c : Conc) : Bool :=
  if r.raw.nullness = .t then c == .null else r.admits c

/-- the known values `NewValue` can collapse to -/
def CollapsedForm (v : Value) : Prop :=
  (∃ m, v = ⟨.number, .n m⟩) ∨ (∃ e vs, v = ⟨.list e, .seq vs⟩) ∨
  (∃ e bs, v = ⟨.set e, .sset bs []⟩) ∨ (∃ e bs a, v = ⟨.set e, .sset bs [a]⟩) ∨
  (∃ e, v = ⟨.map e, .smap [] []⟩)

section Any
variable [EqOracle]

theorem collapse_form {ty : Ty} {r : Rfn} {v : Value} (hkind : kindOk ty r = true)
    (h : collapse ty r = .ok (some v)) : CollapsedForm v := by
  cases r with
  | unref => simp [collapse] at h
  | nullable n => simp [collapse] at h
  | str n p => simp [collapse] at h
  | num n lo hi =>
    have hty : ty = .number := by cases ty <;> simp [kindOk] at hkind; rfl
    subst hty
    cases lo with
    | none => simp [collapse] at h
    | some lo =>
      cases hi with
      | none => simp [collapse] at h
      | some hi =>
        simp only [collapse] at h
        split at h
        · split at h
          · simp at h
          · simp at h; subst h; exact .inl ⟨_, rfl⟩
          · simp at h
        · simp at h
  | coll n lo hi =>
    simp only [collapse] at h
    split at h
    · split at h
      · cases ty <;> simp [kindOk] at hkind <;> simp at h <;> subst h
        · exact .inr (.inl ⟨_, _, rfl⟩)
        · exact .inr (.inr (.inl ⟨_, _, rfl⟩))
        · exact .inr (.inr (.inr (.inr ⟨_, rfl⟩)))
      · cases ty <;> simp [kindOk] at hkind <;> simp at h
        · split at h
          · simp at h
          · simp at h; subst h; exact .inr (.inl ⟨_, _, rfl⟩)
        · split at h
          · simp at h; subst h; exact .inr (.inr (.inr (.inl ⟨_, _, _, rfl⟩)))
          · simp at h
    · simp at h

end Any

/-- `Range()` of a value of a collapsed form is exact: its accessors admit exactly the concrete values the known
value stands for, and it is "definitely not null" -/
theorem range_collapsedForm {v : Value} (hf : CollapsedForm v) :
    ∃ vr, range v = .ok vr ∧ vr.ty = v.ty ∧ vr.raw.nullness = .f ∧ ∀ x, vr.admits x = γV v x := by
  rcases hf with ⟨m, rfl⟩ | ⟨e, vs, rfl⟩ | ⟨e, bs, rfl⟩ | ⟨e, bs, a, rfl⟩ | ⟨e, rfl⟩
  · refine ⟨⟨.number, .num .f (some ⟨m, true⟩) (some ⟨m, true⟩)⟩, rfl, rfl, rfl, fun x => ?_⟩
    have hp := point_interval (cmp_self m)
    cases x <;> simp [ValueRange.admits, ValueRange.couldBeNull, ValueRange.numberLowerBound,
      ValueRange.numberUpperBound, γV, core, knownAdmits, Conc.kindOk, Rfn.nullness, hp]
  · refine ⟨⟨.list e, .coll .f vs.length vs.length⟩, by simp [range, knownLength], rfl, rfl, fun x => ?_⟩
    cases x <;> simp [ValueRange.admits, ValueRange.couldBeNull, ValueRange.lengthLowerBound,
      ValueRange.lengthUpperBound, γV, core, knownAdmits, Conc.kindOk, Rfn.nullness, isCollectionTy]
    rw [Bool.eq_iff_iff]; simp <;> omega
  · refine ⟨⟨.set e, .coll .f 0 0⟩, by simp [range, knownLength, Payload.whollyKnownL], rfl, rfl, fun x => ?_⟩
    cases x <;> simp [ValueRange.admits, ValueRange.couldBeNull, ValueRange.lengthLowerBound,
      ValueRange.lengthUpperBound, γV, core, knownAdmits, Conc.kindOk, Rfn.nullness, isCollectionTy]
    rw [Bool.eq_iff_iff]; simp <;> omega
  · refine ⟨⟨.set e, .coll .f 1 1⟩, by simp [range, knownLength], rfl, rfl, fun x => ?_⟩
    cases x <;> simp [ValueRange.admits, ValueRange.couldBeNull, ValueRange.lengthLowerBound,
      ValueRange.lengthUpperBound, γV, core, knownAdmits, Conc.kindOk, Rfn.nullness, isCollectionTy]
    rw [Bool.eq_iff_iff]; simp <;> omega
  · refine ⟨⟨.map e, .coll .f 0 0⟩, by simp [range, knownLength], rfl, rfl, fun x => ?_⟩
    cases x <;> simp [ValueRange.admits, ValueRange.couldBeNull, ValueRange.lengthLowerBound,
      ValueRange.lengthUpperBound, γV, core, knownAdmits, Conc.kindOk, Rfn.nullness, isCollectionTy]
    rw [Bool.eq_iff_iff]; simp <;> omega

section Exact
variable [ExactOracle]

/-- `Range()` of the value `NewValue` returns for an unknown receiver — unknown, collapsed or null — admits
exactly what the builder recorded -/
theorem newValue_range_exact {b : Builder} {w : Value} (hw : b.wf = true) (hk : b.orig.isKnown = false)
    (hd : b.isDyn = false) (h : newValue b = .ok w) :
    ∃ vr, range w.unmark = .ok vr ∧ vr.ty = b.orig.ty ∧ ∀ x, x.fits = true → vr.admitsN x = γB b x := by
  have hkind : kindOk b.orig.ty b.wip = true := by
    unfold Builder.wf at hw
    simp only [Bool.and_eq_true, Bool.or_eq_true, hk, Bool.false_eq_true, false_or] at hw
    exact hw.2
  have hunk : ∀ (hn : b.wip.nullness ≠ .t), w = (⟨b.orig.ty, .unk b.wip⟩ : Value).withMarks b.marks →
      ∃ vr, range w.unmark = .ok vr ∧ vr.ty = b.orig.ty ∧ ∀ x, x.fits = true → vr.admitsN x = γB b x := by
    intro hn hw'
    subst hw'
    rw [unmark_withMarks (by rfl)]
    obtain ⟨vr, h1, h2, h3⟩ := range_admits hkind hn
    refine ⟨vr, h1, h2, fun x hx => ?_⟩
    have hraw : vr.raw.nullness ≠ .t := by
      have : vr = ⟨b.orig.ty, if b.wip = .unref then .nullable .u else b.wip⟩ := by
        simp [range] at h1; exact h1.symm
      rw [this]
      by_cases hu : b.wip = .unref
      · simp [hu, Rfn.nullness]
      · simpa [hu] using hn
    unfold ValueRange.admitsN
    rw [if_neg hraw, h3 x hx]; rfl
  unfold newValue at h
  simp only [hk, hd, Bool.or_self, Bool.false_eq_true, if_false] at h
  split at h
  · simp at h
  · split at h
    · -- definitely null
      rename_i hn
      simp at h; subst h
      rw [unmark_withMarks (by rfl)]
      refine ⟨⟨b.orig.ty, .nullable .t⟩, rfl, rfl, fun x _ => ?_⟩
      have := γV_null (t := b.orig.ty) hn x
      unfold ValueRange.admitsN
      simp only [Rfn.nullness, if_true]
      rw [show γB b x = γ b.orig.ty b.wip x from rfl, ← this]
      cases x <;> simp [γV, core, Value.null, knownAdmits, Conc.kindOk] <;> rfl
    · rename_i hn
      simp at h
      exact hunk (by rw [hn]; decide) h.symm
    · rename_i hn
      split at h
      · rename_i v hc
        simp at h; subst h
        obtain ⟨h1, h2, _, h4⟩ := collapse_some hkind hn hc
        rw [unmark_withMarks h2]
        obtain ⟨vr, r1, r2, r3, r4⟩ := range_collapsedForm (collapse_form hkind hc)
        refine ⟨vr, r1, r2.trans h1, fun x _ => ?_⟩
        unfold ValueRange.admitsN
        rw [if_neg (by rw [r3]; decide), r4 x, h4 x]; rfl
      · simp at h
        exact hunk (by rw [hn]; decide) h.symm
      all_goals simp at h

end Exact

end D05
end Refine
end CtyModel
