/-
C20 — constructors keep the state invariant: what they build is library-owned throughout.
-/
import CtyModel.Lemmas.HeapInv4
namespace CtyModel
namespace Heap

theorem good2_freezeCaller {m0 m : Mem} (h : Good m0 m) (a : Addr) : Good2 m0 m (freezeCaller m a) := by
  refine ⟨good_freezeCaller h a, mono_freezeCaller (Mono.refl m) a, ?_⟩
  unfold freezeCaller
  split
  · rename_i ho
    exact preserves_freeze (not_frozen_of_owner (by simpa using ho) (by simp) (by simp))
  · exact Preserves.refl m

/-- after a documented transfer the object is the library's -/
theorem freezeCaller_lib {m : Mem} {a : Addr} {o : Obj} (hm : m[a]? = some o)
    (hown : (ownerOf m a == some Owner.caller || ownerOf m a == some Owner.lib) = true) :
    (freezeCaller m a)[a]? = some ⟨.lib, o.body⟩ := by
  unfold freezeCaller
  split
  · rw [freeze_get_self hm]
  · rename_i hc
    have : o.owner = .lib := by
      simp only [ownerOf, hm, Option.map_some, Bool.or_eq_true, beq_iff_eq, Option.some.injEq] at hown hc
      rcases hown with h | h
      · exact absurd h hc
      · exact h
    rw [hm]; rcases o with ⟨ow, bd⟩; simp only at this; subst this; rfl

theorem inv_numberVal {st st' : St} {g : Nat} (hi : Inv st) (hd : docRespectful st (.api (.numberVal g)) = true)
    (h : stepApi st (.numberVal g) = some st') : Inv st' := by
  simp only [stepApi] at h
  opt_cases h
  rename_i a hg x hx
  simp only [docRespectful, hg] at hd
  unfold floatOf at hx
  cases hm : st.mem[a]? with
  | none => simp [hm] at hx
  | some o =>
    rcases o with ⟨ow, bd⟩
    cases bd <;> simp [hm] at hx
    refine inv_pushVal hi (good2_freezeCaller (Good.refl hi.heap) a) ?_
    exact frozenAll_pair.mpr ⟨frozenAll_tprim, frozenAll_num (freezeCaller_lib hm hd)⟩

theorem inv_numberIntVal {st st' : St} {n : Int} (hi : Inv st)
    (h : stepApi st (.numberIntVal n) = some st') : Inv st' := by
  simp only [stepApi] at h
  cases h
  refine inv_pushVal hi (good2_alloc (Good.refl hi.heap) (o := .lib) (b := .bigfloat n) trivial) ?_
  exact frozenAll_pair.mpr ⟨frozenAll_tprim, frozenAll_num (alloc_get_new _ _ _)⟩

theorem inv_scalars {st st' : St} {c : Api} (hi : Inv st)
    (hc : (∃ s, c = .stringVal s) ∨ (∃ b, c = .boolVal b) ∨ (∃ t, c = .nullVal t) ∨ (∃ t r, c = .unknownVal t r))
    (h : stepApi st c = some st') : Inv st' := by
  rcases hc with ⟨s, rfl⟩ | ⟨b, rfl⟩ | ⟨t, rfl⟩ | ⟨t, r, rfl⟩ <;> simp only [stepApi] at h <;> cases h
  · exact inv_pushVal' hi (frozenAll_pair.mpr ⟨frozenAll_tprim, frozenAll_str⟩)
  · exact inv_pushVal' hi (frozenAll_pair.mpr ⟨frozenAll_tprim, frozenAll_bool⟩)
  · exact inv_pushVal' hi (frozenAll_pair.mpr ⟨frozenAll_tprim, frozenAll_null⟩)
  · exact inv_pushVal' hi (frozenAll_pair.mpr ⟨frozenAll_tprim, frozenAll_unk⟩)

/-- a fresh library-owned array of library-owned words, seen as a slice -/
theorem frozenAll_new_slice {m : Mem} {cells : List Word} (hc : ∀ c ∈ cells, FrozenAll m c) (off len cap : Nat) :
    FrozenAll (alloc m .lib (.array cells)).1 (.slice m.length off len cap) :=
  frozenAll_slice (alloc_get_new _ _ _) fun c hcm => frozenAll_stable (preserves_alloc _ _ _) (hc c hcm)

theorem frozenAll_new_map {m : Mem} {kvs : List (Key × Word)} (hc : ∀ kv ∈ kvs, FrozenAll m kv.2) :
    FrozenAll (alloc m .lib (.gomap kvs)).1 (.map m.length) :=
  frozenAll_map (alloc_get_new _ _ _) fun kv hkv => frozenAll_stable (preserves_alloc _ _ _) (hc kv hkv)

theorem inv_listVal {st st' : St} {g : Nat} (hi : Inv st) (h : stepApi st (.listVal g) = some st') : Inv st' := by
  simp only [stepApi] at h
  opt_cases h
  rename_i s hs cells hc _ p hp
  obtain ⟨ht, hv, _, _⟩ := splitPairs_frozen cells p.1 p.2 (elems_frozen hi.heap hc) hp
  refine inv_pushVal hi (good2_alloc (Good.refl hi.heap) (o := .lib) (b := .array p.2) hv) (frozenAll_pair.mpr ⟨?_, frozenAll_new_slice hv _ _ _⟩)
  exact frozenAll_stable (preserves_alloc _ _ _) (frozenAll_wrap (elemType_frozen _ ht)).1

theorem inv_tupleVal {st st' : St} {g : Nat} (hi : Inv st) (h : stepApi st (.tupleVal g) = some st') : Inv st' := by
  simp only [stepApi] at h
  opt_cases h
  rename_i s hs cells hc p hp
  obtain ⟨ht, hv, _, _⟩ := splitPairs_frozen cells p.1 p.2 (elems_frozen hi.heap hc) hp
  have h1 := good2_alloc (Good.refl hi.heap) (o := .lib) (b := .array p.1) ht
  have hv1 : ∀ v ∈ p.2, FrozenAll (alloc st.mem .lib (.array p.1)).1 v := fun v hvm => frozenAll_stable h1.pres (hv v hvm)
  have h2 := good2_alloc h1.good (o := .lib) (b := .array p.2) hv1
  refine inv_pushVal hi (h1.trans h2) (frozenAll_pair.mpr ⟨?_, frozenAll_new_slice hv1 _ _ _⟩)
  exact frozenAll_stable h2.pres (frozenAll_wrap (frozenAll_new_slice ht _ _ _)).2.2.2.1

theorem inv_objectVal {st st' : St} {g : Nat} (hi : Inv st) (h : stepApi st (.objectVal g) = some st') : Inv st' := by
  simp only [stepApi] at h
  opt_cases h
  rename_i w hw kvs hk p hp
  have hkv : ∀ kv ∈ kvs, FrozenAll st.mem kv.2 := by
    split at hk
    · exact map_kvs_frozen hi.heap (go_ok hi hw) hk
    · cases hk; intro kv hkv; cases hkv
    · simp at hk
  obtain ⟨ht, hv⟩ := splitKV_frozen kvs p.1 p.2 hkv hp
  have nb : ∀ {m : Mem} {l : List (Key × Word)}, (∀ kv ∈ l, FrozenAll m kv.2) → NewBodyOK m .lib (.gomap l) := by
    intro m l hl; simpa [NewBodyOK, isSetOwner] using hl
  have h1 := good2_alloc (Good.refl hi.heap) (o := .lib) (b := .gomap p.1) (nb ht)
  have ht1 : ∀ kv ∈ p.1, FrozenAll (alloc st.mem .lib (.gomap p.1)).1 kv.2 := fun kv hm => frozenAll_stable h1.pres (ht kv hm)
  have h2 := good2_alloc h1.good (o := .lib) (b := .gomap p.1) (nb ht1)
  have hv2 : ∀ kv ∈ p.2, FrozenAll (alloc (alloc st.mem .lib (.gomap p.1)).1 .lib (.gomap p.1)).1 kv.2 :=
    fun kv hm => frozenAll_stable (h1.trans h2).pres (hv kv hm)
  have h3 := good2_alloc h2.good (o := .lib) (b := .gomap p.2) (nb hv2)
  refine inv_pushVal hi ((h1.trans h2).trans h3) (frozenAll_pair.mpr ⟨?_, frozenAll_new_map hv2⟩)
  exact frozenAll_stable h3.pres (frozenAll_wrap (frozenAll_new_map ht1)).2.2.2.2

theorem inv_mapVal {st st' : St} {g : Nat} (hi : Inv st) (h : stepApi st (.mapVal g) = some st') : Inv st' := by
  simp only [stepApi] at h
  opt_cases h
  rename_i a hg kvs hk _ p hp
  have hkv := map_kvs_frozen hi.heap (go_ok hi hg) hk
  obtain ⟨ht, hv⟩ := splitKV_frozen kvs p.1 p.2 hkv hp
  have h1 := good2_alloc (Good.refl hi.heap) (o := .lib) (b := .gomap p.2) (by simpa [NewBodyOK, isSetOwner] using hv)
  refine inv_pushVal hi h1 (frozenAll_pair.mpr ⟨?_, frozenAll_new_map hv⟩)
  refine frozenAll_stable h1.pres (frozenAll_wrap (elemType_frozen _ ?_)).2.2.1
  intro t htm
  obtain ⟨kv, hkvm, e⟩ := List.mem_map.mp htm
  exact e ▸ ht kv hkvm

/-- a published set in a heap in order is library-owned throughout -/
theorem frozenAll_published {m : Mem} (hok : HeapOK m) {a : Addr} {kvs : List (Key × Word)}
    (hm : m[a]? = some ⟨.libset, .gomap kvs⟩) : FrozenAll m (.set a) := by
  have hb : BucketsOf m a kvs := bucketsOf_of_ok hok hm rfl
  refine frozenAll_set hm fun kv hkv => ?_
  obtain ⟨arr, off, len, cap, cells, e, hma⟩ := hb kv hkv
  exact ⟨arr, off, len, cap, cells, e, hma, hok arr _ hma⟩

theorem inv_setVal {st st' : St} {g : Nat} {hs : List Int} (hi : Inv st)
    (h : stepApi st (.setVal g hs) = some st') : Inv st' := by
  simp only [stepApi] at h
  opt_cases h
  rename_i s hsg cells hc _ p hp m2 hm2
  obtain ⟨ht, hv, _, _⟩ := splitPairs_frozen cells p.1 p.2 (elems_frozen hi.heap hc) hp
  have h1 := good2_alloc (Good.refl hi.heap) (o := .lib) (b := .array p.2) hv
  have h2 := good2_alloc h1.good (o := .helper) (b := .gomap []) (by simp [NewBodyOK, isSetOwner])
  obtain ⟨h3, kvs', hm'⟩ := good_setAddAll p.2 hs _ m2 [] h2.good (alloc_get_new _ _ _)
    (fun x hx => frozenAll_stable (h1.trans h2).pres (hv x hx)) hm2
  have h123 := (h1.trans h2).trans h3
  have hfresh : st.mem.length ≤ (setNew (alloc st.mem .lib (.array p.2)).1 .helper).2 := by simp [setNew]
  have hpub := good_publish h123.good hm' hfresh
  have hP : Good2 st.mem st.mem (publish m2 (setNew (alloc st.mem .lib (.array p.2)).1 .helper).2) :=
    ⟨hpub, hpub.mono, hpub.pres⟩
  refine inv_pushVal hi hP (frozenAll_pair.mpr ⟨?_, frozenAll_published hpub.ok (publish_get_self hm')⟩)
  exact frozenAll_stable hpub.pres (frozenAll_wrap (elemType_frozen _ ht)).2.1

theorem inv_setValFromValueSet {st st' : St} {g : Nat} (hi : Inv st)
    (h : stepApi st (.setValFromValueSet g) = some st') : Inv st' := by
  simp only [stepApi] at h
  opt_cases h
  rename_i ety a hg r hr
  obtain ⟨hety, _⟩ := go_ok hi hg
  obtain ⟨h1, ha', kvs', hm'⟩ := good_setCopy (Good.refl hi.heap) (a' := r.2) hr
  have hpub := good_publish h1.good hm' (by rw [ha']; exact Nat.le_refl _)
  have hP : Good2 st.mem st.mem (publish r.1 r.2) := ⟨hpub, hpub.mono, hpub.pres⟩
  refine inv_pushVal hi hP (frozenAll_pair.mpr ⟨?_, frozenAll_published hpub.ok (publish_get_self hm')⟩)
  exact frozenAll_stable hpub.pres (frozenAll_wrap hety).2.1

end Heap
end CtyModel
