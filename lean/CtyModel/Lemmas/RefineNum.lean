/-
Order reasoning about the numeric bounds of refinements (C05): the comparisons
the builder performs (`gt`, `lt`, `ge?`, `le?`, `lowerTighter?`, `upperTighter?`,
`consistent?`) related to the specification predicates `aboveLower`/`belowUpper`.
`Le a b` / `Lt a b` are `Num.cmp a b ≤ 0` / `< 0` (exact comparison).
-/
import CtyModel.Refine
import CtyModel.Lemmas.NumCmp
namespace CtyModel
namespace Refine
open NumCmp

/-! `Tri` derives `BEq` and `DecidableEq` separately; these tie them together for `simp` -/
@[simp] theorem tri_bne (a b : Tri) : (a != b) = !decide (a = b) := by cases a <;> cases b <;> rfl
@[simp] theorem tri_beq (a b : Tri) : (a == b) = decide (a = b) := by cases a <;> cases b <;> rfl

def Le (a b : Num) : Prop := Num.cmp a b ≤ 0
def Lt (a b : Num) : Prop := Num.cmp a b < 0

theorem Le.refl (a : Num) : Le a a := by unfold Le; rw [cmp_self]; omega
theorem Le.trans {a b c : Num} (h1 : Le a b) (h2 : Le b c) : Le a c := cmp_le_trans h1 h2
theorem Lt.le {a b : Num} (h : Lt a b) : Le a b := by unfold Le; unfold Lt at h; omega
theorem Lt.trans_le {a b c : Num} (h1 : Lt a b) (h2 : Le b c) : Lt a c := cmp_lt_le_trans h1 h2
theorem Le.trans_lt {a b c : Num} (h1 : Le a b) (h2 : Lt b c) : Lt a c := cmp_le_lt_trans h1 h2
theorem Lt.trans {a b c : Num} (h1 : Lt a b) (h2 : Lt b c) : Lt a c := h1.trans_le h2.le
theorem not_le {a b : Num} : ¬ Le a b ↔ Lt b a := by
  unfold Le Lt; have := cmp_swap a b; omega
theorem not_lt {a b : Num} : ¬ Lt a b ↔ Le b a := by
  unfold Le Lt; have := cmp_swap a b; omega
theorem Lt.irrefl (a : Num) : ¬ Lt a a := by unfold Lt; rw [cmp_self]; omega
theorem Lt.not_le {a b : Num} (h : Lt a b) : ¬ Le b a := fun h' => Lt.irrefl a (h.trans_le h')
theorem le_antisymm_iff {a b : Num} : Num.cmp a b = 0 ↔ Le a b ∧ Le b a := by
  unfold Le; have := cmp_swap a b; omega
theorem le_of_eq {a b : Num} (h : Num.cmp a b = 0) : Le a b := (le_antisymm_iff.mp h).1
theorem ge_of_eq {a b : Num} (h : Num.cmp a b = 0) : Le b a := (le_antisymm_iff.mp h).2
theorem le_or_lt (a b : Num) : Le a b ∨ Lt b a := by
  unfold Le Lt; have := cmp_swap a b; omega
theorem Le.negInf (a : Num) : Le (.inf true) a := by
  unfold Le; have := cmp_negInf a; have := cmp_swap a (.inf true); omega
theorem Le.posInf (a : Num) : Le a (.inf false) := cmp_posInf a

/-! ### the builder's comparisons -/
theorem gt_iff {a b : Num} : gt a b = true ↔ Lt b a := by
  unfold gt Lt; have := cmp_swap a b; simp; omega
theorem lt_iff {a b : Num} : lt a b = true ↔ Lt a b := by unfold lt Lt; simp
theorem gt_false_iff {a b : Num} : gt a b = false ↔ Le a b := by
  rw [← Bool.not_eq_true, gt_iff, not_lt]
theorem lt_false_iff {a b : Num} : lt a b = false ↔ Le b a := by
  rw [← Bool.not_eq_true, lt_iff, not_lt]

/-! From here on the equality oracle is any oracle that is exact wherever it answers. -/
variable [E : ExactOracle]

theorem numEq?_true {a b : Num} (h : numEq? a b = some true) : Num.cmp a b = 0 :=
  (E.exact a b true h).mp rfl
theorem numEq?_false {a b : Num} (h : numEq? a b = some false) : Num.cmp a b ≠ 0 := fun hc => by
  have := (E.exact a b false h).mpr hc
  cases this

theorem ge?_true {a b : Num} (h : ge? a b = some true) : Le b a := by
  unfold ge? at h; split at h
  · rename_i hg; exact (gt_iff.mp hg).le
  · exact ge_of_eq (numEq?_true h)
theorem ge?_false {a b : Num} (h : ge? a b = some false) : Lt a b := by
  unfold ge? at h; split at h
  · simp at h
  · rename_i hg
    have h1 : Le a b := gt_false_iff.mp (by simpa using hg)
    have h2 := numEq?_false h
    unfold Le at h1; unfold Lt; omega
theorem le?_true {a b : Num} (h : le? a b = some true) : Le a b := by
  unfold le? at h; split at h
  · rename_i hg; exact (lt_iff.mp hg).le
  · exact le_of_eq (numEq?_true h)
theorem le?_false {a b : Num} (h : le? a b = some false) : Lt b a := by
  unfold le? at h; split at h
  · simp at h
  · rename_i hg
    have h1 : Le b a := lt_false_iff.mp (by simpa using hg)
    have h2 := numEq?_false h
    have := cmp_swap a b
    unfold Le at h1; unfold Lt; omega

/-! ### the specification predicates -/
omit E in
theorem aboveLower_none (x : Num) : aboveLower none x = true := rfl
omit E in
theorem belowUpper_none (x : Num) : belowUpper none x = true := rfl
omit E in
theorem aboveLower_incl {m x : Num} : aboveLower (some ⟨m, true⟩) x = true ↔ Le m x := by
  unfold aboveLower Le; have := cmp_swap m x; simp; omega
omit E in
theorem aboveLower_excl {m x : Num} : aboveLower (some ⟨m, false⟩) x = true ↔ Lt m x := by
  unfold aboveLower Lt; have := cmp_swap m x; simp; omega
omit E in
theorem belowUpper_incl {m x : Num} : belowUpper (some ⟨m, true⟩) x = true ↔ Le x m := by
  unfold belowUpper Le; simp
omit E in
theorem belowUpper_excl {m x : Num} : belowUpper (some ⟨m, false⟩) x = true ↔ Lt x m := by
  unfold belowUpper Lt; simp

/-- a lower bound as a proposition -/
def Above (m : Num) (incl : Bool) (x : Num) : Prop := if incl then Le m x else Lt m x
def Below (m : Num) (incl : Bool) (x : Num) : Prop := if incl then Le x m else Lt x m

omit E in
theorem aboveLower_some {m x : Num} {i : Bool} : aboveLower (some ⟨m, i⟩) x = true ↔ Above m i x := by
  cases i
  · exact aboveLower_excl
  · exact aboveLower_incl
omit E in
theorem belowUpper_some {m x : Num} {i : Bool} : belowUpper (some ⟨m, i⟩) x = true ↔ Below m i x := by
  cases i
  · exact belowUpper_excl
  · exact belowUpper_incl

omit E in
theorem Above.le {m x : Num} {i : Bool} (h : Above m i x) : Le m x := by
  cases i <;> simp [Above] at h
  · exact h.le
  · exact h
omit E in
theorem Below.le {m x : Num} {i : Bool} (h : Below m i x) : Le x m := by
  cases i <;> simp [Below] at h
  · exact h.le
  · exact h

/-! ### "is the new bound at least as tight as the recorded one?" -/

/-- new bound tighter ⇒ it implies the recorded one -/
theorem lowerTighter_true {m : Num} {incl : Bool} {lo : Option Bound} {x : Num}
    (h : lowerTighter? m incl lo = some true) (hx : aboveLower (some ⟨m, incl⟩) x = true) :
    aboveLower lo x = true := by
  cases lo with
  | none => rfl
  | some w =>
    obtain ⟨wv, wi⟩ := w
    rw [aboveLower_some] at hx ⊢
    unfold lowerTighter? at h
    cases incl <;> cases wi <;> simp [Above] at h hx ⊢
    · exact (ge?_true h).trans_lt hx
    · exact ((ge?_true h).trans_lt hx).le
    · exact (gt_iff.mp h).trans_le hx
    · exact (ge?_true h).trans hx

/-- new bound not tighter ⇒ the recorded one implies it -/
theorem lowerTighter_false {m : Num} {incl : Bool} {lo : Option Bound} {x : Num}
    (h : lowerTighter? m incl lo = some false) (hx : aboveLower lo x = true) :
    aboveLower (some ⟨m, incl⟩) x = true := by
  cases lo with
  | none => simp [lowerTighter?] at h
  | some w =>
    obtain ⟨wv, wi⟩ := w
    rw [aboveLower_some] at hx ⊢
    unfold lowerTighter? at h
    cases incl <;> cases wi <;> simp [Above] at h hx ⊢
    · exact (ge?_false h).trans hx
    · exact (ge?_false h).trans_le hx
    · exact (gt_false_iff.mp h).trans hx.le
    · exact ((ge?_false h).trans_le hx).le

theorem upperTighter_true {m : Num} {incl : Bool} {hi : Option Bound} {x : Num}
    (h : upperTighter? m incl hi = some true) (hx : belowUpper (some ⟨m, incl⟩) x = true) :
    belowUpper hi x = true := by
  cases hi with
  | none => rfl
  | some w =>
    obtain ⟨wv, wi⟩ := w
    rw [belowUpper_some] at hx ⊢
    unfold upperTighter? at h
    cases incl <;> cases wi <;> simp [Below] at h hx ⊢
    · exact hx.trans_le (le?_true h)
    · exact (hx.trans_le (le?_true h)).le
    · exact hx.trans_lt (lt_iff.mp h)
    · exact hx.trans (le?_true h)

theorem upperTighter_false {m : Num} {incl : Bool} {hi : Option Bound} {x : Num}
    (h : upperTighter? m incl hi = some false) (hx : belowUpper hi x = true) :
    belowUpper (some ⟨m, incl⟩) x = true := by
  cases hi with
  | none => simp [upperTighter?] at h
  | some w =>
    obtain ⟨wv, wi⟩ := w
    rw [belowUpper_some] at hx ⊢
    unfold upperTighter? at h
    cases incl <;> cases wi <;> simp [Below] at h hx ⊢
    · exact hx.trans (le?_false h)
    · exact hx.trans_lt (le?_false h)
    · exact hx.le.trans (lt_false_iff.mp h)
    · exact (hx.trans_lt (le?_false h)).le

end Refine
end CtyModel
