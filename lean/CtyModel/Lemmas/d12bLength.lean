/-
C12 / d12b: `length` end to end.  `LengthFunc`'s `Impl` is `Value.Length` (C01 `sound_length_partial`);
its `Type` callback looks at the argument's type only; the parameter accepts unknown, dynamically typed
and marked arguments, so `Impl` sees every weakening.
-/
import CtyModel.Lemmas.d12bCall
import CtyModel.Lemmas.d01Len
import CtyModel.Props.C01
namespace CtyModel
namespace D12b
open Fn Stdlib C12L Value

theorem numRangeResult_ty (lo hi : Option Num) : (numRangeResult lo hi).ty = .number := by
  unfold numRangeResult
  split
  · split <;> rfl
  · rfl

theorem lengthU_ty {v r : Value} (h : lengthU v = .ok r) : r.ty = .number := by
  unfold lengthU at h
  repeat' (first | split at h | (obtain ⟨_, _, h⟩ := Res.bind_eq_ok.mp h))
  all_goals (cases h <;> first | rfl | exact numRangeResult_ty _ _)

theorem length_ty {v r : Value} (h : Value.length v = .ok r) : r.ty = .number := by
  unfold Value.length unMarks at h
  split at h
  · obtain ⟨a, ha, rfl⟩ := res_map_ok h
    have := lengthU_ty ha
    obtain ⟨t, p⟩ := a
    exact this
  · exact lengthU_ty h

/-- `lengthType` on a weakened argument: same type or the placeholder — the answer is `number` again -/
theorem lengthType_mono {o w : Value} (hty : w.ty = o.ty ∨ w.ty.isDyn = true) :
    TypeMonoAt lengthType [o] [w] := by
  intro t ht
  have hto : t = .number := by
    simp only [lengthType] at ht
    split at ht <;> first | (cases ht; rfl) | cases ht
  subst hto
  refine ⟨.number, ?_, fun _ h => h⟩
  rcases hty with h | h
  · simp only [lengthType] at ht ⊢
    rw [h]
    exact ht
  · have : w.ty = .dyn := by cases hw : w.ty <;> simp_all [Ty.isDyn]
    simp [lengthType, this]

theorem lengthType_number {ws : List Value} {t : Ty} (h : lengthType ws = .ok t) : t = .number := by
  unfold lengthType at h
  split at h
  · split at h <;> first | (cases h; rfl) | cases h
  · cases h

/-- `Impl` of `length` is sound on every pair the C01 theorem covers -/
theorem length_implSound (o w : Value) (hk : o.whollyKnown = true) (hfo : o.wfc = true) (hfw : w.wfc = true)
    (hwdyn : w.ty = .dyn → w.isKnown = false) (hcount : SetCountOK w.unmark o.unmark = true)
    (hc : CoversX w o = true) : ImplSoundAt lengthType lengthImpl [o] [w] := by
  intro rt rt' r _ htw hio _ _ _ _
  have := lengthType_number htw
  subst this
  simp only [lengthImpl] at hio ⊢
  obtain ⟨r', h1, h2⟩ := C01.sound_length_partial o w r hk hfo hfw hwdyn hcount hc hio
  refine ⟨r', h1, ?_, h2⟩
  rw [length_ty h1]
  rfl

end D12b
end CtyModel
