/-
C01, sets: `Equals` on two sets never gives a definite answer while a member of
either set is not wholly known (a known container holding an unknown may turn out
equal to a member of the other set).
-/
import CtyModel.Lemmas.OpsEquals
namespace CtyModel
open Value Cov NumCmp

/-- a loop over members one of which is not wholly known answers "unknown" (if it answers) -/
theorem setInclWK_not_wk (rec : EqRec) (e : Ty) : ∀ (ix : List Int) (xs : List Payload) (iy : List Int) (ys : List Payload)
    (o : Option Bool), ix.length = xs.length → Payload.whollyKnownL xs = false →
    setInclWK rec e ix xs iy ys = .ok o → o = none
  | [], [], _, _, _, _, hk, _ => by simp [Payload.whollyKnownL] at hk
  | [], _ :: _, _, _, _, hl, _, _ => by simp at hl
  | _ :: _, [], _, _, _, hl, _, _ => by simp at hl
  | i :: is, x :: xs, iy, ys, o, hl, hk, h => by
    simp only [setInclWK] at h
    by_cases hx : x.whollyKnown = true
    · simp only [hx, Bool.not_true, Bool.false_eq_true, if_false] at h
      have hk' : Payload.whollyKnownL xs = false := by
        simpa [Payload.whollyKnownL, hx] using hk
      cases hh : setHas rec e i x iy ys <;> simp only [hh] at h <;> try (cases h; done)
      cases hr : setInclWK rec e is xs iy ys with
      | ok o' =>
        have := setInclWK_not_wk rec e is xs iy ys o' (by simpa using hl) hk' hr
        subst this
        simp only [hr] at h
        cases h; rfl
      | err c => simp only [hr] at h; cases h
      | panic w => simp only [hr] at h; cases h
      | unmodelled => simp only [hr] at h; cases h
    · simp only [hx, Bool.not_false, if_true] at h
      cases h; rfl

theorem isKnown_withMarks_unkBool (ms : List String) : (unkBool.withMarks ms).isKnown = false := by
  simp only [Value.withMarks, Payload.withMarks, unkBool]
  by_cases he : (unionMarks (Payload.unk (Rfn.nullable Tri.f)).marks1 ms).isEmpty = true <;>
    simp [he, Value.isKnown, Payload.isKnown, Payload.unmark1]

/-- two sets of the same type, a member of either not wholly known: the answer is unknown -/
theorem equalsFuel_set_unknown {n : Nat} {e : Ty} {tb : Ty} {ix iy : List Int} {xs ys : List Payload} {r : Value}
    (hte : Ty.equals (.set e) tb = true) (hlx : ix.length = xs.length) (hly : iy.length = ys.length)
    (hnk : Payload.whollyKnownL xs = false ∨ Payload.whollyKnownL ys = false)
    (h : equalsFuel (n + 1) (.set e) (.sset ix xs) tb (.sset iy ys) = .ok r) : r = unkBool := by
  unfold equalsFuel at h
  rw [equalsPre_both_known (isKnown_of_pKnown (by rfl)) (isKnown_of_pKnown (by rfl))] at h
  simp only [isNull_val (t := .set e) (p := .sset ix xs) (by rfl), isNull_val (t := tb) (p := .sset iy ys) (by rfl),
    pNull, Bool.false_eq_true, if_false] at h
  split at h
  · -- a placeholder type inside: the types are equal, hence conform, hence "unknown"
    simp only [conform_zero_of_equals hte, bne_self_eq_false, Bool.false_and, Bool.false_eq_true, if_false,
      Res.ok.injEq] at h
    exact h.symm
  · simp only [hte, Bool.not_true, Bool.false_eq_true, if_false] at h
    split at h
    · cases h; rfl
    · rename_i p h1
      split at h
      · cases h; rfl
      · rename_i q h2
        rcases hnk with hk | hk
        · have := setInclWK_not_wk _ _ _ _ _ _ _ hlx hk h1; cases this
        · have := setInclWK_not_wk _ _ _ _ _ _ _ hly hk h2; cases this
      · cases h
      · cases h
      · cases h
    · cases h
    · cases h
    · cases h

/-- the same for `Value.equals` (marks only decorate the result) -/
theorem equals_set_unknown (a b r : Value) {e : Ty} {ix iy : List Int} {xs ys : List Payload}
    (hta : a.ty = .set e) (hte : Ty.equals (.set e) b.ty = true)
    (hpa : a.v.stripMarks = .sset ix xs) (hpb : b.v.stripMarks = .sset iy ys)
    (hlx : ix.length = xs.length) (hly : iy.length = ys.length)
    (hnk : Payload.whollyKnownL xs = false ∨ Payload.whollyKnownL ys = false)
    (h : Value.equals a b = .ok r) : r.isKnown = false := by
  obtain ⟨ms, hs | hs⟩ := equals_strip a b
  · rw [hs, hta, hpa, hpb] at h
    obtain ⟨r0, h0, rfl⟩ := res_map_ok h
    have := equalsFuel_set_unknown hte hlx hly hnk h0
    subst this
    exact isKnown_withMarks_unkBool ms
  · rw [hs, hta, hpa, hpb] at h
    have := equalsFuel_set_unknown hte hlx hly hnk h
    subst this
    rfl

end CtyModel
