/-
d03 — number facts behind the C03 clauses "forms a trichotomy with less-than
and greater-than on numbers" and "any two values that are equal have the same
hash": what holds of ALL numbers, and what holds of all INTEGERS whatever their
precisions (an infinite family on which no per-list `decide` is needed).
-/
import CtyModel.Lemmas.OpsEquals
import CtyModel.Lemmas.ValEqRaw
namespace CtyModel
open Value NumCmp

/-! ### the hashed text of an integer depends on its value only -/

/-- `String()` of a finite number reads sign, mantissa and exponent through the
exact decimal expansion; for an integer that expansion is the one of `m·2^e`. -/
theorem Dec.ofME_int (m : Nat) (e : Int) (he : 0 ≤ e) :
    Num.Dec.ofME m e = Num.Dec.ofME (m * 2 ^ e.toNat) 0 := by
  have hp : 0 < 2 ^ e.toNat := Nat.pow_pos (by decide)
  by_cases hm : m = 0
  · subst hm; simp [Num.Dec.ofME]
  · have hne : m * 2 ^ e.toNat ≠ 0 := Nat.mul_ne_zero hm (by omega)
    simp [Num.Dec.ofME, hm, hne, he]

theorem textG10_int (n : Bool) (m : Nat) (e : Int) (p : Nat) (he : 0 ≤ e) :
    Num.textG10 (.fin n m e p) = Num.textG10 (.fin n (m * 2 ^ e.toNat) 0 0) := by
  simp only [Num.textG10]
  rw [Dec.ofME_int m e he, Dec.ofME_int (m * 2 ^ e.toNat) 0 (Int.le_refl 0)]

/-- **All integers are hash-coherent**: two integers that `rawNumberEqual` calls
equal (same sign, same integer value — at ANY two precisions) are hashed from the
same text. -/
theorem numHashText_eq_of_int {x y : Num} (hx : x.isInt = true) (hy : y.isInt = true)
    (h : Num.rawEqual x y = true) : numHashText x = numHashText y := by
  cases x with
  | inf _ => simp [Num.isInt] at hx
  | fin nx mx ex px =>
    cases y with
    | inf _ => simp [Num.isInt] at hy
    | fin ny my ey py =>
      simp only [Num.isInt, ge_iff_le, decide_eq_true_eq] at hx hy
      simp only [Num.rawEqual, Num.isInt, ge_iff_le, hx, hy, decide_true, bne_self_eq_false,
        Bool.false_eq_true, if_false, if_true, Num.truncInt, bne_iff_ne, ne_eq, ite_not] at h
      split at h
      · rename_i hs
        simp only [numHashText]
        by_cases hmx : mx = 0
        · have : my = 0 := by
            by_cases hmy : my = 0
            · exact hmy
            · exfalso; cases ny <;> simp [Num.sign, hmx, hmy] at hs
          subst hmx; subst this
          simp [Num.sign]
        · have hmy : my ≠ 0 := by
            intro hmy; cases nx <;> simp [Num.sign, hmx, hmy] at hs
          have sx : (Num.fin nx mx ex px).sign ≠ 0 := by cases nx <;> simp [Num.sign, hmx]
          have sy : (Num.fin ny my ey py).sign ≠ 0 := by cases ny <;> simp [Num.sign, hmy]
          have hn : nx = ny := by
            cases nx <;> cases ny <;> simp [Num.sign, hmx, hmy] at hs ⊢
          subst hn
          simp only [beq_iff_eq, sx, sy, if_false]
          rw [textG10_int nx mx ex px hx, textG10_int nx my ey py hy]
          have hv : mx * 2 ^ ex.toNat = my * 2 ^ ey.toNat := by
            simp only [beq_iff_eq, Option.some.injEq] at h
            have h' : (mx : Int) * 2 ^ ex.toNat = (my : Int) * 2 ^ ey.toNat := by
              cases nx <;> simp at h <;> omega
            exact_mod_cast h'
          rw [hv]
      · simp at h

theorem hashCoherentNums_of_allInt (ns : List Num) (h : ns.all Num.isInt = true) :
    HashCoherentNums ns = true := by
  simp only [HashCoherentNums, List.all_eq_true, Bool.or_eq_true, Bool.not_eq_true', beq_iff_eq]
  simp only [List.all_eq_true] at h
  intro x hx y hy
  cases hr : Num.rawEqual x y with
  | false => exact Or.inl rfl
  | true => exact Or.inr (numHashText_eq_of_int (h x hx) (h y hy) hr)

/-! ### LessThan / GreaterThan / Equals on two known numbers -/

theorem lessThan_num (x y : Num) : lessThan (numVal x) (numVal y) = .ok (boolVal (decide (Num.cmp x y < 0))) := by
  rfl

theorem greaterThan_num (x y : Num) :
    greaterThan (numVal x) (numVal y) = .ok (boolVal (decide (Num.cmp x y > 0))) := by
  rfl

theorem equals_num (x y : Num) : equals (numVal x) (numVal y) = .ok (boolVal (Num.rawEqual x y)) := by
  simp only [equals, numVal, Value.containsMarked, Payload.containsMarked, Bool.or_self, Bool.false_eq_true, if_false]
  exact equalsP_num x y

theorem boolVal_true_iff (b : Bool) : ((.ok (boolVal b) : Res Value) = .ok (boolVal true)) ↔ b = true := by
  cases b <;> simp [boolVal]

end CtyModel
