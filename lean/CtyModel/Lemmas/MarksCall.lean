/-
Marks through `Function.Call` (model: `CtyModel/Function.lean`, decision table
`Fn.callTable` of `Lemmas/FnCall.lean`): every mark inside an argument whose
parameter lacks `AllowMarked` reaches the result, and for a specification none
of whose parameters handles marks itself the whole call — outcome, result and
the arguments every callback sees — is the call on the unmarked arguments,
re-marked.  All statements hold for every `Type`, `Impl` and `RefineResult` callback.
-/
import CtyModel.Lemmas.MarksSets
namespace CtyModel

namespace Payload
theorem marks1_withMarks (p : Payload) (ms : List String) : (p.withMarks ms).marks1 = unionMarks p.marks1 ms := by
  unfold withMarks
  simp only
  split
  · rename_i h
    have h' : unionMarks p.marks1 ms = [] := by simpa using h
    rw [h', (unionMarks_eq_nil.mp h').1]
  · rfl

/-- marking twice is marking once with the union (for a canonical second set) -/
theorem withMarks_withMarks (p : Payload) (a : List String) {u : List String} (hu : MSorted u) :
    (p.withMarks a).withMarks u = p.withMarks (unionMarks a u) := by
  rw [withMarks_def (p.withMarks a) u, marks1_withMarks, unmark1_withMarks, unionMarks_assoc_sorted p.marks1 a hu,
    withMarks_def p (unionMarks a u)]
  by_cases h : (unionMarks p.marks1 (unionMarks a u)).isEmpty = true
  · have h' : unionMarks p.marks1 (unionMarks a u) = [] := by simpa using h
    obtain ⟨hp, hau⟩ := unionMarks_eq_nil.mp h'
    have ha := (unionMarks_eq_nil.mp hau).1
    simp [withMarks_def, hp, ha, unionMarks]
  · simp [h]
end Payload

namespace Fn

/-- `Out` is a functor on its value -/
def Out.map {α β} (f : α → β) : Out α → Out β
  | .ok a => .ok (f a)
  | .err e => .err e
  | .panic w => .panic w
  | .unmodelled => .unmodelled

/-- no parameter of the specification declares `AllowMarked` -/
def Spec.noneAllowMarked (spec : Spec) : Prop :=
  (∀ p ∈ spec.params, p.allowMarked = false) ∧ (∀ p, spec.varParam = some p → p.allowMarked = false)

/-- the mark sets `Call` sets aside when no parameter allows marks: the deep mark
set of every argument that has one -/
def argMarkSets : List Value → List (List String)
  | [] => []
  | v :: vs => (if v.marksDeep.length > 0 then [v.marksDeep] else []) ++ argMarkSets vs

theorem mem_argMarkSets {m : String} : ∀ {args : List Value},
    (∃ ms ∈ argMarkSets args, m ∈ ms) ↔ ∃ v ∈ args, m ∈ v.marksDeep
  | [] => by simp [argMarkSets]
  | v :: vs => by
    have ih := mem_argMarkSets (m := m) (args := vs)
    simp only [argMarkSets, List.mem_append, List.mem_cons]
    constructor
    · rintro ⟨ms, (h | h), hm⟩
      · split at h
        · simp at h; subst h; exact ⟨v, .inl rfl, hm⟩
        · simp at h
      · obtain ⟨w, hw, hm'⟩ := ih.mp ⟨ms, h, hm⟩
        exact ⟨w, .inr hw, hm'⟩
    · rintro ⟨w, (rfl | hw), hm⟩
      · refine ⟨w.marksDeep, .inl ?_, hm⟩
        have : w.marksDeep.length > 0 := List.length_pos_iff.mpr (List.ne_nil_of_mem hm)
        simp [this]
      · obtain ⟨ms, hms, hm'⟩ := ih.mpr ⟨w, hw, hm⟩
        exact ⟨ms, .inr hms, hm'⟩

theorem expand_allowMarked {spec : Spec} (h : spec.noneAllowMarked) (n : Nat) :
    ∀ p ∈ spec.expand n, p.allowMarked = false := by
  intro p hp
  unfold Spec.expand at hp
  rcases List.mem_append.mp hp with h1 | h1
  · exact h.1 p h1
  · cases hv : spec.varParam with
    | none => simp [hv] at h1
    | some vp =>
      simp only [hv] at h1
      have := (List.mem_replicate.mp h1).2
      subst this
      exact h.2 _ hv

/-! ### every mark of an unhandled argument reaches the result -/

theorem finish_marks {spec : Spec} {o : Out Value × List Event} {v r : Value} (ho : o.1 = .ok v)
    (h : (finish spec o).1 = .ok r) {m : String} (hm : m ∈ v.marks) : m ∈ r.marks := by
  unfold finish at h
  cases hr : spec.refine with
  | none => simp only [hr, ho] at h; cases h; exact hm
  | some rf =>
    simp only [hr, deferredRefine, ho] at h
    split at h
    · simp only [refineWith] at h
      split at h
      · simp at h
      · simp only [Out.ok.injEq] at h; subst h
        exact Value.mem_marks_withMarks.mpr (.inr hm)
    · simp only [ho, Out.ok.injEq] at h; subst h; exact hm

theorem callTail_marks {spec : Spec} {args : List Value} (hc : spec.countOK args.length = true)
    (impl : ImplFn) (t : Ty) (d : Bool) {v : Value}
    (h : (callTail impl t d (pass2 (spec.expand args.length) args)).1 = .ok v) {m : String}
    (hm : Unhandled spec args m) : m ∈ v.marks := by
  unfold callTail at h
  by_cases hu : (d || (pass2 (spec.expand args.length) args).unknown) = true
  · simp only [hu, if_true, Out.ok.injEq] at h; subst h
    exact mem_marks_withMarkSets.mpr (.inr ((unhandled_iff hc m).mpr hm))
  · simp only [hu, Bool.false_eq_true, if_false] at h
    cases hi : impl (pass2 (spec.expand args.length) args).args t with
    | ok retVal =>
      simp only [hi] at h
      have hw := withUnhandled_cond hc retVal
      generalize (if (pass2 (spec.expand args.length) args).marks.length > 0 then
        withMarkSets retVal (pass2 (spec.expand args.length) args).marks else retVal) = rv at h hw
      split at h
      · simp at h
      · simp only [Out.ok.injEq] at h; subst h
        exact (hw.2.2 m).mpr (.inr hm)
    | err c => simp [hi] at h
    | panic w => simp [hi] at h
    | unmodelled => simp [hi] at h

theorem finish_not_ok {spec : Spec} {o : Out Value × List Event} (ho : ∀ v, o.1 ≠ .ok v) (r : Value) :
    (finish spec o).1 ≠ .ok r := by
  unfold finish
  cases spec.refine with
  | none => exact ho r
  | some rf =>
    unfold deferredRefine
    cases h1 : o.1 with
    | ok v => exact absurd h1 (ho v)
    | err e => simp [h1]
    | panic w => simp [h1]
    | unmodelled => simp [h1]

/-- `call_marks` on the decision table -/
theorem callTable_marks (spec : Spec) (tf : TypeFn) (impl : ImplFn) (args : List Value) (r : Value)
    (h : (callTable spec tf impl args).1 = .ok r) (m : String) (hm : Unhandled spec args m) : m ∈ r.marks := by
  unfold callTable at h
  by_cases hc : spec.countOK args.length = true
  · simp only [hc, if_true] at h
    cases hf : firstFail (spec.expand args.length) args with
    | some kf =>
      obtain ⟨k, f⟩ := kf
      cases f <;> simp only [hf] at h
      · simp at h
      · simp only [Out.ok.injEq] at h; subst h
        exact mem_marks_withMarkSets.mpr (.inr ((unhandled_iff hc m).mpr hm))
      · simp at h
    | none =>
      simp only [hf] at h
      cases ht : tf (List.zipWith Param.typeArg (spec.expand args.length) args) with
      | ok rt =>
        simp only [ht] at h
        have key := fun v => callTail_marks (v := v) hc impl rt false (m := m)
        generalize callTail impl rt false (pass2 (spec.expand args.length) args) = ct at h key
        generalize Event.type (List.zipWith Param.typeArg (spec.expand args.length) args) :: ct.2 = tr at h
        cases hb : ct.1 with
        | ok v => exact finish_marks (o := (ct.1, tr)) hb h (key v hb hm)
        | err e => exact absurd h (finish_not_ok (o := (ct.1, tr)) (fun v => by simp [hb]) r)
        | panic w => exact absurd h (finish_not_ok (o := (ct.1, tr)) (fun v => by simp [hb]) r)
        | unmodelled => exact absurd h (finish_not_ok (o := (ct.1, tr)) (fun v => by simp [hb]) r)
      | err c => simp [ht] at h
      | panic w => simp [ht] at h
      | unmodelled => simp [ht] at h
  · simp [hc] at h

/-! ### non-interference for specifications without `AllowMarked` -/

theorem Out.map_ok {α β} (f : α → β) (a : α) : Out.map f (.ok a) = .ok (f a) := rfl

theorem check_unmarkDeep (p : Param) {v : Value} (hw : v.v.markerWF = true) : p.check v.unmarkDeep = p.check v := by
  have h := (Payload.isNull_isKnown_stripMarks v.v hw).1
  unfold Param.check
  have e1 : v.unmarkDeep.isNull = v.isNull := h
  have e2 : v.unmarkDeep.ty = v.ty := rfl
  rw [e1, e2]

theorem isKnown_unmarkDeep_wf {v : Value} (hw : v.v.markerWF = true) : v.unmarkDeep.isKnown = v.isKnown :=
  (Payload.isNull_isKnown_stripMarks v.v hw).2

theorem firstFail_unmarkDeep : ∀ (ps : List Param) (vs : List Value), (∀ v ∈ vs, v.v.markerWF = true) →
    firstFail ps (vs.map Value.unmarkDeep) = firstFail ps vs
  | [], _, _ => by simp [firstFail]
  | _ :: _, [], _ => by simp [firstFail]
  | p :: ps, v :: vs, h => by
    simp only [List.map_cons, firstFail, check_unmarkDeep p (h v (by simp)),
      firstFail_unmarkDeep ps vs (fun w hw => h w (by simp [hw]))]

theorem clean_of_marksDeep_nil {v : Value} (hw : v.v.markerWF = true) (h : v.marksDeep = []) : v.unmarkDeep = v :=
  Value.unmarkDeep_of_clean (Payload.not_containsMarked_of_marksDeep_nil _ hw h)

theorem typeArg_of_noAllow {p : Param} (hp : p.allowMarked = false) {v : Value} (_hw : v.v.markerWF = true) :
    p.typeArg v = v.unmarkDeep ∧ p.typeArg v.unmarkDeep = v.unmarkDeep := by
  unfold Param.typeArg
  constructor
  · by_cases hc : v.containsMarked = true
    · simp [hc, hp]
    · simp [hc, Value.unmarkDeep_of_clean (by simpa using hc : v.containsMarked = false)]
  · simp [Value.containsMarked_unmarkDeep]

theorem callArg_of_noAllow {p : Param} (hp : p.allowMarked = false) {v : Value} (hw : v.v.markerWF = true) :
    p.callArg v = (v.unmarkDeep, if v.marksDeep.length > 0 then [v.marksDeep] else []) ∧
    p.callArg v.unmarkDeep = (v.unmarkDeep, []) := by
  unfold Param.callArg
  constructor
  · by_cases hl : v.marksDeep.length > 0
    · simp [hp, hl]
    · have h0 : v.marksDeep = [] := List.eq_nil_of_length_eq_zero (by omega)
      simp [hp, h0, clean_of_marksDeep_nil hw h0]
  · simp [hp, Value.marksDeep_unmarkDeep]

theorem zipWith_typeArg_noAllow : ∀ (ps : List Param) (vs : List Value), (∀ p ∈ ps, p.allowMarked = false) →
    (∀ v ∈ vs, v.v.markerWF = true) →
    List.zipWith Param.typeArg ps (vs.map Value.unmarkDeep) = List.zipWith Param.typeArg ps vs
  | [], _, _, _ => by simp
  | _ :: _, [], _, _ => by simp
  | p :: ps, v :: vs, hp, hv => by
    have h := typeArg_of_noAllow (hp p (by simp)) (hv v (by simp))
    simp only [List.map_cons, List.zipWith_cons_cons, h.1, h.2,
      zipWith_typeArg_noAllow ps vs (fun q hq => hp q (by simp [hq])) (fun w hw => hv w (by simp [hw]))]

theorem pass2_noAllow : ∀ (ps : List Param) (vs : List Value), ps.length = vs.length →
    (∀ p ∈ ps, p.allowMarked = false) → (∀ v ∈ vs, v.v.markerWF = true) →
    (pass2 ps vs).marks = argMarkSets vs ∧
    pass2 ps (vs.map Value.unmarkDeep) = ⟨(pass2 ps vs).args, [], (pass2 ps vs).unknown⟩
  | [], [], _, _, _ => by simp [pass2, argMarkSets]
  | [], _ :: _, h, _, _ => by simp at h
  | _ :: _, [], h, _, _ => by simp at h
  | p :: ps, v :: vs, hl, hp, hv => by
    have h := callArg_of_noAllow (hp p (by simp)) (hv v (by simp))
    have ih := pass2_noAllow ps vs (by simpa using hl) (fun q hq => hp q (by simp [hq])) (fun w hw => hv w (by simp [hw]))
    have hk : p.blocksUnknown v.unmarkDeep = p.blocksUnknown v := by
      simp [Param.blocksUnknown, isKnown_unmarkDeep_wf (hv v (by simp))]
    constructor
    · simp only [pass2, h.1, argMarkSets, ih.1]
    · simp only [List.map_cons, pass2, h.2, h.1, ih.2, hk, List.nil_append]

/-- the result of the marked call from the result of the unmarked one -/
theorem callTail_noAllow (impl : ImplFn) (t : Ty) (d : Bool) (R : Pass2) :
    callTail impl t d R =
      (Out.map (fun r => withMarkSets r R.marks) (callTail impl t d ⟨R.args, [], R.unknown⟩).1,
        (callTail impl t d ⟨R.args, [], R.unknown⟩).2) := by
  unfold callTail
  by_cases hu : (d || R.unknown) = true
  · simp only [hu, if_true, Out.map]
    simp [withMarkSets]
  · simp only [hu, Bool.false_eq_true, if_false]
    cases hi : impl R.args t with
    | ok retVal =>
      simp only [List.length_nil, Nat.lt_irrefl, gt_iff_lt, if_false]
      have e : (if 0 < R.marks.length then withMarkSets retVal R.marks else retVal) = withMarkSets retVal R.marks := by
        split
        · rfl
        · rename_i h
          have : R.marks = [] := List.eq_nil_of_length_eq_zero (by omega)
          simp [this, withMarkSets]
      rw [e, withMarkSets_ty]
      split <;> simp [Out.map]
    | err c => simp [Out.map]
    | panic w => simp [Out.map]
    | unmodelled => simp [Out.map]

theorem withMarks_remark (q v : Value) (M : List (List String)) :
    q.withMarks (withMarkSets v M).marks = withMarkSets (q.withMarks v.marks) M := by
  unfold withMarkSets
  split
  · rfl
  · have hs : MSorted (unionAll M) := by rw [unionAllMarks_eq_fn]; exact unionAllMarks_sorted M
    show q.withMarks (v.v.withMarks (unionAll M)).marks1 = (q.withMarks v.marks).withMarks (unionAll M)
    rw [Payload.marks1_withMarks]
    simp only [Value.withMarks, Value.marks]
    rw [Payload.withMarks_withMarks _ _ hs]

theorem finish_noAllow (spec : Spec) (M : List (List String)) (o1 : Out Value) (tr : List Event) :
    finish spec (Out.map (fun r => withMarkSets r M) o1, tr) =
      (Out.map (fun r => withMarkSets r M) (finish spec (o1, tr)).1, (finish spec (o1, tr)).2) := by
  unfold finish
  cases spec.refine with
  | none => rfl
  | some rf =>
    cases o1 with
    | ok v =>
      simp only [deferredRefine, Out.map, isKnown_withMarkSets, withMarkSets_ty, unmark_withMarkSets]
      split
      · simp only [refineWith, unmark_withMarkSets, withMarkSets_ty]
        cases rf v.unmark with
        | none => rfl
        | some p => simp only [withMarks_remark]
      · rfl
    | err e => rfl
    | panic w => rfl
    | unmodelled => rfl

/-- `call_noninterference` on the decision table -/
theorem callTable_noAllow (spec : Spec) (tf : TypeFn) (impl : ImplFn) (args : List Value)
    (hs : spec.noneAllowMarked) (hw : ∀ v ∈ args, v.v.markerWF = true) :
    callTable spec tf impl args =
      (Out.map (fun r => withMarkSets r (argMarkSets args)) (callTable spec tf impl (args.map Value.unmarkDeep)).1,
        (callTable spec tf impl (args.map Value.unmarkDeep)).2) := by
  unfold callTable
  simp only [List.length_map]
  by_cases hc : spec.countOK args.length = true
  · simp only [hc, if_true]
    have hE := expand_allowMarked hs args.length
    have hl := Spec.expand_length hc
    obtain ⟨hm, hp2⟩ := pass2_noAllow _ args hl hE hw
    rw [firstFail_unmarkDeep _ _ hw, zipWith_typeArg_noAllow _ _ hE hw, hp2]
    cases hf : firstFail (spec.expand args.length) args with
    | some kf =>
      obtain ⟨k, f⟩ := kf
      cases f <;> simp only [Out.map]
      simp [withMarkSets, hm]
    | none =>
      simp only
      cases ht : tf (List.zipWith Param.typeArg (spec.expand args.length) args) with
      | ok rt =>
        simp only
        rw [callTail_noAllow impl rt false (pass2 (spec.expand args.length) args), hm]
        exact finish_noAllow spec _ _ _
      | err c => rfl
      | panic w => rfl
      | unmodelled => rfl
  · simp [hc, Out.map]

/-! ### non-interference for ANY specification, relative to callbacks that do not look at marks -/

/-- the `Type` callback does not depend on marks -/
def TypeBlind (tf : TypeFn) : Prop := ∀ as : List Value, tf as = tf (as.map Value.unmarkDeep)

/-- the `Impl` callback computes the same with and without marks (outcome class and
unmarked result), and hands back a value with proper marker layers -/
def ImplBlind (impl : ImplFn) : Prop :=
  ∀ (as : List Value) (t : Ty), (∀ a ∈ as, a.v.markerWF = true) →
    (impl as t).map Value.unmarkDeep = impl (as.map Value.unmarkDeep) t ∧
    ∀ r, impl as t = .ok r → r.v.markerWF = true

/-- so does the `RefineResult` callback -/
def RefineBlind (spec : Spec) : Prop :=
  ∀ r, spec.refine = some r → ∀ v : Value, (r v).map Payload.stripMarks = r v.unmarkDeep

theorem unmarkDeep_withMarkSets (v : Value) (M : List (List String)) :
    (withMarkSets v M).unmarkDeep = v.unmarkDeep := by
  unfold withMarkSets; split
  · rfl
  · exact Value.unmarkDeep_withMarks _ _

theorem zipWith_typeArg_clean : ∀ (ps : List Param) (vs : List Value), ps.length = vs.length →
    List.zipWith Param.typeArg ps (vs.map Value.unmarkDeep) = vs.map Value.unmarkDeep
  | [], [], _ => rfl
  | [], _ :: _, h => by simp at h
  | _ :: _, [], h => by simp at h
  | p :: ps, v :: vs, h => by
    simp [Param.typeArg, Value.containsMarked_unmarkDeep, zipWith_typeArg_clean ps vs (by simpa using h)]

theorem pass2_clean : ∀ (ps : List Param) (vs : List Value), ps.length = vs.length →
    (∀ v ∈ vs, v.v.markerWF = true) →
    pass2 ps (vs.map Value.unmarkDeep) = ⟨vs.map Value.unmarkDeep, [], (pass2 ps vs).unknown⟩ ∧
    (pass2 ps vs).args.map Value.unmarkDeep = vs.map Value.unmarkDeep ∧
    ∀ a ∈ (pass2 ps vs).args, a.v.markerWF = true
  | [], [], _, _ => by simp [pass2]
  | [], _ :: _, h, _ => by simp at h
  | _ :: _, [], h, _ => by simp at h
  | p :: ps, v :: vs, hl, hw => by
    obtain ⟨i1, i2, i3⟩ := pass2_clean ps vs (by simpa using hl) (fun w hw' => hw w (by simp [hw']))
    have hk : p.blocksUnknown v.unmarkDeep = p.blocksUnknown v := by
      simp [Param.blocksUnknown, isKnown_unmarkDeep_wf (hw v (by simp))]
    have hc : p.callArg v.unmarkDeep = (v.unmarkDeep, []) := by
      unfold Param.callArg
      simp [Value.marksDeep_unmarkDeep]
    refine ⟨?_, ?_, ?_⟩
    · simp only [List.map_cons, pass2, hc, i1, hk, List.nil_append]
    · simp only [pass2, List.map_cons, Param.callArg_unmarkDeep, i2]
    · intro a ha
      simp only [pass2, List.mem_cons] at ha
      rcases ha with rfl | ha
      · unfold Param.callArg
        split
        · split
          · exact Value.markerWF_unmarkDeep _
          · exact hw v (by simp)
        · exact hw v (by simp)
      · exact i3 a ha

theorem refineWith_blind (rf : RefineFn) (hb : ∀ v : Value, (rf v).map Payload.stripMarks = rf v.unmarkDeep)
    (val : Value) : Out.map Value.unmarkDeep (refineWith rf val) = refineWith rf val.unmarkDeep := by
  unfold refineWith
  have hb' := hb val.unmark
  rw [Value.unmarkDeep_unmark] at hb'
  have eun : val.unmarkDeep.unmark = val.unmarkDeep := Value.unmark_of_not_marked (Value.isMarked_unmarkDeep _)
  have em : val.unmarkDeep.marks = [] := Value.marks_of_not_marked (Value.isMarked_unmarkDeep _)
  rw [eun, em]
  cases hq : rf val.unmark with
  | none => rw [hq] at hb'; simp only [Option.map_none] at hb'; rw [← hb']; rfl
  | some q =>
    rw [hq] at hb'
    simp only [Option.map_some] at hb'
    rw [← hb']
    simp only [Out.map, Out.ok.injEq]
    rw [Value.unmarkDeep_withMarks]
    have hnm : (⟨val.unmarkDeep.ty, q.stripMarks⟩ : Value).isMarked = false := Payload.isMarked_stripMarks q
    rw [Value.withMarks_nil_of_unmarked hnm]
    rfl

theorem finish_blind (spec : Spec) (hr : RefineBlind spec) (val : Value) (hw : val.v.markerWF = true)
    (tr tr' : List Event) :
    Out.map Value.unmarkDeep (finish spec (.ok val, tr)).1 = (finish spec (.ok val.unmarkDeep, tr')).1 := by
  unfold finish
  cases hrf : spec.refine with
  | none => rfl
  | some rf =>
    simp only [deferredRefine]
    have hk : val.unmarkDeep.isKnown = val.isKnown := isKnown_unmarkDeep_wf hw
    have ety : val.unmarkDeep.ty = val.ty := rfl
    rw [hk, ety]
    split
    · exact refineWith_blind rf (hr rf hrf) val
    · rfl

theorem finish_passes {spec : Spec} {o : Out Value} (ho : ∀ v, o ≠ .ok v) (tr : List Event) :
    (finish spec (o, tr)).1 = o := by
  unfold finish
  cases spec.refine with
  | none => rfl
  | some rf =>
    cases o with
    | ok v => exact absurd rfl (ho v)
    | err e => rfl
    | panic w => rfl
    | unmodelled => rfl

/-- the part of the call after the `Type` callback -/
theorem callTail_blind (spec : Spec) (impl : ImplFn) (himpl : ImplBlind impl) (hr : RefineBlind spec)
    (rt : Ty) (R : Pass2) (as' : List Value) (hp2 : R.args.map Value.unmarkDeep = as')
    (hp3 : ∀ a ∈ R.args, a.v.markerWF = true) (tr tr' : List Event) :
    Out.map Value.unmarkDeep (finish spec ((callTail impl rt false R).1, tr)).1 =
      (finish spec ((callTail impl rt false ⟨as', [], R.unknown⟩).1, tr')).1 := by
  obtain ⟨hi1, hi2⟩ := himpl R.args rt hp3
  rw [hp2] at hi1
  unfold callTail
  by_cases hu : (false || R.unknown) = true
  · simp only [hu, if_true]
    have e0 : withMarkSets (Value.unknown rt) ([] : List (List String)) = Value.unknown rt := rfl
    have hwf : (withMarkSets (Value.unknown rt) R.marks).v.markerWF = true := by
      unfold withMarkSets; split
      · rfl
      · exact Value.markerWF_withMarks rfl _
    have hud : (withMarkSets (Value.unknown rt) R.marks).unmarkDeep = Value.unknown rt := by
      rw [unmarkDeep_withMarkSets]; rfl
    rw [e0, finish_blind spec hr _ hwf tr tr', hud]
  · simp only [hu, Bool.false_eq_true, if_false]
    cases hi : impl R.args rt with
    | ok retVal =>
      rw [hi] at hi1
      have hi1' : impl as' rt = .ok retVal.unmarkDeep := hi1.symm
      have hwr := hi2 retVal hi
      simp only [hi1', List.length_nil, Nat.lt_irrefl, gt_iff_lt, if_false]
      generalize hrv : (if 0 < R.marks.length then withMarkSets retVal R.marks else retVal) = rv
      have hrv1 : rv.unmarkDeep = retVal.unmarkDeep := by
        rw [← hrv]; split
        · exact unmarkDeep_withMarkSets _ _
        · rfl
      have hrv2 : rv.ty = retVal.ty := by
        rw [← hrv]; split
        · exact withMarkSets_ty _ _
        · rfl
      have hrv3 : rv.v.markerWF = true := by
        rw [← hrv]; split
        · unfold withMarkSets; split
          · exact hwr
          · exact Value.markerWF_withMarks hwr _
        · exact hwr
      have ety : retVal.unmarkDeep.ty = retVal.ty := rfl
      rw [hrv2, ety]
      split
      · rw [finish_passes (by simp), finish_passes (by simp)]; rfl
      · rw [finish_blind spec hr _ hrv3 _ tr', hrv1]
    | err c =>
      rw [hi] at hi1
      simp only [← hi1, Res.map]
      rw [finish_passes (by simp), finish_passes (by simp)]; rfl
    | panic w =>
      rw [hi] at hi1
      simp only [← hi1, Res.map]
      rw [finish_passes (by simp), finish_passes (by simp)]; rfl
    | unmodelled =>
      rw [hi] at hi1
      simp only [← hi1, Res.map]
      rw [finish_passes (by simp), finish_passes (by simp)]; rfl

/-- `Out.map unmarkDeep` of the marked call's result is the unmarked call's result -/
theorem callTable_blind (spec : Spec) (tf : TypeFn) (impl : ImplFn) (args : List Value)
    (htf : TypeBlind tf) (himpl : ImplBlind impl) (hr : RefineBlind spec)
    (hw : ∀ v ∈ args, v.v.markerWF = true) :
    Out.map Value.unmarkDeep (callTable spec tf impl args).1 =
      (callTable spec tf impl (args.map Value.unmarkDeep)).1 := by
  unfold callTable
  simp only [List.length_map]
  by_cases hc : spec.countOK args.length = true
  · simp only [hc, if_true]
    have hl := Spec.expand_length hc
    obtain ⟨hp1, hp2, hp3⟩ := pass2_clean _ args hl hw
    rw [firstFail_unmarkDeep _ _ hw, zipWith_typeArg_clean _ _ hl, hp1]
    cases hf : firstFail (spec.expand args.length) args with
    | some kf =>
      obtain ⟨k, f⟩ := kf
      cases f <;> simp only [Out.map]
      have e0 : withMarkSets (Value.unknown .dyn) ([] : List (List String)) = Value.unknown .dyn := rfl
      rw [e0, unmarkDeep_withMarkSets]; rfl
    | none =>
      simp only
      have htT : tf (List.zipWith Param.typeArg (spec.expand args.length) args) = tf (args.map Value.unmarkDeep) := by
        rw [htf, map_unmarkDeep_zipWith Param.typeArg_unmarkDeep _ _ hl]
      rw [htT]
      cases ht : tf (args.map Value.unmarkDeep) with
      | ok rt => exact callTail_blind spec impl himpl hr rt _ _ hp2 hp3 _ _
      | err c => rfl
      | panic w => rfl
      | unmodelled => rfl
  · simp [hc, Out.map]

end Fn
end CtyModel
