/-
d03b — the set hash TEXT is injective up to `sameShape` on set-free types: two
values of one type with the same hash text differ at most in number leaves with
the same hashed text, in unknown leaves and in capsule leaves.  Proved on the
character-level text `hashC` (a prefix code once an item is followed by `;`),
transferred to `hashS` / `hashBytes` by `hashS_tie`.
-/
import CtyModel.Lemmas.d03bHashC
namespace CtyModel
namespace D03b

/-! ### characters -/

theorem numChar_ne {c : Char} (h : numChar c = true) :
    c ≠ '~' ∧ c ≠ '?' ∧ c ≠ ']' ∧ c ≠ '}' ∧ c ≠ '>' ∧ c ≠ ';' := by
  refine ⟨?_, ?_, ?_, ?_, ?_, ?_⟩ <;> (rintro rfl; revert h; decide)

/-- a text of number characters followed by `;` ends at that `;` -/
theorem numText_split : ∀ (a b r1 r2 : List Char), a.all numChar = true → b.all numChar = true →
    a ++ ';' :: r1 = b ++ ';' :: r2 → a = b ∧ r1 = r2
  | [], [], _, _, _, _, h => by simpa using h
  | [], d :: b, _, _, _, hb, h => by
    simp only [List.all_cons, Bool.and_eq_true] at hb
    simp only [List.nil_append, List.cons_append, List.cons.injEq] at h
    exact absurd h.1.symm (numChar_ne hb.1).2.2.2.2.2
  | c :: a, [], _, _, ha, _, h => by
    simp only [List.all_cons, Bool.and_eq_true] at ha
    simp only [List.nil_append, List.cons_append, List.cons.injEq] at h
    exact absurd h.1 (numChar_ne ha.1).2.2.2.2.2
  | c :: a, d :: b, r1, r2, ha, hb, h => by
    simp only [List.all_cons, Bool.and_eq_true] at ha hb
    simp only [List.cons_append, List.cons.injEq] at h
    obtain ⟨e1, e2⟩ := numText_split a b r1 r2 ha.2 hb.2 h.2
    exact ⟨by rw [h.1, e1], e2⟩

/-! ### numbers of a payload -/

theorem numTextsOk_marked {m : List String} {r : Payload} (h : (Payload.marked m r).numTextsOk = true) :
    r.numTextsOk = true := by simpa [Payload.numTextsOk, Payload.nums] using h

def numTextsOkL (vs : List Payload) : Bool := (Payload.numsL vs).all numTextOk

theorem numTextsOkL_cons {v : Payload} {vs : List Payload} (h : numTextsOkL (v :: vs) = true) :
    v.numTextsOk = true ∧ numTextsOkL vs = true := by
  simpa [numTextsOkL, Payload.numTextsOk, Payload.numsL, List.all_append] using h

theorem numTextsOk_seq {vs : List Payload} (h : (Payload.seq vs).numTextsOk = true) : numTextsOkL vs = true := by
  simpa [Payload.numTextsOk, Payload.nums, numTextsOkL] using h

theorem numTextsOk_smap {ks : List String} {vs : List Payload} (h : (Payload.smap ks vs).numTextsOk = true) :
    numTextsOkL vs = true := by
  simpa [Payload.numTextsOk, Payload.nums, numTextsOkL] using h

theorem numTextOk_spec {x : Num} (h : (Payload.n x).numTextsOk = true) :
    (numHashText x).toList ≠ [] ∧ (numHashText x).toList.all numChar = true := by
  simp only [Payload.numTextsOk, Payload.nums, List.all_cons, List.all_nil, Bool.and_true, numTextOk,
    Bool.and_eq_true, Bool.not_eq_true', List.isEmpty_eq_false_iff] at h
  exact h

/-! ### marks -/

theorem hashC_unmarked (t : Ty) (p : Payload) : hashC t p = hashC t p.unmarked := by
  cases p <;> simp [Payload.unmarked, hashC]

theorem shaped_unmarked {t : Ty} {p : Payload} (h : p.shaped t = true) :
    p.unmarked.shaped t = true ∧ p.unmarked.isMarked = false := by
  cases p <;> simp_all [Payload.unmarked, Payload.shaped, Payload.isMarked]

theorem numTextsOk_unmarked {p : Payload} (h : p.numTextsOk = true) : p.unmarked.numTextsOk = true := by
  cases p <;> simp_all [Payload.unmarked, Payload.numTextsOk, Payload.nums]

/-! ### first character -/

/-- neither null nor unknown nor a marker -/
def proper : Payload → Bool
  | .null | .unk _ | .marked _ _ | .bad _ => false
  | _ => true

theorem qC_head {s : String} {cs : List Char} (h : qC s = some cs) : ∃ tl, cs = '"' :: tl := by
  simp only [qC] at h
  split at h
  · injection h with h; exact ⟨_, h.symm⟩
  · cases h

/-- the hash text of a known non-null value starts with a character that is none
of `~ ? ] } >` -/
theorem head_proper {t : Ty} {a : Payload} {ca : List Char} (wa : a.shaped t = true) (pa : proper a = true)
    (na : a.numTextsOk = true) (h : hashC t a = some ca) :
    ∃ c tl, ca = c :: tl ∧ c ≠ '~' ∧ c ≠ '?' ∧ c ≠ ']' ∧ c ≠ '}' ∧ c ≠ '>' := by
  cases a <;> simp [proper] at pa
  case b v =>
    simp only [Payload.shaped, Ty.isBool_iff] at wa; subst wa
    simp only [hashC, Option.some.injEq] at h; subst h
    cases v <;> exact ⟨_, _, rfl, by decide⟩
  case n x =>
    simp only [Payload.shaped, Ty.isNumber_iff] at wa; subst wa
    simp only [hashC, Option.some.injEq] at h; subst h
    obtain ⟨h1, h2⟩ := numTextOk_spec na
    cases hl : (numHashText x).toList with
    | nil => exact absurd hl h1
    | cons c tl =>
      rw [hl] at h2
      simp only [List.all_cons, Bool.and_eq_true] at h2
      have := numChar_ne h2.1
      exact ⟨c, tl, rfl, this.1, this.2.1, this.2.2.1, this.2.2.2.1, this.2.2.2.2.1⟩
  case s v =>
    simp only [Payload.shaped, Ty.isString_iff] at wa; subst wa
    simp only [hashC] at h
    obtain ⟨tl, rfl⟩ := qC_head h
    exact ⟨_, _, rfl, by decide⟩
  case seq xs =>
    cases t <;> simp [Payload.shaped] at wa
    all_goals
      simp only [hashC, Option.map_eq_some_iff] at h
      obtain ⟨m, _, rfl⟩ := h
      exact ⟨_, _, rfl, by decide⟩
  case smap ks xs =>
    cases t <;> simp [Payload.shaped] at wa
    all_goals
      simp only [hashC, Option.map_eq_some_iff] at h
      obtain ⟨m, _, rfl⟩ := h
      exact ⟨_, _, rfl, by decide⟩
  case sset ids xs =>
    cases t <;> simp [Payload.shaped] at wa
    simp [hashC] at h
  case caps =>
    cases t <;> simp [Payload.shaped] at wa
    simp only [hashC, Option.some.injEq] at h; subst h
    exact ⟨_, _, rfl, by decide⟩

/-- an unmarked payload is null, unknown or proper -/
theorem unmarked_cases {t : Ty} {a : Payload} (wa : a.shaped t = true) (ma : a.isMarked = false) :
    a = .null ∨ (∃ r, a = .unk r) ∨ proper a = true := by
  cases a <;> simp_all [proper, Payload.isMarked, Payload.shaped]

/-- …so every hash text of an unmarked payload starts with a character other than `] } >` -/
theorem head_open {t : Ty} {a : Payload} {ca : List Char} (wa : a.shaped t = true)
    (na : a.numTextsOk = true) (h : hashC t a = some ca) :
    ∃ c tl, ca = c :: tl ∧ c ≠ ']' ∧ c ≠ '}' ∧ c ≠ '>' := by
  rw [hashC_unmarked] at h
  obtain ⟨wa', ma'⟩ := shaped_unmarked wa
  rcases unmarked_cases wa' ma' with e | ⟨r, e⟩ | e
  · rw [e] at h; cases t <;> (simp only [hashC, Option.some.injEq] at h; subst h; exact ⟨_, _, rfl, by decide⟩)
  · rw [e] at h; cases t <;> (simp only [hashC, Option.some.injEq] at h; subst h; exact ⟨_, _, rfl, by decide⟩)
  · obtain ⟨c, tl, h1, _, _, h2⟩ := head_proper wa' e (numTextsOk_unmarked na) h
    exact ⟨c, tl, h1, h2⟩

end D03b
end CtyModel

namespace CtyModel
namespace D03b

/-! ### leaves -/

/-- if the left value is known and not null, so is the right one -/
theorem proper_rhs {t : Ty} {a b : Payload} {ca cb r1 r2 : List Char} (wa : a.shaped t = true) (pa : proper a = true)
    (na : a.numTextsOk = true) (ha : hashC t a = some ca) (wb : b.shaped t = true) (mb : b.isMarked = false)
    (hb : hashC t b = some cb) (h : ca ++ ';' :: r1 = cb ++ ';' :: r2) : proper b = true := by
  obtain ⟨c, tl, rfl, h1, h2, _⟩ := head_proper wa pa na ha
  rcases unmarked_cases wb mb with e | ⟨r, e⟩ | e
  · rw [e] at hb
    have : cb = ['~'] := by cases t <;> (simp only [hashC, Option.some.injEq] at hb; exact hb.symm)
    subst this
    simp only [List.cons_append, List.cons.injEq] at h
    exact absurd h.1 h1
  · rw [e] at hb
    have : cb = ['?'] := by cases t <;> (simp only [hashC, Option.some.injEq] at hb; exact hb.symm)
    subst this
    simp only [List.cons_append, List.cons.injEq] at h
    exact absurd h.1 h2
  · exact e

theorem hashC_null (t : Ty) : hashC t .null = some ['~'] := by cases t <;> rfl
theorem hashC_unk (t : Ty) (r : Rfn) : hashC t (.unk r) = some ['?'] := by cases t <;> rfl

/-- the left value is null or unknown -/
theorem inj_nullunk (ss : SetShapeRec) {t : Ty} {a b : Payload} {ca cb r1 r2 : List Char}
    (hk : a = .null ∨ ∃ r, a = .unk r) (wb : b.shaped t = true) (nb : b.numTextsOk = true)
    (ha : hashC t a = some ca) (hb : hashC t b = some cb) (h : ca ++ ';' :: r1 = cb ++ ';' :: r2) :
    sameShape ss t a b = true ∧ r1 = r2 := by
  rw [hashC_unmarked _ b] at hb
  obtain ⟨wb', mb'⟩ := shaped_unmarked wb
  have nb' := numTextsOk_unmarked nb
  have key : ∀ (c : Char), (c = '~' ∨ c = '?') → ca = [c] →
      (b.unmarked = .null ∧ c = '~' ∨ (∃ r, b.unmarked = .unk r) ∧ c = '?') ∧ r1 = r2 := by
    intro c hc hca
    subst hca
    rcases unmarked_cases wb' mb' with e | ⟨r, e⟩ | e
    · rw [e, hashC_null] at hb; injection hb with hb; subst hb
      simp only [List.cons_append, List.nil_append, List.cons.injEq] at h
      exact ⟨Or.inl ⟨e, h.1⟩, h.2.2⟩
    · rw [e, hashC_unk] at hb; injection hb with hb; subst hb
      simp only [List.cons_append, List.nil_append, List.cons.injEq] at h
      exact ⟨Or.inr ⟨⟨r, e⟩, h.1⟩, h.2.2⟩
    · obtain ⟨d, tl, rfl, h1, h2, _⟩ := head_proper wb' e nb' hb
      simp only [List.cons_append, List.nil_append, List.cons.injEq] at h
      rcases hc with hc | hc
      · exact absurd (hc ▸ h.1).symm h1
      · exact absurd (hc ▸ h.1).symm h2
  rcases hk with e | ⟨r, e⟩
  · subst e
    rw [hashC_null] at ha; injection ha with ha
    obtain ⟨hk, hr⟩ := key '~' (Or.inl rfl) ha.symm
    refine ⟨?_, hr⟩
    rcases hk with ⟨e, _⟩ | ⟨_, e⟩
    · simp [sameShape, e]
    · exact absurd e (by decide)
  · subst e
    rw [hashC_unk] at ha; injection ha with ha
    obtain ⟨hk, hr⟩ := key '?' (Or.inr rfl) ha.symm
    refine ⟨?_, hr⟩
    rcases hk with ⟨_, e⟩ | ⟨⟨r', e⟩, _⟩
    · exact absurd e (by decide)
    · simp [sameShape, e]

/-- the left value is a bool, a number, a string or a capsule -/
theorem inj_leaf (ss : SetShapeRec) {t : Ty} {a b : Payload} {ca cb r1 r2 : List Char}
    (hk : (∃ x, a = .b x) ∨ (∃ x, a = .n x) ∨ (∃ x, a = .s x) ∨ a = .caps)
    (wa : a.shaped t = true) (wb : b.shaped t = true) (na : a.numTextsOk = true) (nb : b.numTextsOk = true)
    (ha : hashC t a = some ca) (hb : hashC t b = some cb) (h : ca ++ ';' :: r1 = cb ++ ';' :: r2) :
    sameShape ss t a b = true ∧ r1 = r2 := by
  rw [hashC_unmarked _ b] at hb
  obtain ⟨wb', mb'⟩ := shaped_unmarked wb
  have nb' := numTextsOk_unmarked nb
  have pa : proper a = true := by
    rcases hk with ⟨x, e⟩ | ⟨x, e⟩ | ⟨x, e⟩ | e <;> subst e <;> rfl
  have pb := proper_rhs wa pa na ha wb' mb' hb h
  rcases hk with ⟨x, e⟩ | ⟨x, e⟩ | ⟨x, e⟩ | e <;> subst e
  · simp only [Payload.shaped, Ty.isBool_iff] at wa; subst wa
    simp only [sameShape]
    generalize b.unmarked = b' at *
    cases b' <;> simp [proper, Payload.shaped, Ty.isBool, Ty.isNumber, Ty.isString] at pb wb'
    rename_i y
    simp only [hashC, Option.some.injEq] at ha hb; subst ha; subst hb
    cases x <;> cases y <;> simp_all
  · simp only [Payload.shaped, Ty.isNumber_iff] at wa; subst wa
    simp only [sameShape]
    generalize b.unmarked = b' at *
    cases b' <;> simp [proper, Payload.shaped, Ty.isBool, Ty.isNumber, Ty.isString] at pb wb'
    rename_i y
    simp only [hashC, Option.some.injEq] at ha hb; subst ha; subst hb
    obtain ⟨e1, e2⟩ := numText_split _ _ r1 r2 (numTextOk_spec na).2 (numTextOk_spec nb').2 h
    exact ⟨by simpa using String.toList_inj.mp e1, e2⟩
  · simp only [Payload.shaped, Ty.isString_iff] at wa; subst wa
    simp only [sameShape]
    generalize b.unmarked = b' at *
    cases b' <;> simp [proper, Payload.shaped, Ty.isBool, Ty.isNumber, Ty.isString] at pb wb'
    rename_i y
    simp only [hashC, qC] at ha hb
    split at ha
    · rename_i qa hqa
      split at hb
      · rename_i qb hqb
        injection ha with ha; injection hb with hb; subst ha; subst hb
        simp only [List.cons_append, List.cons.injEq, true_and, List.append_assoc, List.nil_append] at h
        obtain ⟨e1, e2⟩ := quoteChars_prefix _ _ _ _ _ _ hqa hqb h
        simp only [List.cons.injEq, true_and] at e2
        exact ⟨by simpa using String.toList_inj.mp e1, e2⟩
      · cases hb
    · cases ha
  · cases t <;> simp [Payload.shaped] at wa
    simp only [sameShape]
    generalize b.unmarked = b' at *
    cases b' <;> simp [proper, Payload.shaped, Ty.isBool, Ty.isNumber, Ty.isString] at pb wb'
    simp only [hashC, Option.some.injEq] at ha hb; subst ha; subst hb
    simpa using h

end D03b
end CtyModel

namespace CtyModel
namespace D03b

/-! ### structure -/

/-- `%q` texts are a prefix code -/
theorem qC_prefix {a b : String} {ca cb r1 r2 : List Char} (ha : qC a = some ca) (hb : qC b = some cb)
    (h : ca ++ r1 = cb ++ r2) : a = b ∧ r1 = r2 := by
  simp only [qC] at ha hb
  split at ha
  · rename_i qa hqa
    split at hb
    · rename_i qb hqb
      injection ha with ha; injection hb with hb; subst ha; subst hb
      simp only [List.cons_append, List.cons.injEq, true_and, List.append_assoc, List.nil_append] at h
      obtain ⟨e1, e2⟩ := quoteChars_prefix _ _ _ _ _ _ hqa hqb h
      exact ⟨String.toList_inj.mp e1, e2⟩
    · cases hb
  · cases ha

theorem hashAllC_cons {e : Ty} {x : Payload} {xs : List Payload} {ca : List Char}
    (h : hashAllC e (x :: xs) = some ca) :
    ∃ hx mx, hashC e x = some hx ∧ hashAllC e xs = some mx ∧ ca = hx ++ ';' :: mx := by
  simp only [hashAllC] at h
  split at h
  · rename_i a b ha hb
    injection h with h
    exact ⟨a, b, ha, hb, h.symm⟩
  · cases h

theorem hashZipC_cons {t : Ty} {ts : List Ty} {x : Payload} {xs : List Payload} {ca : List Char}
    (h : hashZipC (t :: ts) (x :: xs) = some ca) :
    ∃ hx mx, hashC t x = some hx ∧ hashZipC ts xs = some mx ∧ ca = hx ++ ';' :: mx := by
  simp only [hashZipC] at h
  split at h
  · rename_i a b ha hb
    injection h with h
    exact ⟨a, b, ha, hb, h.symm⟩
  · cases h

theorem hashMapC_cons {e : Ty} {k : String} {ks : List String} {x : Payload} {xs : List Payload} {ca : List Char}
    (h : hashMapC e (k :: ks) (x :: xs) = some ca) :
    ∃ q hx mx, qC k = some q ∧ hashC e x = some hx ∧ hashMapC e ks xs = some mx ∧
      ca = q ++ ':' :: (hx ++ ';' :: mx) := by
  simp only [hashMapC] at h
  split at h
  · rename_i q a b hq ha hb
    injection h with h
    exact ⟨q, a, b, hq, ha, hb, h.symm⟩
  · cases h

mutual
/-- **the hash text, followed by `;`, determines the value up to `sameShape`** -/
theorem inj (ss : SetShapeRec) : ∀ (t : Ty) (a b : Payload), t.setFree = true → a.shaped t = true →
    b.shaped t = true → a.numTextsOk = true → b.numTextsOk = true → ∀ (ca cb r1 r2 : List Char),
    hashC t a = some ca → hashC t b = some cb → ca ++ ';' :: r1 = cb ++ ';' :: r2 →
    sameShape ss t a b = true ∧ r1 = r2
  | t, .marked _ a', b, hp, wa, wb, na, nb, ca, cb, r1, r2, ha, hb, h => by
    simp only [Payload.shaped, Bool.and_eq_true] at wa
    simp only [hashC] at ha
    simp only [sameShape]
    exact inj ss t a' b hp wa.2 wb (numTextsOk_marked na) nb ca cb r1 r2 ha hb h
  | _, .null, _, _, _, wb, _, nb, _, _, _, _, ha, hb, h => inj_nullunk ss (Or.inl rfl) wb nb ha hb h
  | _, .unk r, _, _, _, wb, _, nb, _, _, _, _, ha, hb, h => inj_nullunk ss (Or.inr ⟨r, rfl⟩) wb nb ha hb h
  | _, .b x, _, _, wa, wb, na, nb, _, _, _, _, ha, hb, h => inj_leaf ss (Or.inl ⟨x, rfl⟩) wa wb na nb ha hb h
  | _, .n x, _, _, wa, wb, na, nb, _, _, _, _, ha, hb, h =>
    inj_leaf ss (Or.inr (Or.inl ⟨x, rfl⟩)) wa wb na nb ha hb h
  | _, .s x, _, _, wa, wb, na, nb, _, _, _, _, ha, hb, h =>
    inj_leaf ss (Or.inr (Or.inr (Or.inl ⟨x, rfl⟩))) wa wb na nb ha hb h
  | _, .caps, _, _, wa, wb, na, nb, _, _, _, _, ha, hb, h =>
    inj_leaf ss (Or.inr (Or.inr (Or.inr rfl))) wa wb na nb ha hb h
  | _, .bad _, _, _, wa, _, _, _, _, _, _, _, _, _, _ => by simp [Payload.shaped] at wa
  | t, .sset _ _, _, hp, wa, _, _, _, _, _, _, _, _, _, _ => by
    cases t <;> simp [Payload.shaped] at wa
    simp [Ty.setFree] at hp
  | t, .seq xs, b, hp, wa, wb, na, nb, ca, cb, r1, r2, ha, hb, h => by
    rw [hashC_unmarked _ b] at hb
    obtain ⟨wb', mb'⟩ := shaped_unmarked wb
    have nb' := numTextsOk_unmarked nb
    have pb := proper_rhs wa rfl na ha wb' mb' hb h
    simp only [sameShape]
    generalize b.unmarked = b' at *
    cases t <;> simp [Payload.shaped] at wa
    case list e =>
      cases b' <;> simp [proper, Payload.shaped, Ty.isBool, Ty.isNumber, Ty.isString] at pb wb'
      rename_i ys
      simp only [Ty.setFree] at hp
      simp only [hashC, Option.map_eq_some_iff] at ha hb
      obtain ⟨ma, hma, rfl⟩ := ha
      obtain ⟨mb, hmb, rfl⟩ := hb
      simp only [List.cons_append, List.cons.injEq, true_and, List.append_assoc, List.nil_append] at h
      obtain ⟨hl, hs, hr⟩ := injAll ss e xs ys hp wa wb' (numTextsOk_seq na) (numTextsOk_seq nb') ma mb _ _ hma hmb h
      simp only [List.cons.injEq, true_and] at hr
      exact ⟨by simp [hl, hs], hr⟩
    case tuple ts =>
      cases b' <;> simp [proper, Payload.shaped, Ty.isBool, Ty.isNumber, Ty.isString] at pb wb'
      rename_i ys
      simp only [Ty.setFree] at hp
      simp only [hashC, Option.map_eq_some_iff] at ha hb
      obtain ⟨ma, hma, rfl⟩ := ha
      obtain ⟨mb, hmb, rfl⟩ := hb
      simp only [List.cons_append, List.cons.injEq, true_and, List.append_assoc, List.nil_append] at h
      obtain ⟨hs, hr⟩ := injZip ss ts xs ys hp wa wb' (numTextsOk_seq na) (numTextsOk_seq nb') ma mb _ _ hma hmb h
      simp only [List.cons.injEq, true_and] at hr
      exact ⟨hs, hr⟩
  | t, .smap kx xs, b, hp, wa, wb, na, nb, ca, cb, r1, r2, ha, hb, h => by
    rw [hashC_unmarked _ b] at hb
    obtain ⟨wb', mb'⟩ := shaped_unmarked wb
    have nb' := numTextsOk_unmarked nb
    have pb := proper_rhs wa rfl na ha wb' mb' hb h
    simp only [sameShape]
    generalize b.unmarked = b' at *
    cases t <;> simp [Payload.shaped] at wa
    case map e =>
      cases b' <;> simp [proper, Payload.shaped, Ty.isBool, Ty.isNumber, Ty.isString] at pb wb'
      rename_i ky ys
      simp only [Ty.setFree] at hp
      simp only [hashC, Option.map_eq_some_iff] at ha hb
      obtain ⟨ma, hma, rfl⟩ := ha
      obtain ⟨mb, hmb, rfl⟩ := hb
      simp only [List.cons_append, List.cons.injEq, true_and, List.append_assoc, List.nil_append] at h
      obtain ⟨hk, hl, hs, hr⟩ := injMap ss e xs ys kx ky hp wa.1.1 wb'.1.1 wa.2 wb'.2 (numTextsOk_smap na)
        (numTextsOk_smap nb') ma mb _ _ hma hmb h
      simp only [List.cons.injEq, true_and] at hr
      exact ⟨by simp [hk, hl, hs], hr⟩
    case object ns ts os =>
      cases b' <;> simp [proper, Payload.shaped, Ty.isBool, Ty.isNumber, Ty.isString] at pb wb'
      rename_i ky ys
      simp only [Ty.setFree] at hp
      simp only [hashC, Option.map_eq_some_iff] at ha hb
      obtain ⟨ma, hma, rfl⟩ := ha
      obtain ⟨mb, hmb, rfl⟩ := hb
      simp only [List.cons_append, List.cons.injEq, true_and, List.append_assoc, List.nil_append] at h
      obtain ⟨hs, hr⟩ := injZip ss ts xs ys hp wa.2 wb'.2 (numTextsOk_smap na) (numTextsOk_smap nb') ma mb _ _ hma hmb h
      simp only [List.cons.injEq, true_and] at hr
      exact ⟨hs, hr⟩
theorem injAll (ss : SetShapeRec) : ∀ (e : Ty) (xs ys : List Payload), e.setFree = true →
    Payload.shapedAll e xs = true → Payload.shapedAll e ys = true → numTextsOkL xs = true → numTextsOkL ys = true →
    ∀ (ca cb r1 r2 : List Char), hashAllC e xs = some ca → hashAllC e ys = some cb →
    ca ++ ']' :: r1 = cb ++ ']' :: r2 → xs.length = ys.length ∧ sameShapeAll ss e xs ys = true ∧ r1 = r2
  | e, [], [], _, _, _, _, _, ca, cb, r1, r2, ha, hb, h => by
    simp only [hashAllC, Option.some.injEq] at ha hb; subst ha; subst hb
    simp only [List.nil_append, List.cons.injEq, true_and] at h
    exact ⟨rfl, rfl, h⟩
  | e, [], y :: ys, _, _, wb, _, nb, ca, cb, r1, r2, ha, hb, h => by
    simp only [hashAllC, Option.some.injEq] at ha; subst ha
    obtain ⟨hy, my, hhy, _, rfl⟩ := hashAllC_cons hb
    simp only [Payload.shapedAll, Bool.and_eq_true] at wb
    obtain ⟨c, tl, rfl, hc, _⟩ := head_open wb.1 (numTextsOkL_cons nb).1 hhy
    simp only [List.nil_append, List.cons_append, List.cons.injEq] at h
    exact absurd h.1.symm hc
  | e, x :: xs, [], _, wa, _, na, _, ca, cb, r1, r2, ha, hb, h => by
    simp only [hashAllC, Option.some.injEq] at hb; subst hb
    obtain ⟨hx, mx, hhx, _, rfl⟩ := hashAllC_cons ha
    simp only [Payload.shapedAll, Bool.and_eq_true] at wa
    obtain ⟨c, tl, rfl, hc, _⟩ := head_open wa.1 (numTextsOkL_cons na).1 hhx
    simp only [List.nil_append, List.cons_append, List.cons.injEq] at h
    exact absurd h.1 hc
  | e, x :: xs, y :: ys, hp, wa, wb, na, nb, ca, cb, r1, r2, ha, hb, h => by
    obtain ⟨hx, mx, hhx, hmx, rfl⟩ := hashAllC_cons ha
    obtain ⟨hy, my, hhy, hmy, rfl⟩ := hashAllC_cons hb
    simp only [Payload.shapedAll, Bool.and_eq_true] at wa wb
    simp only [List.append_assoc, List.cons_append] at h
    obtain ⟨s1, hr⟩ := inj ss e x y hp wa.1 wb.1 (numTextsOkL_cons na).1 (numTextsOkL_cons nb).1 hx hy _ _ hhx hhy h
    obtain ⟨hl, s2, hr2⟩ := injAll ss e xs ys hp wa.2 wb.2 (numTextsOkL_cons na).2 (numTextsOkL_cons nb).2 mx my r1 r2
      hmx hmy hr
    exact ⟨by simp [hl], by simp [sameShapeAll, s1, s2], hr2⟩
theorem injZip (ss : SetShapeRec) : ∀ (ts : List Ty) (xs ys : List Payload), Ty.setFreeL ts = true →
    Payload.shapedZip ts xs = true → Payload.shapedZip ts ys = true → numTextsOkL xs = true → numTextsOkL ys = true →
    ∀ (ca cb r1 r2 : List Char), hashZipC ts xs = some ca → hashZipC ts ys = some cb →
    ca ++ '>' :: r1 = cb ++ '>' :: r2 → sameShapeZip ss ts xs ys = true ∧ r1 = r2
  | ts, [], ys, _, wa, wb, _, _, ca, cb, r1, r2, ha, hb, h => by
    cases ts <;> simp [Payload.shapedZip] at wa
    cases ys <;> simp [Payload.shapedZip] at wb
    simp only [hashZipC, Option.some.injEq] at ha hb; subst ha; subst hb
    simp only [List.nil_append, List.cons.injEq, true_and] at h
    exact ⟨by simp [sameShapeZip], h⟩
  | ts, x :: xs, ys, hp, wa, wb, na, nb, ca, cb, r1, r2, ha, hb, h => by
    cases ts <;> simp [Payload.shapedZip] at wa
    rename_i t ts
    cases ys <;> simp [Payload.shapedZip] at wb
    rename_i y ys
    simp only [Ty.setFreeL, Bool.and_eq_true] at hp
    obtain ⟨hx, mx, hhx, hmx, rfl⟩ := hashZipC_cons ha
    obtain ⟨hy, my, hhy, hmy, rfl⟩ := hashZipC_cons hb
    simp only [List.append_assoc, List.cons_append] at h
    obtain ⟨s1, hr⟩ := inj ss t x y hp.1 wa.1 wb.1 (numTextsOkL_cons na).1 (numTextsOkL_cons nb).1 hx hy _ _ hhx hhy h
    obtain ⟨s2, hr2⟩ := injZip ss ts xs ys hp.2 wa.2 wb.2 (numTextsOkL_cons na).2 (numTextsOkL_cons nb).2 mx my r1 r2
      hmx hmy hr
    exact ⟨by simp [sameShapeZip, s1, s2], hr2⟩
theorem injMap (ss : SetShapeRec) : ∀ (e : Ty) (xs ys : List Payload) (kx ky : List String), e.setFree = true →
    kx.length = xs.length → ky.length = ys.length →
    Payload.shapedAll e xs = true → Payload.shapedAll e ys = true → numTextsOkL xs = true → numTextsOkL ys = true →
    ∀ (ca cb r1 r2 : List Char), hashMapC e kx xs = some ca → hashMapC e ky ys = some cb →
    ca ++ '}' :: r1 = cb ++ '}' :: r2 →
    kx = ky ∧ xs.length = ys.length ∧ sameShapeAll ss e xs ys = true ∧ r1 = r2
  | e, [], [], kx, ky, _, lx, ly, _, _, _, _, ca, cb, r1, r2, ha, hb, h => by
    cases kx <;> simp at lx
    cases ky <;> simp at ly
    simp only [hashMapC, Option.some.injEq] at ha hb; subst ha; subst hb
    simp only [List.nil_append, List.cons.injEq, true_and] at h
    exact ⟨rfl, rfl, rfl, h⟩
  | e, [], y :: ys, kx, ky, _, lx, ly, _, _, _, _, ca, cb, r1, r2, ha, hb, h => by
    cases kx <;> simp at lx
    cases ky <;> simp at ly
    simp only [hashMapC, Option.some.injEq] at ha; subst ha
    obtain ⟨q, hy, my, hq, _, _, rfl⟩ := hashMapC_cons hb
    obtain ⟨tl, rfl⟩ := qC_head hq
    simp only [List.nil_append, List.cons_append, List.cons.injEq] at h
    exact absurd h.1 (by decide)
  | e, x :: xs, [], kx, ky, _, lx, ly, _, _, _, _, ca, cb, r1, r2, ha, hb, h => by
    cases kx <;> simp at lx
    cases ky <;> simp at ly
    simp only [hashMapC, Option.some.injEq] at hb; subst hb
    obtain ⟨q, hx, mx, hq, _, _, rfl⟩ := hashMapC_cons ha
    obtain ⟨tl, rfl⟩ := qC_head hq
    simp only [List.nil_append, List.cons_append, List.cons.injEq] at h
    exact absurd h.1 (by decide)
  | e, x :: xs, y :: ys, kx, ky, hp, lx, ly, wa, wb, na, nb, ca, cb, r1, r2, ha, hb, h => by
    cases kx <;> simp at lx
    rename_i k kx
    cases ky <;> simp at ly
    rename_i k' ky
    obtain ⟨q, hx, mx, hq, hhx, hmx, rfl⟩ := hashMapC_cons ha
    obtain ⟨q', hy, my, hq', hhy, hmy, rfl⟩ := hashMapC_cons hb
    simp only [Payload.shapedAll, Bool.and_eq_true] at wa wb
    simp only [List.append_assoc, List.cons_append] at h
    obtain ⟨ek, h⟩ := qC_prefix hq hq' h
    simp only [List.cons.injEq, true_and] at h
    obtain ⟨s1, hr⟩ := inj ss e x y hp wa.1 wb.1 (numTextsOkL_cons na).1 (numTextsOkL_cons nb).1 hx hy _ _ hhx hhy h
    obtain ⟨hk, hl, s2, hr2⟩ := injMap ss e xs ys kx ky hp lx ly wa.2 wb.2 (numTextsOkL_cons na).2
      (numTextsOkL_cons nb).2 mx my r1 r2 hmx hmy hr
    exact ⟨by rw [ek, hk], by simp [hl], by simp [sameShapeAll, s1, s2], hr2⟩
end

end D03b
end CtyModel

namespace CtyModel
namespace D03b
open Value

/-- **Injectivity of the hash text** (`appendSetHashBytes`, the function the
hash.bytes correspondence diffs), for any treatment `sh` of nested sets: on a
set-free type two well-formed values with the same hash text are `sameShape`. -/
theorem sameShape_of_hashS_eq (sh sh' : SetHashRec) (ss : SetShapeRec) {t : Ty} {a b : Payload} (hp : t.setFree = true)
    (wa : a.shaped t = true) (wb : b.shaped t = true) (na : a.numTextsOk = true) (nb : b.numTextsOk = true)
    {h : Bytes} (ha : hashS sh t a = .ok h) (hb : hashS sh' t b = .ok h) : sameShape ss t a b = true := by
  obtain ⟨ca, hca, e1⟩ := hashS_tie sh t a hp wa h ha
  obtain ⟨cb, hcb, e2⟩ := hashS_tie sh' t b hp wb h hb
  have : ca = cb := sb_inj (e1.symm.trans e2)
  subst this
  exact (inj ss t a b hp wa wb na nb ca ca [] [] hca hcb rfl).1

theorem hashBytesP_eq (t : Ty) (p : Payload) : hashBytesP t p = hashS (lvl p.depth).setHash t p := rfl

/-- …stated on `makeSetHashBytes` of two values of one type -/
theorem sameShape_of_hashBytes_eq {t : Ty} {a b : Payload} (hw : t.wf = true) (hp : t.setFree = true)
    (wa : a.shaped t = true) (wb : b.shaped t = true) (na : a.numTextsOk = true) (nb : b.numTextsOk = true)
    {h : Bytes} (ha : hashBytes ⟨t, a⟩ = .ok h) (hb : hashBytes ⟨t, b⟩ = .ok h) :
    Value.sameShape ⟨t, a⟩ ⟨t, b⟩ = true := by
  simp only [Value.sameShape, Ty.equals_self hw, sameShapeLvl, Bool.true_and]
  exact sameShape_of_hashS_eq _ _ _ hp wa wb na nb (by rw [← hashBytesP_eq]; exact ha) (by rw [← hashBytesP_eq]; exact hb)

end D03b
end CtyModel
