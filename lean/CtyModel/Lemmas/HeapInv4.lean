/-
C20 — the state invariant: heap in order, every value register library-owned
throughout, helper sets the caller holds are helper sets, walks hold scratch
buffers and library-owned nodes.  Generic rules for "allocate, then push".
-/
import CtyModel.Lemmas.HeapInv3
namespace CtyModel
namespace Heap

/-- what `walk` descends into are values whose storage is library-owned -/
theorem good_walkChildren {m0 m : Mem} (h : Good m0 m) {t v : Word} (ht : FrozenAll m t) (hv : FrozenAll m v) :
    Good2 m0 m (walkChildren m t v).1 ∧
      ∀ sc ∈ (walkChildren m t v).2, FrozenAll (walkChildren m t v).1 sc.1 ∧ FrozenAll (walkChildren m t v).1 sc.2 := by
  have hv' : FrozenAll m (unwrap v) := frozenAll_unwrap' hv
  generalize he : walkChildren m t v = r
  unfold walkChildren at he
  simp only [] at he
  have nil : ∀ {r : Mem × List (Word × Word)}, (m, []) = r →
      Good2 m0 m r.1 ∧ ∀ sc ∈ r.2, FrozenAll r.1 sc.1 ∧ FrozenAll r.1 sc.2 := by
    intro r e; subst e; exact ⟨Good2.refl h, fun sc hsc => by cases hsc⟩
  split at he
  · exact nil he
  · exact nil he
  · split at he
    · -- object: attribute steps
      split at he
      · rename_i m' kes hi
        subst he
        obtain ⟨h2, hk⟩ := good_iterElems h ht hv' hi
        refine ⟨h2, fun sc hsc => ?_⟩
        obtain ⟨ke, hke, e⟩ := List.mem_map.mp hsc
        subst e
        have := hk ke hke
        split
        · exact ⟨frozenAll_attr, this.2⟩
        · exact this
      · exact nil he
    · split at he
      · split at he
        · split at he
          · rename_i r' hi
            subst he
            obtain ⟨h2, hk⟩ := good_iterElems h ht hv' (kes := r'.2) hi
            exact ⟨h2, hk⟩
          · exact nil he
        · exact nil he
      · exact nil he
    · split at he
      · rename_i r' hi
        subst he
        obtain ⟨h2, hk⟩ := good_iterElems h ht hv' (kes := r'.2) hi
        exact ⟨h2, hk⟩
      · exact nil he

/-- a Go-data register the API depends on: a ValueSet / PathSet is a helper set;
a map register is not a bucket map -/
def GoOK (m : Mem) : Word → Prop
  | .pair t (.set a) => FrozenAll m t ∧ ∃ kvs, m[a]? = some ⟨.helper, .gomap kvs⟩
  | .set a => ∃ kvs, m[a]? = some ⟨.helper, .gomap kvs⟩
  | .map a => ∃ o : Obj, m[a]? = some o ∧ isSetOwner o.owner = false
  | _ => True

/-- a path of a running walk: nil or a slice over one of the walk's own buffers -/
def PathOK (m : Mem) (p : Word) : Prop :=
  p = .null ∨ ∃ arr off len cap cells, p = .slice arr off len cap ∧ m[arr]? = some ⟨.scratch, .array cells⟩

def WalkerOK (m : Mem) (wk : Walker) : Prop :=
  (∀ p n, wk.pending = some (p, n) → PathOK m p ∧ FrozenAll m n) ∧
  ∀ fr ∈ wk.frames, PathOK m fr.path ∧ ∀ sc ∈ fr.todo, FrozenAll m sc.1 ∧ FrozenAll m sc.2

/-- **the state invariant** -/
structure Inv (st : St) : Prop where
  heap : HeapOK st.mem
  vals : ∀ w ∈ st.vals, FrozenAll st.mem w
  gos : ∀ w ∈ st.gos, GoOK st.mem w
  wks : ∀ wk ∈ st.wks, WalkerOK st.mem wk

theorem inv_empty : Inv {} :=
  ⟨fun a o h => (by simp at h), fun w h => (by cases h), fun w h => (by cases h), fun w h => (by cases h)⟩

theorem goOK_stable {m m' : Mem} (hM : Mono m m') (hp : Preserves m m') {w : Word} (h : GoOK m w) : GoOK m' w := by
  cases w with
  | pair t v =>
    cases v with
    | set a =>
      obtain ⟨ht, kvs, hm⟩ := h
      exact ⟨frozenAll_stable hp ht, hM.keeps_gomap hm (by simp)⟩
    | _ => trivial
  | set a =>
    obtain ⟨kvs, hm⟩ := h
    exact hM.keeps_gomap hm (by simp)
  | map a =>
    obtain ⟨o, hm, hs⟩ := h
    obtain ⟨o', ho', _, hw⟩ := hM.2 a o hm
    refine ⟨o', ho', ?_⟩
    rcases hw with hw | ⟨_, hw⟩
    · rw [hw]; exact hs
    · rw [hw]; rfl
  | _ => trivial

theorem pathOK_stable {m m' : Mem} (hM : Mono m m') {p : Word} (h : PathOK m p) : PathOK m' p := by
  rcases h with h | ⟨arr, off, len, cap, cells, e, hm⟩
  · exact .inl h
  · obtain ⟨o', ho', how, hk⟩ := hM.keeps hm (by simp)
    rcases o' with ⟨ow, bd⟩
    simp only at how
    subst how
    cases bd <;> simp [sameKind] at hk
    exact .inr ⟨arr, off, len, cap, _, e, ho'⟩

theorem walkerOK_stable {m m' : Mem} (hM : Mono m m') (hp : Preserves m m') {wk : Walker}
    (h : WalkerOK m wk) : WalkerOK m' wk :=
  ⟨fun p n hpn => ⟨pathOK_stable hM (h.1 p n hpn).1, frozenAll_stable hp (h.1 p n hpn).2⟩,
   fun fr hfr => ⟨pathOK_stable hM (h.2 fr hfr).1,
     fun sc hsc => ⟨frozenAll_stable hp ((h.2 fr hfr).2 sc hsc).1, frozenAll_stable hp ((h.2 fr hfr).2 sc hsc).2⟩⟩⟩

/-- the general rule: a good heap change, new value registers library-owned
throughout, new Go-data registers in order -/
theorem inv_step {st : St} (hi : Inv st) {m' : Mem} (h : Good2 st.mem st.mem m')
    {nv ng : List Word} {outs : List (List Tok)}
    (hv : ∀ w ∈ nv, FrozenAll m' w) (hg : ∀ w ∈ ng, GoOK m' w) :
    Inv { mem := m', vals := st.vals ++ nv, gos := st.gos ++ ng, wks := st.wks, outs := outs } :=
  ⟨h.good.ok,
   fun w hw => by
    rcases List.mem_append.mp hw with hw | hw
    · exact frozenAll_stable h.pres (hi.vals w hw)
    · exact hv w hw,
   fun w hw => by
    rcases List.mem_append.mp hw with hw | hw
    · exact goOK_stable h.mono h.pres (hi.gos w hw)
    · exact hg w hw,
   fun wk hwk => walkerOK_stable h.mono h.pres (hi.wks wk hwk)⟩

theorem inv_pushVal {st : St} (hi : Inv st) {m' : Mem} (h : Good2 st.mem st.mem m') {t v : Word}
    (hv : FrozenAll m' (.pair t v)) : Inv ((st.withMem m').pushVal t v) :=
  inv_step (nv := [.pair t v]) (ng := []) hi h (fun w hw => by simp at hw; subst hw; exact hv) (fun w hw => by cases hw)
    |> fun x => by simpa [St.withMem, St.pushVal] using x

theorem inv_pushGo {st : St} (hi : Inv st) {m' : Mem} (h : Good2 st.mem st.mem m') {w : Word}
    (hg : GoOK m' w) : Inv ((st.withMem m').pushGo w) :=
  inv_step (nv := []) (ng := [w]) hi h (fun w hw => by cases hw) (fun w' hw => by simp at hw; subst hw; exact hg)
    |> fun x => by simpa [St.withMem, St.pushGo] using x

theorem inv_withMem {st : St} (hi : Inv st) {m' : Mem} (h : Good2 st.mem st.mem m') : Inv (st.withMem m') :=
  inv_step (nv := []) (ng := []) hi h (fun w hw => by cases hw) (fun w hw => by cases hw)
    |> fun x => by simpa [St.withMem] using x

theorem inv_pushOut {st : St} (hi : Inv st) (o : List Tok) : Inv (st.pushOut o) :=
  ⟨hi.heap, hi.vals, hi.gos, hi.wks⟩

theorem good2_self {st : St} (hi : Inv st) : Good2 st.mem st.mem st.mem := Good2.refl (Good.refl hi.heap)

theorem inv_pushVal' {st : St} (hi : Inv st) {t v : Word} (hv : FrozenAll st.mem (.pair t v)) :
    Inv (st.pushVal t v) := by
  have := inv_pushVal hi (good2_self hi) hv
  simpa [St.withMem] using this

theorem inv_pushGo' {st : St} (hi : Inv st) {w : Word} (hg : GoOK st.mem w) : Inv (st.pushGo w) := by
  have := inv_pushGo hi (good2_self hi) hg
  simpa [St.withMem] using this

theorem val_frozen {st : St} (hi : Inv st) {v : Nat} {t p : Word} (h : st.val v = some (t, p)) :
    FrozenAll st.mem t ∧ FrozenAll st.mem p := by
  unfold St.val at h
  split at h
  · rename_i t' p' hv
    cases h
    exact frozenAll_pair.mp (hi.vals _ (List.mem_of_getElem? hv))
  · simp at h

theorem vals_frozen {st : St} (hi : Inv st) {v : Nat} {w : Word} (h : st.vals[v]? = some w) :
    FrozenAll st.mem w := hi.vals _ (List.mem_of_getElem? h)

theorem go_ok {st : St} (hi : Inv st) {g : Nat} {w : Word} (h : st.go g = some w) : GoOK st.mem w :=
  hi.gos _ (List.mem_of_getElem? h)

theorem tySrc_frozen {st : St} (hi : Inv st) {t : TySrc} {w : Word} (h : tySrc st t = some w) :
    FrozenAll st.mem w := by
  cases t with
  | prim n => simp [tySrc] at h; subst h; exact frozenAll_tprim
  | ofVal v =>
    simp only [tySrc, Option.map_eq_some_iff] at h
    obtain ⟨p, hp, e⟩ := h
    subst e
    exact (val_frozen hi (t := p.1) (p := p.2) hp).1

/-- entries of a map register (not a bucket map) are library-owned throughout -/
theorem map_kvs_frozen {m : Mem} (hok : HeapOK m) {a : Addr} (hg : GoOK m (.map a))
    {kvs : List (Key × Word)} (hk : kvsOf m a = some kvs) : ∀ kv ∈ kvs, FrozenAll m kv.2 := by
  obtain ⟨o, hm, hs⟩ := hg
  unfold kvsOf at hk
  rcases o with ⟨ow, bd⟩
  cases bd <;> simp [hm] at hk
  subst hk
  have := hok a _ hm
  unfold ObjOK at this
  simp only at hs
  simpa [hs] using this

end Heap
end CtyModel
