/-
C20 (d20b) — the added entry points as steps: each extends the heap, writes no object
that existed (for ANY write set — so also none the caller owns), hands out only
objects it allocated; histories mixing them with the steps of `HeapOps`.
-/
import CtyModel.Lemmas.d20bExt
import CtyModel.Lemmas.HeapEscape
import CtyModel.Lemmas.HeapStep
namespace CtyModel
namespace Heap

theorem kvsOf_of_ext {m m' : Mem} (h : Ext NoW m m') {a : Addr} (ha : a < m.length) :
    kvsOf m' a = kvsOf m a := by
  unfold kvsOf
  rw [h.2 a ha (fun f => f)]

theorem pushPVM_mem : ∀ (l : List (Word × Word)) (st : St), (pushPVM st l).mem = st.mem := by
  intro l
  induction l with
  | nil => intro st; rfl
  | cons e r ih => intro st; rcases e with ⟨p, mk⟩; simp [pushPVM, ih, St.pushGo]

theorem pushPVM_vals : ∀ (l : List (Word × Word)) (st : St), (pushPVM st l).vals = st.vals := by
  intro l
  induction l with
  | nil => intro st; rfl
  | cons e r ih => intro st; rcases e with ⟨p, mk⟩; simp [pushPVM, ih, St.pushGo]

theorem pushPVM_gos : ∀ (l : List (Word × Word)) (st : St),
    (pushPVM st l).gos = st.gos ++ (l.map fun e => [e.1, e.2]).flatten := by
  intro l
  induction l with
  | nil => intro st; simp [pushPVM]
  | cons e r ih => intro st; rcases e with ⟨p, mk⟩; simp [pushPVM, ih, St.pushGo]

theorem setAddAll_length {eq : Equiv} {r : Addr} {xs : List Word} {hs : List Int} {m m' : Mem}
    (he : setAddAll eq m r xs hs = some m') : m.length ≤ m'.length :=
  (pres_setAddAll (W := fun _ => True) xs hs m m' (Ext.refl _ _)
    ⟨.inl trivial, fun _ _ _ _ _ _ _ _ _ => .inl trivial⟩ he).1.1

/-- `s.EachValue(rs.Add)` into a set whose storage may be written -/
theorem pres_valuesThenAddAll {W : Addr → Prop} {m0 m m' : Mem} {r a : Addr} {hs hs' : List Int}
    (h : Ext W m0 m) (hw : SetW W m0 m r) (hr : r < m.length)
    (he : valuesThenAddAll m r a hs = some (m', hs')) :
    Ext W m0 m' ∧ SetW W m0 m' r ∧ r < m'.length := by
  unfold valuesThenAddAll at he
  cases hv : setValuesGo m .caller a false [] with
  | none => simp [hv] at he
  | some p1 =>
    rcases p1 with ⟨m1, v⟩
    simp only [hv] at he
    cases hx : sliceElems m1 v with
    | none => simp [hx] at he
    | some xs =>
      simp only [hx, Option.map_eq_some_iff, Prod.mk.injEq] at he
      obtain ⟨m2, ha, e1, _⟩ := he
      subst e1
      have h1 := (pres_setValuesGo h hv).1
      have e1 := (pres_setValuesGo (W := NoW) (Ext.refl NoW m) hv).1
      have hw1 : SetW W m0 m1 r := setW_of_kvs_eq hw (kvsOf_of_ext e1 hr)
      obtain ⟨h2, hw2⟩ := pres_setAddAll xs _ m1 m2 h1 hw1 ha
      exact ⟨h2, hw2, Nat.lt_of_lt_of_le hr (Nat.le_trans e1.1 (setAddAll_length ha))⟩

theorem setNew_lt (m : Mem) (o : Owner) : (setNew m o).2 < (setNew m o).1.length := by
  simp [setNew, alloc]

/-- **every added entry point extends the heap and writes no object that existed** —
for every write set `W`, the empty one included -/
theorem stepXApi_ext {W : Addr → Prop} {st st' : St} {c : XApi} (h : stepXApi st c = some st') :
    Ext W st.mem st'.mem := by
  cases c with
  | vsValues g perm =>
    simp only [stepXApi] at h
    split at h
    · exact pres_collectValues h
    · cases h
  | valValues v perm =>
    simp only [stepXApi] at h
    split at h
    · exact pres_collectValues h
    · cases h
  | psList g =>
    simp only [stepXApi] at h
    split at h
    · exact pres_collectValues h
    · cases h
  | psValues g =>
    simp only [stepXApi] at h
    split at h
    · split at h
      · rename_i hv; cases h; exact (pres_setValuesGo (Ext.refl W _) hv).1
      · rename_i hv; cases h; exact (pres_setValuesGo (Ext.refl W _) hv).1
      · cases h
    · cases h
  | unify g =>
    simp only [stepXApi] at h
    split at h
    · simp only [Option.map_eq_some_iff] at h
      obtain ⟨r, hv, e⟩ := h
      subst e
      exact pres_unifyGo (m' := r.1) (ty := r.2) hv
    · cases h
  | unmarkDeepWithPaths v =>
    simp only [stepXApi] at h
    split at h
    · simp only [Option.map_eq_some_iff] at h
      obtain ⟨r, hv, e⟩ := h
      subst e
      rw [pushPVM_mem]
      exact (udw_good _ _ _ _ _ r (Ext.refl W _) hv).1
    · cases h
  | psUnion g hh hs =>
    simp only [stepXApi] at h
    split at h
    · split at h
      · cases h
      · rename_i m2 hs2 h1
        simp only [Option.map_eq_some_iff] at h
        obtain ⟨r4, h2, e⟩ := h
        subst e
        obtain ⟨g1, w1, l1⟩ := pres_valuesThenAddAll (W := W) (m0 := st.mem) (pres_alloc (Ext.refl W _) _ _)
          (setW_new (Ext.refl W _) _) (setNew_lt _ _) h1
        exact (pres_valuesThenAddAll (hs' := r4.2) (m' := r4.1) g1 w1 l1 h2).1
    · cases h
  | psSubtract g hh hs =>
    simp only [stepXApi] at h
    split at h
    · split at h
      · cases h
      · rename_i m1 v1 hv
        split at h
        · cases h
        · rename_i xs hx
          simp only [Option.map_eq_some_iff] at h
          obtain ⟨m2, hl, e⟩ := h
          subst e
          have h0 : Ext W st.mem (setNew st.mem .helper).1 := pres_alloc (Ext.refl W _) _ _
          have h1 := (pres_setValuesGo h0 hv).1
          have e1 := (pres_setValuesGo (W := NoW) (Ext.refl NoW _) hv).1
          have hw1 : SetW W st.mem m1 (setNew st.mem .helper).2 :=
            setW_of_kvs_eq (setW_new (Ext.refl W _) _) (kvsOf_of_ext e1 (setNew_lt _ _))
          exact (pres_subtractLoop xs hs m1 m2 h1 hw1 hl).1
    · cases h

theorem stepXApi_prefix {st st' : St} {c : XApi} (h : stepXApi st c = some st') : st.mem <+: st'.mem :=
  ext_prefix (stepXApi_ext h)

theorem collectValues_fresh {st st' : St} {a : Addr} {ordered : Bool} {perm : List Nat} {wrap : Word → Word}
    (he : collectValues st a ordered perm wrap = some st') :
    st'.vals = st.vals ∧ ∃ g, st'.gos = st.gos ++ [g] ∧ ∀ x, goRoot g = some x → st.mem.length ≤ x := by
  unfold collectValues at he
  cases hm : setMembers st.mem a with
  | none => simp [hm] at he
  | some xs =>
    simp only [hm] at he
    split at he
    · cases he; exact ⟨rfl, _, rfl, fun x hx => by simp [goRoot] at hx⟩
    · simp only [alloc] at he
      split at he
      · cases he
      · split at he
        · cases he
        · cases he
          exact ⟨rfl, _, rfl, fun x hx => by simp only [goRoot, Option.some.injEq] at hx; exact Nat.le_of_eq hx⟩

/-- **what the added entry points hand out is fresh**: the Go object directly behind
every Go-data register they create (slice of values / paths, recorded path, recorded
mark set, result set) was allocated by that very call -/
theorem stepXApi_fresh {st st' : St} {c : XApi} (h : stepXApi st c = some st') :
    ∀ g ∈ st'.gos.drop st.gos.length, ∀ a, goRoot g = some a → st.mem.length ≤ a := by
  cases c with
  | vsValues g perm =>
    simp only [stepXApi] at h
    split at h
    · obtain ⟨_, g', hg, hf⟩ := collectValues_fresh h
      intro g hgm; simp only [hg, List.drop_left, List.mem_singleton] at hgm; subst hgm; exact hf
    · cases h
  | valValues v perm =>
    simp only [stepXApi] at h
    split at h
    · obtain ⟨_, g', hg, hf⟩ := collectValues_fresh h
      intro g hgm; simp only [hg, List.drop_left, List.mem_singleton] at hgm; subst hgm; exact hf
    · cases h
  | psList g =>
    simp only [stepXApi] at h
    split at h
    · obtain ⟨_, g', hg, hf⟩ := collectValues_fresh h
      intro g hgm; simp only [hg, List.drop_left, List.mem_singleton] at hgm; subst hgm; exact hf
    · cases h
  | psValues g =>
    simp only [stepXApi] at h
    split at h
    · split at h
      · rename_i hv
        cases h
        intro g hgm a ha
        simp only [St.pushGo, St.withMem, List.drop_left, List.mem_singleton] at hgm
        subst hgm
        simp only [goRoot, Option.some.injEq] at ha
        exact ha ▸ setValuesGo_fresh hv _ _ _ _ rfl
      · cases h
        intro g hgm a ha
        simp only [St.pushGo, St.withMem, List.drop_left, List.mem_singleton] at hgm
        subst hgm
        simp [goRoot] at ha
      · cases h
    · cases h
  | unify g =>
    simp only [stepXApi] at h
    split at h
    · simp only [Option.map_eq_some_iff] at h
      obtain ⟨r, hv, e⟩ := h
      subst e
      intro g hgm
      simp [St.pushVal, St.withMem] at hgm
    · cases h
  | unmarkDeepWithPaths v =>
    simp only [stepXApi] at h
    split at h
    · simp only [Option.map_eq_some_iff] at h
      obtain ⟨r, hv, e⟩ := h
      subst e
      have hg := (udw_good (W := NoW) _ _ _ _ _ r (Ext.refl NoW _) hv).2
      intro g hgm a ha
      simp only [pushPVM_gos, List.drop_left, List.mem_flatten, List.mem_map] at hgm
      obtain ⟨l, ⟨e, he, hl⟩, hgl⟩ := hgm
      subst hl
      obtain ⟨⟨pa, off, len, cap, e1, h1⟩, mk, e2, h2⟩ := hg e he
      simp only [List.mem_cons, List.not_mem_nil, or_false] at hgl
      rcases hgl with hgl | hgl
      · subst hgl; rw [e1] at ha; simp only [goRoot, Option.some.injEq] at ha; exact ha ▸ h1
      · subst hgl; rw [e2] at ha; simp only [goRoot, Option.some.injEq] at ha; exact ha ▸ h2
    · cases h
  | psUnion g hh hs =>
    simp only [stepXApi] at h
    split at h
    · split at h
      · cases h
      · simp only [Option.map_eq_some_iff] at h
        obtain ⟨r4, _, e⟩ := h
        subst e
        intro g hgm a ha
        simp only [St.pushGo, St.withMem, List.drop_left, List.mem_singleton] at hgm
        subst hgm
        simp only [goRoot, Option.some.injEq, setNew, alloc_snd] at ha
        exact Nat.le_of_eq ha
    · cases h
  | psSubtract g hh hs =>
    simp only [stepXApi] at h
    split at h
    · split at h
      · cases h
      · split at h
        · cases h
        · simp only [Option.map_eq_some_iff] at h
          obtain ⟨m2, _, e⟩ := h
          subst e
          intro g hgm a ha
          simp only [St.pushGo, St.withMem, List.drop_left, List.mem_singleton] at hgm
          subst hgm
          simp only [goRoot, Option.some.injEq, setNew, alloc_snd] at ha
          exact Nat.le_of_eq ha
    · cases h

/-! ### histories -/

theorem stepX_preserves {st st' : St} {op : XOp} (hr : respectfulX st op = true)
    (h : stepX st op = some st') : Preserves st.mem st'.mem := by
  cases op with
  | base o => exact step_preserves hr h
  | x c => exact ext_noW_preserves (stepXApi_ext h)

theorem runX_preserves : ∀ (ops : List XOp) (st : St), respectfulRunX st ops = true →
    Preserves st.mem (runX st ops).mem := by
  intro ops
  induction ops with
  | nil => intro st _; exact Preserves.refl _
  | cons op ops ih =>
    intro st hr
    simp only [respectfulRunX, Bool.and_eq_true] at hr
    simp only [runX]
    cases hs : stepX st op with
    | none => simp only [hs, Option.getD_none] at hr ⊢; exact ih st hr.2
    | some st1 =>
      simp only [hs, Option.getD_some] at hr ⊢
      exact (stepX_preserves hr.1 hs).trans (ih st1 hr.2)

theorem runXStrict_runX : ∀ (ops : List XOp) (st st' : St), runXStrict st ops = some st' → runX st ops = st' := by
  intro ops
  induction ops with
  | nil => intro st st' h; simp only [runXStrict, Option.some.injEq] at h; simp [runX, h]
  | cons op ops ih =>
    intro st st' h
    simp only [runXStrict] at h
    cases hs : stepX st op with
    | none => simp [hs] at h
    | some st1 =>
      simp only [hs, Option.bind_some] at h
      simp only [runX, hs, Option.getD_some]
      exact ih st1 st' h

end Heap
end CtyModel
