/-
The REGENERATED-MODEL tie for C07: the definitions that `extract/translate.go`
regenerates from go-cty's source on every check (`Generated/TyFns.lean`) compute
what the hand-written model (`Ty.equals`, `Ty.conformErrs`, `Ty.hasDyn`,
`Ty.stripOpt`) computes, never panic and never run out of recursion fuel.
Every C07 theorem therefore holds of the translated source text.

The proofs unfold the generated definitions with `simp` and close the residue by
the induction hypotheses, so a refactoring of the Go code inside the translated
fragment that preserves the meaning still goes through, while a change of
meaning (or of the hand-written model) makes this file fail to build.
-/
import CtyModel.Generated.TyFns
import CtyModel.Lemmas.TyMisc
set_option linter.unusedSimpArgs false
namespace CtyModel
namespace TyFnsTie
open Ty Generated.TyFns

/-! ### fuel -/
theorem sizeL_mem {t : Ty} : ∀ {ts : List Ty}, t ∈ ts → TyGo.size t ≤ TyGo.sizeL ts
  | [], h => by simp at h
  | u :: us, h => by
    rcases List.mem_cons.mp h with rfl | h
    · simp [TyGo.sizeL]
    · have := sizeL_mem h; simp [TyGo.sizeL]; omega

/-! ### `Type.HasDynamicTypes` -/

/-- both attribute/element loops of `HasDynamicTypes`: "is there an element for which the recursion says yes" -/
theorem hasDyn_loop1 (self : Ty → Res Bool) : ∀ ts : List Ty, (∀ t ∈ ts, self t = .ok (hasDyn t)) →
    Type_HasDynamicTypes_loop1 self ts = .ok (hasDynL ts)
  | [], _ => by simp [Type_HasDynamicTypes_loop1, hasDynL]
  | t :: ts, h => by
    have ih := hasDyn_loop1 self ts (fun u hu => h u (by simp [hu]))
    simp [Type_HasDynamicTypes_loop1, hasDynL, h t (by simp), Res.bind, ih]
    cases hasDyn t <;> simp

theorem hasDyn_loop2 (self : Ty → Res Bool) : ∀ ts : List Ty, (∀ t ∈ ts, self t = .ok (hasDyn t)) →
    Type_HasDynamicTypes_loop2 self ts = .ok (hasDynL ts)
  | [], _ => by simp [Type_HasDynamicTypes_loop2, hasDynL]
  | t :: ts, h => by
    have ih := hasDyn_loop2 self ts (fun u hu => h u (by simp [hu]))
    simp [Type_HasDynamicTypes_loop2, hasDynL, h t (by simp), Res.bind, ih]
    cases hasDyn t <;> simp

theorem hasDyn_fuel : ∀ (n : Nat) (t : Ty), TyGo.size t < n →
    Type_HasDynamicTypes_fuel n t = .ok (hasDyn t)
  | 0, _, h => by omega
  | n + 1, t, h => by
    have ihL : ∀ ts : List Ty, TyGo.sizeL ts < n → ∀ u ∈ ts, Type_HasDynamicTypes_fuel n u = .ok (hasDyn u) :=
      fun ts hs u hu => hasDyn_fuel n u (by have := sizeL_mem hu; omega)
    cases t <;>
      simp [Type_HasDynamicTypes_fuel, Type_IsPrimitiveType, Type_IsObjectType, Type_IsTupleType, Type_IsCapsuleType,
        Type_AttributeTypes, Type_TupleElementTypes, TyGo.isCollectionType, TyGo.elementType, Ty.isDyn, Res.bind, hasDyn,
        TyGo.size] at h ⊢
    all_goals first
      | exact hasDyn_fuel n _ (by omega)
      | exact hasDyn_loop1 _ _ (ihL _ (by omega))
      | exact hasDyn_loop2 _ _ (ihL _ (by omega))

theorem hasDynamicTypes_eq (t : Ty) : hasDynamicTypes t = .ok (hasDyn t) :=
  hasDyn_fuel _ t (by omega)

/-! ### `Type.WithoutOptionalAttributesDeep` -/

@[simp] theorem rbind_ok {α β} (a : α) (f : α → Res β) : Res.bind (.ok a) f = f a := rfl

theorem sliceDone_some : ∀ ts : List Ty, TyGo.sliceDone (ts.map some) = .ok ts
  | [] => rfl
  | t :: ts => by simp [TyGo.sliceDone, sliceDone_some ts]

theorem wfL_mem {t : Ty} : ∀ {ts : List Ty}, wfL ts = true → t ∈ ts → wf t = true
  | [], _, h => by simp at h
  | u :: us, hw, h => by
    simp only [wfL, Bool.and_eq_true] at hw
    rcases List.mem_cons.mp h with rfl | h
    · exact hw.1
    · exact wfL_mem hw.2 h

/-- the tuple loop: element `i` of the fresh slice receives the stripped `i`-th element type -/
theorem strip_loop1 (self : Ty → Res Ty) : ∀ (es done : List Ty), (∀ e ∈ es, self e = .ok (stripOpt e)) →
    Type_WithoutOptionalAttributesDeep_loop1 self (done.map some ++ List.replicate es.length none) done.length es
      = .ok (.tuple (done ++ stripOptL es))
  | [], done, _ => by simp [Type_WithoutOptionalAttributesDeep_loop1, stripOptL, sliceDone_some]
  | e :: es, done, h => by
    have ih := strip_loop1 self es (done ++ [stripOpt e]) (fun u hu => h u (by simp [hu]))
    simp [Type_WithoutOptionalAttributesDeep_loop1, stripOptL, h e (by simp), TyGo.sliceSet, List.replicate_succ] at ih ⊢
    exact ih

theorem mapInsert_last (k : String) (v : Ty) : ∀ (ks : List String) (vs : List Ty), ks.length = vs.length →
    (∀ x ∈ ks, x < k) → TyGo.mapInsert k v ks vs = (ks ++ [k], vs ++ [v])
  | [], [], _, _ => by simp [TyGo.mapInsert]
  | [], _ :: _, h, _ => by simp at h
  | _ :: _, [], h, _ => by simp at h
  | n :: ks, t :: vs, hl, hlt => by
    have h1 : n < k := hlt n (by simp)
    have h2 : ¬ k = n := fun e => String.lt_irrefl _ (e ▸ h1)
    have h3 : ¬ k < n := fun e => String.lt_irrefl _ (String.lt_trans e h1)
    simp [TyGo.mapInsert, h2, h3, mapInsert_last k v ks vs (by simpa using hl) (fun x hx => hlt x (by simp [hx]))]

/-- the object loop: inserting the attributes in ascending key order rebuilds the same key list -/
theorem strip_loop2 (self : Ty → Res Ty) : ∀ (ns : List String) (ts : List Ty) (ks : List String) (vs : List Ty),
    ns.length = ts.length → ks.length = vs.length → strictAsc ns = true → (∀ x ∈ ks, ∀ y ∈ ns, x < y) →
    (∀ t ∈ ts, self t = .ok (stripOpt t)) →
    Type_WithoutOptionalAttributesDeep_loop2 self ks vs ns ts = .ok (TyGo.mkObject (ks ++ ns) (vs ++ stripOptL ts))
  | [], [], ks, vs, _, _, _, _, _ => by simp [Type_WithoutOptionalAttributesDeep_loop2, stripOptL]
  | [], _ :: _, _, _, h, _, _, _, _ => by simp at h
  | _ :: _, [], _, _, h, _, _, _, _ => by simp at h
  | n :: ns, t :: ts, ks, vs, hl, hk, ha, hlt, h => by
    have ⟨ha', hn⟩ := strictAsc_cons ha
    have ih := strip_loop2 self ns ts (ks ++ [n]) (vs ++ [stripOpt t]) (by simpa using hl) (by simp [hk]) ha'
      (by
        intro x hx y hy
        rcases List.mem_append.mp hx with hx | hx
        · exact hlt x hx y (by simp [hy])
        · simp at hx; exact hx ▸ hn y hy)
      (fun u hu => h u (by simp [hu]))
    simp [Type_WithoutOptionalAttributesDeep_loop2, stripOptL, h t (by simp),
      mapInsert_last n (stripOpt t) ks vs hk (fun x hx => hlt x hx n (by simp))] at ih ⊢
    exact ih

theorem map_false_eq {α β : Type} : ∀ (xs : List α) (ys : List β), xs.length = ys.length →
    xs.map (fun _ => false) = ys.map (fun _ => false)
  | [], [], _ => rfl
  | [], _ :: _, h => by simp at h
  | _ :: _, [], h => by simp at h
  | _ :: xs, _ :: ys, h => by simp [map_false_eq xs ys (by simpa using h)]

theorem strip_fuel : ∀ (n : Nat) (t : Ty), wf t = true → TyGo.size t < n →
    Type_WithoutOptionalAttributesDeep_fuel n t = .ok (stripOpt t)
  | 0, _, _, h => by omega
  | n + 1, t, hw, h => by
    have ihL : ∀ ts : List Ty, wfL ts = true → TyGo.sizeL ts < n →
        ∀ u ∈ ts, Type_WithoutOptionalAttributesDeep_fuel n u = .ok (stripOpt u) :=
      fun ts hws hs u hu => strip_fuel n u (wfL_mem hws hu) (by have := sizeL_mem hu; omega)
    cases t <;>
      simp [Type_WithoutOptionalAttributesDeep_fuel, Type_IsPrimitiveType, Type_IsObjectType, Type_IsTupleType,
        Type_IsCapsuleType, Type_IsMapType, Type_IsListType, Type_IsSetType,
        Type_AttributeTypes, Type_TupleElementTypes, TyGo.isCollectionType, TyGo.elementType, Ty.isDyn, stripOpt,
        TyGo.size, wf] at h hw ⊢
    case list e => simp [strip_fuel n e hw (by omega)]
    case set e => simp [strip_fuel n e hw (by omega)]
    case map e => simp [strip_fuel n e hw (by omega)]
    case tuple es =>
      have := strip_loop1 _ es [] (ihL es hw (by omega))
      simpa [TyGo.sliceMake] using this
    case object ns ts os =>
      have := strip_loop2 _ ns ts [] [] (by simp [hw]) rfl hw.1.2 (by simp) (ihL ts hw.2 (by omega))
      simpa [TyGo.mkObject, map_false_eq ns os (by simp [hw])] using this

mutual
theorem stripOpt_wf : ∀ t : Ty, wf t = true → wf (stripOpt t) = true
  | .bool, _ | .number, _ | .string, _ | .dyn, _ | .capsule _, _ => by simp [stripOpt, wf]
  | .list e, h | .set e, h | .map e, h => by
    simp only [wf] at h; simp [stripOpt, wf, stripOpt_wf e h]
  | .tuple es, h => by simp only [wf] at h; simp [stripOpt, wf, stripOptL_wf es h]
  | .object ns ts os, h => by
    simp only [wf, Bool.and_eq_true] at h
    simp [stripOpt, wf, stripOptL_wf ts h.2, stripOptL_length, h.1.1.1, h.1.1.2, h.1.2]
theorem stripOptL_wf : ∀ ts : List Ty, wfL ts = true → wfL (stripOptL ts) = true
  | [], _ => rfl
  | t :: ts, h => by
    simp only [wfL, Bool.and_eq_true] at h
    simp [stripOptL, wfL, stripOpt_wf t h.1, stripOptL_wf ts h.2]
end

theorem withoutOptionalAttributesDeep_eq (t : Ty) (hw : wf t = true) :
    withoutOptionalAttributesDeep t = .ok (stripOpt t) :=
  strip_fuel _ t hw (by omega)

/-! ### `Type.Equals` and the per-kind `Equals` methods

The Go methods call `oty.Equals(ty)` with receiver and argument exchanged at
every level; the translation keeps that, the hand-written model does not, and
the two agree because `Ty.equals` is symmetric on well-formed types. -/

theorem equals_comm (a b : Ty) (ha : wf a = true) (hb : wf b = true) : Ty.equals a b = Ty.equals b a := by
  rw [Bool.eq_iff_iff, equals_iff_eq a b ha hb, equals_iff_eq b a hb ha]
  exact eq_comm

theorem mapLookup_mem {k : String} {u : Ty} : ∀ {ns : List String} {ts : List Ty},
    TyGo.mapLookup k ns ts = some u → u ∈ ts
  | [], _, h => by simp [TyGo.mapLookup] at h
  | _ :: _, [], h => by simp [TyGo.mapLookup] at h
  | n :: ns, t :: ts, h => by
    simp only [TyGo.mapLookup] at h
    split at h
    · simp at h; simp [h]
    · exact List.mem_cons_of_mem _ (mapLookup_mem h)

/-- the model's combined lookup is the Go lookup in `AttrTypes` together with membership in `AttrOptional` -/
theorem find_eq (k : String) : ∀ (ns : List String) (ts : List Ty) (os : List Bool),
    ns.length = ts.length → os.length = ts.length →
    find k ns ts os = (TyGo.mapLookup k ns ts).map fun t => (t, TyGo.setMem k ns os)
  | [], [], [], _, _ => by simp [find, TyGo.mapLookup]
  | n :: ns, t :: ts, o :: os, h1, h2 => by
    simp only [find, TyGo.mapLookup, TyGo.setMem]
    split
    · simp
    · exact find_eq k ns ts os (by simpa using h1) (by simpa using h2)
  | [], _ :: _, _, h, _ => by simp at h
  | _ :: _, [], _, h, _ => by simp at h
  | [], [], _ :: _, _, h => by simp at h
  | _ :: _, _ :: _, [], _, h => by simp at h

/-- on distinct keys, membership of the `i`-th key in the optional set is the `i`-th flag -/
theorem setMem_zip : ∀ (ns : List String) (os : List Bool), ns.Nodup →
    ∀ p ∈ ns.zip os, TyGo.setMem p.1 ns os = p.2
  | [], _, _, p, h => by simp at h
  | _ :: _, [], _, p, h => by simp at h
  | n :: ns, o :: os, hn, p, h => by
    have ⟨hnn, hn'⟩ := List.nodup_cons.mp hn
    simp only [List.zip_cons_cons, List.mem_cons] at h
    rcases h with rfl | h
    · simp [TyGo.setMem]
    · have hp : p.1 ∈ ns := (List.of_mem_zip (a := p.1) (b := p.2) h).1
      have : ¬ n = p.1 := fun e => hnn (e ▸ hp)
      simp [TyGo.setMem, this, setMem_zip ns os hn' p h]

theorem equals_loopObj (self : Ty → Ty → Res Bool) (tn : List String) (to : List Bool)
    (on : List String) (ot : List Ty) (oo : List Bool) (ho : on.length = ot.length) (ho' : oo.length = ot.length) :
    ∀ (ks : List String) (ts : List Ty) (os : List Bool), ks.length = ts.length → os.length = ts.length →
    (∀ p ∈ ks.zip os, TyGo.setMem p.1 tn to = p.2) →
    (∀ t ∈ ts, ∀ u ∈ ot, self u t = .ok (Ty.equals t u)) →
    typeObject_Equals_loop1 self tn to on ot oo ks ts = .ok (equalsFields ks ts os on ot oo)
  | [], [], [], _, _, _, _ => by simp [typeObject_Equals_loop1, equalsFields]
  | k :: ks, t :: ts, o :: os, h1, h2, hz, hs => by
    have ih := equals_loopObj self tn to on ot oo ho ho' ks ts os (by simpa using h1) (by simpa using h2)
      (fun p hp => hz p (by simp [hp])) (fun t' ht' => hs t' (by simp [ht']))
    have hk : TyGo.setMem k tn to = o := hz (k, o) (by simp)
    simp only [typeObject_Equals_loop1, equalsFields, find_eq k on ot oo ho ho']
    cases hl : TyGo.mapLookup k on ot with
    | none => simp
    | some u =>
      simp [hs t (by simp) u (mapLookup_mem hl), hk, ih]
      cases Ty.equals t u <;> cases o <;> cases TyGo.setMem k on oo <;> simp
  | [], _ :: _, _, h, _, _, _ => by simp at h
  | _ :: _, [], _, h, _, _, _ => by simp at h
  | [], [], _ :: _, _, h, _, _ => by simp at h
  | _ :: _, _ :: _, [], _, h, _, _ => by simp at h

theorem equals_loopTup (self : Ty → Ty → Res Bool) (oes : List Ty) :
    ∀ (ts bs pre : List Ty), oes = pre ++ bs → ts.length = bs.length →
    (∀ t ∈ ts, ∀ u ∈ bs, self u t = .ok (Ty.equals t u)) →
    typeTuple_Equals_loop1 self oes pre.length ts = .ok (equalsZip ts bs)
  | [], [], _, _, _, _ => by simp [typeTuple_Equals_loop1, equalsZip]
  | t :: ts, b :: bs, pre, he, hl, hs => by
    have ih := equals_loopTup self oes ts bs (pre ++ [b]) (by simp [he]) (by simpa using hl)
      (fun t' ht' u hu => hs t' (by simp [ht']) u (by simp [hu]))
    have hg : TyGo.sliceGet oes pre.length = .ok b := by simp [TyGo.sliceGet, he]
    simp [typeTuple_Equals_loop1, equalsZip, hg, hs t (by simp) b (by simp)] at ih ⊢
    cases Ty.equals t b <;> simp [ih]
  | [], _ :: _, _, _, h, _ => by simp at h
  | _ :: _, [], _, _, h, _ => by simp at h

theorem equals_fuel : ∀ (n : Nat) (a b : Ty), wf a = true → wf b = true → TyGo.size a + TyGo.size b < n →
    Type_Equals_fuel n a b = .ok (Ty.equals a b)
  | 0, _, _, _, _, h => by omega
  | n + 1, a, b, ha, hb, h => by
    have ihL : ∀ ts us : List Ty, wfL ts = true → wfL us = true → TyGo.sizeL ts + TyGo.sizeL us < n →
        ∀ t ∈ ts, ∀ u ∈ us, Type_Equals_fuel n u t = .ok (Ty.equals t u) := by
      intro ts us hts hus hs t ht u hu
      have h1 := sizeL_mem ht
      have h2 := sizeL_mem hu
      rw [equals_fuel n u t (wfL_mem hus hu) (wfL_mem hts ht) (by omega)]
      rw [equals_comm u t (wfL_mem hus hu) (wfL_mem hts ht)]
    cases a <;> cases b <;>
      simp [Type_Equals_fuel, primitiveType_Equals, pseudoTypeDynamic_Equals, typeList_Equals, typeSet_Equals,
        typeMap_Equals, typeTuple_Equals, typeObject_Equals, capsuleType_Equals, Ty.equals, TyGo.size, wf] at h ha hb ⊢
    case list.list e e' => exact equals_fuel n e e' ha hb (by omega)
    case set.set e e' => exact equals_fuel n e e' ha hb (by omega)
    case map.map e e' => exact equals_fuel n e e' ha hb (by omega)
    case capsule.capsule i j => first | rfl | (rw [Bool.eq_iff_iff, beq_iff_eq, beq_iff_eq]; exact eq_comm)
    case tuple.tuple as bs =>
      by_cases hl : as.length = bs.length
      · have := equals_loopTup (Type_Equals_fuel n) bs as bs [] rfl hl (ihL as bs ha hb (by omega))
        simpa [hl] using this
      · simp [hl]
    case object.object n1 t1 o1 n2 t2 o2 =>
      obtain ⟨⟨⟨l1, l1'⟩, a1⟩, w1⟩ := ha
      obtain ⟨⟨⟨l2, l2'⟩, a2⟩, w2⟩ := hb
      by_cases hl : n1.length = n2.length
      · have := equals_loopObj (Type_Equals_fuel n) n1 o1 n2 t2 o2 l2 l2' n1 t1 o1 l1 l1'
          (setMem_zip n1 o1 (strictAsc_nodup a1)) (ihL t1 t2 w1 w2 (by omega))
        simp [hl, this, show t1.length = t2.length by omega]
      · simp [hl, show ¬ t1.length = t2.length by omega]

theorem equals_eq (a b : Ty) (ha : wf a = true) (hb : wf b = true) :
    Generated.TyFns.equals a b = .ok (Ty.equals a b) :=
  equals_fuel _ a b ha hb (by omega)

theorem typeEquals_eq (a b : Ty) (ha : wf a = true) (hb : wf b = true) : Type_Equals a b = .ok (Ty.equals a b) :=
  equals_eq a b ha hb

/-! ### `testConformance` (the number of errors it appends) -/

theorem mapHas_eq_contains (k : String) : ∀ (ns : List String) (ts : List Ty), ns.length = ts.length →
    TyGo.mapHas k ns ts = ns.contains k
  | [], [], _ => by simp [TyGo.mapHas, TyGo.mapLookup]
  | n :: ns, t :: ts, h => by
    have ih := mapHas_eq_contains k ns ts (by simpa using h)
    simp only [TyGo.mapHas, TyGo.mapLookup] at ih ⊢
    by_cases hk : n = k
    · simp [hk]
    · have : ¬ k = n := fun e => hk e.symm
      simp [hk, this, ih]
  | [], _ :: _, h => by simp at h
  | _ :: _, [], h => by simp at h

/-- third object loop: recurse into the attributes present on both sides -/
theorem conform_loop3 (self : Ty → Ty → Nat → Res Nat) (gn : List String) (gt : List Ty) (go : List Bool)
    (hg : gn.length = gt.length) (hg' : go.length = gt.length) :
    ∀ (ks : List String) (ws : List Ty) (e : Nat),
    (∀ w ∈ ws, ∀ g ∈ gt, ∀ e, self g w e = .ok (e + Ty.conformErrs w g)) →
    testConformance_loop3 self (gn, gt) e ks ws = .ok (e + conformFields ks ws gn gt go)
  | [], _, e, _ => by simp [testConformance_loop3, conformFields]
  | _ :: _, [], e, _ => by simp [testConformance_loop3, conformFields]
  | k :: ks, w :: ws, e, hs => by
    have ih := fun e => conform_loop3 self gn gt go hg hg' ks ws e (fun w' hw' => hs w' (by simp [hw']))
    simp only [testConformance_loop3, conformFields, find_eq k gn gt go hg hg']
    cases hl : TyGo.mapLookup k gn gt with
    | none => simp [ih]
    | some g => simp [hs w (by simp) g (mapLookup_mem hl), ih, Nat.add_assoc]

/-- second object loop: one error per attribute of `want` that `given` lacks -/
theorem conform_loop2 (self : Ty → Ty → Nat → Res Nat) (G W : List String × List Ty) (hG : G.1.length = G.2.length) :
    ∀ (ks : List String) (e : Nat),
    testConformance_loop2 self G W e ks = testConformance_loop3 self G (e + countMissing ks G.1) W.1 W.2
  | [], e => by simp [testConformance_loop2, countMissing]
  | k :: ks, e => by
    have ih := fun e => conform_loop2 self G W hG ks e
    simp only [testConformance_loop2, mapHas_eq_contains k G.1 G.2 hG, countMissing, List.filter_cons] at ih ⊢
    cases G.1.contains k <;> simp [ih, Nat.add_assoc, Nat.add_comm 1]

/-- first object loop: one error per attribute of `given` that `want` does not have -/
theorem conform_loop1 (self : Ty → Ty → Nat → Res Nat) (G W : List String × List Ty) (hW : W.1.length = W.2.length) :
    ∀ (ks : List String) (e : Nat),
    testConformance_loop1 self G W e ks = testConformance_loop2 self G W (e + countMissing ks W.1) W.1
  | [], e => by simp [testConformance_loop1, countMissing]
  | k :: ks, e => by
    have ih := fun e => conform_loop1 self G W hW ks e
    simp only [testConformance_loop1, mapHas_eq_contains k W.1 W.2 hW, countMissing, List.filter_cons] at ih ⊢
    cases W.1.contains k <;> simp [ih, Nat.add_assoc, Nat.add_comm 1]

theorem conform_loopTup (self : Ty → Ty → Nat → Res Nat) (ges : List Ty) :
    ∀ (ws gs pre : List Ty) (e : Nat), ges = pre ++ gs → ws.length = gs.length →
    (∀ w ∈ ws, ∀ g ∈ gs, ∀ e, self g w e = .ok (e + Ty.conformErrs w g)) →
    testConformance_loop4 self ges e pre.length ws = .ok (e + conformZip ws gs)
  | [], [], _, e, _, _, _ => by simp [testConformance_loop4, conformZip]
  | w :: ws, g :: gs, pre, e, he, hl, hs => by
    have ih := fun e => conform_loopTup self ges ws gs (pre ++ [g]) e (by simp [he]) (by simpa using hl)
      (fun w' hw' g' hg' => hs w' (by simp [hw']) g' (by simp [hg']))
    have hg : TyGo.sliceGet ges pre.length = .ok g := by simp [TyGo.sliceGet, he]
    simp [testConformance_loop4, conformZip, hg, hs w (by simp) g (by simp)] at ih ⊢
    simpa [Nat.add_assoc] using ih (e + Ty.conformErrs w g)
  | [], _ :: _, _, _, _, h, _ => by simp at h
  | _ :: _, [], _, _, _, h, _ => by simp at h

theorem conform_fuel : ∀ (n : Nat) (g w : Ty) (e : Nat), wf g = true → wf w = true → TyGo.size g + TyGo.size w < n →
    testConformance_fuel n g w e = .ok (e + Ty.conformErrs w g)
  | 0, _, _, _, _, _, h => by omega
  | n + 1, g, w, e, hg, hw, h => by
    have e1 := typeEquals_eq w .dyn hw rfl
    have e2 := typeEquals_eq g w hg hw
    have ihL : ∀ ws gs : List Ty, wfL ws = true → wfL gs = true → TyGo.sizeL gs + TyGo.sizeL ws < n →
        ∀ w' ∈ ws, ∀ g' ∈ gs, ∀ e, testConformance_fuel n g' w' e = .ok (e + Ty.conformErrs w' g') := by
      intro ws gs hws hgs hs w' hw' g' hg' e
      have h1 := sizeL_mem hw'
      have h2 := sizeL_mem hg'
      exact conform_fuel n g' w' e (wfL_mem hgs hg') (wfL_mem hws hw') (by omega)
    simp only [testConformance_fuel, e1, e2, rbind_ok]
    cases w <;> cases g <;>
      simp [Type_IsPrimitiveType, Type_IsObjectType, Type_IsTupleType, Type_IsCapsuleType, Type_IsMapType,
        Type_IsListType, Type_IsSetType, Type_AttributeTypes, Type_TupleElementTypes, TyGo.elementType, Ty.equals,
        Ty.conformErrs, TyGo.size, wf] at h hg hw ⊢
    case capsule.capsule i j => split <;> simp
    case list.list we ge => by_cases hq : Ty.equals ge we = true <;> simp [hq, conform_fuel n ge we e hg hw (by omega)]
    case set.set we ge => by_cases hq : Ty.equals ge we = true <;> simp [hq, conform_fuel n ge we e hg hw (by omega)]
    case map.map we ge => by_cases hq : Ty.equals ge we = true <;> simp [hq, conform_fuel n ge we e hg hw (by omega)]
    case tuple.tuple ws gs =>
      split
      · simp
      · by_cases hl : gs.length = ws.length
        · have := conform_loopTup (testConformance_fuel n) gs ws gs [] e rfl hl.symm (ihL ws gs hw hg (by omega))
          simpa [hl] using this
        · simp [hl]
    case object.object wn wt wo gn gt go =>
      obtain ⟨⟨⟨l1, l1'⟩, a1⟩, w1⟩ := hw
      obtain ⟨⟨⟨l2, l2'⟩, a2⟩, w2⟩ := hg
      split
      · simp
      · rw [conform_loop1 _ (gn, gt) (wn, wt) l1, conform_loop2 _ (gn, gt) (wn, wt) l2,
          conform_loop3 _ gn gt go l2 l2' wn wt _ (ihL wt gt w1 w2 (by omega))]
        simp [Nat.add_assoc]

theorem conformErrs_eq (c t : Ty) (hc : wf c = true) (ht : wf t = true) :
    Generated.TyFns.conformErrs c t = .ok (Ty.conformErrs c t) := by
  simp [Generated.TyFns.conformErrs, Type_TestConformance, testConformance,
    conform_fuel _ t c 0 ht hc (Nat.lt_succ_self _)]

end TyFnsTie
end CtyModel
