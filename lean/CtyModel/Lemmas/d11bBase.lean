/-
C11, second deepening (slice d11b): shared lemmas for the per-function END-TO-END totality
theorems `call_total_<f>`.

* `call_total_of_good` / `call_total_of_good'`: the four obligations of
  `Fn.call_total_of_obligations` follow from two per-function facts — `Type` does not panic
  on an argument list satisfying the protocol's contract, and `Impl`, handed such a list and
  the type `Type` answered, "behaves" (`ImplGood`: no panic, a conforming value that the
  declared `refineNonNull` accepts).
* closure of `ImplGood` under the result idioms of the callbacks (`WithMarks`, unknown of the
  return type, a known value).
-/
import CtyModel.Lemmas.d11Total
namespace CtyModel
namespace Stdlib
open Fn Value
variable {nfc : String → Bool}

/-- totality of `Call` for a function declaring `RefineResult: refineNonNull` -/
theorem call_total_of_good (spec : Spec) (tf : TypeFn) (impl : ImplFn)
    (hr : spec.refine = some refineNN)
    (htf : ∀ as w, TypeArgsOK nfc spec as → tf as ≠ .panic w)
    (hgood : ∀ as rt, ImplArgsOK nfc spec as → tf as = .ok rt → ImplGood rt (impl as rt))
    (args : List Value) (hargs : ∀ a ∈ args, a.WF nfc = true) :
    (∀ w, (call spec tf impl args).1 ≠ .panic w) ∧
    (∀ w, (call spec tf impl args).1 ≠ .err (.panicError w)) :=
  call_total_of_obligations nfc spec tf impl htf
    (fun as rt w h ht => (hgood as rt h ht).1 w)
    (fun as rt v h ht hv => ((hgood as rt h ht).2 v hv).1)
    (fun rf hrf => by
      have : rf = refineNN := by rw [hr] at hrf; exact (Option.some.inj hrf).symm
      subst this
      exact ⟨fun as rt v h ht hv => ((hgood as rt h ht).2 v hv).2, fun as rt _ _ _ => refineNN_unknown rt⟩)
    args hargs

/-- totality of `Call` for a function declaring no `RefineResult` -/
theorem call_total_of_good' (spec : Spec) (tf : TypeFn) (impl : ImplFn)
    (hr : spec.refine = none)
    (htf : ∀ as w, TypeArgsOK nfc spec as → tf as ≠ .panic w)
    (hgood : ∀ as rt, ImplArgsOK nfc spec as → tf as = .ok rt → ImplGood' rt (impl as rt))
    (args : List Value) (hargs : ∀ a ∈ args, a.WF nfc = true) :
    (∀ w, (call spec tf impl args).1 ≠ .panic w) ∧
    (∀ w, (call spec tf impl args).1 ≠ .err (.panicError w)) :=
  call_total_of_obligations nfc spec tf impl htf
    (fun as rt w h ht => (hgood as rt h ht).1 w)
    (fun as rt v h ht hv => (hgood as rt h ht).2 v hv)
    (fun rf hrf => by rw [hr] at hrf; cases hrf)
    args hargs

/-! ### `ImplGood` under the result idioms -/

theorem implGood_panic_iff {rt : Ty} {r : Res Value} (h : ImplGood rt r) (w : String) : r ≠ .panic w := h.1 w

theorem implGood_withMarkSets {rt : Ty} {x : Value} (mss : List (List String)) (h : ImplGood rt (.ok x)) :
    ImplGood rt (.ok (withMarkSets x mss)) := by
  obtain ⟨h1, h2⟩ := h.2 x rfl
  refine implGood_ok ?_ ?_
  · show Ty.conformErrs rt (Fn.withMarkSets x mss).ty = 0
    rw [withMarkSets_ty]; exact h1
  · show refineNN (Fn.withMarkSets x mss).unmark ≠ none
    rw [unmark_withMarkSets]; exact h2

theorem implGood_map_withMarkSets {rt : Ty} {r : Res Value} (mss : List (List String)) (h : ImplGood rt r) :
    ImplGood rt (r.map (withMarkSets · mss)) := by
  cases r with
  | ok x => exact implGood_withMarkSets mss h
  | err c => exact implGood_err rt c
  | panic w => exact absurd rfl (h.1 w)
  | unmodelled => exact implGood_unmodelled rt

/-- the unknown of the return type -/
theorem implGood_unknown {rt : Ty} (h : rt.wf = true) : ImplGood rt (.ok (Value.unknown rt)) :=
  implGood_ok (conform_refl rt h) (by simpa [Value.unmark, Value.unknown, Payload.unmark1] using refineNN_unknown rt)

theorem implGood_unknown_dyn : ImplGood .dyn (.ok (Value.unknown .dyn)) := implGood_unknown rfl

/-- a known, non-null, unmarked value of a conforming, non-placeholder type -/
theorem implGood_known {rt : Ty} {v : Value} (hc : Ty.conformErrs rt v.ty = 0) (hm : v.v.isMarked = false)
    (hk : v.isKnown = true) (hn : v.isNull = false) (hb : ∀ w, v.v ≠ .bad w) (hd : v.ty.isDyn = false) :
    ImplGood rt (.ok v) := by
  refine implGood_ok hc ?_
  have hu : v.unmark = v := by
    obtain ⟨t, p⟩ := v
    cases p <;> simp_all [Value.unmark, Payload.unmark1, Payload.isMarked]
  rw [hu]
  exact refineNN_known hm hk hn hb hd

theorem implGood_cast {rt : Ty} {α} {r : Res α} (h : ∀ w, r ≠ .panic w) : ImplGood rt (Res.cast r) := by
  cases r with
  | ok x => exact implGood_unmodelled rt
  | err c => exact implGood_err rt c
  | panic w => exact absurd rfl (h w)
  | unmodelled => exact implGood_unmodelled rt

/-- `seq` values: a list / tuple payload is known, non-null, unmarked -/
theorem implGood_seq {rt t : Ty} {vs : List Payload} (hc : Ty.conformErrs rt t = 0) (hd : t.isDyn = false) :
    ImplGood rt (.ok ⟨t, .seq vs⟩) :=
  implGood_known hc rfl rfl rfl (fun _ h => by cases h) hd

/-! ### what the contract says about one argument -/

/-- known-ness / null-ness / marks of an argument under a parameter without `AllowNull`,
`AllowUnknown` -/
theorem arg_known_nonnull {p : Param} {a : Value} (h : ImplArgOK nfc p a) (hu : p.allowUnknown = false)
    (hn : p.allowNull = false) : a.isKnown = true ∧ a.isNull = false := by
  constructor
  · cases hk : a.isKnown
    · exact absurd (h.unk hk) (by simp [hu])
    · rfl
  · cases hh : a.isNull
    · rfl
    · exact absurd (h.null hh) (by simp [hn])

theorem arg_nonnull {p : Param} {a : Value} (h : ArgOK nfc p a) (hn : p.allowNull = false) : a.isNull = false := by
  cases hh : a.isNull
  · rfl
  · exact absurd (h.null hh) (by simp [hn])

theorem arg_not_dyn {p : Param} {a : Value} (h : ArgOK nfc p a) (hd : p.allowDynamic = false) : a.ty.isDyn = false := by
  cases hh : a.ty.isDyn
  · rfl
  · exact absurd (h.dyn hh) (by simp [hd])

/-- the unmarked argument: well-formed, unmarked, same known-ness and null-ness -/
theorem arg_unmark {p : Param} {a : Value} (h : ArgOK nfc p a) :
    a.unmark.WF nfc = true ∧ a.unmark.isMarked = false ∧ a.unmark.isKnown = a.isKnown ∧ a.unmark.isNull = a.isNull :=
  wf_unmark' h.wf

end Stdlib
end CtyModel
