/-
d03 — cty's `setRules` on the members `Payload.intMember` (well-formed, wholly
known, mark-free, every number an integer — at any precision): the rules are
lawful, `Less` is a strict order total between inequivalent members of a
primitive type; and the converse direction of "iteration order depends only on
the members iff `Less` orders them" for two members that share a bucket.
-/
import CtyModel.Lemmas.d03Less
import CtyModel.Lemmas.SetRefineAlg
namespace CtyModel
open Value

theorem ctyRules_less (e : Ty) : (ctyRules e).less = some (ctyLessB e) := rfl

theorem not_isMarked_of_clean {p : Payload} (h : p.containsMarked = false) : p.isMarked = false := by
  cases p <;> simp [Payload.containsMarked, Payload.isMarked] at h ⊢

/-- on unmarked well-formed members of a primitive type `ctyRules.less` is the
result `Less` returns (its default is not taken) and that is `primLessB` -/
theorem ctyLessB_prim {e : Ty} (he : e.isPrim = true) {x y : Payload}
    (wx : x.shaped e = true) (wy : y.shaped e = true) (mx : x.containsMarked = false)
    (my : y.containsMarked = false) :
    Value.setLess e x y = .ok (ctyLessB e x y) ∧ ctyLessB e x y = primLessB e x y := by
  have h := setLess_prim he wx wy (not_isMarked_of_clean mx) (not_isMarked_of_clean my)
  simp only [ctyLessB, h, and_self]

theorem ctyRules_hash_eq_ints {e : Ty} (hp : e.plain = true) {a b : Payload}
    (ha : a.intMember e = true) (hb : b.intMember e = true) (h : rawB e a b = true) :
    (ctyRules e).hash a = (ctyRules e).hash b := by
  obtain ⟨wa, _, ma, ia⟩ := Payload.intMember_spec ha
  obtain ⟨wb, _, mb, ib⟩ := Payload.intMember_spec hb
  have hbytes : hashBytes ⟨e, a⟩ = hashBytes ⟨e, b⟩ := hashBytesP_eq_of_rawB_ints hp wa ia wb ib h
  simp only [ctyRules, Value.hash, hbytes, Value.containsMarked, ma, mb]

namespace SetImpl
variable {α : Type} {R : Rules α}

/-- the set built from two inequivalent values of one bucket, and its iteration -/
theorem iter_fromList_pair (less : α → α → Bool) (hl : R.less = some less) {x y : α}
    (hh : R.hash x = R.hash y) (hne : R.equiv y x = false) :
    values (fromList R [x, y]) = [x, y] ∧
    iter R (fromList R [x, y]) = if less y x then [y, x] else [x, y] := by
  have hv : fromList R [x, y] = ⟨[(R.hash y, [x, y])]⟩ := by
    simp [fromList, addWhere, add, empty, lookup, setBucket, hh, hne]
  refine ⟨by rw [hv]; rfl, ?_⟩
  rw [hv]
  simp only [iter, hl, valuesSorted, values, sortStable, List.flatMap_cons, List.flatMap_nil, List.append_nil,
    List.foldl_cons, List.foldl_nil, insertBack]
  split <;> rfl

/-- **The converse direction, where it is true.**  For two inequivalent values
that share a bucket, the sets built in the two insertion orders iterate alike
exactly when `less` orders the two values (an antisymmetric `less`). -/
theorem order_indep_pair_iff (hR : R.Lawful) (less : α → α → Bool) (hl : R.less = some less) {x y : α}
    (hh : R.hash x = R.hash y) (hne : R.equiv x y = false)
    (hasym : ¬ (less x y = true ∧ less y x = true)) :
    iter R (fromList R [x, y]) = iter R (fromList R [y, x]) ↔ (less x y = true ∨ less y x = true) := by
  have hne' : R.equiv y x = false := Lawful.equiv_false_symm hR hne
  rw [(iter_fromList_pair less hl hh hne').2, (iter_fromList_pair less hl hh.symm hne).2]
  have hxy : x ≠ y := fun e => by subst e; rw [hR.refl x] at hne; cases hne
  cases h1 : less x y <;> cases h2 : less y x <;> simp_all

/-- **Any correct sort gives the model's answer.**  `sortStable` is Go's algorithm
only up to one insertion-sort block (20 elements); beyond that `sort.SliceStable`
merges blocks.  Under a strict order total on the (pairwise distinct) elements,
EVERY list that is a permutation of the input and ascending — whatever algorithm
produced it — is `sortStable less l`. -/
theorem sorted_perm_eq_sortStable (less : α → α → Bool) {l l' : List α} (h : StrictTotalOnList less l)
    (hp : l'.Perm l) (hs : l'.Pairwise (fun a b => less a b = true)) : l' = sortStable less l := by
  have s1 := sortStable_sorted less l h
  refine List.Perm.eq_of_pairwise ?_ hs s1 (hp.trans (sortStable_perm less l).symm)
  intro a b ha hb hab hba
  have ha' : a ∈ l := hp.mem_iff.mp ha
  have hb' : b ∈ l := (mem_sortStable less l b).mp hb
  have := h.trans a ha' b hb' a ha' hab hba
  rw [h.irrefl a ha'] at this
  cases this

end SetImpl
end CtyModel
